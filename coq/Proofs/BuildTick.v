(* Proofs.BuildTick — [v_tick_refresh] (fixes/C11-stale-own-tick-entry.patch): after a successful build of a project
   WITHOUT tick function the tick tag file, if there is one, names no function of this pack — whatever shielded it from
   the deletion (a #static folder, #copy, a tree whose namespace folder was removed by hand).  (C11.) *)
From Coq Require Import String List Bool Arith Lia.
From JMCV Require Import Model.FS Model.Build Proofs.FS Proofs.Build Proofs.BuildC10 Proofs.BuildC11 Proofs.BuildGate.
Import ListNotations.
Open Scope string_scope.
Open Scope list_scope.

Lemma strs_eqb_eq : forall a b, strs_eqb a b = true -> a = b.
Proof.
  induction a as [|x a IH]; intros [|y b] H; simpl in H; try discriminate; auto.
  apply andb_true_iff in H as [H1 H2]. apply String.eqb_eq in H1. subst. f_equal. auto.
Qed.

Lemma fsem_untouched : forall p ops i,
  (forall o, In o ops -> is_fop o = true -> op_path o <> p) -> fsem p ops i = i.
Proof.
  intros p ops. induction ops as [|o r IH]; intros i H; auto.
  unfold fsem in *. simpl. rewrite IH; [|intros; apply H; simpl; auto].
  unfold fstep. destruct (path_eqb (op_path o) p) eqn:E; auto. apply path_eqb_eq in E.
  destruct o; simpl in *; auto; exfalso; eapply (H _ (or_introl eq_refl)); simpl; eauto.
Qed.

Definition no_own (c : cfg) (l : list string) : Prop := forall e, In e l -> own_entry c e = false.

Lemma filter_no_own : forall c vs, no_own c (filter (fun v => negb (own_entry c v)) vs).
Proof. intros c vs e H. apply filter_In in H as [_ H]. apply negb_true_iff in H. exact H. Qed.

Lemma read_content_no_own : forall c f tv, read_content c f = Some tv -> no_own c tv.
Proof.
  intros c [[b|vs]|] tv H; simpl in H; inversion H; subst.
  - apply filter_no_own.
  - intros e [].
Qed.

Lemma read_tag_no_own : forall c cur p tv, read_tag c cur p = Some tv -> no_own c tv.
Proof. intros c cur p tv H. rewrite read_tag_content in H. eapply read_content_no_own; eauto. Qed.

Lemma early_tag_no_own : forall c h isd cur p tv, early_tag c h isd cur p = Some tv -> no_own c tv.
Proof.
  intros c h isd cur p tv H. unfold early_tag in H. destruct (copy_file h p).
  - eapply read_content_no_own; eauto.
  - destruct (isd && negb (excepted h p)).
    + inversion H. intros e [].
    + eapply read_tag_no_own; eauto.
Qed.

Lemma load_tick_neq : forall c, load_path c <> tick_path c.
Proof. intros c H. unfold load_path, tick_path in H. apply app_inv_head in H. discriminate. Qed.

Lemma write_files_untouched : forall c h o cur p x,
  (forall w, In w (map fst (out_files c h o)) -> w <> p) ->
  In x (write_files cur (out_files c h o)) -> is_fop x = true -> op_path x <> p.
Proof.
  intros c h o cur p x Hne Hin Hf. apply write_files_shape in Hin as (w & s & cur' & Hw & Hx).
  destruct (out_files_in _ _ _ _ _ Hw) as [_ Hnn].
  apply write_file_shape in Hx as (_ & _ & [Hm|Hp]); auto.
  - destruct x; simpl in *; discriminate.
  - rewrite Hp. apply Hne. apply in_map_iff. exists (w, s). auto.
Qed.

(* the write phase, from the state [m] the deletion left *)
Lemma write_phase_tick : forall v c h o tg m w s' vs,
  v_tick_refresh v = true -> o_tick o = false ->
  (forall q, In q (map fst (out_files c h o)) -> q <> tick_path c) ->
  (forall lv tv, tg = Some (lv, tv) -> no_own c tv) ->
  write_phase v c h o tg m = (w, RDone) -> exec w m = Some s' ->
  file_at s' (tick_path c) = Some (Tag vs) -> no_own c vs.
Proof.
  intros v c h o tg m w s' vs Hr Ht Hout Htg W E Hfile.
  rewrite write_phase_unfold in W. cbv zeta in W.
  set (pre := pre_ops (v_cert_atomic v) c h m) in *.
  destruct (tags_at c tg (run_ops pre m)) as [[lv|] [tv|]] eqn:Eta; try discriminate.
  inversion W; subst w. clear W.
  apply exec_app_inv in E as (k3 & K3 & E). rewrite (run_ops_exec _ _ _ K3) in *.
  assert (Htv : no_own c tv).
  { unfold tags_at in Eta. destruct tg as [[lv0 tv0]|].
    - inversion Eta; subst. eapply Htg; eauto.
    - inversion Eta as [[E1 E2]]. eapply read_tag_no_own; eauto. }
  rewrite (file_at_exec _ _ _ (tick_path c) E) in Hfile. unfold post_ops in Hfile.
  rewrite !fsem_app in Hfile.
  (* pack.mcmeta and the emitted files are elsewhere *)
  rewrite (fsem_untouched (tick_path c) (meta_ops h o)) in Hfile.
  2:{ intros x Hx _. unfold meta_ops in Hx. destruct (h_nometa h); [contradiction|].
      destruct Hx as [<-|[<-|[]]]; simpl; unfold meta_path, tick_path, tags_dir; discriminate. }
  rewrite (fsem_untouched (tick_path c) (write_files _ _)) in Hfile.
  2:{ intros x Hx Hf. eapply write_files_untouched; eauto. }
  (* the tag files *)
  unfold tag_ops in Hfile. rewrite Ht, Hr, fsem_app in Hfile.
  rewrite (fsem_untouched (tick_path c) [Create (load_path c); Write (load_path c) _]) in Hfile.
  2:{ intros x Hx _. destruct Hx as [<-|[<-|[]]]; simpl; apply load_tick_neq. }
  unfold tick_refresh_ops in Hfile. destruct (file_at k3 (tick_path c)) as [[b|vs0]|] eqn:Ek.
  - simpl in Hfile. discriminate.
  - destruct (strs_eqb vs0 tv) eqn:Eq.
    + simpl in Hfile. inversion Hfile; subst vs0. apply strs_eqb_eq in Eq. subst. exact Htv.
    + unfold fsem in Hfile. cbn [fold_left] in Hfile. unfold fstep in Hfile. cbn [op_path] in Hfile.
      rewrite !path_eqb_refl in Hfile. inversion Hfile; subst. exact Htv.
  - simpl in Hfile. discriminate.
Qed.

Lemma build_tick : forall v c h o isd cur pl s' vs,
  v_tick_refresh v = true -> o_tick o = false ->
  (forall q, In q (map fst (out_files c h o)) -> q <> tick_path c) ->
  build v c h o isd None cur = (pl, RDone) -> exec pl cur = Some s' ->
  file_at s' (tick_path c) = Some (Tag vs) -> no_own c vs.
Proof.
  intros v c h o isd cur pl s' vs Hr Ht Hout B E Hfile. unfold build in B.
  assert (G : forall tg, (forall lv tv, tg = Some (lv, tv) -> no_own c tv) ->
              build_with v c h o tg isd None cur = (pl, RDone) -> no_own c vs).
  { intros tg Htg BW. unfold build_with in BW.
    set (dops := if isd then del_phase h cur (del_list v c h) else []) in *.
    destruct (write_phase v c h o tg (run_ops dops cur)) as [w r] eqn:W. inversion BW; subst pl r.
    apply exec_app_inv in E as (m & D & E). rewrite (run_ops_exec _ _ _ D) in W.
    eapply write_phase_tick; eauto. }
  destruct (v_tags_early v).
  - destruct (early_tag c h isd cur (load_path c)) as [lv|] eqn:El; [|discriminate].
    destruct (early_tag c h isd cur (tick_path c)) as [tv|] eqn:Et; [|discriminate].
    apply (G (Some (lv, tv))); auto. intros lv0 tv0 Heq. inversion Heq; subst. eapply early_tag_no_own; eauto.
  - apply (G None); auto. intros; discriminate.
Qed.

(* C11: with [v_tick_refresh], after a successful build of a project without tick function the tick tag names no function of
   this pack - from ANY initial tree, with any #static / #copy / #override, whether or not the old output was deleted. *)
Theorem tick_no_stale_own : forall v c h o s pl s' vs e,
  v_tick_refresh v = true -> o_tick o = false ->
  (forall q, In q (map fst (out_files c h o)) -> q <> tick_path c) ->
  run v c h (Success o) None s = (pl, RDone) -> exec pl s = Some s' ->
  file_at s' (tick_path c) = Some (Tag vs) -> In e vs -> own_entry c e = false.
Proof.
  intros v c h o s pl s' vs e Hr Ht Hout R E Hfile He.
  apply run_done_core in R as [R _]. unfold run_core in R.
  assert (N : no_own c vs); [|exact (N e He)].
  destruct (is_dir s (ns_dir c)).
  - destruct (is_file s (cert_path c)); [|discriminate]. eapply build_tick; eauto.
  - set (ops0 := if v_cert_early v then make_cert (v_cert_atomic v) c s else []) in *.
    destruct (build v c h o false None (run_ops ops0 s)) as [ops r] eqn:B. inversion R; subst pl r.
    apply exec_app_inv in E as (m & D & E). rewrite (run_ops_exec _ _ _ D) in B. eapply build_tick; eauto.
Qed.
