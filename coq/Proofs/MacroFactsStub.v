(* Proofs.MacroFactsStub — append_token without macros (used by the simulation proof). *)
From Coq Require Import ZArith String List Bool Ascii.
From JMCV Require Import Model.Layout.
Import ListNotations.
Lemma append_token_left_alone_nil ty st :
  append_token [] ty st =
  Ok (push_tokens st [mkTok ty (fst (s_tpos st)) (snd (s_tpos st)) (rev (s_tstr st)) 0 None (s_pglued st)]).
Proof. unfold append_token. destruct (s_tpos st). destruct ty; reflexivity. Qed.
