(* Proofs.DeclNames — the duplicate test of function declarations against `functions` / `lazy_func` (Model/DeclNames.v). *)
From Coq Require Import String List Bool Arith Lia.
From JMCV Require Import Model.DeclNames.
Import ListNotations.

Lemma amem_cons : forall p q i l, amem p ((q, i) :: l) = String.eqb p q || amem p l.
Proof. intros p q i l. unfold amem. simpl. destruct (String.eqb p q); reflexivity. Qed.

Lemma amem_nil : forall p, amem p [] = false.
Proof. reflexivity. Qed.

Lemma decompose_cons : forall (e : event) r pre k p post,
  e :: r = pre ++ Decl k p :: post ->
  (pre = [] /\ e = Decl k p /\ r = post) \/ (exists pre', pre = e :: pre' /\ r = pre' ++ Decl k p :: post).
Proof.
  intros e r pre k p post H. destruct pre as [|e' pre']; simpl in H.
  - left. injection H as H1 H2. auto.
  - right. injection H as H1 H2. subst e'. exists pre'. auto.
Qed.

(* ------------------------------------------------------------------ repaired: both tables are consulted *)
Definition agree (t : tables) (seen : list string) : Prop :=
  forall p, declared true p t = true <-> In p seen.

Lemma agree_empty : agree no_tables [].
Proof. intros p. unfold declared. simpl. split; [discriminate|tauto]. Qed.

Lemma agree_store : forall t seen k p i, agree t seen -> agree (store k p i t) (seen ++ [p]).
Proof.
  intros t seen k p i A q. specialize (A q). unfold declared in *. rewrite in_app_iff. simpl.
  assert (E : (String.eqb q p = true) <-> p = q) by (rewrite String.eqb_eq; split; congruence).
  destruct k; simpl; rewrite amem_cons;
    repeat rewrite orb_true_iff in *; rewrite ?andb_true_l in *; rewrite ?orb_true_iff in *; tauto.
Qed.

Lemma run_true_done_iff : forall evs i t seen,
  agree t seen ->
  (exists t' cs, run true i evs t = Done t' cs) <->
  (NoDup (dpaths evs) /\ forall p, In p (dpaths evs) -> ~ In p seen).
Proof.
  induction evs as [|e r IH]; intros i t seen A.
  - simpl. split; [intros _; split; [constructor|tauto]|intros _; eauto].
  - destruct e as [k p|p]; simpl.
    + destruct (declared true p t) eqn:D.
      * split; [intros (t' & cs & H); discriminate|].
        intros [_ H]. exfalso. apply (H p); [now left|]. now apply A.
      * assert (N : ~ In p seen) by (intros H; apply A in H; congruence).
        rewrite (IH (S i) (store k p i t) (seen ++ [p]) (agree_store t seen k p i A)).
        split.
        -- intros [ND H]. split.
           ++ constructor; [|exact ND]. intros I. apply (H p I). rewrite in_app_iff. simpl. tauto.
           ++ intros q [->|I]; [exact N|]. intros I2. apply (H q I). rewrite in_app_iff. tauto.
        -- intros [ND H]. inversion ND as [|x l NI ND']; subst. split; [exact ND'|].
           intros q I. rewrite in_app_iff. simpl. intros [I2|[->|[]]]; [apply (H q); tauto|tauto].
    + rewrite <- (IH (S i) t seen A). split.
      * intros (t' & cs & H). destruct (run true (S i) r t); [discriminate|eauto].
      * intros (t' & cs & H). rewrite H. eauto.
Qed.

Lemma run_true_rej_iff : forall evs i t seen j,
  agree t seen ->
  run true i evs t = Rej j <->
  exists pre k p post, evs = pre ++ Decl k p :: post /\ j = i + length pre /\ NoDup (dpaths pre) /\
                       (forall q, In q (dpaths pre) -> ~ In q seen) /\ In p (seen ++ dpaths pre).
Proof.
  induction evs as [|e r IH]; intros i t seen j A.
  - simpl. split; [discriminate|]. intros (pre & k & p & post & H & _). destruct pre; discriminate.
  - destruct e as [k p|p]; simpl.
    + destruct (declared true p t) eqn:D.
      * split.
        -- intros H. injection H as <-. exists [], k, p, r. simpl. repeat split; try tauto; try lia; try constructor.
           rewrite app_nil_r. now apply A.
        -- intros (pre & k' & p' & post & H & J & ND & DJ & I).
           destruct (decompose_cons _ _ _ _ _ _ H) as [(-> & _ & _)|(pre' & -> & _)].
           ++ simpl in J. f_equal. lia.
           ++ exfalso. simpl in DJ. apply (DJ p); [now left|]. now apply A.
      * assert (N : ~ In p seen) by (intros H; apply A in H; congruence).
        rewrite (IH (S i) (store k p i t) (seen ++ [p]) j (agree_store t seen k p i A)). split.
        -- intros (pre & k' & p' & post & -> & -> & ND & DJ & I). exists (Decl k p :: pre), k', p', post.
           simpl. repeat split; try lia.
           ++ constructor; [|exact ND]. intros I2. apply (DJ p I2). rewrite in_app_iff. simpl. tauto.
           ++ intros q [->|I2]; [exact N|]. intros I3. apply (DJ q I2). rewrite in_app_iff. tauto.
           ++ rewrite <- app_assoc in I. exact I.
        -- intros (pre & k' & p' & post & H & J & ND & DJ & I).
           destruct (decompose_cons _ _ _ _ _ _ H) as [(-> & E & _)|(pre' & -> & ->)].
           ++ exfalso. injection E as _ <-. simpl in I. rewrite app_nil_r in I. tauto.
           ++ simpl in *. exists pre', k', p', post. inversion ND as [|x l NI ND']; subst.
              repeat split; try lia; try assumption.
              ** intros q I2. rewrite in_app_iff. simpl. intros [I3|[->|[]]]; [apply (DJ q); tauto|tauto].
              ** rewrite <- app_assoc. exact I.
    + assert (X : (exists pre k p0 post, Call p :: r = pre ++ Decl k p0 :: post /\ j = i + length pre /\ NoDup (dpaths pre) /\
                                        (forall q, In q (dpaths pre) -> ~ In q seen) /\ In p0 (seen ++ dpaths pre)) <->
                  (exists pre k p0 post, r = pre ++ Decl k p0 :: post /\ j = S i + length pre /\ NoDup (dpaths pre) /\
                                        (forall q, In q (dpaths pre) -> ~ In q seen) /\ In p0 (seen ++ dpaths pre))).
      { split.
        - intros (pre & k & p0 & post & H & J & ND & DJ & I).
          destruct (decompose_cons _ _ _ _ _ _ H) as [(_ & E2 & _)|(pre' & -> & ->)]; [discriminate|].
          exists pre', k, p0, post. simpl in *. repeat split; try lia; assumption.
        - intros (pre & k & p0 & post & -> & -> & ND & DJ & I). exists (Call p :: pre), k, p0, post.
          simpl. repeat split; try lia; assumption. }
      rewrite X. rewrite <- (IH (S i) t seen j A). split.
      * intros H. destruct (run true (S i) r t) eqn:E; [exact H|discriminate].
      * intros H. rewrite H. reflexivity.
Qed.

Theorem repaired_accepts_iff_distinct : forall evs,
  (exists t cs, run true 0 evs no_tables = Done t cs) <-> NoDup (dpaths evs).
Proof.
  intros evs. rewrite (run_true_done_iff evs 0 no_tables [] agree_empty). split; [tauto|]. intros H. split; [exact H|tauto].
Qed.

Theorem repaired_rejects_first_duplicate : forall evs j,
  run true 0 evs no_tables = Rej j <->
  exists pre k p post, evs = pre ++ Decl k p :: post /\ j = length pre /\ NoDup (dpaths pre) /\ In p (dpaths pre).
Proof.
  intros evs j. rewrite (run_true_rej_iff evs 0 no_tables [] j agree_empty). split.
  - intros (pre & k & p & post & H & J & ND & _ & I). exists pre, k, p, post. simpl in *. auto.
  - intros (pre & k & p & post & H & J & ND & I). exists pre, k, p, post. simpl. repeat split; auto.
Qed.

(* ------------------------------------------------------------------ pinned: only `functions` is consulted *)
Definition agreef (t : tables) (seen : list string) : Prop :=
  forall p, amem p (t_funs t) = true <-> In p seen.

Lemma declared_false : forall p t, declared false p t = amem p (t_funs t).
Proof. intros. unfold declared. simpl. now rewrite orb_false_r. Qed.

Lemma fpaths_template : forall p r, fpaths (Decl KTemplate p :: r) = fpaths r.
Proof. reflexivity. Qed.

Lemma run_false_done_iff : forall evs i t seen,
  agreef t seen ->
  (exists t' cs, run false i evs t = Done t' cs) <->
  (forall pre k p post, evs = pre ++ Decl k p :: post -> ~ In p (seen ++ fpaths pre)).
Proof.
  induction evs as [|e r IH]; intros i t seen A.
  - simpl. split; [|eauto]. intros _ pre k p post H. destruct pre; discriminate.
  - destruct e as [k p|p]; simpl.
    + rewrite declared_false. destruct (amem p (t_funs t)) eqn:D.
      * split; [intros (t' & cs & H); discriminate|].
        intros H. exfalso. apply (H [] k p r eq_refl). simpl. rewrite app_nil_r. now apply A.
      * assert (N : ~ In p seen) by (intros H; apply A in H; congruence).
        destruct k.
        -- (* plain *)
           assert (A' : agreef (store KPlain p i t) (seen ++ [p])).
           { intros q. simpl. rewrite amem_cons, orb_true_iff, in_app_iff, String.eqb_eq. simpl. specialize (A q).
             split; [intros [->|H]; [tauto|left; now apply A]|intros [H|[->|[]]]; [right; now apply A|now left]]. }
           rewrite (IH (S i) _ _ A'). split.
           ++ intros H pre k p0 post E. destruct (decompose_cons _ _ _ _ _ _ E) as [(-> & E2 & _)|(pre' & -> & ->)].
              ** injection E2 as _ <-. simpl. now rewrite app_nil_r.
              ** simpl. specialize (H pre' k p0 post eq_refl). now rewrite <- app_assoc in H.
           ++ intros H pre k p0 post ->. specialize (H (Decl KPlain p :: pre) k p0 post eq_refl).
              simpl in H. now rewrite <- app_assoc.
        -- (* saved *)
           assert (A' : agreef (store KSaved p i t) (seen ++ [p])).
           { intros q. simpl. rewrite amem_cons, orb_true_iff, in_app_iff, String.eqb_eq. simpl. specialize (A q).
             split; [intros [->|H]; [tauto|left; now apply A]|intros [H|[->|[]]]; [right; now apply A|now left]]. }
           rewrite (IH (S i) _ _ A'). split.
           ++ intros H pre k p0 post E. destruct (decompose_cons _ _ _ _ _ _ E) as [(-> & E2 & _)|(pre' & -> & ->)].
              ** injection E2 as _ <-. simpl. now rewrite app_nil_r.
              ** simpl. specialize (H pre' k p0 post eq_refl). now rewrite <- app_assoc in H.
           ++ intros H pre k p0 post ->. specialize (H (Decl KSaved p :: pre) k p0 post eq_refl).
              simpl in H. now rewrite <- app_assoc.
        -- (* template: `functions` is unchanged *)
           assert (A' : agreef (store KTemplate p i t) seen) by exact A.
           rewrite (IH (S i) _ _ A'). split.
           ++ intros H pre k p0 post E. destruct (decompose_cons _ _ _ _ _ _ E) as [(-> & E2 & _)|(pre' & -> & ->)].
              ** injection E2 as _ <-. simpl. now rewrite app_nil_r.
              ** rewrite fpaths_template. exact (H pre' k p0 post eq_refl).
           ++ intros H pre k p0 post ->. exact (H (Decl KTemplate p :: pre) k p0 post eq_refl).
    + assert (X : (forall pre k p0 post, Call p :: r = pre ++ Decl k p0 :: post -> ~ In p0 (seen ++ fpaths pre)) <->
                  (forall pre k p0 post, r = pre ++ Decl k p0 :: post -> ~ In p0 (seen ++ fpaths pre))).
      { split.
        - intros H pre k p0 post ->. exact (H (Call p :: pre) k p0 post eq_refl).
        - intros H pre k p0 post E. destruct (decompose_cons _ _ _ _ _ _ E) as [(_ & E2 & _)|(pre' & -> & ->)]; [discriminate|].
          exact (H pre' k p0 post eq_refl). }
      rewrite X. rewrite <- (IH (S i) t seen A). split.
      * intros (t' & cs & H). destruct (run false (S i) r t); [discriminate|eauto].
      * intros (t' & cs & H). rewrite H. eauto.
Qed.

Theorem pinned_accepts_iff : forall evs,
  (exists t cs, run false 0 evs no_tables = Done t cs) <->
  (forall pre k p post, evs = pre ++ Decl k p :: post -> ~ In p (fpaths pre)).
Proof.
  intros evs. assert (A : agreef no_tables []) by (intros p; simpl; split; [discriminate|tauto]).
  exact (run_false_done_iff evs 0 no_tables [] A).
Qed.

Lemma no_earlier_file_nodup : forall evs,
  (forall pre k p post, evs = pre ++ Decl k p :: post -> ~ In p (fpaths pre)) -> NoDup (fpaths evs).
Proof.
  induction evs as [|r e IH] using rev_ind; intros H; [constructor|].
  assert (IH' : NoDup (fpaths e)).
  { apply IH. intros pre k p post ->. specialize (H pre k p (post ++ [r])). rewrite <- app_assoc in H. exact (H eq_refl). }
  assert (F : forall a b, fpaths (a ++ b) = fpaths a ++ fpaths b).
  { induction a as [|x a IHa]; intros b; [reflexivity|]. destruct x as [[| |] q|q]; simpl; now rewrite IHa. }
  rewrite F. destruct r as [[| |] q|q]; simpl; rewrite ?app_nil_r; try exact IH'.
  - specialize (H e KPlain q [] eq_refl). clear -H IH'. induction (fpaths e) as [|x l IHl]; simpl; [constructor; [tauto|constructor]|].
    inversion IH'; subst. constructor; [rewrite in_app_iff; simpl in *; intuition congruence|apply IHl; simpl in *; tauto].
  - specialize (H e KSaved q [] eq_refl). clear -H IH'. induction (fpaths e) as [|x l IHl]; simpl; [constructor; [tauto|constructor]|].
    inversion IH'; subst. constructor; [rewrite in_app_iff; simpl in *; intuition congruence|apply IHl; simpl in *; tauto].
Qed.

(* ------------------------------------------------------------------ what a call resolves to *)
Definition reflects (pre : list event) (t : tables) : Prop :=
  (forall p i, aget p (t_lazy t) = Some i -> nth_error pre i = Some (Decl KTemplate p)) /\
  (forall p i, nth_error pre i = Some (Decl KTemplate p) -> amem p (t_lazy t) = true) /\
  (forall p i, aget p (t_funs t) = Some i -> exists k, k <> KTemplate /\ nth_error pre i = Some (Decl k p)) /\
  (forall p i k, k <> KTemplate -> nth_error pre i = Some (Decl k p) -> amem p (t_funs t) = true).

Lemma nth_snoc_inv : forall (pre : list event) e i x,
  nth_error (pre ++ [e]) i = Some x -> (i < length pre /\ nth_error pre i = Some x) \/ (i = length pre /\ x = e).
Proof.
  intros pre e i x H. destruct (Nat.lt_ge_cases i (length pre)) as [L|G].
  - left. rewrite nth_error_app1 in H by exact L. auto.
  - right. rewrite nth_error_app2 in H by exact G. destruct (i - length pre) as [|n] eqn:E.
    + simpl in H. injection H as <-. split; [lia|reflexivity].
    + simpl in H. destruct n; discriminate.
Qed.

Lemma nth_snoc_old : forall (pre : list event) e i x, nth_error pre i = Some x -> nth_error (pre ++ [e]) i = Some x.
Proof. intros pre e i x H. rewrite nth_error_app1; [exact H|]. apply nth_error_Some. congruence. Qed.

Lemma nth_snoc_new : forall (pre : list event) e, nth_error (pre ++ [e]) (length pre) = Some e.
Proof. intros. rewrite nth_error_app2 by lia. now rewrite Nat.sub_diag. Qed.

Lemma aget_cons : forall p q i l, aget p ((q, i) :: l) = if String.eqb p q then Some i else aget p l.
Proof. reflexivity. Qed.

Lemma reflects_call : forall pre t p, reflects pre t -> reflects (pre ++ [Call p]) t.
Proof.
  intros pre t p (R1 & R2 & R3 & R4). repeat split.
  - intros q i H. apply nth_snoc_old. now apply R1.
  - intros q i H. destruct (nth_snoc_inv _ _ _ _ H) as [[_ H']|[_ H']]; [now apply (R2 q i)|discriminate].
  - intros q i H. destruct (R3 q i H) as (k & K & N). exists k. split; [exact K|now apply nth_snoc_old].
  - intros q i k K H. destruct (nth_snoc_inv _ _ _ _ H) as [[_ H']|[_ H']]; [now apply (R4 q i k)|discriminate].
Qed.

Lemma reflects_decl : forall pre t k p, reflects pre t -> reflects (pre ++ [Decl k p]) (store k p (length pre) t).
Proof.
  intros pre t k p (R1 & R2 & R3 & R4).
  assert (T : forall q i, aget q (t_lazy t) = Some i -> nth_error (pre ++ [Decl k p]) i = Some (Decl KTemplate q))
    by (intros q i H; apply nth_snoc_old; now apply R1).
  assert (F : forall q i, aget q (t_funs t) = Some i -> exists k0, k0 <> KTemplate /\ nth_error (pre ++ [Decl k p]) i = Some (Decl k0 q))
    by (intros q i H; destruct (R3 q i H) as (k0 & K & N); exists k0; split; [exact K|now apply nth_snoc_old]).
  assert (T2 : forall q i, nth_error (pre ++ [Decl k p]) i = Some (Decl KTemplate q) -> k <> KTemplate -> amem q (t_lazy t) = true).
  { intros q i H K. destruct (nth_snoc_inv _ _ _ _ H) as [[_ H']|[_ H']]; [now apply (R2 q i)|]. injection H' as E1 E2. congruence. }
  assert (F2 : forall q i k0, k0 <> KTemplate -> nth_error (pre ++ [Decl k p]) i = Some (Decl k0 q) -> k = KTemplate -> amem q (t_funs t) = true).
  { intros q i k0 K H K2. destruct (nth_snoc_inv _ _ _ _ H) as [[_ H']|[_ H']]; [now apply (R4 q i k0)|]. injection H' as E1 E2. congruence. }
  assert (NEWF : forall q i, k <> KTemplate -> aget q ((p, length pre) :: t_funs t) = Some i ->
                 exists k0, k0 <> KTemplate /\ nth_error (pre ++ [Decl k p]) i = Some (Decl k0 q)).
  { intros q i K. rewrite aget_cons. destruct (String.eqb q p) eqn:E; [|apply F].
    apply String.eqb_eq in E. subst q. intros H. injection H as <-. exists k. split; [exact K|apply nth_snoc_new]. }
  assert (NEWF2 : forall q i k0, k0 <> KTemplate -> nth_error (pre ++ [Decl k p]) i = Some (Decl k0 q) ->
                  amem q ((p, length pre) :: t_funs t) = true).
  { intros q i k0 K H. rewrite amem_cons. destruct (nth_snoc_inv _ _ _ _ H) as [[_ H']|[_ H']].
    - rewrite (R4 q i k0 K H'). apply orb_true_r.
    - injection H' as _ ->. now rewrite String.eqb_refl. }
  unfold reflects, store. destruct k; cbn [t_funs t_lazy].
  - split; [exact T|]. split; [intros q i H; apply (T2 q i H); discriminate|]. split; [intros q i; apply NEWF; discriminate|exact NEWF2].
  - split; [exact T|]. split; [intros q i H; apply (T2 q i H); discriminate|]. split; [intros q i; apply NEWF; discriminate|exact NEWF2].
  - split; [|split; [|split; [exact F|intros q i k0 K H; now apply (F2 q i k0 K H)]]].
    + intros q i. rewrite aget_cons. destruct (String.eqb q p) eqn:E; [|apply T].
      apply String.eqb_eq in E. subst q. intros H. injection H as <-. apply nth_snoc_new.
    + intros q i H. rewrite amem_cons. destruct (nth_snoc_inv _ _ _ _ H) as [[_ H']|[_ H']].
      * rewrite (R2 q i H'). apply orb_true_r.
      * injection H' as ->. now rewrite String.eqb_refl.
Qed.

Definition call_ok (all : list event) (c : nat * string * resolution) : Prop :=
  match c with
  | (j, p, r) =>
      nth_error all j = Some (Call p) /\
      match r with
      | RExpand i => i < j /\ nth_error all i = Some (Decl KTemplate p)
      | RFile => forall i, i < j -> nth_error all i <> Some (Decl KTemplate p)
      end
  end.

Lemma run_calls : forall fixed evs pre t0 t cs,
  reflects pre t0 -> run fixed (length pre) evs t0 = Done t cs ->
  reflects (pre ++ evs) t /\
  (forall j p, length pre <= j -> nth_error (pre ++ evs) j = Some (Call p) -> exists r, In (j, p, r) cs) /\
  (forall c, In c cs -> call_ok (pre ++ evs) c).
Proof.
  intros fixed. induction evs as [|e r IH]; intros pre t0 t cs R H.
  - simpl in H. injection H as <- <-. rewrite app_nil_r. split; [exact R|]. split.
    + intros j p L N. exfalso. apply nth_error_None in L. congruence.
    + intros c [].
  - assert (EQ : pre ++ e :: r = (pre ++ [e]) ++ r) by (rewrite <- app_assoc; reflexivity).
    assert (LEN : length (pre ++ [e]) = S (length pre)) by (rewrite app_length; simpl; lia).
    rewrite EQ. destruct e as [k p|p]; simpl in H.
    + destruct (declared fixed p t0); [discriminate|].
      rewrite <- LEN in H. destruct (IH _ _ _ _ (reflects_decl pre t0 k p R) H) as (I1 & I2 & I3).
      split; [exact I1|]. split; [|exact I3].
      intros j q L N. apply I2; [|exact N]. rewrite LEN.
      destruct (Nat.eq_dec j (length pre)) as [->|NE]; [|lia].
      rewrite nth_error_app1 in N by (rewrite LEN; lia). rewrite nth_snoc_new in N. discriminate.
    + destruct (run fixed (S (length pre)) r t0) as [|t' cs'] eqn:E; [discriminate|]. injection H as <- <-.
      rewrite <- LEN in E. destruct (IH _ _ _ _ (reflects_call pre t0 p R) E) as (I1 & I2 & I3).
      split; [exact I1|]. split.
      * intros j q L N. destruct (Nat.eq_dec j (length pre)) as [->|NE].
        -- rewrite nth_error_app1 in N by (rewrite LEN; lia). rewrite nth_snoc_new in N. injection N as <-.
           eexists. left. reflexivity.
        -- destruct (I2 j q) as (r0 & I); [rewrite LEN; lia|exact N|]. exists r0. now right.
      * intros c [<-|I]; [|now apply I3]. simpl. split.
        -- rewrite nth_error_app1 by (rewrite LEN; lia). apply nth_snoc_new.
        -- destruct R as (R1 & R2 & _). unfold resolve. destruct (aget p (t_lazy t0)) as [i|] eqn:G.
           ++ pose proof (R1 p i G) as N. assert (L : i < length pre) by (apply nth_error_Some; congruence).
              split; [exact L|]. rewrite nth_error_app1 by (rewrite LEN; lia). now apply nth_snoc_old.
           ++ intros i L N. rewrite nth_error_app1 in N by (rewrite LEN; lia). rewrite nth_error_app1 in N by exact L.
              pose proof (R2 p i N) as M. unfold amem in M. rewrite G in M. discriminate.
Qed.

Lemma decl_in_dpaths : forall evs i k p, nth_error evs i = Some (Decl k p) -> In p (dpaths evs).
Proof.
  induction evs as [|e r IH]; intros i k p H; [destruct i; discriminate|].
  destruct i as [|i]; simpl in H.
  - injection H as ->. now left.
  - destruct e; simpl; [right|]; eapply IH; eassumption.
Qed.

Lemma decl_unique : forall evs i i' k k' p,
  NoDup (dpaths evs) -> nth_error evs i = Some (Decl k p) -> nth_error evs i' = Some (Decl k' p) -> i = i' /\ k = k'.
Proof.
  induction evs as [|e r IH]; intros i i' k k' p ND H H'; [destruct i; discriminate|].
  destruct i as [|i], i' as [|i']; simpl in H, H'.
  - rewrite H in H'. injection H' as ->. auto.
  - exfalso. injection H as ->. simpl in ND. inversion ND; subst. eapply decl_in_dpaths in H'. tauto.
  - exfalso. injection H' as ->. simpl in ND. inversion ND; subst. eapply decl_in_dpaths in H. tauto.
  - assert (ND' : NoDup (dpaths r)) by (destruct e; simpl in ND; [now inversion ND|exact ND]).
    destruct (IH i i' k k' p ND' H H') as [-> ->]. auto.
Qed.

Theorem repaired_call_sites : forall evs t cs,
  run true 0 evs no_tables = Done t cs ->
  forall j p, nth_error evs j = Some (Call p) ->
  exists r, In (j, p, r) cs /\
    forall i k, nth_error evs i = Some (Decl k p) ->
      match k with
      | KTemplate => r = if i <? j then RExpand i else RFile
      | _ => r = RFile /\ aget p (t_funs t) = Some i
      end.
Proof.
  intros evs t cs H j p N.
  assert (ND : NoDup (dpaths evs)) by (apply repaired_accepts_iff_distinct; eauto).
  assert (R0 : reflects [] no_tables).
  { repeat split; simpl; try discriminate; intros q i; try intros k K; intros X; destruct i; discriminate. }
  destruct (run_calls true evs [] no_tables t cs R0 H) as ((R1 & R2 & R3 & R4) & C1 & C2). simpl in *.
  destruct (C1 j p (Nat.le_0_l _) N) as (r & I). exists r. split; [exact I|].
  intros i k D. pose proof (C2 _ I) as (_ & CR). simpl in CR.
  assert (NOT : forall k0, k0 <> KTemplate -> nth_error evs i = Some (Decl k0 p) -> r = RFile /\ aget p (t_funs t) = Some i).
  { intros k0 K D0. split.
    - destruct r as [i0|]; [|reflexivity]. destruct CR as [_ D1]. destruct (decl_unique _ _ _ _ _ _ ND D0 D1) as [_ ->]. congruence.
    - pose proof (R4 p i k0 K D0) as M. unfold amem in M. destruct (aget p (t_funs t)) as [i1|] eqn:G; [|discriminate].
      destruct (R3 p i1 G) as (k1 & _ & D1). destruct (decl_unique _ _ _ _ _ _ ND D0 D1) as [-> _]. reflexivity. }
  destruct k; [apply (NOT KPlain); [discriminate|exact D]|apply (NOT KSaved); [discriminate|exact D]|].
  destruct (i <? j) eqn:L.
  - apply Nat.ltb_lt in L. destruct r as [i0|].
    + destruct CR as [_ D1]. destruct (decl_unique _ _ _ _ _ _ ND D D1) as [-> _]. reflexivity.
    + exfalso. exact (CR i L D).
  - apply Nat.ltb_ge in L. destruct r as [i0|]; [|reflexivity].
    destruct CR as [L0 D1]. destruct (decl_unique _ _ _ _ _ _ ND D D1) as [-> _]. lia.
Qed.
