(* Proofs.LayoutSim — relayout invariance of the tokenizer (macro-free): the runs on s and on a
   re-layout s' go through states that are equal up to positions and up to the layout inside the
   bracket text collected so far.  Property C15. *)
From Coq Require Import ZArith String List Bool Ascii Lia.
From JMCV Require Import Model.Layout Proofs.LayoutBasic Proofs.LayoutAdj Proofs.LayoutAdj2 Proofs.MacroFactsStub.
Import ListNotations.
Open Scope Z_scope.

(* ------------------------------------------------------------------ relayout: basic facts *)
Lemma relayout_sym m s s' : relayout m s s' -> relayout m s' s.
Proof.
  induction 1; try (constructor; auto; fail).
  - apply rl_code; auto. intros E. destruct (H0 E). split; assumption.
Qed.

Lemma lay_item_nonempty w : lay_item w -> w <> [].
Proof. destruct 1; discriminate. Qed.
Lemma lay_run_nonempty w : lay_run w -> w <> [].
Proof.
  induction 1 as [i Hi|i r Hi Hr IH]; [apply lay_item_nonempty; assumption|].
  intros E. apply app_eq_nil in E. destruct E as [E _]. eapply lay_item_nonempty; eauto.
Qed.
Lemma lay_run_app a b : lay_run a -> lay_run b -> lay_run (a ++ b).
Proof.
  induction 1 as [i Hi|i r Hi Hr IH]; intros Hb; [apply lr_cons; assumption|].
  rewrite <- app_assoc. apply lr_cons; auto.
Qed.

(* ------------------------------------------------------------------ token and state relations *)
Definition paren_rel (s s' : str) : Prop :=
  exists o y y' cl, is_lparen o = true /\ code_char cl = true /\
                    s = o :: y ++ [cl] /\ s' = o :: y' ++ [cl] /\ relayout MCode (y ++ [cl]) (y' ++ [cl]).

Definition tok_sim (t t' : token) : Prop :=
  t_ty t = t_ty t' /\ t_mlen t = t_mlen t' /\ t_glued t = t_glued t' /\
  (if is_paren_ty (t_ty t) then paren_rel (t_str t) (t_str t') else t_str t = t_str t').

(* bracket text collected so far (x, x' : after the opening bracket, source order), as a context:
   whatever comes next, the whole is a relayout pair *)
Definition acc_rel (m : lmode) (sl : bool) (x x' : str) : Prop :=
  forall k k', relayout m k k' -> (m = MCode -> sl = true -> hd_not_slash k /\ hd_not_slash k') ->
               relayout MCode (x ++ k) (x' ++ k').

Definition mode_ok (m : lmode) (st : tstate) : Prop :=
  match m with
  | MCode =>
      match s_kind st with
      | SString | SComment => False
      | _ => s_instr st = false /\ s_incmt st = false /\ s_esc st = false
      end
  | MStr q e =>
      s_quote st = q /\ s_esc st = e /\ is_sdq q = true /\
      ((s_kind st = SString /\ s_instr st = false /\ s_incmt st = false) \/
       (s_kind st = SParen /\ s_instr st = true /\ s_incmt st = false))
  end.

Record sim (m : lmode) (st st' : tstate) : Prop := mkSim {
  sm_kind : s_kind st = s_kind st';
  sm_tstr : match s_kind st with
            | SParen => exists o x x', (is_lparen o = true /\ s_paren st = o) /\ s_tstr st = rev (o :: x) /\
                                       s_tstr st' = rev (o :: x') /\ acc_rel m (s_slash st) x x'
            | SNone | SComment => s_tstr st = [] /\ s_tstr st' = []
            | _ => s_tstr st = s_tstr st'
            end;
  sm_mode : mode_ok m st;
  sm_quote : s_quote st = s_quote st'; sm_esc : s_esc st = s_esc st';
  sm_paren : s_paren st = s_paren st'; sm_pcount : s_pcount st = s_pcount st';
  sm_instr : s_instr st = s_instr st'; sm_incmt : s_incmt st = s_incmt st';
  sm_slash : s_slash st = s_slash st'; sm_allowsc : s_allowsc st = s_allowsc st';
  sm_gap : s_gap st = s_gap st'; sm_ev : s_ev st = s_ev st';
  sm_pglued : pending (s_kind st) = true -> s_pglued st = s_pglued st';
  sm_kws : Forall2 tok_sim (s_kws st) (s_kws st');
  sm_lkws : Forall2 (Forall2 tok_sim) (s_lkws st) (s_lkws st')
}.

Lemma mode_ok_sim m st st' : sim m st st' -> mode_ok m st'.
Proof.
  intros S. pose proof (sm_mode _ _ _ S) as M. unfold mode_ok in *.
  rewrite <- (sm_kind _ _ _ S), <- (sm_instr _ _ _ S), <- (sm_incmt _ _ _ S), <- (sm_quote _ _ _ S), <- (sm_esc _ _ _ S).
  exact M.
Qed.

(* ------------------------------------------------------------------ tests on keywords see no layout *)
Lemma lparen_cases o : is_lparen o = true -> o = ch "(" \/ o = ch "[" \/ o = ch "{".
Proof.
  unfold is_lparen. rewrite !orb_true_iff. intros [[H|H]|H]; apply Ascii.eqb_eq in H; auto.
Qed.

Lemma str_test_sim (P : str -> bool) t t' :
  tok_sim t t' -> (forall o r, is_lparen o = true -> P (o :: r) = false) -> P (t_str t) = P (t_str t').
Proof.
  intros (Hty & _ & _ & Hs) HP. destruct (is_paren_ty (t_ty t)).
  - destruct Hs as (o & x & x' & cl & Ho & _ & -> & -> & _). rewrite !HP by assumption. reflexivity.
  - rewrite Hs. reflexivity.
Qed.

Lemma nth_str_sim k k' n (P : str -> bool) :
  Forall2 tok_sim k k' -> (forall o r, is_lparen o = true -> P (o :: r) = false) ->
  P (nth_str k n) = P (nth_str k' n).
Proof.
  intros H HP. revert n. induction H as [|t t' r r' Ht Hr IH]; intros n; [destruct n; reflexivity|].
  destruct n; cbn; [apply str_test_sim; assumption|]. apply IH.
Qed.

Lemma Forall2_rev {A B} (R : A -> B -> Prop) l l' : Forall2 R l l' -> Forall2 R (rev l) (rev l').
Proof.
  induction 1; cbn; [constructor|]. apply Forall2_app; [assumption|]. constructor; [assumption|constructor].
Qed.
Lemma Forall2_length' {A B} (R : A -> B -> Prop) l l' : Forall2 R l l' -> length l = length l'.
Proof. induction 1; cbn; congruence. Qed.

Ltac lp_cases Ho := destruct (lparen_cases _ Ho) as [-> | [-> | ->]]; reflexivity.

Lemma label_colon_sim k k' : Forall2 tok_sim k k' -> forall n i, label_colon k n i = label_colon k' n i.
Proof.
  induction 1 as [|t t' r r' Ht Hr IH]; intros n i; [destruct n; reflexivity|].
  destruct n; [reflexivity|]. cbn [label_colon].
  assert (E1 : t_ty t = t_ty t') by apply Ht. rewrite <- E1.
  rewrite (str_test_sim (fun s => str_eqb s (s2l ":")) t t' Ht) by (intros o r0 Ho; lp_cases Ho).
  destruct (_ && _); [reflexivity|apply IH].
Qed.

Lemma case_label_length_sim cf k k' : Forall2 tok_sim k k' -> case_label_length cf k = case_label_length cf k'.
Proof.
  intros H. unfold case_label_length.
  rewrite (nth_str_sim k k' 0 (fun s => mem_str s [s2l "case"; s2l "default"]) H)
    by (intros o r Ho; lp_cases Ho).
  rewrite (label_colon_sim k k' H). reflexivity.
Qed.

Lemma should_terminate_sim cf k k' n :
  Forall2 tok_sim k k' -> should_terminate_line cf (rev k) k n = should_terminate_line cf (rev k') k' n.
Proof.
  intros H. pose proof (Forall2_rev _ _ _ H) as Hr. unfold should_terminate_line.
  rewrite (case_label_length_sim cf _ _ Hr).
  set (j := (n + case_label_length cf (rev k'))%nat).
  rewrite (nth_str_sim _ _ j (fun s => mem_str (strip_dollar s) TERMINATE_LINE) Hr) by (intros o r Ho; lp_cases Ho).
  rewrite (nth_str_sim _ _ j (fun s => str_eqb (strip_dollar s) (s2l "execute")) Hr) by (intros o r Ho; lp_cases Ho).
  rewrite (nth_str_sim _ _ j (fun s => is_decorator (strip_dollar s)) Hr)
    by (intros o r Ho; destruct (lparen_cases _ Ho) as [-> | [-> | ->]]; cbn; apply andb_false_r).
  rewrite (nth_str_sim _ _ 1 (fun s => mem_str s [s2l "run"; s2l "expand"]) H) by (intros o r Ho; lp_cases Ho).
  rewrite (nth_str_sim _ _ 1 (fun s => str_eqb s (s2l "run")) H) by (intros o r Ho; lp_cases Ho).
  rewrite (nth_str_sim _ _ 2 (fun s => str_eqb s (s2l "return")) H) by (intros o r Ho; lp_cases Ho).
  rewrite (Forall2_length' _ _ _ Hr). reflexivity.
Qed.

Lemma is_shorten_if_sim cf k k' : Forall2 tok_sim k k' -> is_shorten_if cf k = is_shorten_if cf k'.
Proof.
  intros H. unfold is_shorten_if. rewrite (case_label_length_sim cf _ _ H).
  set (j := case_label_length cf k').
  rewrite (nth_str_sim _ _ j (fun s => str_eqb s (s2l "if")) H) by (intros o r Ho; lp_cases Ho).
  rewrite (nth_str_sim _ _ (j + 2) (fun s => str_eqb s (s2l "expand")) H) by (intros o r Ho; lp_cases Ho).
  rewrite (Forall2_length' _ _ _ H).
  assert (E : match nth_error k (j + 2) with Some t => negb (ttype_eqb (t_ty t) PAREN_CURLY) | None => true end =
              match nth_error k' (j + 2) with Some t => negb (ttype_eqb (t_ty t) PAREN_CURLY) | None => true end).
  { generalize (j + 2)%nat. induction H as [|t t' r r' Ht Hr IH]; intros n; [destruct n; reflexivity|].
    destruct n; cbn; [destruct Ht as (-> & _); reflexivity|apply IH]. }
  rewrite E. reflexivity.
Qed.

(* ------------------------------------------------------------------ macro-free append_token *)
Lemma append_nil ty st :
  append_token [] ty st =
  Ok (push_tokens st [mkTok ty (fst (s_tpos st)) (snd (s_tpos st)) (rev (s_tstr st)) 0 None (s_pglued st)]).
Proof. apply append_token_left_alone_nil. Qed.

(* ------------------------------------------------------------------ small facts *)
Lemma acc_rel_weaken m x x' : acc_rel m false x x' -> forall sl, acc_rel m sl x x'.
Proof. intros H sl k k' Hk _. apply H; [assumption|discriminate]. Qed.

Lemma acc_rel_str q e sl sl' x x' : acc_rel (MStr q e) sl x x' -> acc_rel (MStr q e) sl' x x'.
Proof. intros H k k' Hk _. apply H; [assumption|discriminate]. Qed.


Lemma code_char_not_nl c : code_char c = true -> is_nl c = false.
Proof.
  unfold code_char, is_nl. rewrite andb_true_iff, !negb_true_iff. intros [H _].
  destruct (Ascii.eqb_spec c NL) as [->|]; [discriminate H|reflexivity].
Qed.
Lemma code_char_not_ws c : code_char c = true -> is_ws c = false.
Proof. unfold code_char. rewrite andb_true_iff, !negb_true_iff. tauto. Qed.
Lemma code_char_not_quote c : code_char c = true -> is_quote c = false.
Proof. unfold code_char. rewrite andb_true_iff, !negb_true_iff. tauto. Qed.

Lemma sdq_is_quote q : is_sdq q = true -> is_quote q = true.
Proof. unfold is_sdq, is_quote. intros H. rewrite H. reflexivity. Qed.
Lemma sdq_not_bt q : is_sdq q = true -> Ascii.eqb q BT = false.
Proof.
  unfold is_sdq. rewrite orb_true_iff. intros [H|H]; apply Ascii.eqb_eq in H; subst; reflexivity.
Qed.
Lemma sdq_not_nl q : is_sdq q = true -> is_nl q = false.
Proof.
  unfold is_sdq. rewrite orb_true_iff. intros [H|H]; apply Ascii.eqb_eq in H; subst; reflexivity.
Qed.

Lemma Forall2_nil_iff {A B} (R : A -> B -> Prop) l l' : Forall2 R l l' -> (l = [] <-> l' = []).
Proof. destruct 1; split; congruence. Qed.

(* ------------------------------------------------------------------ opening a simulation *)
Ltac open_sim S st st' :=
  destruct S as [Sk St Sm Sq Se Sp Spc Si Sic Ssl Sa Sg Sev Spg Skw Slk];
  destruct st as [l0 c0 k0 t0 tp0 q0 e0 p0 pc0 is0 ic0 sl0 a0 kw0 lk0 g0 pg0 ev0];
  destruct st' as [l1 c1 k1 t1 tp1 q1 e1 p1 pc1 is1 ic1 sl1 a1 kw1 lk1 g1 pg1 ev1];
  cbn [s_line s_col s_kind s_tstr s_tpos s_quote s_esc s_paren s_pcount s_instr s_incmt s_slash s_allowsc
       s_kws s_lkws s_gap s_pglued s_ev] in *;
  subst k1 q1 e1 p1 pc1 is1 ic1 sl1 a1 g1 ev1.

Lemma sim_set_pos m st st' l c l' c' : sim m st st' -> sim m (set_pos st l c) (set_pos st' l' c').
Proof. intros S. destruct S. constructor; cbn; assumption. Qed.

Lemma sim_set_slash_nonparen m st st' b :
  sim m st st' -> s_kind st <> SParen -> sim m (set_slash st b) (set_slash st' b).
Proof.
  intros S Hk. destruct S. constructor; cbn; try assumption; try reflexivity.
  destruct (s_kind st); try assumption. congruence.
Qed.

Definition new_tok (ty : ttype) (st : tstate) : token :=
  mkTok ty (fst (s_tpos st)) (snd (s_tpos st)) (rev (s_tstr st)) 0 None (s_pglued st).

(* pushing related tokens keeps the simulation; the result is an idle state in code mode *)
Lemma sim_push m st st' t t' :
  sim m st st' -> tok_sim t t' ->
  s_instr st = false -> s_incmt st = false -> s_esc st = false ->
  sim MCode (push_tokens st [t]) (push_tokens st' [t']).
Proof.
  intros S Ht Hi Hc He. destruct S. constructor; cbn; auto. intros; discriminate.
Qed.

Lemma sim_append_keywords st st' st1 :
  sim MCode st st' -> s_kind st = SNone -> append_keywords st = Ok st1 ->
  exists st1', append_keywords st' = Ok st1' /\ sim MCode st1 st1'.
Proof.
  intros S Hk H. unfold append_keywords in *. pose proof (sm_kws _ _ _ S) as Hkw.
  destruct (s_kws st) as [|a K] eqn:E; [discriminate|]. inversion Hkw as [|? b ? K' Hab HK E1 E2]; subst.
  injection H as <-. eexists. split; [reflexivity|]. destruct S. constructor; cbn; auto.
  constructor; [|assumption]. change (rev K ++ [a]) with (rev (a :: K)). change (rev K' ++ [b]) with (rev (b :: K')).
  apply Forall2_rev. constructor; assumption.
Qed.

(* ------------------------------------------------------------------ the idle state meets a character *)
Definition next_mode (c : ascii) : lmode := if is_quote c then MStr c false else MCode.

(* what `step` does once the state is None (directly, or after a keyword/operator was flushed) *)
Definition none_tail (st : tstate) (c : ascii) : result tstate :=
  match parse_none [] st c with
  | Ok (st2, true) => Ok (set_slash st2 false)
  | Ok (st2, false) => Ok (set_slash st2 (Ascii.eqb c SLASH))
  | Err e => Err e
  end.

Lemma acc_rel_start sl : acc_rel MCode sl [] [].
Proof. intros k k' H _. exact H. Qed.

Lemma none_tail_sim st st' c st1 :
  sim MCode st st' -> s_kind st = SNone -> (code_char c = true \/ is_sdq c = true) ->
  none_tail st c = Ok st1 -> s_ev st1 = false ->
  exists st1', none_tail st' c = Ok st1' /\ sim (next_mode c) st1 st1'.
Proof.
  intros S Hk Hc H Hev. unfold none_tail, parse_none in *.
  pose proof (sm_mode _ _ _ S) as M. unfold mode_ok in M. rewrite Hk in M. destruct M as (Mi & Mc & Me).
  pose proof (Forall2_nil_iff _ _ _ (sm_kws _ _ _ S)) as Hnil.
  open_sim S st st'. subst k0. destruct St as [-> ->]. unfold next_mode.
  destruct Hc as [Hc|Hc].
  - (* a code character *)
    rewrite (code_char_not_quote _ Hc) in *. rewrite (code_char_not_ws _ Hc) in *.
    destruct (Ascii.eqb c SEMI) eqn:Es.
    { unfold append_keywords in *. cbn in *. destruct kw0 as [|a K]; [discriminate|]. cbn beta iota in H.
      inversion Skw as [|? b ? K' Hab HK]; subst. injection H as <-. eexists. split; [reflexivity|].
      constructor; cbn; auto. constructor; [|assumption].
      change (rev K ++ [a]) with (rev (a :: K)). change (rev K' ++ [b]) with (rev (b :: K')).
      apply Forall2_rev. constructor; assumption. }
    destruct (is_lparen c) eqn:Elp.
    { cbn beta iota in H. injection H as <-. eexists. split; [reflexivity|]. constructor; cbn; auto.
      exists c, [], []. repeat split; auto. apply acc_rel_start. }
    destruct (is_rparen c); [discriminate H|].
    destruct (Ascii.eqb c HASH && match kw0 with [] => true | _ => false end) eqn:Eh.
    { cbn beta iota in H. injection H as <-. cbn in Hev. discriminate. }
    assert (Eh' : Ascii.eqb c HASH && match kw1 with [] => true | _ => false end = false).
    { destruct (Ascii.eqb c HASH); [|reflexivity]. cbn in *. destruct kw0, kw1; try reflexivity; try discriminate;
      inversion Skw. }
    rewrite Eh'.
    destruct (Ascii.eqb c COMMA_C).
    { rewrite !append_nil in *. cbn beta iota in H. injection H as <-. eexists. split; [reflexivity|]. constructor; cbn; auto.
      constructor; [|assumption]. repeat split; reflexivity. }
    destruct (is_op c); cbn beta iota in H; injection H as <-; (eexists; split; [reflexivity|]; constructor; cbn; auto).
  - (* a quote *)
    rewrite (sdq_is_quote _ Hc) in *. cbn beta iota in H. injection H as <-. eexists. split; [reflexivity|].
    constructor; cbn; auto. repeat split; auto.
Qed.

(* ------------------------------------------------------------------ keyword / operator states *)
Lemma kwop_sim es st st' c st1 b :
  sim MCode st st' -> is_kwop (s_kind st) = true -> (code_char c = true \/ is_sdq c = true) ->
  parse_kw_op [] es st c = Ok (st1, b) ->
  exists st1', parse_kw_op [] es st' c = Ok (st1', b) /\ sim MCode st1 st1' /\
               (if b then is_kwop (s_kind st1) = true else s_kind st1 = SNone).
Proof.
  intros S Hk Hc H. unfold parse_kw_op in *.
  pose proof (sm_mode _ _ _ S) as M. unfold mode_ok in M.
  assert (Mx : s_instr st = false /\ s_incmt st = false /\ s_esc st = false)
    by (destruct (s_kind st); try discriminate; exact M).
  destruct Mx as (Mi & Mc & Me). clear M.
  open_sim S st st'. cbn in Hk. rewrite !append_nil in *.
  assert (Et : t0 = t1) by (destruct k0; try discriminate; exact St). subst t1.
  assert (Epg : pg0 = pg1) by (apply Spg; destruct k0; try discriminate; reflexivity). subst pg1.
  cbn [s_kind s_tstr s_allowsc push_tokens start_token set_allowsc push_char set_tstr] in *.
  destruct (Ascii.eqb c SQ || Ascii.eqb c DQ || is_lparen c || Ascii.eqb c COMMA_C || is_ws c).
  { cbn beta iota in H; injection H as Hb Hs; subst b st1. eexists. split; [reflexivity|]. split; [|reflexivity].
    constructor; cbn; auto. constructor; [|assumption]. repeat split; try reflexivity.
    destruct k0; try discriminate; reflexivity. }
  destruct k0; try discriminate.
  - (* keyword *)
    destruct (is_op c) eqn:Eop.
    + assert (Es : Ascii.eqb c SEMI = false) by (destruct (Ascii.eqb_spec c SEMI); [subst; discriminate|reflexivity]).
      rewrite Es in *. cbn beta iota in H; injection H as Hb Hs; subst b st1. eexists. split; [reflexivity|]. split; [|reflexivity].
      constructor; cbn; auto. constructor; [|assumption]. repeat split; reflexivity.
    + destruct (Ascii.eqb c SEMI).
      * destruct es.
        -- cbn in *. rewrite ?append_nil in *. cbn beta iota in H; injection H as Hb Hs; subst b st1. eexists. split; [reflexivity|]. split; [|reflexivity].
           constructor; cbn; auto. constructor; [|assumption]. repeat split; reflexivity.
        -- cbn in H |- *. destruct (negb a0); [discriminate H|].
           match type of H with (if ?x then _ else _) = _ => destruct x; [|discriminate H] end.
           injection H as Hb Hs; subst b st1. eexists. split; [reflexivity|]. split; [|reflexivity]. constructor; cbn; auto.
      * cbn beta iota in H; injection H as Hb Hs; subst b st1. eexists. split; [reflexivity|]. split; [|reflexivity]. constructor; cbn; auto.
  - (* operator *)
    destruct (negb (is_op c) && negb (Ascii.eqb c SEMI)) eqn:Eop.
    + apply andb_true_iff in Eop. destruct Eop as [_ Es]. apply negb_true_iff in Es.
      rewrite Es in *. cbn beta iota in H; injection H as Hb Hs; subst b st1. eexists. split; [reflexivity|]. split; [|reflexivity].
      constructor; cbn; auto. constructor; [|assumption]. repeat split; reflexivity.
    + destruct (Ascii.eqb c SEMI).
      * destruct es.
        -- cbn in *. rewrite ?append_nil in *. cbn beta iota in H; injection H as Hb Hs; subst b st1. eexists. split; [reflexivity|]. split; [|reflexivity].
           constructor; cbn; auto. constructor; [|assumption]. repeat split; reflexivity.
        -- cbn in H |- *. destruct (negb a0); [discriminate H|].
           match type of H with (if ?x then _ else _) = _ => destruct x; [|discriminate H] end.
           injection H as Hb Hs; subst b st1. eexists. split; [reflexivity|]. split; [|reflexivity]. constructor; cbn; auto.
      * cbn beta iota in H; injection H as Hb Hs; subst b st1. eexists. split; [reflexivity|]. split; [|reflexivity]. constructor; cbn; auto.
Qed.

(* ------------------------------------------------------------------ inside a bracket *)
Definition paren_tail (cf es : bool) (st : tstate) (c : ascii) : result tstate :=
  match parse_paren [] cf es st c with
  | Ok (st2, true) => Ok st2
  | Ok (st2, false) => Ok (set_slash st2 (Ascii.eqb c SLASH))
  | Err e => Err e
  end.

Lemma acc_push_code sl c x x' :
  acc_rel MCode sl x x' -> code_char c = true -> (sl = true -> c <> SLASH) ->
  acc_rel MCode (Ascii.eqb c SLASH) (x ++ [c]) (x' ++ [c]).
Proof.
  intros H Hc Hs k k' Hk Hp. rewrite <- !app_assoc. cbn. apply H.
  - apply rl_code; [assumption| |assumption]. intros ->. apply Hp; reflexivity.
  - intros _ E. specialize (Hs E). cbn. split; assumption.
Qed.

Lemma acc_push_open sl q x x' :
  acc_rel MCode sl x x' -> is_sdq q = true -> forall sl', acc_rel (MStr q false) sl' (x ++ [q]) (x' ++ [q]).
Proof.
  intros H Hq sl' k k' Hk _. rewrite <- !app_assoc. cbn. apply H.
  - apply rl_open; assumption.
  - intros _ _. assert (q <> SLASH).
    { unfold is_sdq in Hq. apply orb_true_iff in Hq. destruct Hq as [E|E]; apply Ascii.eqb_eq in E; subst; discriminate. }
    cbn. split; assumption.
Qed.

Lemma rev_push (o : ascii) (x : str) (c : ascii) : c :: rev (o :: x) = rev (o :: x ++ [c]).
Proof. cbn. rewrite rev_app_distr. reflexivity. Qed.

Lemma paren_ty_is_paren p : is_paren_ty (paren_ty p) = true.
Proof. unfold paren_ty. destruct (Ascii.eqb p _); [reflexivity|]. destruct (Ascii.eqb p _); reflexivity. Qed.

Lemma paren_tail_code_sim cf es st st' c st1 :
  sim MCode st st' -> s_kind st = SParen -> code_char c = true -> (s_slash st = true -> c <> SLASH) ->
  paren_tail cf es st c = Ok st1 -> s_ev st1 = false ->
  exists st1', paren_tail cf es st' c = Ok st1' /\ sim MCode st1 st1'.
Proof.
  intros S Hk Hc Hs H Hev. unfold paren_tail, parse_paren in *.
  pose proof (sm_mode _ _ _ S) as M. unfold mode_ok in M. rewrite Hk in M. destruct M as (Mi & Mc & Me).
  pose proof (Forall2_nil_iff _ _ _ (sm_kws _ _ _ S)) as Hnil.
  open_sim S st st'. subst k0 is0 ic0 e0. destruct St as (o & x & x' & (Ho & Hpo) & -> & -> & Hacc). cbn in Hpo. subst p0.
  rewrite !append_nil in *.
  cbn [push_char set_tstr s_instr s_incmt s_slash s_paren s_pcount s_kws set_slash s_tstr s_quote s_esc
       s_tpos s_pglued fst snd] in *.
  rewrite !rev_push in *.
  pose proof (acc_push_code _ c _ _ Hacc Hc Hs) as Hacc'.
  assert (Hq : is_quote c = false) by (apply code_char_not_quote; assumption).
  destruct (Ascii.eqb c (rparen_of o) && (pc0 =? 0)) eqn:Eclose.
  - (* the bracket closes *)
    cbn [push_tokens s_kws] in *.
    assert (Ht : tok_sim (mkTok (paren_ty o) (fst tp0) (snd tp0) (rev (rev (o :: x ++ [c]))) 0 None pg0)
                         (mkTok (paren_ty o) (fst tp1) (snd tp1) (rev (rev (o :: x' ++ [c]))) 0 None pg1)).
    { rewrite !rev_involutive. unfold tok_sim. cbn. rewrite paren_ty_is_paren. repeat split; auto.
      exists o, x, x', c. repeat split; auto.
      specialize (Hacc' [] [] (rl_nil MCode)). rewrite !app_nil_r in Hacc'. apply Hacc'. intros _ _. cbn. auto. }
    cbn [new_tok] in *.
    set (T := mkTok (paren_ty o) (fst tp0) (snd tp0) (rev (rev (o :: x ++ [c]))) 0 None pg0) in *.
    set (T' := mkTok (paren_ty o) (fst tp1) (snd tp1) (rev (rev (o :: x' ++ [c]))) 0 None pg1) in *.
    assert (Hkw2 : Forall2 tok_sim (T :: kw0) (T' :: kw1)) by (constructor; assumption).
    pose proof (should_terminate_sim cf (T :: kw0) (T' :: kw1) 0 Hkw2) as E0.
    pose proof (should_terminate_sim cf (T :: kw0) (T' :: kw1) 2 Hkw2) as E2.
    pose proof (is_shorten_if_sim cf (rev (T :: kw0)) (rev (T' :: kw1)) (Forall2_rev _ _ _ Hkw2)) as E3.
    cbn [push_tokens s_kws set_slash push_char set_tstr rev app] in *. rewrite <- E0, <- E2, <- E3.
    destruct (ttype_eqb (paren_ty o) PAREN_CURLY && es && should_terminate_line cf (rev kw0 ++ [T]) (T :: kw0) 0).
    + destruct (is_shorten_if cf (rev kw0 ++ [T]) && negb (should_terminate_line cf (rev kw0 ++ [T]) (T :: kw0) 2)).
      * cbn beta iota in H. injection H as <-. eexists. split; [reflexivity|].
        constructor; cbn; auto; try (intros; discriminate).
      * cbn [append_keywords push_tokens s_kws rev app] in *. cbn beta iota in H. injection H as <-.
        eexists. split; [reflexivity|]. constructor; cbn; auto.
        constructor; [|assumption]. apply Forall2_app; [apply Forall2_rev; assumption|constructor; [assumption|constructor]].
    + cbn beta iota in H. injection H as <-. eexists. split; [reflexivity|].
      constructor; cbn; auto; try (intros; discriminate).
  - (* the bracket goes on *)
    assert (Hrev : forall y : str, c :: rev y ++ [o] = rev (o :: y ++ [c]))
      by (intros; cbn; rewrite rev_app_distr; reflexivity).
    destruct (Ascii.eqb c o).
    { cbn beta iota in H. injection H as <-. eexists. split; [reflexivity|].
      constructor; cbn; auto. exists o, (x ++ [c]), (x' ++ [c]). repeat split; auto; rewrite rev_app_distr; reflexivity. }
    destruct (Ascii.eqb c (rparen_of o)).
    { cbn beta iota in H. injection H as <-. eexists. split; [reflexivity|].
      constructor; cbn; auto. exists o, (x ++ [c]), (x' ++ [c]). repeat split; auto; rewrite rev_app_distr; reflexivity. }
    rewrite Hq in *.
    destruct (Ascii.eqb c HASH && match kw0 with [] => true | _ => false end) eqn:Eh.
    { cbn beta iota in H. injection H as <-. cbn in Hev. discriminate. }
    assert (Eh' : Ascii.eqb c HASH && match kw1 with [] => true | _ => false end = false).
    { destruct (Ascii.eqb c HASH); [|reflexivity]. cbn in *. destruct kw0, kw1; try reflexivity; try discriminate;
      inversion Skw. }
    rewrite Eh'.
    destruct (Ascii.eqb c SLASH) eqn:Esl.
    + assert (sl0 = false) by (destruct sl0; [exfalso; apply Hs; [reflexivity|apply Ascii.eqb_eq; assumption]|reflexivity]).
      subst sl0. cbn in *. injection H as <-. eexists. split; [reflexivity|].
      constructor; cbn; auto. exists o, (x ++ [c]), (x' ++ [c]). repeat split; auto; rewrite rev_app_distr; reflexivity.
    + cbn beta iota in H. injection H as <-. eexists. split; [reflexivity|].
      constructor; cbn; auto. exists o, (x ++ [c]), (x' ++ [c]). repeat split; auto; rewrite rev_app_distr; reflexivity.
Qed.

(* ------------------------------------------------------------------ string literals *)
Definition str_next (q : ascii) (e : bool) (c : ascii) : lmode :=
  if e then MStr q false
  else if Ascii.eqb c BSLASH then MStr q true
  else if Ascii.eqb c q then MCode
  else MStr q false.

Lemma sdq_not_bslash q : is_sdq q = true -> Ascii.eqb q BSLASH = false.
Proof. unfold is_sdq. rewrite orb_true_iff. intros [H|H]; apply Ascii.eqb_eq in H; subst; reflexivity. Qed.
Lemma sdq_not_slash q : is_sdq q = true -> Ascii.eqb q SLASH = false.
Proof. unfold is_sdq. rewrite orb_true_iff. intros [H|H]; apply Ascii.eqb_eq in H; subst; reflexivity. Qed.

Lemma acc_push_str q e sl c x x' :
  acc_rel (MStr q e) sl x x' -> is_sdq q = true -> is_nl c = false ->
  acc_rel (str_next q e c) (Ascii.eqb c SLASH) (x ++ [c]) (x' ++ [c]).
Proof.
  intros H Hq Hnl k k' Hk Hp. rewrite <- !app_assoc. cbn.
  assert (Hc : c <> NL) by (intros ->; discriminate Hnl).
  apply H; [|discriminate]. unfold str_next in *.
  destruct e.
  - apply rl_str_esc; assumption.
  - destruct (Ascii.eqb_spec c BSLASH) as [->|Hb].
    + apply rl_str_bs. assumption.
    + destruct (Ascii.eqb_spec c q) as [->|Hcq].
      * apply rl_str_close. assumption.
      * apply rl_str_char; assumption.
Qed.

Lemma paren_tail_open_sim cf es st st' q st1 :
  sim MCode st st' -> s_kind st = SParen -> is_sdq q = true ->
  paren_tail cf es st q = Ok st1 ->
  exists st1', paren_tail cf es st' q = Ok st1' /\ sim (MStr q false) st1 st1'.
Proof.
  intros S Hk Hq H. unfold paren_tail, parse_paren in *.
  pose proof (sm_mode _ _ _ S) as M. unfold mode_ok in M. rewrite Hk in M. destruct M as (Mi & Mc & Me).
  open_sim S st st'. subst k0 is0 ic0 e0. destruct St as (o & x & x' & (Ho & Hpo) & -> & -> & Hacc). cbn in Hpo. subst p0.
  cbn [push_char set_tstr s_instr s_incmt s_slash s_paren s_pcount s_kws set_slash s_tstr s_quote s_esc] in *.
  assert (E1 : Ascii.eqb q (rparen_of o) = false /\ Ascii.eqb q o = false).
  { unfold is_sdq in Hq. apply orb_true_iff in Hq.
    destruct (lparen_cases _ Ho) as [-> | [-> | ->]]; destruct Hq as [E|E]; apply Ascii.eqb_eq in E; subst; split; reflexivity. }
  destruct E1 as [E1 E2].
  rewrite E1, E2, (sdq_is_quote _ Hq) in *. cbn in H. injection H as <-.
  eexists. split; [reflexivity|]. constructor; cbn; auto.
  - exists o, (x ++ [q]), (x' ++ [q]). repeat split; auto; try (rewrite rev_app_distr; reflexivity).
    apply (acc_push_open _ _ _ _ Hacc Hq).
  - repeat split; auto.
Qed.

Lemma paren_tail_str_sim cf es st st' q e c st1 :
  sim (MStr q e) st st' -> s_kind st = SParen -> is_nl c = false ->
  paren_tail cf es st c = Ok st1 ->
  exists st1', paren_tail cf es st' c = Ok st1' /\ sim (str_next q e c) st1 st1'.
Proof.
  intros S Hk Hnl H. unfold paren_tail, parse_paren in *.
  pose proof (sm_mode _ _ _ S) as M. unfold mode_ok in M. destruct M as (Mq & Me & Hq & [(K & _)|(_ & Mi & Mc)]); [congruence|].
  open_sim S st st'. subst k0 is0 ic0 q0 e0. destruct St as (o & x & x' & (Ho & Hpo) & -> & -> & Hacc). cbn in Hpo. subst p0.
  cbn [push_char set_tstr s_instr s_incmt s_slash s_paren s_pcount s_kws set_slash s_tstr s_quote s_esc] in *.
  pose proof (acc_push_str q e _ c _ _ Hacc Hq Hnl) as Hacc'.
  unfold str_next in *.
  assert (Fin : forall P : Prop, P -> P) by auto.
  destruct e; cbn [negb andb] in *;
    [ rewrite !andb_false_r in *
    | rewrite !andb_true_r in *; destruct (Ascii.eqb c BSLASH) eqn:Eb; [|destruct (Ascii.eqb c q) eqn:Ecq] ];
    cbn in H; injection H as <-; (eexists; split; [reflexivity|]);
    constructor; cbn; auto; try (repeat split; auto; fail);
    exists o, (x ++ [c]), (x' ++ [c]); repeat split; auto; rewrite rev_app_distr; reflexivity.
Qed.

Definition string_tail (st : tstate) (c : ascii) : result tstate :=
  match parse_string [] st c with
  | Ok st2 => Ok (set_slash st2 (Ascii.eqb c SLASH))
  | Err e => Err e
  end.

Lemma string_tail_sim st st' q e c st1 :
  sim (MStr q e) st st' -> s_kind st = SString -> is_nl c = false ->
  string_tail st c = Ok st1 -> s_ev st1 = false ->
  exists st1', string_tail st' c = Ok st1' /\ sim (str_next q e c) st1 st1'.
Proof.
  intros S Hk Hnl H Hev. unfold string_tail, parse_string in *.
  pose proof (sm_mode _ _ _ S) as M. unfold mode_ok in M. destruct M as (Mq & Me & Hq & [(_ & Mi & Mc)|(K & _)]); [|congruence].
  open_sim S st st'. subst k0 is0 ic0 q0 e0. subst t1.
  assert (Epg : pg0 = pg1) by (apply Spg; reflexivity). subst pg1.
  cbn [push_char set_tstr s_esc s_quote s_tstr] in *.
  unfold str_next in *. rewrite (sdq_not_bt _ Hq) in *.
  destruct e; cbn [negb andb] in *.
  - rewrite !andb_false_r in *. cbn in H. injection H as <-. eexists. split; [reflexivity|].
    constructor; cbn; auto; repeat split; auto.
  - rewrite !andb_true_r in *. destruct (Ascii.eqb c BSLASH) eqn:Eb.
    + cbn in H. injection H as <-. eexists. split; [reflexivity|]. constructor; cbn; auto; repeat split; auto.
    + destruct (Ascii.eqb c q) eqn:Ecq.
      * destruct (unescape _) as [v|]; [|discriminate H].
        rewrite !append_nil in *.
        destruct (repr_len v =? len (rev (c :: t0))).
        -- cbn in H. injection H as <-. eexists. split; [reflexivity|]. constructor; cbn; auto.
           try (constructor; [|assumption]; repeat split; reflexivity).
        -- cbn in H. injection H as <-. cbn in Hev. discriminate.
      * cbn in H. injection H as <-. eexists. split; [reflexivity|]. constructor; cbn; auto; repeat split; auto.
Qed.

(* ------------------------------------------------------------------ layout runs *)
(* everything the simulation looks at, except kind / tstr / slash / gap / pglued / positions *)
Definition same_core (a b : tstate) : Prop :=
  s_quote a = s_quote b /\ s_esc a = s_esc b /\ s_paren a = s_paren b /\ s_pcount a = s_pcount b /\
  s_instr a = s_instr b /\ s_incmt a = s_incmt b /\ s_allowsc a = s_allowsc b /\
  s_kws a = s_kws b /\ s_lkws a = s_lkws b /\ s_ev a = s_ev b.

Lemma same_core_refl a : same_core a a.
Proof. repeat split. Qed.
Lemma same_core_trans a b c : same_core a b -> same_core b c -> same_core a c.
Proof. unfold same_core. intuition congruence. Qed.

(* a run whose first whitespace character has already been consumed *)
Inductive lay_tail : str -> Prop :=
| lt_nil : lay_tail []
| lt_ws c r : is_lay_ws c = true -> lay_tail r -> lay_tail (c :: r)
| lt_cmt body r : Forall (fun x => x <> NL) body -> lay_tail r -> lay_tail (SLASH :: SLASH :: body ++ NL :: r).

Lemma lay_run_tail w : lay_run w -> exists c r, w = c :: r /\ is_lay_ws c = true /\ lay_tail r.
Proof.
  induction 1 as [i Hi|i r Hi Hr IH].
  - destruct Hi as [c Hc|c body Hc Hb].
    + exists c, []. repeat split; auto. constructor.
    + exists c, (SLASH :: SLASH :: body ++ [NL]). repeat split; auto. apply lt_cmt; [assumption|constructor].
  - destruct IH as (c2 & r2 & -> & Hc2 & Ht2).
    assert (Htail : lay_tail (c2 :: r2)) by (apply lt_ws; assumption).
    destruct Hi as [c Hc|c body Hc Hb].
    + exists c, (c2 :: r2). repeat split; auto.
    + exists c, (SLASH :: SLASH :: body ++ NL :: c2 :: r2). split.
      * cbn. rewrite <- app_assoc. reflexivity.
      * split; [assumption|]. apply lt_cmt; assumption.
Qed.

Definition idle (st : tstate) : Prop :=
  s_kind st = SNone /\ s_tstr st = [] /\ s_slash st = false /\ s_incmt st = false.

Section Lay.
Variable cf es : bool.

Lemma lay_ws_cases c : is_lay_ws c = true -> c = SP \/ c = TAB \/ c = NL.
Proof. unfold is_lay_ws. rewrite !orb_true_iff. intros [[H|H]|H]; apply Ascii.eqb_eq in H; auto. Qed.

Lemma step_idle_ws st c :
  idle st -> is_lay_ws c = true ->
  exists st1, step [] cf es st c = Ok st1 /\ idle st1 /\ s_gap st1 = true /\ same_core st st1.
Proof.
  intros (Hk & Ht & Hs & Hc) Hw. destruct st. cbn in *. subst.
  destruct (lay_ws_cases _ Hw) as [-> | [-> | ->]]; eexists; (split; [reflexivity|]); cbn; repeat split.
Qed.

(* inside a `//` comment *)
Lemma run_comment body : Forall (fun x => x <> NL) body -> forall st,
  s_kind st = SComment -> s_tstr st = [] -> s_gap st = true ->
  exists st1, run [] cf es st body = Ok st1 /\ s_kind st1 = SComment /\ s_tstr st1 = [] /\ s_gap st1 = true /\
              same_core st st1.
Proof.
  induction 1 as [|c r Hc Hr IH]; intros st Hk Ht Hg.
  - exists st. split; [reflexivity|]. repeat (split; [assumption|]). apply same_core_refl.
  - assert (Hnl : is_nl c = false) by (unfold is_nl; destruct (Ascii.eqb_spec c NL); [contradiction|reflexivity]).
    assert (exists st1, step [] cf es st c = Ok st1 /\ s_kind st1 = SComment /\ s_tstr st1 = [] /\ s_gap st1 = true /\
                        same_core st st1) as (st1 & E1 & K1 & T1 & G1 & C1).
    { destruct st. cbn in *. subst. unfold step. cbn. rewrite Hnl. rewrite ?andb_false_r. cbn.
      match goal with |- context [if ?x then _ else _] => destruct x end;
        cbn; eexists; (split; [reflexivity|]); cbn; repeat split. }
    destruct (IH st1 K1 T1 G1) as (st2 & E2 & K2 & T2 & G2 & C2).
    exists st2. cbn. rewrite E1. split; [assumption|]. split; [assumption|]. split; [assumption|]. split; [assumption|].
    eapply same_core_trans; eauto.
Qed.

Lemma run_idle_tail w : lay_tail w -> forall st, idle st -> (w <> [] -> True) ->
  exists st1, run [] cf es st w = Ok st1 /\ idle st1 /\ (w <> [] -> s_gap st1 = true) /\ same_core st st1.
Proof.
  induction 1 as [|c r Hc Hr IH|body r Hb Hr IH]; intros st Hi _.
  - exists st. split; [reflexivity|]. split; [assumption|]. split; [congruence|apply same_core_refl].
  - destruct (step_idle_ws st c Hi Hc) as (st1 & E1 & I1 & G1 & C1).
    destruct (IH st1 I1 (fun _ => I)) as (st2 & E2 & I2 & G2 & C2).
    exists st2. cbn. rewrite E1. split; [assumption|]. split; [assumption|]. split.
    + intros _. destruct r; [cbn in E2; injection E2 as <-; assumption|apply G2; discriminate].
    + eapply same_core_trans; eauto.
  - (* `//` : the first slash starts an operator, the second turns it into a comment *)
    destruct Hi as (Hk & Ht & Hs & Hc).
    assert (exists sa, step [] cf es st SLASH = Ok sa /\ s_kind sa = SOperator /\ s_tstr sa = [SLASH] /\
                       s_slash sa = true /\ s_incmt sa = false /\ same_core st sa) as (sa & Ea & Ka & Ta & Sa & Ca & Cora).
    { destruct st. cbn in *. subst. eexists. split; [reflexivity|]. cbn. repeat split. }
    assert (exists sb, step [] cf es sa SLASH = Ok sb /\ s_kind sb = SComment /\ s_tstr sb = [] /\ s_gap sb = true /\
                       s_incmt sb = false /\ same_core sa sb) as (sb & Eb & Kb & Tb & Gb & Cb & Corb).
    { destruct sa. cbn in *. subst. eexists. split; [reflexivity|]. cbn. repeat split. }
    destruct (run_comment body Hb sb Kb Tb Gb) as (sc & Ec & Kc & Tc & Gc & Corc).
    assert (exists sd, step [] cf es sc NL = Ok sd /\ idle sd /\ s_gap sd = true /\ same_core sc sd) as (sd & Ed & Id & Gd & Cord).
    { destruct sc. cbn in *. subst. eexists. split; [reflexivity|]. cbn. repeat split.
      destruct Corc as (_ & _ & _ & _ & _ & Hx & _). cbn in Hx. rewrite <- Hx. assumption. }
    destruct (IH sd Id (fun _ => I)) as (se & Ee & Ie & Ge & Core).
    exists se. cbn [run]. rewrite Ea. cbn [run]. rewrite Eb.
    assert (Erun : run [] cf es sb (body ++ NL :: r) = Ok se).
    { clear - Ec Ed Ee. revert sb Ec. induction body as [|x b IHb]; intros sb Ec; cbn in *.
      - injection Ec as ->. rewrite Ed. assumption.
      - destruct (step [] cf es sb x); [|discriminate]. apply IHb. assumption. }
    rewrite Erun. split; [reflexivity|]. split; [assumption|]. split.
    + intros _. destruct r; [cbn in Ee; injection Ee as <-; assumption|apply Ge; discriminate].
    + repeat (eapply same_core_trans; [eassumption|]). apply same_core_refl.
Qed.
End Lay.

Section Lay2.
Variable cf es : bool.

Definition kws_core (a b : tstate) : Prop :=
  s_quote a = s_quote b /\ s_esc a = s_esc b /\ s_paren a = s_paren b /\ s_pcount a = s_pcount b /\
  s_instr a = s_instr b /\ s_incmt a = s_incmt b /\ s_allowsc a = s_allowsc b /\
  s_lkws a = s_lkws b /\ s_ev a = s_ev b.

Lemma step_kwop_ws st c :
  is_kwop (s_kind st) = true -> s_incmt st = false -> is_lay_ws c = true ->
  exists st1, step [] cf es st c = Ok st1 /\ idle st1 /\ s_gap st1 = true /\
              s_kws st1 = new_tok (kind_ty (s_kind st)) st :: s_kws st /\ kws_core st st1.
Proof.
  intros Hk Hc Hw. destruct st. cbn in *. subst.
  destruct s_kind; try discriminate;
  destruct (lay_ws_cases _ Hw) as [-> | [-> | ->]];
    unfold step, parse_kw_op, parse_none, parse_newline; cbn; rewrite ?append_nil; cbn;
    rewrite ?append_nil; cbn; eexists; (split; [reflexivity|]); cbn; unfold new_tok; cbn; repeat split.
Qed.

(* all fields but tstr / slash / incmt / positions *)
Definition paren_core (a b : tstate) : Prop :=
  s_kind a = s_kind b /\ s_quote a = s_quote b /\ s_esc a = s_esc b /\ s_paren a = s_paren b /\ s_pcount a = s_pcount b /\
  s_instr a = s_instr b /\ s_allowsc a = s_allowsc b /\ s_kws a = s_kws b /\ s_lkws a = s_lkws b /\
  s_gap a = s_gap b /\ s_pglued a = s_pglued b /\ s_ev a = s_ev b.
Lemma paren_core_refl a : paren_core a a. Proof. repeat split. Qed.
Lemma paren_core_trans a b c : paren_core a b -> paren_core b c -> paren_core a c.
Proof. unfold paren_core. intuition congruence. Qed.

Lemma step_paren_ws st c :
  s_kind st = SParen -> is_lparen (s_paren st) = true -> s_instr st = false -> s_incmt st = false -> is_lay_ws c = true ->
  exists st1, step [] cf es st c = Ok st1 /\ s_tstr st1 = c :: s_tstr st /\ s_slash st1 = false /\ s_incmt st1 = false /\
              paren_core st st1.
Proof.
  intros Hk Hp Hi Hc Hw. destruct st. cbn in *. subst.
  destruct (lparen_cases _ Hp) as [-> | [-> | ->]];
  destruct (lay_ws_cases _ Hw) as [-> | [-> | ->]]; unfold step, parse_paren, parse_newline; cbn;
    rewrite ?andb_false_r; cbn; eexists; (split; [reflexivity|]); cbn; repeat split.
Qed.

(* a comment body inside a bracket: every character is collected *)
Lemma run_paren_comment body : Forall (fun x => x <> NL) body -> forall st,
  s_kind st = SParen -> s_instr st = false -> s_incmt st = true ->
  exists st1, run [] cf es st body = Ok st1 /\ s_tstr st1 = rev body ++ s_tstr st /\ s_incmt st1 = true /\ paren_core st st1.
Proof.
  induction 1 as [|c r Hc Hr IH]; intros st Hk Hi Hcm.
  - exists st. split; [reflexivity|]. split; [reflexivity|]. split; [assumption|apply paren_core_refl].
  - assert (Hnl : is_nl c = false) by (unfold is_nl; destruct (Ascii.eqb_spec c NL); [contradiction|reflexivity]).
    assert (exists st1, step [] cf es st c = Ok st1 /\ s_tstr st1 = c :: s_tstr st /\ s_incmt st1 = true /\ paren_core st st1)
      as (st1 & E1 & T1 & C1 & P1).
    { destruct st. cbn in *. subst. unfold step, parse_paren. cbn. rewrite Hnl. rewrite ?andb_false_r. cbn.
      eexists. split; [reflexivity|]. cbn. repeat split. }
    destruct P1 as (K1 & P1').
    destruct (IH st1) as (st2 & E2 & T2 & C2 & P2); try congruence.
    { destruct P1' as (_ & _ & _ & _ & Hx & _). congruence. }
    exists st2. cbn [run]. rewrite E1. split; [assumption|]. split.
    + rewrite T2, T1. cbn. rewrite <- app_assoc. reflexivity.
    + split; [assumption|]. eapply paren_core_trans; [|eassumption]. split; assumption.
Qed.

Lemma run_paren_tail w : lay_tail w -> forall st,
  s_kind st = SParen -> is_lparen (s_paren st) = true -> s_instr st = false -> s_incmt st = false -> s_slash st = false ->
  exists st1, run [] cf es st w = Ok st1 /\ s_tstr st1 = rev w ++ s_tstr st /\ s_slash st1 = false /\ s_incmt st1 = false /\
              paren_core st st1.
Proof.
  induction 1 as [|c r Hc Hr IH|body r Hb Hr IH]; intros st Hk Hp Hi Hcm Hs.
  - exists st. repeat (split; [reflexivity || assumption|]). apply paren_core_refl.
  - destruct (step_paren_ws st c Hk Hp Hi Hcm Hc) as (st1 & E1 & T1 & S1 & C1 & P1).
    pose proof P1 as (K1 & _ & _ & Pp & _ & Pi & _).
    destruct (IH st1) as (st2 & E2 & T2 & S2 & C2 & P2); try congruence.
    exists st2. cbn [run]. rewrite E1. split; [assumption|]. split.
    + rewrite T2, T1. cbn. rewrite <- app_assoc. reflexivity.
    + split; [assumption|]. split; [assumption|]. eapply paren_core_trans; eassumption.
  - assert (exists sa, step [] cf es st SLASH = Ok sa /\ s_tstr sa = SLASH :: s_tstr st /\ s_slash sa = true /\
                       s_incmt sa = false /\ paren_core st sa) as (sa & Ea & Ta & Sa & Ca & Pa).
    { destruct st. cbn in *. subst.
      destruct (lparen_cases _ Hp) as [-> | [-> | ->]]; unfold step, parse_paren; cbn; eexists; (split; [reflexivity|]); cbn; repeat split. }
    pose proof Pa as (Ka & _ & _ & Ppa & _ & Pia & _).
    assert (Hpa : is_lparen (s_paren sa) = true) by congruence.
    assert (exists sb, step [] cf es sa SLASH = Ok sb /\ s_tstr sb = SLASH :: s_tstr sa /\ s_incmt sb = true /\ paren_core sa sb)
      as (sb & Eb & Tb & Cb & Pb).
    { assert (Ka' : s_kind sa = SParen) by congruence. assert (Ia' : s_instr sa = false) by congruence.
      clear - Hpa Ka' Sa Ca Ia'. destruct sa. cbn in *. subst.
      destruct (lparen_cases _ Hpa) as [-> | [-> | ->]]; unfold step, parse_paren; cbn; eexists; (split; [reflexivity|]); cbn; repeat split. }
    pose proof Pb as (Kb & _ & _ & Ppb & _ & Pib & _).
    destruct (run_paren_comment body Hb sb) as (sc & Ec & Tc & Cc & Pc); try congruence.
    pose proof Pc as (Kc & _ & _ & Ppc & _ & Pic & _).
    assert (exists sd, step [] cf es sc NL = Ok sd /\ s_tstr sd = NL :: s_tstr sc /\ s_slash sd = false /\ s_incmt sd = false /\
                       paren_core sc sd) as (sd & Ed & Td & Sd & Cd & Pd).
    { assert (Kc' : s_kind sc = SParen) by congruence.
      clear - Kc'. destruct sc. cbn in *. subst.
      unfold step, parse_newline. cbn. eexists. split; [reflexivity|]. cbn. repeat split. }
    pose proof Pd as (Kd & _ & _ & Ppd & _ & Pid & _).
    destruct (IH sd) as (se & Ee & Te & Se & Ce & Pe); try congruence.
    exists se. cbn [run]. rewrite Ea. cbn [run]. rewrite Eb.
    assert (Erun : run [] cf es sb (body ++ NL :: r) = Ok se).
    { clear - Ec Ed Ee. revert sb Ec. induction body as [|x b IHb]; intros sb Ec; cbn in *.
      - injection Ec as ->. rewrite Ed. assumption.
      - destruct (step [] cf es sb x); [|discriminate]. apply IHb. assumption. }
    rewrite Erun. split; [reflexivity|]. split.
    + rewrite Te, Td, Tc, Tb, Ta. cbn. rewrite rev_app_distr. cbn. rewrite <- !app_assoc. cbn. reflexivity.
    + split; [assumption|]. split; [assumption|].
      repeat (eapply paren_core_trans; [eassumption|]). apply paren_core_refl.
Qed.

Lemma step_none_ws st c :
  s_kind st = SNone -> s_tstr st = [] -> s_incmt st = false -> is_lay_ws c = true ->
  exists st1, step [] cf es st c = Ok st1 /\ idle st1 /\ s_gap st1 = true /\ same_core st st1.
Proof.
  intros Hk Ht Hc Hw. destruct st. cbn in *. subst.
  destruct (lay_ws_cases _ Hw) as [-> | [-> | ->]]; unfold step, parse_none, parse_newline; cbn;
    rewrite ?andb_false_r; cbn; eexists; (split; [reflexivity|]); cbn; repeat split.
Qed.

Lemma run_cons_ok st c r st1 st2 :
  step [] cf es st c = Ok st1 -> run [] cf es st1 r = Ok st2 -> run [] cf es st (c :: r) = Ok st2.
Proof. intros E1 E2. cbn. rewrite E1. exact E2. Qed.

Lemma acc_push_lay sl x x' w w' :
  acc_rel MCode sl x x' -> lay_run w -> lay_run w' -> acc_rel MCode false (x ++ w) (x' ++ w').
Proof.
  intros H Hw Hw' k k' Hk _. rewrite <- !app_assoc. apply H.
  - apply rl_lay; assumption.
  - intros _ _. destruct (lay_run_tail _ Hw) as (c & r & -> & Hc & _).
    destruct (lay_run_tail _ Hw') as (c' & r' & -> & Hc' & _). cbn.
    split; [destruct (lay_ws_cases _ Hc) as [-> | [-> | ->]]|destruct (lay_ws_cases _ Hc') as [-> | [-> | ->]]]; discriminate.
Qed.

Lemma lay_sim st st' w w' :
  sim MCode st st' -> lay_run w -> lay_run w' ->
  exists st1 st1', run [] cf es st w = Ok st1 /\ run [] cf es st' w' = Ok st1' /\ sim MCode st1 st1' /\ s_slash st1 = false.
Proof.
  intros S Hw Hw'.
  destruct (lay_run_tail _ Hw) as (c & r & -> & Hc & Hr). destruct (lay_run_tail _ Hw') as (c' & r' & -> & Hc' & Hr').
  pose proof (sm_mode _ _ _ S) as M. pose proof (mode_ok_sim _ _ _ S) as M'. unfold mode_ok in M, M'.
  pose proof (sm_kind _ _ _ S) as EK.
  destruct (s_kind st) eqn:Ek; try contradiction; rewrite <- EK in M'.
  - (* None *)
    destruct M as (Mi & Mc & Me). destruct M' as (Mi' & Mc' & Me').
    pose proof (sm_tstr _ _ _ S) as T. rewrite Ek in T. destruct T as [T T'].
    destruct (step_none_ws st c Ek T Mc Hc) as (s1 & E1 & I1 & G1 & C1).
    destruct (step_none_ws st' c' (eq_sym EK) T' Mc' Hc') as (s1' & E1' & I1' & G1' & C1').
    destruct (run_idle_tail cf es r Hr s1 I1 (fun _ => I)) as (s2 & E2 & I2 & G2 & C2).
    destruct (run_idle_tail cf es r' Hr' s1' I1' (fun _ => I)) as (s2' & E2' & I2' & G2' & C2').
    exists s2, s2'. split; [eapply run_cons_ok; eauto|]. split; [eapply run_cons_ok; eauto|].
    pose proof (same_core_trans _ _ _ C1 C2) as C. pose proof (same_core_trans _ _ _ C1' C2') as C'.
    assert (Gs : s_gap s2 = true) by (destruct r; [cbn in E2; injection E2 as <-; assumption|apply G2; discriminate]).
    assert (Gs' : s_gap s2' = true) by (destruct r'; [cbn in E2'; injection E2' as <-; assumption|apply G2'; discriminate]).
    destruct I2 as (K2 & T2 & S2 & Cm2). destruct I2' as (K2' & T2' & S2' & Cm2').
    destruct C as (c1 & c2 & c3 & c4 & c5 & c6 & c7 & c8 & c9 & c10).
    destruct C' as (d1 & d2 & d3 & d4 & d5 & d6 & d7 & d8 & d9 & d10).
    split; [|assumption]. destruct S. constructor; try congruence.
    all: try (rewrite K2; split; assumption).
    all: try (unfold mode_ok; rewrite K2; repeat split; congruence).
    all: try (rewrite K2; intros; discriminate).
    all: try (rewrite <- c8, <- d8; assumption).
    all: try (rewrite <- c9, <- d9; assumption).
  - (* Keyword *)
    destruct M as (Mi & Mc & Me). destruct M' as (Mi' & Mc' & Me').
    pose proof (sm_tstr _ _ _ S) as T. rewrite Ek in T.
    destruct (step_kwop_ws st c) as (s1 & E1 & I1 & G1 & W1 & C1); try assumption; [rewrite Ek; reflexivity|].
    destruct (step_kwop_ws st' c') as (s1' & E1' & I1' & G1' & W1' & C1'); try assumption; [rewrite <- EK; reflexivity|].
    destruct (run_idle_tail cf es r Hr s1 I1 (fun _ => I)) as (s2 & E2 & I2 & G2 & C2).
    destruct (run_idle_tail cf es r' Hr' s1' I1' (fun _ => I)) as (s2' & E2' & I2' & G2' & C2').
    exists s2, s2'. split; [eapply run_cons_ok; eauto|]. split; [eapply run_cons_ok; eauto|].
    assert (Gs : s_gap s2 = true) by (destruct r; [cbn in E2; injection E2 as <-; assumption|apply G2; discriminate]).
    assert (Gs' : s_gap s2' = true) by (destruct r'; [cbn in E2'; injection E2' as <-; assumption|apply G2'; discriminate]).
    destruct I2 as (K2 & T2 & S2 & Cm2). destruct I2' as (K2' & T2' & S2' & Cm2').
    destruct C2 as (c1 & c2 & c3 & c4 & c5 & c6 & c7 & c8 & c9 & c10).
    destruct C2' as (d1 & d2 & d3 & d4 & d5 & d6 & d7 & d8 & d9 & d10).
    destruct C1 as (a1 & a2 & a3 & a4 & a5 & a6 & a7 & a9 & a10).
    destruct C1' as (b1 & b2 & b3 & b4 & b5 & b6 & b7 & b9 & b10).
    split; [|assumption]. pose proof (sm_pglued _ _ _ S) as PG. rewrite Ek in PG. specialize (PG eq_refl).
    destruct S. constructor; try congruence.
    all: try (rewrite K2; split; assumption).
    all: try (unfold mode_ok; rewrite K2; repeat split; congruence).
    all: try (rewrite K2; intros; discriminate).
    all: try (rewrite <- c9, <- d9, <- a9, <- b9; assumption).
    all: try (rewrite <- c8, <- d8, W1, W1'; constructor; [|assumption];
              unfold new_tok, tok_sim; cbn; rewrite <- EK, Ek, T, PG; cbn; repeat split; reflexivity).
  - (* Operator *)
    destruct M as (Mi & Mc & Me). destruct M' as (Mi' & Mc' & Me').
    pose proof (sm_tstr _ _ _ S) as T. rewrite Ek in T.
    destruct (step_kwop_ws st c) as (s1 & E1 & I1 & G1 & W1 & C1); try assumption; [rewrite Ek; reflexivity|].
    destruct (step_kwop_ws st' c') as (s1' & E1' & I1' & G1' & W1' & C1'); try assumption; [rewrite <- EK; reflexivity|].
    destruct (run_idle_tail cf es r Hr s1 I1 (fun _ => I)) as (s2 & E2 & I2 & G2 & C2).
    destruct (run_idle_tail cf es r' Hr' s1' I1' (fun _ => I)) as (s2' & E2' & I2' & G2' & C2').
    exists s2, s2'. split; [eapply run_cons_ok; eauto|]. split; [eapply run_cons_ok; eauto|].
    assert (Gs : s_gap s2 = true) by (destruct r; [cbn in E2; injection E2 as <-; assumption|apply G2; discriminate]).
    assert (Gs' : s_gap s2' = true) by (destruct r'; [cbn in E2'; injection E2' as <-; assumption|apply G2'; discriminate]).
    destruct I2 as (K2 & T2 & S2 & Cm2). destruct I2' as (K2' & T2' & S2' & Cm2').
    destruct C2 as (c1 & c2 & c3 & c4 & c5 & c6 & c7 & c8 & c9 & c10).
    destruct C2' as (d1 & d2 & d3 & d4 & d5 & d6 & d7 & d8 & d9 & d10).
    destruct C1 as (a1 & a2 & a3 & a4 & a5 & a6 & a7 & a9 & a10).
    destruct C1' as (b1 & b2 & b3 & b4 & b5 & b6 & b7 & b9 & b10).
    split; [|assumption]. pose proof (sm_pglued _ _ _ S) as PG. rewrite Ek in PG. specialize (PG eq_refl).
    destruct S. constructor; try congruence.
    all: try (rewrite K2; split; assumption).
    all: try (unfold mode_ok; rewrite K2; repeat split; congruence).
    all: try (rewrite K2; intros; discriminate).
    all: try (rewrite <- c9, <- d9, <- a9, <- b9; assumption).
    all: try (rewrite <- c8, <- d8, W1, W1'; constructor; [|assumption];
              unfold new_tok, tok_sim; cbn; rewrite <- EK, Ek, T, PG; cbn; repeat split; reflexivity).
  - (* Paren *)
    destruct M as (Mi & Mc & Me). destruct M' as (Mi' & Mc' & Me').
    pose proof (sm_tstr _ _ _ S) as T. rewrite Ek in T. destruct T as (o & x & x' & (Ho & Hpo) & T & T' & Hacc).
    assert (Hpo' : s_paren st' = o) by (rewrite <- (sm_paren _ _ _ S); assumption).
    destruct (step_paren_ws st c Ek) as (s1 & E1 & T1 & S1 & Cm1 & P1); try assumption; [rewrite Hpo; assumption|].
    destruct (step_paren_ws st' c' (eq_sym EK)) as (s1' & E1' & T1' & S1' & Cm1' & P1'); try assumption; [rewrite Hpo'; assumption|].
    pose proof P1 as (pk & _ & _ & pp & _ & pi & _). pose proof P1' as (pk' & _ & _ & pp' & _ & pi' & _).
    destruct (run_paren_tail r Hr s1) as (s2 & E2 & T2 & S2 & Cm2 & P2); try congruence.
    destruct (run_paren_tail r' Hr' s1') as (s2' & E2' & T2' & S2' & Cm2' & P2'); try congruence.
    exists s2, s2'. split; [eapply run_cons_ok; eauto|]. split; [eapply run_cons_ok; eauto|].
    pose proof (paren_core_trans _ _ _ P1 P2) as C. pose proof (paren_core_trans _ _ _ P1' P2') as C'.
    destruct C as (c0 & c1 & c2 & c3 & c4 & c5 & c6 & c7 & c8 & c9 & c10 & c11).
    destruct C' as (d0 & d1 & d2 & d3 & d4 & d5 & d6 & d7 & d8 & d9 & d10 & d11).
    split; [|assumption]. pose proof (sm_pglued _ _ _ S) as PG. rewrite Ek in PG. specialize (PG eq_refl).
    pose proof (acc_push_lay _ _ _ (c :: r) (c' :: r') Hacc Hw Hw') as Hacc2.
    destruct S. constructor; try congruence.
    all: try (unfold mode_ok; rewrite <- c0, Ek; repeat split; congruence).
    all: try (rewrite <- c7, <- d7; assumption).
    all: try (rewrite <- c8, <- d8; assumption).
    rewrite <- c0, Ek. exists o, (x ++ c :: r), (x' ++ c' :: r'). split; [split; [assumption|congruence]|].
    split; [rewrite T2, T1, T; cbn; rewrite !rev_app_distr; cbn; rewrite <- !app_assoc; reflexivity|].
    split; [rewrite T2', T1', T'; cbn; rewrite !rev_app_distr; cbn; rewrite <- !app_assoc; reflexivity|].
    rewrite S2. assumption.
Qed.
End Lay2.

(* ------------------------------------------------------------------ one character, both sides *)
Section StepSim.
Variable cf es : bool.

Lemma run_ev s : forall st f, run [] cf es st s = Ok f -> s_ev st = true -> s_ev f = true.
Proof.
  induction s as [|c r IH]; intros st f H E; cbn in H; [injection H as <-; assumption|].
  destruct (step [] cf es st c) as [st1|] eqn:Es; [|discriminate]. eapply IH; [exact H|]. eapply step_ev; eauto.
Qed.

Lemma run_app a : forall b st, run [] cf es st (a ++ b) =
  match run [] cf es st a with Ok st1 => run [] cf es st1 b | Err e => Err e end.
Proof.
  induction a as [|c r IH]; intros b st; cbn; [reflexivity|].
  destruct (step [] cf es st c); [apply IH|reflexivity].
Qed.

(* `step` on a character that is neither a newline nor the second slash of `//` *)
Lemma step_decomp st c :
  is_nl c = false ->
  Ascii.eqb c SLASH && s_slash st && match s_kind st with SParen | SString => false | _ => true end = false ->
  step [] cf es st c =
  let st0 := set_pos st (s_line st) (s_col st + 1) in
  if Ascii.eqb c SEMI && match s_kind st with SNone => true | _ => false end && negb es then Err EUnexpectedSemicolon
  else match s_kind st with
       | SKeyword | SOperator =>
           match parse_kw_op [] es st0 c with
           | Ok (st1, true) => Ok (set_slash st1 (Ascii.eqb c SLASH))
           | Ok (st1, false) =>
               match s_kind st1 with
               | SNone => none_tail st1 c
               | SString => string_tail st1 c
               | SParen => paren_tail cf es st1 c
               | _ => Ok (set_slash st1 (Ascii.eqb c SLASH))
               end
           | Err e => Err e
           end
       | SNone => none_tail st0 c
       | SString => string_tail st0 c
       | SParen => paren_tail cf es st0 c
       | SComment => Ok (set_slash st0 (Ascii.eqb c SLASH))
       end.
Proof.
  intros Hnl Hc. unfold step. cbn zeta.
  change (s_kind (set_pos st (s_line st) (s_col st + 1))) with (s_kind st).
  change (s_slash (set_pos st (s_line st) (s_col st + 1))) with (s_slash st). rewrite Hnl, Hc.
  destruct (Ascii.eqb c SEMI && _ && negb es); [reflexivity|].
  unfold none_tail, string_tail, paren_tail.
  destruct (s_kind st) eqn:Ek; cbn [is_pending_kind];
    change (s_kind (set_pos st (s_line st) (s_col st + 1))) with (s_kind st); rewrite ?Ek.
  all: repeat first [ reflexivity
                    | match goal with |- context [match parse_none [] ?a ?b with _ => _ end] => destruct (parse_none [] a b) as [[? []]|] end
                    | match goal with |- context [match parse_kw_op [] es ?a ?b with _ => _ end] => destruct (parse_kw_op [] es a b) as [[? []]|] end
                    | match goal with |- context [match parse_string [] ?a ?b with _ => _ end] => destruct (parse_string [] a b) end
                    | match goal with |- context [match parse_paren [] cf es ?a ?b with _ => _ end] => destruct (parse_paren [] cf es a b) as [[? []]|] end
                    | match goal with |- context [match s_kind ?a with _ => _ end] => destruct (s_kind a) end ].
Qed.

Lemma kwop_sdq_false st c st1 b : is_sdq c = true -> parse_kw_op [] es st c = Ok (st1, b) -> b = false.
Proof.
  intros Hq H. unfold parse_kw_op in H. unfold is_sdq in Hq.
  replace (Ascii.eqb c SQ || Ascii.eqb c DQ || is_lparen c || Ascii.eqb c COMMA_C || is_ws c) with true in H
    by (symmetry; rewrite Hq; reflexivity).
  destruct (append_token [] _ st); [injection H as _ <-; reflexivity|discriminate].
Qed.

Lemma cmt_cond_false st c :
  (s_slash st = true -> c <> SLASH) ->
  Ascii.eqb c SLASH && s_slash st && match s_kind st with SParen | SString => false | _ => true end = false.
Proof.
  intros H. destruct (Ascii.eqb_spec c SLASH) as [->|]; [|reflexivity].
  destruct (s_slash st); [exfalso; apply H; reflexivity|reflexivity].
Qed.

Lemma step_sim_code st st' c st1 :
  sim MCode st st' -> (code_char c = true \/ is_sdq c = true) -> (s_slash st = true -> c <> SLASH) ->
  step [] cf es st c = Ok st1 -> s_ev st1 = false ->
  exists st1', step [] cf es st' c = Ok st1' /\ sim (next_mode c) st1 st1'.
Proof.
  intros S Hc Hs H Hev.
  assert (Hnl : is_nl c = false) by (destruct Hc; [apply code_char_not_nl|apply sdq_not_nl]; assumption).
  assert (Hs' : s_slash st' = true -> c <> SLASH) by (rewrite <- (sm_slash _ _ _ S); assumption).
  rewrite (step_decomp st c Hnl (cmt_cond_false st c Hs)) in H.
  rewrite (step_decomp st' c Hnl (cmt_cond_false st' c Hs')).
  cbn zeta in *. rewrite <- (sm_kind _ _ _ S).
  destruct (Ascii.eqb c SEMI && _ && negb es); [discriminate|].
  pose proof (sim_set_pos _ _ _ (s_line st) (s_col st + 1) (s_line st') (s_col st' + 1) S) as S0.
  pose proof (sm_mode _ _ _ S) as M. unfold mode_ok in M.
  assert (Hnm : forall m, (is_quote c = false -> m = MCode) -> is_kwop (s_kind st) = true -> code_char c = true -> True) by auto.
  destruct (s_kind st) eqn:Ek; try contradiction.
  - eapply none_tail_sim; eauto.
  - destruct (parse_kw_op [] es _ c) as [[s1 b]|] eqn:Ekw; [|discriminate].
    destruct (kwop_sim es _ _ c s1 b S0) as (s1' & E' & S1 & Hb); [cbn; rewrite Ek; reflexivity|assumption|exact Ekw|].
    rewrite E'. destruct b.
    + injection H as <-. eexists. split; [reflexivity|].
      assert (is_quote c = false).
      { destruct Hc as [Hc|Hc]; [apply code_char_not_quote; assumption|].
        pose proof (kwop_sdq_false _ _ _ _ Hc Ekw). discriminate. }
      unfold next_mode. rewrite H. apply sim_set_slash_nonparen; [assumption|].
      destruct (s_kind s1); try discriminate.
    + rewrite Hb in H. rewrite <- (sm_kind _ _ _ S1), Hb. eapply none_tail_sim; eauto.
  - destruct (parse_kw_op [] es _ c) as [[s1 b]|] eqn:Ekw; [|discriminate].
    destruct (kwop_sim es _ _ c s1 b S0) as (s1' & E' & S1 & Hb); [cbn; rewrite Ek; reflexivity|assumption|exact Ekw|].
    rewrite E'. destruct b.
    + injection H as <-. eexists. split; [reflexivity|].
      assert (is_quote c = false).
      { destruct Hc as [Hc|Hc]; [apply code_char_not_quote; assumption|].
        pose proof (kwop_sdq_false _ _ _ _ Hc Ekw). discriminate. }
      unfold next_mode. rewrite H. apply sim_set_slash_nonparen; [assumption|].
      destruct (s_kind s1); try discriminate.
    + rewrite Hb in H. rewrite <- (sm_kind _ _ _ S1), Hb. eapply none_tail_sim; eauto.
  - destruct Hc as [Hc|Hc].
    + unfold next_mode. rewrite (code_char_not_quote _ Hc). eapply paren_tail_code_sim; eauto.
    + unfold next_mode. rewrite (sdq_is_quote _ Hc). eapply paren_tail_open_sim; eauto.
Qed.

Lemma step_sim_str st st' q e c st1 :
  sim (MStr q e) st st' -> is_nl c = false ->
  step [] cf es st c = Ok st1 -> s_ev st1 = false ->
  exists st1', step [] cf es st' c = Ok st1' /\ sim (str_next q e c) st1 st1'.
Proof.
  intros S Hnl H Hev.
  pose proof (sm_mode _ _ _ S) as M. unfold mode_ok in M. destruct M as (_ & _ & _ & M).
  assert (Hk : s_kind st = SString \/ s_kind st = SParen) by (destruct M as [(K & _)|(K & _)]; auto).
  assert (C1 : Ascii.eqb c SLASH && s_slash st && match s_kind st with SParen | SString => false | _ => true end = false)
    by (destruct Hk as [-> | ->]; apply andb_false_r).
  assert (C2 : Ascii.eqb c SLASH && s_slash st' && match s_kind st' with SParen | SString => false | _ => true end = false)
    by (rewrite <- (sm_kind _ _ _ S); destruct Hk as [-> | ->]; apply andb_false_r).
  rewrite (step_decomp st c Hnl C1) in H. rewrite (step_decomp st' c Hnl C2).
  cbn zeta in *. rewrite <- (sm_kind _ _ _ S).
  pose proof (sim_set_pos _ _ _ (s_line st) (s_col st + 1) (s_line st') (s_col st' + 1) S) as S0.
  destruct Hk as [Hk|Hk]; rewrite Hk in *; rewrite ?andb_false_r in *; cbn [andb] in *.
  - eapply string_tail_sim; eauto.
  - eapply paren_tail_str_sim; eauto.
Qed.
End StepSim.

(* ------------------------------------------------------------------ is_slash after a step *)
Section Slash.
Variable cf es : bool.

Lemma none_tail_slash st c st1 : none_tail st c = Ok st1 -> s_slash st1 = true -> Ascii.eqb c SLASH = true.
Proof.
  unfold none_tail. destruct (parse_none [] st c) as [[s2 []]|]; intros H Hs; try discriminate;
    injection H as <-; cbn in Hs; [discriminate|assumption].
Qed.
Lemma string_tail_slash st c st1 : string_tail st c = Ok st1 -> s_slash st1 = true -> Ascii.eqb c SLASH = true.
Proof.
  unfold string_tail. destruct (parse_string [] st c); intros H Hs; try discriminate. injection H as <-. exact Hs.
Qed.

Lemma paren_true_slash st c st2 :
  parse_paren [] cf es st c = Ok (st2, true) -> s_slash st2 = s_slash st && Ascii.eqb c SLASH.
Proof.
  unfold parse_paren. cbn zeta.
  change (s_instr (push_char st c)) with (s_instr st). change (s_incmt (push_char st c)) with (s_incmt st).
  destruct (s_instr st).
  { intros H. repeat (break_hyp; inv_ok; try discriminate). }
  destruct (s_incmt st); [discriminate|].
  match goal with |- (if ?x then _ else _) = _ -> _ => destruct x end.
  2:{ intros H. repeat (break_hyp; inv_ok; try discriminate). }
  rewrite append_nil. intros H.
  repeat (break_hyp; inv_ok; try discriminate); inv_ok;
    try (unfold append_keywords in *; cbn in *; inv_ok); cbn; reflexivity.
Qed.

Lemma paren_tail_slash st c st1 : paren_tail cf es st c = Ok st1 -> s_slash st1 = true -> Ascii.eqb c SLASH = true.
Proof.
  unfold paren_tail. destruct (parse_paren [] cf es st c) as [[s2 []]|] eqn:E; intros H Hs; try discriminate; injection H as <-.
  - rewrite (paren_true_slash _ _ _ E) in Hs. apply andb_true_iff in Hs. apply Hs.
  - exact Hs.
Qed.

Lemma step_slash st c st1 :
  is_nl c = false -> step [] cf es st c = Ok st1 -> s_slash st1 = true -> c = SLASH.
Proof.
  intros Hnl H Hs. apply Ascii.eqb_eq.
  destruct (Ascii.eqb c SLASH && s_slash st && match s_kind st with SParen | SString => false | _ => true end) eqn:Ec.
  { apply andb_true_iff in Ec. destruct Ec as [Ec _]. apply andb_true_iff in Ec. apply Ec. }
  rewrite (step_decomp cf es st c Hnl Ec) in H. cbn zeta in H.
  destruct (Ascii.eqb c SEMI && _ && negb es); [discriminate|].
  destruct (s_kind st).
  - eapply none_tail_slash; eauto.
  - destruct (parse_kw_op [] es _ c) as [[s1 []]|]; try discriminate.
    + injection H as <-. exact Hs.
    + destruct (s_kind s1); first [solve [eapply none_tail_slash; eauto] | solve [eapply string_tail_slash; eauto]
                                  | solve [eapply paren_tail_slash; eauto] | injection H as <-; exact Hs].
  - destruct (parse_kw_op [] es _ c) as [[s1 []]|]; try discriminate.
    + injection H as <-. exact Hs.
    + destruct (s_kind s1); first [solve [eapply none_tail_slash; eauto] | solve [eapply string_tail_slash; eauto]
                                  | solve [eapply paren_tail_slash; eauto] | injection H as <-; exact Hs].
  - eapply string_tail_slash; eauto.
  - eapply paren_tail_slash; eauto.
  - injection H as <-. exact Hs.
Qed.
End Slash.
