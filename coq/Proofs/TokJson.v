(* Proofs.TokJson - JMCDecodeJSONError cites the file position of the offset json.loads stopped at. *)
From Coq Require Import ZArith NArith List Bool Lia.
From JMCV Require Import Model.Tok Model.TokPos Model.TokJson Proofs.TokPos.
Import ListNotations.
Open Scope Z_scope.

Lemma count_nl_nonneg : forall s, 0 <= count_nl s.
Proof.
  induction s as [|c r IH]; [now vm_compute|].
  rewrite count_nl_cons. destruct (ceqb c c_nl); lia.
Qed.

Lemma count_nl_has : forall s, has_nl s = true -> 1 <= count_nl s.
Proof.
  induction s as [|c r IH]; [discriminate|].
  cbn [has_nl]. rewrite count_nl_cons. pose proof (count_nl_nonneg r).
  destruct (ceqb c c_nl); cbn [orb]; intros E; [lia|]. specialize (IH E). lia.
Qed.

(* the arithmetic: shifting the position json reports for a text d (counted from (1,1)) by the token's position
   gives the position of the end of d counted from the token's position - on every line of the text *)
Theorem json_cite_shift : forall tl tc d, json_cite tl tc (pos_after (1, 1) d) = pos_after (tl, tc) d.
Proof.
  intros tl tc d. rewrite !pos_after_formula. unfold json_cite. cbn [fst snd].
  destruct (has_nl d) eqn:H.
  - pose proof (count_nl_has d H).
    destruct (Z.eqb_spec tl (tl + (1 + count_nl d) - 1)); [lia|]. f_equal; lia.
  - rewrite (count_nl_zero d H). replace (tl + (1 + 0) - 1) with tl by lia. rewrite Z.eqb_refl. f_equal; lia.
Qed.

Lemma pos_after_app : forall a b p, pos_after p (a ++ b) = pos_after (pos_after p a) b.
Proof. intros. unfold pos_after. apply fold_left_app. Qed.

(* in the file: the token's text doc sits at (tl, tc); json stopped at offset off of doc *)
Theorem json_cite_file_position : forall pre doc post tl tc off,
  (tl, tc) = pos_after (1, 1) pre -> (off <= length doc)%nat ->
  json_cite tl tc (json_err_pos doc off) = pos_of (pre ++ doc ++ post) (length pre + off).
Proof.
  intros pre doc post tl tc off Hp Ho. unfold json_err_pos, pos_of.
  rewrite json_cite_shift, firstn_app_2, pos_after_app, <- Hp.
  rewrite firstn_app. replace (off - length doc)%nat with 0%nat by lia.
  cbn [firstn]. rewrite app_nil_r. reflexivity.
Qed.

(* the shape rule is wrong exactly where a multi-line text has the error on its first line and does not start in column 1 *)
Theorem json_cite_shape_first_line : forall tl tc d,
  has_nl d = false -> (json_cite_shape true tl tc (pos_after (1, 1) d) = pos_after (tl, tc) d <-> tc = 1).
Proof.
  intros tl tc d H. rewrite !pos_after_formula. unfold json_cite_shape. cbn [fst snd]. rewrite H.
  split; intros E; [apply (f_equal snd) in E; cbn [snd] in E; lia|]. subst. f_equal. rewrite (count_nl_zero d H). lia.
Qed.

Theorem json_cite_shape_same_elsewhere : forall tl tc d,
  has_nl d = true -> json_cite_shape true tl tc (pos_after (1, 1) d) = json_cite tl tc (pos_after (1, 1) d).
Proof.
  intros tl tc d H. rewrite !pos_after_formula. unfold json_cite_shape, json_cite. cbn [fst snd].
  pose proof (count_nl_has d H). destruct (Z.eqb_spec tl (tl + (1 + count_nl d) - 1)); [lia|reflexivity].
Qed.

Theorem json_cite_shape_single_line : forall tl tc e, fst e = 1 -> json_cite_shape false tl tc e = json_cite tl tc e.
Proof.
  intros tl tc [l c] E. cbn in E. subst. unfold json_cite_shape, json_cite. cbn [fst snd].
  replace (tl + 1 - 1) with tl by lia. rewrite Z.eqb_refl. reflexivity.
Qed.
