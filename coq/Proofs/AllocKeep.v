(* Proofs.AllocKeep — (strengthening round 3, properties C07 and C08)
   (1) a called name that is defined WITHOUT a file (@lazy / @if functions, json names) makes build() fail;
   (2) build() never replaces or truncates a function the program stored: the Function object stays at its
       path and its lines stay, in order, inside the assembled function (lines build() generates — objectives,
       load / tick commands, @add calls — are put before or behind them). *)
From Coq Require Import String Ascii List Bool Arith ZArith Lia.
From JMCV Require Import Base.Dec Model.Names Model.ResLoc Model.Alloc Proofs.ResLoc Proofs.Alloc.
Import ListNotations.
Open Scope string_scope.

(* ------------------------------------------------------------------ (1) defined without a file *)
Lemma check_called_some c st f l p pre :
  In (p, pre) l -> amem p f = false -> mem_str (first_seg p) (c_links c) = false ->
  exists e, check_called c st f l = Some e.
Proof.
  intros Hin M L. destruct (check_called c st f l) as [e|] eqn:E; [eauto|].
  destruct (check_called_none _ _ _ _ E _ _ Hin); congruence.
Qed.

Theorem fileless_call_rejected c ops b st p pre :
  run c ops = Some st -> In (OCalled p pre) ops ->
  fileless c b st p = true -> mem_str (first_seg p) (c_links c) = false ->
  exists e, build c b st = inl e.
Proof.
  intros HR Hin F L.
  destruct (run_from_facts _ _ _ _ HR) as (_ & _ & _ & P4 & _).
  destruct (amem_In _ _ (P4 _ _ Hin)) as [pre' Hc].
  unfold fileless in F. apply andb_true_iff in F as [_ F].
  unfold build, bind. destruct (assemble c b st) as [e|[h' f']] eqn:A; [eauto|]. simpl in F |- *.
  apply negb_true_iff in F.
  destruct (check_called_some c st f' (called st) p pre' Hc F L) as [e E].
  unfold checks. rewrite E. eauto.
Qed.

(* the same fact on the accepted side, for every state: an accepted build has no call of a file-less definition *)
Theorem accepted_no_fileless_call c b st files :
  build c b st = inr files -> fileless_called c b st = [].
Proof.
  intros HB. destruct (build_inv _ _ _ _ HB) as (h' & f' & ff & A & C & _ & _).
  unfold checks in C. destruct (check_called c st f' (called st)) eqn:CC; [discriminate|].
  unfold fileless_called.
  assert (X : forall l, incl l (called st) ->
              filter (fun e : string * string => fileless c b st (fst e) && negb (mem_str (first_seg (fst e)) (c_links c))) l = []).
  { induction l as [|[p pre] r IH]; intros I; [reflexivity|]. simpl.
    assert (Hin : In (p, pre) (called st)) by (apply I; now left).
    assert (Z : fileless c b st p && negb (mem_str (first_seg p) (c_links c)) = false).
    { destruct (check_called_none _ _ _ _ CC _ _ Hin) as [M|M].
      - unfold fileless. rewrite A. simpl. rewrite M. simpl. now rewrite andb_false_r.
      - rewrite M. simpl. now rewrite andb_false_r. }
    rewrite Z. apply IH. intros x Hx. apply I. now right. }
  rewrite X; [reflexivity|apply incl_refl].
Qed.

(* ------------------------------------------------------------------ (2) build() keeps what the program stored *)
(* [ls] is kept inside [ls']: ls' = pre ++ ls ++ post *)
Definition kept (ls ls' : list string) : Prop := exists pre post, ls' = (pre ++ ls ++ post)%list.
Lemma kept_refl ls : kept ls ls.
Proof. exists [], []. simpl. now rewrite app_nil_r. Qed.
Lemma kept_trans a b c : kept a b -> kept b c -> kept a c.
Proof.
  intros (p1 & q1 & ->) (p2 & q2 & ->). exists (p2 ++ p1)%list, (q1 ++ q2)%list. now rewrite <- !app_assoc.
Qed.
Lemma kept_In a b x : kept a b -> In x a -> In x b.
Proof. intros (p & q & ->) H. apply in_or_app. right. apply in_or_app. now left. Qed.

Record keeps (a b : HF) : Prop := mkKeeps {
  k_tab : forall p id, aget p (snd a) = Some id -> aget p (snd b) = Some id;
  k_lines : forall id ls, nget id (fst a) = Some ls -> exists ls', nget id (fst b) = Some ls' /\ kept ls ls'
}.
Lemma keeps_refl a : keeps a a.
Proof. constructor; [auto|]. intros id ls H. exists ls. split; [assumption|apply kept_refl]. Qed.
Lemma keeps_trans a b c : keeps a b -> keeps b c -> keeps a c.
Proof.
  intros [t1 l1] [t2 l2]. constructor; [auto|].
  intros id ls H. destruct (l1 _ _ H) as (ls1 & H1 & K1). destruct (l2 _ _ H1) as (ls2 & H2 & K2).
  exists ls2. split; [assumption|eapply kept_trans; eauto].
Qed.

Lemma prepend_keeps p cmds a b : prepend_at p cmds a = inr b -> keeps a b.
Proof.
  destruct a as [h f]. unfold prepend_at. intros H.
  destruct (aget p f) as [id|] eqn:Ep; [|discriminate]. destruct (nget id h) as [ls|] eqn:En; [|discriminate].
  inversion H; subst. clear H. constructor; simpl; [auto|].
  intros id' ls' H. rewrite nget_nset. destruct (Nat.eqb id' id) eqn:E.
  - apply Nat.eqb_eq in E. subst. rewrite En in H. inversion H; subst.
    eexists. split; [reflexivity|]. exists (fsplit cmds), []. now rewrite app_nil_r.
  - exists ls'. split; [assumption|apply kept_refl].
Qed.
Lemma append_keeps p cmds a b : append_at p cmds a = inr b -> keeps a b.
Proof.
  destruct a as [h f]. unfold append_at. intros H.
  destruct (aget p f) as [id|] eqn:Ep; [|discriminate]. destruct (nget id h) as [ls|] eqn:En; [|discriminate].
  inversion H; subst. clear H. constructor; simpl; [auto|].
  intros id' ls' H. rewrite nget_nset. destruct (Nat.eqb id' id) eqn:E.
  - apply Nat.eqb_eq in E. subst. rewrite En in H. inversion H; subst.
    eexists. split; [reflexivity|]. exists [], (fsplit cmds). reflexivity.
  - exists ls'. split; [assumption|apply kept_refl].
Qed.
(* a NEW function is created only at a path that holds none (build() tests `tick_name in self.functions`) *)
Lemma new_keeps p cmds a : amem p (snd a) = false -> keeps a (new_at p cmds a).
Proof.
  destruct a as [h f]. unfold new_at. simpl. intros M. constructor; simpl.
  - intros p' id H. rewrite aget_aset_other; [assumption|].
    intros ->. unfold amem in M. rewrite H in M. discriminate.
  - intros id ls H. rewrite nget_nset. destruct (Nat.eqb id (fresh_id h)) eqn:E.
    + apply Nat.eqb_eq in E. subst. rewrite fresh_id_none in H. discriminate.
    + exists ls. split; [assumption|apply kept_refl].
Qed.
Lemma after_funcs_keeps l : forall a b, after_funcs l a = inr b -> keeps a b.
Proof.
  induction l as [|[p cmds] r IH]; simpl; intros a b H.
  - inversion H; subst. apply keeps_refl.
  - destruct (amem p (snd a)); [|discriminate]. unfold bind in H.
    destruct (append_at p cmds a) as [e|a1] eqn:E; [discriminate|].
    eapply keeps_trans; [eapply append_keeps; eassumption|eauto].
Qed.

(* the merge of the private functions leaves every path that is not a private path alone *)
Definition private_paths (c : cfg) (st : state) : list string :=
  flat_map (fun ge : string * list (string * nat) => map (fun e => ppath c (fst ge) (fst e)) (snd ge)) (privs st).
Lemma merge_group_other c g inner : forall f p,
  ~ In p (map (fun e : string * nat => ppath c g (fst e)) inner) -> aget p (merge_group c g inner f) = aget p f.
Proof.
  unfold merge_group. induction inner as [|[n i] r IH]; simpl; intros f p N; [reflexivity|].
  rewrite IH by tauto. apply aget_aset_other. intros E. apply N. now left.
Qed.
Lemma merge_privs_other c ps : forall f p,
  ~ In p (flat_map (fun ge : string * list (string * nat) => map (fun e => ppath c (fst ge) (fst e)) (snd ge)) ps) ->
  aget p (merge_privs c ps f) = aget p f.
Proof.
  unfold merge_privs. induction ps as [|[g inner] r IH]; simpl; intros f p N; [reflexivity|].
  rewrite in_app_iff in N. rewrite IH by tauto. apply merge_group_other. tauto.
Qed.

Lemma assemble_keeps c b st h' f' :
  assemble c b st = inr (h', f') ->
  exists f2, keeps (heap st, funcs st) (h', f2) /\ f' = merge_privs c (privs st) f2.
Proof.
  unfold assemble, bind. intros H.
  destruct (scoreboards_of c b) as [e|sb]; [discriminate|].
  set (a0 := (heap st, funcs st)) in *.
  destruct (st_loads c (load_lines c b sb) a0) as [e|a1] eqn:E1; [discriminate|].
  assert (K1 : keeps a0 a1).
  { unfold st_loads in E1. destruct (load_lines c b sb); [inversion E1; subst; apply keeps_refl|eapply prepend_keeps; eassumption]. }
  destruct (st_after_loads c (b_after_loads b) a1) as [e|a2] eqn:E2; [discriminate|].
  assert (K2 : keeps a1 a2).
  { unfold st_after_loads in E2. destruct (b_after_loads b); [inversion E2; subst; apply keeps_refl|eapply append_keeps; eassumption]. }
  destruct (st_ticks c (b_ticks b) a2) as [e|a3] eqn:E3; [discriminate|].
  assert (K3 : keeps a2 a3).
  { unfold st_ticks in E3. destruct (b_ticks b); [inversion E3; subst; apply keeps_refl|].
    destruct (amem (c_tick c) (snd a2)) eqn:Em; [eapply prepend_keeps; eassumption|].
    inversion E3; subst. now apply new_keeps. }
  destruct (st_after_ticks c (b_after_ticks b) a3) as [e|a4] eqn:E4; [discriminate|].
  assert (K4 : keeps a3 a4).
  { unfold st_after_ticks in E4. destruct (b_after_ticks b); [inversion E4; subst; apply keeps_refl|].
    destruct (amem (c_tick c) (snd a3)) eqn:Em; [eapply append_keeps; eassumption|].
    inversion E4; subst. now apply new_keeps. }
  destruct (after_funcs (b_after_func b) a4) as [e|a5] eqn:E5; [discriminate|].
  pose proof (after_funcs_keeps _ _ _ E5) as K5.
  inversion H; subst. exists (snd a5). split; [|reflexivity].
  destruct a5. simpl. eauto using keeps_trans.
Qed.

(* Every function the program stored (under a path that is not a private-function path) is still at its path after
   build() assembled load / tick / @add targets, with all its lines, and is written to its file. *)
Theorem build_keeps_stored c b st files p id ls :
  build c b st = inr files ->
  aget p (funcs st) = Some id -> nget id (heap st) = Some ls ->
  ~ In p (private_paths c st) ->
  exists ls', kept ls ls' /\ In (fkey_of c p, FLines ls') files.
Proof.
  intros HB Hp Hl NP.
  destruct (build_inv _ _ _ _ HB) as (h' & f' & ff & A & _ & E & F).
  destruct (assemble_keeps _ _ _ _ _ A) as (f2 & [KT KL] & ->).
  destruct (KL _ _ Hl) as (ls' & Hn & K). simpl in Hn.
  exists ls'. split; [assumption|].
  assert (G : aget p (merge_privs c (privs st) f2) = Some id).
  { unfold private_paths in NP. rewrite merge_privs_other by assumption. apply KT. assumption. }
  subst files. apply in_or_app. right. apply in_or_app. left.
  apply aget_In in G. clear - G Hn E. revert ff E.
  induction (merge_privs c (privs st) f2) as [|[p0 id0] r IH]; simpl; intros ff E; [contradiction|].
  destruct (nget id0 h') as [ls0|] eqn:E0; [|discriminate]. unfold bind in E.
  destruct (emit_funcs c h' r) as [e|out] eqn:Er; [discriminate|]. inversion E; subst. clear E.
  destruct G as [G|G].
  - inversion G; subst. rewrite Hn in E0. inversion E0; subst. now left.
  - right. eapply IH; eauto.
Qed.

(* ... and the lines build() generates for the tick function are in it as well (so a user `function <TICK>()`
   and generated tick commands coexist; neither replaces the other). *)
Theorem build_tick_has_generated c b st files :
  build c b st = inr files ->
  ~ In (c_tick c) (private_paths c st) ->
  (b_ticks b <> [] \/ b_after_ticks b <> []) ->
  exists ls', In (fkey_of c (c_tick c), FLines ls') files /\
              (forall l, In l (fsplit (b_ticks b)) -> In l ls') /\ (forall l, In l (fsplit (b_after_ticks b)) -> In l ls').
Proof.
  intros HB NP NE.
  destruct (build_inv _ _ _ _ HB) as (h' & f' & ff & A & _ & E & F).
  unfold assemble, bind in A.
  destruct (scoreboards_of c b) as [e|sb]; [discriminate|].
  set (a0 := (heap st, funcs st)) in *.
  destruct (st_loads c (load_lines c b sb) a0) as [e|a1] eqn:E1; [discriminate|].
  destruct (st_after_loads c (b_after_loads b) a1) as [e|a2] eqn:E2; [discriminate|].
  destruct (st_ticks c (b_ticks b) a2) as [e|a3] eqn:E3; [discriminate|].
  destruct (st_after_ticks c (b_after_ticks b) a3) as [e|a4] eqn:E4; [discriminate|].
  destruct (after_funcs (b_after_func b) a4) as [e|a5] eqn:E5; [discriminate|].
  (* after st_ticks: if there are tick commands, the tick function exists and starts with them *)
  assert (T3 : b_ticks b <> [] -> exists id ls, aget (c_tick c) (snd a3) = Some id /\ nget id (fst a3) = Some ls /\
                                                 kept (fsplit (b_ticks b)) ls).
  { intros N. unfold st_ticks in E3. destruct (b_ticks b) as [|t0 tr] eqn:Et; [congruence|]. rewrite <- Et in *.
    destruct (amem (c_tick c) (snd a2)) eqn:Em.
    - destruct a2 as [h2 f2]. unfold prepend_at in E3. simpl in Em.
      destruct (aget (c_tick c) f2) as [id|] eqn:Ea; [|discriminate]. destruct (nget id h2) as [ls|] eqn:En; [|discriminate].
      inversion E3; subst. simpl. exists id. eexists. split; [assumption|]. split; [apply nget_nset_same|].
      exists [], ls. reflexivity.
    - inversion E3; subst. destruct a2 as [h2 f2]. unfold new_at. simpl.
      exists (fresh_id h2). eexists. split; [apply aget_aset_same|]. split; [apply nget_nset_same|apply kept_refl]. }
  assert (T4 : exists id ls, aget (c_tick c) (snd a4) = Some id /\ nget id (fst a4) = Some ls /\
                             (b_ticks b <> [] -> kept (fsplit (b_ticks b)) ls) /\ kept (fsplit (b_after_ticks b)) ls).
  { unfold st_after_ticks in E4. destruct (b_after_ticks b) as [|t0 tr] eqn:Et.
    - inversion E4; subst. destruct NE as [N|N]; [|congruence].
      destruct (T3 N) as (id & ls & H1 & H2 & H3). exists id, ls. repeat split; auto. exists [], ls. reflexivity.
    - rewrite <- Et in *. destruct (amem (c_tick c) (snd a3)) eqn:Em.
      + destruct a3 as [h3 f3]. unfold append_at in E4. simpl in Em.
        destruct (aget (c_tick c) f3) as [id|] eqn:Ea; [|discriminate]. destruct (nget id h3) as [ls|] eqn:En; [|discriminate].
        inversion E4; subst. simpl. exists id. eexists. split; [assumption|]. split; [apply nget_nset_same|]. split.
        * intros N. destruct (T3 N) as (id' & ls' & H1 & H2 & H3). simpl in H1, H2. rewrite Ea in H1. inversion H1; subst id'.
          rewrite En in H2. inversion H2; subst ls'. eapply kept_trans; [exact H3|]. exists [], (fsplit (b_after_ticks b)). reflexivity.
        * exists ls, []. now rewrite app_nil_r.
      + inversion E4; subst. destruct a3 as [h3 f3]. unfold new_at. simpl. simpl in Em.
        exists (fresh_id h3). eexists. split; [apply aget_aset_same|]. split; [apply nget_nset_same|]. split; [|apply kept_refl].
        intros N. destruct (T3 N) as (id' & ls' & H1 & _). simpl in H1. unfold amem in Em. rewrite H1 in Em. discriminate. }
  destruct T4 as (id & ls & Ha & Hn & Kt & Ka).
  destruct (after_funcs_keeps _ _ _ E5) as [KT KL].
  destruct (KL _ _ Hn) as (ls' & Hn' & K').
  inversion A; subst h' f'. clear A.
  exists ls'. split.
  - assert (G : aget (c_tick c) (merge_privs c (privs st) (snd a5)) = Some id).
    { unfold private_paths in NP. rewrite merge_privs_other by assumption. now apply KT. }
    subst files. apply in_or_app. right. apply in_or_app. left.
    apply aget_In in G. clear - G Hn' E. revert ff E.
    induction (merge_privs c (privs st) (snd a5)) as [|[p0 id0] r IH]; simpl; intros ff E; [contradiction|].
    destruct (nget id0 (fst a5)) as [ls0|] eqn:E0; [|discriminate]. unfold bind in E.
    destruct (emit_funcs c (fst a5) r) as [e|out] eqn:Er; [discriminate|]. inversion E; subst. clear E.
    destruct G as [G|G].
    + inversion G; subst. rewrite Hn' in E0. inversion E0; subst. now left.
    + right. eapply IH; eauto.
  - split.
    + intros l Hl. destruct (b_ticks b) eqn:Et; [contradiction|]. rewrite <- Et in *.
      eapply kept_In; [exact K'|]. eapply kept_In; [apply Kt; congruence|assumption].
    + intros l Hl. eapply kept_In; [exact K'|]. eapply kept_In; [exact Ka|assumption].
Qed.
