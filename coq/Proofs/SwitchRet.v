(* Proofs.SwitchRet — `return` in switch case bodies (Model.SwitchRet).  Property C06, round 4.

   rexec is a conservative extension of MC.Sem (rexec_plain); under it
   - the repaired macro dispatcher runs exactly the selected body — whatever the bodies do, returns at any
     point included — and `default` iff no label matches (parse_switch_macro_r_exact);
   - the binary-search tree does so as well (parse_switch_bst_rexact: nothing follows a leaf's body in its function);
   - the dispatcher of the tree before fixes/C06-return-in-macro-case.patch does not (refutation by a witness), and
     neither does the variant that sets the flag BEFORE the body (a nested switch with default resets it). *)
From Coq Require Import ZArith String List Bool Lia Ascii DecimalString Decimal.
From JMCV Require Import Base.Int32 Base.Dec MC.Syntax MC.Sem MC.Facts MC.Print Model.Names Model.Switch
     Model.SwitchRet Proofs.Switch.
Import ListNotations.
Open Scope Z_scope.
Open Scope list_scope.

Local Notation "a +++ b" := (String.append a b) (at level 60, right associativity).

(* ================================================================== strings *)

(* a decimal numeral holds no '/' *)
Lemma uint_of_string_slash a s : NilEmpty.uint_of_string (a +++ String "/" s) = None.
Proof.
  induction a as [|ch a IH]; cbn [String.append NilEmpty.uint_of_string].
  - destruct (NilEmpty.uint_of_string s); reflexivity.
  - rewrite IH. reflexivity.
Qed.

Lemma nz_uint_of_string_slash a s : NilZero.uint_of_string (a +++ String "/" s) = None.
Proof.
  unfold NilZero.uint_of_string.
  destruct (a +++ String "/" s) eqn:E; [reflexivity|]. rewrite <- E. apply uint_of_string_slash.
Qed.

Lemma int_of_string_slash a s : NilZero.int_of_string (a +++ String "/" s) = None.
Proof.
  destruct a as [|ch a].
  - cbn [String.append]. unfold NilZero.int_of_string.
    replace (Ascii.eqb "/" "-") with false by reflexivity.
    change (String "/" s) with (EmptyString +++ String "/" s). now rewrite nz_uint_of_string_slash.
  - change (String ch a +++ String "/" s) with (String ch (a +++ String "/" s)).
    unfold NilZero.int_of_string. destruct (Ascii.eqb ch _).
    + now rewrite nz_uint_of_string_slash.
    + change (String ch (a +++ String "/" s)) with (String ch a +++ String "/" s).
      now rewrite nz_uint_of_string_slash.
Qed.

Lemma z_dec_no_slash n a s : z_dec n <> a +++ String "/" s.
Proof. intros H. pose proof (z_dec_parses n) as P. rewrite H, int_of_string_slash in P. discriminate. Qed.

Section Names.
  Variable nm : names.
  Variable group : string.
  Variable pc : Z.
  Let pre := macro_prefix nm group pc.

  (* the function of an isolated body (a plain count) is never one of the dispatcher's own names *)
  Lemma inner_not_under_prefix n s : priv_path nm group (z_dec n) <> pre +++ s.
  Proof.
    unfold pre, macro_prefix. intros H.
    assert (E : priv_path nm group (z_dec pc +++ "/") +++ s = priv_path nm group (z_dec pc +++ String "/" s)).
    { unfold priv_path. rewrite !append_assoc. reflexivity. }
    rewrite E in H. apply priv_path_inj in H. now apply z_dec_no_slash in H.
  Qed.

  Lemma inner_eqb_prefix n s : String.eqb (priv_path nm group (z_dec n)) (pre +++ s) = false.
  Proof. apply String.eqb_neq. apply inner_not_under_prefix. Qed.

  Lemma inner_eqb_case n l : String.eqb (macro_case_name nm group pc l) (priv_path nm group (z_dec n)) = false.
  Proof.
    apply String.eqb_neq. rewrite macro_case_name_eq. intros H. symmetry in H.
    now apply inner_not_under_prefix in H.
  Qed.

  Lemma inner_eqb_inner a b : a <> b ->
    String.eqb (priv_path nm group (z_dec a)) (priv_path nm group (z_dec b)) = false.
  Proof. intros N. apply String.eqb_neq. intros H. apply fname_inj in H. contradiction. Qed.
End Names.

(* ------------------------------------------------------------------ words *)

Lemma ret_words_suffix p s : forall cur,
    exists front, ret_words (p +++ String " " s) cur = front ++ ret_words s EmptyString.
Proof.
  induction p as [|ch p IH]; intros cur; cbn [String.append ret_words].
  - exists [cur]. reflexivity.
  - destruct (Ascii.eqb ch (ascii_of_nat 32) || Ascii.eqb ch (ascii_of_nat 10))%bool.
    + destruct (IH EmptyString) as (front & E). exists (cur :: front). rewrite E. reflexivity.
    + apply IH.
Qed.

(* the words of the command behind `execute … run` are words of the whole line *)
Lemma line_has_return_execute ms c :
  line_has_return (CExecute ms c) = false -> line_has_return c = false.
Proof.
  unfold line_has_return. cbn [pr_cmd].
  set (mods := String.concat " " (map pr_mod ms)).
  replace ("execute " ++ mods ++ " run " ++ pr_cmd c)%string
    with (("execute " +++ mods +++ " run") +++ String " " (pr_cmd c)).
  2:{ rewrite !append_assoc. reflexivity. }
  destruct (ret_words_suffix ("execute " +++ mods +++ " run") (pr_cmd c) EmptyString) as (front & E).
  rewrite E, existsb_app. intros H. apply orb_false_iff in H. tauto.
Qed.

Lemma is_return_cmd_has_return t : is_return_cmd t = true -> line_has_return (COther t) = true.
Proof.
  unfold is_return_cmd, line_has_return. cbn [pr_cmd].
  destruct (ret_words t EmptyString) as [|w ws]; [discriminate|]. intros H. cbn [existsb]. now rewrite H.
Qed.

(* ================================================================== running commands that may return *)

Lemma rseq_ext (s1 s2 : cmd -> state -> option rres) :
  (forall c st r, s1 c st = Some r -> s2 c st = Some r) ->
  forall l st r, rseq s1 l st = Some r -> rseq s2 l st = Some r.
Proof.
  intros Hs. induction l as [|c l IH]; intros st r H; [exact H|]. cbn [rseq] in *.
  destruct (s1 c st) as [[[x y] o]|] eqn:E; [|discriminate]. rewrite (Hs _ _ _ E). destruct o; auto.
Qed.

Lemma rrun_mods_ext (k1 k2 : state -> option rres) :
  (forall st r, k1 st = Some r -> k2 st = Some r) ->
  forall ms stores st r, rrun_mods ms stores st k1 = Some r -> rrun_mods ms stores st k2 = Some r.
Proof.
  intros Hk. induction ms as [|[pos t|kd d] ms IH]; intros stores st r H; cbn [rrun_mods] in *.
  - destruct (k1 st) as [[[x y] o]|] eqn:E; [|discriminate]. now rewrite (Hk _ _ E).
  - destruct (Bool.eqb pos (test_true st t)); auto.
  - auto.
Qed.

Lemma rseq_app step l1 l2 st :
  rseq step (l1 ++ l2) st =
  match rseq step l1 st with
  | Some (st', Next) => rseq step l2 st'
  | Some (st', Ret) => Some (st', Ret)
  | None => None
  end.
Proof.
  revert st. induction l1 as [|c l1 IH]; intros; simpl.
  - reflexivity.
  - destruct (step c st) as [[[s1 r1] o]|]; [|reflexivity]. destruct o; [apply IH|reflexivity].
Qed.

Section RMono.
  Variable ft : string -> option (list cmd).
  Variable env : nat -> state -> state.

  Lemma rexec_mono : forall n me c st r, rexec ft env n me c st = Some r ->
                                  forall m, (n <= m)%nat -> rexec ft env m me c st = Some r.
  Proof.
    induction n as [|n IH]; intros me c st r H m Hm; [discriminate|].
    destruct m as [|m]; [lia|]. assert (Hnm : (n <= m)%nat) by lia.
    assert (SR : forall me l st r, rseq (rexec ft env n me) l st = Some r ->
                                   rseq (rexec ft env m me) l st = Some r).
    { intros me'. apply rseq_ext. intros; eapply IH; eauto. }
    destruct c; cbn [rexec] in *; try exact H.
    - eapply rrun_mods_ext; [|exact H]. intros; eapply IH; eauto.
    - destruct (ft f) as [body|]; [|exact H]. unfold rcall_res in *.
      destruct (rseq (rexec ft env n no_menv) body st) as [[s o]|] eqn:E; [|discriminate].
      now rewrite (SR _ _ _ _ E).
    - destruct (ft f) as [body|]; [|exact H]. unfold rcall_res in *.
      match type of H with match ?X with _ => _ end = _ => destruct X as [[s o]|] eqn:E; [|discriminate] end.
      now rewrite (SR _ _ _ _ E).
    - destruct (me key) as [v|]; [|exact H].
      destruct (ft _) as [body|]; [|exact H]. unfold rcall_res in *.
      destruct (rseq (rexec ft env n no_menv) body st) as [[s o]|] eqn:E; [|discriminate].
      now rewrite (SR _ _ _ _ E).
  Qed.

  Lemma rseq_mono me l n st r :
    rseq (rexec ft env n me) l st = Some r ->
    forall m, (n <= m)%nat -> rseq (rexec ft env m me) l st = Some r.
  Proof. intros H m Hm. eapply rseq_ext; [|exact H]. intros; eapply rexec_mono; eauto. Qed.

  (* one command / the lines of one function run from st to st' with outcome o *)
  Definition rsteps (me : string -> option Z) (c : cmd) (st st' : state) (o : outcome) : Prop :=
    exists F r, rexec ft env F me c st = Some (st', r, o).
  Definition rruns (me : string -> option Z) (l : list cmd) (st st' : state) (o : outcome) : Prop :=
    exists F, rseq (rexec ft env F me) l st = Some (st', o).
  (* the meaning of a FUNCTION whose lines are `body`: where its last executed line leaves the state,
     whether that line was a return or the last one *)
  Definition rcalls (body : list cmd) (st st' : state) : Prop := exists o, rruns no_menv body st st' o.

  Lemma rruns_nil me st : rruns me [] st st Next.
  Proof. exists 1%nat. reflexivity. Qed.

  Lemma rruns_cons me c l st st1 st2 o :
    rsteps me c st st1 Next -> rruns me l st1 st2 o -> rruns me (c :: l) st st2 o.
  Proof.
    intros (F1 & r & H1) (F2 & H2). exists (Nat.max F1 F2). cbn [rseq].
    rewrite (rexec_mono _ _ _ _ _ H1 (Nat.max F1 F2)) by lia.
    eapply rseq_mono; [exact H2|lia].
  Qed.

  Lemma rruns_cons_ret me c l st st1 :
    rsteps me c st st1 Ret -> rruns me (c :: l) st st1 Ret.
  Proof. intros (F1 & r & H1). exists F1. cbn [rseq]. now rewrite H1. Qed.

  Lemma rruns_app me l1 l2 st st1 st2 o :
    rruns me l1 st st1 Next -> rruns me l2 st1 st2 o -> rruns me (l1 ++ l2) st st2 o.
  Proof.
    intros (F1 & H1) (F2 & H2). exists (Nat.max F1 F2). rewrite rseq_app.
    rewrite (rseq_mono _ _ _ _ _ H1 (Nat.max F1 F2)) by lia.
    eapply rseq_mono; [exact H2|lia].
  Qed.

  Lemma rruns_app_ret me l1 l2 st st1 :
    rruns me l1 st st1 Ret -> rruns me (l1 ++ l2) st st1 Ret.
  Proof. intros (F1 & H1). exists F1. rewrite rseq_app, H1. reflexivity. Qed.

  Lemma rsteps_call me f body st st' :
    ft f = Some body -> rcalls body st st' -> rsteps me (CCall f) st st' Next.
  Proof.
    intros Hf (o & F & H). exists (S F), (r_ok 0). cbn [rexec]. rewrite Hf, H. reflexivity.
  Qed.

  Lemma rsteps_call_none me f st : ft f = None -> rsteps me (CCall f) st st Next.
  Proof. intros Hf. exists 1%nat, r_fail. cbn [rexec]. now rewrite Hf. Qed.

  Lemma rsteps_if_run me pos t body st st' o :
    test_true st t = pos -> rsteps me body st st' o -> rsteps me (CExecute [MIf pos t] body) st st' o.
  Proof.
    intros Ht (F & r & H). exists (S F), r. cbn [rexec rrun_mods]. rewrite Ht, Bool.eqb_reflx, H.
    reflexivity.
  Qed.

  Lemma rsteps_if_skip me pos t body st :
    test_true st t = negb pos -> rsteps me (CExecute [MIf pos t] body) st st Next.
  Proof.
    intros Ht. exists 1%nat, r_fail. cbn [rexec rrun_mods]. rewrite Ht.
    destruct pos; reflexivity.
  Qed.

  Lemma rsteps_set me s z st : rsteps me (CSet s z) st (set_sc st s z) Next.
  Proof. exists 1%nat, (r_ok z). reflexivity. Qed.

  Lemma rsteps_op me a o b st : rsteps me (COp a o b) st (fst (do_op st a o b)) Next.
  Proof.
    exists 1%nat, (snd (do_op st a o b)). cbn [rexec exec]. destruct (do_op st a o b); reflexivity.
  Qed.

  Lemma rsteps_callwith_hit me sel stor pre key v body st st' :
    ft sel = Some [CMacroCall pre key] ->
    stg st (stor +++ " " +++ key)%string = Some v ->
    ft (pre +++ z_dec v) = Some body ->
    rcalls body st st' ->
    rsteps me (CCallWith sel stor) st st' Next.
  Proof.
    intros Hsel Hstg Hf (o & F & H). exists (S (S F)), (r_ok 0).
    cbn [rexec]. rewrite Hsel. cbn [rseq rexec]. rewrite Hstg, Hf, H. reflexivity.
  Qed.

  Lemma rsteps_callwith_miss me sel stor pre key v st :
    ft sel = Some [CMacroCall pre key] ->
    stg st (stor +++ " " +++ key)%string = Some v ->
    ft (pre +++ z_dec v) = None ->
    rsteps me (CCallWith sel stor) st st Next.
  Proof.
    intros Hsel Hstg Hf. exists 2%nat, (r_ok 0).
    cbn [rexec]. rewrite Hsel. cbn [rseq rexec]. rewrite Hstg, Hf. reflexivity.
  Qed.

  Lemma rsteps_store_get me key x st :
    rsteps me (CExecute [MStore SResult (DStorage key)] (CGet x)) st
           (mkState (sc st) (supd (stg st) key (Some (rd (sc st) x))) (tr st)) Next.
  Proof.
    unfold rd. destruct (sc st x) as [v|] eqn:E.
    - exists 2%nat, (r_ok v). cbn [rexec rrun_mods app exec]. rewrite E. reflexivity.
    - exists 2%nat, r_fail. cbn [rexec rrun_mods app exec]. rewrite E. reflexivity.
  Qed.

  (* ---------------------------------------------------------------- lines without the word `return` do not return *)

  Lemma rrun_mods_next (k : state -> option rres) :
    (forall st st' r o, k st = Some (st', r, o) -> o = Next) ->
    forall ms stores st st' r o, rrun_mods ms stores st k = Some (st', r, o) -> o = Next.
  Proof.
    intros Hk. induction ms as [|[pos t|kd d] ms IH]; intros stores st st' r o H; cbn [rrun_mods] in H.
    - destruct (k st) as [[[x y] o']|] eqn:E; [|discriminate]. injection H as _ _ <-. eauto.
    - destruct (Bool.eqb pos (test_true st t)); [eauto|]. now injection H as _ _ <-.
    - eauto.
  Qed.

  Lemma no_return_line : forall F me c st st' r o,
      line_has_return c = false -> rexec ft env F me c st = Some (st', r, o) -> o = Next.
  Proof.
    induction F as [|F IH]; intros me c st st' r o Hc H; [discriminate|].
    destruct c; cbn [rexec] in H;
      try (match type of H with
           | match ?X with _ => _ end = _ => destruct X as [[? ?]|]; [now injection H as _ _ <-|discriminate]
           end).
    - (* execute *)
      apply line_has_return_execute in Hc.
      eapply rrun_mods_next; [|exact H]. intros s s' r' o' Hk. eapply IH; eauto.
    - (* function *)
      destruct (ft f); [|now injection H as _ _ <-]. unfold rcall_res in H.
      destruct (rseq _ _ _) as [[? ?]|]; [now injection H as _ _ <-|discriminate].
    - destruct (ft f); [|now injection H as _ _ <-]. unfold rcall_res in H.
      destruct (rseq _ _ _) as [[? ?]|]; [now injection H as _ _ <-|discriminate].
    - destruct (me key); [|now injection H as _ _ <-].
      destruct (ft _); [|now injection H as _ _ <-]. unfold rcall_res in H.
      destruct (rseq _ _ _) as [[? ?]|]; [now injection H as _ _ <-|discriminate].
    - (* any other command *)
      injection H as _ _ <-. destruct (is_return_cmd t) eqn:E; [|reflexivity].
      apply is_return_cmd_has_return in E. congruence.
  Qed.

  Lemma no_return_body me body : body_has_return body = false ->
    forall st st' o, rruns me body st st' o -> o = Next.
  Proof.
    induction body as [|c body IH]; intros Hb st st' o (F & H); cbn [rseq] in H.
    - now injection H as _ <-.
    - cbn [body_has_return existsb] in Hb. apply orb_false_iff in Hb. destruct Hb as [Hc Hb].
      destruct (rexec ft env F me c st) as [[[s1 r1] o1]|] eqn:E; [|discriminate].
      pose proof (no_return_line _ _ _ _ _ _ _ Hc E). subst o1.
      eapply IH; [exact Hb|]. exists F. exact H.
  Qed.
End RMono.

(* ================================================================== the repaired macro dispatcher *)

Lemma fget_last_cons_tail (fs : list func) f b k body :
  fget_last fs k = Some body -> fget_last ((f, b) :: fs) k = Some body.
Proof. intros H. cbn [fget_last]. now rewrite H. Qed.

Lemma fget_last_cons_none (fs : list func) f b k :
  fget_last fs k = None -> fget_last ((f, b) :: fs) k = if String.eqb f k then Some b else None.
Proof. intros H. cbn [fget_last]. now rewrite H. Qed.

Section MacroRLookup.
  Variable nm : names.
  Variable group : string.
  Variable pc : Z.
  Variable hd : bool.

  Let pre := macro_prefix nm group pc.
  Let inner (n : Z) := priv_path nm group (z_dec n).

  (* the counts only grow, and a count below `next` names no function of the rest *)
  Lemma case_fns_next : forall cases next fs n',
      macro_case_fns_r nm group pc hd cases next = (fs, n') -> next <= n'.
  Proof.
    induction cases as [|c r IH]; intros next fs n' H; cbn [macro_case_fns_r] in H.
    - injection H as _ <-. lia.
    - destruct (isolates hd c).
      + destruct (macro_case_fns_r nm group pc hd r (next + 1)) as [fs0 n0] eqn:E.
        injection H as _ <-. apply IH in E. lia.
      + destruct (macro_case_fns_r nm group pc hd r next) as [fs0 n0] eqn:E.
        injection H as _ <-. eauto.
  Qed.

  Lemma case_fns_fresh : forall cases next fs n' m,
      macro_case_fns_r nm group pc hd cases next = (fs, n') -> m < next -> fget_last fs (inner m) = None.
  Proof.
    induction cases as [|c r IH]; intros next fs n' m H Hm; cbn [macro_case_fns_r] in H.
    - injection H as <- _. reflexivity.
    - destruct (isolates hd c).
      + destruct (macro_case_fns_r nm group pc hd r (next + 1)) as [fs0 n0] eqn:E.
        injection H as <- _.
        rewrite fget_last_cons_none.
        * unfold inner. rewrite inner_eqb_inner by lia. reflexivity.
        * rewrite fget_last_cons_none by (eapply IH; [exact E|lia]).
          unfold inner. now rewrite inner_eqb_case.
      + destruct (macro_case_fns_r nm group pc hd r next) as [fs0 n0] eqn:E.
        injection H as <- _.
        rewrite fget_last_cons_none by (eapply IH; eauto).
        unfold inner. now rewrite inner_eqb_case.
  Qed.

  (* what the function of case c looks like in the table fs *)
  Definition case_fn_ok (fs : list func) (c : label * list cmd) (fb : list cmd) : Prop :=
    if isolates hd c
    then exists f, fb = [CCall f; flag_line nm] /\ fget_last fs f = Some (snd c)
    else fb = macro_case_body nm hd c.

  Lemma case_fn_ok_cons fs f b c fb :
    case_fn_ok fs c fb -> case_fn_ok ((f, b) :: fs) c fb.
  Proof.
    unfold case_fn_ok. destruct (isolates hd c); [|auto].
    intros (g & -> & Hg). exists g. split; [reflexivity|]. now apply fget_last_cons_tail.
  Qed.

  Lemma fget_last_case_fns_r (l' : label) : forall cases next fs n' i,
      macro_case_fns_r nm group pc hd cases next = (fs, n') ->
      match find_last_from (fun c => label_eqb (fst c) l') cases i with
      | Some (_, c) => exists fb, fget_last fs (pre +++ label_str l') = Some fb /\ case_fn_ok fs c fb
      | None => fget_last fs (pre +++ label_str l') = None
      end.
  Proof.
    induction cases as [|c r IH]; intros next fs n' i H; cbn [macro_case_fns_r find_last_from] in *.
    - injection H as <- _. reflexivity.
    - destruct (isolates hd c) eqn:Iso.
      + destruct (macro_case_fns_r nm group pc hd r (next + 1)) as [fs0 n0] eqn:E.
        injection H as <- _. specialize (IH _ _ _ (S i) E).
        destruct (find_last_from (fun c0 => label_eqb (fst c0) l') r (S i)) as [[k c']|].
        * destruct IH as (fb & Hfb & Hok). exists fb. split.
          -- now do 2 apply fget_last_cons_tail.
          -- now do 2 apply case_fn_ok_cons.
        * assert (T : fget_last ((macro_case_name nm group pc (fst c), [CCall (inner next); flag_line nm]) :: fs0)
                                (pre +++ label_str l') =
                      if label_eqb (fst c) l' then Some [CCall (inner next); flag_line nm] else None).
          { rewrite fget_last_cons_none by exact IH. unfold pre. now rewrite case_name_eqb. }
          fold (inner next). destruct (label_eqb (fst c) l') eqn:L.
          -- (* this case carries the label: its function calls the isolated body *)
             eexists. split; [apply fget_last_cons_tail; exact T|].
             unfold case_fn_ok. rewrite Iso. eexists. split; [reflexivity|].
             rewrite fget_last_cons_none.
             ++ now rewrite String.eqb_refl.
             ++ rewrite fget_last_cons_none by (eapply (case_fns_fresh _ _ _ _ next E); lia).
                unfold inner. now rewrite inner_eqb_case.
          -- rewrite fget_last_cons_none by exact T. unfold inner, pre. now rewrite inner_eqb_prefix.
      + destruct (macro_case_fns_r nm group pc hd r next) as [fs0 n0] eqn:E.
        injection H as <- _. specialize (IH _ _ _ (S i) E).
        destruct (find_last_from (fun c0 => label_eqb (fst c0) l') r (S i)) as [[k c']|].
        * destruct IH as (fb & Hfb & Hok). exists fb. split.
          -- now apply fget_last_cons_tail.
          -- now apply case_fn_ok_cons.
        * rewrite fget_last_cons_none by exact IH. unfold pre. rewrite case_name_eqb.
          destruct (label_eqb (fst c) l') eqn:L; [|reflexivity].
          eexists. split; [reflexivity|]. unfold case_fn_ok. now rewrite Iso.
  Qed.
  (* `select` is none of the case functions, nor an isolated body *)
  Lemma case_fns_no_select : forall cases next fs n',
      macro_case_fns_r nm group pc hd cases next = (fs, n') -> fget_last fs (macro_select_name nm group pc) = None.
  Proof.
    assert (Cs : forall l, String.eqb (macro_case_name nm group pc l) (macro_select_name nm group pc) = false).
    { intros l. rewrite macro_case_name_eq, String.eqb_sym. apply select_name_neq. }
    assert (Is : forall n, String.eqb (inner n) (macro_select_name nm group pc) = false).
    { intros n. rewrite macro_select_name_eq. apply inner_eqb_prefix. }
    induction cases as [|c r IH]; intros next fs n' H; cbn [macro_case_fns_r] in H.
    - injection H as <- _. reflexivity.
    - destruct (isolates hd c).
      + destruct (macro_case_fns_r nm group pc hd r (next + 1)) as [fs0 n0] eqn:E. injection H as <- _.
        rewrite fget_last_cons_none.
        * fold (inner next). now rewrite Is.
        * rewrite fget_last_cons_none by (eapply IH; eauto). now rewrite Cs.
      + destruct (macro_case_fns_r nm group pc hd r next) as [fs0 n0] eqn:E. injection H as <- _.
        rewrite fget_last_cons_none by (eapply IH; eauto). now rewrite Cs.
  Qed.
End MacroRLookup.

Section MacroRSem.
  Variable nm : names.
  Variable group : string.
  Variable x : score.
  Variable cases : list (label * list cmd).
  Variable pc : Z.
  Variable ft : string -> option (list cmd).
  Variable env : nat -> state -> state.
  Variable B : nat -> state -> state.     (* meaning of the k-th body, AS A FUNCTION: it may return at any line *)

  Let hd := has_default cases.
  Let found := found_score nm.
  Let pre := macro_prefix nm group pc.

  Definition bodies_ok_macro_r : Prop :=
    forall k c, nth_error cases k = Some c -> forall st, rcalls ft env (snd c) st (B k st).

  Hypothesis HB : bodies_ok_macro_r.

  (* the function of case c: its body, then — in a switch with default, for a numbered case — the flag; whatever
     the body does *)
  Lemma case_function_runs fs k c fb st :
    (forall f b, fget_last fs f = Some b -> ft f = Some b) ->
    nth_error cases k = Some c -> case_fn_ok nm hd fs c fb ->
    rcalls ft env fb st (if hd && negb (is_default (fst c)) then set_sc (B k st) found 1 else B k st).
  Proof.
    intros Hft Hn Hok. unfold case_fn_ok, isolates in Hok.
    destruct (hd && negb (is_default (fst c))) eqn:Flag; cbn [andb] in Hok.
    - destruct (body_has_return (snd c)) eqn:Rt.
      + (* isolated: `function <own>` absorbs the return, the flag line runs *)
        destruct Hok as (f & -> & Hf). exists Next.
        eapply rruns_cons; [eapply rsteps_call; [apply Hft; exact Hf|apply (HB _ _ Hn)]|].
        eapply rruns_cons; [apply rsteps_set|apply rruns_nil].
      + (* no word `return`: the body cannot return, the flag line follows it *)
        subst fb. unfold macro_case_body. rewrite Flag.
        destruct (HB _ _ Hn st) as (o & Hr).
        pose proof (no_return_body ft env _ _ Rt _ _ _ Hr). subst o. exists Next.
        eapply rruns_app; [exact Hr|]. eapply rruns_cons; [apply rsteps_set|apply rruns_nil].
    - subst fb. unfold macro_case_body. rewrite Flag. apply (HB _ _ Hn).
  Qed.

  Lemma parse_switch_macro_r_exact cmds fs pc' :
    parse_switch_macro_r nm group x cases pc = (cmds, fs, pc') ->
    ft_agrees_macro nm group pc ft fs ->
    forall st, rruns ft env no_menv cmds st (macro_final nm x cases B st) Next.
  Proof.
    intros H [Hft1 Hft2] st. unfold parse_switch_macro_r in H. fold hd in H.
    destruct (macro_case_fns_r nm group pc hd cases (pc + 1)) as [cfs n'] eqn:ECF.
    injection H as <- <- <-.
    set (sel := macro_select_name nm group pc) in *.
    unfold macro_final. fold hd found.
    set (st0 := if hd then set_sc st found 0 else st).
    set (v := rd (sc st0) x).
    set (st1 := mkState (sc st0) (supd (stg st0) (switch_key_path nm) (Some v)) (tr st0)).
    assert (Lsel : ft sel = Some [CMacroCall pre "switch_key"]).
    { apply Hft1. rewrite fget_last_app_one. unfold sel. now rewrite String.eqb_refl. }
    assert (Llift : forall f b, fget_last cfs f = Some b -> ft f = Some b).
    { intros f b Hf. apply Hft1. rewrite fget_last_app_one.
      destruct (String.eqb sel f) eqn:Es; [|exact Hf].
      (* the select function is added last; no case function has its name *)
      apply String.eqb_eq in Es. subst f. unfold sel in Hf.
      rewrite (case_fns_no_select nm group pc hd _ _ _ _ ECF) in Hf. discriminate. }
    assert (Lcase : forall l',
               match find_last (fun c => label_eqb (fst c) l') cases with
               | Some (_, c) => exists fb, fget_last (cfs ++ [(sel, [CMacroCall pre "switch_key"])]) (pre +++ label_str l') = Some fb /\
                                           case_fn_ok nm hd cfs c fb
               | None => fget_last (cfs ++ [(sel, [CMacroCall pre "switch_key"])]) (pre +++ label_str l') = None
               end).
    { intros l'. rewrite fget_last_app_one. unfold sel, pre. rewrite select_name_neq.
      apply (fget_last_case_fns_r nm group pc hd l' cases (pc + 1) cfs n' 0%nat ECF). }
    assert (Hkey : stg st1 (storage_id nm +++ " " +++ "switch_key")%string = Some v).
    { unfold st1. cbn [stg]. unfold switch_key_path. apply supd_same. }
    unfold macro_dispatch_cmds.
    eapply rruns_app with (st1 := st0).
    { unfold st0. destruct hd; [|apply rruns_nil].
      eapply rruns_cons; [apply rsteps_set|apply rruns_nil]. }
    eapply rruns_cons; [apply rsteps_store_get|]. fold v. fold st1.
    pose proof (Lcase (LNum v)) as Lv. cbn [label_str] in Lv.
    destruct (find_last (fun c => label_eqb (fst c) (LNum v)) cases) as [[k c]|] eqn:Fv.
    - (* a case is labelled v: its body runs, then the flag; default does not *)
      destruct (find_last_nth _ _ _ _ Fv) as [Hn Hp]. cbn beta in Hp.
      assert (Hc : fst c = LNum v) by (destruct (label_eqb_spec (fst c) (LNum v)); congruence).
      destruct Lv as (fb & Hfb & Hok).
      pose proof (case_function_runs cfs k c fb st1 Llift Hn Hok) as Hrun.
      rewrite Hc in Hrun. cbn [is_default negb] in Hrun. rewrite andb_true_r in Hrun.
      eapply rruns_cons.
      { eapply rsteps_callwith_hit; [exact Lsel|exact Hkey|apply Hft1; exact Hfb|exact Hrun]. }
      destruct hd; [|apply rruns_nil].
      eapply rruns_cons; [|apply rruns_nil]. apply rsteps_if_skip.
      cbn [test_true negb set_sc sc]. fold found. rewrite upd_same. reflexivity.
    - (* no case is labelled v *)
      eapply rruns_cons.
      { eapply rsteps_callwith_miss; [exact Lsel|exact Hkey|apply Hft2; exact Lv]. }
      pose proof (Lcase LDefault) as Ld. cbn [label_str] in Ld.
      destruct hd eqn:Ehd.
      + assert (Hex : exists k c, find_last (fun c => label_eqb (fst c) LDefault) cases = Some (k, c)).
        { apply find_last_existsb. unfold hd, has_default in Ehd. rewrite <- Ehd.
          clear. induction cases as [|[l b] r IH]; cbn; [reflexivity|]. rewrite IH.
          destruct l; reflexivity. }
        destruct Hex as (k & c & Fd). rewrite Fd in Ld |- *.
        destruct (find_last_nth _ _ _ _ Fd) as [Hn Hp]. cbn beta in Hp.
        assert (Hc : fst c = LDefault) by (destruct (label_eqb_spec (fst c) LDefault); congruence).
        destruct Ld as (fb & Hfb & Hok). rewrite <- Ehd in Hok.
        pose proof (case_function_runs cfs k c fb st1 Llift Hn Hok) as Hrun.
        rewrite Hc in Hrun. cbn [is_default negb] in Hrun. rewrite andb_false_r in Hrun.
        eapply rruns_cons; [|apply rruns_nil]. apply rsteps_if_run.
        * cbn [test_true]. unfold st1, st0. cbn [sc set_sc]. fold found. rewrite upd_same. reflexivity.
        * eapply rsteps_call; [apply Hft1; rewrite macro_case_name_eq; exact Hfb|exact Hrun].
      + destruct (find_last (fun c => label_eqb (fst c) LDefault) cases) as [[k c]|] eqn:Fd.
        * exfalso. destruct (find_last_nth _ _ _ _ Fd) as [Hn Hp]. cbn beta in Hp.
          unfold hd, has_default in Ehd.
          assert (existsb (fun c0 => is_default (fst c0)) cases = true); [|congruence].
          apply existsb_exists. exists c. split; [eapply nth_error_In; eauto|].
          destruct (fst c); [discriminate|reflexivity].
        * apply rruns_nil.
  Qed.
End MacroRSem.

(* bodies without the word `return`: the repaired dispatcher is the dispatcher of Model.Switch, so that
   C06_macro_exact / C06_switch_exact (MC.Sem, no returns) still speak about the code the correspondence ties *)
Lemma macro_case_fns_r_plain nm group pc hd cases :
  (forall c, In c cases -> body_has_return (snd c) = false) ->
  forall next, macro_case_fns_r nm group pc hd cases next =
               (map (fun c => (macro_case_name nm group pc (fst c), macro_case_body nm hd c)) cases, next).
Proof.
  induction cases as [|c r IH]; intros Hc next; cbn [macro_case_fns_r map]; [reflexivity|].
  unfold isolates. rewrite (Hc c) by now left. rewrite andb_false_r.
  rewrite IH by (intros; apply Hc; now right). reflexivity.
Qed.

Lemma parse_switch_macro_r_plain nm group x cases pc :
  (forall c, In c cases -> body_has_return (snd c) = false) ->
  parse_switch_macro_r nm group x cases pc = parse_switch_macro nm group x cases pc.
Proof.
  intros Hc. unfold parse_switch_macro_r, parse_switch_macro.
  rewrite macro_case_fns_r_plain by exact Hc. reflexivity.
Qed.

Lemma compile_switch_r_plain nm c x entries pc sid :
  (forall e, In e entries -> body_has_return (body_of (snd e)) = false) ->
  compile_switch_r nm c x entries pc sid = compile_switch nm c x entries pc sid.
Proof.
  intros Hc. unfold compile_switch_r, compile_switch, parse_switch_r, parse_switch.
  destruct entries as [|[[start|] b] rest]; try reflexivity.
  destruct (check_labels c start _); [|reflexivity].
  destruct (is_macro c); [|reflexivity].
  rewrite parse_switch_macro_r_plain; [reflexivity|].
  intros c0 Hin. apply in_map_iff in Hin. destruct Hin as (e & <- & He). cbn [snd]. now apply Hc.
Qed.

(* ================================================================== the binary search tree, bodies that may return *)

Section BstRSem.
  Variable nm : names.
  Variable group : string.
  Variable tmp : score.
  Variable bodies : list (list cmd).
  Variable start : Z.
  Variable ft : string -> option (list cmd).
  Variable env : nat -> state -> state.
  Variable B : nat -> state -> state.          (* meaning of the k-th body as a function (it may return) *)

  Let fn (c : Z) : string := priv_path nm group (z_dec c).

  Definition bodies_ok_bst_r : Prop :=
    forall k body, nth_error bodies k = Some body ->
      forall st, rcalls ft env body st (B k st) /\ sc (B k st) tmp = sc st tmp.

  Hypothesis HB : bodies_ok_bst_r.

  Lemma guarded_call_rrun me a b f st st' v :
    a <= b -> sc st tmp = Some v -> a <= v <= b ->
    rsteps ft env me (CCall f) st st' Next ->
    rsteps ft env me (guarded_call tmp (match_range a b) f) st st' Next.
  Proof.
    intros Hab Hv Hin Hs. apply rsteps_if_run; [|exact Hs].
    cbn [test_true]. rewrite Hv, in_range_match by assumption.
    apply andb_true_iff; split; apply Z.leb_le; lia.
  Qed.

  Lemma guarded_call_rskip me a b f st v :
    a <= b -> sc st tmp = Some v -> ~ (a <= v <= b) ->
    rsteps ft env me (guarded_call tmp (match_range a b) f) st st Next.
  Proof.
    intros Hab Hv Hout. apply rsteps_if_skip.
    cbn [test_true negb]. rewrite Hv, in_range_match by assumption.
    apply andb_false_iff. destruct (Z.leb_spec a v); [right|left; reflexivity].
    apply Z.leb_gt. lia.
  Qed.

  (* a leaf is the body and nothing else: a return in it ends the leaf, the node above goes on with its second
     line, whose range test fails because the copy is unchanged *)
  Lemma bst_rrun : forall fuel lo hi my next fs next',
      bst fuel nm group tmp bodies start lo hi my next = (fs, next') ->
      (Z.to_nat (hi - lo) < fuel)%nat -> start <= lo -> lo <= hi ->
      (Z.to_nat (hi - start) < length bodies)%nat ->
      (forall f b, In (f, b) fs -> ft f = Some b) ->
      forall me st v, sc st tmp = Some v -> lo <= v <= hi ->
        rsteps ft env me (CCall (fn my)) st (B (Z.to_nat (v - start)) st) Next.
  Proof.
    induction fuel as [|f IH]; intros lo hi my next fs next' H Hfuel Hs Hlh Hlen Hft me st v Hv Hin;
      [lia|]. cbn [bst] in H.
    destruct (Z.eqb_spec hi lo) as [E|NE].
    - injection H as <- <-. subst hi. assert (v = lo) by lia. subst v.
      eapply rsteps_call; [apply Hft; left; reflexivity|].
      apply HB. apply nth_error_nth'. lia.
    - destruct (bst f nm group tmp bodies start lo (lo + (hi - lo + 1) / 2 - 1) next (next + 2))
        as [fl n1] eqn:EL.
      destruct (bst f nm group tmp bodies start (lo + (hi - lo + 1) / 2) hi (next + 1) n1)
        as [fr n2] eqn:ER.
      injection H as <- <-.
      pose proof (half_bounds lo hi ltac:(lia)) as HH. cbn zeta in HH.
      set (half2 := lo + (hi - lo + 1) / 2) in *.
      assert (FL : forall g b, In (g, b) fl -> ft g = Some b).
      { intros g b Hg. apply Hft. right. apply in_app_iff. now left. }
      assert (FR : forall g b, In (g, b) fr -> ft g = Some b).
      { intros g b Hg. apply Hft. right. apply in_app_iff. now right. }
      eapply rsteps_call; [apply Hft; left; reflexivity|]. exists Next.
      destruct (Z_le_gt_dec v (half2 - 1)) as [Hl|Hr].
      + eapply rruns_cons.
        * eapply guarded_call_rrun; [| exact Hv | |]; [lia|lia|].
          eapply (IH _ _ _ _ _ _ EL); try lia; eauto. lia.
        * assert (Hn : nth_error bodies (Z.to_nat (v - start)) =
                       Some (nth (Z.to_nat (v - start)) bodies [])) by (apply nth_error_nth'; lia).
          destruct (HB _ _ Hn st) as [_ Hp].
          eapply rruns_cons; [|apply rruns_nil].
          eapply guarded_call_rskip with (v := v); [lia| |lia].
          rewrite Hp. exact Hv.
      + eapply rruns_cons.
        * eapply guarded_call_rskip with (v := v); [lia|exact Hv|lia].
        * eapply rruns_cons; [|apply rruns_nil].
          eapply guarded_call_rrun; [| exact Hv | |]; [lia|lia|].
          eapply (IH _ _ _ _ _ _ ER); try lia; eauto.
  Qed.

  Lemma bst_root_rout fuel lo hi my next fs next' :
      bst (S fuel) nm group tmp bodies start lo hi my next = (fs, next') -> lo < hi ->
      (forall f b, In (f, b) fs -> ft f = Some b) ->
      forall me st v, sc st tmp = Some v -> ~ (lo <= v <= hi) ->
        rsteps ft env me (CCall (fn my)) st st Next.
  Proof.
    intros H Hlh Hft me st v Hv Hout. cbn [bst] in H.
    destruct (Z.eqb_spec hi lo) as [E|NE]; [lia|].
    destruct (bst fuel nm group tmp bodies start lo (lo + (hi - lo + 1) / 2 - 1) next (next + 2))
      as [fl n1] eqn:EL.
    destruct (bst fuel nm group tmp bodies start (lo + (hi - lo + 1) / 2) hi (next + 1) n1)
      as [fr n2] eqn:ER.
    injection H as <- <-.
    pose proof (half_bounds lo hi Hlh) as HH. cbn zeta in HH.
    eapply rsteps_call; [apply Hft; left; reflexivity|]. exists Next.
    eapply rruns_cons; [eapply guarded_call_rskip with (v := v); [lia|exact Hv|lia]|].
    eapply rruns_cons; [eapply guarded_call_rskip with (v := v); [lia|exact Hv|lia]|].
    apply rruns_nil.
  Qed.
End BstRSem.

Lemma parse_switch_bst_rexact nm group x bodies start guard1 pc sid cmds fs pc' sid' ft env B :
  parse_switch_bst nm group x bodies start guard1 pc sid = Ok (cmds, fs, pc', sid') ->
  guard1 = true \/ (2 <= length bodies)%nat ->
  (forall f b, In (f, b) fs -> ft f = Some b) ->
  bodies_ok_bst_r (tmp_score nm sid) bodies ft env B ->
  forall st, rruns ft env no_menv cmds st
                   (bst_final B (tmp_score nm sid) x start (Z.of_nat (length bodies)) st) Next.
Proof.
  intros H Hg Hft HB st. unfold parse_switch_bst in H.
  destruct (Z.eqb_spec (Z.of_nat (length bodies)) 0) as [E0|N0]; [discriminate|].
  set (n := Z.of_nat (length bodies)) in *. set (tmp := tmp_score nm sid) in *.
  destruct (bst (length bodies) nm group tmp bodies start start (start + n - 1) pc (pc + 1))
    as [fs0 pc0] eqn:EB.
  injection H as <- <- <- <-.
  assert (Hn : 1 <= n) by lia.
  set (st0 := fst (do_op st tmp OAssign x)).
  assert (Hv : sc st0 tmp = Some (rd (sc st) x)) by apply do_op_assign_target.
  set (v := rd (sc st) x) in *.
  assert (Hin : forall me, start <= v <= start + n - 1 ->
                           rsteps ft env me (CCall (priv_path nm group (z_dec pc))) st0
                                  (B (Z.to_nat (v - start)) st0) Next).
  { intros me Hr. eapply (bst_rrun nm group tmp bodies start ft env B HB _ _ _ _ _ _ _ EB);
      eauto; lia. }
  eapply rruns_cons; [apply rsteps_op|]. fold st0.
  eapply rruns_cons; [|apply rruns_nil].
  unfold bst_final. fold st0. fold v. fold tmp.
  destruct (Z.eqb_spec n 1) as [E1|N1].
  - destruct Hg as [->|Hg]; [|lia]. cbn [andb].
    destruct (Z.eqb_spec v start) as [Ev|Nv].
    + replace ((start <=? v) && (v <? start + n)) with true
        by (symmetry; apply andb_true_iff; split; [apply Z.leb_le|apply Z.ltb_lt]; lia).
      apply rsteps_if_run; [|apply Hin; lia].
      cbn [test_true in_range]. rewrite Hv. fold v. now apply Z.eqb_eq.
    + replace ((start <=? v) && (v <? start + n)) with false
        by (symmetry; apply andb_false_iff;
            destruct (Z.leb_spec start v); [right; apply Z.ltb_ge; lia|left; reflexivity]).
      apply rsteps_if_skip. cbn [test_true in_range negb]. rewrite Hv. fold v. now apply Z.eqb_neq.
  - rewrite andb_false_r.
    destruct ((start <=? v) && (v <? start + n)) eqn:Er.
    + apply andb_true_iff in Er. destruct Er as [E1 E2]. apply Z.leb_le in E1. apply Z.ltb_lt in E2.
      apply Hin. lia.
    + assert (Hout : ~ (start <= v <= start + n - 1)).
      { intros [A1 A2]. apply andb_false_iff in Er. destruct Er as [Er|Er];
          [apply Z.leb_gt in Er|apply Z.ltb_ge in Er]; lia. }
      destruct (length bodies) as [|m] eqn:EL; [lia|].
      eapply (bst_root_rout nm group tmp bodies start ft env _ _ _ _ _ _ _ EB); eauto. lia.
Qed.

(* ================================================================== switch(): both strategies, bodies that may return *)

Lemma compile_switch_r_inv nm c x entries pc sid r :
  compile_switch_r nm c x entries pc sid = Ok r ->
  exists start b rest, entries = (LNum start, b) :: rest /\
    check_labels c start (map fst entries) = Ok tt /\
    parse_switch_r nm c SWITCH_CASE_NAME x (cases_of entries) start true pc sid = Ok r.
Proof.
  unfold compile_switch_r. destruct entries as [|[[start|] b] rest]; try discriminate.
  destruct (check_labels c start _) as [[]|e] eqn:E; [|discriminate].
  intros H. exists start, b, rest. auto.
Qed.

Theorem compile_switch_r_exact nm c x entries pc sid cmds fs pc' sid' :
  compile_switch_r nm c x entries pc sid = Ok (cmds, fs, pc', sid') ->
  if is_macro c then
    forall ft env B,
      ft_agrees_macro nm SWITCH_CASE_NAME pc ft fs ->
      bodies_ok_macro_r (cases_of entries) ft env B ->
      forall st, rruns ft env no_menv cmds st (macro_final nm x (cases_of entries) B st) Next
  else
    (exists start, map fst entries = map LNum (consec start (length entries))) /\
    forall ft env B,
      (forall f b, In (f, b) fs -> ft f = Some b) ->
      bodies_ok_bst_r (tmp_score nm sid) (map snd (cases_of entries)) ft env B ->
      forall st, rruns ft env no_menv cmds st
                       (run_selected B (map fst entries) (rd (sc st) x)
                                     (fst (do_op st (tmp_score nm sid) OAssign x))) Next.
Proof.
  intros H. destruct (compile_switch_r_inv _ _ _ _ _ _ _ H) as (start & b0 & rest & He & Hl & Hp).
  unfold parse_switch_r in Hp.
  destruct (is_macro c) eqn:Hm.
  - destruct (parse_switch_macro_r nm SWITCH_CASE_NAME x (cases_of entries) pc) as [[cm fm] pm] eqn:E.
    injection Hp as <- <- <- <-. intros ft env B Hft HB st.
    eapply parse_switch_macro_r_exact; eauto.
  - pose proof (check_labels_bst c Hm _ _ Hl) as Hc. rewrite map_length in Hc.
    split; [eauto|]. intros ft env B Hft HB st.
    pose proof (parse_switch_bst_rexact _ _ _ _ _ _ _ _ _ _ _ _ ft env B Hp (or_introl eq_refl) Hft HB st) as R.
    rewrite bst_final_select in R. unfold cases_of in R at 1. rewrite !map_length in R.
    rewrite <- Hc in R. exact R.
Qed.

Theorem compile_hardcode_r_exact nm c x body b cnt pc sid cmds fs pc' sid' :
  compile_hardcode_r nm c x body b cnt pc sid = Ok (cmds, fs, pc', sid') ->
  if is_macro c then
    forall ft env B,
      ft_agrees_macro nm HARDCODE_SWITCH_NAME pc ft fs ->
      bodies_ok_macro_r (hard_cases body b cnt) ft env B ->
      forall st, rruns ft env no_menv cmds st (macro_final nm x (hard_cases body b cnt) B st) Next
  else
    forall ft env B,
      (forall f bd, In (f, bd) fs -> ft f = Some bd) ->
      bodies_ok_bst_r (tmp_score nm sid) (map snd (hard_cases body b cnt)) ft env B ->
      forall st, rruns ft env no_menv cmds st
                       (run_selected B (map LNum (consec b (Z.to_nat (cnt - b + 1)))) (rd (sc st) x)
                                     (fst (do_op st (tmp_score nm sid) OAssign x))) Next.
Proof.
  unfold compile_hardcode_r, parse_switch_r. fold (hard_cases body b cnt). intros H.
  destruct (cnt <? b); [discriminate|].
  destruct (is_macro c) eqn:Hm.
  - destruct (parse_switch_macro_r nm HARDCODE_SWITCH_NAME x (hard_cases body b cnt) pc) as [[cm fm] pm] eqn:E.
    injection H as <- <- <- <-. intros ft env B Hft HB st.
    eapply parse_switch_macro_r_exact; eauto.
  - intros ft env B Hft HB st.
    pose proof (parse_switch_bst_rexact _ _ _ _ _ _ _ _ _ _ _ _ ft env B H (or_introl eq_refl) Hft HB st) as R.
    rewrite bst_final_select in R. rewrite map_length in R. unfold hard_cases in R at 1.
    rewrite map_length, hardcode_labels_consec, consec_length in R. exact R.
Qed.

(* ================================================================== conservativity: without returns, rexec is MC.Sem *)

Definition lift_res (o : option (state * res)) : option rres :=
  match o with Some (st, r) => Some (st, r, Next) | None => None end.
Definition lift_st (o : option state) : option (state * outcome) :=
  match o with Some st => Some (st, Next) | None => None end.

Lemma rrun_mods_plain (k : state -> option (state * res)) (k' : state -> option rres) :
  (forall st, k' st = lift_res (k st)) ->
  forall ms stores st, rrun_mods ms stores st k' = lift_res (run_mods ms stores st k).
Proof.
  intros Hk. induction ms as [|[pos t|kd d] ms IH]; intros stores st; cbn [rrun_mods run_mods].
  - rewrite Hk. destruct (k st) as [[s r]|]; reflexivity.
  - destruct (Bool.eqb pos (test_true st t)); [apply IH|reflexivity].
  - apply IH.
Qed.

Lemma rseq_plain (step : cmd -> state -> option (state * res)) (step' : cmd -> state -> option rres) l :
  (forall c, In c l -> forall st, step' c st = lift_res (step c st)) ->
  forall st, rseq step' l st = lift_st (seq_run step l st).
Proof.
  induction l as [|c l IH]; intros Hs st; cbn [rseq seq_run]; [reflexivity|].
  rewrite (Hs c) by now left. destruct (step c st) as [[s r]|]; cbn [lift_res]; [|reflexivity].
  apply IH. intros c' Hc'. apply Hs. now right.
Qed.

Section Plain.
  Variable ft : string -> option (list cmd).
  Variable env : nat -> state -> state.
  (* no function of the pack holds the word `return` *)
  Hypothesis Hft : forall f b, ft f = Some b -> body_has_return b = false.

  Lemma body_lines b : body_has_return b = false -> forall c, In c b -> line_has_return c = false.
  Proof.
    unfold body_has_return. intros H c Hc. destruct (line_has_return c) eqn:E; [|reflexivity].
    assert (existsb line_has_return b = true) by (apply existsb_exists; eauto). congruence.
  Qed.

  Lemma rexec_plain : forall F me c st,
      line_has_return c = false -> rexec ft env F me c st = lift_res (exec ft env F me c st).
  Proof.
    induction F as [|F IH]; intros me c st Hc; [reflexivity|].
    assert (Call : forall me' b, body_has_return b = false ->
                     rcall_res (rseq (rexec ft env F me') b st) = lift_res (call_res (seq_run (exec ft env F me') b st))).
    { intros me' b Hb. rewrite (rseq_plain (exec ft env F me') (rexec ft env F me') b).
      - destruct (seq_run (exec ft env F me') b st); reflexivity.
      - intros c' Hc' st'. apply IH. eapply body_lines; eauto. }
    destruct c as [s z|s z|s z|a o b|s|s|ms body|f|f stor|pre key|t|n|t]; cbn [rexec exec]; try reflexivity.
    - apply line_has_return_execute in Hc. apply rrun_mods_plain. intros st'. now apply IH.
    - destruct (ft f) as [b|] eqn:Ef; [|reflexivity]. apply Call. eauto.
    - destruct (ft f) as [b|] eqn:Ef; [|reflexivity]. apply Call. eauto.
    - destruct (me key); [|reflexivity]. destruct (ft _) as [b|] eqn:Ef; [|reflexivity]. apply Call. eauto.
    - destruct (is_return_cmd t) eqn:E; [|reflexivity].
      apply is_return_cmd_has_return in E. congruence.
  Qed.

  (* a caller without the word `return`, in a pack without it: the same final state, and it does not return *)
  Theorem rexec_list_plain F l st :
    body_has_return l = false ->
    rexec_list ft env F l st = lift_st (exec_list ft env F l st).
  Proof.
    intros Hl. unfold rexec_list, exec_list. apply rseq_plain.
    intros c Hc st'. apply rexec_plain. eapply body_lines; eauto.
  Qed.
End Plain.

(* ================================================================== refutations (witnesses, by computation) *)

Section Witness.
  Let nm := default_names.
  Let x : score := ("$x"%string, var_name nm).
  Let y : score := ("$y"%string, var_name nm).
  Definition w_state (vx vy : Z) : state :=
    mkState (fun k => if score_eqb k x then Some vx else if score_eqb k y then Some vy else None) (fun _ => None) [].
  Definition w_trace (fs : list func) (cmds : list cmd) (vx vy : Z) : option (list event * outcome) :=
    match rexec_list (fget_last fs) (fun _ s => s) 12 cmds (w_state vx vy) with
    | Some (st, o) => Some (tr st, o)
    | None => None
    end.

  (* `switch ($x) { case 1: say "a"; return 1; default: say "d"; }` *)
  Definition w_cases : list (label * list cmd) :=
    [(LNum 1, [CSay "a"; COther "return 1"]); (LDefault, [CSay "d"])].

  (* the dispatcher of the tree before the patch (Model.Switch.parse_switch_macro): from $x = 1 the case runs
     AND the default runs; the repaired dispatcher runs the case only *)
  Lemma unrepaired_macro_return_runs_default :
    exists cmds fs pc',
      parse_switch_macro nm SWITCH_CASE_NAME x w_cases 0 = (cmds, fs, pc') /\
      w_trace fs cmds 1 0 = Some ([ESay "d"; EOther "return 1"; ESay "a"], Next).
  Proof. eexists _, _, _. split; [reflexivity|]. vm_compute. reflexivity. Qed.

  Lemma repaired_macro_return_witness :
    exists cmds fs pc',
      parse_switch_macro_r nm SWITCH_CASE_NAME x w_cases 0 = (cmds, fs, pc') /\
      w_trace fs cmds 1 0 = Some ([EOther "return 1"; ESay "a"], Next) /\
      w_trace fs cmds 2 0 = Some ([ESay "d"], Next).
  Proof. eexists _, _, _. split; [reflexivity|]. vm_compute. split; reflexivity. Qed.

  (* setting the flag BEFORE the body is no repair: a switch with default nested in the body resets the flag;
     `switch ($x) { case 1: switch ($y) { case 1: say "i1"; default: say "inner default"; } default: say "outer default"; }`
     from $x = 1, $y = 5 runs both defaults *)
  Definition w_inner_ff := parse_switch_macro_flag_first nm SWITCH_CASE_NAME y
                             [(LNum 1, [CSay "i1"]); (LDefault, [CSay "inner default"])] 0.
  Definition w_outer_ff := parse_switch_macro_flag_first nm SWITCH_CASE_NAME x
                             [(LNum 1, fst (fst w_inner_ff)); (LDefault, [CSay "outer default"])] 1.
  Lemma flag_before_body_runs_both_defaults :
    w_trace (snd (fst w_inner_ff) ++ snd (fst w_outer_ff)) (fst (fst w_outer_ff)) 1 5 =
    Some ([ESay "outer default"; ESay "inner default"], Next).
  Proof. vm_compute. reflexivity. Qed.

  Definition w_inner_r := parse_switch_macro_r nm SWITCH_CASE_NAME y
                            [(LNum 1, [CSay "i1"]); (LDefault, [CSay "inner default"])] 0.
  Definition w_outer_r := parse_switch_macro_r nm SWITCH_CASE_NAME x
                            [(LNum 1, fst (fst w_inner_r)); (LDefault, [CSay "outer default"])] 1.
  Lemma flag_after_body_nested_witness :
    w_trace (snd (fst w_inner_r) ++ snd (fst w_outer_r)) (fst (fst w_outer_r)) 1 5 =
    Some ([ESay "inner default"], Next).
  Proof. vm_compute. reflexivity. Qed.
End Witness.
