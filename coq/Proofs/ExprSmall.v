(* Proofs.ExprSmall — C02_partial_literal: the full conclusion for `target <form>= literal`, any
   32-bit literal (negative ones are written `- n`), all six assignment forms. *)
From Coq Require Import ZArith String List Bool Lia Ascii.
From JMCV Require Import Base.Int32 Base.Dec MC.Syntax MC.Sem MC.Facts Model.Names Model.VarOp Proofs.VarOp
     Model.Expr Model.ExprSpec Model.ExprFront Model.ExprBack
     Proofs.ExprLower Proofs.ExprParse Proofs.ExprOps Proofs.ExprOpt Proofs.ExprClean.
Import ListNotations.
Open Scope Z_scope.

Section Small.
  Variable ft : string -> option (list cmd).
  Variable env : nat -> state -> state.

  (* a 32-bit literal as the whole right side, for all six forms *)
  Theorem partial_literal nm target form z :
    let out := score_of nm target in
    in_int32b z = true -> form <> PPow ->
    snd out <> int_name nm -> var_name nm <> int_name nm ->
    exists cmds ints,
      compile_expr nm out form (EConst z) = (Ok (cmds, ints), []) /\
      forallb wf_cmd cmds && forallb wf_cmd (load_ints nm ints) = true /\
      forall st all, int32_state st -> loaded nm st all -> (forall z, In z ints -> In z all) ->
        exists st', exec_list ft env 1 cmds st = Some st' /\
          (forall w, form_sem form (rd (sc st) out) z = Some w -> rd (sc st') out = w) /\
          (forall s, s <> out -> rd (sc st') s = rd (sc st) s) /\
          stg st' = stg st /\ tr st' = tr st.
  Proof.
    intros out Hz Hform Hobj Hnames.
    set (ops := [(out, form, CConst z)]).
    assert (G : good_ops nm out ops).
    { split; [|split]; intros x [<-|[]]; [exact Hform|now apply in_int32b_spec|now left]. }
    assert (Vout : forall f, interp_ops ops f out = op_sem form (f out) z).
    { intros f. unfold ops. cbn [interp_ops fold_left]. now rewrite interp_one_same'. }
    assert (Vfr : forall f s, s <> out -> interp_ops ops f s = f s).
    { intros f s Hs. unfold ops. cbn [interp_ops fold_left]. apply interp_one_other. cbn. congruence. }
    destruct (assemble ft env nm out form (fun _ => z) ops G Vout (fun f s Hs _ => Vfr f s Hs) Hobj Hnames)
      as (cmds & ints & El & Wf & Run).
    exists cmds, ints. split; [|split; [exact Wf|]].
    - unfold compile_expr, compile_assign. cbn [render]. destruct (z <? 0) eqn:Ez.
      + cbn -[Z.opp lower optimize_const]. rewrite Z.opp_involutive. unfold ops in El.
        destruct (lower nm (optimize_const [(out, form, CConst z)])). exact El.
      + cbn -[lower optimize_const]. unfold ops in El.
        destruct (lower nm (optimize_const [(out, form, CConst z)])). exact El.
    - intros st all Hst Hl Hsub.
      (* the frame: `assemble` states it for scores that are not temporaries; none is written here *)
      destruct (optimize_const_correct ops (proj1 (proj2 G))) as (Eq & C' & S').
      assert (Hvar' : forall x, In x (optimize_const ops) -> snd (o_var x) <> int_name nm).
      { intros y Hy. destruct (S' y Hy) as (x & [<-|[]] & Es). injection Es as Ev _. rewrite <- Ev. exact Hobj. }
      destruct (lower_correct_gen ft env nm _ cmds ints [] st all El Hvar' Hl Hsub) as (st' & E & P & _ & S & T).
      exists st'. split; [exact E|]. pose proof (int32_state_R32 st Hst) as HR.
      split; [|split; [|split; assumption]].
      + intros w Hw. fold (rdf st') (rdf st). rewrite P, (Eq _ HR), Vout. now apply form_op_sem.
      + intros s Hs. fold (rdf st') (rdf st). rewrite P, (Eq _ HR). now apply Vfr.
  Qed.
End Small.
