(* Proofs.ExprSmall — C02_partial_small: the full conclusion for `target := e` when e is a single
   operand (any variable — also the target itself — or a 32-bit literal) or one operation + - * / %
   of two variables, EITHER OF WHICH MAY BE THE TARGET (operands are read before the statement). *)
From Coq Require Import ZArith String List Bool Lia Ascii.
From JMCV Require Import Base.Int32 Base.Dec MC.Syntax MC.Sem MC.Facts Model.Names Model.VarOp Proofs.VarOp
     Model.Expr Model.ExprSpec Model.ExprFront Model.ExprBack
     Proofs.ExprLower Proofs.ExprParse Proofs.ExprOps Proofs.ExprClean.
Import ListNotations.
Open Scope Z_scope.

Definition small (e : expr) : bool :=
  match e with
  | EVar _ => true
  | EConst z => in_int32b z
  | EBin o (EVar _) (EVar _) => arith_op o
  | _ => false
  end.

(* the pipeline in front of and behind tree_to_operations, for paren-normal expressions and
   constant-free operation lists *)
Lemma pipe_pn nm out e ops :
  pn e = true ->
  tree_to_operations nm (tree_of nm e) out PEmpty = (Ok ops, []) ->
  forallb var_op ops = true ->
  compile_expr nm out PEmpty e = (Ok (map cmd_of ops, []), []).
Proof.
  intros Hpn Hops Hvo. unfold compile_expr, compile_assign.
  destruct (render e) as [|t0 tr0] eqn:Er; [exfalso; now apply (render_nonempty e Hpn)|]. rewrite <- Er.
  unfold iop_premerge. cbn [opc_eqb]. rewrite bind_ret_l.
  rewrite (ttt_pn nm e Hpn), bind_ok_nil. rewrite (ett_pn nm e Hpn), bind_ok_nil.
  rewrite Hops, bind_ok_nil. rewrite (optimize_const_free ops (var_op_const_free ops Hvo)), bind_ok_nil.
  now apply lower_vars.
Qed.

Lemma run_vars ft env nm ops st :
  forallb var_op ops = true ->
  (forall o, In o ops -> snd (o_var o) <> int_name nm) ->
  exists st', exec_list ft env 1 (map cmd_of ops) st = Some st' /\
    (forall k, rdf st' k = interp_ops ops (rdf st) k) /\ stg st' = stg st /\ tr st' = tr st.
Proof.
  intros Hvo Hob.
  destruct (lower_correct_gen ft env nm ops (map cmd_of ops) [] [] st [] (lower_vars nm ops Hvo) Hob)
    as (st' & E & P & _ & S & T).
  - intros z [].
  - intros z [].
  - exists st'. auto.
Qed.

Lemma compile_const nm out z :
  in_int32b z = true -> compile_expr nm out PEmpty (EConst z) = (Ok ([CSet out z], []), []).
Proof.
  intros Hz. pose proof (proj1 (in_int32b_spec z) Hz) as [Hlo Hhi]. unfold INT_MIN, INT_MAX in *.
  assert (Hf : (FLOAT_EXACT <? Z.abs z) = false) by (apply Z.ltb_ge; unfold FLOAT_EXACT; lia).
  unfold compile_expr, compile_assign. cbn [render].
  destruct (z <? 0) eqn:Ez.
  - apply Z.ltb_lt in Ez. assert (Hnz : (- z =? 0) = false) by (apply Z.eqb_neq; lia).
    cbn -[Z.opp in_int32b FLOAT_EXACT Z.abs]. rewrite Hnz.
    cbn -[Z.opp in_int32b FLOAT_EXACT Z.abs]. rewrite Z.opp_involutive, Hf, Hz. reflexivity.
  - cbn -[in_int32b FLOAT_EXACT Z.abs]. rewrite Hf, Hz. reflexivity.
Qed.

Ltac sdec :=
  repeat match goal with
         | |- context [score_eqb ?a ?a] => rewrite (score_eqb_refl a)
         | |- context [score_eqb ?a ?b] => rewrite (score_eqb_neq a b) by congruence
         end.

Section Small.
  Variable ft : string -> option (list cmd).
  Variable env : nat -> state -> state.

  Theorem partial_small nm target e st :
    let out := score_of nm target in
    small e = true ->
    (forall n, out <> temp_score nm n) ->
    (forall s n, In s (evars nm e) -> s <> temp_score nm n) ->
    snd out <> int_name nm -> var_name nm <> int_name nm ->
    exists cmds,
      compile_expr nm out PEmpty e = (Ok (cmds, []), []) /\
      forallb wf_cmd cmds = true /\
      exists st', exec_list ft env 1 cmds st = Some st' /\
        (forall v, eval nm (rd (sc st)) e = Some v -> rd (sc st') out = v) /\
        (forall s, s <> out -> (forall n, s <> temp_score nm n) -> rd (sc st') s = rd (sc st) s) /\
        stg st' = stg st /\ tr st' = tr st.
  Proof.
    intros out Hs Hout Hev Hobj Hnames.
    destruct e as [v|z|e'|e'|o a b]; try discriminate.
    - (* a variable, possibly the target itself *)
      set (s := score_of nm v). set (ops := [(out, PEmpty, CVar s)]).
      exists (map cmd_of ops). split; [apply pipe_pn; reflexivity|]. split; [reflexivity|].
      destruct (run_vars ft env nm ops st eq_refl) as (st' & E & P & S & T).
      { intros o [<-|[]]. exact Hobj. }
      exists st'. split; [exact E|]. split; [|split; [|split; assumption]].
      + intros x Hx. cbn in Hx. injection Hx as <-. fold (rdf st') (rdf st). rewrite P.
        unfold ops, interp_ops. cbn [fold_left]. rewrite interp_one_same. reflexivity.
      + intros s' Hs' _. fold (rdf st') (rdf st). rewrite P. unfold ops, interp_ops. cbn [fold_left].
        apply interp_one_other. cbn. congruence.
    - (* a literal *)
      cbn [small] in Hs. exists [CSet out z]. split; [now apply compile_const|].
      split; [cbn; now rewrite Hs|].
      exists (set_sc st out z). split; [reflexivity|]. split; [|split; [|split; reflexivity]].
      + intros x Hx. cbn in Hx. injection Hx as <-. unfold set_sc; cbn [sc]. apply rd_upd_same.
      + intros s Hs' _. unfold set_sc; cbn [sc]. apply rd_upd_other. congruence.
    - (* one operation of two variables *)
      destruct a as [v1| | | |]; try discriminate. destruct b as [v2| | | |]; try discriminate.
      cbn [small] in Hs.
      set (s1 := score_of nm v1) in *. set (s2 := score_of nm v2) in *.
      assert (Hpn : pn (EBin o (EVar v1) (EVar v2)) = true) by (unfold pn; cbn; now rewrite Hs).
      assert (Ht1 : forall n, s1 <> temp_score nm n) by (intros n; apply Hev; cbn; auto).
      assert (Ht2 : forall n, s2 <> temp_score nm n) by (intros n; apply Hev; cbn; auto).
      assert (Hval : forall f x, eval nm f (EBin o (EVar v1) (EVar v2)) = Some x ->
                                 op_sem (opc_of o) (f s1) (f s2) = x).
      { intros f x Hx. cbn in Hx. now apply binop_op_sem. }
      assert (Htree : tree_of nm (EBin o (EVar v1) (EVar v2)) = NExpr (opc_of o) (opc_of o) (NVar s1) (NVar s2)).
      { cbn [tree_of]. fold s1 s2. destruct o; reflexivity. }
      assert (Hsem : forall ops,
                 tree_to_operations nm (NExpr (opc_of o) (opc_of o) (NVar s1) (NVar s2)) out PEmpty = (Ok ops, []) ->
                 forallb var_op ops = true ->
                 (forall x, In x ops -> snd (o_var x) <> int_name nm) ->
                 (forall f, interp_ops ops f out = op_sem (opc_of o) (f s1) (f s2)) ->
                 (forall f s, s <> out -> (forall n, s <> temp_score nm n) -> interp_ops ops f s = f s) ->
                 exists cmds,
                   compile_expr nm out PEmpty (EBin o (EVar v1) (EVar v2)) = (Ok (cmds, []), []) /\
                   forallb wf_cmd cmds = true /\
                   exists st', exec_list ft env 1 cmds st = Some st' /\
                     (forall v, eval nm (rd (sc st)) (EBin o (EVar v1) (EVar v2)) = Some v -> rd (sc st') out = v) /\
                     (forall s, s <> out -> (forall n, s <> temp_score nm n) -> rd (sc st') s = rd (sc st) s) /\
                     stg st' = stg st /\ tr st' = tr st).
      { intros ops Hops Hvo Hob Hv Hf.
        exists (map cmd_of ops). split; [apply pipe_pn; [exact Hpn|now rewrite Htree|exact Hvo]|].
        split; [apply wf_cmd_of|].
        destruct (run_vars ft env nm ops st Hvo Hob) as (st' & E & P & S & T).
        exists st'. split; [exact E|]. split; [|split; [|split; assumption]].
        - intros x Hx. fold (rdf st') (rdf st). rewrite P, Hv. now apply Hval.
        - intros s Hs1 Hs2. fold (rdf st') (rdf st). rewrite P. now apply Hf. }
      assert (Hobj_t : forall n, snd (temp_score nm n) <> int_name nm) by (intros n; exact Hnames).
      assert (Nto : forall n, temp_score nm n <> out) by (intros n E; now apply (Hout n)).
      assert (Nt1 : forall n, temp_score nm n <> s1) by (intros n E; now apply (Ht1 n)).
      assert (Nt2 : forall n, temp_score nm n <> s2) by (intros n E; now apply (Ht2 n)).
      destruct (score_eqb s1 out) eqn:E1, (score_eqb s2 out) eqn:E2;
        destruct o; try discriminate Hs;
        (eapply Hsem;
         [ unfold tree_to_operations, search_for_output;
           repeat (cbn -[score_eqb temp_score]; rewrite ?E1, ?E2); reflexivity
         | reflexivity
         | intros x Hx; cbn in Hx;
           repeat (destruct Hx as [<-|Hx]; [first [exact Hobj | apply Hobj_t]|]); destruct Hx
         | intros f;
           try (destruct (score_eqb_spec s1 out) as [->|N1]; [|try discriminate]);
           try (destruct (score_eqb_spec s2 out) as [->|N2]; [|try discriminate]);
           unfold interp_ops; cbn [fold_left]; unfold interp_one; cbn [o_var o_op o_num fst snd numval opc_of];
           sdec; cbn [op_sem]; try reflexivity; try (f_equal; lia)
         | intros f s Hs1 Hs2;
           unfold interp_ops; cbn [fold_left]; unfold interp_one; cbn [o_var o_op o_num fst snd numval];
           pose proof (Hs2 0%nat); sdec; reflexivity ]).
  Qed.
End Small.
