(* C08 (round 5): facts about Model/JsonExtends.v (deep_merge and the table of `new` / `new .. extends` definitions). *)
From Coq Require Import String List Bool Arith Lia.
From JMCV Require Import Model.JsonExtends.
Import ListNotations.
Open Scope string_scope.

Lemma merge_obj : forall mb ma, merge (JObj ma) (JObj mb) = JObj (merge_members ma mb).
Proof.
  induction mb as [|[k v] r IH]; intros ma; [reflexivity|].
  specialize (IH (upsert k (fun old => merge old v) v ma)). simpl in IH. simpl. exact IH.
Qed.

Lemma merge_nonobj : forall a b, is_obj a = false \/ is_obj b = false -> merge a b = b.
Proof. intros a b [H|H]; destruct a; destruct b; simpl in *; try reflexivity; discriminate. Qed.

Lemma get_key_upsert : forall k k' f v m,
  get_key k (upsert k' f v m) =
  if String.eqb k k' then Some (match get_key k' m with Some old => f old | None => v end) else get_key k m.
Proof.
  intros k k' f v m. induction m as [|[k2 old] r IH]; simpl.
  - destruct (String.eqb k k'); reflexivity.
  - destruct (String.eqb k' k2) eqn:E2; simpl.
    + apply String.eqb_eq in E2. subst k2. destruct (String.eqb k k'); reflexivity.
    + rewrite IH. destruct (String.eqb k k') eqn:E1.
      * apply String.eqb_eq in E1. subst k'. rewrite E2. reflexivity.
      * reflexivity.
Qed.

Lemma get_key_none_notin : forall k (m : members), ~ In k (map fst m) -> get_key k m = None.
Proof.
  induction m as [|[k' v] r IH]; simpl; intros H; [reflexivity|].
  destruct (String.eqb k k') eqn:E.
  - apply String.eqb_eq in E. subst. exfalso. apply H. left. reflexivity.
  - apply IH. intro. apply H. right. assumption.
Qed.

Lemma get_key_merge_members : forall k mb ma, NoDup (map fst mb) ->
  get_key k (merge_members ma mb) =
  match get_key k mb with
  | Some vb => Some (match get_key k ma with Some va => merge va vb | None => vb end)
  | None => get_key k ma
  end.
Proof.
  intros k. induction mb as [|[k' v] r IH]; intros ma ND; simpl; [reflexivity|].
  inversion ND as [|x l Hnotin ND']; subst. simpl in Hnotin.
  rewrite IH by assumption. rewrite get_key_upsert.
  destruct (String.eqb k k') eqn:E.
  - apply String.eqb_eq in E. subst k'. rewrite (get_key_none_notin _ _ Hnotin). reflexivity.
  - reflexivity.
Qed.

(* (2) one level of the merge, valid at every nesting depth because the value under a shared key is again a merge *)
Theorem merge_get_key : forall k ma mb, NoDup (map fst mb) ->
  get (k :: nil) (merge (JObj ma) (JObj mb)) =
  match get_key k mb, get_key k ma with
  | Some vb, Some va => Some (merge va vb)
  | Some vb, None => Some vb
  | None, va => va
  end.
Proof.
  intros. rewrite merge_obj. simpl. rewrite get_key_merge_members by assumption.
  destruct (get_key k mb); destruct (get_key k ma); reflexivity.
Qed.

Fixpoint nodup_along (p : list string) (j : json) : Prop :=
  match p with
  | [] => True
  | k :: r => match j with
              | JObj m => NoDup (map fst m) /\ match get_key k m with Some v => nodup_along r v | None => True end
              | _ => True
              end
  end.

(* the child does not mention path p: some prefix of p is missing in it and everything above is an object *)
Fixpoint absent (p : list string) (j : json) : Prop :=
  match p with
  | [] => False
  | k :: r => match j with
              | JObj m => NoDup (map fst m) /\ match get_key k m with Some v => is_obj v = true /\ absent r v | None => True end
              | _ => False
              end
  end.

Theorem child_value_wins : forall p a b v,
  nodup_along p b -> get p b = Some v -> is_obj v = false -> get p (merge a b) = Some v.
Proof.
  induction p as [|k r IH]; intros a b v ND G NO; simpl in *.
  - inversion G; subst. rewrite merge_nonobj by (right; assumption). reflexivity.
  - destruct b as [| | | | |mb]; try discriminate.
    destruct ND as [ND NDk].
    destruct (get_key k mb) as [vb|] eqn:Ek; [|discriminate].
    destruct a as [| | | | |ma]; try (simpl; rewrite Ek; assumption).
    rewrite merge_obj. rewrite get_key_merge_members by assumption. rewrite Ek.
    destruct (get_key k ma) as [va|]; [apply IH; assumption|assumption].
Qed.

Lemma absent_get_none : forall p b, absent p b -> get p b = None.
Proof.
  induction p as [|k r IH]; intros b A; simpl in *; [contradiction|].
  destruct b; try contradiction. destruct A as [_ A].
  destruct (get_key k m); [|reflexivity]. destruct A. apply IH. assumption.
Qed.

Theorem base_value_inherited : forall p a b, absent p b -> get p (merge a b) = get p a.
Proof.
  induction p as [|k r IH]; intros a b A; [simpl in A; contradiction|].
  pose proof (absent_get_none _ _ A) as GN.
  destruct b as [| | | | |mb]; try (simpl in A; contradiction).
  destruct a as [| | | | |ma]; try (simpl merge; rewrite GN; reflexivity).
  simpl in A. destruct A as [ND A].
  rewrite merge_obj. simpl. rewrite get_key_merge_members by assumption.
  simpl in GN.
  destruct (get_key k mb) as [vb|] eqn:Ek.
  - destruct A as [O A]. destruct (get_key k ma) as [va|].
    + apply IH. assumption.
    + assumption.
  - reflexivity.
Qed.

(* ---- the table *)
Lemma get_key_app1 : forall k (t : table) k' j,
  get_key k (t ++ [(k', j)])%list =
  match get_key k t with Some v => Some v | None => if String.eqb k k' then Some j else None end.
Proof.
  intros. induction t as [|[k2 v] r IH]; simpl; [reflexivity|].
  destruct (String.eqb k k2); [reflexivity|assumption].
Qed.

Lemma step_ok : forall d t t', step d t = inr t' ->
  exists j, stored d t = inr j /\ t' = (t ++ [(decl_path d, j)])%list /\ get_key (decl_path d) t = None.
Proof.
  unfold step. intros d t t' H. destruct (get_key (decl_path d) t); [discriminate|].
  destruct (stored d t) as [e|j]; [discriminate|]. inversion H. exists j. auto.
Qed.

Lemma step_preserves : forall d t t' p v, step d t = inr t' -> get_key p t = Some v -> get_key p t' = Some v.
Proof.
  intros d t t' p v H G. apply step_ok in H. destruct H as [j [_ [E _]]]. subst. rewrite get_key_app1, G. reflexivity.
Qed.

Lemma run_from_preserves : forall ds i t t' p v, run_from i ds t = Ok t' -> get_key p t = Some v -> get_key p t' = Some v.
Proof.
  induction ds as [|d r IH]; simpl; intros i t t' p v H G.
  - inversion H; subst. assumption.
  - destruct (step d t) as [e|t1] eqn:S; [discriminate|]. eapply IH; [eassumption|]. eapply step_preserves; eassumption.
Qed.

Lemma run_from_app : forall ds1 ds2 i t t', run_from i (ds1 ++ ds2) t = Ok t' ->
  exists t1, run_from i ds1 t = Ok t1 /\ run_from (i + length ds1) ds2 t1 = Ok t'.
Proof.
  induction ds1 as [|d r IH]; simpl; intros ds2 i t t' H.
  - exists t. rewrite Nat.add_0_r. auto.
  - destruct (step d t) as [e|t1]; [discriminate|]. apply IH in H. destruct H as [t2 [A B]].
    exists t2. split; [assumption|]. replace (i + S (length r)) with (S i + length r) by lia. assumption.
Qed.

(* (1) every definition is stored with the body computed WHEN IT WAS DECLARED, and nothing declared later changes it *)
Theorem definition_keeps_its_body : forall ds1 d ds2 t',
  run (ds1 ++ d :: ds2) = Ok t' ->
  exists t1 j, run ds1 = Ok t1 /\ stored d t1 = inr j /\ get_key (decl_path d) t' = Some j
               /\ forall p v, get_key p t1 = Some v -> get_key p t' = Some v.
Proof.
  unfold run. intros ds1 d ds2 t' H. apply run_from_app in H. destruct H as [t1 [A B]]. simpl in B.
  destruct (step d t1) as [e|t2] eqn:S; [discriminate|].
  pose proof (step_ok _ _ _ S) as [j [Sj [E N]]].
  exists t1, j. repeat split; try assumption.
  - eapply run_from_preserves; [eassumption|]. subst t2. rewrite get_key_app1, N, String.eqb_refl. reflexivity.
  - intros p v G. eapply run_from_preserves; [eassumption|]. eapply step_preserves; eassumption.
Qed.

Definition base_known (d : decl) (t : table) : Prop :=
  match d with DNew _ _ _ => True | DExt ty _ b _ => get_key (path ty b) t <> None end.

Lemma stored_ext : forall d t k j, base_known d t -> stored d (t ++ [(k, j)])%list = stored d t.
Proof.
  intros [ty n body|ty n b body] t k j BK; simpl in *; [reflexivity|].
  rewrite get_key_app1. destruct (get_key (path ty b) t); [reflexivity|congruence].
Qed.

Lemma stored_base_known : forall d t j, stored d t = inr j -> base_known d t.
Proof.
  intros [ty n body|ty n b body] t j H; simpl in *; [exact I|].
  destruct (is_empty body); [discriminate|]. destruct (get_key (path ty b) t); [congruence|discriminate].
Qed.

(* (3) two definitions whose bases were declared before both of them can be written in either order *)
Theorem siblings_commute : forall c1 c2 t t1 t12,
  step c1 t = inr t1 -> step c2 t1 = inr t12 -> base_known c2 t ->
  exists t2 t21, step c2 t = inr t2 /\ step c1 t2 = inr t21 /\ forall p, get_key p t12 = get_key p t21.
Proof.
  intros c1 c2 t t1 t12 S1 S2 BK.
  apply step_ok in S1. destruct S1 as [j1 [St1 [E1 N1]]].
  apply step_ok in S2. destruct S2 as [j2 [St2 [E2 N2]]]. subst t1.
  rewrite stored_ext in St2 by assumption.
  rewrite get_key_app1 in N2.
  destruct (get_key (decl_path c2) t) eqn:N2'; [discriminate|].
  destruct (String.eqb (decl_path c2) (decl_path c1)) eqn:D; [discriminate|].
  exists (t ++ [(decl_path c2, j2)])%list, ((t ++ [(decl_path c2, j2)]) ++ [(decl_path c1, j1)])%list.
  assert (D' : String.eqb (decl_path c1) (decl_path c2) = false) by (rewrite String.eqb_sym; assumption).
  split; [|split].
  - unfold step. rewrite N2', St2. reflexivity.
  - unfold step. rewrite get_key_app1, N1, D'. rewrite stored_ext by (eapply stored_base_known; eassumption). rewrite St1. reflexivity.
  - intros p. subst t12. rewrite !get_key_app1.
    destruct (get_key p t); [reflexivity|].
    destruct (String.eqb p (decl_path c1)) eqn:P1; destruct (String.eqb p (decl_path c2)) eqn:P2; try reflexivity.
    apply String.eqb_eq in P1. apply String.eqb_eq in P2. subst p. rewrite P2, String.eqb_refl in D'. discriminate.
Qed.
