(* Proofs.MacroNest — a macro used inside another macro's body (C16, strengthening round 4, side finding):
   the repaired template layout (Model.Macro.norm_body) makes "written without a gap in the #define line" - the
   inner adjacency C16_adjacent speaks about - mean CONNECTED in the header line, for every token list. *)
From Coq Require Import ZArith String List Bool Ascii Lia.
From JMCV Require Import Model.Layout Model.Macro.
Import ListNotations.
Open Scope Z_scope.

Definition adj_flags (l : list ttok) : list bool := map (fun p => tt_adjacent (fst p) (snd p)) (combine l (tl l)).
Definition conn_seq (l : list token) : list bool := map (fun p => is_connected (snd p) (fst p)) (combine l (tl l)).

Definition norm_col (prev : option (token * Z)) (t : token) : Z :=
  match prev with
  | None => t_col t
  | Some (p, pend) => if is_connected t p then pend else if t_col t <=? pend then pend + 1 else t_col t
  end.

Lemma norm_body_cons prev t r :
  norm_body prev (t :: r) =
  mkTT (t_ty t) (norm_col prev t) (t_str t)
  :: norm_body (Some (t, norm_col prev t + tt_length (mkTT (t_ty t) (norm_col prev t) (t_str t)))) r.
Proof. destruct prev as [[p pend]|]; reflexivity. Qed.

Lemma norm_col_adjacent t p pend : (pend =? norm_col (Some (p, pend)) t) = is_connected t p.
Proof.
  cbn [norm_col]. destruct (is_connected t p); [apply Z.eqb_refl|].
  destruct (t_col t <=? pend) eqn:E; apply Z.eqb_neq; [lia|apply Z.leb_gt in E; lia].
Qed.

Theorem norm_body_adjacent : forall toks prev, adj_flags (norm_body prev toks) = conn_seq toks.
Proof.
  induction toks as [|t r IH]; intros prev; [reflexivity|].
  rewrite norm_body_cons. destruct r as [|t2 r2]; [reflexivity|].
  specialize (IH (Some (t, norm_col prev t + tt_length (mkTT (t_ty t) (norm_col prev t) (t_str t))))).
  rewrite norm_body_cons in IH |- *.
  unfold adj_flags, conn_seq in *. cbn [tl combine map fst snd] in IH |- *.
  f_equal; [|exact IH].
  unfold tt_adjacent. cbn [tt_col]. apply norm_col_adjacent.
Qed.

Lemma norm_body_texts : forall toks prev,
  map (fun t => (tt_ty t, tt_str t)) (norm_body prev toks) = map (fun t => (t_ty t, t_str t)) toks.
Proof. induction toks as [|t r IH]; intros prev; [reflexivity|]. rewrite norm_body_cons. cbn [map tt_ty tt_str]. rewrite IH. reflexivity. Qed.

(* a body written without macros: every token lies at or after the end of the previous one, and is connected to it
   exactly when it starts there - then nothing moves *)
Fixpoint laid_out (prev : option token) (toks : list token) : Prop :=
  match toks with
  | [] => True
  | t :: r =>
      match prev with
      | None => True
      | Some p => t_col p + tok_length p <= t_col t /\ is_connected t p = (t_col p + tok_length p =? t_col t)
      end /\ laid_out (Some t) r
  end.

Lemma tt_length_tok t c : tt_length (mkTT (t_ty t) c (t_str t)) = tok_length t.
Proof. reflexivity. Qed.

Lemma norm_body_plain_aux : forall toks prev,
  laid_out (option_map fst prev) toks ->
  (match prev with Some (p, pend) => pend = t_col p + tok_length p | None => True end) ->
  norm_body prev toks = map tt_of toks.
Proof.
  induction toks as [|t r IH]; intros prev L P; [reflexivity|].
  rewrite norm_body_cons. cbn [laid_out] in L. destruct L as [L1 L2].
  assert (C : norm_col prev t = t_col t).
  { destruct prev as [[p pend]|]; [|reflexivity]. cbn [option_map fst] in L1. destruct L1 as [Hle Hc]. subst pend.
    cbn [norm_col]. rewrite Hc. destruct (t_col p + tok_length p =? t_col t) eqn:E.
    - apply Z.eqb_eq in E. exact E.
    - apply Z.eqb_neq in E. destruct (t_col t <=? t_col p + tok_length p) eqn:E2; [apply Z.leb_le in E2; lia|reflexivity]. }
  rewrite C. cbn [map]. unfold tt_of at 1. f_equal.
  apply IH; [exact L2|]. rewrite tt_length_tok. reflexivity.
Qed.

Theorem norm_body_plain toks : laid_out None toks -> norm_body None toks = map tt_of toks.
Proof. intros L. apply (norm_body_plain_aux toks None L I). Qed.

(* the unrepaired template (columns of the header line as they are) loses / invents adjacency:
   `#define SEL @e` , `#define NEAR SEL[distance=..5]` : the tokens of NEAR's body as the header line gives them *)
Lemma pinned_body_refuted :
  exists toks, adj_flags (map tt_of toks) <> conn_seq toks /\ adj_flags (norm_body None toks) = conn_seq toks /\
               conn_seq toks = [true].
Proof.
  exists [mkTok KEYWORD 2 14 (s2l "@e") 3 (Some (2, 17)) false; mkTok PAREN_SQUARE 2 17 (s2l "[distance=..5]") 0 None true].
  split; [vm_compute; discriminate|]. split; [apply norm_body_adjacent|vm_compute; reflexivity].
Qed.
