(* Proofs/Import.v — C17: proofs about Model/Import.v.
   The theorems of Props/C17.v are closed with `exact` on the lemmas
   import_flatten, single_file_items, consume_items, pinned_refuted_relative_main,
   pinned_refuted_wildcard_cwd, pinned_partial. *)
From Coq Require Import String List Bool Arith Lia.
From JMCV Require Import Model.Import.
Import ListNotations.

(* ------------------------------------------------------------------ paths *)

Lemma path_eqb_refl : forall a, path_eqb a a = true.
Proof.
  induction a as [|x a IH]; simpl; auto.
  rewrite String.eqb_refl. exact IH.
Qed.

Lemma path_eqb_eq : forall a b, path_eqb a b = true -> a = b.
Proof.
  induction a as [|x a IH]; destruct b as [|y b]; simpl; intro H; try discriminate; auto.
  apply andb_true_iff in H. destruct H as [H1 H2].
  apply String.eqb_eq in H1. apply IH in H2. subst. reflexivity.
Qed.

Definition nd (l : list comp) : Prop := no_dotdot l = true.

Lemma nd_nil : nd [].
Proof. reflexivity. Qed.

Lemma nd_cons : forall c l, nd (c :: l) <-> String.eqb c ".." = false /\ nd l.
Proof.
  intros c l. unfold nd. simpl. rewrite andb_true_iff, negb_true_iff. tauto.
Qed.

Lemma forallb_rev : forall (A : Type) (f : A -> bool) l, forallb f (rev l) = forallb f l.
Proof.
  intros A f. induction l as [|a l IH]; simpl; auto.
  rewrite forallb_app, IH. simpl. rewrite andb_true_r. apply andb_comm.
Qed.

Lemma nd_rev : forall l, nd l -> nd (rev l).
Proof. intros l H. unfold nd, no_dotdot in *. rewrite forallb_rev. exact H. Qed.

Lemma nd_tl : forall l, nd l -> nd (tl l).
Proof.
  destruct l as [|c l]; simpl; auto. intro H. apply nd_cons in H. tauto.
Qed.

Lemma rstep_nd : forall acc c, nd acc -> nd (rstep acc c).
Proof.
  intros acc c H. unfold rstep. destruct (String.eqb c "..") eqn:E.
  - apply nd_tl; auto.
  - apply nd_cons. auto.
Qed.

Lemma fold_rstep_nd : forall l acc, nd acc -> nd (fold_left rstep l acc).
Proof.
  induction l as [|c l IH]; simpl; intros acc H; auto.
  apply IH. apply rstep_nd. exact H.
Qed.

Lemma canon_from_nd : forall base l, nd base -> nd (canon_from base l).
Proof.
  intros base l H. unfold canon_from. apply nd_rev. apply fold_rstep_nd. apply nd_rev. exact H.
Qed.

Lemma fold_rstep_plain : forall X acc, nd X -> fold_left rstep X acc = rev X ++ acc.
Proof.
  induction X as [|c X IH]; simpl; intros acc H; auto.
  apply nd_cons in H. destruct H as [E H].
  rewrite IH by exact H. unfold rstep. rewrite E.
  rewrite <- app_assoc. reflexivity.
Qed.

Lemma canon_from_plain : forall base X, nd X -> canon_from base X = base ++ X.
Proof.
  intros base X H. unfold canon_from. rewrite fold_rstep_plain by exact H.
  rewrite rev_app_distr, !rev_involutive. reflexivity.
Qed.

Lemma canon_from_app : forall A B, nd A -> canon_from [] (A ++ B) = canon_from A B.
Proof.
  intros A B H. unfold canon_from. simpl. rewrite fold_left_app.
  rewrite (fold_rstep_plain A [] H). rewrite app_nil_r. reflexivity.
Qed.

Lemma removelast_nd : forall l, nd l -> nd (removelast l).
Proof.
  induction l as [|c l IH]; intro H; auto.
  apply nd_cons in H. destruct H as [E H].
  destruct l as [|d l].
  - exact nd_nil.
  - change (removelast (c :: d :: l)) with (c :: removelast (d :: l)).
    apply nd_cons. split; auto.
Qed.

Lemma resolve_nd : forall cwd p, nd cwd -> nd (resolve cwd p).
Proof.
  intros cwd p H. unfold resolve. apply canon_from_nd.
  destruct (r_abs p); auto. exact nd_nil.
Qed.

Lemma resolve_absr : forall cwd X, nd X -> resolve cwd (absr X) = X.
Proof.
  intros cwd X H. unfold resolve, absr. simpl. apply (canon_from_plain [] X H).
Qed.

Lemma spec_base_nd : forall X abs, nd X -> nd (spec_base X abs).
Proof.
  intros X abs H. unfold spec_base. destruct abs.
  - exact nd_nil.
  - apply removelast_nd. exact H.
Qed.

Lemma resolve_join : forall cwd X abs c, nd X ->
  resolve cwd (join (parent (absr X)) (mkR abs c)) = canon_from (spec_base X abs) c.
Proof.
  intros cwd X abs c H. destruct abs; unfold resolve, join, parent, absr, spec_base; simpl.
  - reflexivity.
  - apply canon_from_app. apply removelast_nd. exact H.
Qed.

Lemma import_target_spec : forall cwd X abs raw, nd X ->
  import_target cwd (absr X) abs raw = spec_target X abs raw.
Proof.
  intros cwd X abs raw H. unfold import_target, spec_target. cbv zeta.
  rewrite !resolve_join by exact H. reflexivity.
Qed.

Lemma wild_dir_spec : forall cwd X abs raw, nd X ->
  wild_dir Repaired cwd (absr X) abs raw = spec_dir X abs raw.
Proof.
  intros cwd X abs raw H. unfold wild_dir, spec_dir. apply resolve_join. exact H.
Qed.

Lemma wild_listing_spec : forall ds cwd X abs raw, nd X ->
  wild_listing Repaired ds cwd (absr X) abs raw = spec_listing ds X abs raw.
Proof.
  intros ds cwd X abs raw H. unfold wild_listing, spec_listing, wild_base.
  rewrite (wild_dir_spec cwd X abs raw H), (resolve_join cwd X abs [] H).
  rewrite (canon_from_plain (spec_base X abs) [] nd_nil), app_nil_r. reflexivity.
Qed.

Lemma spec_listing_lookup : forall ds X abs raw fl,
  spec_listing ds X abs raw = Some fl -> lookup ds (spec_dir X abs raw) = Some fl.
Proof.
  intros ds X abs raw fl H. unfold spec_listing in H.
  destruct (walk_ok ds (spec_base X abs) (pynorm raw)); [exact H|discriminate].
Qed.

Lemma spec_target_nd : forall X abs raw, nd X -> nd (spec_target X abs raw).
Proof.
  intros X abs raw H. unfold spec_target. cbv zeta.
  destruct (has_jmc_suffix _); apply canon_from_nd; apply spec_base_nd; exact H.
Qed.

Lemma self_of_absr : forall m cwd X, nd X -> self_of m cwd (absr X) = absr X.
Proof.
  intros m cwd X H. destruct m; unfold self_of; auto.
  rewrite resolve_absr by exact H. reflexivity.
Qed.

(* ------------------------------------------------------------------ lookup *)

Lemma lookup_in : forall (A : Type) (l : list (apath * A)) p v,
  lookup l p = Some v -> In (p, v) l.
Proof.
  intros A. induction l as [|[k w] l IH]; simpl; intros p v H; try discriminate.
  destruct (path_eqb k p) eqn:E.
  - apply path_eqb_eq in E. inversion H. subst. left. reflexivity.
  - right. apply IH. exact H.
Qed.

(* ------------------------------------------------------------------ observations *)

Lemma items_of_app : forall a b, items_of (a ++ b) = items_of a ++ items_of b.
Proof. intros. unfold items_of. apply flat_map_app. Qed.

Lemma items_of_snoc : forall l e, items_of (l ++ [e]) = items_of l ++ items_of_event e.
Proof.
  intros. rewrite items_of_app. unfold items_of at 2. simpl. rewrite app_nil_r. reflexivity.
Qed.

Lemma opens_app : forall a b, opens (a ++ b) = opens a ++ opens b.
Proof.
  induction a as [|e a IH]; simpl; intros b; auto.
  destruct e; simpl; rewrite IH; reflexivity.
Qed.

Lemma opens_rev : forall l, opens (rev l) = rev (opens l).
Proof.
  induction l as [|e l IH]; simpl; auto.
  rewrite opens_app, IH. destruct e; simpl; rewrite ?app_nil_r; reflexivity.
Qed.

(* the items processed so far, including the loads still buffered *)
Definition fv (s : st) : list fitem :=
  items_of (rev (out s)) ++ map (fun x => FLoad (l_id x)) (rev (pending s)).

Lemma fv_push : forall f n s, fv (push f n s) = fv s ++ [FLoad n].
Proof.
  intros. unfold fv, push. simpl. rewrite map_app. simpl. rewrite app_assoc. reflexivity.
Qed.

Lemma fv_set_cur : forall f s, fv (set_cur f s) = fv s.
Proof. reflexivity. Qed.

Lemma pending_set_cur : forall f s, pending (set_cur f s) = pending s.
Proof. reflexivity. Qed.

Lemma pending_flush : forall s, pending (flush s) = [].
Proof. intros s. unfold flush. destruct (pending s) eqn:E; auto. Qed.

Lemma imported_flush : forall s, imported (flush s) = imported s.
Proof. intros s. unfold flush. destruct (pending s); reflexivity. Qed.

Lemma opens_flush : forall s, opens (out (flush s)) = opens (out s).
Proof. intros s. unfold flush. destruct (pending s); reflexivity. Qed.

Lemma fv_flush : forall s, fv (flush s) = fv s.
Proof.
  intros s. unfold fv, flush. destruct (pending s) as [|n l] eqn:E.
  - rewrite E. reflexivity.
  - cbn [out pending]. change (rev (EvBatch (cur s) (rev (n :: l)) :: out s))
      with (rev (out s) ++ [EvBatch (cur s) (rev (n :: l))]).
    rewrite items_of_snoc. cbn [items_of_event rev map]. rewrite app_nil_r. reflexivity.
Qed.

Lemma fv_emit_open : forall p s, fv (emit (EvOpen p) s) = fv s.
Proof.
  intros. unfold fv, emit. cbn [out pending].
  change (rev (EvOpen p :: out s)) with (rev (out s) ++ [EvOpen p]).
  rewrite items_of_snoc. cbn [items_of_event]. rewrite app_nil_r. reflexivity.
Qed.

Lemma fv_emit_def : forall n s, pending s = [] -> fv (emit (EvDef n) s) = fv s ++ [FDef n].
Proof.
  intros n s H. unfold fv, emit. cbn [out pending]. rewrite H.
  change (rev (EvDef n :: out s)) with (rev (out s) ++ [EvDef n]).
  rewrite items_of_snoc. cbn [items_of_event rev map]. rewrite !app_nil_r. reflexivity.
Qed.

Lemma fv_nopend : forall s, pending s = [] -> fv s = items_of (rev (out s)).
Proof. intros s H. unfold fv. rewrite H. simpl. apply app_nil_r. Qed.

(* ------------------------------------------------------------------ (C) consumers *)

Section ConsumerFacts.
  Variables (S : Type) (on_def : S -> nat -> S) (on_batch : S -> list nat -> S).
  Hypothesis batch_nil : forall s, on_batch s [] = s.
  Hypothesis batch_app : forall s a b, on_batch s (a ++ b) = on_batch (on_batch s a) b.

  Definition fstep (s : S) (f : fitem) : S :=
    match f with FLoad n => on_batch s [n] | FDef n => on_def s n end.

  Lemma batch_fold : forall l s, on_batch s l = fold_left fstep (map FLoad l) s.
  Proof.
    induction l as [|a l IH]; intros s; simpl.
    - apply batch_nil.
    - change (a :: l) with ([a] ++ l). rewrite batch_app. apply IH.
  Qed.

  Lemma consume_fold : forall evs s,
    consume S on_def on_batch s evs = fold_left fstep (items_of evs) s.
  Proof.
    unfold consume. induction evs as [|e evs IH]; intros s; simpl; auto.
    change (items_of (e :: evs)) with (items_of_event e ++ items_of evs).
    rewrite fold_left_app, IH. f_equal.
    destruct e; simpl; auto. rewrite batch_fold, map_map. reflexivity.
  Qed.
End ConsumerFacts.

Lemma consume_items :
  forall (S : Type) (on_def : S -> nat -> S) (on_batch : S -> list nat -> S),
    (forall s, on_batch s [] = s) ->
    (forall s a b, on_batch s (a ++ b) = on_batch (on_batch s a) b) ->
    forall evs1 evs2 s,
      items_of evs1 = items_of evs2 ->
      consume S on_def on_batch s evs1 = consume S on_def on_batch s evs2.
Proof.
  intros S on_def on_batch Hn Ha evs1 evs2 s H.
  rewrite !(consume_fold S on_def on_batch Hn Ha). rewrite H. reflexivity.
Qed.

(* ------------------------------------------------------------------ (B) a single file *)

Lemma single_items : forall m ds cwd rc self l s,
  exists s', parse_items m ds cwd rc self (map item_of_fitem l) s = Ok s'
             /\ fv s' = fv s ++ l /\ pending s' = [].
Proof.
  intros m ds cwd rc self. induction l as [|f l IH]; intros s.
  - exists (flush s). simpl. rewrite fv_flush, app_nil_r, pending_flush. auto.
  - destruct f as [n|n]; cbn [map item_of_fitem parse_items].
    + destruct (IH (push (resolve cwd self) n s)) as (s' & E & F & P). exists s'.
      rewrite E, F, fv_push, <- app_assoc. auto.
    + destruct (IH (emit (EvDef n) (flush s))) as (s' & E & F & P). exists s'.
      rewrite E, F, fv_emit_def, fv_flush, <- app_assoc by apply pending_flush. auto.
Qed.

Lemma single_file_items :
  forall m ds cwd p l fuel,
    no_dotdot p = true -> pynorm p = p -> 1 <= fuel ->
    exists evs, parse_project m (single_file p l) ds cwd true p fuel = Ok evs /\ items_of evs = l.
Proof.
  intros m ds cwd p l fuel Hnd Hpy Hf.
  destruct fuel as [|f]; [lia|].
  unfold parse_project. rewrite Hpy. change (mkR true p) with (absr p).
  cbn [parse_file]. rewrite (self_of_absr m cwd p Hnd).
  change (is_imported (absr p) st0) with false. cbv iota.
  rewrite (resolve_absr cwd p Hnd).
  unfold single_file. cbn [lookup]. rewrite path_eqb_refl.
  match goal with
  | |- context [parse_items m ds cwd ?rc ?self _ ?s] =>
      destruct (single_items m ds cwd rc self l s) as (s' & E & F & P)
  end.
  rewrite E. exists (rev (out s')). split; auto.
  rewrite <- (fv_nopend s' P), F, fv_set_cur, fv_emit_open. reflexivity.
Qed.

(* ------------------------------------------------------------------ (D) pinned = repaired on the good fragment *)

Lemma items_mode_eq : forall ds cwd rc1 rc2 X, nd X ->
  (forall Y s, nd Y -> rc1 (absr Y) s = rc2 (absr Y) s) ->
  forall items s, forallb item_no_wild items = true ->
    parse_items Pinned ds cwd rc1 (absr X) items s = parse_items Repaired ds cwd rc2 (absr X) items s.
Proof.
  intros ds cwd rc1 rc2 X HX Hrc.
  induction items as [|[n|n|abs raw|abs raw] r IH]; intros s H; cbn [parse_items]; simpl in H;
    try discriminate; auto.
  rewrite (import_target_spec cwd X abs raw HX).
  rewrite Hrc by (apply spec_target_nd; exact HX).
  destruct (rc2 _ _); auto.
Qed.

Lemma file_mode_eq : forall t ds cwd, tree_no_wild t = true ->
  forall fuel X s, nd X ->
    parse_file Pinned t ds cwd fuel (absr X) s = parse_file Repaired t ds cwd fuel (absr X) s.
Proof.
  intros t ds cwd Ht. induction fuel as [|f IH]; intros X s HX; cbn [parse_file]; auto.
  rewrite !(self_of_absr _ cwd X HX).
  destruct (is_imported (absr X) s); auto.
  rewrite (resolve_absr cwd X HX).
  destruct (lookup t X) as [items|] eqn:EL; auto.
  apply items_mode_eq; auto.
  apply lookup_in in EL. unfold tree_no_wild in Ht.
  rewrite forallb_forall in Ht. apply (Ht _ EL).
Qed.

Lemma pinned_partial :
  forall t ds cwd mraw fuel,
    no_dotdot cwd = true -> no_dotdot (pynorm mraw) = true -> tree_no_wild t = true ->
    parse_project Pinned t ds cwd true mraw fuel = parse_project Repaired t ds cwd true mraw fuel.
Proof.
  intros t ds cwd mraw fuel _ Hm Ht. unfold parse_project.
  change (mkR true (pynorm mraw)) with (absr (pynorm mraw)).
  rewrite (file_mode_eq t ds cwd Ht fuel (pynorm mraw) st0 Hm). reflexivity.
Qed.

(* ------------------------------------------------------------------ (E) the pinned code refuted *)

Lemma pinned_refuted_relative_main :
  exists t ds cwd mabs mraw fuel evs l,
    no_dotdot cwd = true /\ length t + 2 <= fuel /\
    parse_project Pinned t ds cwd mabs mraw fuel = Ok evs /\
    flatten t ds cwd mabs mraw fuel = Ok l /\
    items_of evs <> l /\ ~ NoDup (opens evs).
Proof.
  exists [ (["R"; "p"; "main.jmc"], [IDef 1; IImport false ["a"]]);
           (["R"; "p"; "a.jmc"], [IImport false ["main"]]) ]%string.
  exists [], ["R"; "p"]%string, false, ["main.jmc"]%string, 5.
  exists [ EvOpen ["R"; "p"; "main.jmc"]; EvDef 1; EvOpen ["R"; "p"; "a.jmc"];
           EvOpen ["R"; "p"; "main.jmc"]; EvDef 1 ]%string.
  exists [FDef 1].
  split; [reflexivity|]. split; [simpl; lia|].
  split; [vm_compute; reflexivity|]. split; [vm_compute; reflexivity|].
  split.
  - simpl. discriminate.
  - simpl. intro H. inversion H as [|x l H1 H2]. apply H1. simpl. auto.
Qed.

Lemma pinned_refuted_wildcard_cwd :
  exists t ds cwd mabs mraw fuel l e,
    no_dotdot cwd = true /\ length t + 2 <= fuel /\
    flatten t ds cwd mabs mraw fuel = Ok l /\
    parse_project Pinned t ds cwd mabs mraw fuel = Err e.
Proof.
  exists [ (["R"; "p"; "main.jmc"], [IImport false ["sub"; "c"]]);
           (["R"; "p"; "sub"; "c.jmc"], [IWild false ["deep"]]);
           (["R"; "p"; "sub"; "deep"; "e.jmc"], [ILoad 1]) ]%string.
  exists [ (["R"; "p"; "sub"; "deep"], [["R"; "p"; "sub"; "deep"; "e.jmc"]]) ]%string.
  exists ["R"; "p"]%string, false, ["main.jmc"]%string, 6.
  exists [FLoad 1], (EDirNotFound ["R"; "p"; "deep"]%string).
  split; [reflexivity|]. split; [simpl; lia|].
  split; vm_compute; reflexivity.
Qed.

(* ------------------------------------------------------------------ (A) the repaired code = the specification *)

Lemma seen_in_cons : forall p q seen, seen_in p (q :: seen) = path_eqb p q || seen_in p seen.
Proof. reflexivity. Qed.

Lemma seen_in_false_notin : forall p seen, seen_in p seen = false -> ~ In p seen.
Proof.
  intros p seen H Hin.
  assert (seen_in p seen = true) as E.
  { unfold seen_in. apply existsb_exists. exists p. split; auto. apply path_eqb_refl. }
  congruence.
Qed.

Lemma is_imported_absr : forall p s seen, imported s = map absr seen ->
  is_imported (absr p) s = seen_in p seen.
Proof.
  intros p s seen H. unfold is_imported, seen_in. rewrite H. clear H.
  induction seen as [|q seen IH]; simpl; auto.
  rewrite IH. reflexivity.
Qed.

Lemma filter_len_le : forall (A : Type) (f g : A -> bool) l,
  (forall x, f x = true -> g x = true) ->
  length (filter f l) <= length (filter g l).
Proof.
  intros A f g l H. induction l as [|a l IH]; simpl; auto.
  destruct (f a) eqn:Ef.
  - rewrite (H a Ef). simpl. lia.
  - destruct (g a); simpl; lia.
Qed.

Lemma filter_len_all : forall (A : Type) (f : A -> bool) l, length (filter f l) <= length l.
Proof.
  intros A f l. induction l as [|a l IH]; simpl; auto.
  destruct (f a); simpl; lia.
Qed.

Lemma filter_len_lt : forall (A : Type) (f g : A -> bool) l x0,
  (forall x, f x = true -> g x = true) ->
  In x0 l -> f x0 = false -> g x0 = true ->
  length (filter f l) < length (filter g l).
Proof.
  intros A f g l x0 H. induction l as [|a l IH]; simpl; intros Hin Hf Hg; [tauto|].
  destruct Hin as [->|Hin].
  - rewrite Hf, Hg. simpl. pose proof (filter_len_le A f g l H). lia.
  - specialize (IH Hin Hf Hg). destruct (f a) eqn:Ef.
    + rewrite (H a Ef). simpl. lia.
    + destruct (g a); simpl; lia.
Qed.

Definition unvf (seen : list apath) (kv : apath * list item) : bool :=
  negb (seen_in (fst kv) seen).
Definition unv (t : tree) (seen : list apath) : nat := length (filter (unvf seen) t).

Lemma unvf_cons : forall p seen kv, unvf (p :: seen) kv = true -> unvf seen kv = true.
Proof.
  intros p seen kv. unfold unvf. rewrite seen_in_cons, !negb_true_iff, orb_false_iff. tauto.
Qed.

Lemma unv_cons_le : forall t p seen, unv t (p :: seen) <= unv t seen.
Proof. intros. unfold unv. apply filter_len_le. apply unvf_cons. Qed.

Lemma unv_cons_lt : forall t p seen items,
  lookup t p = Some items -> seen_in p seen = false -> unv t (p :: seen) < unv t seen.
Proof.
  intros t p seen items HL HS. unfold unv.
  apply filter_len_lt with (x0 := (p, items)).
  - apply unvf_cons.
  - apply lookup_in. exact HL.
  - unfold unvf. simpl fst. rewrite seen_in_cons, path_eqb_refl. reflexivity.
  - unfold unvf. simpl fst. rewrite HS. reflexivity.
Qed.

Definition Rel' (s : st) (seen : list apath) : Prop :=
  imported s = map absr seen /\ opens (out s) = seen /\ NoDup seen.
Definition Rel (s : st) (seen : list apath) : Prop := Rel' s seen /\ pending s = [].

Lemma Rel'_flush : forall s seen, Rel' s seen -> Rel (flush s) seen.
Proof.
  intros s seen (H1 & H2 & H3). split; [|apply pending_flush].
  split; [|split]; auto.
  - rewrite imported_flush. exact H1.
  - rewrite opens_flush. exact H2.
Qed.

Lemma Rel'_push : forall f n s seen, Rel' s seen -> Rel' (push f n s) seen.
Proof. intros f n s seen H. exact H. Qed.

Lemma Rel'_set_cur : forall f s seen, Rel' s seen -> Rel' (set_cur f s) seen.
Proof. intros f s seen H. exact H. Qed.

Lemma Rel_set_cur : forall f s seen, Rel s seen -> Rel (set_cur f s) seen.
Proof. intros f s seen H. exact H. Qed.

Lemma Rel'_emit_def : forall n s seen, Rel' s seen -> Rel' (emit (EvDef n) s) seen.
Proof. intros n s seen H. exact H. Qed.

Section Sim.
  Variables (t : tree) (ds : dirs) (cwd : apath).
  Hypothesis Hds : forall d fl q, lookup ds d = Some fl -> In q fl -> nd q.

  Definition post (s : st) (seen : list apath) (rc : result st) (rs : fres) : Prop :=
    match rc with
    | Ok s' => exists seen' l, rs = Ok (seen', l) /\ Rel s' seen' /\ fv s' = fv s ++ l
                               /\ unv t seen' <= unv t seen
    | Err e => rs = Err e /\ e <> EFuel
    end.

  Definition rec_ok (rc : rpath -> st -> result st) (rs : apath -> list apath -> fres)
             (bound : nat) : Prop :=
    forall p s seen, nd p -> Rel s seen -> unv t seen < bound ->
      post s seen (rc (absr p) s) (rs p seen).

  Lemma sim_each : forall rc rs bound, rec_ok rc rs bound ->
    forall fl, (forall q, In q fl -> nd q) ->
    forall id s seen, Rel s seen -> unv t seen < bound ->
      post s seen (each_file rc id fl s) (flat_each rs fl seen).
  Proof.
    intros rc rs bound Hrec. induction fl as [|q fl IH]; intros Hfl id s seen HR Hlt.
    - simpl. exists seen, []. rewrite app_nil_r. auto.
    - cbn [each_file flat_each].
      pose proof (Hrec q s seen (Hfl q (or_introl eq_refl)) HR Hlt) as Hp.
      unfold post in Hp. destruct (rc (absr q) s) as [s1|e].
      + destruct Hp as (seen1 & l1 & E1 & R1 & F1 & U1). rewrite E1.
        assert (forall q', In q' fl -> nd q') as Hfl' by (intros q' Hq; apply Hfl; right; exact Hq).
        specialize (IH Hfl' id (set_cur id s1) seen1 (Rel_set_cur id s1 seen1 R1) ltac:(lia)).
        unfold post in IH |- *. destruct (each_file rc id fl (set_cur id s1)) as [s2|e].
        * destruct IH as (seen2 & l2 & E2 & R2 & F2 & U2). rewrite E2.
          exists seen2, (l1 ++ l2). rewrite F2, fv_set_cur, F1, app_assoc.
          repeat split; auto; try apply R2. lia.
        * destruct IH as [E2 N]. rewrite E2. auto.
      + destruct Hp as [E1 N]. rewrite E1. simpl. auto.
  Qed.

  Lemma sim_items : forall rc rs bound self, nd self -> rec_ok rc rs bound ->
    forall items s seen, Rel' s seen -> unv t seen < bound ->
      post s seen (parse_items Repaired ds cwd rc (absr self) items s)
           (flat_items ds rs self items seen).
  Proof.
    intros rc rs bound self Hself Hrec.
    induction items as [|[n|n|abs raw|abs raw] r IH]; intros s seen HR Hlt;
      cbn [parse_items flat_items].
    - simpl. exists seen, []. rewrite fv_flush, app_nil_r.
      split; auto. split; [apply Rel'_flush; exact HR|]. auto.
    - specialize (IH (push (resolve cwd (absr self)) n s) seen (Rel'_push _ n s seen HR) Hlt).
      unfold post in IH |- *. destruct (parse_items _ _ _ _ _ r (push _ n s)) as [s'|e].
      + destruct IH as (seen' & l & E & R & F & U). rewrite E.
        exists seen', (FLoad n :: l). rewrite F, fv_push, <- app_assoc. auto.
      + destruct IH as [E N]. rewrite E. auto.
    - pose proof (Rel'_flush s seen HR) as [HRf HPf].
      specialize (IH (emit (EvDef n) (flush s)) seen (Rel'_emit_def n _ seen HRf) Hlt).
      unfold post in IH |- *.
      destruct (parse_items _ _ _ _ _ r (emit (EvDef n) (flush s))) as [s'|e].
      + destruct IH as (seen' & l & E & R & F & U). rewrite E.
        exists seen', (FDef n :: l).
        rewrite F, fv_emit_def, fv_flush, <- app_assoc by exact HPf. auto.
      + destruct IH as [E N]. rewrite E. auto.
    - rewrite (import_target_spec cwd self abs raw Hself).
      pose proof (Hrec (spec_target self abs raw) (flush s) seen
                    (spec_target_nd self abs raw Hself) (Rel'_flush s seen HR) Hlt) as Hp.
      unfold post in Hp. destruct (rc (absr (spec_target self abs raw)) (flush s)) as [s1|e].
      + destruct Hp as (seen1 & l1 & E1 & R1 & F1 & U1). rewrite E1.
        specialize (IH (set_cur (resolve cwd (absr self)) s1) seen1 (proj1 R1) ltac:(lia)).
        unfold post in IH |- *. destruct (parse_items _ _ _ _ _ r (set_cur _ s1)) as [s2|e].
        * destruct IH as (seen2 & l2 & E2 & R2 & F2 & U2). rewrite E2.
          exists seen2, (l1 ++ l2). rewrite F2, fv_set_cur, F1, fv_flush, app_assoc.
          repeat split; auto; try apply R2. lia.
        * destruct IH as [E2 N]. rewrite E2. auto.
      + destruct Hp as [E1 N]. rewrite E1. simpl. auto.
    - cbv zeta. rewrite (wild_dir_spec cwd self abs raw Hself), (wild_listing_spec ds cwd self abs raw Hself).
      destruct (spec_listing ds self abs raw) as [fl|] eqn:EL.
      + pose proof (sim_each rc rs bound Hrec fl (fun q Hq => Hds _ fl q (spec_listing_lookup ds self abs raw fl EL) Hq)
                      (resolve cwd (absr self)) (flush s) seen (Rel'_flush s seen HR) Hlt) as Hp.
        unfold post in Hp. destruct (each_file rc _ fl (flush s)) as [s1|e].
        * destruct Hp as (seen1 & l1 & E1 & R1 & F1 & U1). rewrite E1.
          specialize (IH s1 seen1 (proj1 R1) ltac:(lia)).
          unfold post in IH |- *. destruct (parse_items _ _ _ _ _ r s1) as [s2|e].
          -- destruct IH as (seen2 & l2 & E2 & R2 & F2 & U2). rewrite E2.
             exists seen2, (l1 ++ l2). rewrite F2, F1, fv_flush, app_assoc.
             repeat split; auto; try apply R2. lia.
          -- destruct IH as [E2 N]. rewrite E2. auto.
        * destruct Hp as [E1 N]. rewrite E1. simpl. auto.
      + simpl. split; [reflexivity|discriminate].
  Qed.

  Lemma sim_file : forall fuel,
    rec_ok (parse_file Repaired t ds cwd fuel) (flat_file t ds fuel) fuel.
  Proof.
    induction fuel as [|f IH]; intros p s seen Hp HR Hlt; [lia|].
    cbn [parse_file flat_file]. rewrite (self_of_absr Repaired cwd p Hp).
    destruct HR as [HR' HP]. pose proof HR' as (HI & HO & HN).
    rewrite (is_imported_absr p s seen HI).
    destruct (seen_in p seen) eqn:ES.
    - simpl. exists seen, []. rewrite app_nil_r. repeat split; auto.
    - rewrite (resolve_absr cwd p Hp).
      destruct (lookup t p) as [items|] eqn:EL.
      + pose proof (unv_cons_lt t p seen items EL ES) as Hlt'.
        assert (Rel' (set_cur p (emit (EvOpen p) (mark (absr p) s))) (p :: seen)) as HR2.
        { split; [|split].
          - simpl. rewrite HI. reflexivity.
          - simpl. rewrite HO. reflexivity.
          - constructor; auto. apply seen_in_false_notin. exact ES. }
        assert (unv t (p :: seen) < f) as Hlt2.
        { change (unv t (p :: seen) < unv t seen) in Hlt'. lia. }
        pose proof (sim_items (parse_file Repaired t ds cwd f) (flat_file t ds f) f p Hp IH
                      items _ (p :: seen) HR2 Hlt2) as Hq.
        unfold post in Hq |- *.
        destruct (parse_items Repaired ds cwd (parse_file Repaired t ds cwd f) (absr p) items
                    (set_cur p (emit (EvOpen p) (mark (absr p) s)))) as [s'|e].
        * destruct Hq as (seen' & l & E & R & F & U). exists seen', l.
          rewrite F, fv_set_cur, fv_emit_open. repeat split; auto; try apply R.
          eapply Nat.le_trans; [exact U|apply unv_cons_le].
        * exact Hq.
      + simpl. split; [reflexivity|discriminate].
  Qed.
End Sim.

Lemma parse_file_self : forall t ds cwd fuel p s, nd (resolve cwd p) ->
  parse_file Repaired t ds cwd fuel p s
  = parse_file Repaired t ds cwd fuel (absr (resolve cwd p)) s.
Proof.
  intros t ds cwd fuel p s H. destruct fuel as [|f]; cbn [parse_file]; auto.
  rewrite (self_of_absr Repaired cwd _ H). reflexivity.
Qed.

Lemma import_flatten :
  forall t ds cwd mabs mraw fuel,
    no_dotdot cwd = true ->
    forallb (fun kv => forallb no_dotdot (snd kv)) ds = true ->
    length t + 2 <= fuel ->
    match parse_project Repaired t ds cwd mabs mraw fuel with
    | Ok evs =>
        flatten t ds cwd mabs mraw fuel = Ok (items_of evs) /\ NoDup (opens evs)
    | Err e =>
        e <> EFuel /\ flatten t ds cwd mabs mraw fuel = Err e
    end.
Proof.
  intros t ds cwd mabs mraw fuel Hcwd Hdsb Hfuel.
  assert (forall d fl q, lookup ds d = Some fl -> In q fl -> nd q) as Hds.
  { intros d fl q HL Hq. apply lookup_in in HL.
    rewrite forallb_forall in Hdsb. specialize (Hdsb _ HL). simpl in Hdsb.
    rewrite forallb_forall in Hdsb. exact (Hdsb q Hq). }
  unfold parse_project, flatten.
  set (p := mkR mabs (pynorm mraw)).
  assert (nd (resolve cwd p)) as HP by (apply resolve_nd; exact Hcwd).
  rewrite (parse_file_self t ds cwd fuel p st0 HP).
  assert (Rel st0 []) as HR0.
  { split; [|reflexivity]. split; [|split]; try reflexivity. constructor. }
  assert (unv t [] < fuel) as Hlt.
  { unfold unv. pose proof (filter_len_all _ (unvf []) t). lia. }
  pose proof (sim_file t ds cwd Hds fuel (resolve cwd p) st0 [] HP HR0 Hlt) as H.
  unfold post in H.
  destruct (parse_file Repaired t ds cwd fuel (absr (resolve cwd p)) st0) as [s'|e].
  - destruct H as (seen' & l & E & ((HI & HO & HN) & HPend) & F & U). rewrite E.
    split.
    + rewrite <- (fv_nopend s' HPend), F. reflexivity.
    + rewrite opens_rev, HO. apply NoDup_rev. exact HN.
  - destruct H as [E N]. rewrite E. auto.
Qed.

(* ------------------------------------------------------------------ (F) strengthening round 3: the file of a load batch *)

Section BatchFile.
  Variables (m : mode) (t : tree) (ds : dirs) (cwd : apath).

  Definition stmt_ok (tok : apath) (x : lstmt) : Prop := l_file x = tok /\ written_in t x.

  (* buffered statements were read from the file the load tokenizer stands on; every batch parsed so far is right *)
  Definition Inv (s : st) : Prop :=
    Forall (stmt_ok (cur s)) (pending s) /\ Forall (batch_ok t) (out s).

  Lemma Inv_flush : forall s, Inv s -> Inv (flush s).
  Proof.
    intros s [HP HO]. unfold flush. destruct (pending s) as [|x l] eqn:E.
    - split; [rewrite E; constructor|exact HO].
    - split; cbn [pending cur out]; [constructor|].
      constructor; [|exact HO]. cbn [batch_ok]. apply Forall_rev. exact HP.
  Qed.

  Lemma Inv_push : forall f n s, Inv s -> cur s = f -> written_in t (mkL n f) -> Inv (push f n s).
  Proof.
    intros f n s [HP HO] HC HW. split; cbn [push pending cur out]; [|exact HO].
    constructor; [|exact HP]. split; [symmetry; exact HC|exact HW].
  Qed.

  Lemma Inv_emit : forall e s, Inv s -> batch_ok t e -> Inv (emit e s).
  Proof.
    intros e s [HP HO] HE. split; cbn [emit pending cur out]; [exact HP|].
    constructor; [exact HE|exact HO].
  Qed.

  Lemma Inv_mark : forall k s, Inv s -> Inv (mark k s).
  Proof. intros k s H. exact H. Qed.

  (* __update_load is harmless exactly when nothing is buffered: this is where the flush BEFORE an import is needed *)
  Lemma Inv_set_cur : forall f s, Inv s -> pending s = [] -> Inv (set_cur f s).
  Proof.
    intros f s [HP HO] HE. split; cbn [set_cur pending cur out]; [|exact HO].
    rewrite HE. constructor.
  Qed.

  Definition rec_inv (rc : rpath -> st -> result st) : Prop :=
    forall p s s', Inv s -> pending s = [] -> rc p s = Ok s' -> Inv s' /\ pending s' = [].

  Lemma inv_each : forall rc, rec_inv rc -> forall id fl s s',
    Inv s -> pending s = [] -> cur s = id -> each_file rc id fl s = Ok s' ->
    Inv s' /\ pending s' = [] /\ cur s' = id.
  Proof.
    intros rc Hrc id. induction fl as [|q fl IH]; intros s s' HI HP HC HE; cbn [each_file] in HE.
    - inversion HE. subst. auto.
    - destruct (rc (absr q) s) as [s1|e] eqn:E1; [|discriminate].
      destruct (Hrc _ _ _ HI HP E1) as [HI1 HP1].
      apply (IH (set_cur id s1) s'); auto.
      apply Inv_set_cur; auto.
  Qed.

  Lemma inv_items : forall rc, rec_inv rc -> forall self items0,
    lookup t (resolve cwd self) = Some items0 ->
    forall items, incl items items0 -> forall s s',
      Inv s -> cur s = resolve cwd self ->
      parse_items m ds cwd rc self items s = Ok s' -> Inv s' /\ pending s' = [].
  Proof.
    intros rc Hrc self items0 HL.
    induction items as [|[n|n|abs raw|abs raw] r IH]; intros Hincl s s' HI HC HE; cbn [parse_items] in HE.
    - inversion HE. subst. split; [apply Inv_flush; exact HI|apply pending_flush].
    - apply (IH (fun x Hx => Hincl x (or_intror Hx)) _ _ (Inv_push _ n s HI HC
              (ex_intro _ items0 (conj HL (Hincl _ (or_introl eq_refl))))) HC HE).
    - apply (IH (fun x Hx => Hincl x (or_intror Hx)) (emit (EvDef n) (flush s)) s'); auto.
      + apply Inv_emit; [apply Inv_flush; exact HI|exact I].
      + unfold flush. destruct (pending s); exact HC.
    - destruct (rc (absr (import_target cwd self abs raw)) (flush s)) as [s1|e] eqn:E1; [|discriminate].
      destruct (Hrc _ _ _ (Inv_flush s HI) (pending_flush s) E1) as [HI1 HP1].
      apply (IH (fun x Hx => Hincl x (or_intror Hx)) (set_cur (resolve cwd self) s1) s'); auto.
      apply Inv_set_cur; auto.
    - cbv zeta in HE. destruct (wild_listing m ds cwd self abs raw) as [fl|]; [|discriminate].
      destruct (each_file rc (resolve cwd self) fl (flush s)) as [s1|e] eqn:E1; [|discriminate].
      assert (cur (flush s) = resolve cwd self) as HCf by (unfold flush; destruct (pending s); exact HC).
      destruct (inv_each rc Hrc _ fl _ _ (Inv_flush s HI) (pending_flush s) HCf E1) as (HI1 & HP1 & HC1).
      apply (IH (fun x Hx => Hincl x (or_intror Hx)) s1 s'); auto.
  Qed.

  Lemma inv_file : forall fuel, rec_inv (parse_file m t ds cwd fuel).
  Proof.
    induction fuel as [|f IH]; intros p s s' HI HP HE; cbn [parse_file] in HE; [discriminate|].
    destruct (is_imported (self_of m cwd p) s).
    - inversion HE. subst. auto.
    - destruct (lookup t (resolve cwd (self_of m cwd p))) as [items|] eqn:EL; [|discriminate].
      refine (inv_items _ IH (self_of m cwd p) items EL items (incl_refl _)
                (set_cur (resolve cwd (self_of m cwd p))
                   (emit (EvOpen (resolve cwd (self_of m cwd p))) (mark (self_of m cwd p) s))) s' _ eq_refl HE).
      apply Inv_set_cur; [|exact HP].
      apply Inv_emit; [apply Inv_mark; exact HI|exact I].
  Qed.
End BatchFile.

Lemma load_batch_file :
  forall m t ds cwd mabs mraw fuel evs,
    parse_project m t ds cwd mabs mraw fuel = Ok evs -> Forall (batch_ok t) evs.
Proof.
  intros m t ds cwd mabs mraw fuel evs H. unfold parse_project in H.
  destruct (parse_file m t ds cwd fuel (mkR mabs (pynorm mraw)) st0) as [s'|e] eqn:E; [|discriminate].
  inversion H. subst.
  assert (Inv t st0) as H0 by (split; constructor).
  destruct (inv_file m t ds cwd fuel _ _ _ H0 eq_refl E) as [[_ HO] _].
  apply Forall_rev. exact HO.
Qed.

Lemma batch_ok_file : forall t e, batch_ok t e -> batch_file_ok e.
Proof.
  intros t [p|n|tok l]; simpl; auto.
  apply Forall_impl. intros x [H _]. exact H.
Qed.

Lemma sitems_of_cons : forall e evs, sitems_of (e :: evs) = sitems_of_event e ++ sitems_of evs.
Proof. reflexivity. Qed.

Lemma erase_sitems : forall evs, map erase_file (sitems_of evs) = items_of evs.
Proof.
  induction evs as [|e evs IH]; auto.
  rewrite sitems_of_cons, map_app, IH.
  change (items_of (e :: evs)) with (items_of_event e ++ items_of evs). f_equal.
  destruct e; simpl; auto. rewrite map_map. reflexivity.
Qed.

Section FileConsumerFacts.
  Variables (S : Type) (on_def : S -> nat -> S) (on_load : S -> apath -> nat -> S).

  Lemma batch_own_files : forall tok l s, Forall (fun x => l_file x = tok) l ->
    fold_left (fun s x => on_load s tok (l_id x)) l s
    = fold_left (sstep S on_def on_load) (map (fun x => SLoad (l_file x) (l_id x)) l) s.
  Proof.
    intros tok. induction l as [|x l IH]; intros s H; auto.
    apply Forall_cons_iff in H. destruct H as [Hx Hl].
    cbn [fold_left map sstep]. rewrite Hx. apply IH. exact Hl.
  Qed.

  Lemma fconsume_sitems : forall evs s, Forall batch_file_ok evs ->
    fconsume S on_def on_load s evs = fold_left (sstep S on_def on_load) (sitems_of evs) s.
  Proof.
    unfold fconsume. induction evs as [|e evs IH]; intros s H; auto.
    inversion H as [|e' evs' He Hevs]. subst.
    rewrite sitems_of_cons, fold_left_app. cbn [fold_left]. rewrite IH by exact Hevs. f_equal.
    destruct e as [p|n|tok l]; auto. apply batch_own_files. exact He.
  Qed.
End FileConsumerFacts.

Lemma sitems_written_batch : forall t tok l,
  Forall (fun x => l_file x = tok /\ written_in t x) l ->
  Forall (fun i => match i with SLoad f n => written_in t (mkL n f) | SDef _ => True end)
         (map (fun x => SLoad (l_file x) (l_id x)) l).
Proof.
  intros t tok. induction l as [|x l IHl]; intro H; [constructor|].
  apply Forall_cons_iff in H. destruct H as [[_ Hx] Hl].
  cbn [map]. constructor; [|apply IHl; exact Hl].
  destruct x. exact Hx.
Qed.

Lemma sitems_written : forall t evs, Forall (batch_ok t) evs ->
  Forall (fun i => match i with SLoad f n => written_in t (mkL n f) | SDef _ => True end) (sitems_of evs).
Proof.
  intros t. induction evs as [|e evs IH]; intro H; [constructor|].
  apply Forall_cons_iff in H. destruct H as [He Hevs].
  rewrite sitems_of_cons. apply Forall_app. split; [|apply IH; exact Hevs].
  destruct e as [p|n|tok l]; simpl; auto.
  apply (sitems_written_batch t tok l He).
Qed.

Lemma file_sensitive_backend :
  forall (S : Type) (on_def : S -> nat -> S) (on_load : S -> apath -> nat -> S)
         m t ds cwd mabs mraw fuel evs s,
    parse_project m t ds cwd mabs mraw fuel = Ok evs ->
    fconsume S on_def on_load s evs = fold_left (sstep S on_def on_load) (sitems_of evs) s
    /\ map erase_file (sitems_of evs) = items_of evs
    /\ Forall (fun i => match i with SLoad f n => written_in t (mkL n f) | SDef _ => True end) (sitems_of evs).
Proof.
  intros S on_def on_load m t ds cwd mabs mraw fuel evs s H.
  pose proof (load_batch_file _ _ _ _ _ _ _ _ H) as HB.
  split; [|split].
  - apply fconsume_sitems. eapply Forall_impl; [|exact HB]. apply batch_ok_file.
  - apply erase_sitems.
  - apply sitems_written. exact HB.
Qed.
