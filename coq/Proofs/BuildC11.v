(* Proofs.BuildC11 — the output tree is the fresh build; crash recovery (C11).  About every [sound] variant of the
   model ([fixed], [hardened], ...); the certificate theorems at the end need [v_cert_atomic]. *)
From Coq Require Import String List Bool Arith Lia.
From JMCV Require Import Model.FS Model.Build Proofs.FS Proofs.Build Proofs.BuildC10.
Import ListNotations.
Open Scope string_scope.
Open Scope list_scope.

(* no JMC-owned file: the namespace folder does not exist and no file lies inside a folder the build deletes,
   #static content apart *)
Definition clean (c : cfg) (h : hdr) (t : fs) : Prop :=
  is_dir t (ns_dir c) = false /\
  forall p, inside c h p = true -> excepted h p = false -> file_at t p = None.
(* the namespace folder with its certificate: the next build deletes and rebuilds *)
Definition built (c : cfg) (t : fs) : Prop := is_dir t (ns_dir c) = true /\ is_file t (cert_path c) = true.
Definition startable (c : cfg) (h : hdr) (t : fs) : Prop := built c t \/ clean c h t.
Definition ready (c : cfg) (h : hdr) (t : fs) : Prop := is_dir t (ns_dir c) = true \/ clean c h t.

(* ------------------------------------------------------------------ deletion leaves nothing behind *)
Lemma removelast_strict : forall (F p : path),
  F <> [] -> is_prefix F (removelast p) = true -> exists r, r <> [] /\ p = F ++ r.
Proof.
  intros F p HF H. destruct p as [|x p'] eqn:Ep.
  - simpl in H. destruct F; [contradiction|discriminate].
  - rewrite <- Ep in *. assert (Hne : p <> []) by (rewrite Ep; discriminate).
    rewrite (app_removelast_last x Hne). apply is_prefix_split in H as [r' Hr']. rewrite Hr'.
    exists (r' ++ [last p x]). split; [destruct r'; discriminate|]. rewrite app_assoc. reflexivity.
Qed.

Lemma not_dir_below : forall t F r, is_dir t F = false -> r <> [] -> file_at t (F ++ r) = None.
Proof.
  intros t F r H Hr. unfold file_at. rewrite lookup_app. unfold is_dir in H.
  destruct (lookup t F) as [[c|cs]|]; try discriminate; auto. rewrite lookup_file_below; auto.
Qed.

Lemma absent_below : forall t F r, lookup t F = None -> file_at t (F ++ r) = None.
Proof. intros t F r H. unfold file_at. rewrite lookup_app, H. reflexivity. Qed.

Lemma rm_folder_nocreate : forall h cur F s o, In o (rm_folder h cur F s) -> creates o = false.
Proof.
  intros h cur F s o H. unfold rm_folder in H. destruct (is_dir cur F); [|contradiction].
  assert (Hsh : In o (rmtree_shutil cur F) -> creates o = false).
  { unfold rmtree_shutil. destruct (lookup cur F) as [sub|]; [|contradiction]. intro Ho.
    clear H. revert F o Ho. induction sub as [c|cs IH] using tree_ind_in; intros F o Ho; simpl in Ho.
    - destruct Ho as [<-|[]]. reflexivity.
    - apply in_app_or in Ho as [Ho|[<-|[]]]; [|reflexivity].
      apply in_flat_map in Ho as (e & He & Ho). eapply IH; eauto. }
  assert (Hst : In o (rmtree_static h cur F) -> creates o = false).
  { unfold rmtree_static. destruct (lookup cur F) as [sub|]; [|contradiction]. intro Ho.
    apply in_app_or in Ho as [Ho|Ho].
    - apply in_map_iff in Ho as (e & <- & _). reflexivity.
    - apply rmdirs_shape in Ho as (d & -> & _). reflexivity. }
  destruct (h_statics h); auto. destruct s; auto.
Qed.

Lemma rm_folder_clears : forall h cur F s m p,
  F <> [] -> exec (rm_folder h cur F s) cur = Some m -> is_prefix F (removelast p) = true ->
  (h_statics h <> [] -> s = true) -> excepted h p = false -> file_at m p = None.
Proof.
  intros h cur F s m p HF He Hp Hs Hx. destruct (removelast_strict _ _ HF Hp) as (r & Hr & ->).
  unfold rm_folder in He. destruct (is_dir cur F) eqn:Ed.
  2:{ simpl in He. inversion He; subst. apply not_dir_below; auto. }
  unfold is_dir in Ed. destruct (lookup cur F) as [[c|cs]|] eqn:El; try discriminate.
  assert (Hshutil : exec (rmtree_shutil cur F) cur = Some m -> file_at m (F ++ r) = None).
  { unfold rmtree_shutil. rewrite El. cbn [rm_entries]. intro H. apply exec_app_inv in H as (m0 & _ & H).
    cbn [exec] in H. destruct (apply (Rmdir F) m0) as [m1|] eqn:Ea; [|discriminate]. inversion H; subst m1.
    destruct (apply_self _ _ _ Ea) as (v & Hf & Hv). simpl in Hf, Hv.
    destruct (lookup m0 F) as [[c|[|e cs']]|]; simpl in Hf; try discriminate.
    injection Hf as Hf. rewrite <- Hf in Hv. apply absent_below. exact Hv. }
  destruct (h_statics h) as [|s0 sl] eqn:Est; auto.
  rewrite (Hs ltac:(discriminate)) in He. rewrite <- Est in *.
  (* static-aware rmtree *)
  pose proof He as He'. unfold rmtree_static in He'. rewrite El in He'.
  set (g := filter (fun e => negb (excepted h (fst e))) (glob_all F (TDir cs))) in *.
  set (U := map (fun e => Unlink (fst e)) (filter (fun e => snd e) g)) in *.
  set (R := rmdirs (run_ops U cur) (map fst (filter (fun e => negb (snd e)) g))) in *.
  rewrite (file_at_exec _ _ _ (F ++ r) He').
  assert (Hnc : forall o, In o (U ++ R) -> creates o = false).
  { intros o Ho. apply in_app_or in Ho as [Ho|Ho].
    - apply in_map_iff in Ho as (e & <- & _). reflexivity.
    - apply rmdirs_shape in Ho as (d & -> & _). reflexivity. }
  destruct (file_at cur (F ++ r)) as [c0|] eqn:Ef.
  - apply fsem_unlinked; auto. apply in_or_app. left.
    unfold file_at in Ef. rewrite lookup_app, El in Ef.
    destruct (lookup (TDir cs) r) as [[c1|cs1]|] eqn:Elr; try discriminate.
    pose proof (glob_complete (TDir cs) F r _ Hr Elr) as Hg. simpl in Hg.
    apply in_map_iff. exists (F ++ r, true). split; auto.
    apply filter_In. split; auto. apply filter_In. split; auto. simpl. rewrite Hx. reflexivity.
  - apply fsem_nocreate_none. exact Hnc.
Qed.

Lemma del_phase_nocreate : forall l h cur o, In o (del_phase h cur l) -> creates o = false.
Proof.
  intros l h cur o H. apply del_phase_shape in H as (F & s & cur' & _ & Ho). eapply rm_folder_nocreate; eauto.
Qed.

Lemma del_phase_clears : forall l h cur m p,
  (forall F s, In (F, s) l -> F <> [] /\ (h_statics h <> [] -> s = true)) ->
  exec (del_phase h cur l) cur = Some m ->
  (exists F s, In (F, s) l /\ is_prefix F (removelast p) = true) ->
  excepted h p = false -> file_at m p = None.
Proof.
  induction l as [|[F0 s0] r IH]; intros h cur m p Hl He (F & s & Hin & Hp) Hx; [contradiction|].
  cbn [del_phase] in He. apply exec_app_inv in He as (m0 & He1 & He2).
  rewrite (run_ops_exec _ _ _ He1) in He2.
  destruct Hin as [Heq|Hin].
  - inversion Heq; subst F0 s0. destruct (Hl F s (or_introl eq_refl)) as [HF Hs].
    rewrite (file_at_exec _ _ _ p He2). rewrite (rm_folder_clears _ _ _ _ _ _ HF He1 Hp Hs Hx).
    apply fsem_nocreate_none. intros o Ho. eapply del_phase_nocreate; eauto.
  - eapply IH; eauto. intros F' s' H'. apply Hl. simpl. auto.
Qed.

Lemma del_list_fixed_ok : forall v c h F s,
  sound v -> In (F, s) (del_list v c h) -> F <> [] /\ (h_statics h <> [] -> s = true).
Proof.
  intros v c h F s Hv H. split.
  - apply del_list_folderish in H. destruct (folderish_shape _ _ _ H) as [z ->]. discriminate.
  - intros _. eapply del_list_fixed_flag; eauto.
Qed.

Lemma inside_del_list : forall v c h p,
  sound v ->
  inside c h p = true -> exists F s, In (F, s) (del_list v c h) /\ is_prefix F (removelast p) = true.
Proof.
  intros v c h p (_ & Hm & Hl) H. unfold inside, in_folders in H. unfold del_list. rewrite Hl, Hm.
  apply orb_true_iff in H as [H|H]; [apply orb_true_iff in H as [H|H]|].
  - exists (ns_dir c), true. split; auto. apply in_or_app. right. simpl. auto.
  - apply existsb_exists in H as (o & Ho & Hp). destruct (String.eqb o (c_ns c)) eqn:E.
    + apply String.eqb_eq in E. subst o. exists (ns_dir c), true. split; auto. apply in_or_app. right. simpl. auto.
    + exists (ov_dir o), true. split; auto. apply in_or_app. left. apply in_map_iff. exists o. split; auto.
      apply filter_In. split; auto. rewrite E. reflexivity.
  - exists mc_dir, true. split; auto. apply in_or_app. right. simpl. auto.
Qed.

(* the deletion phase never touches #static content *)
Lemma del_phase_fixed_static : forall v c h cur o,
  sound v -> In o (del_phase h cur (del_list v c h)) -> excepted h (op_path o) = false.
Proof.
  intros v c h cur o Hv H. apply del_phase_shape in H as (F & s & cur' & Hin & Ho).
  apply rm_folder_shape in Ho as (_ & _ & R). apply del_list_fixed_flag in Hin; auto. subst s.
  destruct (h_statics h) eqn:E; [apply excepted_nil; exact E|]. apply R; auto; discriminate.
Qed.

(* ------------------------------------------------------------------ the write phase, files only *)
Definition fops (ops : list op) : list op := filter is_fop ops.

Lemma fops_app : forall a b, fops (a ++ b) = fops a ++ fops b.
Proof. intros. unfold fops. apply filter_app. Qed.

Lemma mkdir_p_from_fops : forall cur todo done, fops (mkdir_p_from cur done todo) = [].
Proof.
  induction todo as [|x r IH]; intros done; simpl; auto. rewrite fops_app, IH.
  destruct (is_dir cur (done ++ [x])); reflexivity.
Qed.

Lemma mkdir_p_fops : forall cur q, fops (mkdir_p cur q) = [].
Proof. intros. apply mkdir_p_from_fops. Qed.

Lemma write_file_fops : forall cur p ct, fops (write_file cur p ct) = [Create p; Write p ct].
Proof. intros. unfold write_file. rewrite fops_app, mkdir_p_fops. reflexivity. Qed.

Lemma write_files_fops : forall l cur cur', fops (write_files cur l) = fops (write_files cur' l).
Proof.
  induction l as [|[p s] r IH]; intros cur cur'; simpl; auto.
  rewrite !fops_app, !write_file_fops. f_equal. apply IH.
Qed.

Lemma filter_flat_map : forall {A B} (f : B -> bool) (g : A -> list B) l,
  filter f (flat_map g l) = flat_map (fun x => filter f (g x)) l.
Proof. intros A B f g l. induction l as [|x r IH]; simpl; auto. rewrite filter_app, IH. reflexivity. Qed.

Lemma flat_map_ext_in : forall {A B} (f g : A -> list B) l,
  (forall x, In x l -> f x = g x) -> flat_map f l = flat_map g l.
Proof.
  intros A B f g l H. induction l as [|x r IH]; simpl; auto. rewrite H, IH; simpl; auto.
  intros; apply H; simpl; auto.
Qed.

Lemma copy_ops_fops : forall t cur cur' dst, fops (copy_ops cur dst t) = fops (copy_ops cur' dst t).
Proof.
  induction t as [c|cs IH] using tree_ind_in; intros cur cur' dst; simpl; auto.
  rewrite !fops_app. f_equal.
  - destruct (is_dir cur dst), (is_dir cur' dst); reflexivity.
  - unfold fops. rewrite !filter_flat_map. apply flat_map_ext_in. intros e He. apply (IH e He).
Qed.

Lemma copy_items_fops : forall items cur cur', fops (copy_items cur items) = fops (copy_items cur' items).
Proof.
  induction items as [|[x t] r IH]; intros cur cur'; simpl; auto.
  rewrite !fops_app. f_equal; [apply copy_ops_fops | apply IH].
Qed.

Lemma make_cert_fops : forall a c cur, fops (make_cert a c cur) = fops (cert_tail a c).
Proof. intros. unfold make_cert. rewrite fops_app, mkdir_p_fops. reflexivity. Qed.

Definition pre_ops (a : bool) (c : cfg) (h : hdr) (cur : fs) : list op :=
  let ops1 := make_cert a c cur in
  let cur1 := run_ops ops1 cur in
  let ops2 := copy_phase h cur1 in
  let cur2 := run_ops ops2 cur1 in
  ops1 ++ ops2 ++ mkdir_p cur2 (tags_dir c).

Lemma pre_ops_fops : forall a c h cur cur', fops (pre_ops a c h cur) = fops (pre_ops a c h cur').
Proof.
  intros. unfold pre_ops. rewrite !fops_app, !mkdir_p_fops, !make_cert_fops.
  f_equal. f_equal. unfold copy_phase. destruct (h_copy h); auto. apply copy_items_fops.
Qed.

Definition post_ops (v : variant) (c : cfg) (h : hdr) (o : output) (cur3 : fs) (lv tv : list string) : list op :=
  let ops4 := tag_ops v c o lv tv cur3 in
  ops4 ++ write_files (run_ops ops4 cur3) (out_files c h o) ++ meta_ops h o.

(* the tag values the write phase works with: handed over (read before the first mutation), or read here *)
Definition tags_at (c : cfg) (tags : option (list string * list string)) (cur3 : fs)
  : option (list string) * option (list string) :=
  match tags with
  | Some (lv, tv) => (Some lv, Some tv)
  | None => (read_tag c cur3 (load_path c), read_tag c cur3 (tick_path c))
  end.

Lemma write_phase_unfold : forall v c h o tags cur,
  write_phase v c h o tags cur =
  let pre := pre_ops (v_cert_atomic v) c h cur in
  let cur3 := run_ops pre cur in
  match tags_at c tags cur3 with
  | (Some lv, Some tv) => (pre ++ post_ops v c h o cur3 lv tv, RDone)
  | _ => (pre, RTagErr)
  end.
Proof.
  intros. unfold write_phase, pre_ops, post_ops, tags_at. cbv zeta. rewrite !run_ops_app.
  destruct (match tags with
            | Some (lv, tv) => (Some lv, Some tv)
            | None => (read_tag c _ (load_path c), read_tag c _ (tick_path c))
            end) as [[lv|] [tv|]]; try reflexivity.
  rewrite <- !app_assoc. reflexivity.
Qed.

Lemma tag_ops_agree : forall v c o lv tv cur cur',
  file_at cur (tick_path c) = file_at cur' (tick_path c) -> tag_ops v c o lv tv cur = tag_ops v c o lv tv cur'.
Proof. intros v c o lv tv cur cur' H. unfold tag_ops, tick_refresh_ops. rewrite H. reflexivity. Qed.

Lemma post_ops_fops : forall v c h o cur cur' lv tv,
  file_at cur (tick_path c) = file_at cur' (tick_path c) ->
  fops (post_ops v c h o cur lv tv) = fops (post_ops v c h o cur' lv tv).
Proof.
  intros v c h o cur cur' lv tv Ht. unfold post_ops. rewrite (tag_ops_agree v c o lv tv cur cur' Ht).
  rewrite !fops_app. f_equal. f_equal. apply write_files_fops.
Qed.

Lemma read_tag_file_at : forall c cur p,
  read_tag c cur p = match file_at cur p with
                     | Some (Tag vs) => Some (filter (fun v => negb (own_entry c v)) vs)
                     | Some (Raw _) => None
                     | None => Some []
                     end.
Proof.
  intros. unfold read_tag, file_at. destruct (lookup cur p) as [[[b|vs]|cs]|]; reflexivity.
Qed.

Lemma fsem_fops_eq : forall p a b i, fops a = fops b -> fsem p a i = fsem p b i.
Proof. intros p a b i H. rewrite (fsem_fops p a), (fsem_fops p b). unfold fops in H. rewrite H. reflexivity. Qed.

(* ------------------------------------------------------------------ a build from a startable state *)
Definition dops_of (v : variant) (c : cfg) (h : hdr) (s : fs) : list op :=
  if is_dir s (ns_dir c) then del_phase h s (del_list v c h) else [].

(* what build() settles before the first mutation: None = an unparsable tag file (RTagErr, [v_tags_early]);
   Some tags = the argument of the write phase *)
Definition tags_of (v : variant) (c : cfg) (h : hdr) (s : fs) : option (option (list string * list string)) :=
  if v_tags_early v then
    match early_tag c h (is_dir s (ns_dir c)) s (load_path c), early_tag c h (is_dir s (ns_dir c)) s (tick_path c) with
    | Some lv, Some tv => Some (Some (lv, tv))
    | _, _ => None
    end
  else Some None.

Lemma run_startable : forall v c h o s,
  sound v -> startable c h s ->
  run_core v c h (Success o) None s =
    match tags_of v c h s with
    | Some tg => (dops_of v c h s ++ fst (write_phase v c h o tg (run_ops (dops_of v c h s) s)),
                  snd (write_phase v c h o tg (run_ops (dops_of v c h s) s)))
    | None => ([], RTagErr)
    end.
Proof.
  intros v c h o s (Hce & _ & _) [[Hd Hf]|[Hd _]]; unfold run_core, dops_of, tags_of; rewrite Hd, ?Hf, ?Hce;
    cbn [run_ops app]; unfold build; destruct (v_tags_early v).
  - destruct (early_tag c h true s (load_path c)) as [lv|]; [destruct (early_tag c h true s (tick_path c)) as [tv|]|];
      reflexivity.
  - unfold build_with. cbv zeta.
    destruct (write_phase v c h o None (run_ops (del_phase h s (del_list v c h)) s)) as [w r]. reflexivity.
  - destruct (early_tag c h false s (load_path c)) as [lv|]; [destruct (early_tag c h false s (tick_path c)) as [tv|]|];
      reflexivity.
  - unfold build_with. cbn [run_ops app]. destruct (write_phase v c h o None s) as [w r]. reflexivity.
Qed.

Lemma after_deletion : forall v c h s m,
  sound v -> startable c h s -> exec (dops_of v c h s) s = Some m ->
  (forall p, inside c h p = true -> excepted h p = false -> file_at m p = None) /\
  (forall p, excepted h p = true -> file_at m p = file_at s p).
Proof.
  intros v c h s m Hv Hs He. unfold dops_of in He. destruct Hs as [[Hd Hf]|[Hd Hc]]; rewrite Hd in He.
  - split.
    + intros p Hi Hx. eapply del_phase_clears; eauto.
      * intros F s0 HF. eapply del_list_fixed_ok; eauto.
      * apply inside_del_list; auto.
    + intros p Hx. rewrite !file_at_node. erewrite exec_frame; eauto.
      intros o Ho Hp. apply del_phase_fixed_static in Ho; auto. congruence.
  - simpl in He. inversion He; subst m. split; auto.
Qed.

Lemma load_inside : forall c h, inside c h (load_path c) = true.
Proof.
  intros. unfold inside, load_path. rewrite removelast_last. apply tags_in_folders.
Qed.
Lemma tick_inside : forall c h, inside c h (tick_path c) = true.
Proof.
  intros. unfold inside, tick_path. rewrite removelast_last. apply tags_in_folders.
Qed.

Lemma read_tag_content : forall c cur p, read_tag c cur p = read_content c (file_at cur p).
Proof. intros. unfold read_tag, read_content, file_at. destruct (lookup cur p) as [[[b|vs]|cs]|]; reflexivity. Qed.

(* read before the first mutation, from a startable tree: the tag values are those of the copied file, else of the
   file a #static shields, else none — in particular the same from two startable trees with the same #static content *)
Lemma early_tag_startable : forall c h s p,
  startable c h s -> inside c h p = true ->
  early_tag c h (is_dir s (ns_dir c)) s p =
  match copy_file h p with
  | Some ct => read_content c (Some ct)
  | None => if excepted h p then read_content c (file_at s p) else Some []
  end.
Proof.
  intros c h s p S Hi. unfold early_tag. destruct (copy_file h p); auto. rewrite read_tag_content.
  destruct S as [[Hd _]|[Hd Hc]]; rewrite Hd; cbn [andb].
  - destruct (excepted h p); reflexivity.
  - destruct (excepted h p) eqn:Ex; auto. rewrite (Hc p Hi Ex). reflexivity.
Qed.

Lemma tags_of_eq : forall v c h s1 s2,
  startable c h s1 -> startable c h s2 ->
  (forall p, excepted h p = true -> file_at s1 p = file_at s2 p) -> tags_of v c h s1 = tags_of v c h s2.
Proof.
  intros v c h s1 s2 S1 S2 Hst. unfold tags_of. destruct (v_tags_early v); auto.
  assert (E : forall p, inside c h p = true ->
              early_tag c h (is_dir s1 (ns_dir c)) s1 p = early_tag c h (is_dir s2 (ns_dir c)) s2 p).
  { intros p Hp. rewrite !early_tag_startable; auto. destruct (copy_file h p); auto.
    destruct (excepted h p) eqn:Ex; auto. rewrite (Hst p Ex). reflexivity. }
  rewrite (E _ (load_inside c h)), (E _ (tick_inside c h)). reflexivity.
Qed.

(* Two builds of the same project from trees that agree on every file inside the deleted folders perform the same
   file operations. *)
Lemma write_phase_congr : forall v c h o tg m1 m2 w1 w2 s1' s2',
  (forall p, inside c h p = true -> file_at m1 p = file_at m2 p) ->
  write_phase v c h o tg m1 = (w1, RDone) -> exec w1 m1 = Some s1' ->
  write_phase v c h o tg m2 = (w2, RDone) -> exec w2 m2 = Some s2' ->
  fops w1 = fops w2.
Proof.
  intros v c h o tg m1 m2 w1 w2 s1' s2' Hag W1 E1 W2 E2.
  rewrite write_phase_unfold in W1, W2. cbv zeta in W1, W2.
  set (pre1 := pre_ops (v_cert_atomic v) c h m1) in *. set (pre2 := pre_ops (v_cert_atomic v) c h m2) in *.
  assert (Hpre : fops pre1 = fops pre2) by apply pre_ops_fops.
  (* the states in which the tag files are read *)
  assert (X1 : exists k1, exec pre1 m1 = Some k1).
  { destruct (tags_at c tg (run_ops pre1 m1)) as [[lv|] [tv|]]; inversion W1; subst w1.
    apply exec_app_inv in E1 as (k & Hk & _). eauto. }
  assert (X2 : exists k2, exec pre2 m2 = Some k2).
  { destruct (tags_at c tg (run_ops pre2 m2)) as [[lv|] [tv|]]; inversion W2; subst w2.
    apply exec_app_inv in E2 as (k & Hk & _). eauto. }
  destruct X1 as [k1 K1]. destruct X2 as [k2 K2].
  rewrite (run_ops_exec _ _ _ K1) in W1. rewrite (run_ops_exec _ _ _ K2) in W2.
  assert (Hf : forall p, inside c h p = true -> file_at k1 p = file_at k2 p).
  { intros p Hp. rewrite (file_at_exec _ _ _ p K1), (file_at_exec _ _ _ p K2), (Hag p Hp).
    apply fsem_fops_eq. exact Hpre. }
  assert (Ht : tags_at c tg k1 = tags_at c tg k2).
  { unfold tags_at. destruct tg as [[lv tv]|]; auto.
    rewrite !read_tag_content, (Hf _ (load_inside c h)), (Hf _ (tick_inside c h)). reflexivity. }
  rewrite Ht in W1. destruct (tags_at c tg k2) as [[lv|] [tv|]]; try discriminate.
  inversion W1; inversion W2; subst. rewrite !fops_app. f_equal; auto. apply post_ops_fops. apply Hf. apply tick_inside.
Qed.

(* C11, first sentence.  Building the same project from two startable trees with the same #static content gives
   the same file at every path inside the deleted folders and at every path the build writes.  (With the second
   tree empty: "exactly what compiling into an empty directory produces".) *)
Theorem fresh : forall v c h o s1 s2 pl1 pl2 s1' s2',
  sound v ->
  startable c h s1 -> startable c h s2 ->
  (forall p, excepted h p = true -> file_at s1 p = file_at s2 p) ->
  run_core v c h (Success o) None s1 = (pl1, RDone) -> exec pl1 s1 = Some s1' ->
  run_core v c h (Success o) None s2 = (pl2, RDone) -> exec pl2 s2 = Some s2' ->
  forall p, inside c h p = true \/ In p (map op_path (filter creates pl1)) ->
  file_at s1' p = file_at s2' p.
Proof.
  intros v c h o s1 s2 pl1 pl2 s1' s2' Hv S1 S2 Hst R1 E1 R2 E2 p Hp.
  rewrite (run_startable _ _ _ _ _ Hv S1) in R1. rewrite (run_startable _ _ _ _ _ Hv S2) in R2.
  rewrite (tags_of_eq v c h s1 s2 S1 S2 Hst) in R1.
  destruct (tags_of v c h s2) as [tg|]; [|discriminate].
  inversion R1 as [[P1 Q1]]. inversion R2 as [[P2 Q2]]. clear R1 R2.
  set (d1 := dops_of v c h s1) in *. set (d2 := dops_of v c h s2) in *.
  rewrite <- P1 in E1. rewrite <- P2 in E2.
  apply exec_app_inv in E1 as (m1 & D1 & E1). apply exec_app_inv in E2 as (m2 & D2 & E2).
  rewrite (run_ops_exec _ _ _ D1) in *. rewrite (run_ops_exec _ _ _ D2) in *.
  destruct (after_deletion _ _ _ _ _ Hv S1 D1) as [A1 B1]. destruct (after_deletion _ _ _ _ _ Hv S2 D2) as [A2 B2].
  assert (Hag : forall q, inside c h q = true -> file_at m1 q = file_at m2 q).
  { intros q Hq. destruct (excepted h q) eqn:Ex.
    - rewrite B1, B2; auto.
    - rewrite A1, A2; auto. }
  destruct (write_phase v c h o tg m1) as [w1 r1] eqn:W1. destruct (write_phase v c h o tg m2) as [w2 r2] eqn:W2.
  simpl in *. subst r1 r2.
  pose proof (write_phase_congr _ _ _ _ _ _ _ _ _ _ _ Hag W1 E1 W2 E2) as Hw.
  rewrite (file_at_exec _ _ _ p E1), (file_at_exec _ _ _ p E2).
  rewrite (fsem_fops_eq p w1 w2 _ Hw).
  destruct Hp as [Hp|Hp].
  - rewrite (Hag p Hp). reflexivity.
  - apply fsem_written_indep.
    apply in_map_iff in Hp as (x & Hx & Hin). apply filter_In in Hin as [Hin Hc].
    rewrite <- P1 in Hin. apply in_app_or in Hin as [Hin|Hin].
    + exfalso. unfold d1, dops_of in Hin. destruct (is_dir s1 (ns_dir c)); [|contradiction].
      apply del_phase_nocreate in Hin. congruence.
    + assert (Hfx : In x (fops w1)).
      { unfold fops. apply filter_In. split; auto. destruct x; simpl in *; auto; discriminate. }
      rewrite Hw in Hfx. unfold fops in Hfx. apply filter_In in Hfx as [Hfx Hfo]. eauto.
Qed.

(* ------------------------------------------------------------------ the write phase removes no directory *)
(* [additive]: creates a directory or writes a file;  [nodelete]: does not remove a directory (the only unlink of the
   write phase is the one of jmc.txt.tmp, second half of the rename) *)
Definition additive (o : op) : bool := is_mkdir o || creates o.
Definition nodelete (o : op) : bool := match o with Rmdir _ => false | _ => true end.

Lemma additive_nodelete : forall o, additive o = true -> nodelete o = true.
Proof. intros [p|p|p c|p|p|p c] H; try reflexivity. discriminate. Qed.

Lemma copy_ops_additive : forall t cur dst o, In o (copy_ops cur dst t) -> additive o = true.
Proof.
  induction t as [c|cs IH] using tree_ind_in; intros cur dst o H; simpl in H.
  - destruct H as [<-|[<-|[]]]; reflexivity.
  - apply in_app_or in H as [H|H].
    + destruct (is_dir cur dst); [contradiction|]. destruct H as [<-|[]]. reflexivity.
    + apply in_flat_map in H as (e & He & Ho). eapply IH; eauto.
Qed.

Lemma copy_items_additive : forall items cur o, In o (copy_items cur items) -> additive o = true.
Proof.
  induction items as [|[x t] r IH]; intros cur o H; simpl in H; [contradiction|].
  apply in_app_or in H as [H|H]; [eapply copy_ops_additive; eauto | eapply IH; eauto].
Qed.

Lemma write_file_additive : forall cur p ct o, In o (write_file cur p ct) -> additive o = true.
Proof.
  intros cur p ct o H. unfold write_file in H. apply in_app_or in H as [H|H].
  - apply mkdir_p_shape in H as (H1 & _). unfold additive. rewrite H1. reflexivity.
  - destruct H as [<-|[<-|[]]]; reflexivity.
Qed.

Lemma write_files_additive : forall l cur o, In o (write_files cur l) -> additive o = true.
Proof.
  intros l cur o H. apply write_files_shape in H as (p & s & cur' & _ & Ho). eapply write_file_additive; eauto.
Qed.

Lemma mkdir_p_additive : forall cur q o, In o (mkdir_p cur q) -> additive o = true.
Proof. intros cur q o H. apply mkdir_p_shape in H as (H1 & _). unfold additive. rewrite H1. reflexivity. Qed.

Lemma make_cert_nodelete : forall a c cur o, In o (make_cert a c cur) -> nodelete o = true.
Proof.
  intros a c cur o H. unfold make_cert in H. apply in_app_or in H as [H|H].
  - apply additive_nodelete. eapply mkdir_p_additive; eauto.
  - destruct a; simpl in H; repeat (destruct H as [<-|H]; [reflexivity|]); contradiction.
Qed.

(* after make_cert: #copy and the tag folder *)
Definition mid_ops (a : bool) (c : cfg) (h : hdr) (cur : fs) : list op :=
  let cur1 := run_ops (make_cert a c cur) cur in
  let ops2 := copy_phase h cur1 in
  ops2 ++ mkdir_p (run_ops ops2 cur1) (tags_dir c).

Lemma pre_ops_split : forall a c h cur, pre_ops a c h cur = make_cert a c cur ++ mid_ops a c h cur.
Proof. intros. reflexivity. Qed.

Lemma mid_ops_additive : forall a c h cur o, In o (mid_ops a c h cur) -> additive o = true.
Proof.
  intros a c h cur o H. unfold mid_ops in H. apply in_app_or in H as [H|H].
  - unfold copy_phase in H. destruct (h_copy h); [|contradiction]. eapply copy_items_additive; eauto.
  - eapply mkdir_p_additive; eauto.
Qed.

Lemma tag_ops_in : forall v c o lv tv cur x, In x (tag_ops v c o lv tv cur) ->
  exists p, (p = load_path c \/ p = tick_path c) /\ (x = Create p \/ exists ct, x = Write p ct).
Proof.
  intros v c o lv tv cur x H. unfold tag_ops in H. apply in_app_or in H as [H|H].
  - exists (load_path c). split; auto. destruct H as [<-|[<-|[]]]; eauto.
  - exists (tick_path c). split; auto. destruct (o_tick o).
    + destruct H as [<-|[<-|[]]]; eauto.
    + destruct (v_tick_refresh v); [|contradiction]. unfold tick_refresh_ops in H.
      destruct (file_at cur (tick_path c)) as [[b|vs]|]; try contradiction.
      destruct (strs_eqb vs tv); [contradiction|]. destruct H as [<-|[<-|[]]]; eauto.
Qed.

Lemma post_ops_additive : forall v c h o cur lv tv x, In x (post_ops v c h o cur lv tv) -> additive x = true.
Proof.
  intros v c h o cur lv tv x H. unfold post_ops in H. apply in_app_or in H as [H|H].
  - apply tag_ops_in in H as (p & _ & [->|[ct ->]]); reflexivity.
  - apply in_app_or in H as [H|H]; [eapply write_files_additive; eauto|].
    unfold meta_ops in H. destruct (h_nometa h); [contradiction|]. destruct H as [<-|[<-|[]]]; reflexivity.
Qed.

(* the write phase = make_cert, then only additive mutations *)
Lemma write_phase_split : forall v c h o tg m,
  exists rest, fst (write_phase v c h o tg m) = make_cert (v_cert_atomic v) c m ++ rest /\
               forall x, In x rest -> additive x = true.
Proof.
  intros v c h o tg m. rewrite write_phase_unfold. cbv zeta. rewrite pre_ops_split.
  destruct (tags_at c tg _) as [[lv|] [tv|]]; cbn [fst].
  - rewrite <- app_assoc. eexists. split; [reflexivity|]. intros x Hx. apply in_app_or in Hx as [Hx|Hx].
    + eapply mid_ops_additive; eauto.
    + eapply post_ops_additive; eauto.
  - eexists. split; [reflexivity|]. intros x Hx. eapply mid_ops_additive; eauto.
  - eexists. split; [reflexivity|]. intros x Hx. eapply mid_ops_additive; eauto.
  - eexists. split; [reflexivity|]. intros x Hx. eapply mid_ops_additive; eauto.
Qed.

Lemma write_phase_nodelete : forall v c h o tg cur x, In x (fst (write_phase v c h o tg cur)) -> nodelete x = true.
Proof.
  intros v c h o tg cur x H. destruct (write_phase_split v c h o tg cur) as (rest & Hr & Hrest). rewrite Hr in H.
  apply in_app_or in H as [H|H]; [eapply make_cert_nodelete; eauto | apply additive_nodelete; auto].
Qed.

Lemma nodelete_keeps_dir : forall ops t t' p,
  (forall x, In x ops -> nodelete x = true) -> exec ops t = Some t' -> is_dir t p = true -> is_dir t' p = true.
Proof.
  induction ops as [|o r IH]; intros t t' p Hn He Hd; simpl in He; [inversion He; subst; auto|].
  destruct (apply o t) as [m|] eqn:Ea; [|discriminate].
  apply (IH m t' p); auto. { intros; apply Hn; simpl; auto. }
  destruct (path_eqb (op_path o) p) eqn:Ep.
  - apply path_eqb_eq in Ep. exfalso. specialize (Hn o (or_introl eq_refl)).
    destruct (apply_self _ _ _ Ea) as (v & Hf & _). rewrite Ep in Hf. unfold is_dir in Hd.
    destruct (lookup t p) as [[c|cs]|]; try discriminate.
    destruct o; simpl in *; discriminate.
  - apply path_eqb_neq in Ep. apply is_dir_node. apply is_dir_node in Hd. rewrite <- Hd.
    eapply apply_frame; eauto.
Qed.

Lemma additive_keeps_file : forall ops t t' p,
  (forall x, In x ops -> additive x = true) -> exec ops t = Some t' -> is_file t p = true -> is_file t' p = true.
Proof.
  induction ops as [|o r IH]; intros t t' p Hn He Hd; simpl in He; [inversion He; subst; auto|].
  destruct (apply o t) as [m|] eqn:Ea; [|discriminate].
  apply (IH m t' p); auto. { intros; apply Hn; simpl; auto. }
  destruct (path_eqb (op_path o) p) eqn:Ep.
  - apply path_eqb_eq in Ep. specialize (Hn o (or_introl eq_refl)).
    destruct (apply_self _ _ _ Ea) as (v & Hf & Hv). rewrite Ep in Hf, Hv. unfold is_file in *. rewrite Hv.
    destruct (lookup t p) as [[c|cs]|]; try discriminate.
    destruct o; simpl in *; try discriminate; inversion Hf; reflexivity.
  - apply path_eqb_neq in Ep. apply is_file_node. apply is_file_node in Hd as [c Hc]. exists c. rewrite <- Hc.
    eapply apply_frame; eauto.
Qed.

Lemma file_parent_dir : forall t p x, is_file t (p ++ [x]) = true -> is_dir t p = true.
Proof.
  intros t p x H. unfold is_file in H. rewrite lookup_app in H. unfold is_dir.
  destruct (lookup t p) as [[c|cs]|]; auto; simpl in H; discriminate.
Qed.

Lemma cert_tmp_neq : forall c, cert_path c <> cert_tmp c.
Proof. intros c H. unfold cert_path, cert_tmp in H. inversion H. Qed.

(* after make_cert (either way of writing it) the certificate is a file holding the complete text *)
Lemma make_cert_file : forall a c cur m,
  exec (make_cert a c cur) cur = Some m -> file_at m (cert_path c) = Some (Raw (c_cert c)).
Proof.
  intros a c cur m H. unfold make_cert in H. apply exec_app_inv in H as (m0 & _ & H).
  rewrite (file_at_exec _ _ _ _ H). pose proof (cert_tmp_neq c) as Hne.
  assert (E1 : path_eqb (cert_tmp c) (cert_path c) = false) by (apply path_eqb_neq; congruence).
  destruct a; unfold cert_tail, rename_ops, fsem; cbn [app fold_left]; unfold fstep; cbn [op_path];
    rewrite ?E1, ?path_eqb_refl; reflexivity.
Qed.

Lemma file_at_is_file : forall t p c, file_at t p = Some c -> is_file t p = true.
Proof. intros t p c H. unfold file_at in H. unfold is_file. destruct (lookup t p) as [[c0|cs]|]; congruence. Qed.

(* any executed write phase (complete, or stopped by an unparsable tag file) leaves a built tree *)
Lemma write_phase_built : forall v c h o tg m w r s',
  write_phase v c h o tg m = (w, r) -> exec w m = Some s' -> built c s'.
Proof.
  intros v c h o tg m w r s' W E.
  destruct (write_phase_split v c h o tg m) as (rest & Hr & Hrest). rewrite W in Hr. cbn [fst] in Hr. subst w.
  apply exec_app_inv in E as (k & K & E).
  assert (Hf : is_file s' (cert_path c) = true).
  { eapply additive_keeps_file; [exact Hrest|exact E|]. eapply file_at_is_file. eapply make_cert_file; eauto. }
  split; auto. apply (file_parent_dir s' (ns_dir c) "jmc.txt"). exact Hf.
Qed.

Lemma done_built : forall v c h o s pl r s',
  sound v -> startable c h s -> run_core v c h (Success o) None s = (pl, r) -> exec pl s = Some s' ->
  r <> RTagErr \/ v_tags_early v = false -> built c s'.
Proof.
  intros v c h o s pl r s' Hv S R E Hr. rewrite (run_startable _ _ _ _ _ Hv S) in R.
  destruct (tags_of v c h s) as [tg|] eqn:Et.
  - inversion R as [[P Q]]. subst pl.
    apply exec_app_inv in E as (m & D & E). rewrite (run_ops_exec _ _ _ D) in *.
    destruct (write_phase v c h o tg m) as [w r'] eqn:W. simpl in *. eapply write_phase_built; eauto.
  - exfalso. inversion R; subst. destruct Hr as [Hr|Hr]; [congruence|].
    unfold tags_of in Et. rewrite Hr in Et. discriminate.
Qed.

(* C11: compiling twice changes nothing *)
Theorem twice : forall v c h o s pl s' pl' s'',
  sound v ->
  startable c h s -> static_safe c h o = true ->
  run_core v c h (Success o) None s = (pl, RDone) -> exec pl s = Some s' ->
  run_core v c h (Success o) None s' = (pl', RDone) -> exec pl' s' = Some s'' ->
  forall p, inside c h p = true \/ In p (map op_path (filter creates pl')) ->
  file_at s'' p = file_at s' p.
Proof.
  intros v c h o s pl s' pl' s'' Hv S Hs R E R' E' p Hp.
  assert (B : built c s') by (eapply done_built; eauto; left; discriminate).
  eapply (fresh v c h o s' s pl' pl s'' s'); eauto.
  - left. exact B.
  - intros q Hq. rewrite !file_at_node. erewrite (statics_untouched v c h (Success o) None s pl s' q); eauto.
    + intros o0 Ho0. inversion Ho0; subst. exact Hs.
    + replace pl with (plan_core v c h (Success o) None s) by (unfold plan_core; rewrite R; reflexivity).
      apply crash_trace_full.
Qed.

(* ------------------------------------------------------------------ crash traces of concatenated plans *)
Lemma crash_trace_nil : forall ops, crash_trace [] ops -> ops = [].
Proof.
  intros ops H. inversion H as [k|k p c c' Hn]; subst.
  - destruct k; reflexivity.
  - destruct k; discriminate.
Qed.

Lemma crash_trace_app : forall a b ops,
  crash_trace (a ++ b) ops -> crash_trace a ops \/ exists ops2, ops = a ++ ops2 /\ crash_trace b ops2.
Proof.
  intros a b ops H. inversion H as [k|k p c c' Hn]; subst.
  - rewrite firstn_app. destruct (Nat.le_gt_cases k (length a)) as [Hk|Hk].
    + left. replace (k - length a) with 0 by lia. simpl. rewrite app_nil_r. constructor.
    + right. exists (firstn (k - length a) b). split; [|constructor].
      rewrite firstn_all2 by lia. reflexivity.
  - destruct (Nat.lt_ge_cases k (length a)) as [Hk|Hk].
    + left. rewrite nth_error_app1 in Hn by exact Hk. rewrite firstn_app.
      replace (k - length a) with 0 by lia. simpl. rewrite app_nil_r. econstructor; eauto.
    + right. rewrite nth_error_app2 in Hn by exact Hk. rewrite firstn_app, firstn_all2 by lia.
      exists (firstn (k - length a) b ++ [Write p c']). split; [rewrite app_assoc; reflexivity|].
      econstructor; eauto.
Qed.

Lemma crash_trace_nowrite : forall pl ops,
  (forall y, In y pl -> creates y = false) -> crash_trace pl ops -> exists j, ops = firstn j pl.
Proof.
  intros pl ops Hn H. inversion H as [k|k p c c' Hk]; subst; eauto.
  apply nth_error_In in Hk. apply Hn in Hk. discriminate.
Qed.

Lemma crash_trace_nodelete : forall pl ops x,
  (forall y, In y pl -> nodelete y = true) -> crash_trace pl ops -> In x ops -> nodelete x = true.
Proof.
  intros pl ops x Hn H Hx. inversion H as [k|k p c c' Hk]; subst.
  - apply Hn. eapply firstn_in; eauto.
  - apply in_app_or in Hx as [Hx|[<-|[]]]; [|reflexivity]. apply Hn. eapply firstn_in; eauto.
Qed.

Lemma cut_prefix : forall P ops, exists n, fst (cut P ops) = firstn n ops.
Proof.
  intros P ops. induction ops as [|o r [n IH]]; simpl.
  - exists 0. reflexivity.
  - destruct (is_del_of P o); [exists 0; reflexivity|]. destruct (cut P r) as [a b]. simpl in *.
    exists (S n). simpl. rewrite IH. reflexivity.
Qed.

Lemma del_phase_app : forall l1 l2 h cur,
  del_phase h cur (l1 ++ l2) = del_phase h cur l1 ++ del_phase h (run_ops (del_phase h cur l1) cur) l2.
Proof.
  induction l1 as [|[F s] r IH]; intros l2 h cur; simpl; auto.
  rewrite IH, <- app_assoc, run_ops_app. reflexivity.
Qed.

(* ------------------------------------------------------------------ the namespace folder goes last *)
Lemma rm_folder_last : forall h cur F,
  exists a z, rm_folder h cur F true = a ++ z /\ (forall o, In o a -> op_path o <> F) /\ (z = [] \/ z = [Rmdir F]).
Proof.
  intros h cur F. unfold rm_folder. destruct (is_dir cur F) eqn:Ed.
  2:{ exists [], []. simpl. repeat split; auto; try (intros o []). }
  assert (Hsh : exists a z, rmtree_shutil cur F = a ++ z /\ (forall o, In o a -> op_path o <> F) /\ (z = [] \/ z = [Rmdir F])).
  { unfold rmtree_shutil. unfold is_dir in Ed. destruct (lookup cur F) as [[c|cs]|]; try discriminate.
    cbn [rm_entries]. eexists _, [Rmdir F]. split; [reflexivity|]. split; auto.
    intros o Ho Heq. apply in_flat_map in Ho as (e & He & Ho). apply rm_entries_paths in Ho.
    apply is_prefix_length in Ho. rewrite Heq, app_length in Ho. simpl in Ho. lia. }
  destruct (h_statics h); auto.
  exists (rmtree_static h cur F), []. rewrite app_nil_r. repeat split; auto.
  intros o Ho Heq. unfold rmtree_static in Ho. destruct (lookup cur F) as [sub|]; [|contradiction].
  assert (Hg : forall e, In e (filter (fun e => negb (excepted h (fst e))) (glob_all F sub)) -> fst e <> F).
  { intros e He HeF. apply filter_In in He as [He _]. apply glob_all_strict in He. rewrite HeF in He. lia. }
  apply in_app_or in Ho as [Ho|Ho].
  - apply in_map_iff in Ho as (e & <- & He). apply filter_In in He as [He _]. apply (Hg e He). exact Heq.
  - apply rmdirs_shape in Ho as (d & -> & Hd). apply in_map_iff in Hd as (e & <- & He).
    apply filter_In in He as [He _]. apply (Hg e He). exact Heq.
Qed.

Lemma under_other_folder : forall (z ns : string) q, z <> ns -> is_prefix ["."; "data"; z] q = true -> q <> ["."; "data"; ns].
Proof.
  intros z ns q Hz Hp Hq. subst q. simpl in Hp. rewrite andb_true_r in Hp.
  apply String.eqb_eq in Hp. contradiction.
Qed.

Lemma dops_structure : forall v c h s,
  sound v -> c_ns c <> "minecraft" ->
  exists a z, del_phase h s (del_list v c h) = a ++ z /\
              (forall o, In o a -> op_path o <> ns_dir c) /\ (z = [] \/ z = [Rmdir (ns_dir c)]).
Proof.
  intros v c h s (_ & Hms & Hnl) Hmc. unfold del_list. rewrite Hnl, Hms.
  set (ov := map (fun o => (ov_dir o, true)) (filter (fun o => negb (String.eqb o (c_ns c))) (h_overrides h))).
  replace (ov ++ [(mc_dir, true); (ns_dir c, true)]) with ((ov ++ [(mc_dir, true)]) ++ [(ns_dir c, true)])
    by (rewrite <- app_assoc; reflexivity).
  rewrite del_phase_app. set (d1 := del_phase h s (ov ++ [(mc_dir, true)])).
  cbn [del_phase]. rewrite app_nil_r.
  destruct (rm_folder_last h (run_ops d1 s) (ns_dir c)) as (a & z & Hr & Ha & Hz).
  exists (d1 ++ a), z. rewrite Hr, app_assoc. split; auto. split; auto.
  intros o Ho. apply in_app_or in Ho as [Ho|Ho]; auto.
  unfold d1 in Ho. apply del_phase_shape in Ho as (F & s0 & cur' & HF & Ho).
  apply rm_folder_shape in Ho as (Hp & _). apply in_app_or in HF as [HF|[HF|[]]].
  - unfold ov in HF. apply in_map_iff in HF as (x & Hx & Hin). inversion Hx; subst F s0.
    apply filter_In in Hin as [_ Hne]. apply negb_true_iff, String.eqb_neq in Hne.
    eapply under_other_folder; eauto.
  - inversion HF; subst F s0. apply (under_other_folder "minecraft" (c_ns c)); auto.
Qed.

Lemma firstn_snoc : forall {A} j (a : list A) x,
  (exists j', firstn j (a ++ [x]) = firstn j' a) \/ firstn j (a ++ [x]) = a ++ [x].
Proof.
  intros A j a x. destruct (Nat.le_gt_cases j (length a)).
  - left. exists j. rewrite firstn_app. replace (j - length a) with 0 by lia. simpl. apply app_nil_r.
  - right. apply firstn_all2. rewrite app_length. simpl. lia.
Qed.

(* while folders are being deleted the namespace folder is still there — unless the deletion is complete *)
Lemma del_region : forall v c h s j k,
  sound v -> c_ns c <> "minecraft" -> is_dir s (ns_dir c) = true ->
  exec (firstn j (del_phase h s (del_list v c h))) s = Some k ->
  is_dir k (ns_dir c) = true \/ firstn j (del_phase h s (del_list v c h)) = del_phase h s (del_list v c h).
Proof.
  intros v c h s j k Hv Hmc Hd He. destruct (dops_structure v c h s Hv Hmc) as (a & z & Hs & Ha & Hz).
  rewrite Hs in *.
  assert (Hkeep : forall j', exec (firstn j' a) s = Some k -> is_dir k (ns_dir c) = true).
  { intros j' He'. apply is_dir_node. apply is_dir_node in Hd. rewrite <- Hd.
    apply (exec_frame (firstn j' a) s k (ns_dir c)); [|exact He'].
    intros o Ho. apply Ha. eapply firstn_in; eauto. }
  destruct Hz as [->| ->].
  - rewrite app_nil_r in *. left. eapply Hkeep; eauto.
  - destruct (firstn_snoc j a (Rmdir (ns_dir c))) as [[j' Hj]|Hj].
    + left. rewrite Hj in He. eapply Hkeep; eauto.
    + right. exact Hj.
Qed.

(* ------------------------------------------------------------------ the write phase starts by creating the namespace folder *)
Lemma mkdir_p_ns : forall c m,
  is_dir m (ns_dir c) = false ->
  exists pre0, mkdir_p m (ns_dir c) = pre0 ++ [Mkdir (ns_dir c)] /\
               forall o, In o pre0 -> is_mkdir o = true /\ op_path o <> ns_dir c.
Proof.
  intros c m Hd. unfold mkdir_p, ns_dir. cbn [mkdir_p_from app]. fold (ns_dir c). rewrite Hd.
  exists ((if is_dir m ["."] then [] else [Mkdir ["."]]) ++ (if is_dir m ["."; "data"] then [] else [Mkdir ["."; "data"]])).
  split.
  - rewrite app_nil_r, <- app_assoc. reflexivity.
  - intros o Ho. apply in_app_or in Ho as [Ho|Ho].
    + destruct (is_dir m ["."]); [contradiction|]. destruct Ho as [<-|[]]. split; [reflexivity|discriminate].
    + destruct (is_dir m ["."; "data"]); [contradiction|]. destruct Ho as [<-|[]]. split; [reflexivity|discriminate].
Qed.

Lemma mkdirs_keep_clean : forall c h ops m k,
  (forall o, In o ops -> is_mkdir o = true /\ op_path o <> ns_dir c) ->
  exec ops m = Some k -> clean c h m -> clean c h k.
Proof.
  intros c h ops m k Ho He [Hd Hc]. split.
  - destruct (is_dir k (ns_dir c)) eqn:E; auto. apply is_dir_node in E.
    rewrite (exec_frame ops m k (ns_dir c)) in E; auto.
    + apply is_dir_node in E. congruence.
    + intros o Hin. apply (Ho o Hin).
  - intros p Hi Hx. rewrite (file_at_exec _ _ _ p He), fsem_fops.
    replace (filter is_fop ops) with (@nil op).
    + simpl. unfold fsem. simpl. auto.
    + symmetry. clear He. induction ops as [|o r IH]; auto. simpl.
      destruct (Ho o (or_introl eq_refl)) as [Hm _]. destruct o; try discriminate. simpl.
      apply IH. intros; apply Ho; simpl; auto.
Qed.

Lemma write_region : forall v c h o tg m ops k,
  ready c h m -> crash_trace (fst (write_phase v c h o tg m)) ops -> exec ops m = Some k -> ready c h k.
Proof.
  intros v c h o tg m ops k [Hd|Hc] Hct He.
  - left. eapply nodelete_keeps_dir; eauto. intros x Hx.
    eapply crash_trace_nodelete; eauto. intros y Hy. eapply write_phase_nodelete; eauto.
  - destruct Hc as [Hd Hc0]. pose proof (conj Hd Hc0 : clean c h m) as Hc.
    assert (Hsplit : exists tail, fst (write_phase v c h o tg m) = mkdir_p m (ns_dir c) ++ tail /\
                                  forall x, In x tail -> nodelete x = true).
    { destruct (write_phase_split v c h o tg m) as (rest & Hr & Hrest). unfold make_cert in Hr.
      rewrite <- app_assoc in Hr. eexists. split; [exact Hr|]. intros x Hx.
      apply (write_phase_nodelete v c h o tg m). rewrite Hr. apply in_or_app. auto. }
    destruct Hsplit as (tail & Hw & Htail). rewrite Hw in Hct.
    destruct (mkdir_p_ns c m Hd) as (pre0 & Hmk & Hpre0). rewrite Hmk, <- app_assoc in Hct.
    apply crash_trace_app in Hct as [Hct|(ops2 & -> & Hct)].
    + (* only ./ and ./data created so far *)
      right. apply crash_trace_nowrite in Hct as [j ->].
      * apply (mkdirs_keep_clean c h (firstn j pre0) m k); auto.
        intros x Hx. apply Hpre0. eapply firstn_in; eauto.
      * intros y Hy. destruct (Hpre0 y Hy) as [Hm _]. destruct y; try discriminate; reflexivity.
    + apply exec_app_inv in He as (k0 & K0 & He).
      assert (C0 : clean c h k0) by (apply (mkdirs_keep_clean c h pre0 m k0); auto).
      change ([Mkdir (ns_dir c)] ++ tail) with (Mkdir (ns_dir c) :: tail) in Hct.
      inversion Hct as [j|j p cc cc' Hn]; subst.
      * destruct j as [|j]; [cbn [firstn exec] in He; inversion He; subst; right; exact C0|].
        left. cbn [firstn exec] in He. destruct (apply (Mkdir (ns_dir c)) k0) as [k1|] eqn:Ea; [|discriminate].
        eapply nodelete_keeps_dir; [|exact He|].
        -- intros x Hx. apply Htail. eapply firstn_in; eauto.
        -- destruct (apply_self _ _ _ Ea) as (v0 & Hf & Hv). cbn [op_fun op_path] in Hf, Hv.
           unfold is_dir. rewrite Hv. destruct (lookup k0 (ns_dir c)); cbn [f_mkdir] in Hf; inversion Hf. reflexivity.
      * destruct j as [|j]; [simpl in Hn; discriminate|].
        left. cbn [firstn app exec] in He. destruct (apply (Mkdir (ns_dir c)) k0) as [k1|] eqn:Ea; [|discriminate].
        eapply nodelete_keeps_dir; [|exact He|].
        -- intros x Hx. apply in_app_or in Hx as [Hx|[<-|[]]]; [|reflexivity]. apply Htail. eapply firstn_in; eauto.
        -- destruct (apply_self _ _ _ Ea) as (v0 & Hf & Hv). cbn [op_fun op_path] in Hf, Hv.
           unfold is_dir. rewrite Hv. destruct (lookup k0 (ns_dir c)); cbn [f_mkdir] in Hf; inversion Hf. reflexivity.
Qed.

(* ------------------------------------------------------------------ every crash state is ready *)
Lemma deletion_crash : forall v c h s j k,
  sound v -> c_ns c <> "minecraft" -> built c s ->
  exec (firstn j (del_phase h s (del_list v c h))) s = Some k -> ready c h k.
Proof.
  intros v c h s j k Hv Hmc B He.
  destruct (del_region v c h s j k Hv Hmc (proj1 B) He) as [Hd|Hfull]; [left; exact Hd|].
  rewrite Hfull in He. destruct (is_dir k (ns_dir c)) eqn:Ed; [left; exact Ed|]. right. split; auto.
  assert (S : startable c h s) by (left; exact B).
  assert (He' : exec (dops_of v c h s) s = Some k) by (unfold dops_of; rewrite (proj1 B); exact He).
  apply (after_deletion v c h s k Hv S He').
Qed.

Lemma del_phase_all_nocreate : forall v c h s y, In y (del_phase h s (del_list v c h)) -> creates y = false.
Proof. intros. eapply del_phase_nocreate; eauto. Qed.

Lemma build_with_crash_ready : forall v c h o tg (isd : bool) fault s ops k,
  sound v -> c_ns c <> "minecraft" -> ready c h s ->
  (if isd then built c s else clean c h s) ->
  crash_trace (fst (build_with v c h o tg isd fault s)) ops -> exec ops s = Some k -> ready c h k.
Proof.
  intros v c h o tg isd fault s ops k Hv Hmc R Hs Hct He. unfold build_with in Hct. destruct isd.
  - rename Hs into B. set (dops := del_phase h s (del_list v c h)) in *.
    assert (Hfull : forall ops0, crash_trace (dops ++ fst (write_phase v c h o tg (run_ops dops s))) ops0 ->
                                 exec ops0 s = Some k -> ready c h k).
    { intros ops0 Hc0 He0. apply crash_trace_app in Hc0 as [Hc0|(ops2 & -> & Hc0)].
      - apply crash_trace_nowrite in Hc0 as [j ->]; [|apply del_phase_all_nocreate].
        eapply deletion_crash; eauto.
      - apply exec_app_inv in He0 as (m & D & He0). rewrite (run_ops_exec _ _ _ D) in Hc0.
        apply (write_region v c h o tg m ops2 k); auto. apply (deletion_crash v c h s (length dops) m); auto.
        rewrite firstn_all. exact D. }
    destruct fault as [P|].
    + destruct (cut P dops) as [pre hit] eqn:Ec. destruct hit.
      * simpl in Hct. destruct (cut_prefix P dops) as [n Hn]. rewrite Ec in Hn. simpl in Hn. subst pre.
        apply crash_trace_nowrite in Hct as [j ->].
        -- rewrite firstn_firstn in He. eapply deletion_crash; eauto.
        -- intros y Hy. apply (del_phase_all_nocreate v c h s). eapply firstn_in; eauto.
      * destruct (write_phase v c h o tg (run_ops dops s)) as [w r] eqn:W. simpl in Hct, Hfull. eauto.
    + destruct (write_phase v c h o tg (run_ops dops s)) as [w r] eqn:W. simpl in Hct, Hfull. eauto.
  - simpl in Hct.
    assert (Hw : crash_trace (fst (write_phase v c h o tg s)) ops).
    { destruct fault; simpl in Hct; destruct (write_phase v c h o tg s) as [w r]; exact Hct. }
    apply (write_region v c h o tg s ops k); auto.
Qed.

Lemma build_crash_ready : forall v c h o (isd : bool) fault s ops k,
  sound v -> c_ns c <> "minecraft" -> ready c h s ->
  (if isd then built c s else clean c h s) ->
  crash_trace (fst (build v c h o isd fault s)) ops -> exec ops s = Some k -> ready c h k.
Proof.
  intros v c h o isd fault s ops k Hv Hmc R Hs Hct He. unfold build in Hct. destruct (v_tags_early v).
  - destruct (early_tag c h isd s (load_path c)) as [lv|]; [destruct (early_tag c h isd s (tick_path c)) as [tv|]|];
      try (apply crash_trace_nil in Hct; subst ops; simpl in He; inversion He; subst; exact R).
    eapply build_with_crash_ready; eauto.
  - eapply build_with_crash_ready; eauto.
Qed.

Theorem crash_ready : forall v c h out fault s ops k,
  sound v -> c_ns c <> "minecraft" -> ready c h s ->
  crash_trace (plan_core v c h out fault s) ops -> exec ops s = Some k -> ready c h k.
Proof.
  intros v c h out fault s ops k Hv Hmc R Hct He. pose proof Hv as (Hce & _ & _).
  destruct out as [| | |o];
    try (rewrite plan_fixed_nonsuccess in Hct by (auto; intros; discriminate);
         apply crash_trace_nil in Hct; subst ops; simpl in He; inversion He; subst; exact R).
  unfold plan_core, run_core in Hct. rewrite Hce in Hct. destruct (is_dir s (ns_dir c)) eqn:Hd.
  - destruct (is_file s (cert_path c)) eqn:Hf.
    2:{ simpl in Hct. apply crash_trace_nil in Hct. subst ops. simpl in He. inversion He; subst. exact R. }
    assert (B : built c s) by (split; auto).
    apply (build_crash_ready v c h o true fault s ops k); auto.
  - assert (C : clean c h s) by (destruct R as [R|R]; [congruence|exact R]).
    cbn [run_ops app] in Hct.
    apply (build_crash_ready v c h o false fault s ops k); auto.
    destruct (build v c h o false fault s) as [w r]. exact Hct.
Qed.

(* a ready tree is either refused by the next build, or startable *)
Lemma ready_cases : forall c h t,
  ready c h t ->
  (is_dir t (ns_dir c) = true /\ is_file t (cert_path c) = false) \/ startable c h t.
Proof.
  intros c h t [Hd|Hc].
  - destruct (is_file t (cert_path c)) eqn:Hf; [right; left; split; auto|left; auto].
  - right. right. exact Hc.
Qed.

(* C11, crash recovery.  Kill the build at any mutation (torn write included) and run_core it again: either the re-run_core
   is refused and changes nothing, or it produces — at every path inside the deleted folders and every path it
   writes — exactly the files a build from any other startable tree with the same #static content produces
   (in particular from a tree without any JMC-owned file); #static content is as it was. *)
Theorem crash_recover : forall v c h o fault s ops k,
  sound v ->
  c_ns c <> "minecraft" -> ready c h s -> static_safe c h o = true ->
  crash_trace (plan_core v c h (Success o) fault s) ops -> exec ops s = Some k ->
  (forall p, excepted h p = true -> file_at k p = file_at s p) /\
  ( run_core v c h (Success o) None k = ([], RRefused)
    \/ forall pl k' s2 pl2 s2',
         run_core v c h (Success o) None k = (pl, RDone) -> exec pl k = Some k' ->
         startable c h s2 -> (forall p, excepted h p = true -> file_at s p = file_at s2 p) ->
         run_core v c h (Success o) None s2 = (pl2, RDone) -> exec pl2 s2 = Some s2' ->
         forall p, inside c h p = true \/ In p (map op_path (filter creates pl)) -> file_at k' p = file_at s2' p ).
Proof.
  intros v c h o fault s ops k Hv Hmc R Hs Hct He.
  assert (Hst : forall p, excepted h p = true -> file_at k p = file_at s p).
  { intros p Hp. rewrite !file_at_node. erewrite (statics_untouched v c h (Success o) fault s ops k p); eauto.
    intros o0 Ho0. inversion Ho0; subst; exact Hs. }
  split; auto.
  pose proof (crash_ready _ _ _ _ _ _ _ _ Hv Hmc R Hct He) as Rk.
  destruct (ready_cases _ _ _ Rk) as [[Hd Hf]|Sk].
  - left. rewrite (refusal v c h (Success o) None k Hd Hf). reflexivity.
  - right. intros pl k' s2 pl2 s2' R1 E1 S2 Hag R2 E2 p Hp.
    eapply (fresh v c h o k s2); eauto. intros q Hq. rewrite Hst; auto.
Qed.

(* ------------------------------------------------------------------ histories *)
(* any sequence of build attempts (any outcome, any injected failure, killed anywhere or not) of projects that
   share the namespace, the override namespaces and the #static folders *)
Inductive hist (v : variant) (c : cfg) (h : hdr) : fs -> fs -> Prop :=
| hist_refl : forall s, hist v c h s s
| hist_step : forall s m out fault copy nometa ops m',
    hist v c h s m ->
    crash_trace (plan_core v c (mkHdr (h_statics h) (h_overrides h) copy nometa) out fault m) ops ->
    exec ops m = Some m' -> hist v c h s m'.

Lemma ready_hdr : forall c h copy nometa t,
  ready c (mkHdr (h_statics h) (h_overrides h) copy nometa) t <-> ready c h t.
Proof. intros. unfold ready, clean, inside, in_folders, excepted. simpl. tauto. Qed.

Theorem history_ready : forall v c h s0 s,
  sound v -> c_ns c <> "minecraft" -> clean c h s0 -> hist v c h s0 s -> ready c h s.
Proof.
  intros v c h s0 s Hv Hmc C H. induction H as [s|s m out fault copy nometa ops m' H IH Hct He].
  - right. exact C.
  - specialize (IH C). apply (proj1 (ready_hdr c h copy nometa m')).
    apply (crash_ready v c _ out fault m ops m'); auto.
Qed.

(* pinned behaviour: the crash window between the two rmtree calls.  Build A (with a tick function) completes,
   build B (no tick function) is killed right after the namespace folder is gone and before data/minecraft is
   deleted; re-running B completes (RDone) but the stale tick.json naming ns:__tick__ survives. *)
Definition x_cfg : cfg := mkCfg "ns" "function" "LOAD=__load__" "__load__" "__tick__".
Definition x_hdr : hdr := mkHdr [] [] None false.
Definition x_A : output := mkOutput [(["__tick__"], "say t")] [] true "{}".
Definition x_B : output := mkOutput [(["g"], "say g")] [] false "{}".
Definition x_empty : fs := TDir [(".", TDir [])].
Definition x_after_A : fs := run_ops (plan_core pinned x_cfg x_hdr (Success x_A) None x_empty) x_empty.

Definition x_k : fs := run_ops (firstn 4 (plan_core pinned x_cfg x_hdr (Success x_B) None x_after_A)) x_after_A.
Definition x_k' : fs := run_ops (plan_core pinned x_cfg x_hdr (Success x_B) None x_k) x_k.
Definition x_fresh : fs := run_ops (plan_core pinned x_cfg x_hdr (Success x_B) None x_empty) x_empty.

Theorem crash_between_rmtrees_refuted_pinned :
  exists j k k' fresh',
    exec (firstn j (plan_core pinned x_cfg x_hdr (Success x_B) None x_after_A)) x_after_A = Some k /\
    run_core pinned x_cfg x_hdr (Success x_B) None k = (plan_core pinned x_cfg x_hdr (Success x_B) None k, RDone) /\
    exec (plan_core pinned x_cfg x_hdr (Success x_B) None k) k = Some k' /\
    exec (plan_core pinned x_cfg x_hdr (Success x_B) None x_empty) x_empty = Some fresh' /\
    file_at fresh' (tick_path x_cfg) = None /\
    file_at k' (tick_path x_cfg) = Some (Tag ["ns:__tick__"]).
Proof. exists 4, x_k, x_k', x_fresh. vm_compute. repeat split. Qed.

(* the same scenario under the repaired model recovers (all deletions done, nothing written yet) *)
Definition y_after_A : fs := run_ops (plan_core fixed x_cfg x_hdr (Success x_A) None x_empty) x_empty.
Definition y_k : fs := run_ops (firstn 9 (plan_core fixed x_cfg x_hdr (Success x_B) None y_after_A)) y_after_A.
Definition y_k' : fs := run_ops (plan_core fixed x_cfg x_hdr (Success x_B) None y_k) y_k.
Definition y_fresh : fs := run_ops (plan_core fixed x_cfg x_hdr (Success x_B) None x_empty) x_empty.

Example crash_recovered_fixed :
    exec (firstn 9 (plan_core fixed x_cfg x_hdr (Success x_B) None y_after_A)) y_after_A = Some y_k /\
    is_dir y_k (ns_dir x_cfg) = false /\
    exec (plan_core fixed x_cfg x_hdr (Success x_B) None y_k) y_k = Some y_k' /\
    exec (plan_core fixed x_cfg x_hdr (Success x_B) None x_empty) x_empty = Some y_fresh /\
    file_at y_k' (tick_path x_cfg) = None /\ file_at y_fresh (tick_path x_cfg) = None /\
    file_at y_k' ["."; "data"; "ns"; "function"; "g.mcfunction"] = Some (Raw "say g").
Proof. vm_compute. repeat split. Qed.

(* ------------------------------------------------------------------ "compiling into an empty directory" *)
Definition empty_out : fs := TDir [(".", TDir [])].

Lemma empty_file_at : forall p, file_at empty_out p = None.
Proof.
  intros p. unfold file_at, empty_out. destruct p as [|x [|y q]]; simpl; auto.
  - destruct (String.eqb x "."); reflexivity.
  - destruct (String.eqb x "."); reflexivity.
Qed.

Lemma empty_clean : forall c h, clean c h empty_out.
Proof.
  intros c h. split.
  - unfold is_dir, ns_dir, empty_out. simpl. reflexivity.
  - intros p _ _. apply empty_file_at.
Qed.

Theorem fresh_empty : forall v c h o s pl s' ple e',
  sound v ->
  startable c h s -> (forall p, excepted h p = true -> file_at s p = None) ->
  run_core v c h (Success o) None s = (pl, RDone) -> exec pl s = Some s' ->
  run_core v c h (Success o) None empty_out = (ple, RDone) -> exec ple empty_out = Some e' ->
  forall p, inside c h p = true \/ In p (map op_path (filter creates pl)) -> file_at s' p = file_at e' p.
Proof.
  intros v c h o s pl s' ple e' Hv S Hst R E Re Ee p Hp.
  eapply (fresh v c h o s empty_out); eauto.
  - right. apply empty_clean.
  - intros q Hq. rewrite empty_file_at. auto.
Qed.

(* ------------------------------------------------------------------ the certificate is never torn ([v_cert_atomic]) *)
(* a mutation that writes jmc.txt is the second-to-last step of make_cert: the whole text, in one step *)
Definition cert_safe (c : cfg) (x : op) : Prop :=
  op_path x = cert_path c -> creates x = true -> x = Replace (cert_path c) (Raw (c_cert c)).

Lemma nocreate_cert_safe : forall c x, creates x = false -> cert_safe c x.
Proof. intros c x H _ H'. congruence. Qed.

Lemma otherpath_cert_safe : forall c x, op_path x <> cert_path c -> cert_safe c x.
Proof. intros c x H H' _. contradiction. Qed.

Lemma mkdir_cert_safe : forall c x, is_mkdir x = true -> cert_safe c x.
Proof. intros c x H. apply nocreate_cert_safe. destruct x; try discriminate; reflexivity. Qed.

Lemma make_cert_cert_safe : forall c cur x, In x (make_cert true c cur) -> cert_safe c x.
Proof.
  intros c cur x H. unfold make_cert in H. apply in_app_or in H as [H|H].
  - apply mkdir_cert_safe. apply mkdir_p_shape in H as (H1 & _). exact H1.
  - pose proof (cert_tmp_neq c) as Hne. simpl in H. destruct H as [<-|[<-|[<-|[<-|[]]]]].
    + apply otherpath_cert_safe. simpl. congruence.
    + apply otherpath_cert_safe. simpl. congruence.
    + intros _ _. reflexivity.
    + apply nocreate_cert_safe. reflexivity.
Qed.

Lemma cert_exclusive_in : forall c h out p,
  cert_exclusive c h out = true ->
  In p (copy_paths h ++ match out with Success o => map fst (out_files c h o) | _ => [] end) -> p <> cert_path c.
Proof.
  intros c h out p H Hin. unfold cert_exclusive in H. rewrite forallb_forall in H. apply H in Hin.
  apply negb_true_iff in Hin. apply path_eqb_neq in Hin. exact Hin.
Qed.

Lemma write_phase_cert_safe : forall v c h o tg cur x,
  v_cert_atomic v = true -> cert_exclusive c h (Success o) = true ->
  In x (fst (write_phase v c h o tg cur)) -> cert_safe c x.
Proof.
  intros v c h o tg cur x Ha Hx H. rewrite write_phase_unfold in H. cbv zeta in H. rewrite pre_ops_split, Ha in H.
  assert (Hpre : In x (make_cert true c cur ++ mid_ops true c h cur) -> cert_safe c x).
  { intro Hin. apply in_app_or in Hin as [Hin|Hin]; [eapply make_cert_cert_safe; eauto|].
    unfold mid_ops in Hin. apply in_app_or in Hin as [Hin|Hin].
    - apply otherpath_cert_safe. apply (cert_exclusive_in c h (Success o)); auto. apply in_or_app. left.
      unfold copy_phase in Hin. unfold copy_paths. destruct (h_copy h) as [items|]; [|contradiction].
      eapply copy_items_shape; eauto.
    - apply mkdir_cert_safe. apply mkdir_p_shape in Hin as (H1 & _). exact H1. }
  destruct (tags_at c tg _) as [[lv|] [tv|]]; cbn [fst] in H; auto.
  apply in_app_or in H as [H|H]; auto.
  unfold post_ops in H. apply in_app_or in H as [H|H].
  - apply otherpath_cert_safe. apply tag_ops_in in H as (p & [->| ->] & [->|[ct ->]]); simpl; discriminate.
  - apply in_app_or in H as [H|H].
    + apply write_files_shape in H as (p & s & cur' & Hin & Ho).
      destruct (out_files_in _ _ _ _ _ Hin) as [_ Hne].
      apply write_file_shape in Ho as (_ & _ & [W|W]); auto.
      * apply mkdir_cert_safe. exact W.
      * apply otherpath_cert_safe. rewrite W. apply (cert_exclusive_in c h (Success o)); auto.
        apply in_or_app. right. apply in_map_iff. exists (p, s). auto.
    + apply otherpath_cert_safe. unfold meta_ops in H. destruct (h_nometa h); [contradiction|].
      destruct H as [<-|[<-|[]]]; simpl; discriminate.
Qed.

Lemma build_with_cert_safe : forall v c h o tg isd fault cur x,
  v_cert_atomic v = true -> cert_exclusive c h (Success o) = true ->
  In x (fst (build_with v c h o tg isd fault cur)) -> cert_safe c x.
Proof.
  intros v c h o tg isd fault cur x Ha Hx H. unfold build_with in H.
  set (dops := if isd then del_phase h cur (del_list v c h) else []) in *.
  assert (Hd : In x dops -> cert_safe c x).
  { intro Hin. apply nocreate_cert_safe. unfold dops in Hin. destruct isd; [|contradiction].
    eapply del_phase_nocreate; eauto. }
  destruct fault as [P|].
  - destruct (cut P dops) as [pre hit] eqn:Ec. destruct hit; simpl in H.
    + apply Hd. apply (cut_in P). rewrite Ec. exact H.
    + destruct (write_phase v c h o tg (run_ops dops cur)) as [w r] eqn:Ew. simpl in H.
      apply in_app_or in H as [H|H]; auto. eapply write_phase_cert_safe; eauto. rewrite Ew. exact H.
  - destruct (write_phase v c h o tg (run_ops dops cur)) as [w r] eqn:Ew. simpl in H.
    apply in_app_or in H as [H|H]; auto. eapply write_phase_cert_safe; eauto. rewrite Ew. exact H.
Qed.

Lemma build_cert_safe : forall v c h o isd fault cur x,
  v_cert_atomic v = true -> cert_exclusive c h (Success o) = true ->
  In x (fst (build v c h o isd fault cur)) -> cert_safe c x.
Proof.
  intros v c h o isd fault cur x Ha Hx H. unfold build in H. destruct (v_tags_early v).
  - destruct (early_tag c h isd cur (load_path c)) as [lv|]; [destruct (early_tag c h isd cur (tick_path c)) as [tv|]|];
      try contradiction. eapply build_with_cert_safe; eauto.
  - eapply build_with_cert_safe; eauto.
Qed.

Lemma plan_cert_safe : forall v c h out fault s x,
  v_cert_atomic v = true -> cert_exclusive c h out = true -> In x (plan_core v c h out fault s) -> cert_safe c x.
Proof.
  intros v c h out fault s x Ha Hx H. unfold plan_core, run_core in H. rewrite Ha in H.
  assert (H0 : In x (if v_cert_early v then make_cert true c s else []) -> cert_safe c x).
  { intro Hin. destruct (v_cert_early v); [|contradiction]. eapply make_cert_cert_safe; eauto. }
  destruct out as [| | |o]; simpl in H; try contradiction.
  - destruct (is_dir s (ns_dir c)); [destruct (is_file s (cert_path c)); contradiction|]. auto.
  - destruct (is_dir s (ns_dir c)); [destruct (is_file s (cert_path c)); contradiction|]. auto.
  - destruct (is_dir s (ns_dir c)).
    + destruct (is_file s (cert_path c)); [|contradiction]. eapply build_cert_safe; eauto.
    + destruct (build v c h o false fault _) as [ops r] eqn:Eb. simpl in H.
      apply in_app_or in H as [H|H]; auto. eapply build_cert_safe; eauto. rewrite Eb. exact H.
Qed.

Lemma fsem_cert_safe : forall c ops i,
  (forall x, In x ops -> cert_safe c x) ->
  fsem (cert_path c) ops i = i \/ fsem (cert_path c) ops i = None \/
  fsem (cert_path c) ops i = Some (Raw (c_cert c)).
Proof.
  intros c ops. induction ops as [|o r IH]; intros i H; [left; reflexivity|].
  unfold fsem in *. cbn [fold_left].
  assert (Hr : forall x, In x r -> cert_safe c x) by (intros; apply H; simpl; auto).
  assert (Hs : fstep (cert_path c) i o = i \/ fstep (cert_path c) i o = None \/
               fstep (cert_path c) i o = Some (Raw (c_cert c))).
  { unfold fstep. destruct (path_eqb (op_path o) (cert_path c)) eqn:Ep; auto.
    apply path_eqb_eq in Ep. pose proof (H o (or_introl eq_refl) Ep) as Ho.
    destruct o as [q|q|q ct|q|q|q ct]; auto.
    - specialize (Ho eq_refl). discriminate.
    - specialize (Ho eq_refl). discriminate.
    - specialize (Ho eq_refl). inversion Ho. auto. }
  destruct (IH (fstep (cert_path c) i o) Hr) as [E|[E|E]]; rewrite E; auto.
Qed.

(* C11, torn certificates.  With the certificate written through jmc.txt.tmp + os.replace, at EVERY crash point
   (torn write included) jmc.txt is absent, or exactly what it was before the build, or the complete new text —
   never a truncated one: the internal names the re-run_core reads from it are those of the killed build.
   [cert_exclusive]: neither #copy nor an emitted file lands on jmc.txt. *)
Theorem crash_cert_whole : forall v c h out fault s ops k,
  v_cert_atomic v = true -> cert_exclusive c h out = true ->
  crash_trace (plan_core v c h out fault s) ops -> exec ops s = Some k ->
  file_at k (cert_path c) = file_at s (cert_path c) \/ file_at k (cert_path c) = None \/
  file_at k (cert_path c) = Some (Raw (c_cert c)).
Proof.
  intros v c h out fault s ops k Ha Hx Hct He. rewrite (file_at_exec _ _ _ _ He).
  apply fsem_cert_safe. intros x Hin.
  inversion Hct as [j|j p ct ct' Hn]; subst.
  - eapply plan_cert_safe; eauto. eapply firstn_in; eauto.
  - apply in_app_or in Hin as [Hin|[<-|[]]].
    + eapply plan_cert_safe; eauto. eapply firstn_in; eauto.
    + apply nth_error_In in Hn. pose proof (plan_cert_safe _ _ _ _ _ _ _ Ha Hx Hn) as Hs.
      intros Hp _. specialize (Hs Hp eq_refl). discriminate.
Qed.

(* [fixed] (jmc.txt written in place): killed inside the write, the certificate is a truncated text *)
Definition z_cfg : cfg := mkCfg "ns" "function" "LOAD=__load__
PRIVATE=__private__" "__load__" "__tick__".

Theorem torn_cert_refuted_fixed :
  exists ops k, crash_trace (plan_core fixed z_cfg x_hdr (Success x_B) None x_empty) ops /\
    exec ops x_empty = Some k /\ cert_exclusive z_cfg x_hdr (Success x_B) = true /\
    file_at k (cert_path z_cfg) = Some (Raw "LOAD=__load__
PRIVATE=__priv").
Proof.
  exists (firstn 3 (plan_core fixed z_cfg x_hdr (Success x_B) None x_empty) ++
          [Write (cert_path z_cfg) (Raw "LOAD=__load__
PRIVATE=__priv")]).
  eexists. split; [|split; [vm_compute; reflexivity|split; vm_compute; reflexivity]].
  eapply ct_torn. vm_compute. reflexivity.
Qed.

(* the same kill under [hardened] tears jmc.txt.tmp; jmc.txt does not exist yet and the re-run_core is refused *)
Example torn_tmp_hardened :
  exists ops k, crash_trace (plan_core hardened z_cfg x_hdr (Success x_B) None x_empty) ops /\
    exec ops x_empty = Some k /\
    file_at k (cert_tmp z_cfg) = Some (Raw "LOAD=__load__
PRIVATE=__priv") /\ file_at k (cert_path z_cfg) = None /\
    run_core hardened z_cfg x_hdr (Success x_B) None k = ([], RRefused).
Proof.
  exists (firstn 3 (plan_core hardened z_cfg x_hdr (Success x_B) None x_empty) ++
          [Write (cert_tmp z_cfg) (Raw "LOAD=__load__
PRIVATE=__priv")]).
  eexists. split; [|split; [vm_compute; reflexivity|repeat split; vm_compute; reflexivity]].
  eapply ct_torn. vm_compute. reflexivity.
Qed.

(* C11, crash recovery including the certificate: [crash_recover], and — when jmc.txt is written atomically — the
   certificate the re-run_core's front end reads is absent, the one the killed build read, or the complete one it wrote
   (so the re-run_core compiles with the same internal names: the [c] and [o] of the statement are indeed the same). *)
Theorem crash_recover_cert : forall v c h o fault s ops k,
  sound v ->
  c_ns c <> "minecraft" -> ready c h s -> static_safe c h o = true ->
  crash_trace (plan_core v c h (Success o) fault s) ops -> exec ops s = Some k ->
  (forall p, excepted h p = true -> file_at k p = file_at s p) /\
  ( run_core v c h (Success o) None k = ([], RRefused)
    \/ forall pl k' s2 pl2 s2',
         run_core v c h (Success o) None k = (pl, RDone) -> exec pl k = Some k' ->
         startable c h s2 -> (forall p, excepted h p = true -> file_at s p = file_at s2 p) ->
         run_core v c h (Success o) None s2 = (pl2, RDone) -> exec pl2 s2 = Some s2' ->
         forall p, inside c h p = true \/ In p (map op_path (filter creates pl)) -> file_at k' p = file_at s2' p ) /\
  ( v_cert_atomic v = true -> cert_exclusive c h (Success o) = true ->
    file_at k (cert_path c) = file_at s (cert_path c) \/ file_at k (cert_path c) = None \/
    file_at k (cert_path c) = Some (Raw (c_cert c)) ).
Proof.
  intros v c h o fault s ops k Hv Hmc R Hs Hct He.
  destruct (crash_recover v c h o fault s ops k Hv Hmc R Hs Hct He) as [A B].
  split; [exact A|split; [exact B|]]. intros Ha Hx. eapply crash_cert_whole; eauto.
Qed.
