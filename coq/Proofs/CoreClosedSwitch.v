(* Proofs.CoreClosedSwitch — both lowerings of `switch` (Model.Switch: port of switch(), parse_switch,
   __parse_switch_binary and Hardcode.switch) emit closed code.  Property C07 (core-language closure).

   Binary search tree: every `function …/<group>/<k>` a node emits for a sub-range is the name of a
   function of the tree; the root is.  Macro dispatch: the dispatcher `<pc>/select` exists, every
   label has its function `<pc>/<label>` — i.e. the target `<prefix><v>` of `$function <prefix>$(switch_key)`
   exists for every label v —, `<pc>/default` exists iff it is referenced (iff there is a default entry).
   Whole packs (compile_functions: nested switches, Hardcode.switch, user calls): every static call
   in every emitted function is to an emitted function or is a user call `f()` written in the source. *)
From Coq Require Import ZArith String List Bool Lia.
From JMCV Require Import Base.Int32 Base.Dec MC.Syntax MC.Sem Model.Names Model.Switch Proofs.Switch Proofs.CoreCalls.
Import ListNotations.
Local Open Scope Z_scope.

Local Notation "a +++ b" := (String.append a b) (at level 60, right associativity).

Definition fnames (fs : list func) : list string := map fst fs.

(* ------------------------------------------------------------------ one switch, relative to its case bodies *)
Section One.
  Variable nm : names.
  Variable OK : site -> Prop.

  Definition names_ok (fs : list func) : Prop := forall d, In d fs -> OK (Static (fst d)).
  Definition bodies_ok (fs : list func) : Prop := forall d, In d fs -> all_ok OK (snd d).

  Lemma guarded_call_ok tmp r f : OK (Static f) -> all_ok OK [guarded_call tmp r f].
  Proof. intros H. unfold guarded_call. apply all_ok_execute. apply all_ok_call. exact H. Qed.

  Lemma bst_closed group tmp bodies start :
    (forall body, In body bodies -> all_ok OK body) ->
    forall fuel lo hi my next fs next',
      bst fuel nm group tmp bodies start lo hi my next = (fs, next') ->
      (Z.to_nat (hi - lo) < fuel)%nat -> lo <= hi ->
      names_ok fs ->
      In (priv_path nm group (z_dec my)) (fnames fs) /\ bodies_ok fs.
  Proof.
    intros Hb. induction fuel as [|fu IH]; intros lo hi my next fs next' H Hf Hlh Hn; [lia|].
    cbn [bst] in H. destruct (Z.eqb_spec hi lo) as [E|NE].
    - injection H as <- <-. split; [left; reflexivity|].
      intros d [<-|[]]. cbn [snd].
      destruct (nth_in_or_default (Z.to_nat (lo - start)) bodies []) as [Hi| ->]; [auto|apply all_ok_nil].
    - destruct (bst fu nm group tmp bodies start lo (lo + (hi - lo + 1) / 2 - 1) next (next + 2))
        as [fl n1] eqn:EL.
      destruct (bst fu nm group tmp bodies start (lo + (hi - lo + 1) / 2) hi (next + 1) n1)
        as [fr n2] eqn:ER.
      injection H as <- <-.
      pose proof (half_bounds lo hi ltac:(lia)) as HH. cbn zeta in HH.
      assert (Hnl : names_ok fl) by (intros d Hd; apply Hn; right; apply in_or_app; left; exact Hd).
      assert (Hnr : names_ok fr) by (intros d Hd; apply Hn; right; apply in_or_app; right; exact Hd).
      destruct (IH _ _ _ _ _ _ EL ltac:(lia) ltac:(lia) Hnl) as [Rl Bl].
      destruct (IH _ _ _ _ _ _ ER ltac:(lia) ltac:(lia) Hnr) as [Rr Br].
      split; [left; reflexivity|].
      intros d [<-|Hd].
      + cbn [snd]. apply all_ok_cons. split; [|apply all_ok_cons; split; [|apply all_ok_nil]].
        * apply guarded_call_ok. unfold fnames in Rl. apply in_map_iff in Rl. destruct Rl as (d & Ed & Hd).
          rewrite <- Ed. apply Hn. right. apply in_or_app. left. exact Hd.
        * apply guarded_call_ok. unfold fnames in Rr. apply in_map_iff in Rr. destruct Rr as (d & Ed & Hd).
          rewrite <- Ed. apply Hn. right. apply in_or_app. right. exact Hd.
      + apply in_app_or in Hd. destruct Hd as [Hd|Hd]; [apply Bl|apply Br]; exact Hd.
  Qed.

  Lemma parse_switch_bst_closed group x bodies start guard1 pc sid cmds fs pc' sid' :
    parse_switch_bst nm group x bodies start guard1 pc sid = Ok (cmds, fs, pc', sid') ->
    (forall body, In body bodies -> all_ok OK body) -> names_ok fs ->
    all_ok OK cmds /\ bodies_ok fs /\ In (priv_path nm group (z_dec pc)) (fnames fs).
  Proof.
    intros H Hb Hn. destruct (parse_switch_bst_inv _ _ _ _ _ _ _ _ _ _ _ _ H) as (N1 & _ & EB & ->).
    destruct (bst_closed group (tmp_score nm sid) bodies start Hb _ _ _ _ _ _ _ EB ltac:(lia) ltac:(lia) Hn) as [R B].
    split; [|split; assumption].
    assert (Rok : OK (Static (priv_path nm group (z_dec pc)))).
    { unfold fnames in R. apply in_map_iff in R. destruct R as (d & Ed & Hd). rewrite <- Ed. apply Hn. exact Hd. }
    apply all_ok_cons. split; [intros s []|].
    destruct (guard1 && _); [apply all_ok_execute|]; apply all_ok_call; exact Rok.
  Qed.

  Lemma has_default_in cases : has_default cases = true <-> In LDefault (map fst cases).
  Proof.
    unfold has_default. rewrite existsb_exists. split.
    - intros ([l b] & Hc & Hd). destruct l; [discriminate|]. apply in_map_iff. exists (LDefault, b). auto.
    - intros H. apply in_map_iff in H. destruct H as ([l b] & E & Hc). cbn in E. subst. exists (LDefault, b). auto.
  Qed.

  Lemma macro_fs_names group x cases pc cmds fs pc' :
    parse_switch_macro nm group x cases pc = (cmds, fs, pc') ->
    fnames fs = map (macro_case_name nm group pc) (map fst cases) ++ [macro_select_name nm group pc].
  Proof.
    unfold parse_switch_macro. intros H. injection H as _ <- _. unfold fnames. rewrite map_app, !map_map. reflexivity.
  Qed.

  Lemma parse_switch_macro_closed group x cases pc cmds fs pc' :
    parse_switch_macro nm group x cases pc = (cmds, fs, pc') ->
    (forall cs, In cs cases -> all_ok OK (snd cs)) -> names_ok fs ->
    OK (Dyn (macro_prefix nm group pc) "switch_key") ->
    all_ok OK cmds /\ bodies_ok fs.
  Proof.
    intros H Hb Hn Hd. pose proof (macro_fs_names _ _ _ _ _ _ _ H) as FN.
    unfold parse_switch_macro in H. injection H as <- <- _.
    assert (NameOK : forall f, In f (fnames (map (fun c => (macro_case_name nm group pc (fst c),
                                  macro_case_body nm (has_default cases) c)) cases ++
                               [(macro_select_name nm group pc, [CMacroCall (macro_prefix nm group pc) "switch_key"])])) ->
                               OK (Static f)).
    { intros f Hf. unfold fnames in Hf. apply in_map_iff in Hf. destruct Hf as (d & <- & Hd'). apply Hn. exact Hd'. }
    split.
    - apply all_ok_app. split; [destruct (has_default cases); [intros s []|apply all_ok_nil]|].
      apply all_ok_cons. split; [intros s []|]. apply all_ok_cons. split.
      + intros s [<-|[]]. apply NameOK. rewrite FN. apply in_or_app. right. left. reflexivity.
      + destruct (has_default cases) eqn:HD; [|apply all_ok_nil].
        apply all_ok_execute. apply all_ok_call. apply NameOK. rewrite FN. apply in_or_app. left.
        apply in_map. apply has_default_in. exact HD.
    - intros d Hd'. apply in_app_or in Hd'. destruct Hd' as [Hd'|[<-|[]]].
      + apply in_map_iff in Hd'. destruct Hd' as (cs & <- & Hc). cbn [snd]. unfold macro_case_body.
        destruct (has_default cases && negb (is_default (fst cs))).
        * apply all_ok_app. split; [apply Hb; exact Hc|intros s []].
        * apply Hb. exact Hc.
      + cbn [snd]. intros s [<-|[]]. exact Hd.
  Qed.

  Lemma parse_switch_closed c group x cases start guard1 pc sid cmds fs pc' sid' :
    parse_switch nm c group x cases start guard1 pc sid = Ok (cmds, fs, pc', sid') ->
    (forall cs, In cs cases -> all_ok OK (snd cs)) -> names_ok fs ->
    (is_macro c = true -> OK (Dyn (macro_prefix nm group pc) "switch_key")) ->
    all_ok OK cmds /\ bodies_ok fs.
  Proof.
    unfold parse_switch. destruct (is_macro c) eqn:M; intros H Hb Hn Hd.
    - destruct (parse_switch_macro nm group x cases pc) as [[cmds0 fs0] pc0] eqn:P. injection H as <- <- <- _.
      eapply parse_switch_macro_closed; eauto.
    - destruct (parse_switch_bst_closed _ _ _ _ _ _ _ _ _ _ _ H) as (A & B & _); [|exact Hn|split; assumption].
      intros body Hi. apply in_map_iff in Hi. destruct Hi as (cs & <- & Hc). apply Hb. exact Hc.
  Qed.
End One.

(* ---- the names a macro dispatcher can reach ---- *)
Lemma macro_names nm group x cases pc cmds fs pc' :
  parse_switch_macro nm group x cases pc = (cmds, fs, pc') ->
  let pre := macro_prefix nm group pc in
  (* the dispatcher exists and is `$function <pre>$(switch_key)`, called `with storage` by the emitted commands *)
  In (pre +++ "select", [CMacroCall pre "switch_key"]) fs /\
  In (pre +++ "select") (calls cmds) /\
  (* every label has its function; for a numeric label v it is the run-time target <pre><v> *)
  (forall l, In l (map fst cases) -> In (pre +++ label_str l) (fnames fs)) /\
  (forall v, In (LNum v) (map fst cases) -> In (pre +++ z_dec v) (fnames fs)) /\
  (* a value that is not a label is no function: the macro call runs nothing (CoreCalls.macro_call_miss) *)
  (forall v, ~ In (LNum v) (map fst cases) -> ~ In (pre +++ z_dec v) (fnames fs)) /\
  (* <pc>/default exists iff it is referenced, iff there is a default entry *)
  (In (pre +++ "default") (calls cmds) <-> has_default cases = true) /\
  (In (pre +++ "default") (fnames fs) <-> has_default cases = true).
Proof.
  intros H pre. pose proof (macro_fs_names nm _ _ _ _ _ _ _ H) as FN.
  assert (CN : forall l, macro_case_name nm group pc l = pre +++ label_str l) by (intros; apply macro_case_name_eq).
  assert (SN : macro_select_name nm group pc = pre +++ "select") by apply macro_select_name_eq.
  assert (InCase : forall s, In (pre +++ s) (fnames fs) <->
                             (exists l, In l (map fst cases) /\ s = label_str l) \/ s = "select"%string).
  { intros s. rewrite FN, in_app_iff. split.
    - intros [Hi|[Hi|[]]].
      + apply in_map_iff in Hi. destruct Hi as (l & E & Hl). rewrite CN in E. apply append_inj_l in E. left. eauto.
      + rewrite SN in Hi. apply append_inj_l in Hi. right. auto.
    - intros [(l & Hl & ->) | -> ].
      + left. apply in_map_iff. exists l. split; [apply CN|exact Hl].
      + right. left. exact SN. }
  assert (Calls : calls cmds = (pre +++ "select") :: (if has_default cases then [pre +++ "default"] else [])).
  { unfold parse_switch_macro in H. injection H as <- _ _. rewrite calls_app.
    replace (calls (if has_default cases then [CSet (found_score nm) 0] else [])) with (@nil string)
      by (destruct (has_default cases); reflexivity).
    cbn [app]. rewrite !calls_cons. cbn [calls1 app]. rewrite SN. f_equal.
    destruct (has_default cases); [|reflexivity]. cbn. rewrite (CN LDefault). reflexivity. }
  split.
  { unfold parse_switch_macro in H. injection H as _ <- _. apply in_or_app. right. left. rewrite SN. reflexivity. }
  split; [rewrite Calls; left; reflexivity|].
  split; [intros l Hl; apply InCase; left; eauto|].
  split; [intros v Hv; apply (InCase (z_dec v)); left; exists (LNum v); auto|].
  split.
  { intros v Hv Hi. apply InCase in Hi. destruct Hi as [(l & Hl & E)|E].
    - change (z_dec v) with (label_str (LNum v)) in E. apply label_str_inj in E. subst l. contradiction.
    - exact (z_dec_not_select _ E). }
  split.
  - rewrite Calls. split.
    + intros [E|Hi].
      * apply append_inj_l in E. discriminate.
      * destruct (has_default cases); [reflexivity|destruct Hi].
    + intros ->. right. left. reflexivity.
  - rewrite (has_default_in cases). split.
    + intros Hi. apply InCase in Hi. destruct Hi as [(l & Hl & E)|E]; [|discriminate].
      change "default"%string with (label_str LDefault) in E. apply label_str_inj in E. subst l. exact Hl.
    + intros Hl. apply InCase. left. exists LDefault. auto.
Qed.

(* ------------------------------------------------------------------ one switch statement / Hardcode.switch, closed form *)

(* a call site of the emitted code: a static call of an emitted function or one a case body brought along;
   the only new macro call is the dispatcher's *)
Definition OK1 (nm : names) (c : cfg) (group : string) (pc : Z) (F : list string) (inputs : list cmd) (s : site) : Prop :=
  match s with
  | Static f => In f F \/ In f (calls inputs)
  | Dyn p k => (is_macro c = true /\ p = macro_prefix nm group pc /\ k = "switch_key"%string) \/ In (p, k) (mcalls inputs)
  end.

Lemma parse_switch_select nm c group x cases start guard1 pc sid cmds fs pc' sid' :
  parse_switch nm c group x cases start guard1 pc sid = Ok (cmds, fs, pc', sid') -> is_macro c = true ->
  In (macro_prefix nm group pc +++ "select") (fnames fs).
Proof.
  unfold parse_switch. intros H M. rewrite M in H.
  destruct (parse_switch_macro nm group x cases pc) as [[cmds0 fs0] pc0] eqn:P. injection H as <- <- <- _.
  destruct (macro_names _ _ _ _ _ _ _ _ P) as (S & _). unfold fnames.
  apply in_map_iff. eexists. split; [|exact S]. reflexivity.
Qed.

Theorem parse_switch_core_closed nm c group x cases start guard1 pc sid cmds fs pc' sid' :
  parse_switch nm c group x cases start guard1 pc sid = Ok (cmds, fs, pc', sid') ->
  let inputs := flat_map snd cases in
  (forall f, In f (calls cmds ++ fcalls fs) -> In f (fnames fs) \/ In f (calls inputs)) /\
  (forall p k, In (p, k) (mcalls cmds ++ fmcalls fs) ->
     (is_macro c = true /\ p = macro_prefix nm group pc /\ k = "switch_key"%string) \/ In (p, k) (mcalls inputs)).
Proof.
  intros H inputs.
  destruct (parse_switch_closed nm (OK1 nm c group pc (fnames fs) inputs) _ _ _ _ _ _ _ _ _ _ _ _ H) as [A B].
  { intros cs Hc s Hs. assert (Hi : In s (sites inputs)).
    { unfold inputs, sites in *. apply in_flat_map in Hs. destruct Hs as (cm & Hcm & Hs).
      apply in_flat_map. exists cm. split; [|exact Hs]. apply in_flat_map. exists cs. split; assumption. }
    destruct s as [f|p k]; cbn; right; [apply calls_sites|apply mcalls_sites]; exact Hi. }
  { intros d Hd. cbn. left. unfold fnames. apply in_map. exact Hd. }
  { intros M. cbn. left. auto. }
  split.
  - intros f Hf. apply in_app_or in Hf. destruct Hf as [Hf|Hf].
    + apply calls_sites in Hf. exact (A _ Hf).
    + apply in_fcalls in Hf. destruct Hf as (d & Hd & Hf). apply calls_sites in Hf. exact (B d Hd _ Hf).
  - intros p k Hf. apply in_app_or in Hf. destruct Hf as [Hf|Hf].
    + apply mcalls_sites in Hf. exact (A _ Hf).
    + apply in_fmcalls in Hf. destruct Hf as (d & Hd & Hf). apply mcalls_sites in Hf. exact (B d Hd _ Hf).
Qed.

(* the binary search tree: its root — the function the emitted commands call — is a function of the tree *)
Lemma parse_switch_bst_root nm group x bodies start guard1 pc sid cmds fs pc' sid' :
  parse_switch_bst nm group x bodies start guard1 pc sid = Ok (cmds, fs, pc', sid') ->
  calls cmds = [priv_path nm group (z_dec pc)] /\ In (priv_path nm group (z_dec pc)) (fnames fs).
Proof.
  intros H. destruct (parse_switch_bst_closed nm (fun _ => True) _ _ _ _ _ _ _ _ _ _ _ H) as (_ & _ & R).
  { intros body _ s _. exact I. } { intros d _. exact I. }
  split; [|exact R].
  destruct (parse_switch_bst_inv _ _ _ _ _ _ _ _ _ _ _ _ H) as (_ & _ & _ & ->).
  destruct (guard1 && _); reflexivity.
Qed.

(* ------------------------------------------------------------------ whole packs: compile_items / compile_functions *)

(* the user functions a statement list calls (`f();`) *)
Fixpoint ucalls (s : stmt) : list string :=
  match s with
  | SCall g => [g]
  | SSwitch _ es => flat_map (fun e : label * list stmt => let (_, b) := e in flat_map ucalls b) es
  | SHard _ _ _ _ tail => flat_map ucalls tail
  | _ => []
  end.
Definition ucalls_l (l : list stmt) : list string := flat_map ucalls l.
Definition ucalls_fl (fl : list (string * list stmt)) : list string := flat_map (fun d => ucalls_l (snd d)) fl.
Definition user_name (nm : names) (g : string) : string := ns nm +++ ":" +++ g.

(* a call site of an emitted pack: a static call of an emitted function or a user call of the source;
   a macro call `$function <p>$(switch_key)` sits in the dispatcher <p>select, which is emitted *)
Definition OKW (F U : list string) (s : site) : Prop :=
  match s with
  | Static f => In f F \/ In f U
  | Dyn p k => k = "switch_key"%string /\ In (p +++ "select") F
  end.

Definition rec_t := list stmt -> cstate -> result (list item * list func * cstate).

(* the two local loops of compile_items, as functions of the recursive call *)
Definition go_switch (rec : rec_t) :=
  fix go (es : list (label * list stmt)) (st : cstate) : result (list entry * list func * cstate) :=
    match es with
    | [] => Ok ([], [], st)
    | (lb, b) :: es' =>
      match rec b st with
      | Err e => Err e
      | Ok (its, fs1, st1) =>
        match go es' st1 with
        | Err e => Err e
        | Ok (ents, fs2, st2) => Ok ((lb, its) :: ents, fs1 ++ fs2, st2)
        end
      end
    end.
Definition go_hard (rec : rec_t) (tmpl : list (string * string)) (tail : list stmt) :=
  fix go (ls : list Z) (st : cstate) : result (list (list cmd) * list func * cstate) :=
    match ls with
    | [] => Ok ([], [], st)
    | i :: ls' =>
      match rec tail st with
      | Err e => Err e
      | Ok (its, fs1, st1) =>
        match go ls' st1 with
        | Err e => Err e
        | Ok (bs, fs2, st2) => Ok ((hard_body tmpl i ++ body_of its) :: bs, fs1 ++ fs2, st2)
        end
      end
    end.
Definition one_stmt (rec : rec_t) (nm : names) (c : cfg) (s : stmt) (st : cstate)
  : result (item * list func * cstate) :=
  match s with
  | SSay t => Ok (ICmds [CSay t], [], st)
  | SBreak => Ok (IBreak, [], st)
  | SSwitch x entries =>
    match go_switch rec entries st with
    | Err e => Err e
    | Ok (ents, fs1, st1) =>
      match compile_switch nm c x ents (cs_switch st1) (cs_id st1) with
      | Err e => Err e
      | Ok (cmds, fs2, pc', sid') => Ok (ICmds cmds, fs1 ++ fs2, mkCS pc' (cs_hard st1) sid')
      end
    end
  | SSet x z => Ok (ICmds [CSet x z], [], st)
  | SCall g => Ok (ICmds [CCall (ns nm +++ ":" +++ g)], [], st)
  | SHard x b cnt tmpl tail =>
    match go_hard rec tmpl tail (hardcode_labels b cnt) st with
    | Err e => Err e
    | Ok (bodies, fs1, st1) =>
      match compile_hardcode nm c x (fun i => nth (Z.to_nat (i - b)) bodies []) b cnt
                             (cs_hard st1) (cs_id st1) with
      | Err e => Err e
      | Ok (cmds, fs2, pc', sid') => Ok (ICmds cmds, fs1 ++ fs2, mkCS (cs_switch st1) pc' sid')
      end
    end
  end.

Lemma compile_items_S f nm c s r st :
  compile_items (S f) nm c (s :: r) st =
  match one_stmt (compile_items f nm c) nm c s st with
  | Err e => Err e
  | Ok (it, fs1, st1) =>
    match compile_items f nm c r st1 with
    | Err e => Err e
    | Ok (its, fs2, st2) => Ok (it :: its, fs1 ++ fs2, st2)
    end
  end.
Proof. destruct s; reflexivity. Qed.

Section Whole.
  Variable nm : names.
  Variable c : cfg.

  Definition P_rec (rec : rec_t) : Prop :=
    forall l st its fs st1 U F,
      rec l st = Ok (its, fs, st1) ->
      incl (map (user_name nm) (ucalls_l l)) U -> incl (fnames fs) F ->
      all_ok (OKW F U) (body_of its) /\ bodies_ok (OKW F U) fs.

  Lemma incl_app_l {A} (a b c0 : list A) : incl (a ++ b) c0 -> incl a c0.
  Proof. intros H x Hx. apply H. apply in_or_app. left. exact Hx. Qed.
  Lemma incl_app_r {A} (a b c0 : list A) : incl (a ++ b) c0 -> incl b c0.
  Proof. intros H x Hx. apply H. apply in_or_app. right. exact Hx. Qed.
  Lemma fnames_app a b : fnames (a ++ b) = fnames a ++ fnames b.
  Proof. apply map_app. Qed.
  Lemma bodies_ok_app OK a b : bodies_ok OK a -> bodies_ok OK b -> bodies_ok OK (a ++ b).
  Proof. intros A B d Hd. apply in_app_or in Hd. destruct Hd; auto. Qed.

  Lemma go_switch_ok rec : P_rec rec ->
    forall es st ents fs st1 U F,
      go_switch rec es st = Ok (ents, fs, st1) ->
      incl (map (user_name nm) (flat_map (fun e : label * list stmt => let (_, b) := e in flat_map ucalls b) es)) U ->
      incl (fnames fs) F ->
      (forall e, In e ents -> all_ok (OKW F U) (body_of (snd e))) /\ bodies_ok (OKW F U) fs.
  Proof.
    intros Pr. induction es as [|[lb b] es IH]; intros st ents fs st1 U F H HU HF; cbn [go_switch] in H.
    - injection H as <- <- _. split; [intros e []|intros d []].
    - destruct (rec b st) as [[[its fs1] st2]|e] eqn:R; [|discriminate].
      fold (go_switch rec) in H.
      destruct (go_switch rec es st2) as [[[ents2 fs2] st3]|e] eqn:G; [|discriminate].
      injection H as <- <- _. cbn [flat_map] in HU. rewrite map_app in HU. rewrite fnames_app in HF.
      destruct (Pr _ _ _ _ _ U F R (incl_app_l _ _ _ HU) (incl_app_l _ _ _ HF)) as [A1 B1].
      destruct (IH _ _ _ _ U F G (incl_app_r _ _ _ HU) (incl_app_r _ _ _ HF)) as [A2 B2].
      split; [|apply bodies_ok_app; assumption].
      intros e [<-|He]; [exact A1|apply A2; exact He].
  Qed.

  Lemma hard_body_sites tmpl i : sites (hard_body tmpl i) = [].
  Proof. unfold hard_body. induction tmpl as [|p t IH]; [reflexivity|exact IH]. Qed.

  Lemma go_hard_ok rec tmpl tail : P_rec rec ->
    forall ls st bodies fs st1 U F,
      go_hard rec tmpl tail ls st = Ok (bodies, fs, st1) ->
      incl (map (user_name nm) (ucalls_l tail)) U -> incl (fnames fs) F ->
      (forall b, In b bodies -> all_ok (OKW F U) b) /\ bodies_ok (OKW F U) fs.
  Proof.
    intros Pr. induction ls as [|i ls IH]; intros st bodies fs st1 U F H HU HF; cbn [go_hard] in H.
    - injection H as <- <- _. split; [intros e []|intros d []].
    - destruct (rec tail st) as [[[its fs1] st2]|e] eqn:R; [|discriminate].
      fold (go_hard rec tmpl tail) in H.
      destruct (go_hard rec tmpl tail ls st2) as [[[bs fs2] st3]|e] eqn:G; [|discriminate].
      injection H as <- <- _. rewrite fnames_app in HF.
      destruct (Pr _ _ _ _ _ U F R HU (incl_app_l _ _ _ HF)) as [A1 B1].
      destruct (IH _ _ _ _ U F G HU (incl_app_r _ _ _ HF)) as [A2 B2].
      split; [|apply bodies_ok_app; assumption].
      intros b [<-|Hb]; [|apply A2; exact Hb].
      apply all_ok_app. split; [|exact A1]. intros s Hs. rewrite hard_body_sites in Hs. destruct Hs.
  Qed.

  Lemma switch_like_ok group x cases start pc sid cmds fs2 pc' sid' fs1 U F :
    parse_switch nm c group x cases start true pc sid = Ok (cmds, fs2, pc', sid') ->
    (forall cs, In cs cases -> all_ok (OKW F U) (snd cs)) ->
    bodies_ok (OKW F U) fs1 -> incl (fnames (fs1 ++ fs2)) F ->
    all_ok (OKW F U) cmds /\ bodies_ok (OKW F U) (fs1 ++ fs2).
  Proof.
    intros H Hc B1 HF. rewrite fnames_app in HF.
    destruct (parse_switch_closed nm (OKW F U) _ _ _ _ _ _ _ _ _ _ _ _ H Hc) as [A B2].
    - intros d Hd. cbn. left. apply (incl_app_r _ _ _ HF). unfold fnames. apply in_map. exact Hd.
    - intros M. cbn. split; [reflexivity|]. apply (incl_app_r _ _ _ HF).
      eapply parse_switch_select; eauto.
    - split; [exact A|apply bodies_ok_app; assumption].
  Qed.

  Lemma body_of_single it : body_of [it] = match it with IBreak => [] | ICmds cs => cs end.
  Proof. unfold body_of. cbn. apply app_nil_r. Qed.

  Lemma one_stmt_ok rec : P_rec rec ->
    forall s st it fs st1 U F,
      one_stmt rec nm c s st = Ok (it, fs, st1) ->
      incl (map (user_name nm) (ucalls s)) U -> incl (fnames fs) F ->
      all_ok (OKW F U) (body_of [it]) /\ bodies_ok (OKW F U) fs.
  Proof.
    intros Pr s st it fs st1 U F H HU HF. rewrite body_of_single.
    destruct s as [t| |x z|g|x entries|x b cnt tmpl tail]; cbn [one_stmt] in H.
    - injection H as <- <- _. split; [intros s []|intros d []].
    - injection H as <- <- _. split; [intros s []|intros d []].
    - injection H as <- <- _. split; [intros s []|intros d []].
    - injection H as <- <- _. split; [|intros d []]. intros s [<-|[]]. cbn. right. apply HU. left. reflexivity.
    - destruct (go_switch rec entries st) as [[[ents fs1] st2]|e] eqn:G; [|discriminate].
      destruct (compile_switch nm c x ents (cs_switch st2) (cs_id st2)) as [[[[cmds fs2] pc'] sid']|e] eqn:CS; [|discriminate].
      injection H as <- <- _.
      destruct (go_switch_ok rec Pr _ _ _ _ _ U F G HU) as [A1 B1].
      { rewrite fnames_app in HF. exact (incl_app_l _ _ _ HF). }
      destruct (compile_switch_inv _ _ _ _ _ _ _ CS) as (start & b0 & rest & _ & _ & PS).
      eapply switch_like_ok; eauto.
      intros cs Hc. apply in_map_iff in Hc. destruct Hc as (e & <- & He). cbn [snd]. apply A1. exact He.
    - destruct (go_hard rec tmpl tail (hardcode_labels b cnt) st) as [[[bodies fs1] st2]|e] eqn:G; [|discriminate].
      destruct (compile_hardcode nm c x _ b cnt (cs_hard st2) (cs_id st2)) as [[[[cmds fs2] pc'] sid']|e] eqn:CH; [|discriminate].
      injection H as <- <- _.
      destruct (go_hard_ok rec tmpl tail Pr _ _ _ _ _ U F G HU) as [A1 B1].
      { rewrite fnames_app in HF. exact (incl_app_l _ _ _ HF). }
      unfold compile_hardcode in CH. eapply switch_like_ok; eauto.
      intros cs Hc. apply in_map_iff in Hc. destruct Hc as (i & <- & Hi). cbn [snd].
      destruct (nth_in_or_default (Z.to_nat (i - b)) bodies []) as [Hn| ->]; [apply A1; exact Hn|apply all_ok_nil].
  Qed.

  Lemma compile_items_ok : forall fuel, P_rec (compile_items fuel nm c).
  Proof.
    induction fuel as [|f IH]; intros l st its fs st1 U F H HU HF; [discriminate|].
    destruct l as [|s r].
    - cbn in H. injection H as <- <- _. split; [intros s []|intros d []].
    - rewrite compile_items_S in H.
      destruct (one_stmt (compile_items f nm c) nm c s st) as [[[it fs1] st2]|e] eqn:O; [|discriminate].
      destruct (compile_items f nm c r st2) as [[[its2 fs2] st3]|e] eqn:R; [|discriminate].
      injection H as <- <- _. unfold ucalls_l in HU. cbn [flat_map] in HU. rewrite map_app in HU.
      rewrite fnames_app in HF.
      destruct (one_stmt_ok _ IH _ _ _ _ _ U F O (incl_app_l _ _ _ HU) (incl_app_l _ _ _ HF)) as [A1 B1].
      destruct (IH _ _ _ _ _ U F R (incl_app_r _ _ _ HU) (incl_app_r _ _ _ HF)) as [A2 B2].
      split; [|apply bodies_ok_app; assumption].
      change (it :: its2) with ([it] ++ its2). unfold body_of in *. rewrite flat_map_app.
      apply all_ok_app. split; assumption.
  Qed.

  Lemma compile_functions_ok fuel : forall fl st fs U F,
    compile_functions fuel nm c fl st = Ok fs ->
    incl (map (user_name nm) (ucalls_fl fl)) U -> incl (fnames fs) F ->
    bodies_ok (OKW F U) fs /\
    (forall name, In name (map fst fl) -> In (user_name nm name) (fnames fs)).
  Proof.
    induction fl as [|[name l] fl IH]; intros st fs U F H HU HF; cbn [compile_functions] in H.
    - injection H as <-. split; [intros d []|intros n []].
    - destruct (compile_items fuel nm c l st) as [[[its fs1] st1]|e] eqn:CI; [|discriminate].
      destruct (compile_functions fuel nm c fl st1) as [more|e] eqn:CF; [|discriminate].
      injection H as <-. unfold ucalls_fl in HU. cbn [flat_map snd] in HU. rewrite map_app in HU.
      assert (HF1 : incl (fnames fs1) F).
      { intros f Hf. apply HF. cbn. right. rewrite fnames_app. apply in_or_app. left. exact Hf. }
      assert (HF2 : incl (fnames more) F).
      { intros f Hf. apply HF. cbn. right. rewrite fnames_app. apply in_or_app. right. exact Hf. }
      destruct (compile_items_ok fuel _ _ _ _ _ U F CI (incl_app_l _ _ _ HU) HF1) as [A1 B1].
      destruct (IH _ _ U F CF (incl_app_r _ _ _ HU) HF2) as [B2 N2].
      split.
      + intros d [<-|Hd]; [exact A1|]. apply in_app_or in Hd. destruct Hd; [apply B1|apply B2]; assumption.
      + intros n [<-|Hn]; [left; reflexivity|]. cbn. right. rewrite fnames_app. apply in_or_app. right. apply N2. exact Hn.
  Qed.
End Whole.

(* Whole packs under either strategy (nested switches, Hardcode.switch, user calls): every static call in
   every emitted function is to an emitted function or is a user call written in the source; every macro
   call is `$function <p>$(switch_key)` of an emitted dispatcher <p>select; every user function is emitted. *)
Theorem core_closed_switch fuel nm c fl st fs :
  compile_functions fuel nm c fl st = Ok fs ->
  (forall name, In name (map fst fl) -> In (user_name nm name) (fnames fs)) /\
  (forall f, In f (fcalls fs) -> In f (fnames fs) \/ In f (map (user_name nm) (ucalls_fl fl))) /\
  (forall p k, In (p, k) (fmcalls fs) -> k = "switch_key"%string /\ In (p +++ "select") (fnames fs)).
Proof.
  intros H.
  destruct (compile_functions_ok nm c fuel _ _ _ _ (fnames fs) H (incl_refl _) (incl_refl _)) as [B N].
  split; [exact N|]. split.
  - intros f Hf. apply in_fcalls in Hf. destruct Hf as (d & Hd & Hf). apply calls_sites in Hf. exact (B d Hd _ Hf).
  - intros p k Hf. apply in_fmcalls in Hf. destruct Hf as (d & Hd & Hf). apply mcalls_sites in Hf. exact (B d Hd _ Hf).
Qed.

(* … hence, when every user call names a function of the pack, no static call dangles at all *)
Corollary core_closed_switch_defined fuel nm c fl st fs :
  compile_functions fuel nm c fl st = Ok fs ->
  incl (ucalls_fl fl) (map fst fl) ->
  forall f, In f (fcalls fs) -> In f (fnames fs).
Proof.
  intros H D f Hf. destruct (core_closed_switch _ _ _ _ _ _ H) as (N & C & _).
  destruct (C f Hf) as [X|X]; [exact X|]. apply in_map_iff in X. destruct X as (g & <- & Hg). apply N, D, Hg.
Qed.

Definition closed_funcsb (fs : list func) : bool :=
  forallb (fun f => existsb (String.eqb f) (fnames fs)) (fcalls fs).

(* ------------------------------------------------------------------ one statement, both strategies, in one place *)
Definition switch_closed_spec (nm : names) (c : cfg) (group : string) (cases : list (label * list cmd)) (pc : Z)
           (cmds : list cmd) (fs : list func) : Prop :=
  let inputs := flat_map snd cases in
  (forall f, In f (calls cmds ++ fcalls fs) -> In f (fnames fs) \/ In f (calls inputs)) /\
  (forall p k, In (p, k) (mcalls cmds ++ fmcalls fs) ->
     (is_macro c = true /\ p = macro_prefix nm group pc /\ k = "switch_key"%string) \/ In (p, k) (mcalls inputs)) /\
  if is_macro c then
    let pre := macro_prefix nm group pc in
    In (pre +++ "select", [CMacroCall pre "switch_key"]) fs /\
    In (pre +++ "select") (calls cmds) /\
    (forall v, In (LNum v) (map fst cases) -> In (pre +++ z_dec v) (fnames fs)) /\
    (forall v, ~ In (LNum v) (map fst cases) -> ~ In (pre +++ z_dec v) (fnames fs)) /\
    (In (pre +++ "default") (calls cmds) <-> In LDefault (map fst cases)) /\
    (In (pre +++ "default") (fnames fs) <-> In LDefault (map fst cases))
  else
    calls cmds = [priv_path nm group (z_dec pc)] /\
    In (priv_path nm group (z_dec pc)) (fnames fs) /\
    NoDup (fnames fs).

Lemma parse_switch_statement nm c group x cases start guard1 pc sid cmds fs pc' sid' :
  parse_switch nm c group x cases start guard1 pc sid = Ok (cmds, fs, pc', sid') ->
  switch_closed_spec nm c group cases pc cmds fs.
Proof.
  intros H. destruct (parse_switch_core_closed _ _ _ _ _ _ _ _ _ _ _ _ _ H) as [A B].
  unfold switch_closed_spec. split; [exact A|]. split; [exact B|].
  unfold parse_switch in H. destruct (is_macro c) eqn:M.
  - destruct (parse_switch_macro nm group x cases pc) as [[cmds0 fs0] pc0] eqn:P. injection H as <- <- <- _.
    destruct (macro_names _ _ _ _ _ _ _ _ P) as (S1 & S2 & _ & L1 & L2 & D1 & D2).
    rewrite (has_default_in cases) in D1, D2. repeat split; try assumption; try apply D1; try apply D2.
  - destruct (parse_switch_bst_root _ _ _ _ _ _ _ _ _ _ _ _ H) as [C R].
    destruct (parse_switch_bst_names _ _ _ _ _ _ _ _ _ _ _ _ H) as (N & _).
    repeat split; assumption.
Qed.

Theorem compile_switch_closed nm c x entries pc sid cmds fs pc' sid' :
  compile_switch nm c x entries pc sid = Ok (cmds, fs, pc', sid') ->
  switch_closed_spec nm c SWITCH_CASE_NAME (cases_of entries) pc cmds fs.
Proof.
  intros H. destruct (compile_switch_inv _ _ _ _ _ _ _ H) as (start & b & rest & _ & _ & PS).
  exact (parse_switch_statement _ _ _ _ _ _ _ _ _ _ _ _ _ PS).
Qed.

Theorem compile_hardcode_closed nm c x body b cnt pc sid cmds fs pc' sid' :
  compile_hardcode nm c x body b cnt pc sid = Ok (cmds, fs, pc', sid') ->
  switch_closed_spec nm c HARDCODE_SWITCH_NAME (hard_cases body b cnt) pc cmds fs.
Proof. intros H. exact (parse_switch_statement _ _ _ _ _ _ _ _ _ _ _ _ _ H). Qed.
