(* Proofs.BuildOutSpelling — (C11, strengthening round 5) histories of builds are independent of the SPELLING of the output
   directory: two spellings that `Path.resolve()` maps to the same directory (through a symbolic link, a link chain, `..`
   after a link, a relative path with `..`) give every `#static` argument - relative or absolute - the same static folder,
   hence the same header, the same plan at every step, the same crash prefixes and the same trees.  [lexical] is
   os.path.abspath (= [resolve] with no link table): a header that stores the lexical spelling while rmtree /
   merged_func_tag compare link-resolved paths shields NOTHING below a linked output directory ([lexical_static_lost]),
   and is the same function when no link is on the way ([lexical_is_resolve_unlinked]). *)
From Coq Require Import String List Bool Arith.
From JMCV Require Import Model.FS Model.Build Model.BuildPath Proofs.FS Proofs.Build Proofs.BuildC10 Proofs.BuildPath.
Import ListNotations.
Open Scope string_scope.
Open Scope list_scope.

Lemma static_of_out_spelling_any : forall L o1 o2 c a,
  resolve L [] o1 = resolve L [] o2 ->
  ns_unlinked (mkEnv L o1) c = true ->
  static_of (mkEnv L o1) c a = static_of (mkEnv L o2) c a.
Proof.
  intros L o1 o2 c [[|] s] Ho H.
  - unfold static_of, static_abs, out_canon. cbn [e_links e_out sa_abs sa_segs]. rewrite Ho. reflexivity.
  - change (mkSArg false s) with (rel s). apply static_of_out_spelling; auto.
Qed.

Theorem hdr_of_out_spelling : forall L o1 o2 c rh,
  resolve L [] o1 = resolve L [] o2 -> ns_unlinked (mkEnv L o1) c = true ->
  hdr_of (mkEnv L o1) c rh = hdr_of (mkEnv L o2) c rh.
Proof.
  intros L o1 o2 c rh Ho H. unfold hdr_of. f_equal. apply map_ext. intros a. apply static_of_out_spelling_any; auto.
Qed.

(* one build: same plan, same result *)
Theorem run_out_spelling : forall v L o1 o2 c rh out fault t,
  resolve L [] o1 = resolve L [] o2 -> ns_unlinked (mkEnv L o1) c = true ->
  run_spelled v (mkEnv L o1) c rh out fault t = run_spelled v (mkEnv L o2) c rh out fault t.
Proof. intros. unfold run_spelled. rewrite (hdr_of_out_spelling L o1 o2); auto. Qed.

(* a history: each step is a project (header as written, front-end outcome), possibly an injected failure, and the number
   of file-system operations after which the process is killed (None = runs to its end); the next build starts from the
   tree that prefix leaves.  [hist] = the trees after each step (None: an operation of the model could not be applied). *)
Record hstep := mkStep { hs_hdr : rhdr; hs_out : outcome; hs_fault : option path; hs_kill : option nat }.

Definition step_ops (v : variant) (E : penv) (c : cfg) (s : hstep) (t : fs) : list op :=
  let pl := plan_spelled v E c (hs_hdr s) (hs_out s) (hs_fault s) t in
  match hs_kill s with Some k => firstn k pl | None => pl end.

Fixpoint hist (v : variant) (E : penv) (c : cfg) (steps : list hstep) (t : fs) : list (option fs * result) :=
  match steps with
  | [] => []
  | s :: r =>
      let res := snd (run_spelled v E c (hs_hdr s) (hs_out s) (hs_fault s) t) in
      match exec (step_ops v E c s t) t with
      | Some t' => (Some t', res) :: hist v E c r t'
      | None => [(None, res)]
      end
  end.

Theorem hist_out_spelling : forall v L o1 o2 c steps t,
  resolve L [] o1 = resolve L [] o2 -> ns_unlinked (mkEnv L o1) c = true ->
  hist v (mkEnv L o1) c steps t = hist v (mkEnv L o2) c steps t.
Proof.
  intros v L o1 o2 c steps. induction steps as [|s r IH]; intros t Ho H; simpl; auto.
  unfold step_ops, plan_spelled. rewrite (run_out_spelling v L o1 o2); auto.
  destruct (exec _ t); auto. rewrite IH; auto.
Qed.

(* every crash prefix (torn writes included) of a step is a crash prefix under the other spelling *)
Theorem crash_trace_out_spelling : forall v L o1 o2 c rh out fault t ops,
  resolve L [] o1 = resolve L [] o2 -> ns_unlinked (mkEnv L o1) c = true ->
  crash_trace (plan_spelled v (mkEnv L o1) c rh out fault t) ops ->
  crash_trace (plan_spelled v (mkEnv L o2) c rh out fault t) ops.
Proof. intros v L o1 o2 c rh out fault t ops Ho H X. unfold plan_spelled in *. rewrite <- (run_out_spelling v L o1 o2); auto. Qed.

(* ------------------------------------------------------------------ the lexical spelling (os.path.abspath) *)

Definition lexical (s : spelled) : path := resolve [] [] s.

(* the static folder a header computes when it normalises lexically while the consumers resolve links *)
Definition static_lexical (E : penv) (c : cfg) (a : sarg) : path :=
  to_model (out_canon E) (lexical (if sa_abs a then sa_segs a else e_out E ++ ["data"; c_ns c] ++ sa_segs a)).

Lemma link_at_nil : forall p, link_at p [] = None.
Proof. reflexivity. Qed.

(* without links both are the same function *)
Theorem lexical_is_resolve_unlinked : forall o c a, static_lexical (mkEnv [] o) c a = static_of (mkEnv [] o) c a.
Proof. intros. reflexivity. Qed.

(* below a linked output directory the lexical spelling is a location OUTSIDE the tree the deletion phase walks: nothing is
   excepted, the rebuild deletes the hand-made files; with the resolved spelling (Model/BuildPath.v, the code) they stay *)
Definition l_E : penv := mkEnv p_links ["w"; "outlnk"].
Definition l_rh : rhdr := mkRHdr [rel ["keep"]] [] None false.
Definition l_lex_hdr : hdr := mkHdr [static_lexical l_E p_cfg (rel ["keep"])] [] None false.
Definition l_after_lex : fs := run_ops (fst (run guarded p_cfg l_lex_hdr (Success p_out) None p_tree)) p_tree.
Definition l_after : fs := run_ops (plan_spelled guarded l_E p_cfg l_rh (Success p_out) None p_tree) p_tree.

Lemma lexical_static_lost :
  static_lexical l_E p_cfg (rel ["keep"]) = ["<outside>"; "w"; "outlnk"; "data"; "ns"; "keep"] /\
  static_of l_E p_cfg (rel ["keep"]) = ["."; "data"; "ns"; "keep"] /\
  exec (fst (run guarded p_cfg l_lex_hdr (Success p_out) None p_tree)) p_tree = Some l_after_lex /\
  node_at l_after_lex ["."; "data"; "ns"; "keep"; "a.txt"] = None /\
  exec (plan_spelled guarded l_E p_cfg l_rh (Success p_out) None p_tree) p_tree = Some l_after /\
  node_at l_after ["."; "data"; "ns"; "keep"; "a.txt"] = Some (NFile (Raw "precious")).
Proof. repeat split; vm_compute; reflexivity. Qed.

(* non-vacuity of hist_out_spelling: build, kill after 3 operations, rebuild - through the link and directly *)
Definition l_steps : list hstep :=
  [mkStep l_rh (Success p_out) None None; mkStep l_rh (Success p_out) None (Some 3); mkStep l_rh (Success p_out) None None].

Lemma l_hist_same :
  hist guarded l_E p_cfg l_steps p_tree = hist guarded (mkEnv p_links ["w"; "proj"; ".."; "out"]) p_cfg l_steps p_tree /\
  length (hist guarded l_E p_cfg l_steps p_tree) = 3 /\
  forallb (fun r => match r with (Some t, _) => match node_at t ["."; "data"; "ns"; "keep"; "a.txt"] with Some _ => true | None => false end
                                | _ => false end) (hist guarded l_E p_cfg l_steps p_tree) = true.
Proof.
  split.
  - apply hist_out_spelling; vm_compute; reflexivity.
  - split; vm_compute; reflexivity.
Qed.
