(* Proofs.LitSpell — C09 (round 4): every way of SPELLING a value between the quotes decodes to that value.
   A spelling is a list of items (Model.Lit.sp): raw character, one-letter escape, unknown escape (kept),
   backslash-newline, \o \oo \ooo, \xhh \uhhhh \Uhhhhhhhh (any case of the digits), \N{name}.  The theorem
   is over code points: whatever non-ASCII characters stand next to the escapes are untouched. *)
From Coq Require Import ZArith Bool String Ascii List Lia.
From JMCV Require Import Model.Lit Proofs.LitBase Proofs.LitPy.
Import ListNotations.
Open Scope Z_scope.

(* ------------------------------------------------------------------ character classes *)
Lemma is_oct_range c : is_oct c = true -> 48 <= c <= 55.
Proof. unfold is_oct. intros H. apply andb_true_iff in H as [H1 H2]. apply Z.leb_le in H1, H2. lia. Qed.

Lemma is_hex_range c : is_hex c = true -> 48 <= c <= 57 \/ 65 <= c <= 70 \/ 97 <= c <= 102.
Proof.
  unfold is_hex, hexval. intros H.
  destruct ((48 <=? c) && (c <=? 57)) eqn:E1.
  { apply andb_true_iff in E1 as [A B]. apply Z.leb_le in A, B. lia. }
  destruct ((97 <=? c) && (c <=? 102)) eqn:E2.
  { apply andb_true_iff in E2 as [A B]. apply Z.leb_le in A, B. lia. }
  destruct ((65 <=? c) && (c <=? 70)) eqn:E3.
  { apply andb_true_iff in E3 as [A B]. apply Z.leb_le in A, B. lia. }
  discriminate.
Qed.

Lemma plain_of_range q c : q = 34 \/ q = 39 -> 48 <= c <= 125 -> c <> 92 -> plain_char q c = true.
Proof.
  intros Hq Hc H92. unfold plain_char.
  assert (E1 : (c =? 92) = false) by (apply Z.eqb_neq; lia).
  assert (E2 : (c =? 10) = false) by (apply Z.eqb_neq; lia).
  assert (E3 : (c =? q) = false) by (apply Z.eqb_neq; lia).
  now rewrite E1, E2, E3.
Qed.

Lemma oct_plain q ds : q = 34 \/ q = 39 -> forallb is_oct ds = true -> forallb (plain_char q) ds = true.
Proof.
  intros Hq. induction ds as [|c r IH]; cbn [forallb]; [reflexivity|]. intros H.
  apply andb_true_iff in H as [Hc Hr]. apply is_oct_range in Hc.
  rewrite IH by assumption. rewrite plain_of_range; auto; lia.
Qed.

Lemma hex_plain q ds : q = 34 \/ q = 39 -> forallb is_hex ds = true -> forallb (plain_char q) ds = true.
Proof.
  intros Hq. induction ds as [|c r IH]; cbn [forallb]; [reflexivity|]. intros H.
  apply andb_true_iff in H as [Hc Hr]. apply is_hex_range in Hc.
  rewrite IH by assumption. rewrite plain_of_range; auto; lia.
Qed.

(* ------------------------------------------------------------------ pass 1: the tokenizer's scan *)
Lemma scan_plain_app q p rest t :
  forallb (plain_char q) p = true -> scan q false rest = Ok t -> scan q false (p ++ rest) = Ok (p ++ t).
Proof.
  intros Hp Hr. induction p as [|c p IH]; [exact Hr|].
  cbn [forallb] in Hp. apply andb_true_iff in Hp as [Hc Hp]. apply plain_char_spec in Hc as (H1 & H2 & H3).
  apply Z.eqb_neq in H1, H2, H3. cbn [app scan]. rewrite H1, H2, H3, IH by assumption. reflexivity.
Qed.

(* backslash + a character that is not a line feed + plain text *)
Lemma scan_escape_app q c p rest t :
  c <> 10 -> forallb (plain_char q) p = true -> scan q false rest = Ok t ->
  scan q false (92 :: c :: p ++ rest) = Ok (92 :: c :: p ++ t).
Proof.
  intros Hc Hp Hr. cbn [scan]. cbn [Z.eqb Pos.eqb]. apply Z.eqb_neq in Hc. rewrite Hc.
  rewrite (scan_plain_app q p rest t Hp Hr). reflexivity.
Qed.

Lemma simple_escape_not_lf e v : simple_escape e = Some v -> e <> 10.
Proof. intros H E. subst e. discriminate. Qed.

Lemma scan_item q nm next x rest t :
  q = 34 \/ q = 39 -> sp_ok q nm next x = true -> scan q false rest = Ok t ->
  scan q false (sp_src1 x ++ rest) = Ok (sp_scanned1 x ++ t).
Proof.
  intros Hq Hok Hr. destruct x as [c|e|c| |ds|ds|n]; cbn [sp_src1 sp_scanned1 sp_ok] in *.
  - apply (scan_plain_app q [c] rest t); [cbn [forallb]; now rewrite Hok|assumption].
  - destruct (simple_escape e) as [v|] eqn:E; [|discriminate].
    apply (scan_escape_app q e [] rest t); [eapply simple_escape_not_lf; eauto|reflexivity|assumption].
  - repeat (apply andb_true_iff in Hok as [Hok ?]).
    apply (scan_escape_app q c [] rest t); [|reflexivity|assumption].
    match goal with H : negb (c =? 10) = true |- _ => apply negb_true_iff, Z.eqb_neq in H; exact H end.
  - cbn [app scan]. cbn [Z.eqb Pos.eqb]. exact Hr.
  - apply andb_true_iff in Hok as [Hd Hl].
    destruct ds as [|d ds]; [discriminate|]. cbn [forallb] in Hd. apply andb_true_iff in Hd as [Hd1 Hd2].
    cbn [app]. apply scan_escape_app; [apply is_oct_range in Hd1; lia|now apply oct_plain|assumption].
  - apply andb_true_iff in Hok as [Hok Hl]. apply andb_true_iff in Hok as [Hd Hv].
    change ((92 :: hex_letter (length ds) :: ds) ++ rest) with (92 :: hex_letter (length ds) :: ds ++ rest).
    change ((92 :: hex_letter (length ds) :: ds) ++ t) with (92 :: hex_letter (length ds) :: ds ++ t).
    apply scan_escape_app; [|now apply hex_plain|assumption].
    unfold hex_letter. destruct (length ds) as [|[|[|[|[|k]]]]]; discriminate.
  - apply andb_true_iff in Hok as [Hok Hb]. apply andb_true_iff in Hok as [_ Hp].
    change ((92 :: 78 :: 123 :: n ++ [125]) ++ rest) with (92 :: 78 :: (123 :: n ++ [125]) ++ rest).
    change ((92 :: 78 :: 123 :: n ++ [125]) ++ t) with (92 :: 78 :: (123 :: n ++ [125]) ++ t).
    apply scan_escape_app; [discriminate| |assumption].
    cbn [forallb]. rewrite forallb_app, Hp. cbn [forallb].
    rewrite !plain_of_range; auto; lia.
Qed.

Lemma scan_spelling q nm l :
  q = 34 \/ q = 39 -> sp_all_ok q nm l = true -> scan q false (sp_src l) = Ok (sp_scanned l).
Proof.
  intros Hq. induction l as [|x r IH]; [reflexivity|]. cbn [sp_all_ok]. intros H.
  apply andb_true_iff in H as [Hx Hr]. unfold sp_src, sp_scanned. cbn [flat_map].
  eapply scan_item; [exact Hq|exact Hx|]. exact (IH Hr).
Qed.

(* ------------------------------------------------------------------ pass 2: Python's escapes *)
Ltac neqb := apply Z.eqb_neq; lia.

Lemma simple_escape_digit c : 48 <= c <= 57 -> simple_escape c = None.
Proof.
  intros H. unfold simple_escape.
  replace (c =? 92) with false by (symmetry; neqb). replace (c =? 39) with false by (symmetry; neqb).
  replace (c =? 34) with false by (symmetry; neqb). replace (c =? 97) with false by (symmetry; neqb).
  replace (c =? 98) with false by (symmetry; neqb). replace (c =? 102) with false by (symmetry; neqb).
  replace (c =? 110) with false by (symmetry; neqb). replace (c =? 114) with false by (symmetry; neqb).
  replace (c =? 116) with false by (symmetry; neqb). replace (c =? 118) with false by (symmetry; neqb).
  reflexivity.
Qed.

(* an octal run that stops because something else follows *)
Lemma pyun_oct_stop nm bad k acc s t :
  starts_oct s = false -> pyun nm bad PNorm s = Ok t -> pyun nm bad (POct k acc) s = Ok (acc :: t).
Proof.
  intros Hs Ht. destruct s as [|c r].
  - cbn [pyun] in *. inversion Ht. reflexivity.
  - cbn [starts_oct] in Hs. cbn [pyun]. rewrite Hs.
    cbn [pyun] in Ht. destruct (c =? 92) eqn:E.
    + now rewrite Ht.
    + destruct (pyun nm bad PNorm r) as [u| | |]; cbn [rmap] in *; try discriminate. inversion Ht. reflexivity.
Qed.

Lemma pyun_oct nm bad ds s t :
  forallb is_oct ds = true ->
  match length ds with 1%nat | 2%nat => negb (starts_oct s) | 3%nat => true | _ => false end = true ->
  pyun nm bad PNorm s = Ok t ->
  pyun nm bad PNorm (92 :: ds ++ s) = Ok (octfold ds :: t).
Proof.
  intros Hd Hl Ht. unfold octfold.
  destruct ds as [|d1 ds]; [discriminate|].
  cbn [forallb] in Hd. apply andb_true_iff in Hd as [H1 Hd].
  cbn [app pyun]. cbn [Z.eqb Pos.eqb]. rewrite simple_escape_digit by (apply is_oct_range in H1; lia). rewrite H1.
  destruct ds as [|d2 ds].
  { cbn [length] in Hl. apply negb_true_iff in Hl. cbn [app fold_left]. now apply pyun_oct_stop. }
  cbn [forallb] in Hd. apply andb_true_iff in Hd as [H2 Hd].
  cbn [app pyun]. rewrite H2.
  destruct ds as [|d3 ds].
  { cbn [length] in Hl. apply negb_true_iff in Hl. cbn [app fold_left]. now apply pyun_oct_stop. }
  cbn [forallb] in Hd. apply andb_true_iff in Hd as [H3 Hd].
  destruct ds as [|d4 ds]; [|discriminate].
  cbn [app pyun]. rewrite H3, Ht. reflexivity.
Qed.

Lemma pyun_hex_step nm bad k acc d v r :
  hexval d = Some v -> pyun nm bad (PHex (S (S k)) acc) (d :: r) = pyun nm bad (PHex (S k) (acc * 16 + v)) r.
Proof. intros E. cbn [pyun]. now rewrite E. Qed.

Lemma pyun_hex_digits nm bad ds : forall acc s,
  ds <> [] -> forallb is_hex ds = true ->
  pyun nm bad (PHex (length ds) acc) (ds ++ s) =
  let v := fold_left (fun a c => a * 16 + match hexval c with Some d => d | None => 0 end) ds acc in
  if v <=? 1114111 then rmap (cons v) (pyun nm bad PNorm s) else bad.
Proof.
  induction ds as [|d ds IH]; intros acc s Hne Hd; [congruence|].
  cbn [forallb] in Hd. apply andb_true_iff in Hd as [H1 Hd].
  unfold is_hex in H1. destruct (hexval d) as [v|] eqn:E; [|discriminate].
  destruct ds as [|d' ds].
  - cbn [length app pyun fold_left]. rewrite E. reflexivity.
  - cbn [length app]. rewrite (pyun_hex_step nm bad (length ds) acc d v) by exact E.
    change (d' :: ds ++ s) with ((d' :: ds) ++ s).
    change (S (length ds)) with (length (d' :: ds)).
    rewrite IH by (try discriminate; assumption).
    cbn [fold_left]. rewrite E. reflexivity.
Qed.

Lemma pyun_hex nm bad ds s t :
  forallb is_hex ds = true -> hexfold ds <= 1114111 ->
  match length ds with 2%nat | 4%nat | 8%nat => true | _ => false end = true ->
  pyun nm bad PNorm s = Ok t ->
  pyun nm bad PNorm (92 :: hex_letter (length ds) :: ds ++ s) = Ok (hexfold ds :: t).
Proof.
  intros Hd Hv Hl Ht.
  assert (Hne : ds <> []) by (destruct ds; [discriminate|discriminate]).
  pose proof (pyun_hex_digits nm bad ds 0 s Hne Hd) as P. cbv zeta in P.
  fold (hexfold ds) in P. apply Z.leb_le in Hv. rewrite Hv, Ht in P. cbn [rmap] in P.
  destruct (length ds) as [|[|[|[|[|[|[|[|[|k]]]]]]]]] eqn:El; try discriminate;
    cbn [hex_letter pyun]; cbn [Z.eqb Pos.eqb simple_escape is_oct Z.leb Z.compare Pos.compare Pos.compare_cont andb];
    exact P.
Qed.

Lemma pyun_name_chars nm bad n : forall acc s,
  memz 125 n = false ->
  pyun nm bad (PName acc) (n ++ 125 :: s) =
  match nm (rev acc ++ n) with Some v => rmap (cons v) (pyun nm bad PNorm s) | None => bad end.
Proof.
  induction n as [|c n IH]; intros acc s Hn.
  - cbn [app pyun]. cbn [Z.eqb Pos.eqb]. now rewrite app_nil_r.
  - cbn [memz existsb] in Hn. apply orb_false_iff in Hn as [Hc Hn]. rewrite Z.eqb_sym in Hc.
    cbn [app pyun]. rewrite Hc. rewrite IH by exact Hn. cbn [rev]. now rewrite <- app_assoc.
Qed.

Lemma pyun_name nm bad n v s t :
  nm n = Some v -> memz 125 n = false -> pyun nm bad PNorm s = Ok t ->
  pyun nm bad PNorm (92 :: 78 :: 123 :: n ++ 125 :: s) = Ok (v :: t).
Proof.
  intros Hv Hn Ht. cbn [pyun]. cbn [Z.eqb Pos.eqb simple_escape is_oct Z.leb Z.compare Pos.compare Pos.compare_cont andb].
  rewrite pyun_name_chars by assumption. cbn [rev app]. now rewrite Hv, Ht.
Qed.

Lemma pyun_item q nm bad x s t :
  sp_ok q nm s x = true -> pyun nm bad PNorm s = Ok t ->
  pyun nm bad PNorm (sp_scanned1 x ++ s) = Ok (sp_val1 nm x ++ t).
Proof.
  intros Hok Ht. destruct x as [c|e|c| |ds|ds|n]; cbn [sp_src1 sp_scanned1 sp_ok sp_val1] in *.
  - apply plain_char_spec in Hok as (H1 & _). apply Z.eqb_neq in H1.
    cbn [app pyun]. now rewrite H1, Ht.
  - destruct (simple_escape e) as [v|] eqn:E; [|discriminate].
    cbn [app pyun]. cbn [Z.eqb Pos.eqb]. now rewrite E, Ht.
  - repeat (apply andb_true_iff in Hok as [Hok ?]).
    repeat match goal with H : negb _ = true |- _ => apply negb_true_iff in H end.
    destruct (simple_escape c) eqn:E; [discriminate|].
    cbn [app pyun]. cbn [Z.eqb Pos.eqb]. rewrite E.
    repeat match goal with H : _ = false |- _ => rewrite H; clear H end. now rewrite Ht.
  - exact Ht.
  - apply andb_true_iff in Hok as [Hd Hl]. now apply pyun_oct.
  - apply andb_true_iff in Hok as [Hok Hl]. apply andb_true_iff in Hok as [Hd Hv]. apply Z.leb_le in Hv.
    change ((92 :: hex_letter (length ds) :: ds) ++ s) with (92 :: hex_letter (length ds) :: ds ++ s).
    now apply pyun_hex.
  - apply andb_true_iff in Hok as [Hok Hb]. apply andb_true_iff in Hok as [Hv _].
    destruct (nm n) as [v|] eqn:E; [|discriminate]. apply negb_true_iff in Hb.
    change ((92 :: 78 :: 123 :: n ++ [125]) ++ s) with (92 :: 78 :: 123 :: (n ++ [125]) ++ s).
    rewrite <- app_assoc. cbn [app]. now apply pyun_name.
Qed.

Lemma pyun_spelling q nm bad l :
  sp_all_ok q nm l = true -> pyun nm bad PNorm (sp_scanned l) = Ok (sp_val nm l).
Proof.
  induction l as [|x r IH]; [reflexivity|]. cbn [sp_all_ok]. intros H.
  apply andb_true_iff in H as [Hx Hr]. unfold sp_scanned, sp_val. cbn [flat_map].
  eapply pyun_item; [exact Hx|]. exact (IH Hr).
Qed.

(* ------------------------------------------------------------------ the theorem *)
Theorem decode_spelling nm bad q l :
  q = 34 \/ q = 39 -> sp_all_ok q nm l = true -> decode_with nm bad q (sp_src l) = Ok (sp_val nm l).
Proof.
  intros Hq Hok. unfold decode_with. rewrite (scan_spelling q nm l Hq Hok). cbn [rbind].
  now apply (pyun_spelling q).
Qed.

(* two spellings of one value are interchangeable *)
Corollary decode_spellings_agree nm q l1 l2 :
  q = 34 \/ q = 39 -> sp_all_ok q nm l1 = true -> sp_all_ok q nm l2 = true ->
  sp_val nm l1 = sp_val nm l2 -> decode nm q (sp_src l1) = decode nm q (sp_src l2).
Proof.
  intros Hq H1 H2 E. unfold decode. rewrite !decode_spelling by assumption. now rewrite E.
Qed.

(* the canonical spelling of Props.C09_decode_escaped is one of them *)
Definition sp_canon (q c : Z) : sp :=
  if c =? 92 then SpSimple 92 else if c =? q then SpSimple q else if c =? 10 then SpSimple 110 else SpRaw c.

Lemma sp_canon_src q s : sp_src (map (sp_canon q) s) = py_quote q s.
Proof.
  induction s as [|c s IH]; [reflexivity|]. unfold sp_src, py_quote in *. cbn [map flat_map]. rewrite IH.
  f_equal. unfold sp_canon, py_quote_char. destruct (c =? 92) eqn:E1; [reflexivity|].
  destruct (c =? q); [reflexivity|]. destruct (c =? 10); reflexivity.
Qed.

Lemma sp_canon_ok q nm s : q = 34 \/ q = 39 -> sp_all_ok q nm (map (sp_canon q) s) = true.
Proof.
  intros Hq. induction s as [|c s IH]; [reflexivity|]. cbn [map sp_all_ok]. rewrite IH, andb_true_r.
  unfold sp_canon. destruct (c =? 92) eqn:E1; [reflexivity|].
  destruct (c =? q) eqn:E2; [destruct Hq; subst q; reflexivity|].
  destruct (c =? 10) eqn:E3; [reflexivity|]. cbn [sp_ok]. unfold plain_char. now rewrite E1, E2, E3.
Qed.

(* every value has a spelling *)
Theorem spelling_exists nm q s : q = 34 \/ q = 39 -> exists l, sp_all_ok q nm l = true /\ sp_val nm l = s.
Proof.
  intros Hq. exists (map (sp_canon q) s). split; [now apply sp_canon_ok|].
  induction s as [|c s IH]; [reflexivity|]. unfold sp_val in *. cbn [map flat_map]. rewrite IH.
  unfold sp_canon. destruct (c =? 92) eqn:E1; [apply Z.eqb_eq in E1; subst; reflexivity|].
  destruct (c =? q) eqn:E2; [apply Z.eqb_eq in E2; subst c; destruct Hq; subst q; reflexivity|].
  destruct (c =? 10) eqn:E3; [apply Z.eqb_eq in E3; subst; reflexivity|]. reflexivity.
Qed.
