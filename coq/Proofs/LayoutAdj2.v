(* Proofs.LayoutAdj2 — the invariant of Proofs.LayoutAdj is preserved by every transition. *)
From Coq Require Import ZArith String List Bool Ascii Lia.
From JMCV Require Import Model.Layout Proofs.LayoutBasic Proofs.LayoutAdj.
Import ListNotations.
Open Scope Z_scope.

Ltac inv_ok :=
  repeat match goal with
  | H : Ok _ = Ok _ |- _ => injection H as H; try subst
  | H : Err _ = Ok _ |- _ => discriminate H
  | H : (_, _) = (_, _) |- _ => injection H as ? ?; try subst
  end.

Ltac break_hyp :=
  match goal with
  | H : context [if ?x then _ else _] |- _ => destruct x eqn:?
  | H : context [match ?x with _ => _ end] |- _ => destruct x eqn:?
  end.

Section Inv2.
Variable mt : mtable.
Variable cf : bool.
Variable es : bool.
Hypothesis Hmt : mt_ok mt.

(* ------------------------------------------------------------------ s_ev is monotone *)
Lemma append_token_ev ty st st' : append_token mt ty st = Ok st' -> s_ev st' = s_ev st.
Proof.
  unfold append_token. destruct (s_tpos st). destruct ty; try (intros H; inv_ok; reflexivity).
  destruct (lookup_macro mt _) as [m|]; [destruct (m_arity m)|]; intros H; inv_ok; reflexivity.
Qed.
Lemma append_token_shape ty st st' : append_token mt ty st = Ok st' -> exists toks, st' = push_tokens st toks.
Proof.
  unfold append_token. destruct (s_tpos st). destruct ty; try (intros H; inv_ok; eexists; reflexivity).
  destruct (lookup_macro mt _) as [m|]; [destruct (m_arity m)|]; intros H; inv_ok; eexists; reflexivity.
Qed.
Lemma append_keywords_ev st st' : append_keywords st = Ok st' -> s_ev st' = s_ev st.
Proof. unfold append_keywords. destruct (s_kws st); intros H; inv_ok; reflexivity. Qed.

Ltac use_ev :=
  repeat match goal with
  | A : append_token _ _ _ = Ok _ |- _ => apply append_token_ev in A; cbn in A
  | A : append_keywords _ = Ok _ |- _ => apply append_keywords_ev in A; cbn in A
  end.

Lemma parse_none_ev st c st' b : parse_none mt st c = Ok (st', b) -> s_ev st = true -> s_ev st' = true.
Proof.
  unfold parse_none. intros H E.
  repeat (break_hyp; inv_ok; try discriminate); inv_ok; use_ev; cbn in *; try congruence; auto.
Qed.

Lemma parse_kw_op_ev st c st' b : parse_kw_op mt es st c = Ok (st', b) -> s_ev st = true -> s_ev st' = true.
Proof.
  unfold parse_kw_op. intros H E.
  repeat (break_hyp; inv_ok; try discriminate); inv_ok; use_ev; cbn in *; try congruence; auto.
Qed.

Lemma parse_newline_ev st st' : parse_newline mt st = Ok st' -> s_ev st = true -> s_ev st' = true.
Proof.
  unfold parse_newline. intros H E.
  repeat (break_hyp; inv_ok; try discriminate); inv_ok; use_ev; cbn in *; try congruence; auto.
Qed.

Lemma parse_string_ev st c st' : parse_string mt st c = Ok st' -> s_ev st = true -> s_ev st' = true.
Proof.
  unfold parse_string. intros H E.
  repeat (break_hyp; inv_ok; try discriminate); inv_ok; use_ev; cbn in *; try congruence; auto.
Qed.

Lemma parse_paren_ev st c st' b : parse_paren mt cf es st c = Ok (st', b) -> s_ev st = true -> s_ev st' = true.
Proof.
  unfold parse_paren. intros H E.
  repeat (break_hyp; inv_ok; try discriminate); inv_ok; use_ev; cbn in *; try congruence; auto.
Qed.

(* ------------------------------------------------------------------ helpers *)
Lemma adv_one p c : is_nl c = false -> adv p [c] = nxt p.
Proof. intros H. cbn. rewrite H. reflexivity. Qed.

Lemma good_after_push p st t r :
  chain_r (t :: r ++ s_kws st) -> Forall chain (s_lkws st) -> tok_end t = p ->
  good p (push_tokens st (rev (t :: r))).
Proof.
  intros Hc Hl He. unfold good, link, link_idle, extent. cbn.
  rewrite rev_app_distr, rev_involutive. cbn.
  assert (G : match rev r ++ [t] with [] => negb (s_pglued st) | _ :: _ => false end = false)
    by (destruct (rev r); reflexivity).
  rewrite G. repeat split; try assumption. discriminate.
Qed.

Lemma link_start p st k c :
  (s_line st, s_col st) = p -> link_idle p st -> link_pending (start_token st k c).
Proof.
  intros Hp H. unfold link_idle, link_pending in *. cbn. destruct (s_kws st) as [|a K]; [exact I|].
  rewrite Hp. destruct (s_gap st); cbn; assumption.
Qed.

Lemma link_idle_step p st : link_idle p st -> link_idle (nxt p) (set_gap st true).
Proof.
  unfold link_idle. cbn. destruct (s_kws st) as [|a K]; [auto|].
  destruct (s_gap st); intros H.
  - eapply plt_trans; [exact H|apply plt_nxt].
  - rewrite H. apply plt_nxt.
Qed.

Lemma good_idle_tstr p st : good p st -> pending (s_kind st) = false -> s_tstr st = [].
Proof. intros (_ & _ & _ & He & _) Hk. unfold extent in He. destruct (s_kind st); try discriminate; assumption. Qed.

Lemma append_keywords_good p st st' :
  append_keywords st = Ok st' -> chain_r (s_kws st) -> Forall chain (s_lkws st) -> s_tstr st = [] ->
  s_kind st = SNone -> good p st'.
Proof.
  unfold append_keywords. destruct (s_kws st) as [|a K] eqn:E; [discriminate|]. intros H Hc Hl Ht Hk. inv_ok.
  unfold good, link, link_idle, extent. cbn. rewrite Hk. cbn.
  split; [constructor|]. split; [|repeat split; auto; discriminate].
  constructor; [|assumption]. change (rev K ++ [a]) with (rev (a :: K)). apply chain_rev. assumption.
Qed.

(* ------------------------------------------------------------------ __parse_none *)
Lemma parse_none_inv st c st' b :
  parse_none mt st c = Ok (st', b) -> is_nl c = false ->
  s_kind st = SNone -> good (s_line st, s_col st) st -> PIp (nxt (s_line st, s_col st)) st'.
Proof.
  intros H Hnl Hk Hg. pose proof Hg as (Hc & Hl & Hlk & He & Hcm).
  unfold link in Hlk. rewrite Hk in Hlk. cbn in Hlk.
  assert (Ht : s_tstr st = []) by (unfold extent in He; rewrite Hk in He; exact He).
  unfold parse_none in H.
  destruct (is_quote c) eqn:Eq.
  { inv_ok. right. unfold good, link, extent. cbn. repeat split; auto; try discriminate.
    - apply (link_start _ st SString c eq_refl Hlk).
    - first [apply adv_one; assumption | rewrite Hnl; reflexivity].
    - unfold count_nl, len. cbn. rewrite Hnl. reflexivity. }
  destruct (is_ws c) eqn:Ew.
  { inv_ok. right. unfold good, link, extent. cbn. rewrite Hk. cbn. repeat split; auto; try discriminate.
    apply link_idle_step. assumption. }
  destruct (Ascii.eqb c SEMI) eqn:Es.
  { destruct (append_keywords st) as [st1|] eqn:Ea; [|discriminate]. inv_ok. right.
    eapply append_keywords_good; eauto. }
  destruct (is_lparen c) eqn:Elp.
  { inv_ok. right. unfold good, link, extent. cbn. repeat split; auto; try discriminate.
    - apply (link_start _ st SParen c eq_refl Hlk).
    - first [apply adv_one; assumption | rewrite Hnl; reflexivity]. }
  destruct (is_rparen c); [discriminate|].
  destruct (Ascii.eqb c HASH && match s_kws st with [] => true | _ => false end) eqn:Eh.
  { inv_ok. left. reflexivity. }
  destruct (Ascii.eqb c COMMA_C) eqn:Ec.
  { destruct (append_token mt COMMA (start_token st SNone c)) as [st1|] eqn:Ea; [|discriminate]. inv_ok.
    eapply (append_token_inv mt Hmt (nxt (s_line st, s_col st))) in Ea.
    - destruct Ea as (t & r & -> & Hch & Hte). right. apply good_after_push; cbn; assumption.
    - cbn. assumption.
    - apply (link_start _ st SNone c eq_refl Hlk).
    - rewrite tok_end_plain by discriminate. cbn. rewrite Hnl. reflexivity.
    - discriminate. }
  destruct (is_op c).
  - inv_ok. right. unfold good, link, extent. cbn. repeat split; auto; try discriminate.
    + apply (link_start _ st SOperator c eq_refl Hlk).
    + first [apply adv_one; assumption | rewrite Hnl; reflexivity].
    + unfold count_nl, len. cbn. rewrite Hnl. reflexivity.
  - inv_ok. right. unfold good, link, extent. cbn. repeat split; auto; try discriminate.
    + apply (link_start _ st SKeyword c eq_refl Hlk).
    + first [apply adv_one; assumption | rewrite Hnl; reflexivity].
    + unfold count_nl, len. cbn. rewrite Hnl. reflexivity.
Qed.

(* ------------------------------------------------------------------ keyword / operator tokens *)
Definition is_kwop (k : skind) : bool := match k with SKeyword | SOperator => true | _ => false end.

Lemma kind_ty_not_string k : kind_ty k <> STRING.
Proof. destruct k; discriminate. Qed.

Lemma flush_inv_at p ty st st1 :
  ty = KEYWORD \/ ty = OPERATOR ->
  is_kwop (s_kind st) = true -> good p st ->
  append_token mt ty st = Ok st1 ->
  good p st1 /\ s_kind st1 = SNone /\ s_line st1 = s_line st /\ s_col st1 = s_col st /\
  s_gap st1 = false /\ s_allowsc st1 = s_allowsc st.
Proof.
  intros Hty Hk (Hc & Hl & Hlk & He & _) Ha.
  unfold link in Hlk. unfold extent in He.
  destruct (s_kind st) eqn:Ek; try discriminate; cbn in Hlk; destruct He as [He1 He2].
  all: eapply (append_token_inv mt Hmt p) in Ha;
    [ destruct Ha as (t & r & -> & Hch & Hte); split; [apply good_after_push; assumption|];
      cbn; repeat split; destruct (rev r); reflexivity
    | assumption | assumption
    | rewrite tok_end_plain by (destruct Hty; subst; discriminate); rewrite <- surjective_pairing; exact He1
    | intros _; exact He1 ].
Qed.

Lemma flush_inv ty st st1 :
  ty = KEYWORD \/ ty = OPERATOR ->
  is_kwop (s_kind st) = true -> good (s_line st, s_col st) st ->
  append_token mt ty st = Ok st1 ->
  good (s_line st, s_col st) st1 /\ s_kind st1 = SNone /\ s_line st1 = s_line st /\ s_col st1 = s_col st /\
  s_gap st1 = false /\ s_allowsc st1 = s_allowsc st.
Proof. apply flush_inv_at. Qed.

Lemma push_char_good st c :
  is_nl c = false -> is_kwop (s_kind st) = true -> good (s_line st, s_col st) st ->
  good (nxt (s_line st, s_col st)) (push_char st c).
Proof.
  intros Hnl Hk (Hc & Hl & Hlk & He & Hcm). unfold good, link, extent in *. cbn.
  destruct (s_kind st); try discriminate; cbn in *; destruct He as [He1 He2];
    (repeat split; auto; try discriminate;
     [ rewrite adv_app, He1; cbn; rewrite Hnl; reflexivity
     | rewrite count_nl_cons, Hnl, He2; reflexivity ]).
Qed.

Lemma start_after_flush st1 k c p :
  is_nl c = false -> (k = SKeyword \/ k = SOperator) ->
  good p st1 -> s_kind st1 = SNone -> (s_line st1, s_col st1) = p ->
  good (nxt p) (start_token st1 k c).
Proof.
  intros Hnl Hk (Hc & Hl & Hlk & He & _) Hk1 Hp. subst p. unfold link in Hlk. rewrite Hk1 in Hlk. cbn in Hlk.
  unfold good, link, extent.
  destruct Hk; subst k; cbn; (repeat split; auto; try discriminate;
    [ apply (link_start _ st1 _ c eq_refl Hlk)
    | rewrite Hnl; reflexivity
    | unfold count_nl, len; cbn; rewrite Hnl; reflexivity ]).
Qed.

Lemma parse_kw_op_inv st c st' b :
  parse_kw_op mt es st c = Ok (st', b) -> is_nl c = false ->
  is_kwop (s_kind st) = true -> good (s_line st, s_col st) st ->
  if b then PIp (nxt (s_line st, s_col st)) st'
  else good (s_line st, s_col st) st' /\ s_kind st' = SNone /\ s_line st' = s_line st /\ s_col st' = s_col st.
Proof.
  intros H Hnl Hk Hg. unfold parse_kw_op in H.
  assert (Hty : forall k, is_kwop k = true -> kind_ty k = KEYWORD \/ kind_ty k = OPERATOR)
    by (intros k; destruct k; cbn; try discriminate; auto).
  destruct (Ascii.eqb c SQ || Ascii.eqb c DQ || is_lparen c || Ascii.eqb c COMMA_C || is_ws c).
  { destruct (append_token mt (kind_ty (s_kind st)) st) as [st1|] eqn:Ea; [|discriminate]. inv_ok.
    destruct (flush_inv _ _ _ (Hty _ Hk) Hk Hg Ea) as (G & K1 & L1 & C1 & _). auto. }
  destruct (s_kind st) eqn:Ek; try discriminate.
  - (* KEYWORD *)
    destruct (is_op c) eqn:Eop.
    + destruct (append_token mt KEYWORD st) as [st1|] eqn:Ea; [|discriminate].
      assert (Hk' : is_kwop (s_kind st) = true) by (rewrite Ek; reflexivity).
      destruct (flush_inv KEYWORD _ _ (or_introl eq_refl) Hk' Hg Ea) as (G & K1 & L1 & C1 & _).
      assert (Es : Ascii.eqb c SEMI = false) by (destruct (Ascii.eqb_spec c SEMI); [subst; discriminate|reflexivity]).
      rewrite Es in H. inv_ok. right.
      apply start_after_flush; auto. congruence.
    + destruct (Ascii.eqb c SEMI) eqn:Es.
      * destruct es.
        -- cbn [s_kind] in H. rewrite Ek in H. cbn [kind_ty] in H.
           destruct (append_token mt KEYWORD st) as [st1|] eqn:Ea; [|discriminate]. inv_ok.
           assert (Hk' : is_kwop (s_kind st) = true) by (rewrite Ek; reflexivity).
           destruct (flush_inv KEYWORD _ _ (or_introl eq_refl) Hk' Hg Ea) as (G & K1 & L1 & C1 & _). auto.
        -- destruct (negb (s_allowsc st)); [discriminate|].
           destruct (mem_str _ _); [|discriminate]. inv_ok. right.
           assert (Hk' : is_kwop (s_kind (set_allowsc st false)) = true) by (cbn; rewrite Ek; reflexivity).
           apply (push_char_good (set_allowsc st false) c Hnl Hk'). exact Hg.
      * inv_ok. right. apply push_char_good; auto. rewrite Ek; reflexivity.
  - (* OPERATOR *)
    destruct (negb (is_op c) && negb (Ascii.eqb c SEMI)) eqn:Eop.
    + destruct (append_token mt OPERATOR st) as [st1|] eqn:Ea; [|discriminate].
      assert (Hk' : is_kwop (s_kind st) = true) by (rewrite Ek; reflexivity).
      destruct (flush_inv OPERATOR _ _ (or_intror eq_refl) Hk' Hg Ea) as (G & K1 & L1 & C1 & _).
      apply andb_true_iff in Eop. destruct Eop as [_ Es]. apply negb_true_iff in Es.
      rewrite Es in H. inv_ok. right.
      apply start_after_flush; auto. congruence.
    + destruct (Ascii.eqb c SEMI) eqn:Es.
      * destruct es.
        -- cbn [s_kind] in H. rewrite Ek in H. cbn [kind_ty] in H.
           destruct (append_token mt OPERATOR st) as [st1|] eqn:Ea; [|discriminate]. inv_ok.
           assert (Hk' : is_kwop (s_kind st) = true) by (rewrite Ek; reflexivity).
           destruct (flush_inv OPERATOR _ _ (or_intror eq_refl) Hk' Hg Ea) as (G & K1 & L1 & C1 & _). auto.
        -- destruct (negb (s_allowsc st)); [discriminate|].
           destruct (mem_str _ _); [|discriminate]. inv_ok. right.
           assert (Hk' : is_kwop (s_kind (set_allowsc st false)) = true) by (cbn; rewrite Ek; reflexivity).
           apply (push_char_good (set_allowsc st false) c Hnl Hk'). exact Hg.
      * inv_ok. right. apply push_char_good; auto. rewrite Ek; reflexivity.
Qed.

(* ------------------------------------------------------------------ newline *)
Lemma link_idle_to p q st : link_idle p st -> plt p q -> link_idle q (set_gap st true).
Proof.
  unfold link_idle. cbn. destruct (s_kws st) as [|a K]; [auto|].
  destruct (s_gap st); intros H Hq.
  - eapply plt_trans; eauto.
  - rewrite H. assumption.
Qed.

Lemma plt_next_line l c : plt (l, c) (l + 1, 1).
Proof. unfold plt; cbn; lia. Qed.

Lemma parse_newline_inv st st' :
  parse_newline mt st = Ok st' -> good (s_line st, s_col st) st ->
  PIp (s_line st', s_col st' + 1) st'.
Proof.
  intros H Hg. unfold parse_newline in H.
  destruct Hg as (Hc & Hl & Hlk & He & Hcm). unfold link, extent in *.
  destruct (s_kind st) eqn:Ek; cbn [set_incmt s_kind s_quote s_esc] in H; rewrite ?Ek in H; cbn in Hlk.
  - (* None *) inv_ok. right. unfold good, link, extent. cbn. rewrite Ek. cbn. repeat split; auto; try discriminate.
    apply (link_idle_to (s_line st, s_col st)); [assumption|apply plt_next_line].
  - (* Keyword *)
    destruct (append_token mt (kind_ty SKeyword) (set_incmt st false)) as [st1|] eqn:Ea; [|discriminate]. inv_ok.
    assert (G0 : good (s_line (set_incmt st false), s_col (set_incmt st false)) (set_incmt st false)).
    { unfold good, link, extent. cbn. rewrite Ek. cbn. repeat split; auto; try discriminate; apply He. }
    assert (Hk0 : is_kwop (s_kind (set_incmt st false)) = true) by (cbn; rewrite Ek; reflexivity).
    destruct (flush_inv KEYWORD (set_incmt st false) st1 (or_introl eq_refl) Hk0 G0 Ea)
      as ((Hc1 & Hl1 & Hlk1 & He1 & _) & K1 & L1 & C1 & G1 & _).
    cbn in L1, C1. right. unfold good, link, extent in *. cbn. rewrite K1 in *. cbn in *.
    rewrite L1. repeat split; auto; try discriminate.
    apply (link_idle_to (s_line st, s_col st)); [assumption|apply plt_next_line].
  - (* Operator *)
    destruct (append_token mt (kind_ty SOperator) (set_incmt st false)) as [st1|] eqn:Ea; [|discriminate]. inv_ok.
    assert (G0 : good (s_line (set_incmt st false), s_col (set_incmt st false)) (set_incmt st false)).
    { unfold good, link, extent. cbn. rewrite Ek. cbn. repeat split; auto; try discriminate; apply He. }
    assert (Hk0 : is_kwop (s_kind (set_incmt st false)) = true) by (cbn; rewrite Ek; reflexivity).
    destruct (flush_inv OPERATOR (set_incmt st false) st1 (or_intror eq_refl) Hk0 G0 Ea)
      as ((Hc1 & Hl1 & Hlk1 & He1 & _) & K1 & L1 & C1 & G1 & _).
    cbn in L1, C1. right. unfold good, link, extent in *. cbn. rewrite K1 in *. cbn in *.
    rewrite L1. repeat split; auto; try discriminate.
    apply (link_idle_to (s_line st, s_col st)); [assumption|apply plt_next_line].
  - (* String *)
    destruct (Ascii.eqb (s_quote st) BT); [discriminate|]. destruct (s_esc st); [|discriminate].
    inv_ok. left. reflexivity.
  - (* Paren *)
    inv_ok. right. unfold good, link, extent. cbn. rewrite Ek. cbn. repeat split; auto; try discriminate.
    rewrite adv_app, He. reflexivity.
  - (* Comment *)
    inv_ok. right. unfold good, link, extent. cbn. repeat split; auto; try discriminate.
    apply (link_idle_to (s_line st, s_col st)); [assumption|apply plt_next_line].
Qed.

(* ------------------------------------------------------------------ string literals *)
Lemma parse_string_inv st c st' :
  parse_string mt st c = Ok st' -> is_nl c = false -> s_kind st = SString ->
  good (s_line st, s_col st) st -> PIp (nxt (s_line st, s_col st)) st'.
Proof.
  intros H Hnl Hk (Hc & Hl & Hlk & He & Hcm). unfold link, extent in *. rewrite Hk in *. cbn in Hlk.
  destruct He as [He1 He2]. unfold parse_string in H. cbn [push_char set_tstr s_esc s_quote s_tstr] in H.
  assert (Gpush : forall st2, s_kws st2 = s_kws st -> s_lkws st2 = s_lkws st -> s_kind st2 = SString ->
                   s_pglued st2 = s_pglued st -> s_tpos st2 = s_tpos st -> s_tstr st2 = c :: s_tstr st ->
                   good (nxt (s_line st, s_col st)) st2).
  { intros st2 E1 E2 E3 E4 E5 E6. unfold good, link, link_pending, extent. rewrite E1, E2, E3, E4, E5, E6. cbn.
    repeat split; auto; try discriminate.
    - rewrite adv_app, He1. cbn. rewrite Hnl. reflexivity.
    - rewrite count_nl_cons, Hnl, He2. reflexivity. }
  destruct (Ascii.eqb c BSLASH && negb (s_esc st)).
  { inv_ok. right. apply Gpush; cbn; auto. }
  destruct (Ascii.eqb c (s_quote st) && negb (s_esc st)).
  2:{ destruct (s_esc st); inv_ok; right; apply Gpush; cbn; auto. }
  destruct (Ascii.eqb (s_quote st) BT); [discriminate|].
  destruct (unescape _) as [v|] eqn:Eu; [|discriminate].
  destruct (repr_len v =? len (rev (c :: s_tstr st))) eqn:Er.
  2:{ apply append_token_ev in H. cbn in H. left. assumption. }
  apply Z.eqb_eq in Er.
  eapply (append_token_inv mt Hmt (nxt (s_line st, s_col st))) in H.
  - destruct H as (t & r & -> & Hch & Hte). right. apply good_after_push; cbn; assumption.
  - cbn. assumption.
  - unfold link_pending. cbn. assumption.
  - cbn [set_tstr push_char s_tpos s_tstr s_pglued]. rewrite rev_involutive.
    unfold tok_end, tok_length. cbn [t_mend t_ty t_line t_col t_str]. rewrite Er.
    assert (Hn : count_nl (rev (c :: s_tstr st)) = 0) by (rewrite count_nl_rev, count_nl_cons, Hnl, He2; reflexivity).
    pose proof (adv_no_nl (s_tpos st) _ Hn) as A. cbn [rev] in A. rewrite adv_app, He1 in A.
    cbn [adv fst snd] in A. rewrite Hnl in A. unfold nxt. cbn [fst snd].
    destruct (s_tpos st) as [l k]. cbn [fst snd] in *. injection A as A1 A2. cbn [rev]. f_equal; lia.
  - discriminate.
Qed.

(* ------------------------------------------------------------------ brackets *)
Lemma paren_ty_cases p : paren_ty p = PAREN_CURLY \/ paren_ty p = PAREN_ROUND \/ paren_ty p = PAREN_SQUARE.
Proof. unfold paren_ty. destruct (Ascii.eqb p _); [auto|]. destruct (Ascii.eqb p _); auto. Qed.

Lemma parse_paren_inv st c st' b :
  parse_paren mt cf es st c = Ok (st', b) -> is_nl c = false -> s_kind st = SParen ->
  good (s_line st, s_col st) st -> PIp (nxt (s_line st, s_col st)) st'.
Proof.
  intros H Hnl Hk (Hc & Hl & Hlk & He & Hcm). unfold link, extent in *. rewrite Hk in *. cbn in Hlk.
  unfold parse_paren in H. unfold push_char, set_tstr, set_slash in H. cbn [s_instr s_incmt s_esc s_quote s_slash s_paren s_pcount s_kws] in H.
  assert (Gpush : forall st2, s_kws st2 = s_kws st -> s_lkws st2 = s_lkws st -> s_kind st2 = SParen ->
                   s_pglued st2 = s_pglued st -> s_tpos st2 = s_tpos st -> s_tstr st2 = c :: s_tstr st ->
                   good (nxt (s_line st, s_col st)) st2).
  { intros st2 E1 E2 E3 E4 E5 E6. unfold good, link, link_pending, extent. rewrite E1, E2, E3, E4, E5, E6. cbn.
    repeat split; auto; try discriminate.
    rewrite adv_app, He. cbn. rewrite Hnl. reflexivity. }
  destruct (s_instr st).
  { repeat (break_hyp; inv_ok; try discriminate); inv_ok; right; apply Gpush; cbn; auto. }
  destruct (s_incmt st).
  { inv_ok. right. apply Gpush; cbn; auto. }
  match type of H with (if ?cond then _ else _) = _ => destruct cond end.
  2:{ repeat (break_hyp; inv_ok; try discriminate); inv_ok;
      first [ left; reflexivity | right; apply Gpush; cbn; auto ]. }
  match type of H with context [append_token mt ?ty ?s0] => destruct (append_token mt ty s0) as [st1|] eqn:Ea; [|discriminate] end.
  eapply (append_token_inv mt Hmt (nxt (s_line st, s_col st))) in Ea.
  2:{ cbn. assumption. }
  2:{ unfold link_pending. cbn. assumption. }
  2:{ rewrite tok_end_plain by (destruct (paren_ty_cases (s_paren st)) as [E|[E|E]]; rewrite E; discriminate).
      cbn. rewrite <- surjective_pairing. rewrite adv_app, He. cbn. rewrite Hnl. reflexivity. }
  2:{ intros E. destruct (paren_ty_cases (s_paren st)) as [E'|[E'|E']]; rewrite E' in E; discriminate. }
  destruct Ea as (t & r & -> & Hch & Hte).
  match type of Hch with chain_r (t :: r ++ s_kws ?s0) => 
    pose proof (good_after_push (nxt (s_line st, s_col st)) s0 t r Hch Hl Hte) as G end.
  match type of H with
  | (if ?cond then _ else _) = _ => destruct cond
  end.
  - match type of H with (if ?cond then _ else _) = _ => destruct cond end.
    + inv_ok. right. exact G.
    + match type of H with context [append_keywords ?s0] => destruct (append_keywords s0) as [st2|] eqn:Eak; [|discriminate] end.
      inv_ok. right. destruct G as (G1 & G2 & _).
      eapply append_keywords_good; eauto; reflexivity.
  - inv_ok. right. exact G.
Qed.

(* ------------------------------------------------------------------ `//` *)
Lemma good_set_pos p st l c : good p st -> good p (set_pos st l c).
Proof. unfold good, link, link_pending, link_idle, extent. cbn. auto. Qed.

Lemma nxt_inj p q : nxt p = nxt q -> p = q.
Proof. destruct p, q. unfold nxt. cbn. intros H. injection H as -> H. f_equal. lia. Qed.

Lemma comment_start_inv st st2 :
  good (s_line st, s_col st) st ->
  match s_kind st with SParen | SString => False | _ => True end ->
  (match s_tstr (set_tstr st (tail_str (s_tstr st))) with
   | [] => Ok (set_tstr st (tail_str (s_tstr st)))
   | _ => append_token mt (kind_ty (s_kind st)) (set_tstr st (tail_str (s_tstr st)))
   end) = Ok st2 ->
  PIp (nxt (s_line st, s_col st))
      (set_gap (set_slash (set_tstr (set_kind st2 SComment) []) false) true).
Proof.
  intros Hg Hk H. pose proof Hg as (Hc & Hl & Hlk & He & Hcm). unfold link, extent in *.
  set (p := (s_line st, s_col st)) in *.
  assert (Hidle : forall st3, s_kws st3 = s_kws st -> s_lkws st3 = s_lkws st ->
            (match s_kws st with [] => True | a :: _ => ple (tok_end a) p end) ->
            good (nxt p) (set_gap (set_slash (set_tstr (set_kind st3 SComment) []) false) true)).
  { intros st3 E1 E2 Hle. unfold good, link, link_idle, extent. cbn. rewrite E1, E2.
    repeat split; auto. destruct (s_kws st) as [|a K]; [exact I|].
    eapply ple_plt_trans; [exact Hle|apply plt_nxt]. }
  destruct (s_kind st) eqn:Ek; try contradiction; cbn in Hlk.
  - (* None *) cbn [set_tstr s_tstr] in H. rewrite He in H. cbn in H. inv_ok. right. apply Hidle; try reflexivity.
    unfold link_idle in Hlk. destruct (s_kws st); [exact I|]. destruct (s_gap st); [right; assumption|left; assumption].
  - (* Keyword *)
    destruct He as [He1 He2]. cbn [set_tstr s_tstr] in H.
    destruct (s_tstr st) as [|x t'] eqn:Et; cbn [tail_str] in H.
    { inv_ok. right. apply Hidle; try reflexivity. unfold link_pending in Hlk.
      destruct (s_kws st); [exact I|]. cbn in He1. rewrite <- He1.
      destruct (s_pglued st); [left; assumption|right; assumption]. }
    rewrite count_nl_cons in He2. pose proof (count_nl_nonneg t') as Hnn.
    destruct (is_nl x) eqn:Ex; [lia|]. cbn [rev] in He1. rewrite adv_app in He1. cbn in He1. rewrite Ex in He1.
    set (q := adv (s_tpos st) (rev t')) in *.
    assert (Hq : nxt q = p) by exact He1.
    destruct t' as [|y t''].
    { inv_ok. right. apply Hidle; try reflexivity. unfold link_pending in Hlk.
      destruct (s_kws st); [exact I|]. subst q. cbn in Hq.
      assert (ple (s_tpos st) p) by (rewrite <- Hq; right; apply plt_nxt).
      destruct (s_pglued st); [rewrite Hlk; assumption|eapply ple_trans; [right; exact Hlk|assumption]]. }
    assert (G1 : good q (set_tstr st (y :: t''))).
    { unfold good, link, link_pending, extent. cbn. rewrite Ek. cbn. repeat split; auto; try discriminate; try lia. }
    eapply (flush_inv_at q KEYWORD) in H; [|left; reflexivity|cbn; rewrite Ek; reflexivity|exact G1].
    destruct H as ((Hc2 & Hl2 & Hlk2 & He2' & _) & K2 & _ & _ & Gp & _).
    right. unfold good, link, link_idle, extent in *. rewrite K2 in *. cbn in *. rewrite Gp in Hlk2.
    repeat split; auto. destruct (s_kws st2) as [|a K]; [exact I|]. rewrite Hlk2.
    eapply plt_trans; [apply plt_nxt|]. rewrite Hq. apply plt_nxt.
  - (* Operator *)
    destruct He as [He1 He2]. cbn [set_tstr s_tstr] in H.
    destruct (s_tstr st) as [|x t'] eqn:Et; cbn [tail_str] in H.
    { inv_ok. right. apply Hidle; try reflexivity. unfold link_pending in Hlk.
      destruct (s_kws st); [exact I|]. cbn in He1. rewrite <- He1.
      destruct (s_pglued st); [left; assumption|right; assumption]. }
    rewrite count_nl_cons in He2. pose proof (count_nl_nonneg t') as Hnn.
    destruct (is_nl x) eqn:Ex; [lia|]. cbn [rev] in He1. rewrite adv_app in He1. cbn in He1. rewrite Ex in He1.
    set (q := adv (s_tpos st) (rev t')) in *.
    assert (Hq : nxt q = p) by exact He1.
    destruct t' as [|y t''].
    { inv_ok. right. apply Hidle; try reflexivity. unfold link_pending in Hlk.
      destruct (s_kws st); [exact I|]. subst q. cbn in Hq.
      assert (ple (s_tpos st) p) by (rewrite <- Hq; right; apply plt_nxt).
      destruct (s_pglued st); [rewrite Hlk; assumption|eapply ple_trans; [right; exact Hlk|assumption]]. }
    assert (G1 : good q (set_tstr st (y :: t''))).
    { unfold good, link, link_pending, extent. cbn. rewrite Ek. cbn. repeat split; auto; try discriminate; try lia. }
    eapply (flush_inv_at q OPERATOR) in H; [|right; reflexivity|cbn; rewrite Ek; reflexivity|exact G1].
    destruct H as ((Hc2 & Hl2 & Hlk2 & He2' & _) & K2 & _ & _ & Gp & _).
    right. unfold good, link, link_idle, extent in *. rewrite K2 in *. cbn in *. rewrite Gp in Hlk2.
    repeat split; auto. destruct (s_kws st2) as [|a K]; [exact I|]. rewrite Hlk2.
    eapply plt_trans; [apply plt_nxt|]. rewrite Hq. apply plt_nxt.
  - (* Comment *) cbn [set_tstr s_tstr] in H. rewrite He in H. cbn in H. inv_ok. right. apply Hidle; try reflexivity.
    unfold link_idle in Hlk. destruct (s_kws st); [exact I|]. destruct (s_gap st); [right; assumption|left; assumption].
Qed.

(* ------------------------------------------------------------------ one step *)
Definition np (st : tstate) : Z * Z := (s_line st, s_col st + 1).

Lemma step_ev st c st' : step mt cf es st c = Ok st' -> s_ev st = true -> s_ev st' = true.
Proof.
  unfold step. intros H E.
  set (st0 := set_pos st (s_line st) (s_col st + 1)) in *.
  assert (E0 : s_ev st0 = true) by exact E. clearbody st0.
  destruct (Ascii.eqb c SEMI && _ && negb es); [discriminate|].
  destruct (is_nl c). { eapply parse_newline_ev; eauto. }
  destruct (Ascii.eqb c SLASH && s_slash st0 && _).
  { destruct (s_tstr (set_tstr st0 (tail_str (s_tstr st0)))).
    - inv_ok. cbn. assumption.
    - destruct (append_token mt _ _) eqn:Ea; [|discriminate]. apply append_token_ev in Ea. inv_ok. cbn in *. congruence. }
  destruct (is_pending_kind (s_kind st0)).
  - destruct (parse_kw_op mt es st0 c) as [[st1 b]|] eqn:Ek; [|discriminate].
    pose proof (parse_kw_op_ev _ _ _ _ Ek E0) as E1.
    destruct b; [inv_ok; cbn; assumption|].
    destruct (s_kind st1).
    + destruct (parse_none mt st1 c) as [[st2 b2]|] eqn:En; [|discriminate].
      pose proof (parse_none_ev _ _ _ _ En E1). destruct b2; inv_ok; cbn; assumption.
    + inv_ok; cbn; assumption.
    + inv_ok; cbn; assumption.
    + destruct (parse_string mt st1 c) eqn:Es; [|discriminate]. pose proof (parse_string_ev _ _ _ Es E1). inv_ok. cbn. assumption.
    + destruct (parse_paren mt cf es st1 c) as [[st2 b2]|] eqn:Ep; [|discriminate].
      pose proof (parse_paren_ev _ _ _ _ Ep E1). destruct b2; inv_ok; cbn; assumption.
    + inv_ok; cbn; assumption.
  - destruct (s_kind st0).
    + destruct (parse_none mt st0 c) as [[st2 b2]|] eqn:En; [|discriminate].
      pose proof (parse_none_ev _ _ _ _ En E0). destruct b2; inv_ok; cbn; assumption.
    + inv_ok; cbn; assumption.
    + inv_ok; cbn; assumption.
    + destruct (parse_string mt st0 c) eqn:Es; [|discriminate]. pose proof (parse_string_ev _ _ _ Es E0). inv_ok. cbn. assumption.
    + destruct (parse_paren mt cf es st0 c) as [[st2 b2]|] eqn:Ep; [|discriminate].
      pose proof (parse_paren_ev _ _ _ _ Ep E0). destruct b2; inv_ok; cbn; assumption.
    + inv_ok; cbn; assumption.
Qed.

Lemma PIp_set_slash p st b : PIp p st -> PIp p (set_slash st b).
Proof. intros [H|H]; [left; exact H|right]. unfold good, link, link_pending, link_idle, extent in *. cbn. exact H. Qed.

Lemma step_inv st c st' : PIp (np st) st -> step mt cf es st c = Ok st' -> PIp (np st') st'.
Proof.
  intros [Hev|Hg] H. { left. eapply step_ev; eauto. }
  unfold step in H.
  set (st0 := set_pos st (s_line st) (s_col st + 1)) in *.
  assert (G0 : good (s_line st0, s_col st0) st0) by (apply good_set_pos; exact Hg).
  clearbody st0. clear Hg.
  destruct (Ascii.eqb c SEMI && _ && negb es); [discriminate|].
  destruct (is_nl c) eqn:Hnl. { eapply parse_newline_inv; eauto. }
  destruct (Ascii.eqb c SLASH && s_slash st0 && match s_kind st0 with SParen | SString => false | _ => true end) eqn:Ec.
  { match type of H with match ?r with _ => _ end = _ => destruct r as [st2|] eqn:Er; [|discriminate] end.
    inv_ok. unfold np. cbn [set_gap set_slash set_tstr set_kind s_line s_col].
    assert (L2 : s_line st2 = s_line st0 /\ s_col st2 = s_col st0).
    { destruct (s_tstr (set_tstr st0 (tail_str (s_tstr st0)))); [inv_ok; cbn; auto|].
      apply append_token_shape in Er. destruct Er as (toks & ->). cbn. auto. }
    destruct L2 as [-> ->]. apply comment_start_inv; [assumption| |assumption].
    apply andb_true_iff in Ec. destruct Ec as [_ Ec]. destruct (s_kind st0); try discriminate; exact I. }
  destruct (is_pending_kind (s_kind st0)) eqn:Epk.
  - assert (Hk : is_kwop (s_kind st0) = true) by (destruct (s_kind st0); try discriminate; reflexivity).
    destruct (parse_kw_op mt es st0 c) as [[st1 b]|] eqn:Ek; [|discriminate].
    pose proof (parse_kw_op_inv _ _ _ _ Ek Hnl Hk G0) as R.
    destruct b.
    + inv_ok. unfold np. cbn [set_slash s_line s_col]. apply PIp_set_slash.
      assert (s_line st1 = s_line st0 /\ s_col st1 = s_col st0) as [-> ->]; [|exact R].
      clear R. unfold parse_kw_op in Ek.
      repeat (break_hyp; inv_ok; try discriminate); inv_ok;
        repeat match goal with A : append_token _ _ _ = Ok _ |- _ => apply append_token_shape in A; destruct A as (? & ->) end;
        cbn; auto.
    + destruct R as (G1 & K1 & L1 & C1). rewrite K1 in H.
      destruct (parse_none mt st1 c) as [[st2 b2]|] eqn:En; [|discriminate].
      pose proof (parse_none_inv _ _ _ _ En Hnl K1 (eq_rect_r (fun l => good (l, s_col st1) st1)
                    (eq_rect_r (fun k => good (s_line st0, k) st1) G1 C1) L1)) as R.
      assert (L2 : s_line st2 = s_line st1 /\ s_col st2 = s_col st1).
      { clear R. unfold parse_none in En.
        repeat (break_hyp; inv_ok; try discriminate); inv_ok;
        repeat match goal with
               | A : append_token _ _ _ = Ok _ |- _ => apply append_token_shape in A; destruct A as (? & ->)
               | A : append_keywords _ = Ok _ |- _ => unfold append_keywords in A; destruct (s_kws _); inv_ok
               end; cbn; auto. }
      destruct L2 as [L2 C2].
      destruct b2; inv_ok; unfold np; cbn [set_slash s_line s_col]; apply PIp_set_slash; rewrite L2, C2; exact R.
  - assert (Lnone : forall st2 b2, parse_none mt st0 c = Ok (st2, b2) -> s_line st2 = s_line st0 /\ s_col st2 = s_col st0).
    { intros st2 b2 En. unfold parse_none in En.
      repeat (break_hyp; inv_ok; try discriminate); inv_ok;
        repeat match goal with
               | A : append_token _ _ _ = Ok _ |- _ => apply append_token_shape in A; destruct A as (? & ->)
               | A : append_keywords _ = Ok _ |- _ => unfold append_keywords in A; destruct (s_kws _); inv_ok
               end; cbn; auto. }
    destruct (s_kind st0) eqn:Ek0; try discriminate.
    + destruct (parse_none mt st0 c) as [[st2 b2]|] eqn:En; [|discriminate].
      pose proof (parse_none_inv _ _ _ _ En Hnl Ek0 G0) as R. destruct (Lnone _ _ eq_refl) as [L2 C2].
      destruct b2; inv_ok; unfold np; cbn [set_slash s_line s_col]; apply PIp_set_slash; rewrite L2, C2; exact R.
    + destruct (parse_string mt st0 c) as [st2|] eqn:Es; [|discriminate].
      pose proof (parse_string_inv _ _ _ Es Hnl Ek0 G0) as R.
      assert (L2 : s_line st2 = s_line st0 /\ s_col st2 = s_col st0).
      { clear R. unfold parse_string in Es.
        repeat (break_hyp; inv_ok; try discriminate); inv_ok;
        repeat match goal with A : append_token _ _ _ = Ok _ |- _ => apply append_token_shape in A; destruct A as (? & ->) end;
        cbn; auto. }
      destruct L2 as [L2 C2]. inv_ok. unfold np. cbn [set_slash s_line s_col]. apply PIp_set_slash. rewrite L2, C2. exact R.
    + destruct (parse_paren mt cf es st0 c) as [[st2 b2]|] eqn:Ep; [|discriminate].
      pose proof (parse_paren_inv _ _ _ _ Ep Hnl Ek0 G0) as R.
      assert (L2 : s_line st2 = s_line st0 /\ s_col st2 = s_col st0).
      { clear R. unfold parse_paren in Ep.
        repeat (break_hyp; inv_ok; try discriminate); inv_ok;
        repeat match goal with
               | A : append_token _ _ _ = Ok _ |- _ => apply append_token_shape in A; destruct A as (? & ->)
               | A : append_keywords _ = Ok _ |- _ => unfold append_keywords in A; destruct (s_kws _); inv_ok
               end; cbn; auto. }
      destruct L2 as [L2 C2].
      destruct b2; inv_ok; unfold np; cbn [set_slash s_line s_col]; try apply PIp_set_slash; rewrite L2, C2; exact R.
    + (* Comment: nothing happens, the position moves on *)
      inv_ok. unfold np. cbn [set_slash s_line s_col]. apply PIp_set_slash. right.
      destruct G0 as (Hc & Hl & Hlk & He & Hcm). unfold good, link, extent in *. rewrite Ek0 in *. cbn in *.
      repeat split; auto. unfold link_idle in *. destruct (s_kws st0); [exact I|].
      rewrite (Hcm eq_refl) in *. eapply plt_trans; [exact Hlk|apply plt_nxt].
Qed.

Lemma run_inv s : forall st st', PIp (np st) st -> run mt cf es st s = Ok st' -> PIp (np st') st'.
Proof.
  induction s as [|c r IH]; intros st st' Hp H; cbn in H.
  - inv_ok. assumption.
  - destruct (step mt cf es st c) as [st1|] eqn:Es; [|discriminate].
    eapply IH; [|exact H]. eapply step_inv; eauto.
Qed.

Lemma init_good line col asc : PIp (np (init_state line col asc)) (init_state line col asc).
Proof.
  right. unfold good, link, link_idle, extent, init_state. cbn. repeat split; auto; try discriminate; constructor.
Qed.

Lemma Forall_rev' {A} (P : A -> Prop) l : Forall P l -> Forall P (rev l).
Proof. intros H. apply Forall_forall. intros x Hx. apply in_rev in Hx. rewrite Forall_forall in H. auto. Qed.

Lemma append_keywords_lkws st st' :
  append_keywords st = Ok st' -> chain_r (s_kws st) -> Forall chain (s_lkws st) -> Forall chain (s_lkws st').
Proof.
  unfold append_keywords. destruct (s_kws st) as [|a K] eqn:E; [discriminate|]. intros H Hc Hl. inv_ok. cbn.
  constructor; [|assumption]. change (rev K ++ [a]) with (rev (a :: K)). apply chain_rev. assumption.
Qed.

Lemma flush_any p st st1 :
  good p st -> match s_kind st with SString | SParen => False | _ => True end ->
  match s_tstr st with [] => Ok st | _ => append_token mt (kind_ty (s_kind st)) st end = Ok st1 ->
  chain_r (s_kws st1) /\ Forall chain (s_lkws st1).
Proof.
  intros Hg Hk Hf. pose proof Hg as (Hc & Hl & Hlk & He & _).
  destruct (s_tstr st) eqn:Et; [inv_ok; auto|]. unfold extent in He.
  destruct (s_kind st) eqn:Ek; try contradiction; try congruence.
  - destruct (flush_inv_at p KEYWORD st st1 (or_introl eq_refl)) as ((A & B & _) & _); auto. rewrite Ek. reflexivity.
  - destruct (flush_inv_at p OPERATOR st st1 (or_intror eq_refl)) as ((A & B & _) & _); auto. rewrite Ek. reflexivity.
Qed.

Lemma finish_inv al st sts :
  good (np st) st -> finish mt es al st = Ok sts -> Forall chain sts.
Proof.
  intros Hg H. pose proof Hg as (Hc & Hl & Hlk & He & _). unfold finish in H.
  assert (Hk : match s_kind st with SString | SParen => False | _ => True end)
    by (destruct (s_kind st); try exact I; discriminate).
  pose proof (flush_any (np st) st) as Hflush.
  destruct (s_kind st) eqn:Ek; try contradiction.
  all: destruct es.
  all: try (destruct (s_kws st) eqn:Ekw, (s_tstr st) eqn:Et; [inv_ok; apply Forall_rev'; assumption| | |]).
  all: repeat match type of H with
       | match ?r with _ => _ end = _ => destruct r eqn:?; try discriminate
       | (if ?r then _ else _) = _ => destruct r eqn:?; try discriminate
       end; inv_ok; apply Forall_rev';
       repeat match goal with
       | A : append_keywords _ = Ok _ |- _ => eapply append_keywords_lkws in A; [exact A| |]
       end;
       first [ assumption
             | destruct (Hflush _ Hg Hk eq_refl); assumption
             | rewrite ?Ekw; assumption
             | rewrite ?Ekw; constructor ].
Qed.
End Inv2.

(* ------------------------------------------------------------------ the theorem *)
Definition adjacent_as_glued (toks : list token) : Prop :=
  forall i a b, nth_error toks i = Some a -> nth_error toks (S i) = Some b -> is_connected b a = t_glued b.

Lemma chain_adjacent toks : chain toks -> adjacent_as_glued toks.
Proof.
  induction 1 as [| t | a b r Hab H IH]; intros i x y Hx Hy.
  - destruct i; discriminate.
  - destruct i; cbn in Hy; [discriminate|destruct i; discriminate].
  - destruct i as [|i]; cbn in Hx, Hy.
    + injection Hx as <-. injection Hy as <-. exact Hab.
    + eapply IH; eauto.
Qed.

Theorem parse_adjacent mt cf es al asc line col s st sts :
  mt_ok mt ->
  parse_st mt cf es asc line col s = Ok st -> s_ev st = false ->
  finish mt es al st = Ok sts ->
  Forall adjacent_as_glued sts.
Proof.
  intros Hmt Hp Hev Hf. unfold parse_st in Hp.
  pose proof (run_inv mt cf es Hmt s _ _ (init_good line col asc) Hp) as [E|G]; [congruence|].
  pose proof (finish_inv mt es Hmt al st sts G Hf) as F.
  eapply Forall_impl; [|exact F]. intros toks. apply chain_adjacent.
Qed.

(* the same theorem, as an inductive chain (used by Proofs.LayoutDeep) *)
Theorem parse_chain mt cf es al asc line col s st sts :
  mt_ok mt ->
  parse_st mt cf es asc line col s = Ok st -> s_ev st = false ->
  finish mt es al st = Ok sts ->
  Forall chain sts.
Proof.
  intros Hmt Hp Hev Hf. unfold parse_st in Hp.
  pose proof (run_inv mt cf es Hmt s _ _ (init_good line col asc) Hp) as [E|G]; [congruence|].
  exact (finish_inv mt es Hmt al st sts G Hf).
Qed.
