(* Proofs.TokMacro — merge_vanilla_macro and the loops around it never raise an internal exception (C13, round 4). *)
From Coq Require Import ZArith NArith List Lia Bool String.
From JMCV Require Import Model.Tok Model.TokGuards Model.TokMacro Proofs.TokGuards.
Import ListNotations.
Open Scope Z_scope.

(* ---------------------------------------------------------------- Python slices *)
Lemma clamp_nonneg : forall {A} (l : list A) i, 0 <= i -> clamp l i = Z.min i (zlen l).
Proof.
  intros A l i H. unfold clamp. pose proof (zlen_nonneg l).
  destruct (i <? 0) eqn:E; [apply Z.ltb_lt in E; lia|]. lia.
Qed.

Lemma py_tail_len : forall {A} (l : list A) k, 0 <= k -> zlen (py_tail l k) = Z.max 0 (zlen l - k).
Proof.
  intros A l k H. unfold py_tail. rewrite clamp_nonneg by assumption.
  unfold zlen. rewrite skipn_length. lia.
Qed.

Lemma py_index_nth : forall {A} (l : list A) i x,
  0 <= i -> py_index l i = Ok x -> nth_error l (Z.to_nat i) = Some x /\ i < zlen l.
Proof.
  intros A l i x Hi H. unfold py_index in H.
  destruct (i <? 0) eqn:E; [apply Z.ltb_lt in E; lia|].
  destruct (i <? 0) eqn:E1; [discriminate|]. simpl in H.
  destruct (zlen l <=? i) eqn:E2; [discriminate|]. apply Z.leb_gt in E2.
  destruct (nth_error l (Z.to_nat i)) eqn:E3; [|discriminate]. inversion H; subst. auto.
Qed.

Lemma py_index_in_range : forall {A} (l : list A) i,
  0 <= i -> i < zlen l -> exists x, py_index l i = Ok x /\ In x l.
Proof. intros. apply py_index_ok. pose proof (zlen_nonneg l). lia. Qed.

Lemma nth_error_skipn : forall {A} (l : list A) n x,
  nth_error l n = Some x -> exists r, skipn n l = x :: r.
Proof.
  intros A l. induction l as [|a l IH]; intros n x H.
  - destruct n; discriminate.
  - destruct n; simpl in *.
    + inversion H; subst. eauto.
    + apply IH. exact H.
Qed.

(* the slice that starts at a valid position begins with the element at that position *)
Lemma py_slice_head : forall {A} (l : list A) k n x,
  0 <= k -> 1 <= n -> py_index l k = Ok x -> exists r, py_slice l k (k + n) = x :: r.
Proof.
  intros A l k n x Hk Hn H. destruct (py_index_nth l k x Hk H) as [Hnth Hlt].
  unfold py_slice. rewrite !clamp_nonneg by lia.
  replace (Z.min k (zlen l)) with k by lia.
  destruct (nth_error_skipn l _ x Hnth) as [r Hr]. rewrite Hr.
  assert (Hpos : exists m, Z.to_nat (Z.min (k + n) (zlen l) - k) = S m).
  { exists (Z.to_nat (Z.min (k + n) (zlen l) - k - 1)). lia. }
  destruct Hpos as [m Hm]. rewrite Hm. simpl. eauto.
Qed.

Lemma In_firstn_ : forall {A} (l : list A) n x, In x (firstn n l) -> In x l.
Proof.
  intros A l. induction l as [|a l IH]; intros n x H.
  - destruct n; simpl in H; contradiction.
  - destruct n; simpl in *; [contradiction|]. destruct H; auto. right. eapply IH; eauto.
Qed.
Lemma Forall_firstn : forall {A} (P : A -> Prop) (l : list A) n, Forall P l -> Forall P (firstn n l).
Proof.
  intros A P l n H. rewrite Forall_forall in *. intros x Hx. apply H. eapply In_firstn_; eauto.
Qed.
Lemma In_skipn_ : forall {A} (l : list A) n x, In x (skipn n l) -> In x l.
Proof.
  intros A l. induction l as [|a l IH]; intros n x H.
  - destruct n; simpl in H; contradiction.
  - destruct n; simpl in *; [assumption|]. right. eapply IH; eauto.
Qed.
Lemma Forall_skipn : forall {A} (P : A -> Prop) (l : list A) n, Forall P l -> Forall P (skipn n l).
Proof.
  intros A P l n H. rewrite Forall_forall in *. intros x Hx. apply H. eapply In_skipn_; eauto.
Qed.

Lemma py_set_ok : forall {A} (P : A -> Prop) (l : list A) i x,
  0 <= i -> i < zlen l -> Forall P l -> P x ->
  exists l', py_set l i x = Ok l' /\ zlen l' = zlen l /\ Forall P l'.
Proof.
  intros A P l i x Hi Hlt HP Hx. unfold py_set.
  destruct (py_index_in_range l i Hi Hlt) as [y [Hy _]]. rewrite Hy.
  destruct (i <? 0) eqn:E; [apply Z.ltb_lt in E; lia|].
  eexists. split; [reflexivity|]. split.
  - unfold zlen in *. rewrite app_length, firstn_length. cbn [List.length]. rewrite skipn_length. lia.
  - apply Forall_app. split; [apply Forall_firstn; assumption|].
    constructor; [assumption|apply Forall_skipn; assumption].
Qed.

Lemma py_del_slice_facts : forall {A} (P : A -> Prop) (l : list A) a b,
  0 <= a -> a <= b -> Forall P l ->
  Forall P (py_del_slice l a b) /\
  zlen (py_del_slice l a b) = zlen l - (Z.min b (zlen l) - Z.min a (zlen l)).
Proof.
  intros A P l a b Ha Hab HP. unfold py_del_slice. rewrite !clamp_nonneg by lia.
  destruct (Z.min b (zlen l) <=? Z.min a (zlen l)) eqn:E.
  - apply Z.leb_le in E. split; [assumption|lia].
  - apply Z.leb_gt in E. split.
    + apply Forall_app. split; [apply Forall_firstn|apply Forall_skipn]; assumption.
    + unfold zlen in *. rewrite app_length, firstn_length, skipn_length. lia.
Qed.

Lemma py_del_ok : forall {A} (P : A -> Prop) (l : list A) i,
  0 <= i -> i < zlen l -> Forall P l ->
  exists l', py_del l i = Ok l' /\ zlen l' = zlen l - 1 /\ Forall P l'.
Proof.
  intros A P l i Hi Hlt HP. unfold py_del.
  destruct (py_index_in_range l i Hi Hlt) as [y [Hy _]]. rewrite Hy.
  destruct (i <? 0) eqn:E; [apply Z.ltb_lt in E; lia|].
  eexists. split; [reflexivity|]. split.
  - unfold zlen in *. rewrite app_length, firstn_length, skipn_length. lia.
  - apply Forall_app. split; [apply Forall_firstn|apply Forall_skipn]; assumption.
Qed.

(* ---------------------------------------------------------------- merge_tokens *)
Section Macro.
Variable cleanup : token -> result str.
Variable repr_len : str -> Z.
Hypothesis Hclean : cleanup_total cleanup.

Lemma handle_total : forall t, no_crash (handle cleanup t).
Proof.
  intros t. unfold handle. destruct (is_bracket3 (t_type t)).
  - apply Hclean.
  - left. eauto.
Qed.

Lemma join_handle_total : forall l, no_crash (join_handle cleanup l).
Proof.
  induction l as [|t r IH]; simpl.
  - left. eauto.
  - destruct (handle_total t) as [[a Ha]|[d [x [y Hd]]]]; rewrite ?Ha, ?Hd; simpl.
    + destruct IH as [[b Hb]|[d [x [y Hd]]]]; rewrite ?Hb, ?Hd; simpl; [left|right]; eauto.
    + right. eauto.
Qed.

(* a string cannot end with `$` and be of the shape `{...}` *)
Lemma dollar_not_curly : forall s, ends_dollar s = true -> curly_shape_ok s = false.
Proof.
  intros s H. unfold ends_dollar in H. unfold curly_shape_ok.
  destruct (rev s) as [|c r]; [discriminate|].
  unfold ceqb in *. apply N.eqb_eq in H. subst c.
  rewrite andb_comm. reflexivity.
Qed.

Lemma merge_tokens_total : forall t0 r,
  wf_tok t0 -> ends_dollar (t_str t0) = true ->
  match merge_tokens cleanup (t0 :: r) with
  | Ok m => wf_tok m
  | Diag _ _ _ => True
  | Crash _ => False
  end.
Proof.
  intros t0 r Hwf Hd. unfold merge_tokens.
  assert (Hty : t_type t0 <> PAREN_CURLY).
  { intro E. specialize (Hwf E). rewrite (dollar_not_curly _ Hd) in Hwf. discriminate. }
  destruct (join_handle_total (t0 :: r)) as [[s Hs]|[d [x [y Hs]]]]; rewrite Hs; simpl; [|exact I].
  destruct (t_type t0) eqn:E; simpl; try (unfold wf_tok; simpl; intro Hc; discriminate).
  exfalso. apply Hty. reflexivity.
Qed.

(* ---------------------------------------------------------------- merge_vanilla_macro *)
Definition post (l : list token) (r : result (list token)) : Prop :=
  match r with
  | Ok l' => Forall wf_tok l' /\ zlen l' <= zlen l /\ zlen l - 2 <= zlen l' /\ (1 <= zlen l -> 1 <= zlen l')
  | Diag _ _ _ => True
  | Crash _ => False
  end.

Lemma post_no_crash : forall l r, post l r -> no_crash r.
Proof. intros l [l'|d a b|e] H; simpl in H; [left|right|contradiction]; eauto. Qed.

Lemma post_same : forall l, Forall wf_tok l -> post l (Ok l).
Proof. intros l H. simpl. repeat split; auto; lia. Qed.

Theorem merge_vm_post : forall l kp, Forall wf_tok l -> 0 <= kp -> post l (merge_vm cleanup repr_len l kp).
Proof.
  intros l kp Hwf Hkp. unfold merge_vm, merge_vm_gen.
  rewrite py_tail_len by assumption.
  destruct (Z.max 0 (zlen l - kp) <? 2) eqn:E2; simpl; [apply post_same; assumption|].
  apply Z.ltb_ge in E2.
  destruct (py_index_in_range l (kp + 1)) as [t1 [Ht1 _]]; [lia|lia|]. rewrite Ht1. simpl.
  destruct (ttype_eqb (t_type t1) PAREN_ROUND); simpl; [|apply post_same; assumption].
  destruct (py_index_in_range l kp) as [t0 [Ht0 Hin0]]; [lia|lia|]. rewrite Ht0. simpl.
  destruct (ends_dollar (t_str t0)) eqn:Ed; simpl; [|apply post_same; assumption].
  assert (Hwf0 : wf_tok t0) by (rewrite Forall_forall in Hwf; apply Hwf; assumption).
  assert (Hthree : forall three : bool,
    (three = true -> 3 <= zlen l - kp) ->
    post l (if three
            then (do m <- merge_tokens cleanup (py_slice l kp (kp + 3));
                  do l1 <- py_set l kp m; Ok (py_del_slice l1 (kp + 1) (kp + 3)))
            else (do m <- merge_tokens cleanup (py_slice l kp (kp + 2));
                  do l1 <- py_set l kp m; py_del l1 (kp + 1)))).
  { intros three H3. destruct three.
    - specialize (H3 eq_refl).
      destruct (py_slice_head l kp 3 t0) as [r Hr]; [lia|lia|assumption|]. rewrite Hr.
      pose proof (merge_tokens_total t0 r Hwf0 Ed) as Hm.
      destruct (merge_tokens cleanup (t0 :: r)) as [m|d a b|e]; simpl; [|exact I|contradiction].
      destruct (py_set_ok wf_tok l kp m) as [l1 [Hl1 [Hlen1 Hwf1]]]; [lia|lia|assumption|assumption|].
      rewrite Hl1. simpl.
      destruct (py_del_slice_facts wf_tok l1 (kp + 1) (kp + 3)) as [Hw Hlen]; [lia|lia|assumption|].
      split; [assumption|]. rewrite Hlen, Hlen1. lia.
    - destruct (py_slice_head l kp 2 t0) as [r Hr]; [lia|lia|assumption|]. rewrite Hr.
      pose proof (merge_tokens_total t0 r Hwf0 Ed) as Hm.
      destruct (merge_tokens cleanup (t0 :: r)) as [m|d a b|e]; simpl; [|exact I|contradiction].
      destruct (py_set_ok wf_tok l kp m) as [l1 [Hl1 [Hlen1 Hwf1]]]; [lia|lia|assumption|assumption|].
      rewrite Hl1. simpl.
      destruct (py_del_ok wf_tok l1 (kp + 1)) as [l2 [Hl2 [Hlen2 Hwf2]]]; [lia|lia|assumption|].
      rewrite Hl2. simpl. split; [assumption|]. lia. }
  destruct (Z.max 0 (zlen l - kp) <? 3) eqn:E3; simpl.
  - apply (Hthree false). discriminate.
  - apply Z.ltb_ge in E3.
    destruct (py_index_in_range l (kp + 2)) as [t2 [Ht2 _]]; [lia|lia|]. rewrite Ht2. simpl.
    destruct (ttype_eqb (t_type t2) KEYWORD); simpl.
    + apply Hthree. intros _. lia.
    + apply (Hthree false). discriminate.
Qed.

(* ---------------------------------------------------------------- the loops *)
Lemma range_loop_post : forall body,
  (forall l k, Forall wf_tok l -> 0 <= k -> post l (body l k)) ->
  forall n k l, Forall wf_tok l -> 0 <= k ->
  match range_loop body n k l with
  | Ok l' => Forall wf_tok l' /\ zlen l' <= zlen l /\ (1 <= zlen l -> 1 <= zlen l')
  | Diag _ _ _ => True
  | Crash _ => False
  end.
Proof.
  intros body Hb. induction n as [|n IH]; intros k l Hwf Hk; simpl.
  - repeat split; auto; lia.
  - pose proof (Hb l k Hwf Hk) as Hp.
    destruct (body l k) as [l'|d a b|e]; simpl in *; [|exact I|contradiction].
    destruct Hp as [Hwf' [Hle [_ Hne]]].
    specialize (IH (k + 1) l' Hwf' ltac:(lia)).
    destruct (range_loop body n (k + 1) l') as [l''|d a b|e]; [|exact I|contradiction].
    destruct IH as [H1 [H2 H3]]. repeat split; auto; lia.
Qed.

Theorem cond_merge_gen_post : forall short l, Forall wf_tok l ->
  match cond_merge_gen cleanup repr_len true short l with
  | Ok l' => Forall wf_tok l' /\ zlen l' <= zlen l /\ (1 <= zlen l -> 1 <= zlen l')
  | Diag _ _ _ => True
  | Crash _ => False
  end.
Proof.
  intros short l Hwf. unfold cond_merge_gen. apply range_loop_post; [|assumption|lia].
  intros l0 k H0 Hk. apply merge_vm_post; assumption.
Qed.

Lemma vanilla_step_post : forall l i, Forall wf_tok l -> 0 <= i -> post l (vanilla_step cleanup repr_len l i).
Proof.
  intros l i Hwf Hi. unfold vanilla_step.
  destruct (zlen l <=? i) eqn:E; [apply post_same; assumption|]. apply Z.leb_gt in E.
  destruct (py_index_in_range l i Hi E) as [t [Ht _]]. rewrite Ht. simpl.
  destruct (ends_dollar (t_str t)); simpl; [|apply post_same; assumption].
  destruct (i + 1 <? zlen l) eqn:E1; simpl; [|apply post_same; assumption]. apply Z.ltb_lt in E1.
  destruct (py_index_in_range l (i + 1)) as [t1 [Ht1 _]]; [lia|lia|]. rewrite Ht1. simpl.
  destruct (ttype_eqb (t_type t1) PAREN_ROUND); [apply merge_vm_post; assumption|apply post_same; assumption].
Qed.

Theorem vanilla_merge_post : forall l, Forall wf_tok l ->
  match vanilla_merge cleanup repr_len l with
  | Ok l' => Forall wf_tok l' /\ zlen l' <= zlen l /\ (1 <= zlen l -> 1 <= zlen l')
  | Diag _ _ _ => True
  | Crash _ => False
  end.
Proof.
  intros l Hwf. unfold vanilla_merge. apply range_loop_post; [|assumption|lia].
  intros l0 k H0 Hk. apply vanilla_step_post; assumption.
Qed.

Theorem merge_seq_post : forall ks l, Forall wf_tok l -> Forall (fun k => 0 <= k) ks ->
  match merge_seq cleanup repr_len ks l with
  | Ok l' => Forall wf_tok l' /\ zlen l' <= zlen l /\ (1 <= zlen l -> 1 <= zlen l')
  | Diag _ _ _ => True
  | Crash _ => False
  end.
Proof.
  induction ks as [|k ks IH]; intros l Hwf Hks; simpl.
  - repeat split; auto; lia.
  - inversion Hks; subst.
    pose proof (merge_vm_post l k Hwf H1) as Hp.
    destruct (merge_vm cleanup repr_len l k) as [l'|d a b|e]; simpl in *; [|exact I|contradiction].
    destruct Hp as [Hwf' [Hle [_ Hne]]]. specialize (IH l' Hwf' H2).
    destruct (merge_seq cleanup repr_len ks l') as [l''|d a b|e]; [|exact I|contradiction].
    destruct IH as [A1 [A2 A3]]. repeat split; auto; lia.
Qed.

End Macro.

(* ---------------------------------------------------------------- statements for Props/C13.v *)
Theorem p_C13_macro_merge_total : forall cleanup repr_len l kp,
  cleanup_total cleanup -> Forall wf_tok l -> 0 <= kp ->
  no_crash (merge_vm cleanup repr_len l kp).
Proof. intros. eapply post_no_crash. apply merge_vm_post; assumption. Qed.

Lemma loop_no_crash : forall (l : list token) (r : result (list token)),
  match r with
  | Ok l' => Forall wf_tok l' /\ zlen l' <= zlen l /\ (1 <= zlen l -> 1 <= zlen l')
  | Diag _ _ _ => True
  | Crash _ => False
  end -> no_crash r.
Proof. intros l [l'|d a b|e] H; [left|right|contradiction]; eauto. Qed.

Theorem p_C13_macro_loops_total : forall cleanup repr_len l,
  cleanup_total cleanup -> Forall wf_tok l ->
  (forall short, no_crash (cond_merge_gen cleanup repr_len true short l)) /\
  no_crash (vanilla_merge cleanup repr_len l) /\
  (forall ks, Forall (fun k => 0 <= k) ks -> no_crash (merge_seq cleanup repr_len ks l)).
Proof.
  intros cleanup repr_len l Hc Hwf. repeat split.
  - intros short. eapply loop_no_crash. apply cond_merge_gen_post; assumption.
  - eapply loop_no_crash. apply vanilla_merge_post; assumption.
  - intros ks Hks. eapply loop_no_crash. apply merge_seq_post; assumption.
Qed.

Theorem p_C13_macro_nonempty : forall cleanup repr_len l l',
  cleanup_total cleanup -> Forall wf_tok l -> (1 <= List.length l)%nat ->
  (cond_merge cleanup repr_len l = Ok l' \/ vanilla_merge cleanup repr_len l = Ok l') ->
  (1 <= List.length l' <= List.length l)%nat.
Proof.
  intros cleanup repr_len l l' Hc Hwf Hne [H|H].
  - pose proof (cond_merge_gen_post cleanup repr_len Hc 0 l Hwf) as P. unfold cond_merge in H. rewrite H in P.
    destruct P as [_ [P1 P2]]. unfold zlen in *. lia.
  - pose proof (vanilla_merge_post cleanup repr_len Hc l Hwf) as P. rewrite H in P.
    destruct P as [_ [P1 P2]]. unfold zlen in *. lia.
Qed.

(* the witnesses: `$(p)_x == 1` as the tokenizer hands it over *)
Definition id_cleanup (t : token) : result str := Ok (t_str t).
Definition w_macro_suffix : list token :=
  [mkTok KEYWORD 1 1 (of_string "$"%string) false; mkTok PAREN_ROUND 1 2 (of_string "(p)"%string) false;
   mkTok KEYWORD 1 5 (of_string "_x"%string) false; mkTok OPERATOR 1 8 (of_string "=="%string) false;
   mkTok KEYWORD 1 11 (of_string "1"%string) false].
(* `score $(p) $(o) matches 1..` *)
Definition w_two_macros : list token :=
  [mkTok KEYWORD 1 1 (of_string "score"%string) false; mkTok KEYWORD 1 7 (of_string "$"%string) false;
   mkTok PAREN_ROUND 1 8 (of_string "(p)"%string) false; mkTok KEYWORD 1 12 (of_string "$"%string) false;
   mkTok PAREN_ROUND 1 13 (of_string "(o)"%string) false; mkTok KEYWORD 1 17 (of_string "matches"%string) false;
   mkTok KEYWORD 1 25 (of_string "1.."%string) false].

Theorem p_C13_macro_guard_order_refuted :
  cleanup_total id_cleanup /\ Forall wf_tok w_macro_suffix /\ Forall wf_tok w_two_macros /\
  cond_merge_gen id_cleanup str_len false 1 w_macro_suffix = Crash IndexError /\
  cond_merge_gen id_cleanup str_len false 1 w_two_macros = Crash IndexError /\
  cond_merge_gen id_cleanup str_len false 0 w_macro_suffix = Crash IndexError /\
  (exists l', cond_merge_gen id_cleanup str_len true 1 w_macro_suffix = Ok l' /\ List.length l' = 3%nat).
Proof.
  split; [intro t; left; unfold id_cleanup; eauto|].
  split; [repeat constructor; intro H; discriminate|].
  split; [repeat constructor; intro H; discriminate|].
  repeat split; try (vm_compute; reflexivity).
  eexists. split; vm_compute; reflexivity.
Qed.

(* the precondition 0 <= key_pos is needed: a NEGATIVE position makes the slice handed to merge_tokens empty *)
Theorem p_C13_macro_negative_refuted :
  merge_vm id_cleanup str_len
    [mkTok KEYWORD 1 1 (of_string "a"%string) false; mkTok KEYWORD 1 3 (of_string "$"%string) false;
     mkTok PAREN_ROUND 1 4 (of_string "(p)"%string) false] (-2) = Crash IndexError.
Proof. vm_compute. reflexivity. Qed.
