(* Proofs.TokEnd — the end position the repaired tokenizer records for a string literal is the position right after the
   literal's source text; hence `col_length` diagnostics cite the position right after the token for EVERY kind of token. *)
From Coq Require Import ZArith NArith List Bool Lia.
From JMCV Require Import Model.Tok Model.TokPos Model.TokEnd Proofs.Tok Proofs.TokPos.
Import ListNotations.
Open Scope Z_scope.
Local Notation length := List.length.

Lemma bind_ok : forall {A B} (r : result A) (f : A -> result B) b,
  bind r f = Ok b -> exists a, r = Ok a /\ f a = Ok b.
Proof. intros A B [a|d l c|e] f b H; simpl in H; try discriminate. eauto. Qed.

(* ------------------------------------------------------------------ tokens are only ever appended *)
(* st' has the tokens of st plus some that are not string literals *)
Definition noS (st st' : tk) : Prop :=
  exists l, all_tokens st' = all_tokens st ++ l /\ Forall (fun t => t_type t <> STRING) l.

Lemma noS_same : forall st st', s_keywords st' = s_keywords st -> s_lok st' = s_lok st -> noS st st'.
Proof. intros st st' H1 H2. exists []. unfold all_tokens. rewrite H1, H2, app_nil_r. split; [reflexivity|constructor]. Qed.

Lemma noS_trans : forall a b c, noS a b -> noS b c -> noS a c.
Proof.
  intros a b c [l1 [H1 F1]] [l2 [H2 F2]]. exists (l1 ++ l2). split.
  - rewrite H2, H1, app_assoc. reflexivity.
  - apply Forall_app; auto.
Qed.

Lemma noS_eq : forall a b c, noS a b -> s_keywords c = s_keywords b -> s_lok c = s_lok b -> noS a c.
Proof. intros a b c H H1 H2. eapply noS_trans; [exact H|apply noS_same; auto]. Qed.

Lemma append_token_app : forall st st', append_token st = Ok st' ->
  exists ty l c, s_state st = Some ty /\ s_tokpos st = Some (l, c) /\
    s_keywords st' = s_keywords st ++ [mkTok ty l c (s_tokstr st) (quote_is st c_btick)] /\
    s_lok st' = s_lok st /\ s_state st' = None /\ s_tokstr st' = [] /\
    s_line st' = s_line st /\ s_col st' = s_col st.
Proof.
  intros st st' H. unfold append_token in H.
  destruct (s_state st) as [ty|] eqn:Es; [|discriminate].
  destruct (s_tokpos st) as [[l c]|] eqn:Ep; [|discriminate].
  destruct (ttype_eqb ty PAREN_CURLY && negb (curly_shape_ok (s_tokstr st))); [discriminate|].
  inversion H; subst. exists ty, l, c. simpl. repeat split; auto.
Qed.

Lemma all_tokens_snoc : forall st st' t, s_keywords st' = s_keywords st ++ [t] -> s_lok st' = s_lok st ->
  all_tokens st' = all_tokens st ++ [t].
Proof. intros st st' t H1 H2. unfold all_tokens. rewrite H1, H2, app_assoc. reflexivity. Qed.

Lemma append_token_noS : forall st st', append_token st = Ok st' -> state_is st STRING = false ->
  noS st st' /\ s_state st' = None.
Proof.
  intros st st' H Hs. destruct (append_token_app _ _ H) as [ty [l [c [E1 [E2 [E3 [E4 [E5 _]]]]]]]].
  split; [|exact E5]. eexists. split; [apply all_tokens_snoc; eauto|].
  constructor; [|constructor]. simpl. intros ->. unfold state_is in Hs. rewrite E1 in Hs. discriminate.
Qed.

Lemma append_keywords_all : forall st st', append_keywords st = Ok st' ->
  all_tokens st' = all_tokens st /\ s_state st' = s_state st.
Proof.
  intros st st' H. unfold append_keywords in H. destruct (s_keywords st) eqn:E; [discriminate|].
  inversion H; subst. unfold all_tokens. simpl. rewrite concat_app. simpl. rewrite E, app_nil_r, app_nil_r. split; reflexivity.
Qed.

Lemma noS_of_all : forall st st', all_tokens st' = all_tokens st -> noS st st'.
Proof. intros st st' H. exists []. rewrite app_nil_r. split; [exact H|constructor]. Qed.

Lemma noS_all : forall a b c, noS a b -> all_tokens c = all_tokens b -> noS a c.
Proof. intros a b c H E. eapply noS_trans; [exact H|apply noS_of_all; exact E]. Qed.

Section WithUni.
Variable uni : str -> option char.

Lemma state_is_set : forall st ty ty', state_is (set_state st (Some ty)) ty' = ttype_eqb ty ty'.
Proof. reflexivity. Qed.

Lemma parse_none_noS : forall c st st' b, parse_none c st = Ok (st', b) -> noS st st'.
Proof.
  intros c st st' b H. unfold parse_none in H.
  destruct (is_quote c). { inversion H; subst. apply noS_same; reflexivity. }
  destruct (is_space c). { inversion H; subst. apply noS_same; reflexivity. }
  destruct (ceqb c c_semi).
  { apply bind_ok in H. destruct H as [a [Ha H]]. inversion H; subst. apply noS_of_all. apply (append_keywords_all _ _ Ha). }
  destruct (is_lparen c). { inversion H; subst. apply noS_same; reflexivity. }
  destruct (is_rparen c); [discriminate|].
  destruct (ceqb c c_hash && match s_keywords st with [] => true | _ => false end).
  { inversion H; subst. apply noS_same; reflexivity. }
  destruct (ceqb c c_comma).
  { apply bind_ok in H. destruct H as [a [Ha H]]. inversion H; subst.
    destruct (append_token_noS _ _ Ha) as [Hn _]; [reflexivity|].
    destruct Hn as [l [Hl Fl]]. exists l. split; [exact Hl|exact Fl]. }
  destruct (is_operator c); inversion H; subst; apply noS_same; reflexivity.
Qed.

Lemma parse_kw_noS : forall c es st st' b,
  state_is st KEYWORD || state_is st OPERATOR = true -> parse_kw c es st = Ok (st', b) -> noS st st'.
Proof.
  intros c es st st' b Hst H.
  assert (Hns : state_is st STRING = false).
  { unfold state_is in *. destruct (s_state st) as [ty|]; [|reflexivity]. destruct ty; simpl in *; try discriminate; reflexivity. }
  unfold parse_kw in H.
  destruct (ceqb c c_squote || ceqb c c_dquote || is_lparen c || ceqb c c_comma || is_space c).
  { apply bind_ok in H. destruct H as [a [Ha H]]. inversion H; subst. apply (append_token_noS _ _ Ha Hns). }
  apply bind_ok in H. destruct H as [st1 [H1 H]].
  assert (G1 : noS st st1 /\ state_is st1 STRING = false).
  { destruct (state_is st KEYWORD && is_operator c).
    { apply bind_ok in H1. destruct H1 as [a [Ha H1]]. inversion H1; subst.
      split; [|reflexivity]. destruct (append_token_noS _ _ Ha Hns) as [Hn _]. eapply noS_eq; [exact Hn|reflexivity|reflexivity]. }
    destruct (state_is st OPERATOR && negb (is_operator c) && negb (ceqb c c_semi)).
    { apply bind_ok in H1. destruct H1 as [a [Ha H1]]. inversion H1; subst.
      split; [|reflexivity]. destruct (append_token_noS _ _ Ha Hns) as [Hn _]. eapply noS_eq; [exact Hn|reflexivity|reflexivity]. }
    inversion H1; subst. split; [apply noS_same; reflexivity|exact Hns]. }
  destruct G1 as [G1 G2].
  destruct (ceqb c c_semi).
  - destruct es.
    + apply bind_ok in H. destruct H as [a [Ha H]]. inversion H; subst.
      eapply noS_trans; [exact G1|apply (append_token_noS _ _ Ha G2)].
    + destruct (negb (s_allow_semi st1)); [discriminate|].
      destruct (mem_str _ _); [|discriminate]. inversion H; subst. eapply noS_eq; [exact G1|reflexivity|reflexivity].
  - inversion H; subst. eapply noS_eq; [exact G1|reflexivity|reflexivity].
Qed.

Lemma parse_newline_tokens : forall c st st', parse_newline c st = Ok st' ->
  (state_is st STRING = false -> noS st st') /\
  (state_is st STRING = true -> all_tokens st' = all_tokens st).
Proof.
  intros c st st' H. unfold parse_newline in H.
  apply bind_ok in H. destruct H as [st1 [H1 H]].
  apply bind_ok in H. destruct H as [st2 [H2 H]]. inversion H; subst. clear H.
  change (state_is (set_is_comment st false) STRING) with (state_is st STRING) in H1.
  destruct (state_is st STRING) eqn:Es.
  - split; [discriminate|intros _].
    assert (G : s_keywords st1 = s_keywords st /\ s_lok st1 = s_lok st /\ s_state st1 = s_state st).
    { destruct (quote_is (set_is_comment st false) c_btick); [inversion H1; subst; auto|].
      destruct (s_escaped (set_is_comment st false)); [inversion H1; subst; auto|discriminate]. }
    destruct G as [G1 [G2 G3]].
    assert (N : state_is st1 COMMENT = false /\ state_is st1 KEYWORD = false /\ state_is st1 OPERATOR = false /\ state_is st1 PAREN = false).
    { unfold state_is in *. rewrite G3. destruct (s_state st) as [ty|]; [|discriminate]. destruct ty; simpl in Es; try discriminate. simpl. auto. }
    destruct N as [N1 [N2 [N3 N4]]]. rewrite N1, N2, N3, N4 in H2. simpl in H2. inversion H2; subst.
    unfold all_tokens. simpl. rewrite G1, G2. reflexivity.
  - split; [intros _|discriminate]. inversion H1; subst. clear H1.
    change (state_is (set_is_comment st false) COMMENT) with (state_is st COMMENT) in H2.
    change (state_is (set_is_comment st false) KEYWORD) with (state_is st KEYWORD) in H2.
    change (state_is (set_is_comment st false) OPERATOR) with (state_is st OPERATOR) in H2.
    change (state_is (set_is_comment st false) PAREN) with (state_is st PAREN) in H2.
    destruct (state_is st COMMENT). { inversion H2; subst. apply noS_same; reflexivity. }
    destruct (state_is st KEYWORD || state_is st OPERATOR).
    { destruct (append_token_noS _ _ H2) as [Hn _]; [exact Es|].
      eapply noS_eq; [eapply noS_trans; [|exact Hn]; apply noS_same; reflexivity|reflexivity|reflexivity]. }
    destruct (state_is st PAREN); [|inversion H2; subst; apply noS_same; reflexivity].
    inversion H2; subst.
    match goal with |- context [if ?b then set_escaped _ false else _] => destruct b end; apply noS_same; reflexivity.
Qed.

(* inside a string literal: nothing is appended, or the literal is closed and its STRING token, made at token_pos, is *)
Lemma parse_string_tokens : forall c st st', s_state st = Some STRING -> parse_string uni true c st = Ok st' ->
  all_tokens st' = all_tokens st \/
  (state_is st' STRING = false /\ exists t, all_tokens st' = all_tokens st ++ [t] /\ t_type t = STRING /\
                                            s_tokpos st = Some (t_line t, t_col t)).
Proof.
  intros c st st' Hst H. unfold parse_string in H.
  destruct (ceqb c c_bslash && negb (s_escaped (push st c))). { inversion H; subst. left. reflexivity. }
  destruct (opt_is (s_quote (push st c)) c && negb (s_escaped (push st c))).
  - assert (G : forall v st0, append_token (set_tokstr (push st c) v) = Ok st0 ->
                 state_is st0 STRING = false /\ exists t, all_tokens st0 = all_tokens st ++ [t] /\ t_type t = STRING /\
                                                          s_tokpos st = Some (t_line t, t_col t)).
    { intros v st0 Ha. destruct (append_token_app _ _ Ha) as [ty [l [k [E1 [E2 [E3 [E4 [E5 _]]]]]]]].
      simpl in E1, E2. rewrite Hst in E1. inversion E1; subst ty.
      split; [unfold state_is; rewrite E5; reflexivity|].
      eexists. split; [apply all_tokens_snoc; [exact E3|exact E4]|]. simpl. auto. }
    right. destruct (quote_is (push st c) c_btick).
    + destruct (py_backtick uni _) as [v| |]; [|discriminate|discriminate].
      apply bind_ok in H. destruct H as [a [Ha H]].
      unfold parse_multiline_string in Ha.
      destruct (split_nl (s_tokstr (set_tokstr (push st c) v))) as [|x [|y [|z l]]]; try discriminate.
      destruct (_ && _) in Ha; [discriminate|]. destruct (_ && _) in Ha; [discriminate|].
      inversion Ha; subst. eapply G. exact H.
    + destruct (py_str_literal uni _) as [v|]; [|discriminate]. eapply G. exact H.
  - left. destruct (s_escaped (push st c)); inversion H; subst; reflexivity.
Qed.

Lemma parse_paren_noS : forall c es st st' b, s_state st = Some PAREN -> parse_paren c es st = Ok (st', b) -> noS st st'.
Proof.
  intros c es st st' b Hst H. unfold parse_paren in H.
  destruct (s_is_string (push st c)).
  { destruct (_ && _) in H; [inversion H; subst; apply noS_same; reflexivity|].
    destruct (_ && _) in H; [inversion H; subst; apply noS_same; reflexivity|].
    destruct (s_escaped _) in H; inversion H; subst; apply noS_same; reflexivity. }
  destruct (s_is_comment (push st c)). { inversion H; subst. apply noS_same; reflexivity. }
  set (st0 := if negb (ceqb c c_slash) && s_is_slash (push st c) then set_is_slash (push st c) false else push st c) in *.
  assert (E0 : s_keywords st0 = s_keywords st /\ s_lok st0 = s_lok st /\ s_state st0 = Some PAREN).
  { unfold st0. destruct (_ && _); simpl; auto. }
  destruct E0 as [K0 [L0 S0]]. clearbody st0.
  destruct (opt_is (s_rparen st0) c && Z.eqb (s_pcount st0) 0).
  - apply bind_ok in H. destruct H as [st2 [Ha H]].
    assert (G : noS st st2).
    { match type of Ha with append_token ?x = _ => assert (Hx : state_is x STRING = false /\ s_keywords x = s_keywords st0 /\ s_lok x = s_lok st0) end.
      { destruct (opt_is (s_paren st0) c_lcurly); [simpl; auto|].
        destruct (opt_is (s_paren st0) c_lround); [simpl; auto|].
        destruct (opt_is (s_paren st0) c_lsquare); [simpl; auto|].
        unfold state_is. rewrite S0. auto. }
      destruct Hx as [X1 [X2 X3]]. destruct (append_token_noS _ _ Ha X1) as [[l [Hl Fl]] _].
      exists l. split; [|exact Fl]. rewrite Hl. unfold all_tokens. rewrite X2, X3, K0, L0. reflexivity. }
    destruct (opt_is (s_paren st0) c_lcurly && es).
    + apply bind_ok in H. destruct H as [term [_ H]]. destruct term.
      * apply bind_ok in H. destruct H as [sh [_ H]]. apply bind_ok in H. destruct H as [skip [_ H]].
        destruct skip; [inversion H; subst; exact G|].
        apply bind_ok in H. destruct H as [st3 [Hk H]]. inversion H; subst.
        eapply noS_all; [exact G|apply (append_keywords_all _ _ Hk)].
      * inversion H; subst. exact G.
    + inversion H; subst. exact G.
  - assert (E : forall x, s_keywords x = s_keywords st0 -> s_lok x = s_lok st0 -> noS st x).
    { intros x X1 X2. apply noS_same; congruence. }
    destruct (opt_is (s_paren st0) c); [inversion H; subst; apply E; reflexivity|].
    destruct (opt_is (s_rparen st0) c); [inversion H; subst; apply E; reflexivity|].
    destruct (is_quote c); [inversion H; subst; apply E; reflexivity|].
    destruct (_ && _) in H; [inversion H; subst; apply E; reflexivity|].
    destruct (ceqb c c_slash); [destruct (s_is_slash st0)|]; inversion H; subst; apply E; reflexivity.
Qed.

(* one iteration of the character loop *)
Definition closes (st st' : tk) : Prop :=
  state_is st STRING = true /\ state_is st' STRING = false /\
  exists t, all_tokens st' = all_tokens st ++ [t] /\ t_type t = STRING /\ s_tokpos st = Some (t_line t, t_col t).

Lemma noS_set_is_slash : forall a b v, noS a b -> noS a (set_is_slash b v).
Proof. intros a b v H. eapply noS_eq; [exact H|reflexivity|reflexivity]. Qed.

Lemma step_tokens : forall es c st st', step uni true es c st = Ok st' ->
  (state_is st STRING = false /\ noS st st') \/
  (state_is st STRING = true /\ all_tokens st' = all_tokens st) \/
  closes st st'.
Proof.
  intros es c st st' H. unfold step in H.
  set (st1 := set_pos st (s_line st) (s_col st + 1)) in *.
  assert (E1 : all_tokens st1 = all_tokens st /\ s_state st1 = s_state st /\ s_tokpos st1 = s_tokpos st) by (split; [|split]; reflexivity).
  destruct E1 as [A1 [S1 P1]].
  assert (Hst : forall ty, state_is st1 ty = state_is st ty) by (intros ty; unfold state_is; rewrite S1; reflexivity).
  assert (Hn1 : forall x, noS st1 x -> noS st x).
  { intros x [l [Hl Fl]]. exists l. rewrite <- A1. auto. }
  clearbody st1.
  destruct (ceqb c c_semi && state_none st1 && negb es); [discriminate|].
  destruct (ceqb c c_nl).
  { apply bind_ok in H. destruct H as [a [Ha H]]. inversion H; subst.
    destruct (parse_newline_tokens _ _ _ Ha) as [G1 G2]. rewrite Hst in G1, G2.
    destruct (state_is st STRING) eqn:Es.
    - right. left. split; [reflexivity|]. change (all_tokens (set_is_slash a false)) with (all_tokens a). rewrite (G2 eq_refl). exact A1.
    - left. split; [reflexivity|]. apply noS_set_is_slash. apply Hn1. apply G1. reflexivity. }
  destruct (ceqb c c_slash && s_is_slash st1 && negb (state_is st1 PAREN) && negb (state_is st1 STRING)) eqn:Esl.
  { apply andb_true_iff in Esl as [_ Ens]. apply negb_true_iff in Ens. rewrite Hst in Ens.
    apply bind_ok in H. destruct H as [st2 [H2 H]]. inversion H; subst.
    left. split; [exact Ens|].
    eapply noS_eq; [|reflexivity|reflexivity]. apply Hn1.
    destruct (s_tokstr (set_tokstr st1 (removelast (s_tokstr st1)))).
    - inversion H2; subst. apply noS_same; reflexivity.
    - destruct (append_token_noS _ _ H2) as [Hn _]; [unfold state_is; simpl; fold (state_is st1 STRING); rewrite Hst; exact Ens|].
      eapply noS_trans; [|exact Hn]. apply noS_same; reflexivity. }
  apply bind_ok in H. destruct H as [[st2 cont1] [H1 H]].
  destruct (state_is st1 KEYWORD || state_is st1 OPERATOR) eqn:Ekw.
  - (* a keyword / operator is pending *)
    assert (Ens : state_is st STRING = false).
    { rewrite <- Hst. unfold state_is in *. destruct (s_state st1) as [ty|]; [|reflexivity]. destruct ty; simpl in *; try discriminate; reflexivity. }
    assert (G1 : noS st st2) by (apply Hn1; eapply parse_kw_noS; eauto).
    left. split; [exact Ens|].
    destruct cont1; [inversion H; subst; apply noS_set_is_slash; exact G1|].
    apply bind_ok in H. destruct H as [[st3 cont2] [H3 H]].
    assert (G3 : noS st st3).
    { destruct (state_none st2) eqn:En2; [eapply noS_trans; [exact G1|eapply parse_none_noS; eauto]|].
      (* parse_kw returns `false` only after append_token: the state is None *)
      exfalso. unfold parse_kw in H1.
      destruct (_ || _ || _ || _ || _) in H1.
      { apply bind_ok in H1. destruct H1 as [a [Ha H1]]. inversion H1; subst.
        destruct (append_token_app _ _ Ha) as [ty [l [k [_ [_ [_ [_ [E5 _]]]]]]]]. unfold state_none in En2. rewrite E5 in En2. discriminate. }
      apply bind_ok in H1. destruct H1 as [sx [Hx H1]].
      destruct (ceqb c c_semi).
      - destruct es.
        + apply bind_ok in H1. destruct H1 as [a [Ha H1]]. inversion H1; subst.
          destruct (append_token_app _ _ Ha) as [ty [l [k [_ [_ [_ [_ [E5 _]]]]]]]]. unfold state_none in En2. rewrite E5 in En2. discriminate.
        + destruct (negb (s_allow_semi sx)); [discriminate|]. destruct (mem_str _ _); discriminate.
      - discriminate. }
    eapply noS_all; [exact G3|].
    destruct cont2; [destruct (state_none st2)|]; inversion H; subst; reflexivity.
  - inversion H1; subst st2 cont1. clear H1.
    apply bind_ok in H. destruct H as [[st3 cont2] [H3 H]].
    assert (Hfin : st' = (if cont2 then (if state_none st1 then set_is_slash st3 false else st3) else set_is_slash st3 (ceqb c c_slash))).
    { destruct cont2; inversion H; reflexivity. }
    assert (Hall : all_tokens st' = all_tokens st3 /\ s_state st' = s_state st3).
    { rewrite Hfin. destruct cont2; [destruct (state_none st1)|]; split; reflexivity. }
    destruct Hall as [Hall Hstate].
    destruct (state_none st1) eqn:En.
    + left. assert (Ens : state_is st STRING = false).
      { rewrite <- Hst. unfold state_none, state_is in *. destruct (s_state st1); [discriminate|reflexivity]. }
      split; [exact Ens|]. eapply noS_all; [|exact Hall]. apply Hn1. eapply parse_none_noS; eauto.
    + destruct (state_is st1 STRING) eqn:Es.
      * apply bind_ok in H3. destruct H3 as [s' [Hs' H3]]. inversion H3; subst st3 cont2.
        assert (Hs1 : s_state st1 = Some STRING).
        { unfold state_is in Es. destruct (s_state st1) as [ty|]; [|discriminate]. destruct ty; simpl in Es; try discriminate. reflexivity. }
        rewrite Hst in Es.
        destruct (parse_string_tokens _ _ _ Hs1 Hs') as [G|[G1 [t [G2 [G3 G4]]]]].
        -- right. left. split; [exact Es|]. rewrite Hall, G. exact A1.
        -- right. right. split; [exact Es|]. split; [unfold state_is in *; rewrite Hstate; exact G1|].
           exists t. rewrite Hall, G2, A1, <- P1. auto.
      * rewrite Hst in Es. left. split; [exact Es|]. eapply noS_all; [|exact Hall]. apply Hn1.
        destruct (state_is st1 PAREN) eqn:Ep.
        -- assert (Hp1 : s_state st1 = Some PAREN).
           { unfold state_is in Ep. destruct (s_state st1) as [ty|]; [|discriminate]. destruct ty; simpl in Ep; try discriminate. reflexivity. }
           eapply parse_paren_noS; eauto.
        -- inversion H3; subst. apply noS_same; reflexivity.
Qed.
End WithUni.

(* ------------------------------------------------------------------ the recorded ends *)
Lemma pos_eqb_refl : forall a, pos_eqb a a = true.
Proof. intros [x y]. unfold pos_eqb. simpl. rewrite !Z.eqb_refl. reflexivity. Qed.
Lemma pos_eqb_eq : forall a b, pos_eqb a b = true -> a = b.
Proof.
  intros [x y] [u v] H. unfold pos_eqb in H. simpl in H. apply andb_true_iff in H as [H1 H2].
  apply Z.eqb_eq in H1. apply Z.eqb_eq in H2. congruence.
Qed.

Lemma lookup_end_in : forall a l e, lookup_end a l = Some e -> In (a, e) l.
Proof.
  induction l as [|[x e0] r IH]; intros e H; simpl in H; [discriminate|].
  destruct (pos_eqb a x) eqn:E.
  - apply pos_eqb_eq in E. inversion H; subst. left. reflexivity.
  - right. apply IH. exact H.
Qed.
Lemma lookup_end_some : forall a l e, In (a, e) l -> exists e', lookup_end a l = Some e'.
Proof.
  induction l as [|[x e0] r IH]; intros e H; [destruct H|]. simpl.
  destruct (pos_eqb a x) eqn:E; [eauto|].
  destruct H as [H|H]; [inversion H; subst; rewrite pos_eqb_refl in E; discriminate|eapply IH; eauto].
Qed.

(* every string-literal token made so far has a recorded end, and every recorded (start, end) delimits a literal *)
Definition ends_ok (p0 : pos) (s : str) (st : tk) (acc : list (pos * pos)) : Prop :=
  (forall t, In t (all_tokens st) -> t_type t = STRING -> exists e, In ((t_line t, t_col t), e) acc) /\
  (forall a e, In (a, e) acc -> lit_span p0 s a e).

Section Run.
Variable uni : str -> option char.

Lemma step_ends : forall p0 s done c rest es st st' acc,
  Inv p0 s done st -> s = done ++ c :: rest -> ends_ok p0 s st acc ->
  step uni true es c st = Ok st' -> Inv p0 s (done ++ [c]) st' ->
  ends_ok p0 s st'
    (if closes_string st st'
     then match s_tokpos st with Some a => acc ++ [(a, (s_line st', s_col st' + 1))] | None => acc end
     else acc).
Proof.
  intros p0 s done c rest es st st' acc [HI Hpos] Hs [Hc Hl] Hstep [HI' Hpos'].
  set (acc' := if closes_string st st' then _ else acc).
  assert (Hsub : forall x, In x acc -> In x acc').
  { intros x Hx. unfold acc'. destruct (closes_string st st'); [|exact Hx].
    destruct (s_tokpos st); [apply in_or_app; left; exact Hx|exact Hx]. }
  split.
  - intros t Hin Hty.
    destruct (step_tokens uni es c st st' Hstep) as [[_ [l [Hall Fl]]]|[[_ Hall]|[Es [Es' [t0 [Hall [Hty0 Hp0]]]]]]].
    + rewrite Hall in Hin. apply in_app_or in Hin as [Hin|Hin].
      * destruct (Hc t Hin Hty) as [e He]. exists e. apply Hsub. exact He.
      * rewrite Forall_forall in Fl. exfalso. apply (Fl t Hin Hty).
    + rewrite Hall in Hin. destruct (Hc t Hin Hty) as [e He]. exists e. apply Hsub. exact He.
    + rewrite Hall in Hin. apply in_app_or in Hin as [Hin|[<-|[]]].
      * destruct (Hc t Hin Hty) as [e He]. exists e. apply Hsub. exact He.
      * unfold acc', closes_string. rewrite Es, Es', Hp0. simpl. eexists. apply in_or_app. right. left. reflexivity.
  - intros a e Hin. unfold acc' in Hin.
    destruct (closes_string st st') eqn:Ecl; [|apply Hl; exact Hin].
    destruct (s_tokpos st) as [a0|] eqn:Etp; [|apply Hl; exact Hin].
    apply in_app_or in Hin as [Hin|[Hin|[]]]; [apply Hl; exact Hin|]. inversion Hin; subst a e. clear Hin.
    unfold closes_string in Ecl. apply andb_true_iff in Ecl as [Es _].
    apply state_is_true in Es. destruct HI as [_ _ _ Hp]. unfold pending in Hp. rewrite Es in Hp.
    destruct Hp as [d0 [q [d1 [Hd [Hq Htp]]]]]. rewrite Etp in Htp. inversion Htp; subst a0.
    exists d0, q, d1, c, rest. repeat split; auto.
    + rewrite Hs, Hd. rewrite <- !app_assoc. simpl. rewrite <- app_assoc. reflexivity.
    + rewrite Hpos', Hd. rewrite <- app_assoc. reflexivity.
Qed.

Lemma ends_chars_ok : forall rest p0 s done es st acc,
  Inv p0 s done st -> s = done ++ rest -> ends_ok p0 s st acc ->
  match ends_chars uni es rest st acc with
  | Ok sa => Inv p0 s s (fst sa) /\ ends_ok p0 s (fst sa) (snd sa) /\ parse_chars uni true es rest st = Ok (fst sa)
  | Diag d l c => parse_chars uni true es rest st = Diag d l c
  | Crash e => parse_chars uni true es rest st = Crash e
  end.
Proof.
  induction rest as [|c rest IH]; intros p0 s done es st acc HI Hs He; simpl.
  - rewrite app_nil_r in Hs. subst done. auto.
  - pose proof (step_ok uni p0 s done c rest es st HI Hs) as Hstep.
    destruct (step uni true es c st) as [st'|d l k|e] eqn:Est; simpl; auto.
    simpl in Hstep.
    apply (IH p0 s (done ++ [c]) es st'); [exact Hstep|rewrite <- app_assoc; exact Hs|].
    eapply step_ends; eauto.
Qed.

Lemma ends_ok_init : forall p0 s line col asemi, ends_ok p0 s (init line col asemi) [].
Proof. intros. split; [intros t [] | intros a e []]. Qed.
End Run.

(* ------------------------------------------------------------------ the tail of parse *)
Lemma nth_back_last : forall l t, nth_back l 1 = Ok t -> l <> [] /\ t = last l (mkTok KEYWORD 0 0 [] false).
Proof.
  intros l t H. unfold nth_back in H.
  destruct (Nat.ltb (length l) 1) eqn:E; [discriminate|]. apply Nat.ltb_ge in E.
  unfold nth_tok in H. destruct (nth_error l (length l - 1)) eqn:En; [|discriminate]. inversion H; subst.
  split; [destruct l; [simpl in E; lia|discriminate]|].
  destruct (exists_last (l := l)) as [l' [x Hl]]; [destruct l; [simpl in E; lia|discriminate]|].
  subst l. rewrite last_last. rewrite app_length in En. simpl in En.
  replace (length l' + 1 - 1)%nat with (length l') in En by lia.
  rewrite nth_error_app2 in En; [|lia]. rewrite Nat.sub_diag in En. simpl in En. congruence.
Qed.

Lemma finish_tokens : forall printable alms es st progs,
  finish printable alms es st = Ok progs -> noS st st \/ True ->
  forall stmt t, In stmt progs -> In t stmt -> t_type t = STRING -> In t (all_tokens st).
Proof.
  intros printable alms es st progs H _ stmt t Hs Ht Hty. unfold finish in H.
  destruct (state_is st STRING) eqn:Es; [discriminate|].
  destruct (state_is st PAREN); [destruct (s_tokpos st) as [[? ?]|]; discriminate|].
  apply bind_ok in H. destruct H as [st1 [H1 H]]. apply bind_ok in H. destruct H as [st2 [H2 H]].
  inversion H; subst progs. clear H.
  assert (Hflush : forall x y, (match s_tokstr x with [] => Ok x | _ => append_token x end) = Ok y ->
                               state_is x STRING = false -> noS x y /\ state_is y STRING = false).
  { intros x y Hx Hsx. destruct (s_tokstr x).
    - inversion Hx; subst. split; [apply noS_same; reflexivity|exact Hsx].
    - destruct (append_token_noS _ _ Hx Hsx) as [Hn Hnone]. split; [exact Hn|]. unfold state_is. rewrite Hnone. reflexivity. }
  assert (G1 : noS st st1 /\ state_is st1 STRING = false).
  { destruct (es && _).
    - apply bind_ok in H1. destruct H1 as [x [Hx H1]]. destruct (Hflush _ _ Hx Es) as [Hn Hsx].
      destruct alms; [|apply bind_ok in H1; destruct H1 as [? [_ H1]]; destruct (cite_end printable _); discriminate].
      destruct (append_keywords_all _ _ H1) as [Ha Hst]. split; [eapply noS_all; eauto|]. unfold state_is in *. rewrite Hst. exact Hsx.
    - inversion H1; subst. split; [apply noS_same; reflexivity|exact Es]. }
  destruct G1 as [G1 Es1].
  assert (G2 : noS st st2).
  { destruct (negb es).
    - apply bind_ok in H2. destruct H2 as [x [Hx H2]]. destruct (Hflush _ _ Hx Es1) as [Hn _].
      destruct (s_keywords x) eqn:Ek.
      + inversion H2; subst. eapply noS_trans; eauto.
      + eapply noS_all; [eapply noS_trans; eauto|apply (append_keywords_all _ _ H2)].
    - inversion H2; subst. exact G1. }
  destruct G2 as [l [Hall Fl]].
  assert (Hin : In t (all_tokens st2)).
  { unfold all_tokens. apply in_or_app. left. apply in_concat. exists stmt. auto. }
  rewrite Hall in Hin. apply in_app_or in Hin as [Hin|Hin]; [exact Hin|].
  rewrite Forall_forall in Fl. exfalso. apply (Fl t Hin Hty).
Qed.

Lemma last_in_tok : forall (l : list token) d, l <> [] -> In (last l d) l.
Proof.
  induction l as [|x r IH]; intros d H; [congruence|].
  destruct r as [|y r']; [left; reflexivity|]. right. apply IH. discriminate.
Qed.

Lemma nth_back_not_diag : forall l k d x y, nth_back l k <> Diag d x y.
Proof. intros. unfold nth_back, nth_tok. destruct (Nat.ltb _ _); [discriminate|]. destruct (nth_error _ _); discriminate. Qed.

Lemma append_token_not_diag : forall st d l c, append_token st <> Diag d l c.
Proof.
  intros st d l c. unfold append_token. destruct (s_state st); [|discriminate].
  destruct (s_tokpos st) as [[? ?]|]; [|discriminate]. destruct (_ && _); discriminate.
Qed.

(* "Expected semicolon(;)": which token is cited *)
Lemma finish_semicolon : forall printable p0 s alms es st l c,
  Inv p0 s s st -> finish printable alms es st = Diag DExpectedSemicolon l c ->
  (s_tokstr st = [] /\ exists t, last_opt (s_keywords st) = Some t /\ In t (s_keywords st) /\ (l, c) = cite_end printable t) \/
  (s_tokstr st <> [] /\ exists t, t_type t <> STRING /\ faithful_from p0 s t /\ (l, c) = cite_end printable t).
Proof.
  intros printable p0 s alms es st l c [HI Hpos] H. unfold finish in H.
  destruct (state_is st STRING) eqn:Es; [discriminate|].
  destruct (state_is st PAREN) eqn:Ep; [destruct (s_tokpos st) as [[? ?]|]; discriminate|].
  destruct (es && _) eqn:Ees.
  2:{ simpl in H. destruct (negb es); [|discriminate].
      destruct (match s_tokstr st with [] => Ok st | _ => append_token st end) as [x|d0 l0 c0|] eqn:Ef; simpl in H; try discriminate.
      - unfold append_keywords in H. destruct (s_keywords x); simpl in H; discriminate.
      - destruct (s_tokstr st); [discriminate|]. exfalso. eapply append_token_not_diag; eauto. }
  assert (es = true) by (destruct es; [reflexivity|discriminate]). subst es. clear Ees.
  destruct (s_tokstr st) as [|a b] eqn:Ets.
  - left. split; [reflexivity|]. simpl in H.
    destruct alms.
    + unfold append_keywords in H. destruct (s_keywords st) eqn:Ek; simpl in H; discriminate.
    + destruct (nth_back (s_keywords st) 1) as [t| |] eqn:En; simpl in H; try discriminate;
        [|exfalso; eapply nth_back_not_diag; eauto].
      destruct (cite_end printable t) as [l' c'] eqn:Ece. inversion H; subst.
      destruct (nth_back_last _ _ En) as [Hne Hl]. exists t. unfold last_opt.
      destruct (s_keywords st) eqn:Ek; [congruence|]. rewrite <- Hl. repeat split; auto.
      rewrite Hl. apply last_in_tok. discriminate.
  - right. split; [discriminate|].
    assert (Hkw : state_is st KEYWORD || state_is st OPERATOR = true).
    { destruct HI as [_ _ _ Hp]. unfold pending in Hp. unfold state_is in *. rewrite Ets in Hp.
      destruct (s_state st) as [ty|]; [|congruence]. destruct ty; simpl in *; try discriminate; try contradiction; auto; congruence. }
    destruct (emit_kwop p0 s s st HI Hkw) as [st' [Hap [HI' _]]].
    destruct (append_token_app _ _ Hap) as [ty [tl [tc [E1 [E2 [E3 _]]]]]].
    rewrite Hap in H. simpl in H.
    destruct alms.
    + unfold append_keywords in H. rewrite E3 in H. destruct (s_keywords st ++ _) eqn:Ek; [destruct (s_keywords st); discriminate|].
      simpl in H. discriminate.
    + destruct (nth_back (s_keywords st') 1) as [t| |] eqn:En; simpl in H; try discriminate;
        [|exfalso; eapply nth_back_not_diag; eauto].
      destruct (cite_end printable t) as [l' c'] eqn:Ece. inversion H; subst.
      destruct (nth_back_last _ _ En) as [_ Hl]. rewrite E3, last_last in Hl. subst t.
      eexists. split; [|split; [|symmetry; exact Ece]].
      * simpl. intros ->. unfold state_is in Hkw. rewrite E1 in Hkw. discriminate.
      * destruct HI' as [_ Hk _ _]. rewrite Forall_forall in Hk. apply Hk. rewrite E3. apply in_or_app. right. left. reflexivity.
Qed.

(* ------------------------------------------------------------------ the character loop never raises "Expected semicolon(;)" *)
Definition nd {A} (r : result A) : Prop := forall l k, r <> Diag DExpectedSemicolon l k.
Lemma nd_ok : forall {A} (a : A), nd (Ok a). Proof. intros A a l k. discriminate. Qed.
Lemma nd_crash : forall {A} e, nd (@Crash A e). Proof. intros A e l k. discriminate. Qed.
Lemma nd_here : forall {A} d st, d <> DExpectedSemicolon -> nd (@diag_here A d st).
Proof. intros A d st H l k E. unfold diag_here in E. inversion E. congruence. Qed.
Lemma nd_bind : forall {A B} (r : result A) (f : A -> result B), nd r -> (forall a, nd (f a)) -> nd (bind r f).
Proof. intros A B [a|d l k|e] f H1 H2 l' k' E; simpl in E; [eapply H2; eauto|inversion E; subst; eapply H1; reflexivity|discriminate]. Qed.

Ltac nd_step :=
  first [ apply nd_ok | apply nd_crash | (apply nd_here; discriminate)
        | (apply nd_bind; [|intros ?])
        | match goal with
          | |- nd (if ?b then _ else _) => destruct b
          | |- nd (match ?x with _ => _ end) => destruct x
          end
        | assumption ].

Lemma nd_append_token : forall st, nd (append_token st).
Proof. intros st. unfold append_token. repeat nd_step. Qed.
Lemma nd_append_keywords : forall st, nd (append_keywords st).
Proof. intros st. unfold append_keywords. repeat nd_step. Qed.
Lemma nd_parse_none : forall c st, nd (parse_none c st).
Proof. intros. unfold parse_none. repeat first [apply nd_append_token | apply nd_append_keywords | nd_step]. Qed.
Lemma nd_parse_kw : forall c es st, nd (parse_kw c es st).
Proof. intros. unfold parse_kw. repeat first [apply nd_append_token | apply nd_append_keywords | nd_step]. Qed.
Lemma nd_parse_newline : forall c st, nd (parse_newline c st).
Proof. intros. unfold parse_newline. repeat first [apply nd_append_token | apply nd_append_keywords | nd_step]. Qed.
Lemma nd_parse_multiline_string : forall st, nd (parse_multiline_string st).
Proof. intros. unfold parse_multiline_string. repeat nd_step. Qed.
Lemma nd_parse_string : forall uni c st, nd (parse_string uni true c st).
Proof.
  intros. unfold parse_string, bad_literal.
  repeat first [apply nd_append_token | apply nd_parse_multiline_string | nd_step].
Qed.
Lemma nd_nth_tok : forall l i, nd (nth_tok l i).
Proof. intros. unfold nth_tok. repeat nd_step. Qed.
Lemma nd_nth_back : forall l i, nd (nth_back l i).
Proof. intros. unfold nth_back. repeat first [apply nd_nth_tok | nd_step]. Qed.
Lemma nd_case_label_length : forall st, nd (case_label_length st).
Proof. intros. unfold case_label_length. repeat first [apply nd_nth_tok | nd_step]. Qed.
Lemma nd_should_terminate_line : forall st n, nd (should_terminate_line st n).
Proof. intros. unfold should_terminate_line. repeat first [apply nd_case_label_length | apply nd_nth_tok | apply nd_nth_back | nd_step]. Qed.
Lemma nd_is_shorten_if : forall st, nd (is_shorten_if st).
Proof. intros. unfold is_shorten_if. repeat first [apply nd_case_label_length | apply nd_nth_tok | apply nd_nth_back | nd_step]. Qed.
Lemma nd_parse_paren : forall c es st, nd (parse_paren c es st).
Proof.
  intros. unfold parse_paren.
  repeat first [apply nd_append_token | apply nd_append_keywords | apply nd_should_terminate_line | apply nd_is_shorten_if | nd_step].
Qed.
Lemma nd_step_char : forall uni es c st, nd (step uni true es c st).
Proof.
  intros. unfold step.
  repeat first [apply nd_append_token | apply nd_parse_newline | apply nd_parse_kw | apply nd_parse_none
               | apply nd_parse_string | apply nd_parse_paren | nd_step].
Qed.
Lemma nd_ends_chars : forall uni es s st acc, nd (ends_chars uni es s st acc).
Proof.
  induction s as [|c r IH]; intros st acc; simpl; [apply nd_ok|].
  apply nd_bind; [apply nd_step_char|intros a; apply IH].
Qed.

(* ------------------------------------------------------------------ Tokenizer.parse with recorded ends *)
Section Final.
Variable uni : str -> option char.
Variable printable : char -> bool.

Lemma spelled_string : forall t q body cl, t_type t = STRING -> is_quote q = true -> spelled t (q :: body ++ [cl]).
Proof. intros t q body cl Hty Hq. unfold spelled. rewrite Hty. eauto. Qed.

(* a string-literal token that has a recorded end: the end is the position right after its source spelling *)
Lemma string_end : forall p0 s ends t e,
  (forall a e, In (a, e) ends -> lit_span p0 s a e) -> t_type t = STRING ->
  lookup_end (t_line t, t_col t) ends = Some e ->
  exists d src r, s = d ++ src ++ r /\ (t_line t, t_col t) = pos_after p0 d /\ spelled t src /\
                  tok_end printable ends t = pos_after p0 (d ++ src).
Proof.
  intros p0 s ends t e Hl Hty Hlk.
  destruct (Hl _ _ (lookup_end_in _ _ _ Hlk)) as [d [q [body [cl [r [Hs [Hq [Ha He]]]]]]]].
  exists d, (q :: body ++ [cl]), r. repeat split; auto.
  - apply spelled_string; auto.
  - unfold tok_end. rewrite Hty. simpl. rewrite Hlk. exact He.
Qed.

Lemma other_end : forall p0 s ends t,
  faithful_from p0 s t -> t_type t <> STRING ->
  exists d src r, s = d ++ src ++ r /\ (t_line t, t_col t) = pos_after p0 d /\ spelled t src /\
                  tok_end printable ends t = pos_after p0 (d ++ src).
Proof.
  intros p0 s ends t Hf Hty.
  destruct (cite_end_is_end printable p0 s t Hf Hty) as [d [r [Hs [Hp He]]]].
  exists d, (t_str t), r. repeat split; auto.
  - unfold spelled. destruct (t_type t); try reflexivity. congruence.
  - unfold tok_end. destruct (ttype_eqb (t_type t) STRING) eqn:E; [destruct (t_type t); simpl in E; congruence|]. exact He.
Qed.

Theorem parse_ends_spec : forall alms es asemi s line col progs ends,
  parse_ends uni printable alms es asemi s line col = Ok (progs, ends) ->
  parse uni printable alms es asemi s line col = Ok progs /\
  (forall a e, In (a, e) ends -> lit_span (line, col) s a e) /\
  forall stmt t, In stmt progs -> In t stmt -> t_type t = STRING ->
    exists e, lookup_end (t_line t, t_col t) ends = Some e.
Proof.
  intros alms es asemi s line col progs ends H. unfold parse_ends in H.
  pose proof (ends_chars_ok uni s (line, col) s [] es (init line col asemi) []
                (init_inv s line col asemi) eq_refl (ends_ok_init _ _ _ _ _)) as G.
  destruct (ends_chars uni es s (init line col asemi) []) as [[st acc]| |]; simpl in H; try discriminate.
  simpl in G. destruct G as [HI [[Hc Hl] Hp]].
  destruct (finish printable alms es st) as [pr| |] eqn:Ef; simpl in H; try discriminate. inversion H; subst pr acc. clear H.
  split; [|split].
  - unfold parse, parse_gen. rewrite Hp. simpl. exact Ef.
  - exact Hl.
  - intros stmt t Hs Ht Hty.
    assert (Hin : In t (all_tokens st)) by (eapply finish_tokens; eauto).
    destruct (Hc t Hin Hty) as [e He]. eapply lookup_end_some; eauto.
Qed.

(* every token of a run, of every kind: Token.end is the position right after the token's source spelling *)
Theorem token_end_spec : forall alms es asemi s line col progs ends stmt t,
  parse_ends uni printable alms es asemi s line col = Ok (progs, ends) -> In stmt progs -> In t stmt ->
  exists d src r, s = d ++ src ++ r /\ (t_line t, t_col t) = pos_after (line, col) d /\ spelled t src /\
                  tok_end printable ends t = pos_after (line, col) (d ++ src).
Proof.
  intros alms es asemi s line col progs ends stmt t H Hs Ht.
  destruct (parse_ends_spec _ _ _ _ _ _ _ _ H) as [Hp [Hl Hc]].
  destruct (ttype_eqb (t_type t) STRING) eqn:E.
  - assert (Hty : t_type t = STRING) by (destruct (t_type t); simpl in E; congruence).
    destruct (Hc stmt t Hs Ht Hty) as [e He]. eapply string_end; eauto.
  - assert (Hty : t_type t <> STRING) by (intros X; rewrite X in E; discriminate).
    apply other_end; auto.
    eapply parse_tokens_faithful; eauto.
Qed.

(* "Expected semicolon(;)" of the repaired tokenizer cites the position right after the last token, whatever its kind *)
Theorem parse_r_semicolon : forall alms es asemi s line col l c,
  parse_r uni printable alms es asemi s line col = Diag DExpectedSemicolon l c ->
  exists t d src r, s = d ++ src ++ r /\ (t_line t, t_col t) = pos_after (line, col) d /\ spelled t src /\
                    (l, c) = pos_after (line, col) (d ++ src).
Proof.
  intros alms es asemi s line col l c H. unfold parse_r in H.
  pose proof (ends_chars_ok uni s (line, col) s [] es (init line col asemi) []
                (init_inv s line col asemi) eq_refl (ends_ok_init _ _ _ _ _)) as G.
  destruct (ends_chars uni es s (init line col asemi) []) as [[st acc]| |] eqn:Er; simpl in H.
  2:{ exfalso. inversion H; subst. eapply (nd_ends_chars uni es s (init line col asemi) []). exact Er. }
  2:{ discriminate. }
  simpl in G. destruct G as [HI [[Hc Hl] Hp]]. simpl in H.
  unfold finish_r in H.
  destruct (finish printable alms es st) as [pr|d0 l0 c0|] eqn:Ef; try discriminate.
  destruct d0; try discriminate.
  destruct (finish_semicolon printable (line, col) s alms es st l0 c0 HI Ef) as [[Ets [t [Hlast [Hin Hce]]]]|[Hne [t [Hty [Hf Hce]]]]].
  - rewrite Ets, Hlast in H. destruct (tok_end printable acc t) as [l' c'] eqn:Ete. inversion H; subst l' c'.
    assert (Hall : In t (all_tokens st)) by (unfold all_tokens; apply in_or_app; right; exact Hin).
    exists t. rewrite <- Ete.
    destruct (ttype_eqb (t_type t) STRING) eqn:E.
    + assert (Hty : t_type t = STRING) by (destruct (t_type t); simpl in E; congruence).
      destruct (Hc t Hall Hty) as [e He]. destruct (lookup_end_some _ _ _ He) as [e' He'].
      eapply string_end; eauto.
    + assert (Hty : t_type t <> STRING) by (intros X; rewrite X in E; discriminate).
      apply other_end; auto.
      destruct HI as [[_ Hkw _ _] _]. rewrite Forall_forall in Hkw. apply Hkw. exact Hin.
  - destruct (s_tokstr st) eqn:Ets; [congruence|]. inversion H; subst l0 c0.
    exists t. rewrite Hce.
    destruct (other_end (line, col) s acc t Hf Hty) as [d [src [r [G1 [G2 [G3 G4]]]]]].
    exists d, src, r. repeat split; auto. rewrite <- G4.
    unfold tok_end. destruct (ttype_eqb (t_type t) STRING) eqn:E; [destruct (t_type t); simpl in E; congruence|reflexivity].
Qed.
End Final.

(* ------------------------------------------------------------------ parse_r and Model.Tok.parse *)
Theorem parse_r_vs_parse : forall uni printable alms es asemi s line col,
  match parse uni printable alms es asemi s line col, parse_r uni printable alms es asemi s line col with
  | Ok a, Ok b => a = b
  | Diag d l c, Diag d' l' c' => d = d' /\ (d <> DExpectedSemicolon -> l = l' /\ c = c')
  | Crash e, Crash e' => e = e'
  | _, _ => False
  end.
Proof.
  intros. unfold parse, parse_gen, parse_r.
  pose proof (ends_chars_ok uni s (line, col) s [] es (init line col asemi) []
                (init_inv s line col asemi) eq_refl (ends_ok_init _ _ _ _ _)) as G.
  destruct (ends_chars uni es s (init line col asemi) []) as [[st acc]|d l c|e]; simpl in G.
  - destruct G as [_ [_ Hp]]. rewrite Hp. simpl. unfold finish_r.
    destruct (finish printable alms es st) as [pr|d l c|e]; auto.
    destruct d; try (split; [reflexivity|auto]).
    destruct (match s_tokstr st with [] => last_opt (s_keywords st) | _ :: _ => None end); [|split; [reflexivity|auto]].
    destruct (tok_end printable acc t). split; [reflexivity|congruence].
  - rewrite G. simpl. split; [reflexivity|auto].
  - rewrite G. simpl. reflexivity.
Qed.

(* ------------------------------------------------------------------ a literal on one line: its end column is start + length
   of the source spelling, so Token.length must be the length of the literal AS WRITTEN *)
Lemma single_line_end : forall p0 d src, has_nl src = false ->
  pos_after p0 (d ++ src) = (fst (pos_after p0 d), snd (pos_after p0 d) + Z.of_nat (length src)).
Proof.
  intros p0 d src H. rewrite pos_after_app. destruct (pos_after p0 d) as [l c].
  rewrite pos_after_formula, H, (count_nl_zero _ H). simpl. f_equal. lia.
Qed.

Theorem end_col_is_source_length : forall p0 d src (t : token) L,
  (t_line t, t_col t) = pos_after p0 d -> has_nl src = false ->
  ((t_line t, t_col t + L) = pos_after p0 (d ++ src) <-> L = Z.of_nat (length src)).
Proof.
  intros p0 d src t L Hp Hnl. rewrite (single_line_end _ _ _ Hnl), <- Hp. simpl. split.
  - intros H. inversion H. lia.
  - intros ->. reflexivity.
Qed.

(* the seeded variant len(string) + 2 is right exactly when the literal is as long as its decoded text plus two quotes *)
Corollary plain_len_right_iff : forall p0 d src (t : token),
  (t_line t, t_col t) = pos_after p0 d -> has_nl src = false ->
  ((t_line t, t_col t + plain_len t) = pos_after p0 (d ++ src) <-> length src = (length (t_str t) + 2)%nat).
Proof.
  intros p0 d src t Hp Hnl. rewrite (end_col_is_source_length p0 d src t _ Hp Hnl). unfold plain_len. lia.
Qed.
