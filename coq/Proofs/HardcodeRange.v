(* Proofs/HardcodeRange.v — C19: Python's range, Hardcode.repeat as a map over it, and the
   composition lemma for statement-wise parsers. *)
From Coq Require Import ZArith String List Bool Lia.
From JMCV Require Import Base.Dec Model.StrOps Model.Hardcode.
Import ListNotations.
Open Scope Z_scope.

(* ------------------------------------------------------------------ range_from *)

Lemma range_from_length a s n : length (range_from a s n) = n.
Proof. revert a. induction n as [|n IH]; intros a; cbn; [reflexivity | now rewrite IH]. Qed.

Lemma range_from_nth a s n k :
  (k < n)%nat -> nth k (range_from a s n) 0 = a + Z.of_nat k * s.
Proof.
  revert a k. induction n as [|n IH]; intros a k Hk; [lia|].
  destruct k as [|k]; cbn [range_from nth].
  - lia.
  - rewrite IH by lia. lia.
Qed.

Lemma range_from_In a s n x :
  In x (range_from a s n) <-> exists k : nat, (k < n)%nat /\ x = a + Z.of_nat k * s.
Proof.
  revert a. induction n as [|n IH]; intros a; cbn [range_from In].
  - split; [tauto | intros (k & Hk & _); lia].
  - rewrite IH. split.
    + intros [<- | (k & Hk & ->)].
      * exists 0%nat. split; lia.
      * exists (S k). split; lia.
    + intros (k & Hk & ->). destruct k as [|k].
      * left. lia.
      * right. exists k. split; lia.
Qed.

(* ------------------------------------------------------------------ the length CPython computes *)

Lemma range_len_nonneg a b s : 0 <= range_len a b s.
Proof.
  unfold range_len.
  destruct (0 <? s) eqn:Hs.
  - apply Z.ltb_lt in Hs. destruct (a <? b) eqn:Hab; [|lia].
    apply Z.ltb_lt in Hab. pose proof (Z.div_pos (b - a - 1) s). lia.
  - destruct (s <? 0) eqn:Hs2; [|lia].
    apply Z.ltb_lt in Hs2. destruct (b <? a) eqn:Hab; [|lia].
    apply Z.ltb_lt in Hab. pose proof (Z.div_pos (a - b - 1) (- s)). lia.
Qed.

(* k-th element is before stop iff k < length *)
Lemma range_len_pos_char a b s k :
  0 < s -> 0 <= k -> (a + k * s < b <-> k < range_len a b s).
Proof.
  intros Hs Hk. unfold range_len.
  destruct (0 <? s) eqn:E; [|apply Z.ltb_ge in E; lia]. clear E.
  destruct (a <? b) eqn:Hab.
  - apply Z.ltb_lt in Hab.
    pose proof (Z.div_mod (b - a - 1) s ltac:(lia)) as Hdm.
    pose proof (Z.mod_pos_bound (b - a - 1) s Hs) as Hm.
    set (q := (b - a - 1) / s) in *. set (r := (b - a - 1) mod s) in *.
    split; intros H; nia.
  - apply Z.ltb_ge in Hab. split; intros H; nia.
Qed.

Lemma range_len_neg_char a b s k :
  s < 0 -> 0 <= k -> (b < a + k * s <-> k < range_len a b s).
Proof.
  intros Hs Hk. unfold range_len.
  destruct (0 <? s) eqn:E; [apply Z.ltb_lt in E; lia|]. clear E.
  destruct (s <? 0) eqn:E; [|apply Z.ltb_ge in E; lia]. clear E.
  destruct (b <? a) eqn:Hab.
  - apply Z.ltb_lt in Hab.
    pose proof (Z.div_mod (a - b - 1) (- s) ltac:(lia)) as Hdm.
    pose proof (Z.mod_pos_bound (a - b - 1) (- s) ltac:(lia)) as Hm.
    set (q := (a - b - 1) / (- s)) in *. set (r := (a - b - 1) mod (- s)) in *.
    split; intros H; nia.
  - apply Z.ltb_ge in Hab. split; intros H; nia.
Qed.

Lemma py_range_spec :
  forall start stop step : Z, step <> 0%Z ->
    let l := py_range start stop step in
    (forall k : nat, (k < length l)%nat -> nth k l 0%Z = (start + Z.of_nat k * step)%Z) /\
    (forall x : Z, In x l <->
                   exists k : Z, (0 <= k)%Z /\ x = (start + k * step)%Z /\
                                 (if (0 <? step)%Z then (x < stop)%Z else (stop < x)%Z)) /\
    (((0 < step)%Z /\ (stop <= start)%Z) \/ ((step < 0)%Z /\ (start <= stop)%Z) -> l = []).
Proof.
  intros a b s Hs l. subst l. unfold py_range.
  pose proof (range_len_nonneg a b s) as Hn.
  set (n := range_len a b s) in *.
  split; [|split].
  - intros k Hk. rewrite range_from_length in Hk. now apply range_from_nth.
  - intros x. rewrite range_from_In. split.
    + intros (k & Hk & ->). exists (Z.of_nat k). split; [lia|]. split; [reflexivity|].
      destruct (0 <? s) eqn:E.
      * apply Z.ltb_lt in E. apply (range_len_pos_char a b s (Z.of_nat k)); lia.
      * apply Z.ltb_ge in E. apply (range_len_neg_char a b s (Z.of_nat k)); lia.
    + intros (k & Hk & -> & Hc). exists (Z.to_nat k). rewrite Z2Nat.id by lia. split; [|reflexivity].
      assert (k < n); [|lia].
      destruct (0 <? s) eqn:E.
      * apply Z.ltb_lt in E. apply (range_len_pos_char a b s k); lia.
      * apply Z.ltb_ge in E. apply (range_len_neg_char a b s k); lia.
  - intros H. assert (n = 0) as ->; [|reflexivity].
    subst n. unfold range_len. destruct H as [[H1 H2] | [H1 H2]].
    + destruct (0 <? s) eqn:E; [|apply Z.ltb_ge in E; lia].
      destruct (a <? b) eqn:E2; [apply Z.ltb_lt in E2; lia | reflexivity].
    + destruct (0 <? s) eqn:E; [apply Z.ltb_lt in E; lia|].
      destruct (s <? 0) eqn:E1; [|reflexivity].
      destruct (b <? a) eqn:E2; [apply Z.ltb_lt in E2; lia | reflexivity].
Qed.

Lemma repeat_texts_spec :
  forall m macros body p start stop step,
    repeat_texts m macros body p start stop step =
    map (fun i => hardcode_process m macros body (dollar p) (z_dec i)) (py_range start stop step).
Proof. reflexivity. Qed.

(* ------------------------------------------------------------------ statement-wise parsers compose *)

Section StatementWise.
  Context {St Stmt Cmd : Type}.
  Variable parse1 : St -> Stmt -> St * list Cmd.

  Lemma parse_content_app (a b : list Stmt) (s : St) :
    parse_content parse1 (a ++ b) s =
    let '(s1, c1) := parse_content parse1 a s in
    let '(s2, c2) := parse_content parse1 b s1 in
    (s2, c1 ++ c2).
  Proof.
    revert s. induction a as [|x a IH]; intros s; cbn [parse_content app].
    - destruct (parse_content parse1 b s) as [s2 c2]. reflexivity.
    - destruct (parse1 s x) as [s1 c1]. rewrite IH.
      destruct (parse_content parse1 a s1) as [s2 c2].
      destruct (parse_content parse1 b s2) as [s3 c3].
      now rewrite app_assoc.
  Qed.
End StatementWise.

Lemma unroll_alloc :
  forall (St Stmt Cmd : Type) (parse1 : St -> Stmt -> St * list Cmd) (iterations : list (list Stmt)) (s : St),
    parse_iterations parse1 iterations s = parse_content parse1 (concat iterations) s.
Proof.
  intros St Stmt Cmd parse1 its. induction its as [|l r IH]; intros s; cbn [parse_iterations concat].
  - reflexivity.
  - rewrite parse_content_app. destruct (parse_content parse1 l s) as [s1 c1].
    rewrite IH. reflexivity.
Qed.
