(* Proofs.CondBase — definitions and basic lemmas for the correctness of Model.Cond (C03):
   induction principle for trees, truth of conditions, which scores a condition reads,
   flags, frame lemmas, negate_ast. *)
From Coq Require Import ZArith String List Bool Lia Arith.
From JMCV Require Import Base.Int32 Base.Dec MC.Syntax MC.Sem MC.Facts Model.Names Model.Cond.
Import ListNotations.
Open Scope Z_scope.

(* ------------------------------------------------------------------ induction on trees *)
Section TreeInd.
  Variable A : Type.
  Variable P : tree A -> Prop.
  Hypothesis HL : forall a, P (Leaf a).
  Hypothesis HA : forall l, Forall P l -> P (And l).
  Hypothesis HO : forall l, Forall P l -> P (Or l).
  Hypothesis HN : forall t, P t -> P (Not t).
  Fixpoint tree_ind' (t : tree A) : P t :=
    match t with
    | Leaf a => HL a
    | And l => HA l ((fix go (l : list (tree A)) : Forall P l :=
                        match l with [] => Forall_nil _ | x :: r => Forall_cons _ (tree_ind' x) (go r) end) l)
    | Or l => HO l ((fix go (l : list (tree A)) : Forall P l :=
                       match l with [] => Forall_nil _ | x :: r => Forall_cons _ (tree_ind' x) (go r) end) l)
    | Not b => HN b (tree_ind' b)
    end.
End TreeInd.

(* ------------------------------------------------------------------ truth of conditions *)
Definition cond_true (st : state) (c : cond) : bool := Bool.eqb (fst c) (test_true st (snd c)).
Definition conds_true (st : state) (cs : list cond) : bool := forallb (cond_true st) cs.

Fixpoint aeval (st : state) (a : ast) : bool :=
  match a with
  | Leaf c => cond_true st c
  | And l => forallb (aeval st) l
  | Or l => existsb (aeval st) l
  | Not b => negb (aeval st b)
  end.

Definition test_scores (t : test) : list score :=
  match t with Matches s _ => [s] | Cmp s _ s2 => [s; s2] end.

Fixpoint tests (a : ast) : list test :=
  match a with
  | Leaf c => [snd c]
  | And l | Or l => flat_map tests l
  | Not b => tests b
  end.

(* every && / || has at least one operand (the parser only builds them with two or more) *)
Fixpoint nonempty {A} (a : tree A) : bool :=
  match a with
  | Leaf _ => true
  | And l | Or l => match l with [] => false | _ => forallb nonempty l end
  | Not b => nonempty b
  end.

Lemma test_true_ext st1 st2 t :
  (forall s, In s (test_scores t) -> sc st1 s = sc st2 s) -> test_true st1 t = test_true st2 t.
Proof.
  intros H. destruct t as [s r|s o s2]; cbn in *.
  - now rewrite (H s) by auto.
  - now rewrite (H s), (H s2) by auto.
Qed.

Lemma conds_true_app st a b : conds_true st (a ++ b) = conds_true st a && conds_true st b.
Proof. apply forallb_app. Qed.

(* ------------------------------------------------------------------ flags *)
Lemma append_inj_l p a b : (p ++ a)%string = (p ++ b)%string -> a = b.
Proof. induction p as [|ch p IH]; cbn; intros H; [exact H|]. injection H as H. auto. Qed.

Lemma flag_inj nm a b : flag nm a = flag nm b -> a = b.
Proof.
  unfold flag, logic_name. intros H.
  assert (H' : ("__logic__" ++ z_dec (Z.of_nat a))%string = ("__logic__" ++ z_dec (Z.of_nat b))%string)
    by congruence.
  apply append_inj_l, z_dec_inj in H'. now apply Nat2Z.inj.
Qed.

Section WithNames.
  Variable nm : names.

  (* a score the user can see: not one of the __logic__N scratch flags *)
  Definition user_score (s : score) : Prop := forall k, s <> flag nm k.
  (* user-visible, or a flag numbered in [lo, hi) *)
  Definition in_rng (lo hi : nat) (s : score) : Prop :=
    user_score s \/ exists k, (lo <= k < hi)%nat /\ s = flag nm k.

  Definition test_ok (t : test) : Prop := Forall user_score (test_scores t) /\ wf_test t = true.
  Definition ast_ok (a : ast) : Prop := Forall test_ok (tests a) /\ nonempty a = true.

  Definition cond_in (lo hi : nat) (c : cond) : Prop :=
    Forall (in_rng lo hi) (test_scores (snd c)) /\ wf_test (snd c) = true.
  Definition pre_in (lo hi : nat) (p : pre) : Prop :=
    Forall (cond_in lo hi) (fst p) /\ (lo <= snd p < hi)%nat.

  Definition agree_user (st1 st2 : state) : Prop := forall s, user_score s -> sc st1 s = sc st2 s.
  (* st' differs from st at most on the flags numbered in [lo, hi) *)
  Definition same_out (lo hi : nat) (st st' : state) : Prop :=
    (forall s, (forall k, (lo <= k < hi)%nat -> s <> flag nm k) -> sc st' s = sc st s) /\
    stg st' = stg st /\ tr st' = tr st.

  Lemma in_rng_weaken lo hi lo' hi' s :
    (lo' <= lo)%nat -> (hi <= hi')%nat -> in_rng lo hi s -> in_rng lo' hi' s.
  Proof. intros ? ? [H|[k [? ->]]]; [now left|right; exists k; split; [lia|reflexivity]]. Qed.
  Lemma cond_in_weaken lo hi lo' hi' c :
    (lo' <= lo)%nat -> (hi <= hi')%nat -> cond_in lo hi c -> cond_in lo' hi' c.
  Proof.
    intros ? ? [H W]. split; [|exact W]. eapply Forall_impl; [|exact H].
    intros; eapply in_rng_weaken; eauto.
  Qed.
  Lemma conds_in_weaken lo hi lo' hi' cs :
    (lo' <= lo)%nat -> (hi <= hi')%nat -> Forall (cond_in lo hi) cs -> Forall (cond_in lo' hi') cs.
  Proof. intros ? ? H. eapply Forall_impl; [|exact H]. intros; eapply cond_in_weaken; eauto. Qed.
  Lemma pre_in_weaken lo hi lo' hi' p :
    (lo' <= lo)%nat -> (hi <= hi')%nat -> pre_in lo hi p -> pre_in lo' hi' p.
  Proof. intros ? ? [H K]. split; [eapply conds_in_weaken; eauto|lia]. Qed.
  Lemma pres_in_weaken lo hi lo' hi' ps :
    (lo' <= lo)%nat -> (hi <= hi')%nat -> Forall (pre_in lo hi) ps -> Forall (pre_in lo' hi') ps.
  Proof. intros ? ? H. eapply Forall_impl; [|exact H]. intros; eapply pre_in_weaken; eauto. Qed.

  Lemma same_out_refl lo hi st : same_out lo hi st st.
  Proof. repeat split. Qed.
  Lemma same_out_trans lo hi st1 st2 st3 :
    same_out lo hi st1 st2 -> same_out lo hi st2 st3 -> same_out lo hi st1 st3.
  Proof.
    intros [A [B C]] [A' [B' C']]. repeat split; try congruence.
    intros s H. rewrite A' by exact H. now apply A.
  Qed.
  Lemma same_out_weaken lo hi lo' hi' st st' :
    (lo' <= lo)%nat -> (hi <= hi')%nat -> same_out lo hi st st' -> same_out lo' hi' st st'.
  Proof.
    intros L1 L2 [A [B C]]. repeat split; auto. intros s Hs. apply A. intros k Hk. apply Hs. lia.
  Qed.
  Lemma same_out_user lo hi st st' : same_out lo hi st st' -> agree_user st st'.
  Proof. intros [A _] s Hs. symmetry. apply A. intros k _. apply Hs. Qed.
  Lemma same_out_set lo hi st k v : (lo <= k < hi)%nat -> same_out lo hi st (set_sc st (flag nm k) v).
  Proof.
    intros Hk. repeat split. intros s H. unfold set_sc; cbn [sc].
    apply upd_other. intros E. now apply (H k Hk).
  Qed.

  (* conditions reading only user scores and flags in [lo,hi) do not see changes elsewhere *)
  Lemma cond_frame lo hi c st1 st2 :
    cond_in lo hi c ->
    (forall s, in_rng lo hi s -> sc st1 s = sc st2 s) ->
    cond_true st1 c = cond_true st2 c.
  Proof.
    intros [H _] E. unfold cond_true. f_equal. apply test_true_ext.
    intros s Hs. apply E. rewrite Forall_forall in H. now apply H.
  Qed.
  Lemma conds_frame lo hi cs st1 st2 :
    Forall (cond_in lo hi) cs ->
    (forall s, in_rng lo hi s -> sc st1 s = sc st2 s) ->
    conds_true st1 cs = conds_true st2 cs.
  Proof.
    intros H E. unfold conds_true. induction H as [|c cs Hc _ IH]; [reflexivity|].
    cbn [forallb]. now rewrite IH, (cond_frame lo hi c st1 st2).
  Qed.
  (* ... in particular changes to flags outside [lo,hi) *)
  Lemma conds_frame_out lo hi lo2 hi2 cs st1 st2 :
    Forall (cond_in lo hi) cs -> same_out lo2 hi2 st1 st2 ->
    (hi <= lo2 \/ hi2 <= lo)%nat ->
    conds_true st2 cs = conds_true st1 cs.
  Proof.
    intros H [A _] D. eapply conds_frame; [exact H|].
    intros s [Hu|[k [Hk ->]]]; apply A.
    - intros j _. apply Hu.
    - intros j Hj E. apply flag_inj in E. lia.
  Qed.

  Lemma aeval_ext st1 st2 a :
    Forall test_ok (tests a) -> agree_user st1 st2 -> aeval st1 a = aeval st2 a.
  Proof.
    intros H E. induction a as [c|l IH|l IH|b IH] using tree_ind'; cbn [aeval tests] in *.
    - unfold cond_true. f_equal. apply test_true_ext. intros s Hs.
      apply E. inversion H as [|? ? [Hu _] _]; subst. rewrite Forall_forall in Hu. now apply Hu.
    - induction IH as [|x r Hx _ IHr]; [reflexivity|]. cbn [forallb flat_map] in *.
      apply Forall_app in H as [H1 H2]. now rewrite Hx, IHr.
    - induction IH as [|x r Hx _ IHr]; [reflexivity|]. cbn [existsb flat_map] in *.
      apply Forall_app in H as [H1 H2]. now rewrite Hx, IHr.
    - now rewrite IH.
  Qed.

  Lemma ast_ok_and l : ast_ok (And l) -> Forall ast_ok l /\ l <> [].
  Proof.
    intros [T N]. cbn [tests nonempty] in *. destruct l as [|x r]; [discriminate|].
    split; [|discriminate]. revert T N. generalize (x :: r) as l. clear.
    induction l as [|y l IH]; intros T N; [constructor|]. cbn [flat_map forallb] in *.
    apply Forall_app in T as [T1 T2]. apply andb_true_iff in N as [N1 N2].
    constructor; [split; assumption|auto].
  Qed.
  Lemma ast_ok_or l : ast_ok (Or l) -> Forall ast_ok l /\ l <> [].
  Proof. intros H. apply (ast_ok_and l). exact H. Qed.
  Lemma ast_ok_not b : ast_ok (Not b) -> ast_ok b.
  Proof. intros H; exact H. Qed.
  Lemma ast_ok_tests a : ast_ok a -> Forall test_ok (tests a).
  Proof. now intros [H _]. Qed.
  Lemma Forall_ast_ok_tests l : Forall ast_ok l -> Forall (fun a => Forall test_ok (tests a)) l.
  Proof. intros H. eapply Forall_impl; [|exact H]. intros a; apply ast_ok_tests. Qed.
End WithNames.

(* ------------------------------------------------------------------ negate_ast *)
Lemma negate_tests a : tests (negate_ast a) = tests a.
Proof.
  induction a as [c|l IH|l IH|b IH] using tree_ind'; cbn [negate_ast tests]; try reflexivity.
  - induction IH as [|x r Hx _ IHr]; [reflexivity|]. cbn [map flat_map]. now rewrite Hx, IHr.
  - induction IH as [|x r Hx _ IHr]; [reflexivity|]. cbn [map flat_map]. now rewrite Hx, IHr.
Qed.

Lemma negate_nonempty (a : ast) : nonempty (negate_ast a) = nonempty a.
Proof.
  induction a as [c|l IH|l IH|b IH] using tree_ind'; cbn [negate_ast nonempty]; try reflexivity.
  - destruct l as [|x r]; [reflexivity|]. cbn [map].
    change (forallb nonempty (map negate_ast (x :: r)) = forallb nonempty (x :: r)).
    induction IH as [|y l Hy _ IHl]; [reflexivity|]. cbn [map forallb]. now rewrite Hy, IHl.
  - destruct l as [|x r]; [reflexivity|]. cbn [map].
    change (forallb nonempty (map negate_ast (x :: r)) = forallb nonempty (x :: r)).
    induction IH as [|y l Hy _ IHl]; [reflexivity|]. cbn [map forallb]. now rewrite Hy, IHl.
Qed.

Lemma negate_eval st a : aeval st (negate_ast a) = negb (aeval st a).
Proof.
  induction a as [c|l IH|l IH|b IH] using tree_ind'; cbn [negate_ast aeval].
  - unfold cond_true, reverse; cbn [fst snd]. now destruct (fst c), (test_true st (snd c)).
  - induction IH as [|x r Hx _ IHr]; [reflexivity|]. cbn [map existsb forallb].
    now rewrite Hx, IHr, negb_andb.
  - induction IH as [|x r Hx _ IHr]; [reflexivity|]. cbn [map existsb forallb].
    now rewrite Hx, IHr, negb_orb.
  - now rewrite negb_involutive.
Qed.

Lemma negate_size a : (ast_size (negate_ast a) <= ast_size a)%nat.
Proof.
  induction a as [c|l IH|l IH|b IH] using tree_ind'; cbn [negate_ast ast_size]; try lia.
  - apply le_n_S. induction IH as [|x r Hx _ IHr]; cbn [map fold_right]; lia.
  - apply le_n_S. induction IH as [|x r Hx _ IHr]; cbn [map fold_right]; lia.
Qed.

Lemma negate_ok nm a : ast_ok nm a -> ast_ok nm (negate_ast a).
Proof. intros [T N]. split; [now rewrite negate_tests|now rewrite negate_nonempty]. Qed.
