(* Proofs.LayoutSim2 — the relayout theorem: simulation over whole inputs, the end of parse,
   and the statement on token streams / shapes (C15). *)
From Coq Require Import ZArith String List Bool Ascii Lia.
From JMCV Require Import Model.Layout Proofs.LayoutBasic Proofs.LayoutAdj Proofs.LayoutAdj2 Proofs.MacroFactsStub Proofs.LayoutSim.
Import ListNotations.
Open Scope Z_scope.

Section Run.
Variable cf es : bool.

Lemma str_next_cases q e c :
  (e = true -> str_next q e c = MStr q false) /\
  (e = false -> c = BSLASH -> str_next q e c = MStr q true) /\
  (e = false -> is_sdq q = true -> c = q -> str_next q e c = MCode) /\
  (e = false -> c <> q -> c <> BSLASH -> str_next q e c = MStr q false).
Proof.
  unfold str_next. repeat split.
  - intros ->. reflexivity.
  - intros -> ->. reflexivity.
  - intros -> Hq ->. rewrite (sdq_not_bslash _ Hq), Ascii.eqb_refl. reflexivity.
  - intros -> H1 H2. destruct (Ascii.eqb_spec c BSLASH); [contradiction|]. destruct (Ascii.eqb_spec c q); [contradiction|reflexivity].
Qed.

Lemma sim_run m s s' : relayout m s s' -> forall st st',
  sim m st st' -> (m = MCode -> s_slash st = true -> hd_not_slash s /\ hd_not_slash s') ->
  forall f, run [] cf es st s = Ok f -> s_ev f = false ->
  exists f' m', run [] cf es st' s' = Ok f' /\ sim m' f f'.
Proof.
  induction 1 as [m | c s s' Hc Hsl Hr IH | q s s' Hq Hr IH | w w' s s' Hw Hw' Hr IH
                  | q c s s' Hcn Hr IH | q s s' Hr IH | q s s' Hr IH | q c s s' Hcq Hcb Hcn Hr IH];
    intros st st' S Hinv f Hrun Hev.
  - cbn in Hrun. injection Hrun as <-. exists st', m. split; [reflexivity|assumption].
  - (* a code character *)
    cbn [run] in Hrun. destruct (step [] cf es st c) as [st1|] eqn:Es; [|discriminate].
    assert (Hev1 : s_ev st1 = false).
    { destruct (s_ev st1) eqn:E; [|reflexivity]. rewrite (run_ev cf es _ _ _ Hrun E) in Hev. discriminate. }
    assert (Hs : s_slash st = true -> c <> SLASH).
    { intros E. destruct (Hinv eq_refl E) as [Hh _]. exact Hh. }
    destruct (step_sim_code cf es st st' c st1 S (or_introl Hc) Hs Es Hev1) as (st1' & Es' & S1).
    unfold next_mode in S1. rewrite (code_char_not_quote _ Hc) in S1.
    destruct (IH st1 st1' S1) with (f := f) as (f' & m' & Hf' & Sf); try assumption.
    { intros _ E. apply Hsl. exact (step_slash cf es st c st1 (code_char_not_nl _ Hc) Es E). }
    exists f', m'. split; [cbn [run]; rewrite Es'; assumption|assumption].
  - (* a string literal opens *)
    cbn [run] in Hrun. destruct (step [] cf es st q) as [st1|] eqn:Es; [|discriminate].
    assert (Hev1 : s_ev st1 = false).
    { destruct (s_ev st1) eqn:E; [|reflexivity]. rewrite (run_ev cf es _ _ _ Hrun E) in Hev. discriminate. }
    assert (Hs : s_slash st = true -> q <> SLASH).
    { intros _ ->. discriminate Hq. }
    destruct (step_sim_code cf es st st' q st1 S (or_intror Hq) Hs Es Hev1) as (st1' & Es' & S1).
    unfold next_mode in S1. rewrite (sdq_is_quote _ Hq) in S1.
    destruct (IH st1 st1' S1) with (f := f) as (f' & m' & Hf' & Sf); try assumption; [intros E0; discriminate E0|].
    exists f', m'. split; [cbn [run]; rewrite Es'; assumption|assumption].
  - (* a layout run *)
    rewrite run_app in Hrun.
    destruct (lay_sim cf es st st' w w' S Hw Hw') as (st1 & st1' & E1 & E1' & S1 & Sl1).
    rewrite E1 in Hrun.
    destruct (IH st1 st1' S1) with (f := f) as (f' & m' & Hf' & Sf); try assumption; [congruence|].
    exists f', m'. split; [rewrite run_app, E1'; assumption|assumption].
  - (* escaped character in a string *)
    cbn [run] in Hrun. destruct (step [] cf es st c) as [st1|] eqn:Es; [|discriminate].
    assert (Hev1 : s_ev st1 = false).
    { destruct (s_ev st1) eqn:E; [|reflexivity]. rewrite (run_ev cf es _ _ _ Hrun E) in Hev. discriminate. }
    assert (Hnl : is_nl c = false) by (unfold is_nl; destruct (Ascii.eqb_spec c NL); [contradiction|reflexivity]).
    destruct (step_sim_str cf es st st' q true c st1 S Hnl Es Hev1) as (st1' & Es' & S1).
    destruct (str_next_cases q true c) as (N1 & _). rewrite (N1 eq_refl) in S1.
    destruct (IH st1 st1' S1) with (f := f) as (f' & m' & Hf' & Sf); try assumption; [intros E0; discriminate E0|].
    exists f', m'. split; [cbn [run]; rewrite Es'; assumption|assumption].
  - (* backslash *)
    cbn [run] in Hrun. destruct (step [] cf es st BSLASH) as [st1|] eqn:Es; [|discriminate].
    assert (Hev1 : s_ev st1 = false).
    { destruct (s_ev st1) eqn:E; [|reflexivity]. rewrite (run_ev cf es _ _ _ Hrun E) in Hev. discriminate. }
    destruct (step_sim_str cf es st st' q false BSLASH st1 S eq_refl Es Hev1) as (st1' & Es' & S1).
    destruct (str_next_cases q false BSLASH) as (_ & N2 & _). rewrite (N2 eq_refl eq_refl) in S1.
    destruct (IH st1 st1' S1) with (f := f) as (f' & m' & Hf' & Sf); try assumption; [intros E0; discriminate E0|].
    exists f', m'. split; [cbn [run]; rewrite Es'; assumption|assumption].
  - (* the string closes *)
    cbn [run] in Hrun. destruct (step [] cf es st q) as [st1|] eqn:Es; [|discriminate].
    assert (Hev1 : s_ev st1 = false).
    { destruct (s_ev st1) eqn:E; [|reflexivity]. rewrite (run_ev cf es _ _ _ Hrun E) in Hev. discriminate. }
    pose proof (sm_mode _ _ _ S) as M. unfold mode_ok in M. destruct M as (_ & _ & Hq & _).
    destruct (step_sim_str cf es st st' q false q st1 S (sdq_not_nl _ Hq) Es Hev1) as (st1' & Es' & S1).
    destruct (str_next_cases q false q) as (_ & _ & N3 & _). rewrite (N3 eq_refl Hq eq_refl) in S1.
    destruct (IH st1 st1' S1) with (f := f) as (f' & m' & Hf' & Sf); try assumption.
    { intros _ E. exfalso. pose proof (step_slash cf es st q st1 (sdq_not_nl _ Hq) Es E) as Eq. subst q. discriminate Hq. }
    exists f', m'. split; [cbn [run]; rewrite Es'; assumption|assumption].
  - (* an ordinary character of a string *)
    cbn [run] in Hrun. destruct (step [] cf es st c) as [st1|] eqn:Es; [|discriminate].
    assert (Hev1 : s_ev st1 = false).
    { destruct (s_ev st1) eqn:E; [|reflexivity]. rewrite (run_ev cf es _ _ _ Hrun E) in Hev. discriminate. }
    assert (Hnl : is_nl c = false) by (unfold is_nl; destruct (Ascii.eqb_spec c NL); [contradiction|reflexivity]).
    destruct (step_sim_str cf es st st' q false c st1 S Hnl Es Hev1) as (st1' & Es' & S1).
    destruct (str_next_cases q false c) as (_ & _ & _ & N4). rewrite (N4 eq_refl Hcq Hcb) in S1.
    destruct (IH st1 st1' S1) with (f := f) as (f' & m' & Hf' & Sf); try assumption; [intros E0; discriminate E0|].
    exists f', m'. split; [cbn [run]; rewrite Es'; assumption|assumption].
Qed.
End Run.

(* ------------------------------------------------------------------ the end of parse *)
Ltac solve_f2 :=
  repeat first [ assumption
               | apply Forall2_rev
               | apply Forall2_app
               | apply Forall2_nil
               | apply Forall2_cons
               | (unfold tok_sim; cbn; repeat split; auto; fail) ].

Lemma finish_sim es al m f f' sts :
  sim m f f' -> finish [] es al f = Ok sts ->
  exists sts', finish [] es al f' = Ok sts' /\ Forall2 (Forall2 tok_sim) sts sts'.
Proof.
  intros S H. unfold finish in *.
  assert (Hpg : pending (s_kind f) = true -> s_pglued f = s_pglued f') by apply S.
  open_sim S f f'.
  destruct k0; try discriminate.
  - (* None *) destruct St as [-> ->].
    destruct es, al, kw0 as [|a K]; inversion Skw; subst; cbn in *; try discriminate;
      injection H as <-; (eexists; split; [reflexivity|]); cbn; solve_f2.
  - (* Keyword *) subst t1. specialize (Hpg eq_refl). cbn in Hpg. subst pg1. rewrite !append_nil in *.
    destruct es, al, kw0 as [|a K], t0 as [|x t]; inversion Skw; subst; cbn in *; rewrite ?append_nil in *; cbn in *;
      try discriminate; injection H as <-; (eexists; split; [reflexivity|]); cbn; solve_f2.
  - (* Operator *) subst t1. specialize (Hpg eq_refl). cbn in Hpg. subst pg1. rewrite !append_nil in *.
    destruct es, al, kw0 as [|a K], t0 as [|x t]; inversion Skw; subst; cbn in *; rewrite ?append_nil in *; cbn in *;
      try discriminate; injection H as <-; (eexists; split; [reflexivity|]); cbn; solve_f2.
  - (* Comment *) destruct St as [-> ->].
    destruct es, al, kw0 as [|a K]; inversion Skw; subst; cbn in *; try discriminate;
      injection H as <-; (eexists; split; [reflexivity|]); cbn; solve_f2.
Qed.

(* ------------------------------------------------------------------ the theorem on token streams *)
Lemma init_sim line col line' col' asc : sim MCode (init_state line col asc) (init_state line' col' asc).
Proof. constructor; cbn; auto; try (intros; discriminate). Qed.

Theorem relayout_tokens cf es al asc line col line' col' s s' f sts :
  relayout MCode s s' ->
  parse_st [] cf es asc line col s = Ok f -> s_ev f = false -> finish [] es al f = Ok sts ->
  exists f' sts',
    parse_st [] cf es asc line' col' s' = Ok f' /\ s_ev f' = false /\ finish [] es al f' = Ok sts' /\
    Forall2 (Forall2 tok_sim) sts sts'.
Proof.
  intros R Hp Hev Hf. unfold parse_st in *.
  destruct (sim_run cf es MCode s s' R _ _ (init_sim line col line' col' asc)) with (f := f) as (f' & m' & Hr' & S);
    try assumption.
  { intros _ E. cbn in E. discriminate. }
  destruct (finish_sim es al m' f f' sts S Hf) as (sts' & Hf' & F).
  exists f', sts'. repeat split; try assumption. rewrite <- (sm_ev _ _ _ S). assumption.
Qed.

(* ------------------------------------------------------------------ adjacency flags agree *)
Lemma conn_flags_glued toks :
  adjacent_as_glued toks ->
  conn_flags_with is_connected toks = match toks with [] => [] | _ :: r => false :: map t_glued r end.
Proof.
  destruct toks as [|t r]; [reflexivity|]. intros H. unfold conn_flags_with. f_equal.
  revert t H. induction r as [|b r' IH]; intros t H; [reflexivity|].
  cbn [combine map fst snd]. f_equal.
  - apply (H 0%nat t b); reflexivity.
  - apply IH. intros i x y Hx Hy. apply (H (S i) x y); assumption.
Qed.

Lemma glued_sim r r' : Forall2 tok_sim r r' -> map t_glued r = map t_glued r'.
Proof. induction 1 as [|t t' r r' Ht Hr IH]; [reflexivity|]. cbn. f_equal; [apply Ht|assumption]. Qed.

Theorem relayout_flat cf es al asc line col line' col' s s' f sts :
  relayout MCode s s' ->
  parse_st [] cf es asc line col s = Ok f -> s_ev f = false -> finish [] es al f = Ok sts ->
  exists f' sts',
    parse_st [] cf es asc line' col' s' = Ok f' /\ s_ev f' = false /\ finish [] es al f' = Ok sts' /\
    Forall2 (Forall2 tok_sim) sts sts' /\
    map (conn_flags_with is_connected) sts = map (conn_flags_with is_connected) sts'.
Proof.
  intros R Hp Hev Hf.
  destruct (relayout_tokens cf es al asc line col line' col' s s' f sts R Hp Hev Hf) as (f' & sts' & Hp' & Hev' & Hf' & F).
  exists f', sts'. repeat split; try assumption.
  pose proof (parse_adjacent [] cf es al asc line col s f sts mt_ok_nil Hp Hev Hf) as A.
  pose proof (parse_adjacent [] cf es al asc line' col' s' f' sts' mt_ok_nil Hp' Hev' Hf') as A'.
  clear - F A A'. induction F as [|t t' r r' Ht Hr IH]; [reflexivity|].
  inversion A; inversion A'; subst. cbn. f_equal; [|apply IH; assumption].
  rewrite !conn_flags_glued by assumption.
  destruct Ht as [|a a' k k' Ha Hk]; [reflexivity|]. f_equal. apply glued_sim. assumption.
Qed.
