(* Proofs.TokGuards — what the shape of a regenerated guard obligation guarantees. *)
From Coq Require Import ZArith List Lia Bool.
From JMCV Require Import Model.Tok Model.TokGuards.
Import ListNotations.
Open Scope Z_scope.

Lemma zlen_nonneg : forall {A} (l : list A), 0 <= zlen l.
Proof. intros; unfold zlen; lia. Qed.

Lemma py_index_ok : forall {A} (l : list A) i,
  - zlen l <= i /\ i < zlen l -> exists x, py_index l i = Ok x /\ In x l.
Proof.
  intros A l i [H1 H2]. unfold py_index.
  set (j := if i <? 0 then zlen l + i else i).
  assert (Hj : 0 <= j < zlen l) by (unfold j; destruct (i <? 0) eqn:E; [apply Z.ltb_lt in E|apply Z.ltb_ge in E]; lia).
  destruct (j <? 0) eqn:E1; [apply Z.ltb_lt in E1; lia|].
  destruct (zlen l <=? j) eqn:E2; [apply Z.leb_le in E2; lia|]. simpl.
  destruct (nth_error l (Z.to_nat j)) eqn:E3.
  - exists a. split; auto. eapply nth_error_In; eauto.
  - apply nth_error_None in E3. unfold zlen in Hj. lia.
Qed.

Lemma py_index_raises : forall {A} (l : list A) i,
  ~ (- zlen l <= i /\ i < zlen l) -> py_index l i = Crash IndexError.
Proof.
  intros A l i H. unfold py_index.
  set (j := if i <? 0 then zlen l + i else i).
  assert (Hj : j < 0 \/ zlen l <= j).
  { unfold j; destruct (i <? 0) eqn:E; [apply Z.ltb_lt in E|apply Z.ltb_ge in E]; pose proof (zlen_nonneg l); lia. }
  destruct Hj as [Hj|Hj].
  - apply Z.ltb_lt in Hj. rewrite Hj. reflexivity.
  - apply Z.leb_le in Hj. rewrite Hj. rewrite orb_true_r. reflexivity.
Qed.

Lemma py_from_len : forall {A} (l : list A) k, 0 <= k -> zlen (py_from l k) = Z.max 0 (zlen l - k).
Proof. intros A l k H. unfold py_from, zlen. rewrite skipn_length. lia. Qed.

Lemma py_del_len : forall {A} (l : list A) i,
  - zlen l <= i /\ i < zlen l -> exists l', py_del l i = Ok l' /\ zlen l' = zlen l - 1.
Proof.
  intros A l i H. unfold py_del. destruct (py_index_ok l i H) as [x [Hx _]]. rewrite Hx.
  eexists. split; [reflexivity|].
  set (j := if i <? 0 then zlen l + i else i).
  assert (Hj : 0 <= j < zlen l) by (unfold j; destruct (i <? 0) eqn:E; [apply Z.ltb_lt in E|apply Z.ltb_ge in E]; lia).
  unfold zlen in *. rewrite app_length, firstn_length, skipn_length. lia.
Qed.

Lemma py_append_len : forall {A} (l : list A) x, zlen (py_append l x) = zlen l + 1.
Proof. intros. unfold py_append, zlen. rewrite app_length. simpl. lia. Qed.

Lemma py_insert_len : forall {A} (l : list A) i x, zlen (py_insert l i x) = zlen l + 1.
Proof.
  intros. unfold py_insert, zlen. rewrite app_length. simpl. rewrite firstn_length, skipn_length.
  pose proof (zlen_nonneg l). unfold zlen in *.
  destruct (i <? 0) eqn:E; [apply Z.ltb_lt in E|apply Z.ltb_ge in E]; lia.
Qed.
