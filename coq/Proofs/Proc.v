(* Proofs.Proc — lemmas for property C12. *)
From Coq Require Import String List Bool Permutation.
From JMCV Require Import Model.Proc.
Import ListNotations.

Lemma field_eqb_eq a b : field_eqb a b = true <-> a = b.
Proof.
  destruct a, b; cbn; try (split; [discriminate|intros H; discriminate H]);
    try (rewrite String.eqb_eq; split; [intros ->; reflexivity|intros H; now inversion H]);
    split; reflexivity.
Qed.
Lemma field_eqb_refl a : field_eqb a a = true.
Proof. now apply field_eqb_eq. Qed.

Lemma mem_cons f x D : mem f (x :: D) = field_eqb f x || mem f D.
Proof. reflexivity. Qed.

Lemma mem_remove x f D : mem x (remove_field f D) = true -> field_eqb f x = false /\ mem x D = true.
Proof.
  unfold mem, remove_field. rewrite !existsb_exists. intros [y [Hy Hxy]].
  apply filter_In in Hy as [Hy Hn]. apply field_eqb_eq in Hxy. subst y.
  split; [now apply negb_true_iff in Hn|]. exists x. split; [exact Hy|apply field_eqb_refl].
Qed.

Section Sound.
  Variables V I O : Type.
  Variable U : list field.
  Variable W : world V I O.

  Definition agree (D : list field) (g g' : G V) : Prop := forall f, mem f D = true -> g f = g' f.

  Lemma agree_upd D g g' f v : agree D g g' -> agree D (upd g f v) (upd g' f v).
  Proof. intros H x Hx. unfold upd. destruct (field_eqb f x); [reflexivity|now apply H]. Qed.

  Lemma agree_upd_cons D g g' f v : agree D g g' -> agree (f :: D) (upd g f v) (upd g' f v).
  Proof.
    intros H x Hx. unfold upd. destruct (field_eqb f x) eqn:E; [reflexivity|].
    rewrite mem_cons in Hx. apply orb_true_iff in Hx as [Hx|Hx]; [|now apply H].
    apply field_eqb_eq in Hx. subst x. now rewrite field_eqb_refl in E.
  Qed.

  Lemma agree_upd_remove D g g' f v v' : agree D g g' -> agree (remove_field f D) (upd g f v) (upd g' f v').
  Proof.
    intros H x Hx. apply mem_remove in Hx as [Hne Hx]. unfold upd. rewrite Hne. now apply H.
  Qed.

  Lemma agree_remove D g g' f : agree D g g' -> agree (remove_field f D) g g'.
  Proof. intros H x Hx. apply mem_remove in Hx as [_ Hx]. now apply H. Qed.

  Lemma agree_write_back D fs : forall vs g g', agree D g g' -> agree D (write_back V fs vs g) (write_back V fs vs g').
  Proof.
    induction fs as [|f fr IH]; intros vs g g' H; cbn [write_back]; [exact H|].
    destruct vs as [|v vr]; [exact H|]. apply IH. now apply agree_upd.
  Qed.

  Lemma src_val_agree D s f i g g' :
    src_determined D s = true -> agree D g g' -> src_val V I O W s f i g = src_val V I O W s f i g'.
  Proof.
    destruct s as [| |h]; cbn; intros Hd H; try reflexivity. now rewrite (H h Hd).
  Qed.

  Lemma view_agree D rs g g' :
    forallb (fun f => implb (visible rs f) (mem f D)) U = true -> agree D g g' ->
    view V U rs g = view V U rs g'.
  Proof.
    intros Hall H. unfold view. rewrite forallb_forall in Hall.
    apply map_ext_in. intros f Hf. apply filter_In in Hf as [HfU Hvis].
    apply H. specialize (Hall f HfU). now rewrite Hvis in Hall.
  Qed.

  (* the analysis is sound: from states that agree on the determined fields, the outputs are equal *)
  Lemma analyse_sound steps : forall D D' i g g',
    analyse U steps D = Some D' -> agree D g g' ->
    snd (exec U W steps i g) = snd (exec U W steps i g').
  Proof.
    induction steps as [|st r IH]; intros D D' i g g' Han Hag; [reflexivity|].
    destruct st as [f s|c f s|n|n rs]; cbn [analyse exec] in *.
    - (* Assign *)
      destruct (src_determined D s) eqn:Hd.
      + rewrite (src_val_agree D s f i g g' Hd Hag). eapply IH; [exact Han|]. now apply agree_upd_cons.
      + eapply IH; [exact Han|]. now apply agree_upd_remove.
    - (* AssignWhen *)
      destruct (w_cond W c i).
      + destruct (src_determined D s && mem f D) eqn:Hd.
        * apply andb_true_iff in Hd as [Hd _].
          rewrite (src_val_agree D s f i g g' Hd Hag). eapply IH; [exact Han|]. now apply agree_upd.
        * eapply IH; [exact Han|]. now apply agree_upd_remove.
      + destruct (src_determined D s && mem f D); eapply IH; try exact Han; [exact Hag|now apply agree_remove].
    - (* Guard *)
      destruct (w_guard W n i); [reflexivity|]. eapply IH; eauto.
    - (* Run *)
      destruct (forallb (fun f => implb (visible rs f) (mem f D)) U) eqn:Hall; [|discriminate].
      rewrite (view_agree D rs g g' Hall Hag).
      destruct (w_run W n i (view V U rs g')) as [vs [o|]]; [reflexivity|].
      eapply IH; [exact Han|]. now apply agree_write_back.
  Qed.

  Lemma history_free_any_state steps i g g' :
    history_free U steps = true -> output U W steps i g = output U W steps i g'.
  Proof.
    unfold history_free, output. destruct (analyse U steps []) as [D'|] eqn:Han; [|discriminate].
    intros _. eapply analyse_sound; [exact Han|]. intros f Hf. discriminate Hf.
  Qed.

  (* compiling after any history (through any entry points, successful or failing compiles) gives
     the output of compiling in the initial state *)
  Lemma history_free_sound steps :
    history_free U steps = true ->
    forall (h : list (list step * I)) (g0 : G V) (i : I),
      output U W steps i (run_history U W h g0) = output U W steps i g0.
  Proof. intros H h g0 i. now apply history_free_any_state. Qed.
End Sound.

(* first_leak explains a failing analysis *)
Lemma first_leak_none U steps : forall D, first_leak U steps D = None -> exists D', analyse U steps D = Some D'.
Proof.
  induction steps as [|st r IH]; intros D H; cbn in *; [eauto|].
  destruct st as [f s|c f s|n|n rs]; try (now apply IH).
  destruct (filter (fun f => visible rs f && negb (mem f D)) U) as [|x l] eqn:E; [|discriminate].
  assert (Hall : forallb (fun f => implb (visible rs f) (mem f D)) U = true).
  { apply forallb_forall. intros f Hf.
    destruct (visible rs f) eqn:Hv; [|reflexivity]. destruct (mem f D) eqn:Hm; [reflexivity|].
    assert (Hin : In f (filter (fun f => visible rs f && negb (mem f D)) U)).
    { apply filter_In. split; [exact Hf|]. now rewrite Hv, Hm. }
    rewrite E in Hin. destruct Hin. }
  rewrite Hall. now apply IH.
Qed.

(* ------------------------------------------------------------------ set order *)

Section SetOrder.
  Variables A S : Type.
  Variable stp : S -> A -> S.

  Lemma commutes_on_perm l l' : Permutation l l' -> commutes_on A S stp l -> commutes_on A S stp l'.
  Proof.
    intros P H a b s Ha Hb. apply H; eapply Permutation_in; try eassumption; now apply Permutation_sym.
  Qed.

  Lemma emit_perm l l' : Permutation l l' -> commutes_on A S stp l ->
    forall s0, emit A S stp l s0 = emit A S stp l' s0.
  Proof.
    unfold emit. induction 1 as [|x l l' P IH|x y l|l l' l'' P1 IH1 P2 IH2]; intros C s0.
    - reflexivity.
    - cbn. apply IH. intros a b s Ha Hb. apply C; now right.
    - cbn. rewrite (C y x s0); [reflexivity|now left|right; now left].
    - rewrite IH1 by exact C. apply IH2. eapply commutes_on_perm; eassumption.
  Qed.

  (* side condition 1: at most one element is active (the step ignores all others) *)
  Lemma one_active_commutes l (active : A -> bool) :
    (forall a s, active a = false -> stp s a = s) ->
    (forall a b, In a l -> In b l -> active a = true -> active b = true -> a = b) ->
    commutes_on A S stp l.
  Proof.
    intros Hid Huniq a b s Ha Hb.
    destruct (active a) eqn:Ea, (active b) eqn:Eb.
    - now rewrite (Huniq a b Ha Hb Ea Eb).
    - now rewrite !(Hid b _ Eb).
    - now rewrite !(Hid a _ Ea).
    - now rewrite !(Hid a _ Ea), !(Hid b _ Eb).
  Qed.
End SetOrder.

(* side condition 2: the emission sorts the elements first — sorted(<set>) does not depend on the enumeration *)
From Coq Require Import Sorting.Sorted.
Section ISortProofs.
  Variable A : Type.
  Variable leb : A -> A -> bool.
  Hypothesis leb_total : forall x y, leb x y = true \/ leb y x = true.
  Hypothesis leb_trans : forall x y z, leb x y = true -> leb y z = true -> leb x z = true.
  Hypothesis leb_antisym : forall x y, leb x y = true -> leb y x = true -> x = y.
  Let le x y := leb x y = true.

  Lemma insert_perm x l : Permutation (insert A leb x l) (x :: l).
  Proof.
    induction l as [|y r IH]; cbn; [reflexivity|]. destruct (leb x y); [reflexivity|].
    rewrite IH. apply perm_swap.
  Qed.
  Lemma isort_perm l : Permutation (isort A leb l) l.
  Proof. induction l as [|x r IH]; cbn; [reflexivity|]. rewrite insert_perm. now constructor. Qed.

  Lemma insert_sorted x l : StronglySorted le l -> StronglySorted le (insert A leb x l).
  Proof.
    induction 1 as [|y r Hs IH Hall]; cbn; [repeat constructor|].
    destruct (leb x y) eqn:E.
    - constructor; [now constructor|]. constructor; [exact E|].
      eapply Forall_impl; [|exact Hall]. intros z Hz. exact (leb_trans _ _ _ E Hz).
    - constructor; [exact IH|].
      assert (Hyx : le y x) by (destruct (leb_total x y) as [H|H]; [congruence|exact H]).
      eapply Permutation_Forall; [symmetry; apply insert_perm|]. now constructor.
  Qed.
  Lemma isort_sorted l : StronglySorted le (isort A leb l).
  Proof. induction l; cbn; [constructor|now apply insert_sorted]. Qed.

  Lemma sorted_perm_eq l1 : forall l2, StronglySorted le l1 -> StronglySorted le l2 -> Permutation l1 l2 -> l1 = l2.
  Proof.
    induction l1 as [|a r1 IH]; intros l2 S1 S2 P.
    - apply Permutation_nil in P. now subst.
    - destruct l2 as [|b r2]; [apply Permutation_sym, Permutation_nil in P; discriminate|].
      inversion S1 as [|? ? S1' A1]; subst. inversion S2 as [|? ? S2' A2]; subst.
      assert (Hab : a = b).
      { assert (Hb : In b (a :: r1)) by (eapply Permutation_in; [symmetry; exact P|now left]).
        assert (Ha : In a (b :: r2)) by (eapply Permutation_in; [exact P|now left]).
        destruct Hb as [Hb|Hb]; [exact Hb|]. destruct Ha as [Ha|Ha]; [now symmetry|].
        rewrite Forall_forall in A1, A2. apply leb_antisym; [now apply A1|now apply A2]. }
      subst b. f_equal. apply IH; try assumption. now apply Permutation_cons_inv in P.
  Qed.

  Lemma isort_perm_invariant l l' : Permutation l l' -> isort A leb l = isort A leb l'.
  Proof.
    intros P. apply sorted_perm_eq; try apply isort_sorted.
    rewrite (isort_perm l), (isort_perm l'). exact P.
  Qed.
End ISortProofs.
