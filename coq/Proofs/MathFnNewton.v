(* Proofs.MathFnNewton — integer Newton iteration as performed by math_sqrt
   (pure arithmetic on Z; no Minecraft semantics here).  Property C20. *)
From Coq Require Import ZArith Lia List.
From JMCV Require Import Base.Int32 Model.MathFn.
Import ListNotations.
Open Scope Z_scope.

Lemma sqrt_spec' n : 0 <= n -> Z.sqrt n * Z.sqrt n <= n < (Z.sqrt n + 1) * (Z.sqrt n + 1).
Proof. intros H. pose proof (Z.sqrt_spec n H). unfold Z.succ in *. lia. Qed.

Lemma div_bounds n x : 0 < x -> x * (n / x) <= n < x * (n / x + 1).
Proof.
  intros Hx. pose proof (Z.mul_div_le n x Hx). pose proof (Z.mul_succ_div_gt n x Hx).
  unfold Z.succ in *. lia.
Qed.

(* x > 0 -> step x >= sqrt n *)
Lemma nstep_ge_sqrt n x : 0 <= n -> 0 < x -> Z.sqrt n <= nstep n x.
Proof.
  intros Hn Hx. unfold nstep.
  pose proof (sqrt_spec' n Hn) as [Hs1 Hs2]. set (s := Z.sqrt n) in *.
  assert (0 <= s) by apply Z.sqrt_nonneg.
  pose proof (div_bounds n x Hx) as Hq. set (q := n / x) in *.
  apply Z.div_le_lower_bound; [lia|].
  destruct (Z_lt_le_dec (q + x) (2 * s)) as [Hlt|]; [|lia].
  exfalso. assert (0 <= q) by (unfold q; apply Z.div_pos; lia).
  assert (H1: 0 <= (x - (q+1)) * (x - (q+1))) by apply Z.square_nonneg.
  assert (H2: (x + q + 1) * (x + q + 1) <= (2*s) * (2*s)) by (apply Z.mul_le_mono_nonneg; lia).
  nia.
Qed.

(* x > sqrt n -> step x < x *)
Lemma nstep_lt n x : 0 <= n -> Z.sqrt n < x -> nstep n x < x.
Proof.
  intros Hn Hx. unfold nstep.
  pose proof (sqrt_spec' n Hn) as [Hs1 Hs2]. set (s := Z.sqrt n) in *.
  assert (0 <= s) by apply Z.sqrt_nonneg.
  assert (0 < x) by lia.
  assert (n / x < x). { apply Z.div_lt_upper_bound; nia. }
  apply Z.div_lt_upper_bound; lia.
Qed.

(* the loop stops with difference 1 only when (x-1)^2 <= n + 1 *)
Lemma nstep_stop1 n x : 0 <= n -> 0 < x -> x - nstep n x = 1 ->
  nstep n x * nstep n x <= n + 1.
Proof.
  intros Hn Hx Hd. assert (E : nstep n x = x - 1) by lia. rewrite E.
  unfold nstep in E. pose proof (div_bounds n x Hx) as Hq. set (q := n / x) in *.
  assert (2 * (x - 1) <= q + x).
  { rewrite <- E. apply Z.mul_div_le. lia. }
  nia.
Qed.

Lemma nstep_nonneg n x : 0 <= n -> 0 < x -> 0 <= n / x.
Proof. intros. apply Z.div_pos; lia. Qed.

(* n / x <= sqrt n + 2 once x >= sqrt n *)
Lemma div_le_sqrt2 n x : 0 <= n -> 0 < x -> Z.sqrt n <= x -> n / x <= Z.sqrt n + 2.
Proof.
  intros Hn Hx Hs. pose proof (sqrt_spec' n Hn) as [Hs1 Hs2]. set (s := Z.sqrt n) in *.
  assert (0 <= s) by apply Z.sqrt_nonneg.
  assert (n / x < s + 3); [|lia].
  apply Z.div_lt_upper_bound; [lia|]. nia.
Qed.

Definition XB : Z := 1073741820.     (* bound on the iterate that keeps x + n/x in int32 *)

Lemma vals_in_range n x : 0 <= n <= INT_MAX -> 0 < x -> Z.sqrt n <= x <= XB ->
  Forall in_int32 (nstep_vals n x).
Proof.
  intros [Hn Hn2] Hx [Hs Hb]. unfold XB, INT_MAX in *.
  pose proof (sqrt_spec' n Hn) as [Hs1 Hs2]. set (s := Z.sqrt n) in *.
  assert (0 <= s) by apply Z.sqrt_nonneg.
  pose proof (div_le_sqrt2 n x Hn Hx Hs) as Hq. fold s in Hq.
  pose proof (nstep_nonneg n x Hn Hx) as Hq0.
  assert (Hst : 0 <= nstep n x <= n / x + x).
  { unfold nstep. split; [apply Z.div_pos; lia|].
    apply Z.div_le_upper_bound; lia. }
  unfold nstep_vals, in_int32, INT_MIN, INT_MAX.
  repeat constructor; lia.
Qed.

(* first step, from the constant 1225, when 1225 < sqrt n *)
Lemma vals_in_range_first n : 0 <= n <= INT_MAX -> Forall in_int32 (nstep_vals n 1225) /\ nstep n 1225 <= XB.
Proof.
  intros [Hn Hn2]. unfold XB, INT_MAX in *.
  assert (Hq0 : 0 <= n / 1225) by (apply Z.div_pos; lia).
  assert (Hq1 : n / 1225 <= 2147483647 / 1225) by (apply Z.div_le_mono; lia).
  replace (2147483647 / 1225) with 1753047 in Hq1 by reflexivity.
  assert (Hst : 0 <= nstep n 1225 <= n / 1225 + 1225).
  { unfold nstep. split; [apply Z.div_pos; lia|]. apply Z.div_le_upper_bound; lia. }
  split; [|lia].
  unfold nstep_vals, in_int32, INT_MIN, INT_MAX. repeat constructor; lia.
Qed.

(* what the loop guarantees about its result y *)
Definition nr_post (n y : Z) : Prop := Z.sqrt n <= y /\ y * y <= n + 1.

(* x = sqrt n + 1: one step, stops at sqrt n *)
Lemma nr_at_s1 n : 0 <= n <= INT_MAX ->
  exists vs, nr_run n (Z.sqrt n + 1) vs (Z.sqrt n) /\ Forall in_int32 vs.
Proof.
  intros Hn. pose proof (sqrt_spec' n (proj1 Hn)) as [Hs1 Hs2]. set (s := Z.sqrt n) in *.
  assert (Hs0 : 0 <= s) by apply Z.sqrt_nonneg.
  assert (Hsb : s <= 46340).
  { destruct (Z_le_gt_dec s 46340); [lia|]. unfold INT_MAX in Hn. nia. }
  assert (E : nstep n (s + 1) = s).
  { pose proof (nstep_ge_sqrt n (s + 1) (proj1 Hn) ltac:(lia)).
    pose proof (nstep_lt n (s + 1) (proj1 Hn) ltac:(fold s; lia)). fold s in H. lia. }
  exists (nstep_vals n (s + 1)). split.
  - pose proof (nr_stop n (s + 1) ltac:(lia) ltac:(lia)) as R. rewrite E in R. exact R.
  - apply vals_in_range; fold s; unfold XB; lia.
Qed.

(* x = sqrt n (>= 1): stops at once, or goes up to sqrt n + 1 and then stops *)
Lemma nr_at_s n : 1 <= n <= INT_MAX ->
  exists vs, nr_run n (Z.sqrt n) vs (Z.sqrt n) /\ Forall in_int32 vs.
Proof.
  intros Hn. assert (Hn' : 0 <= n <= INT_MAX) by lia.
  pose proof (sqrt_spec' n (proj1 Hn')) as [Hs1 Hs2]. set (s := Z.sqrt n) in *.
  assert (Hs0 : 1 <= s). { destruct (Z_le_gt_dec 1 s); [lia|]. pose proof (Z.sqrt_nonneg n). fold s in H. nia. }
  assert (Hsb : s <= 46340).
  { destruct (Z_le_gt_dec s 46340); [lia|]. unfold INT_MAX in Hn. nia. }
  assert (Hv : Forall in_int32 (nstep_vals n s)) by (apply vals_in_range; fold s; unfold XB; lia).
  pose proof (nstep_ge_sqrt n s (proj1 Hn') ltac:(lia)) as Hge. fold s in Hge.
  assert (Hle : nstep n s <= s + 1).
  { unfold nstep. pose proof (div_le_sqrt2 n s (proj1 Hn') ltac:(lia) ltac:(fold s; lia)) as Hq. fold s in Hq.
    apply Z.div_le_upper_bound; lia. }
  destruct (Z.eq_dec (nstep n s) s) as [E|NE].
  - exists (nstep_vals n s). split; [|exact Hv].
    pose proof (nr_stop n s ltac:(lia) ltac:(lia)) as R. rewrite E in R. exact R.
  - assert (E : nstep n s = s + 1) by lia.
    destruct (nr_at_s1 n Hn') as [vs [Hr Hf]]. fold s in Hr.
    exists (nstep_vals n s ++ vs). split.
    + apply nr_more; [lia|lia|]. rewrite E. exact Hr.
    + apply Forall_app; auto.
Qed.

(* any start x >= max 1 (sqrt n) below the overflow bound *)
Lemma nr_from_above n : 0 <= n <= INT_MAX ->
  forall k x, Z.of_nat k = x - Z.sqrt n -> 1 <= x -> x <= XB ->
  exists vs y, nr_run n x vs y /\ Forall in_int32 vs /\ nr_post n y.
Proof.
  intros Hn. pose proof (sqrt_spec' n (proj1 Hn)) as [Hs1 Hs2]. set (s := Z.sqrt n) in *.
  assert (Hs0 : 0 <= s) by apply Z.sqrt_nonneg.
  induction k as [k IH] using lt_wf_ind. intros x Hk Hx1 HxB.
  destruct (Z.eq_dec x s) as [Exs|Nxs].
  { (* x = s, so s >= 1 and n >= 1 *)
    subst x. assert (1 <= n) by nia.
    destruct (nr_at_s n ltac:(lia)) as [vs [Hr Hf]]. fold s in Hr.
    exists vs, s. repeat split; auto; lia. }
  assert (Hgt : s < x) by lia.
  pose proof (nstep_ge_sqrt n x (proj1 Hn) ltac:(lia)) as Hge. fold s in Hge.
  pose proof (nstep_lt n x (proj1 Hn) ltac:(fold s; lia)) as Hlt.
  assert (Hv : Forall in_int32 (nstep_vals n x)) by (apply vals_in_range; fold s; lia).
  destruct (Z.eq_dec (x - nstep n x) 1) as [E1|N1].
  - exists (nstep_vals n x), (nstep n x). split; [apply nr_stop; lia|]. split; [exact Hv|].
    split; [exact Hge|]. apply nstep_stop1; lia.
  - (* recurse on y = nstep n x, s <= y < x - 1; y >= 1 since y = 0 forces x <= 1 *)
    assert (Hy1 : 1 <= nstep n x).
    { destruct (Z_le_gt_dec 1 (nstep n x)); [lia|]. assert (E0 : nstep n x = 0) by lia.
      (* then s = 0, n = 0, x/2 = 0 so x = 1: difference 1, contradiction *)
      assert (s = 0) by lia. assert (n = 0) by nia. subst n.
      unfold nstep in E0. rewrite Z.div_0_l in E0 by lia. cbn in E0.
      assert (x < 2). { destruct (Z_lt_le_dec x 2); [lia|]. assert (1 <= x / 2) by (apply Z.div_le_lower_bound; lia). lia. }
      exfalso. apply N1. unfold nstep. rewrite Z.div_0_l by lia. cbn. lia. }
    destruct (IH (Z.to_nat (nstep n x - s)) ltac:(lia) (nstep n x) ltac:(lia) Hy1 ltac:(lia))
      as [vs [y [Hr [Hf Hp]]]].
    exists (nstep_vals n x ++ vs), y. split; [apply nr_more; [lia|lia|exact Hr]|].
    split; [apply Forall_app; auto|exact Hp].
Qed.

(* the run started by main.mcfunction: x_n = 1225 *)
Lemma nr_from_1225 n : 0 <= n <= INT_MAX ->
  exists vs y, nr_run n 1225 vs y /\ Forall in_int32 vs /\ nr_post n y.
Proof.
  intros Hn. pose proof (sqrt_spec' n (proj1 Hn)) as [Hs1 Hs2]. set (s := Z.sqrt n) in *.
  assert (Hs0 : 0 <= s) by apply Z.sqrt_nonneg.
  destruct (Z_le_gt_dec s 1225) as [Hle|Hgt].
  - apply (nr_from_above n Hn (Z.to_nat (1225 - s)) 1225); fold s; unfold XB; lia.
  - (* 1225 < sqrt n: the first step jumps above sqrt n, difference negative *)
    destruct (vals_in_range_first n Hn) as [Hv HB].
    pose proof (nstep_ge_sqrt n 1225 (proj1 Hn) ltac:(lia)) as Hge. fold s in Hge.
    destruct (nr_from_above n Hn (Z.to_nat (nstep n 1225 - s)) (nstep n 1225)) as [vs [y [Hr [Hf Hp]]]];
      fold s; try lia.
    exists (nstep_vals n 1225 ++ vs), y. split; [apply nr_more; [lia|lia|exact Hr]|].
    split; [apply Forall_app; auto|exact Hp].
Qed.

(* the final correction of main.mcfunction: x_n_sq = y*y does not overflow and the
   conditional decrement yields the integer square root *)
Lemma final_fix n y : 0 <= n <= INT_MAX -> nr_post n y ->
  in_int32 (y * y) /\ in_int32 (y - 1) /\
  (if y * y >? n then y - 1 else y) = Z.sqrt n.
Proof.
  intros Hn [Hge Hsq]. pose proof (sqrt_spec' n (proj1 Hn)) as [Hs1 Hs2]. set (s := Z.sqrt n) in *.
  assert (Hs0 : 0 <= s) by apply Z.sqrt_nonneg.
  assert (Hyb : y <= 46340).
  { destruct (Z_le_gt_dec y 46340); [lia|]. unfold INT_MAX in Hn. nia. }
  assert (Hy2 : 0 <= y * y <= 2147395600) by nia.
  unfold in_int32, INT_MIN, INT_MAX in *. split; [lia|]. split; [lia|].
  destruct (y * y >? n) eqn:E.
  - apply Z.gtb_lt in E. assert (y <= s + 1) by nia. assert (y <> s) by nia. lia.
  - rewrite Z.gtb_ltb in E. apply Z.ltb_ge in E. assert (y <= s) by nia. lia.
Qed.
