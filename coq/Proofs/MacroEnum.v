(* Proofs.MacroEnum — #enum numbering (C16, strengthening round 4): the table built by Model.Macro.enum_items and the
   expansion of a token list under it agree with the specification Model.MacroEnum.enum_value, by induction over the
   member list; the optional start is decided by its PRESENCE. *)
From Coq Require Import ZArith String List Bool Ascii Lia.
From JMCV Require Import Base.Dec Model.Layout Model.Macro Model.MacroSubst Model.MacroEnum Proofs.LayoutBasic Proofs.LayoutAdj Proofs.MacroFacts.
Import ListNotations.
Open Scope Z_scope.

(* ------------------------------------------------------------------ strings *)
Lemma strip_prefix_some p : forall s m, strip_prefix p s = Some m -> s = p ++ m.
Proof.
  induction p as [|a p IH]; intros s m H; cbn in H.
  - injection H as ->. reflexivity.
  - destruct s as [|b s]; [discriminate|]. destruct (Ascii.eqb a b) eqn:E; [|discriminate].
    apply Ascii.eqb_eq in E. subst b. cbn. f_equal. apply IH, H.
Qed.

Lemma strip_prefix_app p m : strip_prefix p (p ++ m) = Some m.
Proof. induction p as [|a p IH]; cbn; [reflexivity|]. rewrite Ascii.eqb_refl. exact IH. Qed.

Lemma strip_prefix_none p s : strip_prefix p s = None -> forall m, s <> p ++ m.
Proof. intros H m ->. rewrite strip_prefix_app in H. discriminate. Qed.

Lemma str_eqb_app_head p a b : str_eqb (p ++ a) (p ++ b) = str_eqb a b.
Proof. induction p as [|c p IH]; cbn; [reflexivity|]. rewrite Ascii.eqb_refl. exact IH. Qed.

Lemma enum_key_prefix cls it : enum_key cls it = enum_prefix cls ++ t_str it.
Proof. unfold enum_key, enum_prefix. rewrite <- app_assoc. reflexivity. Qed.

(* ------------------------------------------------------------------ the table, by induction over the members *)
Definition enum_macro (key : str) (v : Z) : macro := mkMacro key 0 [mkTT KEYWORD 0 (s2l (z_dec v))].

Lemma enum_items_lookup cls items : forall start first h key,
  let h' := enum_items false cls items start first h in
  lookup_macro (h_mt h') key =
    match enum_value cls start (map t_str items) key with
    | Some v => Some (enum_macro key v)
    | None => lookup_macro (h_mt h) key
    end /\
  lookup_num (h_num h') key =
    match enum_value cls start (map t_str items) key with
    | Some v => Some (s2l (z_dec v))
    | None => lookup_num (h_num h) key
    end.
Proof.
  induction items as [|it r IH]; intros start first h key; cbn zeta.
  - unfold enum_value. cbn [map last_index enum_items]. destruct (strip_prefix _ key); split; reflexivity.
  - cbn [enum_items map].
    match goal with |- context [enum_items false cls r (start + 1) first ?hh] => set (h1 := hh) end.
    destruct (IH (start + 1) first h1 key) as [A B]. cbn zeta in A, B. rewrite A, B. clear A B IH.
    unfold enum_value. cbn [last_index].
    destruct (strip_prefix (enum_prefix cls) key) as [m|] eqn:Hs.
    + apply strip_prefix_some in Hs. subst key.
      destruct (last_index m (map t_str r)) as [k|].
      * replace (start + 1 + Z.of_nat k) with (start + Z.of_nat (S k)) by lia. split; reflexivity.
      * subst h1. cbn [h_mt h_num lookup_macro lookup_num m_key fst snd].
        change (cls ++ [ch "."] ++ t_str it) with (enum_key cls it). rewrite enum_key_prefix, str_eqb_app_head.
        destruct (str_eqb (t_str it) m) eqn:E.
        -- apply str_eqb_eq in E. subst m. cbn [Z.of_nat]. rewrite Z.add_0_r. split; reflexivity.
        -- split; reflexivity.
    + subst h1. cbn [h_mt h_num lookup_macro lookup_num m_key fst snd].
      change (cls ++ [ch "."] ++ t_str it) with (enum_key cls it). rewrite enum_key_prefix.
      rewrite (str_eqb_neq (enum_prefix cls ++ t_str it) key).
      * split; reflexivity.
      * intros E. symmetry in E. exact (strip_prefix_none _ _ Hs _ E).
Qed.

(* ------------------------------------------------------------------ the optional start *)
Lemma enum_args_given a1 rest :
  all_digits (t_str a1) = true -> enum_args a1 rest = Ok (digits_val (t_str a1) 0, rest).
Proof. intros H. unfold enum_args. rewrite H. rewrite andb_false_r. reflexivity. Qed.

Lemma enum_args_absent a1 rest :
  digitish (t_str a1) = false -> enum_args a1 rest = Ok (0, a1 :: rest).
Proof.
  intros H. unfold enum_args. rewrite H. cbn [andb].
  destruct (all_digits (t_str a1)) eqn:E; [|reflexivity].
  exfalso. unfold all_digits, digitish in *. destruct (t_str a1) as [|c s]; [discriminate|].
  rewrite forallb_forall in E. assert (X : forallb (fun c0 => is_digit c0 || Ascii.eqb c0 (ch "_")) (c :: s) = true).
  { apply forallb_forall. intros x Hx. rewrite (E x Hx). reflexivity. }
  congruence.
Qed.

Lemma str_eqb_enum_define : str_eqb (s2l "enum") (s2l "define") = false. Proof. reflexivity. Qed.
Lemma str_eqb_enum_env : str_eqb (s2l "enum") (s2l "env") = false. Proof. reflexivity. Qed.
Lemma str_eqb_enum_enum : str_eqb (s2l "enum") (s2l "enum") = true. Proof. reflexivity. Qed.

Lemma directive_enum pe nf ns h d cls a1 rest :
  t_ty d = KEYWORD -> t_str d = s2l "enum" ->
  directive pe nf ns h (d :: cls :: a1 :: rest) =
  match enum_args a1 rest with
  | Err e => Err e
  | Ok (start, items) =>
      match items with
      | [] => Err EExpectedSemicolon
      | f :: _ => Ok (enum_items pe (t_str cls) items start (t_str f) h)
      end
  end.
Proof.
  intros Ht Hs. unfold directive. rewrite Ht, Hs. cbn [ttype_eqb negb].
  rewrite str_eqb_enum_define, str_eqb_enum_env, str_eqb_enum_enum. reflexivity.
Qed.

(* the whole directive: start written (any value, 0 included) / not written *)
Theorem enum_directive_spec nf ns h d cls a1 f rest :
  t_ty d = KEYWORD -> t_str d = s2l "enum" ->
  (all_digits (t_str a1) = true ->
     directive false nf ns h (d :: cls :: a1 :: f :: rest) =
     Ok (enum_items false (t_str cls) (f :: rest) (digits_val (t_str a1) 0) (t_str f) h)) /\
  (digitish (t_str a1) = false ->
     directive false nf ns h (d :: cls :: a1 :: f :: rest) =
     Ok (enum_items false (t_str cls) (a1 :: f :: rest) 0 (t_str a1) h)).
Proof.
  intros Ht Hs. split; intros H; rewrite (directive_enum _ _ _ _ _ _ _ _ Ht Hs).
  - rewrite (enum_args_given _ _ H). reflexivity.
  - rewrite (enum_args_absent _ _ H). reflexivity.
Qed.

(* value of every key after the directive, from the names alone *)
Theorem enum_directive_table nf ns h d cls a1 f rest h' key :
  t_ty d = KEYWORD -> t_str d = s2l "enum" ->
  directive false nf ns h (d :: cls :: a1 :: f :: rest) = Ok h' ->
  let start := if all_digits (t_str a1) then digits_val (t_str a1) 0 else 0 in
  let names := if all_digits (t_str a1) then map t_str (f :: rest) else map t_str (a1 :: f :: rest) in
  lookup_macro (h_mt h') key =
    match enum_value (t_str cls) start names key with
    | Some v => Some (enum_macro key v) | None => lookup_macro (h_mt h) key end /\
  lookup_num (h_num h') key =
    match enum_value (t_str cls) start names key with
    | Some v => Some (s2l (z_dec v)) | None => lookup_num (h_num h) key end.
Proof.
  intros Ht Hs Hd. rewrite (directive_enum _ _ _ _ _ _ _ _ Ht Hs) in Hd. unfold enum_args in Hd.
  destruct (digitish (t_str a1) && negb (all_digits (t_str a1))); [discriminate|].
  assert (E : forall (x y : hstate), Ok x = Ok y -> x = y) by (intros x y X; congruence).
  destruct (all_digits (t_str a1)); apply E in Hd; rewrite <- Hd; apply enum_items_lookup.
Qed.

(* ------------------------------------------------------------------ expansion of a program *)
Lemma expand_word_enum cls items start first nm envs t :
  expand_word (h_mt (enum_items false cls items start first (mkH [] nm envs))) t =
  [hand_enum_word cls start (map t_str items) t].
Proof.
  unfold expand_word, hand_enum_word. destruct t as [ty s]. cbn [fst snd]. destruct ty; try reflexivity.
  destruct (enum_items_lookup cls items start first (mkH [] nm envs) s) as [A _]. cbn zeta in A. rewrite A.
  destruct (enum_value cls start (map t_str items) s); reflexivity.
Qed.

Theorem enum_program_expansion cls items start first nm envs ws :
  expand_words (h_mt (enum_items false cls items start first (mkH [] nm envs))) ws =
  hand_enum cls start (map t_str items) ws.
Proof.
  unfold expand_words, hand_enum. induction ws as [|t r IH]; [reflexivity|].
  cbn [flat_map map]. rewrite expand_word_enum, IH. reflexivity.
Qed.

(* expand_word is what Tokenizer.append_token does to (type, text) *)
Theorem append_token_words mt ty st st' :
  append_token mt ty st = Ok st' ->
  exists toks, st' = push_tokens st toks /\
               map (fun t => (t_ty t, t_str t)) toks = expand_word mt (ty, rev (s_tstr st)).
Proof.
  unfold append_token, expand_word. destruct (s_tpos st) as [l c]. cbn [fst snd].
  intros H.
  assert (P : forall g, exists toks, push_tokens st [mkTok ty l c (rev (s_tstr st)) 0 None g] = push_tokens st toks /\
                       map (fun t => (t_ty t, t_str t)) toks = [(ty, rev (s_tstr st))]).
  { intros g. eexists. split; reflexivity. }
  destruct ty; try (injection H as <-; apply P).
  destruct (lookup_macro mt (rev (s_tstr st))) as [m|]; [|injection H as <-; apply P].
  destruct (m_arity m); [|discriminate]. injection H as <-.
  eexists. split; [reflexivity|]. apply (proj2 (expand_macro_spec m l c (s_pglued st))).
Qed.

(* ------------------------------------------------------------------ the rule "by value" is refuted *)
Lemma enum_by_value_refuted :
  exists cls a1 rest start items,
    all_digits (t_str a1) = true /\
    enum_args_by_value a1 rest = Ok (start, items) /\ items = a1 :: rest /\
    enum_args a1 rest = Ok (0, rest) /\
    let key := enum_key cls (kw (s2l "HEAD")) in
    lookup_num (h_num (enum_items false cls items start (t_str a1) (mkH [] [] []))) key = Some (s2l "1") /\
    lookup_num (h_num (enum_items false cls rest 0 (s2l "HEAD") (mkH [] [] []))) key = Some (s2l "0").
Proof.
  exists (s2l "Slot"), (kw (s2l "0")), [kw (s2l "HEAD"); kw (s2l "CHEST"); kw (s2l "LEGS")], 0.
  eexists. split; [reflexivity|]. split; [reflexivity|]. split; [reflexivity|]. split; [reflexivity|].
  split; vm_compute; reflexivity.
Qed.

(* by-value and by-presence agree whenever the start is absent or not 0 *)
Lemma enum_by_value_agrees a1 rest :
  (all_digits (t_str a1) = false \/ digits_val (t_str a1) 0 <> 0) ->
  enum_args_by_value a1 rest = enum_args a1 rest.
Proof.
  intros H. unfold enum_args_by_value, enum_args.
  destruct (digitish (t_str a1) && negb (all_digits (t_str a1))); [reflexivity|].
  destruct (all_digits (t_str a1)) eqn:E.
  - destruct H as [H|H]; [discriminate|]. apply Z.eqb_neq in H. rewrite H. reflexivity.
  - reflexivity.
Qed.
