(* Proofs.Build — every mutation of a build has one of four shapes; territory and #static theorems (C10). *)
From Coq Require Import String List Bool Arith Lia.
From JMCV Require Import Model.FS Model.Build Proofs.FS.
Import ListNotations.
Open Scope string_scope.
Open Scope list_scope.

(* ------------------------------------------------------------------ small facts *)
Lemma removelast_prefix : forall (p : path), is_prefix (removelast p) p = true.
Proof.
  induction p as [|x p IH]; simpl; auto. destruct p as [|y p]; simpl; auto.
  rewrite String.eqb_refl. simpl in IH. exact IH.
Qed.

Lemma excepted_mono : forall h d p, is_prefix d p = true -> excepted h d = true -> excepted h p = true.
Proof.
  intros h d p Hp H. unfold excepted in *. apply existsb_exists in H as (s & Hs & Hsd).
  apply existsb_exists. exists s. split; auto. eapply is_prefix_trans; eauto.
Qed.

Lemma excepted_nil : forall h p, h_statics h = [] -> excepted h p = false.
Proof. intros h p H. unfold excepted. rewrite H. reflexivity. Qed.

(* the folders of the territory all have the form ./data/<z> *)
Definition folderish (c : cfg) (h : hdr) (F : path) : Prop :=
  F = ns_dir c \/ (exists o, In o (h_overrides h) /\ F = ov_dir o) \/ F = mc_dir.

Lemma folderish_in : forall c h F p, folderish c h F -> is_prefix F p = true -> in_folders c h p = true.
Proof.
  intros c h F p [->|[(o & Ho & ->)| ->]] Hp; unfold in_folders.
  - rewrite Hp. reflexivity.
  - apply orb_true_iff. left. apply orb_true_iff. right. apply existsb_exists. exists o. auto.
  - rewrite Hp. apply orb_true_r.
Qed.

Lemma in_folders_folder : forall c h p,
  in_folders c h p = true -> exists F, folderish c h F /\ is_prefix F p = true.
Proof.
  intros c h p H. unfold in_folders in H. apply orb_true_iff in H as [H|H]; [apply orb_true_iff in H as [H|H]|].
  - exists (ns_dir c). split; auto. left. reflexivity.
  - apply existsb_exists in H as (o & Ho & Hp). exists (ov_dir o). split; auto. right. left. eauto.
  - exists mc_dir. split; auto. right. right. reflexivity.
Qed.

Lemma folderish_shape : forall c h F, folderish c h F -> exists z, F = ["."; "data"; z].
Proof. intros c h F [->|[(o & _ & ->)| ->]]; eexists; reflexivity. Qed.

Lemma prefix_of_3 : forall (d : path) a b z,
  is_prefix d [a; b; z] = true -> d = [] \/ d = [a] \/ d = [a; b] \/ d = [a; b; z].
Proof.
  intros d a b z H.
  destruct d as [|x [|y [|w [|u d]]]]; simpl in H; auto.
  - rewrite andb_true_r in H. apply String.eqb_eq in H. subst. auto.
  - apply andb_true_iff in H as [H1 H2]. rewrite andb_true_r in H2.
    apply String.eqb_eq in H1, H2. subst. auto.
  - apply andb_true_iff in H as [H1 H2]. apply andb_true_iff in H2 as [H2 H3]. rewrite andb_true_r in H3.
    apply String.eqb_eq in H1, H2, H3. subst. auto.
  - apply andb_true_iff in H as [_ H2]. apply andb_true_iff in H2 as [_ H3]. apply andb_true_iff in H3 as [_ H4].
    discriminate.
Qed.

Definition op_ok (c : cfg) (h : hdr) (o : op) : bool :=
  terr_b c h (op_path o) || (anc_b (op_path o) && is_mkdir o).

(* a non-empty prefix of a path inside a territory folder is inside that folder, is the folder, or is . or ./data *)
Lemma prefix_of_folder_path : forall c h w d,
  in_folders c h w = true -> is_prefix d w = true -> d <> [] ->
  in_folders c h d = true \/ anc_b d = true.
Proof.
  intros c h w d Hw Hd Hne. apply in_folders_folder in Hw as (F & HF & HFw).
  destruct (is_prefix_comparable _ _ _ HFw Hd) as [H|H].
  - left. eapply folderish_in; eauto.
  - destruct (folderish_shape _ _ _ HF) as [z ->]. apply prefix_of_3 in H as [->|[->|[->| ->]]].
    + contradiction.
    + right. reflexivity.
    + right. reflexivity.
    + left. eapply folderish_in; eauto. apply is_prefix_refl.
Qed.

(* ------------------------------------------------------------------ shapes of the generated mutations *)
Lemma mkdir_p_from_shape : forall cur todo done o,
  In o (mkdir_p_from cur done todo) ->
  is_mkdir o = true /\ is_prefix (op_path o) (done ++ todo) = true /\ length done < length (op_path o).
Proof.
  induction todo as [|x r IH]; intros done o H; simpl in H; [contradiction|].
  apply in_app_or in H as [H|H].
  - destruct (is_dir cur (done ++ [x])); [contradiction|]. destruct H as [<-|[]]. simpl.
    split; auto. split.
    + replace (done ++ x :: r) with ((done ++ [x]) ++ r) by (rewrite <- app_assoc; reflexivity). apply is_prefix_app.
    + rewrite app_length. simpl. lia.
  - apply IH in H as (H1 & H2 & H3). split; auto. split.
    + rewrite <- app_assoc in H2. exact H2.
    + rewrite app_length in H3. simpl in H3. lia.
Qed.

Lemma mkdir_p_shape : forall cur q o,
  In o (mkdir_p cur q) -> is_mkdir o = true /\ is_prefix (op_path o) q = true /\ op_path o <> [].
Proof.
  intros cur q o H. apply mkdir_p_from_shape in H as (H1 & H2 & H3). simpl in *.
  repeat split; auto. intro E. rewrite E in H3. simpl in H3. lia.
Qed.

Lemma write_file_shape : forall cur p ct o,
  p <> [] -> In o (write_file cur p ct) ->
  is_prefix (op_path o) p = true /\ op_path o <> [] /\ (is_mkdir o = true \/ op_path o = p).
Proof.
  intros cur p ct o Hp H. unfold write_file in H. apply in_app_or in H as [H|H].
  - apply mkdir_p_shape in H as (H1 & H2 & H3). repeat split; auto.
    eapply is_prefix_trans; eauto. apply removelast_prefix.
  - destruct H as [<-|[<-|[]]]; simpl; repeat split; auto; apply is_prefix_refl.
Qed.

Lemma write_files_shape : forall l cur o,
  In o (write_files cur l) -> exists p s cur', In (p, s) l /\ In o (write_file cur' p (Raw s)).
Proof.
  induction l as [|[p s] r IH]; intros cur o H; simpl in H; [contradiction|].
  apply in_app_or in H as [H|H].
  - exists p, s, cur. simpl. auto.
  - apply IH in H as (p' & s' & cur' & Hin & Ho). exists p', s', cur'. simpl. auto.
Qed.

Lemma rm_entries_kind : forall t here o, In o (rm_entries here t) -> is_mkdir o = false.
Proof.
  induction t as [c|cs IH] using tree_ind_in; intros here o H; simpl in H.
  - destruct H as [<-|[]]. reflexivity.
  - apply in_app_or in H as [H|H].
    + apply in_flat_map in H as (e & He & Ho). eapply IH; eauto.
    + destruct H as [<-|[]]. reflexivity.
Qed.

Lemma rmdirs_shape : forall ds cur o, In o (rmdirs cur ds) -> exists d, o = Rmdir d /\ In d ds.
Proof.
  induction ds as [|d r IH]; intros cur o H; cbn [rmdirs] in H; [contradiction|].
  destruct (apply (Rmdir d) cur) as [cur'|].
  - destruct H as [<-|H]; [exists d; simpl; auto|]. apply IH in H as (d' & -> & Hd'). exists d'. simpl. auto.
  - apply IH in H as (d' & -> & Hd'). exists d'. simpl. auto.
Qed.

Lemma rmtree_static_shape : forall h cur F o,
  In o (rmtree_static h cur F) ->
  is_prefix F (op_path o) = true /\ is_mkdir o = false /\ excepted h (op_path o) = false.
Proof.
  intros h cur F o H. unfold rmtree_static in H. destruct (lookup cur F) as [sub|]; [|contradiction].
  apply in_app_or in H as [H|H].
  - apply in_map_iff in H as (e & <- & He). apply filter_In in He as [He _]. apply filter_In in He as [He Hx].
    simpl. repeat split; auto.
    + eapply glob_all_paths; eauto.
    + apply negb_true_iff in Hx. exact Hx.
  - apply rmdirs_shape in H as (d & -> & Hd). apply in_map_iff in Hd as (e & <- & He).
    apply filter_In in He as [He _]. apply filter_In in He as [He Hx]. simpl. repeat split; auto.
    + eapply glob_all_paths; eauto.
    + apply negb_true_iff in Hx. exact Hx.
Qed.

Lemma rm_folder_shape : forall h cur F s o,
  In o (rm_folder h cur F s) ->
  is_prefix F (op_path o) = true /\ is_mkdir o = false /\
  (h_statics h <> [] -> s = true -> excepted h (op_path o) = false).
Proof.
  intros h cur F s o H. unfold rm_folder in H. destruct (is_dir cur F); [|contradiction].
  assert (Hsh : In o (rmtree_shutil cur F) -> is_prefix F (op_path o) = true /\ is_mkdir o = false).
  { unfold rmtree_shutil. destruct (lookup cur F) as [sub|]; [|contradiction]. intro Ho. split.
    - eapply rm_entries_paths; eauto.
    - eapply rm_entries_kind; eauto. }
  destruct (h_statics h) as [|s0 sl] eqn:Es.
  - destruct (Hsh H). repeat split; auto. intros Hne. contradiction.
  - destruct s.
    + apply rmtree_static_shape in H as (H1 & H2 & H3). auto.
    + destruct (Hsh H). repeat split; auto. intros _ Hf. discriminate.
Qed.

Lemma del_phase_shape : forall l h cur o,
  In o (del_phase h cur l) -> exists F s cur', In (F, s) l /\ In o (rm_folder h cur' F s).
Proof.
  induction l as [|[F s] r IH]; intros h cur o H; simpl in H; [contradiction|].
  apply in_app_or in H as [H|H].
  - exists F, s, cur. simpl. auto.
  - apply IH in H as (F' & s' & cur' & Hin & Ho). exists F', s', cur'. simpl. auto.
Qed.

Lemma cut_in : forall P ops o, In o (fst (cut P ops)) -> In o ops.
Proof.
  induction ops as [|o' r IH]; intros o H; simpl in H; [contradiction|].
  destruct (is_del_of P o'); [contradiction|]. destruct (cut P r) as [a b]. simpl in *.
  destruct H as [<-|H]; auto.
Qed.

Lemma copy_items_shape : forall items cur o,
  In o (copy_items cur items) ->
  In (op_path o) (flat_map (fun e => tree_paths ["."; fst e] (snd e)) items).
Proof.
  induction items as [|[x t] r IH]; intros cur o H; simpl in H; [contradiction|].
  simpl. apply in_or_app. apply in_app_or in H as [H|H].
  - left. apply copy_ops_paths in H. exact H.
  - right. eapply IH; eauto.
Qed.

Lemma del_list_folderish : forall v c h F s, In (F, s) (del_list v c h) -> folderish c h F.
Proof.
  intros v c h F s H. unfold del_list in H.
  assert (Hov : forall F s, In (F, s) (map (fun o => (ov_dir o, true))
                 (filter (fun o => negb (String.eqb o (c_ns c))) (h_overrides h))) -> folderish c h F).
  { intros F0 s0 H0. apply in_map_iff in H0 as (o & Heq & Ho). inversion Heq; subst.
    apply filter_In in Ho as [Ho _]. right. left. eauto. }
  destruct (v_ns_last v).
  - apply in_app_or in H as [H|H]; [eapply Hov; eauto|].
    destruct H as [H|[H|[]]]; inversion H; subst; [right; right|left]; reflexivity.
  - destruct H as [H|H]; [inversion H; left; reflexivity|].
    apply in_app_or in H as [H|H]; [eapply Hov; eauto|].
    destruct H as [H|[]]. inversion H. right. right. reflexivity.
Qed.

(* ------------------------------------------------------------------ where the outputs go *)
Lemma mem_in : forall x l, mem x l = true -> In x l.
Proof.
  intros x l H. unfold mem in H. apply existsb_exists in H as (y & Hy & E). apply String.eqb_eq in E. subst. exact Hy.
Qed.

Lemma func_file_in_folders : forall c h fp, in_folders c h (func_file c h fp) = true.
Proof.
  intros c h fp. unfold func_file. destruct fp as [|x r].
  - eapply folderish_in; [left; reflexivity|]. apply is_prefix_app.
  - destruct (mem x (h_overrides h)) eqn:E.
    + eapply folderish_in; [right; left; exists x; split; [apply mem_in; exact E|reflexivity]|]. apply is_prefix_app.
    + eapply folderish_in; [left; reflexivity|]. apply is_prefix_app.
Qed.

Lemma json_file_in_folders : forall c h jp, in_folders c h (json_file c h jp) = true.
Proof.
  intros c h jp. unfold json_file. destruct jp as [|x r].
  - eapply folderish_in; [left; reflexivity|]. apply is_prefix_app.
  - destruct (mem x (h_overrides h)) eqn:E.
    + eapply folderish_in; [right; left; exists x; split; [apply mem_in; exact E|reflexivity]|]. apply is_prefix_app.
    + eapply folderish_in; [left; reflexivity|]. apply is_prefix_app.
Qed.

Lemma func_file_nonempty : forall c h fp, func_file c h fp <> [].
Proof. intros c h [|x r]; unfold func_file; simpl; try destruct (mem x (h_overrides h)); discriminate. Qed.
Lemma json_file_nonempty : forall c h jp, json_file c h jp <> [].
Proof. intros c h [|x r]; unfold json_file; simpl; try destruct (mem x (h_overrides h)); discriminate. Qed.

Lemma out_files_in : forall c h o p s,
  In (p, s) (out_files c h o) -> in_folders c h p = true /\ p <> [].
Proof.
  intros c h o p s H. unfold out_files in H. apply in_app_or in H as [H|H];
    apply in_map_iff in H as (e & Heq & _); inversion Heq; subst.
  - split; [apply func_file_in_folders | apply func_file_nonempty].
  - split; [apply json_file_in_folders | apply json_file_nonempty].
Qed.

Lemma cert_in_folders : forall c h, in_folders c h (cert_path c) = true.
Proof. intros. eapply folderish_in; [left; reflexivity|]. apply (is_prefix_app (ns_dir c) ["jmc.txt"]). Qed.
Lemma cert_tmp_in_folders : forall c h, in_folders c h (cert_tmp c) = true.
Proof. intros. eapply folderish_in; [left; reflexivity|]. apply (is_prefix_app (ns_dir c) ["jmc.txt.tmp"]). Qed.
Lemma tags_in_folders : forall c h, in_folders c h (tags_dir c) = true.
Proof. intros. eapply folderish_in; [right; right; reflexivity|]. apply (is_prefix_app mc_dir ["tags"; c_ff c]). Qed.
Lemma load_in_folders : forall c h, in_folders c h (load_path c) = true.
Proof. intros. eapply folderish_in; [right; right; reflexivity|]. apply (is_prefix_app mc_dir ["tags"; c_ff c; "load.json"]). Qed.
Lemma tick_in_folders : forall c h, in_folders c h (tick_path c) = true.
Proof. intros. eapply folderish_in; [right; right; reflexivity|]. apply (is_prefix_app mc_dir ["tags"; c_ff c; "tick.json"]). Qed.

(* ------------------------------------------------------------------ the shape of every mutation of a run_core *)
Definition folder_files (c : cfg) (h : hdr) (out : outcome) : list path :=
  cert_path c :: cert_tmp c :: load_path c :: tick_path c ::
  match out with Success o => map fst (out_files c h o) | _ => [] end.

Definition shape_ok (v : variant) (c : cfg) (h : hdr) (out : outcome) (o : op) : Prop :=
  (exists F s, In (F, s) (del_list v c h) /\ is_prefix F (op_path o) = true /\ is_mkdir o = false /\
               (h_statics h <> [] -> s = true -> excepted h (op_path o) = false))
  \/ (exists w, In w (folder_files c h out) /\ is_prefix (op_path o) w = true /\ op_path o <> [] /\
                (is_mkdir o = true \/ op_path o = w))
  \/ In (op_path o) (copy_paths h)
  \/ (op_path o = meta_path /\ is_mkdir o = false).

Lemma make_cert_shape : forall v a c h out cur o, In o (make_cert a c cur) -> shape_ok v c h out o.
Proof.
  intros v a c h out cur o H. unfold make_cert in H. apply in_app_or in H as [H|H].
  - apply mkdir_p_shape in H as (H1 & H2 & H3). right. left. exists (cert_path c). simpl. repeat split; auto.
    eapply is_prefix_trans; eauto. apply (is_prefix_app (ns_dir c) ["jmc.txt"]).
  - unfold cert_tail, rename_ops in H. destruct a; simpl in H.
    + destruct H as [<-|[<-|[<-|[<-|[]]]]]; right; left.
      * exists (cert_tmp c). simpl. repeat split; auto; try discriminate. apply (is_prefix_refl (cert_tmp c)).
      * exists (cert_tmp c). simpl. repeat split; auto; try discriminate. apply (is_prefix_refl (cert_tmp c)).
      * exists (cert_path c). simpl. repeat split; auto; try discriminate. apply (is_prefix_refl (cert_path c)).
      * exists (cert_tmp c). simpl. repeat split; auto; try discriminate. apply (is_prefix_refl (cert_tmp c)).
    + destruct H as [<-|[<-|[]]]; right; left; exists (cert_path c); simpl; repeat split; auto; try discriminate;
        apply (is_prefix_refl (cert_path c)).
Qed.

Lemma write_phase_shape : forall v c h o tags cur x,
  In x (fst (write_phase v c h o tags cur)) -> shape_ok v c h (Success o) x.
Proof.
  intros v c h o tags cur x H. unfold write_phase in H.
  set (ops1 := make_cert (v_cert_atomic v) c cur) in *. set (cur1 := run_ops ops1 cur) in *.
  set (ops2 := copy_phase h cur1) in *. set (cur2 := run_ops ops2 cur1) in *.
  set (ops3 := mkdir_p cur2 (tags_dir c)) in *. set (cur3 := run_ops ops3 cur2) in *.
  assert (H123 : In x (ops1 ++ ops2 ++ ops3) -> shape_ok v c h (Success o) x).
  { intro Hx. apply in_app_or in Hx as [Hx|Hx]; [eapply make_cert_shape; eauto|].
    apply in_app_or in Hx as [Hx|Hx].
    - right. right. left. unfold ops2, copy_phase in Hx. unfold copy_paths.
      destruct (h_copy h) as [items|]; [|contradiction]. eapply copy_items_shape; eauto.
    - apply mkdir_p_shape in Hx as (M1 & M2 & M3). right. left. exists (load_path c). simpl.
      repeat split; auto. eapply is_prefix_trans; eauto. apply (is_prefix_app (tags_dir c) ["load.json"]). }
  destruct (match tags with
            | Some (lv, tv) => (Some lv, Some tv)
            | None => (read_tag c cur3 (load_path c), read_tag c cur3 (tick_path c))
            end) as [[lv|] [tv|]]; cbn [fst] in H; auto.
  rewrite !app_assoc in H. apply in_app_or in H as [H|H].
  - apply in_app_or in H as [H|H].
    + apply in_app_or in H as [H|H]; [rewrite <- !app_assoc in H; auto|].
      (* tag files *)
      unfold tag_ops in H. apply in_app_or in H as [H|H].
      * right. left. exists (load_path c).
        destruct H as [<-|[<-|[]]];
          (split; [simpl; auto | split; [apply is_prefix_refl | split;
             [unfold load_path, tags_dir; simpl; discriminate | right; reflexivity]]]).
      * assert (Ht : In x [Create (tick_path c); Write (tick_path c) (Tag (tv ++ [(c_ns c ++ ":" ++ c_tick c)%string]))] \/
                     In x [Create (tick_path c); Write (tick_path c) (Tag tv)]).
        { destruct (o_tick o); [left; exact H|]. destruct (v_tick_refresh v); [|contradiction].
          unfold tick_refresh_ops in H. destruct (file_at cur3 (tick_path c)) as [[b|vs]|]; try contradiction.
          destruct (strs_eqb vs tv); [contradiction|]. right. exact H. }
        right. left. exists (tick_path c).
        destruct Ht as [[<-|[<-|[]]]|[<-|[<-|[]]]];
          (split; [simpl; auto | split; [apply is_prefix_refl | split;
             [unfold tick_path, tags_dir; simpl; discriminate | right; reflexivity]]]).
    + (* output files *)
      apply write_files_shape in H as (p & s & cur' & Hin & Ho).
      destruct (out_files_in _ _ _ _ _ Hin) as [_ Hne].
      apply write_file_shape in Ho as (W1 & W2 & W3); auto.
      right. left. exists p. repeat split; auto. simpl. right. right. right. right.
      apply in_map_iff. exists (p, s). auto.
  - unfold meta_ops in H. destruct (h_nometa h); [contradiction|].
    right. right. right. destruct H as [<-|[<-|[]]]; simpl; auto.
Qed.

Lemma build_with_shape : forall v c h o tags isd fault cur x,
  In x (fst (build_with v c h o tags isd fault cur)) -> shape_ok v c h (Success o) x.
Proof.
  intros v c h o tags isd fault cur x H. unfold build_with in H.
  set (dops := if isd then del_phase h cur (del_list v c h) else []) in *.
  assert (Hd : In x dops -> shape_ok v c h (Success o) x).
  { intro Hx. unfold dops in Hx. destruct isd; [|contradiction].
    apply del_phase_shape in Hx as (F & s & cur' & Hin & Ho).
    apply rm_folder_shape in Ho as (R1 & R2 & R3). left. exists F, s. auto. }
  destruct fault as [P|].
  - destruct (cut P dops) as [pre hit] eqn:Ec. destruct hit; simpl in H.
    + apply Hd. apply (cut_in P). rewrite Ec. exact H.
    + destruct (write_phase v c h o tags (run_ops dops cur)) as [w r] eqn:Ew. simpl in H.
      apply in_app_or in H as [H|H]; auto. eapply write_phase_shape. rewrite Ew. exact H.
  - destruct (write_phase v c h o tags (run_ops dops cur)) as [w r] eqn:Ew. simpl in H.
    apply in_app_or in H as [H|H]; auto. eapply write_phase_shape. rewrite Ew. exact H.
Qed.

Lemma build_shape : forall v c h o isd fault cur x,
  In x (fst (build v c h o isd fault cur)) -> shape_ok v c h (Success o) x.
Proof.
  intros v c h o isd fault cur x H. unfold build in H. destruct (v_tags_early v).
  - destruct (early_tag c h isd cur (load_path c)) as [lv|]; [destruct (early_tag c h isd cur (tick_path c)) as [tv|]|];
      try contradiction. eapply build_with_shape; eauto.
  - eapply build_with_shape; eauto.
Qed.

Lemma shape_ok_outcome : forall v c h out o x,
  shape_ok v c h out x -> (forall w, In w (folder_files c h out) -> In w (folder_files c h (Success o))) ->
  shape_ok v c h (Success o) x.
Proof.
  intros v c h out o x [H|[(w & Hw & H)|[H|H]]] Hsub.
  - left. exact H.
  - right. left. exists w. split; auto.
  - right. right. left. exact H.
  - right. right. right. exact H.
Qed.

Theorem run_shape : forall v c h out fault cur x,
  In x (plan_core v c h out fault cur) -> shape_ok v c h out x.
Proof.
  intros v c h out fault cur x H. unfold plan_core, run_core in H.
  destruct out as [| | |o]; simpl in H; try contradiction.
  - (* FailLex *)
    destruct (is_dir cur (ns_dir c)); [destruct (is_file cur (cert_path c)); contradiction|].
    simpl in H. destruct (v_cert_early v); [|contradiction]. eapply make_cert_shape; eauto.
  - destruct (is_dir cur (ns_dir c)); [destruct (is_file cur (cert_path c)); contradiction|].
    simpl in H. destruct (v_cert_early v); [|contradiction]. eapply make_cert_shape; eauto.
  - destruct (is_dir cur (ns_dir c)).
    + destruct (is_file cur (cert_path c)); [|contradiction]. eapply build_shape; eauto.
    + set (ops0 := if v_cert_early v then make_cert (v_cert_atomic v) c cur else []) in *.
      destruct (build v c h o false fault (run_ops ops0 cur)) as [ops r] eqn:Eb. simpl in H.
      apply in_app_or in H as [H|H].
      * unfold ops0 in H. destruct (v_cert_early v); [|contradiction]. eapply make_cert_shape; eauto.
      * eapply build_shape. rewrite Eb. exact H.
Qed.
