(* Proofs.CoreCalls — which functions a list of emitted commands can call (property C07, core-language closure).

   `calls l`  = every function name that a command of l names statically: `function f`,
                `function f with storage s`, and the command after `run` of an `execute`.
   `mcalls l` = the macro calls `$function pre$(key)`: their target `pre ++ z_dec v` is only known
                at run time (v = the value stored under `key` by the caller).

   MC.Sem consults the function table at exactly these names: a command without calls and macro
   calls runs the same under every function table (no_calls_ft_irrelevant), and a macro call
   whose target is not a function changes nothing (macro_call_miss). *)
From Coq Require Import ZArith String List Bool Lia.
From JMCV Require Import Base.Dec MC.Syntax MC.Sem.
Import ListNotations.
Local Open Scope list_scope.

Fixpoint calls1 (c : cmd) : list string :=
  match c with
  | CCall f => [f]
  | CCallWith f _ => [f]
  | CExecute _ b => calls1 b
  | _ => []
  end.
Definition calls (l : list cmd) : list string := flat_map calls1 l.

Fixpoint mcalls1 (c : cmd) : list (string * string) :=
  match c with
  | CMacroCall pre key => [(pre, key)]
  | CExecute _ b => mcalls1 b
  | _ => []
  end.
Definition mcalls (l : list cmd) : list (string * string) := flat_map mcalls1 l.

(* the calls made by the bodies of a list of generated functions *)
Definition fcalls (fs : list (string * list cmd)) : list string := flat_map (fun d => calls (snd d)) fs.
Definition fmcalls (fs : list (string * list cmd)) : list (string * string) := flat_map (fun d => mcalls (snd d)) fs.

Lemma calls_app a b : calls (a ++ b) = calls a ++ calls b.
Proof. unfold calls. apply flat_map_app. Qed.
Lemma calls_cons c l : calls (c :: l) = calls1 c ++ calls l.
Proof. reflexivity. Qed.
Lemma mcalls_app a b : mcalls (a ++ b) = mcalls a ++ mcalls b.
Proof. unfold mcalls. apply flat_map_app. Qed.
Lemma fcalls_app a b : fcalls (a ++ b) = fcalls a ++ fcalls b.
Proof. unfold fcalls. apply flat_map_app. Qed.
Lemma fmcalls_app a b : fmcalls (a ++ b) = fmcalls a ++ fmcalls b.
Proof. unfold fmcalls. apply flat_map_app. Qed.

Lemma in_calls f l : In f (calls l) <-> exists c, In c l /\ In f (calls1 c).
Proof. unfold calls. apply in_flat_map. Qed.
Lemma in_fcalls f fs : In f (fcalls fs) <-> exists d, In d fs /\ In f (calls (snd d)).
Proof. unfold fcalls. apply in_flat_map. Qed.
Lemma in_fmcalls pk fs : In pk (fmcalls fs) <-> exists d, In d fs /\ In pk (mcalls (snd d)).
Proof. unfold fmcalls. apply in_flat_map. Qed.

(* ---- call sites: static and run-time targets in one list ---- *)
Inductive site := Static (f : string) | Dyn (pre key : string).
Fixpoint sites1 (c : cmd) : list site :=
  match c with
  | CCall f => [Static f]
  | CCallWith f _ => [Static f]
  | CMacroCall pre key => [Dyn pre key]
  | CExecute _ b => sites1 b
  | _ => []
  end.
Definition sites (l : list cmd) : list site := flat_map sites1 l.

Lemma sites_app a b : sites (a ++ b) = sites a ++ sites b.
Proof. unfold sites. apply flat_map_app. Qed.

Lemma calls1_sites c f : In f (calls1 c) <-> In (Static f) (sites1 c).
Proof.
  induction c; cbn; try tauto.
  - split; intros [H|[]]; left; congruence.
  - split; intros [H|[]]; left; congruence.
  - split; [intros []|intros [H|[]]; discriminate].
Qed.
Lemma mcalls1_sites c p k : In (p, k) (mcalls1 c) <-> In (Dyn p k) (sites1 c).
Proof.
  induction c; cbn; try tauto.
  - split; [intros []|intros [H|[]]; discriminate].
  - split; [intros []|intros [H|[]]; discriminate].
  - split; intros [H|[]]; left; congruence.
Qed.
Lemma calls_sites l f : In f (calls l) <-> In (Static f) (sites l).
Proof.
  unfold calls, sites. rewrite !in_flat_map. split; intros (c & Hc & H); exists c; (split; [exact Hc|]);
    apply calls1_sites; exact H.
Qed.
Lemma mcalls_sites l p k : In (p, k) (mcalls l) <-> In (Dyn p k) (sites l).
Proof.
  unfold mcalls, sites. rewrite !in_flat_map. split; intros (c & Hc & H); exists c; (split; [exact Hc|]);
    apply mcalls1_sites; exact H.
Qed.

(* every call site of l satisfies OK *)
Definition all_ok (OK : site -> Prop) (l : list cmd) : Prop := forall s, In s (sites l) -> OK s.

Lemma all_ok_nil (OK : site -> Prop) : all_ok OK [].
Proof. intros s []. Qed.
Lemma all_ok_app (OK : site -> Prop) a b : all_ok OK (a ++ b) <-> all_ok OK a /\ all_ok OK b.
Proof.
  unfold all_ok. rewrite sites_app. split.
  - intros H. split; intros s Hs; apply H; apply in_or_app; auto.
  - intros [A B] s Hs. apply in_app_or in Hs. destruct Hs; auto.
Qed.
Lemma all_ok_cons (OK : site -> Prop) c l : all_ok OK (c :: l) <-> all_ok OK [c] /\ all_ok OK l.
Proof. apply (all_ok_app OK [c] l). Qed.
Lemma all_ok_impl (OK OK' : site -> Prop) l : all_ok OK l -> (forall s, OK s -> OK' s) -> all_ok OK' l.
Proof. intros H I s Hs. apply I, H, Hs. Qed.
Lemma all_ok_call (OK : site -> Prop) f : OK (Static f) -> all_ok OK [CCall f].
Proof. intros H s [<-|[]]. exact H. Qed.
Lemma all_ok_in (OK : site -> Prop) l c : all_ok OK l -> In c l -> all_ok OK [c].
Proof.
  intros H I s Hs. apply H. unfold sites in *. apply in_flat_map. exists c. split; [exact I|].
  cbn in Hs. rewrite app_nil_r in Hs. exact Hs.
Qed.
Lemma all_ok_execute (OK : site -> Prop) ms b : all_ok OK [CExecute ms b] <-> all_ok OK [b].
Proof. unfold all_ok. cbn. tauto. Qed.

(* the call sites of l itself *)
Lemma all_ok_self l : all_ok (fun s => In s (sites l)) l.
Proof. intros s H. exact H. Qed.

(* ---- MC.Sem looks functions up at these names only ---- *)
Lemma run_mods_ext ms : forall stores st k k',
  (forall s, k s = k' s) -> run_mods ms stores st k = run_mods ms stores st k'.
Proof.
  induction ms as [|[pos t|kd d] ms IH]; intros stores st k k' E; cbn [run_mods].
  - rewrite E. reflexivity.
  - destruct (Bool.eqb pos (test_true st t)); [apply IH; exact E|reflexivity].
  - apply IH. exact E.
Qed.

Lemma no_calls_ft_irrelevant ft ft' env : forall fuel menv c st,
  calls1 c = [] -> mcalls1 c = [] -> exec ft env fuel menv c st = exec ft' env fuel menv c st.
Proof.
  induction fuel as [|fuel IH]; intros menv c st C M; [reflexivity|].
  destruct c; cbn [exec]; try reflexivity; cbn in C, M; try discriminate.
  apply run_mods_ext. intros s. apply IH; assumption.
Qed.

(* `$function pre$(key)` with a value for which no function exists: nothing runs, the state is unchanged *)
Lemma macro_call_miss ft env fuel menv pre key st :
  (forall v, menv key = Some v -> ft (pre ++ z_dec v)%string = None) ->
  exec ft env (S fuel) menv (CMacroCall pre key) st = Some (st, r_fail).
Proof.
  intros H. cbn [exec]. destruct (menv key) as [v|] eqn:E; [|reflexivity].
  rewrite (H v eq_refl). reflexivity.
Qed.
(* … and with a value for which one exists, exactly that function's body runs *)
Lemma macro_call_hit ft env fuel menv pre key st v body :
  menv key = Some v -> ft (pre ++ z_dec v)%string = Some body ->
  exec ft env (S fuel) menv (CMacroCall pre key) st =
  call_res (seq_run (exec ft env fuel no_menv) body st).
Proof. intros E F. cbn [exec]. rewrite E, F. reflexivity. Qed.
