(* Proofs.MathFnRange — the bound of C20's quantifier (max - min + 1 <= 2^31-1) is sharp for constant
   arguments: beyond it MathRandom.call still emits `scoreboard players set __math__.rng.bound … <max-min+1>`,
   whose amount is not a Java int, so the call site is not a well-formed command list (the function does not
   load).  This is independent of how the arguments are spelled: the model term has no spelling.
   (Triage of "Math.random(min=-2147483648, …) emits an out-of-range constant": the reported calls all have
   max - min + 1 > 2^31-1, i.e. they lie outside the property's quantifier.) *)
From Coq Require Import ZArith String List Bool Lia.
From JMCV Require Import Base.Int32 MC.Syntax MC.Sem Model.Names Model.MathFn.
Import ListNotations.
Open Scope Z_scope.

Lemma random_const_range_beyond_not_wf nm target a b :
  INT_MAX < b - a + 1 ->
  forallb wf_cmd (random_run nm target (PLit a) (PLit b)) = false.
Proof.
  intros Hgt. unfold random_run, random_bound_cmds.
  cbn [app forallb wf_cmd].
  assert (Hb : in_int32b (b - a + 1) = false).
  { unfold in_int32b. apply andb_false_iff. right. apply Z.leb_gt. exact Hgt. }
  rewrite Hb. reflexivity.
Qed.

(* inside the quantifier the same command is well-formed (the full statement is C20_random_range) *)
Lemma random_const_range_within_wf nm a b :
  1 <= b - a + 1 <= INT_MAX ->
  wf_cmd (CSet (rn_bound nm) (b - a + 1)) = true.
Proof.
  intros [Hlo Hhi]. cbn [wf_cmd]. unfold in_int32b. apply andb_true_iff. split; apply Z.leb_le.
  - unfold INT_MIN. lia.
  - exact Hhi.
Qed.
