(* Proofs.LayoutGlue — property C15, strengthening round 1: a `//` comment GLUED to the preceding token.

   The `relayout` relation of Model/Layout.v requires a whitespace character in front of every `//`.  This file
   closes the gap: at any place of any tokenizer run where no string literal and no bracket is open and the last
   character read was not `/`, the comment `// body NL` written directly behind what precedes it gives EXACTLY the
   result (token streams with their positions, or the same diagnostic) of the same comment written after one blank
   or tab.  Any macro table, any mode, any start position. *)
From Coq Require Import ZArith String List Bool Ascii Lia.
From JMCV Require Import Model.Layout Proofs.LayoutBasic Proofs.LayoutAdj Proofs.LayoutAdj2.
Import ListNotations.
Open Scope Z_scope.

Section Glue.
Variable mt : mtable.
Variable cf es : bool.

(* ------------------------------------------------------------------ pending tokens are never empty *)
Definition pend_ok (st : tstate) : Prop :=
  match s_kind st with SKeyword | SOperator => s_tstr st <> [] | _ => True end.

Lemma append_token_kind ty st st' : append_token mt ty st = Ok st' -> s_kind st' = SNone.
Proof.
  unfold append_token. destruct (s_tpos st). destruct ty; try (intros H; inv_ok; reflexivity).
  destruct (lookup_macro mt _) as [m|]; [destruct (m_arity m)|]; intros H; inv_ok; reflexivity.
Qed.
Lemma append_keywords_kind st st' : append_keywords st = Ok st' -> s_kind st' = s_kind st /\ s_tstr st' = s_tstr st.
Proof. unfold append_keywords. destruct (s_kws st); intros H; inv_ok; split; reflexivity. Qed.

Lemma pend_ok_none st : s_kind st = SNone -> pend_ok st.
Proof. unfold pend_ok. intros ->. exact I. Qed.

Ltac kind_rw :=
  repeat match goal with A : s_kind ?x = _ |- context [s_kind ?x] => rewrite A end.

Ltac use_kind :=
  repeat match goal with
  | A : append_token _ _ _ = Ok _ |- _ => apply append_token_kind in A; cbn in A
  | A : append_keywords _ = Ok _ |- _ => apply append_keywords_kind in A; cbn in A; destruct A as [? ?]
  end.

Lemma parse_none_pend st c st' b : s_kind st = SNone -> parse_none mt st c = Ok (st', b) -> pend_ok st'.
Proof.
  unfold parse_none. intros K H.
  repeat (break_hyp; inv_ok; try discriminate); inv_ok; use_kind; unfold pend_ok; cbn in *;
    kind_rw; try exact I; try discriminate; auto.
Qed.

Lemma parse_kw_op_pend st c st' b :
  parse_kw_op mt es st c = Ok (st', b) -> (b = true -> pend_ok st') /\ (b = false -> s_kind st' = SNone).
Proof.
  unfold parse_kw_op. intros H.
  repeat (break_hyp; inv_ok; try discriminate); inv_ok; use_kind; (split; [intros ?|intros ?]); try discriminate;
    unfold pend_ok; cbn in *; try assumption;
    try (match goal with |- match ?k with _ => _ end => destruct k end); try exact I; try discriminate.
Qed.

Lemma parse_newline_pend st st' : parse_newline mt st = Ok st' -> pend_ok st'.
Proof.
  unfold parse_newline. intros H.
  repeat (break_hyp; inv_ok; try discriminate); inv_ok; use_kind; unfold pend_ok; cbn in *;
    kind_rw; exact I.
Qed.

Lemma parse_string_pend st c st' : s_kind st = SString -> parse_string mt st c = Ok st' -> pend_ok st'.
Proof.
  unfold parse_string. intros K H.
  repeat (break_hyp; inv_ok; try discriminate); inv_ok; use_kind; unfold pend_ok; cbn in *;
    kind_rw; exact I.
Qed.

Lemma parse_paren_pend st c st' b : s_kind st = SParen -> parse_paren mt cf es st c = Ok (st', b) -> pend_ok st'.
Proof.
  unfold parse_paren. intros K H.
  repeat (break_hyp; inv_ok; try discriminate); inv_ok; use_kind; unfold pend_ok; cbn in *;
    kind_rw; try exact I.
Qed.

Lemma pend_ok_set_slash st b : pend_ok st -> pend_ok (set_slash st b).
Proof. exact (fun H => H). Qed.

Lemma step_pend st c st' : step mt cf es st c = Ok st' -> pend_ok st'.
Proof.
  unfold step. intros H.
  set (st0 := set_pos st (s_line st) (s_col st + 1)) in *. clearbody st0.
  destruct (Ascii.eqb c SEMI && _ && negb es); [discriminate|].
  destruct (is_nl c). { eapply parse_newline_pend; eauto. }
  destruct (Ascii.eqb c SLASH && s_slash st0 && _).
  { destruct (s_tstr (set_tstr st0 (tail_str (s_tstr st0)))).
    - inv_ok. exact I.
    - destruct (append_token mt _ _) eqn:Ea; [|discriminate]. inv_ok. exact I. }
  destruct (is_pending_kind (s_kind st0)) eqn:Ep.
  - destruct (parse_kw_op mt es st0 c) as [[st1 b]|] eqn:Ek; [|discriminate].
    destruct (parse_kw_op_pend _ _ _ _ Ek) as [Ht Hf].
    destruct b; [inv_ok; apply pend_ok_set_slash, Ht; reflexivity|].
    rewrite (Hf eq_refl) in H.
    destruct (parse_none mt st1 c) as [[st2 b2]|] eqn:En; [|discriminate].
    pose proof (parse_none_pend _ _ _ _ (Hf eq_refl) En). destruct b2; inv_ok; assumption.
  - destruct (s_kind st0) eqn:K0; try discriminate Ep.
    + destruct (parse_none mt st0 c) as [[st2 b2]|] eqn:En; [|discriminate].
      pose proof (parse_none_pend _ _ _ _ K0 En). destruct b2; inv_ok; assumption.
    + destruct (parse_string mt st0 c) eqn:Es; [|discriminate]. pose proof (parse_string_pend _ _ _ K0 Es). inv_ok. assumption.
    + destruct (parse_paren mt cf es st0 c) as [[st2 b2]|] eqn:Epp; [|discriminate].
      pose proof (parse_paren_pend _ _ _ _ K0 Epp). destruct b2; inv_ok; assumption.
    + inv_ok. unfold pend_ok. cbn. rewrite K0. exact I.
Qed.

Lemma run_pend s : forall st st', pend_ok st -> run mt cf es st s = Ok st' -> pend_ok st'.
Proof.
  induction s as [|c r IH]; intros st st' P H; cbn in H; [inv_ok; assumption|].
  destruct (step mt cf es st c) as [st1|] eqn:E; [|discriminate]. eapply IH; [|exact H]. eapply step_pend; eauto.
Qed.

(* ------------------------------------------------------------------ registers that are dead while nothing is pending *)
(* s_tpos and s_pglued are written by start_token before they are read again *)
Definition forget (st : tstate) : tstate :=
  mkSt (s_line st) (s_col st) (s_kind st) (s_tstr st) (0, 0) (s_quote st) (s_esc st) (s_paren st) (s_pcount st)
       (s_instr st) (s_incmt st) (s_slash st) (s_allowsc st) (s_kws st) (s_lkws st) (s_gap st) false (s_ev st).
Definition idle_kind (st : tstate) : Prop := (s_kind st = SNone \/ s_kind st = SComment) /\ s_tstr st = [].
Definition dead_eq (a b : tstate) : Prop := forget a = forget b /\ idle_kind a.

Definition res_rel (R : tstate -> tstate -> Prop) (x y : result tstate) : Prop :=
  match x, y with
  | Ok a, Ok b => R a b
  | Err e, Err e' => e = e'
  | _, _ => False
  end.
Definition same_or_dead (a b : tstate) : Prop := a = b \/ dead_eq a b.

Ltac split_ifs :=
  repeat match goal with
  | |- context [if ?x then _ else _] => destruct x eqn:?
  end.

Lemma step_dead a b c : dead_eq a b -> res_rel same_or_dead (step mt cf es a c) (step mt cf es b c).
Proof.
  intros [F [[K|K] T]]; destruct a, b; unfold forget in F; cbn in *; injection F as; subst.
  - unfold step, parse_none, parse_newline, append_keywords, append_token, res_rel, same_or_dead, dead_eq, idle_kind, forget.
    cbn. split_ifs; cbn; auto; try (destruct s_kws0; cbn; auto);
      try (right; repeat split; auto; fail); try (left; reflexivity).
  - unfold step, parse_newline, res_rel, same_or_dead, dead_eq, idle_kind, forget.
    cbn. rewrite ?andb_false_r. split_ifs; cbn; auto; try (right; repeat split; auto; fail).
Qed.

Lemma run_dead s : forall a b, same_or_dead a b -> res_rel same_or_dead (run mt cf es a s) (run mt cf es b s).
Proof.
  induction s as [|c r IH]; intros a b H; cbn.
  - exact H.
  - assert (S : res_rel same_or_dead (step mt cf es a c) (step mt cf es b c)).
    { destruct H as [->|H]; [|apply step_dead; exact H].
      destruct (step mt cf es b c); cbn; [left; reflexivity|reflexivity]. }
    destruct (step mt cf es a c), (step mt cf es b c); cbn in S; try contradiction; [apply IH; exact S|exact S].
Qed.

Lemma finish_dead al a b : same_or_dead a b -> finish mt es al a = finish mt es al b.
Proof.
  intros [->|[F [K T]]]; [reflexivity|]. destruct a, b; unfold forget in F; cbn in *; injection F as; subst.
  unfold finish, append_keywords. cbn. destruct K as [-> | ->]; destruct es, al, s_kws0; cbn; reflexivity.
Qed.

(* ------------------------------------------------------------------ inside a comment *)
(* equal up to the column (and the dead registers) *)
Definition forget_col (st : tstate) : tstate :=
  mkSt (s_line st) 0 (s_kind st) (s_tstr st) (0, 0) (s_quote st) (s_esc st) (s_paren st) (s_pcount st)
       (s_instr st) (s_incmt st) (s_slash st) (s_allowsc st) (s_kws st) (s_lkws st) (s_gap st) false (s_ev st).
Definition cmt_eq (a b : tstate) : Prop := forget_col a = forget_col b /\ s_kind a = SComment /\ s_tstr a = [].

Lemma step_cmt a b c : cmt_eq a b -> is_nl c = false ->
  exists a' b', step mt cf es a c = Ok a' /\ step mt cf es b c = Ok b' /\ cmt_eq a' b'.
Proof.
  intros (F & K & T) Hnl. destruct a, b; unfold forget_col in F; cbn in *; injection F as; subst.
  unfold step. cbn. rewrite Hnl, ?andb_false_r. cbn.
  match goal with |- context [if ?x then _ else _] => destruct x end;
    cbn; eexists; eexists; (split; [reflexivity|]); (split; [reflexivity|]);
    unfold cmt_eq, forget_col; cbn; repeat split.
Qed.

Lemma run_cmt body : Forall (fun x => x <> NL) body -> forall a b, cmt_eq a b ->
  exists a' b', run mt cf es a body = Ok a' /\ run mt cf es b body = Ok b' /\ cmt_eq a' b'.
Proof.
  induction 1 as [|c r Hc Hr IH]; intros a b H.
  - exists a, b. repeat split; try reflexivity; apply H.
  - assert (Hnl : is_nl c = false) by (unfold is_nl; destruct (Ascii.eqb_spec c NL); [contradiction|reflexivity]).
    destruct (step_cmt a b c H Hnl) as (a1 & b1 & Ea & Eb & H1).
    destruct (IH a1 b1 H1) as (a2 & b2 & Ea2 & Eb2 & H2).
    exists a2, b2. cbn [run]. rewrite Ea, Eb. split; [exact Ea2|]. split; [exact Eb2|exact H2].
Qed.

Lemma step_cmt_nl a b : cmt_eq a b ->
  exists a' b', step mt cf es a NL = Ok a' /\ step mt cf es b NL = Ok b' /\ dead_eq a' b'.
Proof.
  intros (F & K & T). destruct a, b; unfold forget_col in F; cbn in *; injection F as; subst.
  unfold step, parse_newline. cbn. rewrite ?andb_false_r. cbn.
  eexists. eexists. split; [reflexivity|]. split; [reflexivity|].
  unfold dead_eq, idle_kind, forget. cbn. repeat split. left. reflexivity.
Qed.

(* ------------------------------------------------------------------ the two ways into the comment *)
Definition code_point (st : tstate) : Prop :=
  (s_kind st = SNone \/ s_kind st = SKeyword \/ s_kind st = SOperator) /\ s_slash st = false /\ pend_ok st.

Definition blank (c : ascii) : Prop := c = SP \/ c = TAB.

(* cbn does not evaluate is_ws (nat arithmetic) on character literals *)
Lemma ws_sp : is_ws " "%char = true. Proof. vm_compute. reflexivity. Qed.
Lemma ws_tab : is_ws "009"%char = true. Proof. vm_compute. reflexivity. Qed.
Lemma ws_slash : is_ws "/"%char = false. Proof. vm_compute. reflexivity. Qed.
Ltac ws_eval := rewrite ?ws_sp, ?ws_tab, ?ws_slash.
Local Arguments append_token : simpl never.

Ltac norm_state :=
  cbv beta iota;
  cbn [set_pos set_slash set_gap set_ev set_incmt set_kind set_tstr set_esc set_allowsc set_preg start_token set_quote
       set_paren push_tokens set_out push_char tail_str s_line s_col s_kind s_tstr s_tpos s_quote s_esc s_paren s_pcount
       s_instr s_incmt s_slash s_allowsc s_kws s_lkws s_gap s_pglued s_ev app rev negb].
(* one character: the equation `step s c = <result>` is proved on its own (the result is found by evaluation) *)
Ltac step1_with tac :=
  cbn [run];
  lazymatch goal with
  | |- context [step mt cf es ?s ?c] =>
      let E := fresh "E" in
      eassert (E : step mt cf es s c = _)
        by (unfold step, parse_kw_op, parse_none, parse_newline; repeat (progress (cbn; ws_eval; tac)); reflexivity);
      rewrite E; clear E; norm_state
  end.
Ltac step1 := step1_with idtac.
Ltac done_cmt := cbn [run]; unfold res_rel, cmt_eq, forget_col; cbn; (split; [reflexivity|split; reflexivity]).

Lemma enter_comment st c : code_point st -> blank c ->
  res_rel cmt_eq (run mt cf es st [c; SLASH; SLASH]) (run mt cf es st [SLASH; SLASH]).
Proof.
  intros ([K|[K|K]] & S & P) Hc; destruct st; cbn in K, S; unfold pend_ok in P; cbn in P; subst.
  - (* nothing pending *)
    destruct Hc as [-> | ->]; do 5 step1; done_cmt.
  - (* a keyword is pending: the blank resp. the first slash appends it (or both fail in the same way) *)
    destruct s_tstr as [|t0 ts]; [congruence|].
    match goal with |- context [run mt cf es ?s _] =>
      destruct (append_token mt KEYWORD (set_pos s s_line (s_col + 1))) as [s1|] eqn:Ea end; cbn in Ea.
    + pose proof (append_token_shape mt _ _ _ Ea) as (toks & ->). cbn in Ea.
      destruct Hc as [-> | ->]; do 5 (step1_with ltac:(rewrite ?Ea)); done_cmt.
    + destruct Hc as [-> | ->]; do 2 (step1_with ltac:(rewrite ?Ea)); reflexivity.
  - (* an operator is pending: the blank appends it; glued, the second slash does *)
    destruct s_tstr as [|t0 ts]; [congruence|]. destruct s_tpos as [tl tc].
    assert (Ea : forall st0, append_token mt OPERATOR st0 =
              Ok (push_tokens st0 [mkTok OPERATOR (fst (Layout.s_tpos st0)) (snd (Layout.s_tpos st0)) (rev (Layout.s_tstr st0)) 0 None
                                         (Layout.s_pglued st0)])).
    { intros st0. unfold append_token. destruct (Layout.s_tpos st0). reflexivity. }
    destruct Hc as [-> | ->]; do 5 (step1_with ltac:(rewrite ?Ea)); done_cmt.
Qed.

Lemma run_app' a : forall b st, run mt cf es st (a ++ b) =
  match run mt cf es st a with Ok st1 => run mt cf es st1 b | Err e => Err e end.
Proof.
  induction a as [|c r IH]; intros b st; cbn; [reflexivity|].
  destruct (step mt cf es st c); [apply IH|reflexivity].
Qed.

Lemma glue_run st c body : code_point st -> blank c -> Forall (fun x => x <> NL) body ->
  res_rel dead_eq (run mt cf es st (c :: SLASH :: SLASH :: body ++ [NL])) (run mt cf es st (SLASH :: SLASH :: body ++ [NL])).
Proof.
  intros Hp Hc Hb.
  change (c :: SLASH :: SLASH :: body ++ [NL]) with ([c; SLASH; SLASH] ++ (body ++ [NL])).
  change (SLASH :: SLASH :: body ++ [NL]) with ([SLASH; SLASH] ++ (body ++ [NL])).
  rewrite !run_app'. pose proof (enter_comment st c Hp Hc) as E.
  destruct (run mt cf es st [c; SLASH; SLASH]) as [a|ea], (run mt cf es st [SLASH; SLASH]) as [b|eb]; cbn in E; try contradiction; [|exact E].
  rewrite !run_app'. destruct (run_cmt body Hb a b E) as (a1 & b1 & -> & -> & E1).
  destruct (step_cmt_nl a1 b1 E1) as (a2 & b2 & Ea & Eb & E2). cbn [run]. rewrite Ea, Eb. exact E2.
Qed.

End Glue.

(* ------------------------------------------------------------------ the theorem *)
Lemma init_pend line col asc : pend_ok (init_state line col asc).
Proof. exact I. Qed.

Theorem glued_comment mt cf es al asc line col p c body rest st :
  parse_st mt cf es asc line col p = Ok st ->
  (s_kind st = SNone \/ s_kind st = SKeyword \/ s_kind st = SOperator) -> s_slash st = false ->
  (c = SP \/ c = TAB) -> Forall (fun x => x <> NL) body ->
  parse mt cf es al asc line col (p ++ c :: SLASH :: SLASH :: body ++ NL :: rest) =
  parse mt cf es al asc line col (p ++ SLASH :: SLASH :: body ++ NL :: rest).
Proof.
  intros Hp K S Hc Hb. unfold parse, parse_st in *.
  replace (c :: SLASH :: SLASH :: body ++ NL :: rest) with ((c :: SLASH :: SLASH :: body ++ [NL]) ++ rest)
    by (cbn; rewrite <- app_assoc; reflexivity).
  replace (SLASH :: SLASH :: body ++ NL :: rest) with ((SLASH :: SLASH :: body ++ [NL]) ++ rest)
    by (cbn; rewrite <- app_assoc; reflexivity).
  rewrite !run_app', Hp, !run_app'.
  assert (P : pend_ok st) by (eapply run_pend; [apply init_pend|exact Hp]).
  pose proof (glue_run mt cf es st c body (conj K (conj S P)) Hc Hb) as G.
  destruct (run mt cf es st (c :: SLASH :: SLASH :: body ++ [NL])) as [a|ea],
           (run mt cf es st (SLASH :: SLASH :: body ++ [NL])) as [b|eb]; cbn in G; try contradiction; [|congruence].
  pose proof (run_dead mt cf es rest a b (or_intror G)) as R.
  destruct (run mt cf es a rest) as [a'|ea'], (run mt cf es b rest) as [b'|eb']; cbn in R; try contradiction; [|congruence].
  apply finish_dead. exact R.
Qed.
