(* Proofs.LitFmtScalar — C09 (round 4): every string inside the components FormattedText builds for a literal of
   Unicode scalar values is itself made of scalar values (so the JSON reader reads each of them back), and the
   end-to-end statement: the JSON text emitted for a formatted literal displays the literal's text without its codes. *)
From Coq Require Import ZArith Bool String Ascii List Lia.
From JMCV Require Import Model.Lit Model.LitFmtRead Proofs.LitBase Proofs.LitJson Proofs.LitFmt Proofs.LitFmtRead.
Import ListNotations.
Open Scope Z_scope.

Notation sc := (forallb scalarb).

(* ------------------------------------------------------------------ substrings *)
Lemma sc_rev s : sc s = true -> sc (rev s) = true.
Proof.
  intros H. apply forallb_forall. intros x Hx. apply in_rev in Hx.
  rewrite forallb_forall in H. now apply H.
Qed.

Lemma sc_lstrip s : sc s = true -> sc (lstrip s) = true.
Proof.
  induction s as [|c r IH]; intros H; [reflexivity|]. cbn [lstrip].
  destruct (py_space c); [|exact H]. cbn [forallb] in H. apply andb_true_iff in H as [_ H]. now apply IH.
Qed.

Lemma sc_strip s : sc s = true -> sc (strip s) = true.
Proof. intros H. unfold strip. now apply sc_rev, sc_lstrip, sc_rev, sc_lstrip. Qed.

Lemma sc_tl s : sc s = true -> sc (tl s) = true.
Proof. destruct s as [|c r]; [reflexivity|]. cbn [forallb tl]. intros H. now apply andb_true_iff in H as [_ H]. Qed.

Lemma sc_split_on d s : sc s = true -> forallb sc (split_on d s) = true.
Proof.
  induction s as [|c r IH]; intros H; [reflexivity|]. cbn [forallb] in H. apply andb_true_iff in H as [Hc Hr].
  specialize (IH Hr). cbn [split_on]. destruct (c =? d).
  - cbn [forallb]. exact IH.
  - destruct (split_on d r) as [|h t]; cbn [forallb] in *; [now rewrite Hc|].
    apply andb_true_iff in IH as [Hh Ht]. now rewrite Hc, Hh, Ht.
Qed.

Lemma sc_split_colon s a b : sc s = true -> split_colon s = (a, b) -> sc a = true /\ sc b = true.
Proof.
  revert a b; induction s as [|c r IH]; intros a b H E; cbn [split_colon] in E.
  - injection E as <- <-. split; reflexivity.
  - cbn [forallb] in H. apply andb_true_iff in H as [Hc Hr]. destruct (c =? 58).
    + injection E as <- <-. split; [reflexivity|exact Hr].
    + destruct (split_colon r) as [a' b'] eqn:E'. injection E as <- <-.
      destruct (IH a' b' Hr eq_refl) as [A B]. split; [cbn [forallb]; now rewrite Hc, A|exact B].
Qed.

(* ------------------------------------------------------------------ attributes *)
Definition attrs_sc (a : attrs) : bool := forallb (fun p => fval_scalar (snd p)) a.

Lemma attrs_sc_cons p a : attrs_sc (p :: a) = fval_scalar (snd p) && attrs_sc a.
Proof. reflexivity. Qed.

Lemma attrs_sc_aset k v a : fval_scalar v = true -> attrs_sc a = true -> attrs_sc (aset k v a) = true.
Proof.
  intros Hv. induction a as [|[k' v'] a IH]; intros Ha; cbn [aset].
  - rewrite attrs_sc_cons. cbn [snd]. now rewrite Hv.
  - rewrite attrs_sc_cons in Ha. cbn [snd] in Ha. apply andb_true_iff in Ha as [H1 H2]. destruct (fkey_eqb k k').
    + rewrite attrs_sc_cons. cbn [snd]. now rewrite Hv, H2.
    + rewrite attrs_sc_cons. cbn [snd]. rewrite H1. now apply IH.
Qed.

Lemma attrs_sc_filter f a : attrs_sc a = true -> attrs_sc (filter f a) = true.
Proof.
  induction a as [|p a IH]; intros Ha; [reflexivity|]. rewrite attrs_sc_cons in Ha.
  apply andb_true_iff in Ha as [H1 H2]. cbn [filter]. destruct (f p); [|now apply IH].
  rewrite attrs_sc_cons, H1. now apply IH.
Qed.

Lemma attrs_sc_drop_reset a : attrs_sc a = true -> attrs_sc (drop_reset a) = true.
Proof.
  intros Ha. unfold drop_reset. destruct (aget FColor a) as [[c|b|n o]|]; try exact Ha.
  destruct (str_eqb c RESET); [now apply attrs_sc_filter|exact Ha].
Qed.

(* ------------------------------------------------------------------ states *)
Definition st_sc (st : fstate) : Prop :=
  sc (f_text st) = true /\ attrs_sc (f_cur st) = true /\ forallb comp_scalar (f_res st) = true /\ sc (f_color st) = true.

Lemma comp_scalar_mk t a : sc t = true -> attrs_sc a = true -> comp_scalar (mkComp (Some t) a) = true.
Proof. intros Ht Ha. unfold comp_scalar. cbn [ctext cattrs]. fold (attrs_sc a). now rewrite Ht, Ha. Qed.

Lemma forallb_snoc {A} (f : A -> bool) l x : forallb f l = true -> f x = true -> forallb f (l ++ [x]) = true.
Proof. intros Hl Hx. rewrite forallb_app, Hl. cbn. now rewrite Hx. Qed.

Lemma push_sc st : st_sc st -> st_sc (f_push st).
Proof.
  intros (Ht & Hc & Hr & Hk). unfold f_push. destruct (f_text st) as [|c0 t0] eqn:Et.
  { repeat split; try assumption. now rewrite Et. }
  rewrite <- Et.
  assert (Hfresh : st_sc (mkF [] [] (f_res st ++ [mkComp (Some (f_text st)) (drop_reset (f_cur st))]) (f_color st))).
  { repeat split; cbn [f_text f_cur f_res f_color]; try reflexivity; try assumption.
    apply forallb_snoc; [exact Hr|]. apply comp_scalar_mk; [now rewrite Et|now apply attrs_sc_drop_reset]. }
  destruct (split_last (f_res st)) as [[init [[tx|] a]]|] eqn:Es; try exact Hfresh.
  destruct (color_only a) as [c1|]; [|exact Hfresh].
  destruct (color_only (f_cur st)) as [c2|]; [|exact Hfresh].
  destruct (str_eqb c1 c2); [|exact Hfresh].
  apply split_last_spec in Es. rewrite Es in Hr. rewrite forallb_app in Hr. apply andb_true_iff in Hr as [Hi Hl].
  cbn [forallb] in Hl. rewrite andb_true_r in Hl. unfold comp_scalar in Hl. cbn [ctext cattrs] in Hl.
  apply andb_true_iff in Hl as [Htx Ha].
  repeat split; cbn [f_text f_cur f_res f_color]; try reflexivity; try assumption.
  apply forallb_snoc; [exact Hi|]. apply comp_scalar_mk; [|exact Ha].
  rewrite forallb_app, Htx. now rewrite Et.
Qed.

Lemma code_prop_sc c col : code_prop c = Some (inl col) -> sc col = true.
Proof.
  unfold code_prop. intros H.
  repeat match type of H with
         | (if ?b then _ else _) = _ => destruct b
         | Some (inl _) = Some (inl _) => injection H as <-; reflexivity
         | _ => discriminate
         end.
Qed.

Lemma code_sc strict c st st' : st_sc st -> f_code strict c st = Ok st' -> st_sc st'.
Proof.
  intros (Ht & Hc & Hr & Hk). unfold f_code. destruct (code_prop c) as [[col|k]|] eqn:E.
  - intros H. injection H as <-. pose proof (code_prop_sc c col E) as Hcol.
    repeat split; cbn [f_text f_cur f_res f_color]; try assumption. now apply attrs_sc_aset.
  - intros H. injection H as <-. repeat split; cbn [f_text f_cur f_res f_color]; try assumption.
    apply attrs_sc_aset; [reflexivity|]. destruct (f_color st) as [|x y] eqn:Ek; [exact Hc|].
    apply attrs_sc_aset; [exact Hk|exact Hc].
  - destruct strict; [discriminate|]. intros H. injection H as <-. repeat split; assumption.
Qed.

Lemma prop_sc var p st st' : sc var = true -> sc p = true -> st_sc st -> f_prop var p st = Ok st' -> st_sc st'.
Proof.
  intros Hvar Hp (Ht & Hc & Hr & Hk). unfold f_prop.
  set (p0 := strip p). assert (Hp0 : sc p0 = true) by now apply sc_strip.
  set (neg := match p0 with c :: _ => c =? 33 | [] => false end).
  set (q := if neg then tl p0 else p0).
  assert (Hq : sc q = true) by (unfold q; destruct neg; [now apply sc_tl|exact Hp0]).
  clearbody q p0 neg.
  intros H.
  assert (U : forall a col, attrs_sc a = true -> sc col = true ->
                            st_sc (mkF (f_text st) a (f_res st) col)).
  { intros a col Ha Hcol. repeat split; assumption. }
  repeat match type of H with
         | (if ?b then _ else _) = _ => destruct b
         | match ?x with Some _ => _ | None => _ end = _ => destruct x
         | Diag = Ok _ => discriminate
         | Unmodelled = Ok _ => discriminate
         end;
    try (injection H as <-; apply U; try assumption; apply attrs_sc_aset; try assumption; try reflexivity;
         cbn [fval_scalar]; try assumption; now rewrite ?Hq, ?Hvar).
  (* objective:name *)
  destruct (split_colon q) as [obj name] eqn:E. destruct (sc_split_colon q obj name Hq E) as [Ho Hn].
  injection H as <-. apply U; [|assumption]. apply attrs_sc_aset; [|assumption]. cbn [fval_scalar]. now rewrite Hn, Ho.
Qed.

Lemma props_sc var ps : forall st st',
  sc var = true -> forallb sc ps = true -> st_sc st -> f_props var ps st = Ok st' -> st_sc st'.
Proof.
  induction ps as [|p ps IH]; intros st st' Hvar Hps Hst H; cbn [f_props] in H.
  - injection H as <-. exact Hst.
  - cbn [forallb] in Hps. apply andb_true_iff in Hps as [Hp Hps].
    destruct (f_prop var p st) as [st1| | |] eqn:E; cbn [rbind] in H; try discriminate.
    apply (IH st1 st' Hvar Hps); [|exact H]. exact (prop_sc var p st st1 Hvar Hp Hst E).
Qed.

Lemma bracket_tail_sc cur st1 st' :
  attrs_sc cur = true -> st_sc st1 ->
  (if has_content cur
   then Ok (mkF [] (filter (fun p => is_style_or_color (fst p)) cur)
               (f_res st1 ++ [mkComp None (drop_reset cur)]) (f_color st1))
   else Ok (mkF (f_text st1) cur (f_res st1) (f_color st1))) = Ok st' -> st_sc st'.
Proof.
  intros Hcur (Ht & Hc & Hr & Hk) H.
  destruct (has_content cur); injection H as <-; repeat split; cbn [f_text f_cur f_res f_color]; try assumption; try reflexivity.
  - now apply attrs_sc_filter.
  - apply forallb_snoc; [exact Hr|]. unfold comp_scalar. cbn [ctext cattrs andb].
    fold (attrs_sc (drop_reset cur)). now apply attrs_sc_drop_reset.
Qed.

Lemma bracket_sc var content st st' :
  sc var = true -> sc content = true -> st_sc st -> f_bracket var content st = Ok st' -> st_sc st'.
Proof.
  intros Hvar Hcon Hst H. unfold f_bracket in H.
  destruct (f_props var (split_on 44 content) st) as [st1| | |] eqn:E; cbn [rbind] in H; try discriminate.
  pose proof (props_sc var _ st st1 Hvar (sc_split_on 44 content Hcon) Hst E) as Hst1.
  cbv zeta in H. eapply bracket_tail_sc; [|exact Hst1|exact H].
  destruct Hst1 as (Ht & Hc & Hr & Hk).
  destruct (ahas FColor (f_cur st1)); [exact Hc|].
  destruct (f_color st1) eqn:Ek; [exact Hc|]. apply attrs_sc_aset; [exact Hk|exact Hc].
Qed.

Definition mode_sc (m : fmode) : Prop := match m with FBracket acc => sc acc = true | _ => True end.

Theorem run_sc strict var s : forall m st st',
  sc var = true -> sc s = true -> mode_sc m -> st_sc st -> f_run strict var m s st = Ok st' -> st_sc st'.
Proof.
  induction s as [|c r IH]; intros m st st' Hvar Hs Hm Hst H.
  - destruct m; cbn [f_run] in H; try discriminate. injection H as <-. now apply push_sc.
  - cbn [forallb] in Hs. apply andb_true_iff in Hs as [Hc Hr].
    assert (Happ : forall t, sc t = true -> sc (t ++ [c]) = true).
    { intros t Ht. rewrite forallb_app, Ht. cbn. now rewrite Hc. }
    destruct m as [| |acc]; cbn [f_run] in H.
    + destruct (c =? 38); [exact (IH FCode st st' Hvar Hr I Hst H)|].
      refine (IH FNorm _ st' Hvar Hr I _ H). destruct Hst as (A & B & C & D).
      repeat split; cbn [f_text f_cur f_res f_color]; try assumption. now apply Happ.
    + destruct (c =? 38).
      * refine (IH FNorm _ st' Hvar Hr I _ H). destruct Hst as (A & B & C & D).
        repeat split; cbn [f_text f_cur f_res f_color]; try assumption.
        rewrite forallb_app, A. reflexivity.
      * destruct (c =? 60); [exact (IH (FBracket []) _ st' Hvar Hr eq_refl (push_sc st Hst) H)|].
        destruct (f_code strict c (f_push st)) as [st1| | |] eqn:E; cbn [rbind] in H; try discriminate.
        exact (IH FNorm st1 st' Hvar Hr I (code_sc strict c _ st1 (push_sc st Hst) E) H).
    + cbn [mode_sc] in Hm. destruct (c =? 62).
      * destruct (f_bracket var (rev acc) st) as [st1| | |] eqn:E; cbn [rbind] in H; try discriminate.
        exact (IH FNorm st1 st' Hvar Hr I (bracket_sc var _ st st1 Hvar (sc_rev acc Hm) Hst E) H).
      * refine (IH (FBracket (c :: acc)) st st' Hvar Hr _ Hst H).
        cbn [mode_sc forallb]. now rewrite Hc, Hm.
Qed.

Theorem parse_sc strict var s cs :
  sc var = true -> sc s = true -> fmt_parse strict var s = Ok cs -> forallb comp_scalar cs = true.
Proof.
  intros Hvar Hs H. unfold fmt_parse in H.
  destruct (f_run strict var FNorm s f_init) as [st| | |] eqn:E; cbn [rmap] in H; try discriminate.
  injection H as <-.
  assert (Hi : st_sc f_init) by (repeat split; reflexivity).
  exact (proj1 (proj2 (proj2 (run_sc strict var s FNorm f_init st Hvar Hs I Hi E)))).
Qed.

(* ------------------------------------------------------------------ end to end *)
(* For every literal of Unicode text and every mix of codes: the JSON text FormattedText emits, read back token by
   token, displays exactly the text of the literal without its codes. *)
Theorem fmt_emit_displays strict var ni s j :
  sc var = true -> sc s = true -> fmt_emit strict var ni s = Ok j -> jt_read j = Some (fmt_plain FNorm s).
Proof.
  intros Hvar Hs H. unfold fmt_emit in H.
  destruct (fmt_parse strict var s) as [cs| | |] eqn:E; cbn [rmap] in H; try discriminate.
  injection H as <-. rewrite (render_read ni cs (parse_sc strict var s cs Hvar Hs E)).
  now rewrite (fmt_text_preserved strict var s cs E).
Qed.
