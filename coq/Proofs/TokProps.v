(* Proofs.TokProps — the statements of Props/C13.v and Props/C14.v that need a few proof steps on top of the
   lemmas of Proofs/Tok.v, Proofs/TokPos.v, Proofs/TokGuards.v (Props files only `exact` them). *)
From Coq Require Import ZArith NArith List Bool String.
From JMCV Require Import Model.Tok Model.TokPos Model.TokGuards Proofs.Tok Proofs.TokPos Proofs.TokGuards.
Import ListNotations.
Open Scope Z_scope.

Lemma p_C14_tok_pos : forall uni printable alms es asemi sub line col progs stmt t,
  parse uni printable alms es asemi sub line col = Ok progs -> In stmt progs -> In t stmt ->
  exists d r, sub = d ++ r /\ (t_line t, t_col t) = pos_after (line, col) d /\ token_src t r.
Proof.
  intros. destruct (parse_tokens_faithful _ _ _ _ _ _ _ _ _ _ _ H H0 H1) as [F _]. exact F.
Qed.

Lemma p_C14_tok_pos_in_file : forall uni printable alms es asemi file pre sub post progs stmt t,
  file = pre ++ sub ++ post ->
  parse uni printable alms es asemi sub (fst (pos_of file (List.length pre))) (snd (pos_of file (List.length pre))) = Ok progs ->
  In stmt progs -> In t stmt -> faithful file t.
Proof.
  intros uni printable alms es asemi file pre sub post progs stmt t Hf Hp H1 H2.
  assert (E : pos_of file (List.length pre) = pos_after (1, 1) pre).
  { unfold pos_of. rewrite Hf, firstn_app, Nat.sub_diag, firstn_all. simpl. rewrite app_nil_r. reflexivity. }
  rewrite E in Hp. destruct (pos_after (1, 1) pre) as [l c] eqn:Ep. simpl in Hp.
  destruct (parse_tokens_faithful _ _ _ _ _ _ _ _ _ _ _ Hp H1 H2) as [F _].
  eapply faithful_lift; eauto. rewrite Ep. exact F.
Qed.

Lemma p_C14_nested : forall uni printable h,
  (d_body h = 1 /\ d_arrow h = 1 /\ d_args h = 1) <->
  (forall file t, reach uni printable h file t -> faithful file t).
Proof.
  intros uni printable h. split.
  - intros [A [B C]] file t R. destruct (reach_faithful uni printable h file t A B C R) as [F _]. exact F.
  - apply handovers_must_add_one.
Qed.

Lemma p_C14_repaired_tree : forall uni printable file t,
  reach uni printable repaired file t -> faithful file t.
Proof. intros uni printable. apply (proj1 (p_C14_nested uni printable repaired)). repeat split. Qed.

Lemma p_C14_pinned_handover_refuted : forall uni printable,
  exists file t, reach uni printable pinned file t /\ ~ faithful file t.
Proof.
  intros uni printable. exists pfile, ptok. split; [apply pinned_reach|apply pinned_unfaithful].
Qed.

Lemma p_C14_diag_pos : forall uni printable alms es asemi sub line col d l c,
  parse uni printable alms es asemi sub line col = Diag d l c ->
  (exists d1 c1 r1, sub = d1 ++ c1 :: r1 /\ (l, c) = pos_after (line, col) d1) \/
  (d = DStringLineBreakEOF /\ (l, c + 1) = pos_after (line, col) sub) \/
  (d = DBracketNeverClosed /\ exists d0 p r, sub = d0 ++ p :: r /\ is_lparen p = true /\ (l, c) = pos_after (line, col) d0) \/
  (d = DExpectedSemicolon /\ exists t, faithful_from (line, col) sub t /\ (l, c) = cite_end printable t).
Proof.
  intros. apply parse_diag_pos in H. destruct H as [H|[H|[H|[E [t [[F _] Hc]]]]]]; auto.
  right. right. right. split; auto. exists t. auto.
Qed.

Lemma p_C13_tok_total : forall uni printable alms es asemi s line col,
  (exists progs, parse uni printable alms es asemi s line col = Ok progs) \/
  (exists d l c, parse uni printable alms es asemi s line col = Diag d l c).
Proof.
  intros. destruct (parse uni printable alms es asemi s line col) eqn:E; eauto.
  exfalso. eapply parse_never_crashes; eauto.
Qed.

Lemma p_C13_pinned_literal_refuted : forall uni printable,
  parse_gen uni false printable false true false (of_string "say ""\x"";"%string) 1 1 = Crash PySyntaxError.
Proof. intros. vm_compute. reflexivity. Qed.

Lemma p_C13_guard_sound : forall (A : Type) (l : list A) idx,
  (- zlen l <= idx /\ idx < zlen l -> exists x, py_index l idx = Ok x /\ In x l) /\
  (~ (- zlen l <= idx /\ idx < zlen l) -> py_index l idx = Crash IndexError).
Proof. intros. split; [apply py_index_ok|apply py_index_raises]. Qed.

Lemma p_C13_guard_facts : forall (A : Type) (l : list A) (x : A) k i,
  (0 <= k -> zlen (py_from l k) = Z.max 0 (zlen l - k)) /\
  (- zlen l <= i /\ i < zlen l -> exists l', py_del l i = Ok l' /\ zlen l' = zlen l - 1) /\
  zlen (py_append l x) = zlen l + 1 /\ zlen (py_insert l i x) = zlen l + 1.
Proof.
  intros. split; [apply py_from_len|]. split; [apply py_del_len|]. split; [apply py_append_len|apply py_insert_len].
Qed.
