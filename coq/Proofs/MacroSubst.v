(* Proofs.MacroSubst — property C16: parameter substitution leaves everything but whole KEYWORD tokens equal to a
   parameter alone; longest-name-first textual substitution in Hardcode.calc equals the whole-word hand expansion
   for every set of names (capture-free), while another order is not. *)
From Coq Require Import ZArith String List Bool Ascii Lia Permutation.
From JMCV Require Import Model.Layout Model.Macro Model.MacroSubst Proofs.LayoutAdj Proofs.MacroFacts.
Import ListNotations.

(* ================================================================== (A) parameters *)
Lemma param_expand_length params args body : length (param_expand params args body) = length body.
Proof. apply map_length. Qed.

Lemma param_expand_nth params args body i t :
  nth_error body i = Some t -> nth_error (param_expand params args body) i = Some (subst1 params args t).
Proof. intros H. unfold param_expand. rewrite nth_error_map, H. reflexivity. Qed.

(* tokens that are not KEYWORD (string literals of either quote kind, brackets, operators, commas) are copied *)
Lemma param_non_keyword_alone params args body i t :
  nth_error body i = Some t -> fst t <> KEYWORD ->
  nth_error (param_expand params args body) i = Some t.
Proof.
  intros H Hk. rewrite (param_expand_nth _ _ _ _ _ H). f_equal. unfold subst1. destruct (fst t); congruence.
Qed.

Lemma index_of_none s params : forall i, ~ In s params -> index_of s params i = None.
Proof.
  induction params as [|p r IH]; intros i Hn; [reflexivity|]. cbn.
  destruct (str_eqb s p) eqn:E.
  - exfalso. apply Hn. left. symmetry. apply str_eqb_eq. exact E.
  - apply IH. intros Hin. apply Hn. right. exact Hin.
Qed.

(* a KEYWORD that is not EQUAL to a parameter (a longer word containing one, another case, ...) is copied *)
Lemma param_other_word_alone params args body i t :
  nth_error body i = Some t -> ~ In (snd t) params ->
  nth_error (param_expand params args body) i = Some t.
Proof.
  intros H Hn. rewrite (param_expand_nth _ _ _ _ _ H). f_equal. unfold subst1.
  rewrite (index_of_none _ _ 0 Hn). destruct (fst t); reflexivity.
Qed.

Lemma index_of_first s params : forall i k,
  index_of s params i = Some k -> (i <= k)%nat /\ nth_error params (k - i) = Some s /\
  forall j, (j < k - i)%nat -> nth_error params j <> Some s.
Proof.
  induction params as [|p r IH]; intros i k H; [discriminate|]. cbn in H.
  destruct (str_eqb s p) eqn:E.
  - injection H as <-. apply str_eqb_eq in E. subst p. rewrite Nat.sub_diag. repeat split; [lia|].
    intros j Hj. lia.
  - destruct (IH _ _ H) as (Hle & Hnth & Hmin). split; [lia|].
    replace (k - i)%nat with (S (k - S i)) by lia. split; [exact Hnth|].
    intros j Hj. destruct j as [|j]; cbn.
    + intros Heq. injection Heq as ->. rewrite str_eqb_refl in E. discriminate.
    + apply Hmin. lia.
Qed.

(* a slot gets exactly the argument of the FIRST parameter with that name - whatever the argument's text is
   (also another parameter's name: nothing is scanned twice) *)
Lemma param_slot params args body i s k a :
  nth_error body i = Some (KEYWORD, s) -> index_of s params 0 = Some k -> nth_error args k = Some a ->
  nth_error (param_expand params args body) i = Some a.
Proof.
  intros H Hi Ha. rewrite (param_expand_nth _ _ _ _ _ H). f_equal. unfold subst1. cbn [fst snd]. rewrite Hi.
  apply nth_error_nth. exact Ha.
Qed.

Lemma param_expand_app params args b1 b2 :
  param_expand params args (b1 ++ b2) = param_expand params args b1 ++ param_expand params args b2.
Proof. apply map_app. Qed.

(* ================================================================== (B) Hardcode.calc *)
Arguments is_sep : simpl never.
Arguments is_digit : simpl never.
Definition no_sep (k : str) : Prop := Forall (fun c => is_sep c = false) k.
Definition occurs (k s : str) : Prop := exists a b, s = a ++ k ++ b.
(* what follows a word: nothing, or a separator *)
Definition sep_headed (r : str) : Prop := match r with [] => True | c :: _ => is_sep c = true end.

Lemma prefixb_app k r : prefixb k (k ++ r) = true.
Proof. induction k as [|c k IH]; cbn; [reflexivity|]. rewrite Ascii.eqb_refl. exact IH. Qed.

Lemma prefixb_true k : forall s, prefixb k s = true -> exists r, s = k ++ r.
Proof.
  induction k as [|c k IH]; intros s H; [exists s; reflexivity|].
  destruct s as [|d s]; [discriminate|]. cbn in H. apply andb_true_iff in H. destruct H as [Hc Hk].
  apply Ascii.eqb_eq in Hc. subst d. destruct (IH _ Hk) as (r & ->). exists r. reflexivity.
Qed.

Lemma rep_skip k v a : forall r, rep k v (length a) (a ++ r) = rep k v 0 r.
Proof. induction a as [|c a IH]; intros r; cbn; [destruct r; reflexivity|apply IH]. Qed.

Lemma rep_nil k v n : rep k v n [] = [].
Proof. reflexivity. Qed.

(* the key itself, followed by anything *)
Lemma rep_key k v r : k <> [] -> rep k v 0 (k ++ r) = v ++ rep k v 0 r.
Proof.
  intros Hk. destruct k as [|c k']; [congruence|].
  change ((c :: k') ++ r) with (c :: (k' ++ r)). cbn [rep].
  change (c :: k' ++ r) with ((c :: k') ++ r). rewrite prefixb_app.
  replace (length (c :: k') - 1)%nat with (length k') by (cbn [length]; lia). rewrite rep_skip. reflexivity.
Qed.

(* a separator is never the start of a name *)
Lemma rep_sep k v c r : k <> [] -> no_sep k -> is_sep c = true -> rep k v 0 (c :: r) = c :: rep k v 0 r.
Proof.
  intros Hk Hn Hc. destruct k as [|d k']; [congruence|]. cbn [rep].
  assert (E : prefixb (d :: k') (c :: r) = false).
  { cbn. destruct (Ascii.eqb_spec d c) as [->|]; [|reflexivity].
    inversion Hn as [|? ? Hd _]. congruence. }
  rewrite E. reflexivity.
Qed.

(* if a separator-free k is a prefix of s ++ r with r empty or separator-headed, it lies inside s *)
Lemma prefix_inside k : forall s r,
  no_sep k -> sep_headed r -> prefixb k (s ++ r) = true -> exists b, s = k ++ b.
Proof.
  induction k as [|c k IH]; intros s r Hn Hr H; [exists s; reflexivity|].
  destruct s as [|d s].
  - cbn in H. destruct r as [|e r]; [discriminate|]. cbn in H. apply andb_true_iff in H. destruct H as [He _].
    apply Ascii.eqb_eq in He. inversion Hn as [|? ? Hc _]. cbn in Hr. rewrite <- He in Hr. rewrite Hr in Hc. discriminate.
  - cbn in H. apply andb_true_iff in H. destruct H as [Hc Hk]. apply Ascii.eqb_eq in Hc. subst d.
    inversion Hn as [|? ? _ Hn']. destruct (IH s r Hn' Hr Hk) as (b & ->). exists b. reflexivity.
Qed.

(* a word that does not contain k is copied, and the scan continues behind it *)
Lemma rep_word_other k v : forall s r,
  k <> [] -> no_sep k -> sep_headed r -> ~ occurs k s -> rep k v 0 (s ++ r) = s ++ rep k v 0 r.
Proof.
  induction s as [|c s IH]; intros r Hk Hn Hr Ho; [reflexivity|].
  change ((c :: s) ++ r) with (c :: (s ++ r)). cbn [rep].
  destruct (prefixb k (c :: s ++ r)) eqn:E.
  - exfalso. destruct (prefix_inside k (c :: s) r Hn Hr E) as (b & Hb). apply Ho. exists [], b. exact Hb.
  - cbn. f_equal. apply IH; auto. intros (a & b & ->). apply Ho. exists (c :: a), b. reflexivity.
Qed.

Definition sub_word (k v w : str) : str := if str_eqb w k then v else w.

Lemma rep_word k v w r :
  k <> [] -> no_sep k -> sep_headed r -> (w = k \/ ~ occurs k w) ->
  rep k v 0 (w ++ r) = sub_word k v w ++ rep k v 0 r.
Proof.
  intros Hk Hn Hr [->|Ho]; unfold sub_word.
  - rewrite str_eqb_refl. apply rep_key. exact Hk.
  - destruct (str_eqb w k) eqn:E.
    + apply str_eqb_eq in E. subst w. exfalso. apply Ho. exists [], []. rewrite app_nil_r. reflexivity.
    + apply rep_word_other; assumption.
Qed.

(* ---- expressions as words separated by separators *)
Definition wexpr := (str * list (ascii * str))%type.
Definition tail_text (l : list (ascii * str)) : str := concat (map (fun cw => fst cw :: snd cw) l).
Definition seps_ok (l : list (ascii * str)) : Prop := Forall (fun cw => is_sep (fst cw) = true) l.
Definition words_of (p : wexpr) : list str := fst p :: map snd (snd p).

Lemma tail_sep_headed l : seps_ok l -> sep_headed (tail_text l).
Proof. intros H. destruct l as [|[c w] l]; cbn; [exact I|]. inversion H as [|? ? Hc _]. exact Hc. Qed.

Lemma rep_tail k v l :
  k <> [] -> no_sep k -> seps_ok l -> Forall (fun w => w = k \/ ~ occurs k w) (map snd l) ->
  rep k v 0 (tail_text l) = tail_text (map (fun cw => (fst cw, sub_word k v (snd cw))) l).
Proof.
  intros Hk Hn. induction l as [|[c w] l IH]; intros Hs Hw; [reflexivity|].
  inversion Hs as [|? ? Hc Hs']. inversion Hw as [|? ? Hw1 Hw']. subst. cbn in Hc, Hw1.
  change (tail_text ((c, w) :: l)) with (c :: (w ++ tail_text l)).
  rewrite (rep_sep k v c _ Hk Hn Hc).
  rewrite (rep_word k v w _ Hk Hn (tail_sep_headed _ Hs') Hw1). rewrite (IH Hs' Hw'). reflexivity.
Qed.

Lemma rep_expr k v (p : wexpr) :
  k <> [] -> no_sep k -> seps_ok (snd p) -> Forall (fun w => w = k \/ ~ occurs k w) (words_of p) ->
  replace_all k v (join_words p) = join_words (map_words (sub_word k v) p).
Proof.
  intros Hk Hn Hs Hw. destruct p as [w0 l]. unfold words_of in Hw. cbn [fst snd] in *.
  inversion Hw as [|? ? Hw0 Hwl]. subst.
  unfold replace_all. destruct k as [|c0 k0] eqn:Ek; [congruence|]. rewrite <- Ek in *.
  unfold join_words, map_words. cbn [fst snd].
  fold (tail_text l). rewrite (rep_word k v w0 _ Hk Hn (tail_sep_headed _ Hs) Hw0).
  rewrite (rep_tail k v l Hk Hn Hs Hwl). reflexivity.
Qed.

Lemma split_join s : join_words (split_words s) = s.
Proof.
  induction s as [|c s IH]; [reflexivity|]. cbn [split_words]. destruct (split_words s) as [w l] eqn:E.
  unfold join_words in *. cbn [fst snd] in *. destruct (is_sep c); cbn; rewrite IH; reflexivity.
Qed.

Lemma split_seps_ok s : seps_ok (snd (split_words s)).
Proof.
  induction s as [|c s IH]; [constructor|]. cbn [split_words]. destruct (split_words s) as [w l].
  destruct (is_sep c) eqn:E; cbn [snd] in *; [constructor; [exact E|exact IH]|exact IH].
Qed.

Lemma split_words_no_sep s : Forall no_sep (words_of (split_words s)).
Proof.
  induction s as [|c s IH]; [repeat constructor|]. cbn [split_words]. destruct (split_words s) as [w l].
  unfold words_of in *. cbn [fst snd] in *. inversion IH as [|? ? Hw Hl]. subst.
  destruct (is_sep c) eqn:E; cbn [fst snd map].
  - constructor; [constructor|]. constructor; assumption.
  - constructor; [|assumption]. constructor; assumption.
Qed.

(* ---- names *)
Definition has_non_digit (k : str) : Prop := Exists (fun c => is_digit c = false) k.
Definition key_ok (kv : str * str) : Prop :=
  fst kv <> [] /\ no_sep (fst kv) /\ has_non_digit (fst kv) /\ all_digits (snd kv) = true.
Definition keys_ok (nm : nums) : Prop := NoDup (map fst nm) /\ Forall key_ok nm.

(* a word of the expression: empty (between two separators), a number, or one of the names *)
Definition known_word (nm : nums) (w : str) : Prop := w = [] \/ all_digits w = true \/ In w (map fst nm).

Lemma occurs_length k s : occurs k s -> (length k <= length s)%nat.
Proof. intros (a & b & ->). rewrite !app_length. lia. Qed.

Lemma occurs_same_length k s : occurs k s -> length s = length k -> s = k.
Proof.
  intros (a & b & ->) H. rewrite !app_length in H.
  assert (a = []) by (destruct a; [reflexivity|cbn in H; lia]).
  assert (b = []) by (destruct b; [reflexivity|cbn in H; lia]). subst. rewrite app_nil_r. reflexivity.
Qed.

Lemma all_digits_forall w : all_digits w = true -> Forall (fun c => is_digit c = true) w.
Proof.
  destruct w as [|c w]; [discriminate|]. unfold all_digits. intros H.
  apply Forall_forall. apply (proj1 (forallb_forall _ _) H).
Qed.

Lemma digits_no_occurrence k w : has_non_digit k -> all_digits w = true -> ~ occurs k w.
Proof.
  intros Hk Hw (a & b & E). apply all_digits_forall in Hw. subst w.
  apply Exists_exists in Hk. destruct Hk as (c & Hin & Hc).
  rewrite Forall_forall in Hw. specialize (Hw c). rewrite Hw in Hc; [discriminate|].
  apply in_or_app. right. apply in_or_app. left. exact Hin.
Qed.

Lemma digits_not_key nm w : Forall key_ok nm -> all_digits w = true -> ~ In w (map fst nm).
Proof.
  intros Hok Hw Hin. apply in_map_iff in Hin. destruct Hin as ([k v] & E & Hin). cbn in E. subst k.
  rewrite Forall_forall in Hok. destruct (Hok _ Hin) as (_ & _ & Hnd & _). cbn in Hnd.
  apply (digits_no_occurrence w w Hnd Hw). exists [], []. rewrite app_nil_r. reflexivity.
Qed.

Lemma lookup_num_none nm w : ~ In w (map fst nm) -> lookup_num nm w = None.
Proof.
  induction nm as [|[k v] r IH]; intros H; [reflexivity|]. cbn. destruct (str_eqb k w) eqn:E.
  - apply str_eqb_eq in E. exfalso. apply H. left. exact E.
  - apply IH. intros Hin. apply H. right. exact Hin.
Qed.

Lemma lookup_num_in nm k v : NoDup (map fst nm) -> In (k, v) nm -> lookup_num nm k = Some v.
Proof.
  induction nm as [|[k' v'] r IH]; intros Hnd Hin; [contradiction|]. cbn in *.
  inversion Hnd as [|? ? Hnotin Hnd']. subst. destruct Hin as [E|Hin].
  - injection E as -> ->. rewrite str_eqb_refl. reflexivity.
  - destruct (str_eqb k' k) eqn:E.
    + apply str_eqb_eq in E. subst k'. exfalso. apply Hnotin. apply in_map_iff. exists (k, v). split; [reflexivity|exact Hin].
    + apply IH; assumption.
Qed.

Lemma lookup_num_perm nm nm' w : NoDup (map fst nm) -> Permutation nm nm' -> lookup_num nm w = lookup_num nm' w.
Proof.
  intros Hnd Hp.
  assert (Hnd' : NoDup (map fst nm')) by (eapply Permutation_NoDup; [apply Permutation_map; exact Hp|exact Hnd]).
  destruct (lookup_num nm w) as [v|] eqn:E.
  - assert (Hin : In (w, v) nm).
    { clear - E. induction nm as [|[k' v'] r IH]; [discriminate|]. cbn in E. destruct (str_eqb k' w) eqn:Ek.
      - injection E as ->. apply str_eqb_eq in Ek. subst. left. reflexivity.
      - right. apply IH. exact E. }
    symmetry. apply lookup_num_in; [exact Hnd'|]. eapply Permutation_in; eauto.
  - symmetry. apply lookup_num_none. intros Hin.
    assert (Hin' : In w (map fst nm)) by (eapply Permutation_in; [apply Permutation_sym, Permutation_map; exact Hp|exact Hin]).
    apply in_map_iff in Hin'. destruct Hin' as ([k v] & Ek & Hkv). cbn in Ek. subst k.
    rewrite (lookup_num_in _ _ _ Hnd Hkv) in E. discriminate.
Qed.

(* ---- descending order *)
Fixpoint desc (l : nums) : Prop :=
  match l with
  | [] => True
  | x :: r => Forall (fun y => (length (fst y) <= length (fst x))%nat) r /\ desc r
  end.

Lemma insert_desc_perm x l : Permutation (x :: l) (insert_desc x l).
Proof.
  induction l as [|y r IH]; [reflexivity|]. cbn. destruct (Nat.leb _ _); [reflexivity|].
  eapply perm_trans; [apply perm_swap|]. apply perm_skip. exact IH.
Qed.

Lemma sort_desc_perm l : Permutation l (sort_desc l).
Proof.
  induction l as [|x r IH]; [reflexivity|]. cbn. eapply perm_trans; [apply perm_skip; exact IH|apply insert_desc_perm].
Qed.

Lemma insert_desc_sorted x l : desc l -> desc (insert_desc x l).
Proof.
  induction l as [|y r IH]; intros H; [cbn; auto|]. cbn [insert_desc].
  destruct (Nat.leb (length (fst y)) (length (fst x))) eqn:E.
  - apply Nat.leb_le in E. cbn [desc]. destruct H as [Hy Hr]. split; [|split; assumption].
    constructor; [exact E|]. eapply Forall_impl; [|exact Hy]. cbn beta. intros a Ha. eapply Nat.le_trans; [exact Ha|exact E].
  - apply Nat.leb_gt in E. destruct H as [Hy Hr]. cbn [desc]. split; [|apply IH; exact Hr].
    eapply Permutation_Forall; [apply insert_desc_perm|]. constructor; [apply Nat.lt_le_incl; exact E|exact Hy].
Qed.

Lemma sort_desc_sorted l : desc (sort_desc l).
Proof. induction l as [|x r IH]; [exact I|]. cbn. apply insert_desc_sorted. exact IH. Qed.

(* ---- the induction over the sorted names *)
Definition cur_word (L : nums) (w : str) : Prop := w = [] \/ all_digits w = true \/ In w (map fst L).

Lemma sub_then_lookup k v L w :
  key_ok (k, v) -> Forall key_ok L -> ~ In k (map fst L) ->
  word_value L (sub_word k v w) = word_value ((k, v) :: L) w.
Proof.
  intros (_ & _ & Hnd & Hv) HL Hk. cbn in Hnd, Hv. unfold sub_word, word_value. cbn [lookup_num].
  destruct (str_eqb w k) eqn:E.
  - apply str_eqb_eq in E. subst w. rewrite str_eqb_refl.
    rewrite (lookup_num_none L v); [reflexivity|]. apply digits_not_key; assumption.
  - assert (E' : str_eqb k w = false).
    { destruct (str_eqb k w) eqn:E2; [|reflexivity]. apply str_eqb_eq in E2. subst. rewrite str_eqb_refl in E. discriminate. }
    rewrite E'. reflexivity.
Qed.

Lemma map_words_ext f g (p : wexpr) : (forall w, f w = g w) -> map_words f p = map_words g p.
Proof.
  intros H. destruct p as [w0 l]. unfold map_words. cbn [fst snd]. rewrite H. f_equal.
  apply map_ext. intros [c w]. cbn. rewrite H. reflexivity.
Qed.
Lemma map_words_id (p : wexpr) : map_words (fun w => w) p = p.
Proof.
  destruct p as [w0 l]. unfold map_words. cbn [fst snd]. f_equal.
  induction l as [|[c w] l IH]; cbn; [reflexivity|]. rewrite IH. reflexivity.
Qed.

Lemma subst_sorted : forall L (p : wexpr),
  NoDup (map fst L) -> Forall key_ok L -> desc L -> seps_ok (snd p) -> Forall (cur_word L) (words_of p) ->
  subst_in_order L (join_words p) = join_words (map_words (word_value L) p).
Proof.
  induction L as [|[k v] L IH]; intros p Hnd Hok Hd Hs Hw.
  - cbn [subst_in_order fold_left]. rewrite (map_words_ext (word_value []) (fun w => w)) by reflexivity.
    rewrite map_words_id. reflexivity.
  - cbn [subst_in_order fold_left fst snd].
    inversion Hnd as [|? ? Hknot Hnd']. inversion Hok as [|? ? Hkv Hok']. subst. destruct Hd as [Hlen Hd'].
    pose proof Hkv as (Hk & Hn & Hnondig & Hv). cbn [fst snd] in *.
    assert (Hcond : Forall (fun w => w = k \/ ~ occurs k w) (words_of p)).
    { eapply Forall_impl; [|exact Hw]. intros w [->|[Hdig|Hin]].
      - right. intros Ho. apply occurs_length in Ho. destruct k; [congruence|cbn in Ho; lia].
      - right. apply digits_no_occurrence; assumption.
      - cbn in Hin. destruct Hin as [<-|Hin]; [left; reflexivity|]. right. intros Ho.
        apply in_map_iff in Hin. destruct Hin as ([k' v'] & Ek & Hin'). cbn in Ek. subst k'.
        rewrite Forall_forall in Hlen. specialize (Hlen _ Hin'). cbn in Hlen.
        pose proof (occurs_length _ _ Ho).
        assert (w = k) by (apply occurs_same_length; [exact Ho|lia]). subst w.
        apply Hknot. apply in_map_iff. exists (k, v'). split; [reflexivity|exact Hin']. }
    rewrite (rep_expr k v p Hk Hn Hs Hcond).
    change (fold_left (fun acc kv => replace_all (fst kv) (snd kv) acc) L ?x) with (subst_in_order L x).
    rewrite IH; try assumption.
    + destruct p as [w0 l]. unfold map_words. cbn [fst snd]. f_equal.
      f_equal; [apply sub_then_lookup; assumption|].
      rewrite map_map. apply map_ext. intros [c w]. cbn. f_equal. apply sub_then_lookup; assumption.
    + destruct p as [w0 l]. unfold map_words. cbn [snd] in *.
      clear - Hs. induction Hs as [|[c w] l Hc Hl IHl]; cbn; constructor; assumption.
    + assert (Hone : forall w, cur_word ((k, v) :: L) w -> cur_word L (sub_word k v w)).
      { intros w Hc. unfold sub_word. destruct (str_eqb w k) eqn:E; [right; left; exact Hv|].
        destruct Hc as [->|[Hd0|Hin]]; [left; reflexivity|right; left; exact Hd0|].
        cbn in Hin. destruct Hin as [<-|Hin]; [rewrite str_eqb_refl in E; discriminate|right; right; exact Hin]. }
      destruct p as [w0 l]. unfold words_of, map_words in *. cbn [fst snd] in *.
      inversion Hw as [|? ? Hw0 Hwl]. subst. constructor; [apply Hone; exact Hw0|].
      rewrite map_map. cbn. clear - Hwl Hone. induction l as [|[c w] l IHl]; cbn; [constructor|].
      inversion Hwl. subst. constructor; [apply Hone; assumption|apply IHl; assumption].
Qed.

(* THE theorem: for every set of integer macros (distinct non-empty names without separator characters and not
   purely numeric, numeric values) and every expression whose words are numbers or names of the set, the
   longest-first textual substitution equals the whole-word hand expansion. *)
Theorem calc_longest_first nm e :
  keys_ok nm -> Forall (known_word nm) (words_of (split_words e)) -> calc_subst nm e = hand_calc nm e.
Proof.
  intros [Hnd Hok] Hw. unfold calc_subst, hand_calc.
  pose proof (sort_desc_perm nm) as Hp.
  assert (Hnd' : NoDup (map fst (sort_desc nm))) by (eapply Permutation_NoDup; [apply Permutation_map; exact Hp|exact Hnd]).
  assert (Hok' : Forall key_ok (sort_desc nm)) by (eapply Permutation_Forall; eauto).
  rewrite <- (split_join e) at 1.
  rewrite (subst_sorted (sort_desc nm) (split_words e) Hnd' Hok' (sort_desc_sorted nm) (split_seps_ok e)).
  - f_equal. destruct (split_words e) as [w0 l]. unfold map_words, word_value. cbn [fst snd].
    f_equal; [rewrite (lookup_num_perm nm _ w0 Hnd Hp); reflexivity|].
    apply map_ext. intros [c w]. cbn. rewrite (lookup_num_perm nm _ w Hnd Hp). reflexivity.
  - eapply Forall_impl; [|exact Hw]. intros w [->|[Hd|Hin]]; [left; reflexivity|right; left; exact Hd|].
    right. right. eapply Permutation_in; [apply Permutation_map; exact Hp|exact Hin].
Qed.

(* the order matters: substituting in descending ALPHABETICAL order (what `sorted(items, reverse=True)` without
   the length key does) captures a shorter name inside a longer one *)
Lemma calc_alphabetical_refuted :
  exists nm e, keys_ok nm /\ Forall (known_word nm) (words_of (split_words e)) /\
               subst_in_order (sort_alpha_desc nm) e <> hand_calc nm e /\ calc_subst nm e = hand_calc nm e.
Proof.
  exists [(s2l "A", s2l "2"); (s2l "B", s2l "3"); (s2l "AB", s2l "10")], (s2l "7*AB+A").
  assert (K : keys_ok [(s2l "A", s2l "2"); (s2l "B", s2l "3"); (s2l "AB", s2l "10")]).
  { split.
    - cbn. repeat constructor; cbn; intuition discriminate.
    - repeat constructor; cbn; try discriminate; try reflexivity;
        try (apply Exists_cons_hd; reflexivity). }
  assert (W : Forall (known_word [(s2l "A", s2l "2"); (s2l "B", s2l "3"); (s2l "AB", s2l "10")])
                     (words_of (split_words (s2l "7*AB+A")))).
  { replace (words_of (split_words (s2l "7*AB+A"))) with [s2l "7"; s2l "AB"; s2l "A"] by (vm_compute; reflexivity).
    constructor; [right; left; reflexivity|]. constructor; [right; right; cbn; auto|].
    constructor; [right; right; cbn; auto|constructor]. }
  split; [exact K|]. split; [exact W|]. split; [vm_compute; discriminate|]. apply calc_longest_first; assumption.
Qed.

(* without the hypothesis on the words the substitution is NOT the hand expansion: two names that happen to
   be adjacent parts of a longer unknown word are both replaced, and the result is accepted *)
Lemma calc_unknown_word_refuted :
  exists nm e, keys_ok nm /\ calc_text nm e = Some (s2l "12") /\ hand_calc nm e = e.
Proof.
  exists [(s2l "AB", s2l "1"); (s2l "C", s2l "2")], (s2l "ABC").
  split.
  - split; [cbn; repeat constructor; cbn; intuition discriminate|].
    repeat constructor; cbn; try discriminate; try reflexivity; try (apply Exists_cons_hd; reflexivity).
  - split; vm_compute; reflexivity.
Qed.
