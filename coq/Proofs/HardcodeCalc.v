(* Proofs/HardcodeCalc.v — C19: eval_expr / hardcode_parse_calc return the exact value of an integer
   expression tree printed by `iprint`. *)
From Coq Require Import ZArith String List Bool Ascii Arith Lia.
From Coq Require Import Decimal DecimalString DecimalPos DecimalN DecimalZ DecimalFacts.
From JMCV Require Import Base.Dec Model.StrOps Model.Hardcode Proofs.StrOps.
Import ListNotations.
Close Scope Z_scope.
Open Scope nat_scope.

(* ------------------------------------------------------------------ well-formed trees *)

Fixpoint wf (e : iexp) : Prop :=
  match e with
  | INum n => (0 <= n)%Z
  | INeg a => wf a
  | IBin _ a b => wf a /\ wf b
  end.

Lemma ieval_wf e z : ieval e = Some z -> wf e.
Proof.
  revert z. induction e as [n | a IH | o a IHa b IHb]; intros z H; cbn in *.
  - destruct (0 <=? n)%Z eqn:E; [now apply Z.leb_le | discriminate].
  - destruct (ieval a); [eauto | discriminate].
  - destruct (ieval a), (ieval b); try discriminate. eauto.
Qed.

(* ------------------------------------------------------------------ decimal numerals *)

Definition dchar (c : ascii) : Prop := is_digit c = true.
Fixpoint all_chars (P : ascii -> Prop) (s : string) : Prop :=
  match s with EmptyString => True | String c r => P c /\ all_chars P r end.

Lemma all_chars_app P a b : all_chars P a -> all_chars P b -> all_chars P (a ++ b).
Proof. induction a as [|c a IH]; cbn; [auto | intros [H1 H2] Hb; split; auto]. Qed.
Lemma all_chars_impl (P Q : ascii -> Prop) s : (forall c, P c -> Q c) -> all_chars P s -> all_chars Q s.
Proof. intros HPQ. induction s as [|c s IH]; cbn; [auto | intros [H1 H2]; split; auto]. Qed.

Lemma string_of_uint_digits d : all_chars dchar (NilEmpty.string_of_uint d).
Proof. induction d; cbn; auto; split; auto; reflexivity. Qed.

Lemma nzhead_not_D0 d r : nzhead d <> D0 r.
Proof. induction d; cbn; try discriminate. exact IHd. Qed.

Lemma unorm_D0_inv d r : unorm d = D0 r -> r = Nil.
Proof.
  unfold unorm. destruct (nzhead d) eqn:E; intros H; try discriminate.
  - now injection H as <-.
  - exfalso. exact (nzhead_not_D0 d _ E).
Qed.

Lemma to_uint_not_D0 p r : Pos.to_uint p <> D0 r.
Proof.
  intros H.
  pose proof (DecimalPos.Unsigned.to_of (Pos.to_uint p)) as Hto.
  rewrite DecimalPos.Unsigned.of_to in Hto. cbn [N.to_uint] in Hto.
  rewrite H in Hto. symmetry in Hto. apply unorm_D0_inv in Hto. subst r.
  exact (Unsigned.to_uint_nonzero p H).
Qed.

Lemma of_uint_to_uint p : Z.of_uint (Pos.to_uint p) = Z.pos p.
Proof. unfold Z.of_uint. now rewrite DecimalPos.Unsigned.of_to. Qed.

(* the decimal text of a natural number: its digits, and the token they lex to *)
Lemma z_dec_nonneg n :
  (0 <= n)%Z ->
  exists d, z_dec n = NilEmpty.string_of_uint d /\ d <> Nil /\ num_tok d = TNum n.
Proof.
  intros Hn. destruct n as [|p|p]; [| |lia].
  - exists (D0 Nil). repeat split; try discriminate.
  - exists (Pos.to_uint p). unfold z_dec. cbn [Z.to_int NilZero.string_of_int].
    pose proof (Unsigned.to_uint_nonnil p) as Hnn.
    split; [|split; [exact Hnn|]].
    + unfold NilZero.string_of_uint. destruct (Pos.to_uint p) eqn:E; [congruence | reflexivity ..].
    + unfold num_tok. destruct (Pos.to_uint p) eqn:E; try (rewrite <- E, of_uint_to_uint; reflexivity).
      exfalso. exact (to_uint_not_D0 p _ E).
Qed.

Lemma string_of_uint_nonempty d : d <> Nil -> exists c r, NilEmpty.string_of_uint d = String c r /\ dchar c.
Proof. destruct d; intros H; try congruence; cbn; eauto 6; eexists; eexists; split; reflexivity. Qed.

(* ------------------------------------------------------------------ backslash -> "//" *)

Definition bs : ascii := "\"%char.
Definition nobs (c : ascii) : Prop := Ascii.eqb bs c = false.

Lemma repl_bs_cons c r :
  repl backslash "//" 0 (String c r) =
  if Ascii.eqb bs c then ("//" ++ repl backslash "//" 0 r)%string else String c (repl backslash "//" 0 r).
Proof. unfold backslash. cbn [repl prefixb String.length Nat.sub]. fold bs. destruct (Ascii.eqb bs c); reflexivity. Qed.

Lemma repl_bs_app a b :
  repl backslash "//" 0 (a ++ b) = (repl backslash "//" 0 a ++ repl backslash "//" 0 b)%string.
Proof.
  induction a as [|c a IH]; [reflexivity|].
  cbn [append]. rewrite !repl_bs_cons. destruct (Ascii.eqb bs c); cbn [append]; now rewrite IH.
Qed.

Lemma repl_bs_id s : all_chars nobs s -> repl backslash "//" 0 s = s.
Proof.
  induction s as [|c s IH]; [reflexivity|]. intros [Hc Hs]. rewrite repl_bs_cons.
  unfold nobs in Hc. rewrite Hc. now rewrite IH.
Qed.

Lemma dchar_nobs c : dchar c -> nobs c.
Proof.
  unfold dchar, nobs, is_digit, digit_of, bs. intros H.
  destruct (Ascii.eqb "\" c) eqn:E; [|reflexivity].
  apply Ascii.eqb_eq in E. subst c. discriminate.
Qed.

Definition iop_str2 (o : iop) : string :=
  match o with
  | IAdd => "+" | ISub => "-" | IMul => "*" | IFloorDiv => "//" | IMod => "%" | IPow => "**"
  end.
Fixpoint iprint2 (e : iexp) : string :=
  match e with
  | INum n => z_dec n
  | INeg a => ("(-" ++ iprint2 a ++ ")")%string
  | IBin o a b => ("(" ++ iprint2 a ++ iop_str2 o ++ iprint2 b ++ ")")%string
  end.

Lemma z_dec_digits n : (0 <= n)%Z -> all_chars dchar (z_dec n).
Proof. intros H. destruct (z_dec_nonneg n H) as (d & -> & _ & _). apply string_of_uint_digits. Qed.

Lemma repl_bs_iprint e : wf e -> repl backslash "//" 0 (iprint e) = iprint2 e.
Proof.
  induction e as [n | a IH | o a IHa b IHb]; cbn [wf iprint iprint2].
  - intros H. apply repl_bs_id. eapply all_chars_impl; [apply dchar_nobs | now apply z_dec_digits].
  - intros H. rewrite !repl_bs_app, IH by assumption. reflexivity.
  - intros [Ha Hb]. rewrite !repl_bs_app, IHa, IHb by assumption.
    destruct o; reflexivity.
Qed.

(* ------------------------------------------------------------------ lexing *)

Definition optok (o : iop) : tok :=
  match o with
  | IAdd => TPlus | ISub => TMinus | IMul => TStar | IFloorDiv => TDSlash | IMod => TPct | IPow => TDStar
  end.
Fixpoint toks (e : iexp) : list tok :=
  match e with
  | INum n => [TNum n]
  | INeg a => TLP :: TMinus :: toks a ++ [TRP]
  | IBin o a b => TLP :: toks a ++ optok o :: toks b ++ [TRP]
  end.

(* what may follow a numeral: not a digit *)
Definition no_digit_head (s : string) : Prop :=
  match s with EmptyString => True | String c _ => is_digit c = false end.

Lemma lex_digits_no_digit s : no_digit_head s -> lex_digits s = (Nil, s).
Proof. destruct s as [|c s]; cbn; [reflexivity|]. unfold is_digit. destruct (digit_of c); [discriminate | reflexivity]. Qed.

Lemma lex_digits_uint d rest :
  no_digit_head rest -> lex_digits (NilEmpty.string_of_uint d ++ rest) = (d, rest).
Proof.
  intros Hr. induction d; cbn [NilEmpty.string_of_uint append];
    [now apply lex_digits_no_digit | ..];
    cbn [lex_digits digit_of]; rewrite IHd; reflexivity.
Qed.

(* the first character of a printed tree is a digit or "(" *)
Definition head_ok (s : string) : Prop :=
  exists c r, s = String c r /\ (is_digit c = true \/ c = "("%char).
Lemma iprint2_head e : wf e -> head_ok (iprint2 e).
Proof.
  destruct e as [n | a | o a b]; cbn [wf iprint2]; intros H.
  - destruct (z_dec_nonneg n H) as (d & -> & Hd & _).
    destruct (string_of_uint_nonempty d Hd) as (c & r & -> & Hc). exists c, r. split; [reflexivity | now left].
  - eexists; eexists; split; [reflexivity | now right].
  - eexists; eexists; split; [reflexivity | now right].
Qed.

Lemma lex_S f c r :
  lex (S f) (String c r) =
  if is_blank c then lex f r
  else if is_digit c then let '(d, rest) := lex_digits (String c r) in num_tok d :: lex f rest
  else match c with
       | "+"%char => TPlus :: lex f r
       | "-"%char => TMinus :: lex f r
       | "%"%char => TPct :: lex f r
       | "("%char => TLP :: lex f r
       | ")"%char => TRP :: lex f r
       | "*"%char => match r with
                     | String "*"%char r' => TDStar :: lex f r'
                     | _ => TStar :: lex f r
                     end
       | "/"%char => match r with
                     | String "/"%char r' => TDSlash :: lex f r'
                     | _ => TSlash :: lex f r
                     end
       | _ => TBad :: lex f r
       end.
Proof. reflexivity. Qed.

Lemma digit_not_blank c : is_digit c = true -> is_blank c = false.
Proof.
  unfold is_digit, digit_of, is_blank. intros H.
  destruct (Ascii.eqb c " ") eqn:E1; [apply Ascii.eqb_eq in E1; subst; discriminate|].
  destruct (Ascii.eqb c "009") eqn:E2; [apply Ascii.eqb_eq in E2; subst; discriminate|].
  destruct (Ascii.eqb c "010") eqn:E3; [apply Ascii.eqb_eq in E3; subst; discriminate|].
  reflexivity.
Qed.

(* a numeral followed by a non-digit lexes to its number *)
Lemma lex_num f n rest :
  (0 <= n)%Z -> no_digit_head rest ->
  lex (S f) (z_dec n ++ rest) = TNum n :: lex f rest.
Proof.
  intros Hn Hr. destruct (z_dec_nonneg n Hn) as (d & Hz & Hd & Ht). rewrite Hz.
  destruct (string_of_uint_nonempty d Hd) as (c & r & Hs & Hc).
  pose proof (lex_digits_uint d rest Hr) as HL.
  rewrite Hs in *. cbn [append] in *. rewrite lex_S.
  rewrite (digit_not_blank c Hc). unfold dchar in Hc. rewrite Hc. rewrite HL. now rewrite Ht.
Qed.

Definition not_star_head (s : string) : Prop := match s with String "*"%char _ => False | _ => True end.
Definition not_slash_head (s : string) : Prop := match s with String "/"%char _ => False | _ => True end.

Lemma head_ok_not_star s rest : head_ok s -> not_star_head (s ++ rest).
Proof. intros (c & r & -> & [H | ->]); cbn; [|exact I]. destruct c as [[] [] [] [] [] [] [] []]; try exact I; discriminate. Qed.
Lemma head_ok_not_slash s rest : head_ok s -> not_slash_head (s ++ rest).
Proof. intros (c & r & -> & [H | ->]); cbn; [|exact I]. destruct c as [[] [] [] [] [] [] [] []]; try exact I; discriminate. Qed.

Lemma lex_lp f r : lex (S f) (String "("%char r) = TLP :: lex f r. Proof. reflexivity. Qed.
Lemma lex_rp f r : lex (S f) (String ")"%char r) = TRP :: lex f r. Proof. reflexivity. Qed.
Lemma lex_plus f r : lex (S f) (String "+"%char r) = TPlus :: lex f r. Proof. reflexivity. Qed.
Lemma lex_minus f r : lex (S f) (String "-"%char r) = TMinus :: lex f r. Proof. reflexivity. Qed.
Lemma lex_pct f r : lex (S f) (String "%"%char r) = TPct :: lex f r. Proof. reflexivity. Qed.
Lemma lex_dstar f r : lex (S f) (String "*"%char (String "*"%char r)) = TDStar :: lex f r. Proof. reflexivity. Qed.
Lemma lex_dslash f r : lex (S f) (String "/"%char (String "/"%char r)) = TDSlash :: lex f r. Proof. reflexivity. Qed.
Lemma lex_star f r : not_star_head r -> lex (S f) (String "*"%char r) = TStar :: lex f r.
Proof.
  intros H. destruct r as [|c r]; [reflexivity|].
  destruct c as [[] [] [] [] [] [] [] []]; try reflexivity. contradiction.
Qed.

Lemma lex_print e : wf e -> forall g rest,
  no_digit_head rest ->
  lex (length (toks e) + g) (iprint2 e ++ rest) = toks e ++ lex g rest.
Proof.
  induction e as [n | a IH | o a IHa b IHb]; cbn [wf iprint2 toks]; intros Hw g rest Hr.
  - cbn [length Nat.add]. now rewrite lex_num.
  - replace (length (TLP :: TMinus :: toks a ++ [TRP]) + g) with (S (S (length (toks a) + S g)))
      by (cbn [length]; rewrite app_length; cbn [length]; lia).
    rewrite !sapp_assoc. cbn [append]. rewrite lex_lp, lex_minus.
    rewrite IH; [|assumption|reflexivity]. cbn [append]. rewrite lex_rp.
    rewrite <- !app_comm_cons, <- app_assoc. reflexivity.
  - destruct Hw as [Ha Hb].
    replace (length (TLP :: toks a ++ optok o :: toks b ++ [TRP]) + g)
      with (S (length (toks a) + S (length (toks b) + S g)))
      by (cbn [length]; rewrite app_length; cbn [length]; rewrite app_length; cbn [length]; lia).
    rewrite !sapp_assoc. cbn [append]. rewrite lex_lp.
    rewrite IHa; [|assumption|destruct o; reflexivity].
    assert (Hb' : forall k, lex (length (toks b) + S k) (iprint2 b ++ ")" ++ rest) = toks b ++ TRP :: lex k rest).
    { intros k. rewrite IHb; [|assumption|reflexivity]. cbn [append]. now rewrite lex_rp. }
    pose proof (head_ok_not_star (iprint2 b) (")" ++ rest) (iprint2_head b Hb)) as Hns.
    assert (Hop : lex (S (length (toks b) + S g)) (iop_str2 o ++ iprint2 b ++ ")" ++ rest) =
                  optok o :: toks b ++ TRP :: lex g rest).
    { destruct o; cbn [iop_str2 optok append].
      - now rewrite lex_plus, Hb'.
      - now rewrite lex_minus, Hb'.
      - now rewrite lex_star, Hb'.
      - now rewrite lex_dslash, Hb'.
      - now rewrite lex_pct, Hb'.
      - now rewrite lex_dstar, Hb'. }
    cbn [append] in Hop. rewrite Hop. rewrite <- !app_comm_cons, <- !app_assoc, <- !app_comm_cons, <- !app_assoc. reflexivity.
Qed.

(* ------------------------------------------------------------------ parsing *)

Definition binop_of (o : iop) : binop :=
  match o with
  | IAdd => OAdd | ISub => OSub | IMul => OMul | IFloorDiv => OFloorDiv | IMod => OMod | IPow => OPow
  end.
Fixpoint ast_of (e : iexp) : ast :=
  match e with
  | INum n => ANum n
  | INeg a => ANeg (ast_of a)
  | IBin o a b => ABin (binop_of o) (ast_of a) (ast_of b)
  end.

(* fuel that certainly suffices for p_primary on the tokens of e *)
Fixpoint nf (e : iexp) : nat :=
  match e with
  | INum _ => 2
  | INeg a => nf a + 5
  | IBin _ a b => nf a + nf b + 6
  end.

Lemma nf_bound e : nf e <= 8 * length (toks e).
Proof.
  induction e as [n | a IH | o a IHa b IHb]; cbn [nf toks length].
  - lia.
  - rewrite app_length. cbn [length]. lia.
  - rewrite app_length. cbn [length]. rewrite app_length. cbn [length]. lia.
Qed.

Definition is_lp (t : tok) : bool := match t with TLP => true | _ => false end.
Definition is_dstar (t : tok) : bool := match t with TDStar => true | _ => false end.
Definition is_termop (t : tok) : bool := match t with TStar | TSlash | TDSlash | TPct => true | _ => false end.
Definition is_sumop (t : tok) : bool := match t with TPlus | TMinus => true | _ => false end.
Definition nohead (P : tok -> bool) (l : list tok) : Prop :=
  match l with [] => True | t :: _ => P t = false end.
(* what follows a complete parenthesised sum: the closing parenthesis or the end *)
Definition closer (l : list tok) : Prop := match l with [] => True | TRP :: _ => True | _ => False end.

Lemma closer_nohead P l : P TRP = false -> closer l -> nohead P l.
Proof. intros HP. destruct l as [|t l]; cbn; [auto|]. destruct t; try contradiction. auto. Qed.

(* the first token of a printed tree is a number or "(" *)
Definition atom_start (l : list tok) : Prop :=
  match l with TNum _ :: _ => True | TLP :: _ => True | _ => False end.
Lemma toks_start e rest : atom_start (toks e ++ rest).
Proof. destruct e; cbn; exact I. Qed.

(* one-step unfoldings *)
Lemma p_sum_S f ts :
  p_sum (S f) ts = match p_term f ts with Some (a, r) => p_sum_loop f a r | None => None end.
Proof. reflexivity. Qed.
Lemma p_term_S f ts :
  p_term (S f) ts = match p_factor f ts with Some (a, r) => p_term_loop f a r | None => None end.
Proof. reflexivity. Qed.
Lemma p_factor_atom f ts : atom_start ts ->
  p_factor (S f) ts =
  match p_primary f ts with
  | Some (a, TDStar :: r) =>
      match p_factor f r with Some (b, r') => Some (ABin OPow a b, r') | None => None end
  | other => other
  end.
Proof. destruct ts as [|t ts]; [contradiction|]. destruct t; try contradiction; reflexivity. Qed.
Lemma p_factor_minus f r :
  p_factor (S f) (TMinus :: r) = match p_factor f r with Some (a, r') => Some (ANeg a, r') | None => None end.
Proof. reflexivity. Qed.
Lemma p_primary_num f z r : p_primary (S f) (TNum z :: r) = p_calls f (ANum z) r.
Proof. reflexivity. Qed.
Lemma p_primary_paren f Y : nohead (fun t => match t with TRP => true | _ => false end) Y ->
  p_primary (S f) (TLP :: Y) =
  match p_sum f Y with Some (a, TRP :: r') => p_calls f a r' | _ => None end.
Proof. destruct Y as [|t Y]; [reflexivity|]. destruct t; cbn; try reflexivity. discriminate. Qed.

Lemma p_calls_stop f a rest : 1 <= f -> nohead is_lp rest -> p_calls f a rest = Some (a, rest).
Proof.
  intros Hf Hr. destruct f as [|f]; [lia|].
  destruct rest as [|t r]; [reflexivity|]. destruct t; try reflexivity. discriminate.
Qed.
Lemma p_term_loop_stop f a rest : 1 <= f -> nohead is_termop rest -> p_term_loop f a rest = Some (a, rest).
Proof.
  intros Hf Hr. destruct f as [|f]; [lia|].
  destruct rest as [|t r]; [reflexivity|]. destruct t; try reflexivity; discriminate.
Qed.
Lemma p_sum_loop_stop f a rest : 1 <= f -> nohead is_sumop rest -> p_sum_loop f a rest = Some (a, rest).
Proof.
  intros Hf Hr. destruct f as [|f]; [lia|].
  destruct rest as [|t r]; [reflexivity|]. destruct t; try reflexivity; discriminate.
Qed.

Section ParseTree.
  (* what is known about one tree (the induction hypothesis of the main lemma) *)
  Variable e : iexp.
  Hypothesis A : forall rest f, nf e <= f -> nohead is_lp rest ->
                                p_primary f (toks e ++ rest) = Some (ast_of e, rest).

  Lemma factor_of_primary rest f :
    nf e + 1 <= f -> nohead is_lp rest -> nohead is_dstar rest ->
    p_factor f (toks e ++ rest) = Some (ast_of e, rest).
  Proof.
    intros Hf H1 H2. destruct f as [|f]; [lia|].
    rewrite p_factor_atom by apply toks_start. rewrite A by (assumption || lia).
    destruct rest as [|t r]; [reflexivity|]. destruct t; try reflexivity. discriminate.
  Qed.

  Lemma term_of_primary rest f :
    nf e + 3 <= f -> nohead is_lp rest -> nohead is_dstar rest -> nohead is_termop rest ->
    p_term f (toks e ++ rest) = Some (ast_of e, rest).
  Proof.
    intros Hf H1 H2 H3. destruct f as [|f]; [lia|].
    rewrite p_term_S, factor_of_primary by (assumption || lia).
    apply p_term_loop_stop; [lia | assumption].
  Qed.

  Lemma sum_of_primary rest f :
    nf e + 5 <= f -> closer rest ->
    p_sum f (toks e ++ rest) = Some (ast_of e, rest).
  Proof.
    intros Hf Hc. destruct f as [|f]; [lia|].
    rewrite p_sum_S, term_of_primary by (try lia; apply closer_nohead; auto).
    apply p_sum_loop_stop; [lia | apply closer_nohead; auto].
  Qed.
End ParseTree.

Lemma app_cons_assoc {A} (l : list A) x r rest : (l ++ x :: r) ++ rest = l ++ x :: (r ++ rest).
Proof. now rewrite <- app_assoc. Qed.

Lemma primary_tree e : forall rest f,
  nf e <= f -> nohead is_lp rest -> p_primary f (toks e ++ rest) = Some (ast_of e, rest).
Proof.
  induction e as [n | a IH | o a IHa b IHb]; intros rest f Hf Hr; cbn [nf toks ast_of] in *.
  - destruct f as [|f]; [lia|]. cbn [List.app]. rewrite p_primary_num. apply p_calls_stop; [lia | assumption].
  - (* ( - a ) *)
    destruct f as [|f1]; [lia|].
    rewrite <- !app_comm_cons, <- app_assoc. cbn [List.app].
    rewrite p_primary_paren by reflexivity.
    destruct f1 as [|f2]; [lia|]. rewrite p_sum_S.
    destruct f2 as [|f3]; [lia|]. rewrite p_term_S.
    destruct f3 as [|f4]; [lia|]. rewrite p_factor_minus.
    rewrite (factor_of_primary a IH) by (try lia; reflexivity).
    rewrite p_term_loop_stop by (try lia; reflexivity).
    rewrite p_sum_loop_stop by (try lia; reflexivity).
    apply p_calls_stop; [lia | assumption].
  - (* ( a op b ) *)
    destruct f as [|f1]; [lia|].
    rewrite <- !app_comm_cons. rewrite app_cons_assoc. rewrite <- app_assoc. cbn [List.app].
    rewrite p_primary_paren.
    2:{ pose proof (toks_start a (optok o :: toks b ++ TRP :: rest)) as Hs.
        destruct (toks a ++ optok o :: toks b ++ TRP :: rest) as [|t l]; [exact I|].
        destruct t; try contradiction; reflexivity. }
    destruct f1 as [|f2]; [lia|]. rewrite p_sum_S.
    destruct f2 as [|f3]; [lia|]. rewrite p_term_S.
    destruct f3 as [|f4]; [lia|]. rewrite p_factor_atom by apply toks_start.
    rewrite IHa by (try lia; destruct o; reflexivity).
    destruct o; cbn [optok binop_of].
    + (* + *)
      rewrite p_term_loop_stop by (try lia; reflexivity).
      change (p_sum_loop (S (S f4)) (ast_of a) (TPlus :: toks b ++ TRP :: rest))
        with (match p_term (S f4) (toks b ++ TRP :: rest) with
              | Some (b0, r') => p_sum_loop (S f4) (ABin OAdd (ast_of a) b0) r' | None => None end).
      rewrite (term_of_primary b IHb) by (try lia; reflexivity).
      rewrite p_sum_loop_stop by (try lia; reflexivity).
      apply p_calls_stop; [lia | assumption].
    + rewrite p_term_loop_stop by (try lia; reflexivity).
      change (p_sum_loop (S (S f4)) (ast_of a) (TMinus :: toks b ++ TRP :: rest))
        with (match p_term (S f4) (toks b ++ TRP :: rest) with
              | Some (b0, r') => p_sum_loop (S f4) (ABin OSub (ast_of a) b0) r' | None => None end).
      rewrite (term_of_primary b IHb) by (try lia; reflexivity).
      rewrite p_sum_loop_stop by (try lia; reflexivity).
      apply p_calls_stop; [lia | assumption].
    + (* * *)
      change (p_term_loop (S f4) (ast_of a) (TStar :: toks b ++ TRP :: rest))
        with (match p_factor f4 (toks b ++ TRP :: rest) with
              | Some (b0, r') => p_term_loop f4 (ABin OMul (ast_of a) b0) r' | None => None end).
      rewrite (factor_of_primary b IHb) by (try lia; reflexivity).
      rewrite p_term_loop_stop by (try lia; reflexivity).
      rewrite p_sum_loop_stop by (try lia; reflexivity).
      apply p_calls_stop; [lia | assumption].
    + change (p_term_loop (S f4) (ast_of a) (TDSlash :: toks b ++ TRP :: rest))
        with (match p_factor f4 (toks b ++ TRP :: rest) with
              | Some (b0, r') => p_term_loop f4 (ABin OFloorDiv (ast_of a) b0) r' | None => None end).
      rewrite (factor_of_primary b IHb) by (try lia; reflexivity).
      rewrite p_term_loop_stop by (try lia; reflexivity).
      rewrite p_sum_loop_stop by (try lia; reflexivity).
      apply p_calls_stop; [lia | assumption].
    + change (p_term_loop (S f4) (ast_of a) (TPct :: toks b ++ TRP :: rest))
        with (match p_factor f4 (toks b ++ TRP :: rest) with
              | Some (b0, r') => p_term_loop f4 (ABin OMod (ast_of a) b0) r' | None => None end).
      rewrite (factor_of_primary b IHb) by (try lia; reflexivity).
      rewrite p_term_loop_stop by (try lia; reflexivity).
      rewrite p_sum_loop_stop by (try lia; reflexivity).
      apply p_calls_stop; [lia | assumption].
    + (* ** *)
      rewrite (factor_of_primary b IHb) by (try lia; reflexivity).
      rewrite p_term_loop_stop by (try lia; reflexivity).
      rewrite p_sum_loop_stop by (try lia; reflexivity).
      apply p_calls_stop; [lia | assumption].
Qed.

(* ------------------------------------------------------------------ evaluation *)

Lemma eval_tree e z : ieval e = Some z -> eval_ast (ast_of e) = EV (VI z).
Proof.
  revert z. induction e as [n | a IH | o a IHa b IHb]; intros z H; cbn [ieval ast_of eval_ast] in *.
  - destruct (0 <=? n)%Z; [now injection H as <- | discriminate].
  - destruct (ieval a) as [x|]; [|discriminate]. injection H as <-. now rewrite (IH x eq_refl).
  - destruct (ieval a) as [x|]; [|discriminate]. destruct (ieval b) as [y|]; [|discriminate].
    rewrite (IHa x eq_refl), (IHb y eq_refl).
    destruct o; cbn [binop_of apply_bin]; try (now injection H as <-).
    + destruct (y =? 0)%Z; [discriminate | now injection H as <-].
    + destruct (y =? 0)%Z; [discriminate | now injection H as <-].
    + destruct (0 <=? y)%Z; [now injection H as <- | discriminate].
Qed.

Lemma no_bad_toks e : existsb (fun t => match t with TBad => true | _ => false end) (toks e) = false.
Proof.
  induction e as [n | a IH | o a IHa b IHb]; cbn [toks existsb]; [reflexivity|..].
  - rewrite existsb_app, IH. reflexivity.
  - rewrite existsb_app, IHa. cbn [existsb]. rewrite existsb_app, IHb. destruct o; reflexivity.
Qed.

(* the whole argument of Hardcode.calc: "(" tree ")" *)
Lemma parse_wrapped e :
  parse_expr (TLP :: toks e ++ [TRP]) = Some (ast_of e).
Proof.
  unfold parse_expr.
  replace (existsb _ (TLP :: toks e ++ [TRP])) with false.
  2:{ cbn [existsb]. rewrite existsb_app, no_bad_toks. reflexivity. }
  pose proof (nf_bound e) as Hb.
  assert (Hlen : length (TLP :: toks e ++ [TRP]) = length (toks e) + 2)
    by (cbn [length]; rewrite app_length; cbn [length]; lia).
  rewrite Hlen.
  remember (8 * S (length (toks e) + 2)) as F eqn:HF.
  assert (HFb : nf e + 10 <= F) by lia. clear HF Hlen.
  destruct F as [|f1]; [lia|]. rewrite p_sum_S.
  destruct f1 as [|f2]; [lia|]. rewrite p_term_S.
  destruct f2 as [|f3]; [lia|]. rewrite p_factor_atom by exact I.
  destruct f3 as [|f4]; [lia|]. rewrite p_primary_paren.
  2:{ pose proof (toks_start e [TRP]) as Hs. destruct (toks e ++ [TRP]) as [|t l]; [exact I|].
      destruct t; try contradiction; reflexivity. }
  rewrite (sum_of_primary e (primary_tree e)) by (try lia; exact I).
  rewrite p_calls_stop by (try lia; exact I).
  rewrite p_term_loop_stop by (try lia; exact I).
  rewrite p_sum_loop_stop by (try lia; exact I).
  reflexivity.
Qed.

Lemma eval_expr_exact :
  forall e z, ieval e = Some z ->
    eval_expr ("(" ++ iprint e ++ ")") = COk (z_dec z).
Proof.
  intros e z H. pose proof (ieval_wf e z H) as Hw. unfold eval_expr.
  assert (Hs : replace_all backslash "//" ("(" ++ iprint e ++ ")") = ("(" ++ iprint2 e ++ ")")%string).
  { unfold replace_all, backslash at 1. rewrite !repl_bs_app, repl_bs_iprint by assumption. reflexivity. }
  rewrite Hs.
  assert (Hl : lex (S (String.length ("(" ++ iprint2 e ++ ")"))) ("(" ++ iprint2 e ++ ")") = TLP :: toks e ++ [TRP]).
  { cbn [append String.length]. rewrite lex_lp.
    rewrite slength_app. cbn [String.length].
    pose proof (lex_print e Hw (S (S (String.length (iprint2 e)) - length (toks e))) ")" eq_refl) as HL.
    (* enough fuel: at least one character per token *)
    assert (Hle : length (toks e) <= String.length (iprint2 e)).
    { clear - Hw. induction e as [n | a IH | o a IHa b IHb]; cbn [toks iprint2 length wf] in *.
      - destruct (z_dec_nonneg n Hw) as (d & -> & Hd & _).
        destruct (string_of_uint_nonempty d Hd) as (c & r & -> & _). cbn. lia.
      - rewrite app_length. cbn [length]. rewrite !slength_app. cbn [String.length]. specialize (IH Hw). lia.
      - destruct Hw as [Ha Hb]. rewrite app_length. cbn [length]. rewrite app_length. cbn [length].
        rewrite !slength_app. cbn [String.length]. specialize (IHa Ha). specialize (IHb Hb).
        assert (1 <= String.length (iop_str2 o)) by (destruct o; cbn; lia). lia. }
    replace (length (toks e) + S (S (String.length (iprint2 e)) - length (toks e)))
      with (S (String.length (iprint2 e) + 1)) in HL by lia.
    rewrite HL. f_equal. f_equal. rewrite lex_rp. f_equal.
    destruct (S (String.length (iprint2 e)) - length (toks e)) eqn:E; [lia | reflexivity]. }
  rewrite Hl, parse_wrapped, (eval_tree e z H). reflexivity.
Qed.

(* ------------------------------------------------------------------ hardcode_parse_calc *)

Definition noparen (c : ascii) : Prop := Ascii.eqb c "("%char = false /\ Ascii.eqb c ")"%char = false.

Definition prepend (x : string) (r : option (string * string)) : option (string * string) :=
  match r with Some (e, rest) => Some ((x ++ e)%string, rest) | None => None end.

Lemma scan_noparen x : all_chars noparen x -> forall s count, (count <> 0)%Z ->
  scan_group (x ++ s) count = prepend x (scan_group s count).
Proof.
  induction x as [|c x IH]; intros Hx s count Hc.
  - cbn. destruct (scan_group s count) as [[? ?]|]; reflexivity.
  - destruct Hx as [[H1 H2] Hx]. cbn [append scan_group]. rewrite H1, H2.
    destruct (count =? 0)%Z eqn:E; [apply Z.eqb_eq in E; contradiction|].
    rewrite IH by assumption. destruct (scan_group s count) as [[? ?]|]; reflexivity.
Qed.

Lemma dchar_noparen c : dchar c -> noparen c.
Proof.
  unfold dchar, is_digit, digit_of, noparen. intros H.
  split; (destruct (Ascii.eqb c _) eqn:E; [apply Ascii.eqb_eq in E; subst c; discriminate | reflexivity]).
Qed.

Lemma scan_lp s count : (count + 1 <> 0)%Z ->
  scan_group (String "("%char s) count = prepend "(" (scan_group s (count + 1)).
Proof.
  intros H. cbn [scan_group]. cbn [Ascii.eqb Bool.eqb]. 
  destruct (count + 1 =? 0)%Z eqn:E; [apply Z.eqb_eq in E; contradiction|].
  destruct (scan_group s (count + 1)) as [[? ?]|]; reflexivity.
Qed.
Lemma scan_rp s count : (count - 1 <> 0)%Z ->
  scan_group (String ")"%char s) count = prepend ")" (scan_group s (count - 1)).
Proof.
  intros H. cbn [scan_group]. cbn [Ascii.eqb Bool.eqb].
  destruct (count - 1 =? 0)%Z eqn:E; [apply Z.eqb_eq in E; contradiction|].
  destruct (scan_group s (count - 1)) as [[? ?]|]; reflexivity.
Qed.

Lemma prepend_prepend a b r : prepend a (prepend b r) = prepend (a ++ b) r.
Proof. destruct r as [[? ?]|]; cbn; [now rewrite sapp_assoc | reflexivity]. Qed.

Lemma iop_str_noparen o : all_chars noparen (iop_str o).
Proof. destruct o; cbn; repeat split. Qed.

(* a printed tree is balanced: scanning through it at a positive depth keeps the depth *)
Lemma scan_tree e : wf e -> forall s count, (0 < count)%Z ->
  scan_group (iprint e ++ s) count = prepend (iprint e) (scan_group s count).
Proof.
  induction e as [n | a IH | o a IHa b IHb]; cbn [wf iprint]; intros Hw s count Hc.
  - apply scan_noparen; [|lia].
    eapply all_chars_impl; [apply dchar_noparen | now apply z_dec_digits].
  - rewrite !sapp_assoc. cbn [append]. rewrite scan_lp by lia.
    change (String "-"%char (iprint a ++ String ")"%char s)) with ("-" ++ (iprint a ++ String ")"%char s))%string.
    rewrite (scan_noparen "-") by (try lia; cbn; repeat split).
    rewrite IH by (assumption || lia). cbn [append].
    rewrite scan_rp by lia. replace (count + 1 - 1)%Z with count by lia.
    rewrite !prepend_prepend. cbn [append]. rewrite ?sapp_assoc. cbn [append]. reflexivity.
  - destruct Hw as [Ha Hb]. rewrite !sapp_assoc. cbn [append]. rewrite scan_lp by lia.
    rewrite IHa by (assumption || lia).
    rewrite (scan_noparen (iop_str o)) by (try lia; apply iop_str_noparen).
    rewrite IHb by (assumption || lia). cbn [append].
    rewrite scan_rp by lia. replace (count + 1 - 1)%Z with count by lia.
    rewrite !prepend_prepend. cbn [append]. rewrite ?sapp_assoc. cbn [append]. reflexivity.
Qed.

Lemma first_bad_char_app a b :
  first_bad_char (a ++ b) = match first_bad_char a with Some c => Some c | None => first_bad_char b end.
Proof. induction a as [|c a IH]; [reflexivity|]. cbn [append first_bad_char]. destruct (calc_allowed c); auto. Qed.

Lemma first_bad_char_digits s : all_chars dchar s -> first_bad_char s = None.
Proof.
  induction s as [|c s IH]; [reflexivity|]. intros [Hc Hs]. cbn [first_bad_char].
  unfold calc_allowed. unfold dchar in Hc. rewrite Hc. cbn. auto.
Qed.

Lemma first_bad_char_tree e : wf e -> first_bad_char (iprint e) = None.
Proof.
  induction e as [n | a IH | o a IHa b IHb]; cbn [wf iprint]; intros Hw.
  - apply first_bad_char_digits. now apply z_dec_digits.
  - rewrite !first_bad_char_app, IH by assumption. reflexivity.
  - destruct Hw as [Ha Hb]. rewrite !first_bad_char_app, IHa, IHb by assumption.
    destruct o; reflexivity.
Qed.

Lemma parse_calc_exact :
  forall e z pre rest, ieval e = Some z ->
    parse_calc [] pre ("(" ++ iprint e ++ ")" ++ rest) = COk (pre ++ z_dec z ++ rest)%string.
Proof.
  intros e z pre rest H. pose proof (ieval_wf e z H) as Hw.
  unfold parse_calc. cbn [append].
  assert (Hscan : scan_group (String "("%char (iprint e ++ String ")"%char rest)) 0
                  = Some (("(" ++ iprint e ++ ")")%string, rest)).
  { rewrite scan_lp by lia. rewrite scan_tree by (assumption || lia).
    cbn [scan_group]. cbn [Ascii.eqb Bool.eqb]. cbn [Z.add Z.sub Z.eqb Z.pos_sub Z.opp]. cbn. reflexivity. }
  rewrite Hscan.
  unfold apply_macros, sort_by_len_desc, subst_seq. cbn [fold_left].
  assert (Hbad : first_bad_char ("(" ++ iprint e ++ ")") = None).
  { rewrite !first_bad_char_app, first_bad_char_tree by assumption. reflexivity. }
  rewrite Hbad. rewrite (eval_expr_exact e z H). reflexivity.
Qed.

Print Assumptions eval_expr_exact.
Print Assumptions parse_calc_exact.
