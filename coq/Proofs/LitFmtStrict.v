(* Proofs.LitFmtStrict — C09 (round 4): with fixes/C09-unknown-format-code.patch (strict = true) formatted text is
   accepted only if every `&x` is a format code; before it (strict = false) `&` followed by anything else made both
   characters vanish. *)
From Coq Require Import ZArith Bool String Ascii List Lia.
From JMCV Require Import Model.Lit Model.LitFmtRead Proofs.LitBase Proofs.LitFmt.
Import ListNotations.
Open Scope Z_scope.

Lemma codes_known_bracket a b s : fmt_codes_known (FBracket a) s = fmt_codes_known (FBracket b) s.
Proof. induction s as [|c r IH]; [reflexivity|]. cbn [fmt_codes_known]. destruct (c =? 62); [reflexivity|exact IH]. Qed.

Theorem run_strict var s : forall m st st',
  f_run true var m s st = Ok st' -> fmt_codes_known m s = true.
Proof.
  induction s as [|c r IH]; intros m st st' H; [reflexivity|].
  destruct m as [| |acc]; cbn [f_run fmt_codes_known] in *.
  - destruct (c =? 38); eapply IH; exact H.
  - destruct (c =? 38); [eapply IH; exact H|]. destruct (c =? 60); [eapply IH; exact H|].
    unfold f_code in H. destruct (code_prop c) as [[col|k]|]; cbn [rbind] in H; try discriminate; eapply IH; exact H.
  - destruct (c =? 62).
    + destruct (f_bracket var (rev acc) st) as [st1| | |]; cbn [rbind] in H; try discriminate. eapply IH; exact H.
    + rewrite (codes_known_bracket acc (c :: acc)). eapply IH; exact H.
Qed.

Theorem parse_strict var s cs : fmt_parse true var s = Ok cs -> fmt_codes_known FNorm s = true.
Proof.
  unfold fmt_parse. destruct (f_run true var FNorm s f_init) as [st| | |] eqn:E; cbn [rmap]; try discriminate.
  intros _. exact (run_strict var s FNorm f_init st E).
Qed.

(* the tree before the patch: Text.tellraw(@a, "Tom & Jerry") is accepted and displays "Tom Jerry" *)
Theorem parse_lenient_refuted :
  exists s cs, fmt_parse false (lit "__variable__") s = Ok cs /\ fmt_codes_known FNorm s = false /\
               comp_texts cs = lit "Tom Jerry" /\ s = lit "Tom & Jerry".
Proof. exists (lit "Tom & Jerry"). eexists. repeat split; reflexivity. Qed.
