(* Proofs.TokCite — the position error_msg cites for a token, also when the token spans several lines. *)
From Coq Require Import ZArith NArith List Bool Lia.
From JMCV Require Import Model.Tok Model.TokPos Model.TokCite Proofs.Tok Proofs.TokPos.
Import ListNotations.
Open Scope Z_scope.
Local Notation length := List.length.

Lemma count_nl_nonneg : forall s, 0 <= count_nl s.
Proof. intros s. unfold count_nl. lia. Qed.

Lemma count_nl_pos : forall s, has_nl s = true -> 1 <= count_nl s.
Proof.
  induction s as [|c r IH]; intros H; [discriminate|].
  rewrite count_nl_cons. cbn [has_nl] in H.
  destruct (ceqb c c_nl) eqn:E.
  - pose proof (count_nl_nonneg r). lia.
  - simpl in H. specialize (IH H). lia.
Qed.

(* without col_length the cited position is the position of the FIRST character of the token's own text,
   however many lines the token spans *)
Theorem cite_start_is_start : forall printable p0 s t,
  faithful_from p0 s t ->
  exists d r, s = d ++ r /\ token_src t r /\ cite printable false t = pos_after p0 d.
Proof.
  intros printable p0 s t [d [r [Hs [Hp Hsrc]]]].
  exists d, r. repeat split; auto.
Qed.

(* ... for a bracket / keyword token: the text at that position is the token's whole text, and the token ends
   count_nl lines further down *)
Theorem cite_start_spans : forall printable p0 s t,
  faithful_from p0 s t -> t_type t <> STRING ->
  exists d r, s = d ++ t_str t ++ r /\ cite printable false t = pos_after p0 d /\
              fst (pos_after p0 (d ++ t_str t)) = fst (cite printable false t) + count_nl (t_str t).
Proof.
  intros printable p0 s t Hf Hty.
  destruct (cite_end_is_end printable p0 s t Hf Hty) as [d [r [Hs [Hp He]]]].
  exists d, r. repeat split; auto.
  rewrite pos_after_app. unfold cite. rewrite <- Hp. rewrite pos_after_formula. reflexivity.
Qed.

(* the excerpt's line is the line on which the token ENDS (the line of the position right after its last character) *)
Theorem display_line_is_last : forall p0 s t,
  faithful_from p0 s t -> t_type t <> STRING ->
  exists d r, s = d ++ t_str t ++ r /\ (t_line t, t_col t) = pos_after p0 d /\
              display_line true t = fst (pos_after p0 (d ++ t_str t)).
Proof.
  intros p0 s t Hf Hty.
  destruct (cite_end_is_end (fun _ => true) p0 s t Hf Hty) as [d [r [Hs [Hp He]]]].
  exists d, r. repeat split; auto.
  rewrite pos_after_app, <- Hp, pos_after_formula. simpl fst.
  unfold display_line, full_string_has_nl, full_string_nl_count.
  destruct (ttype_eqb (t_type t) STRING) eqn:E; [destruct (t_type t); simpl in E; congruence|].
  rewrite mem_char_nl. simpl andb. destruct (has_nl (t_str t)) eqn:En; [reflexivity|].
  rewrite (count_nl_zero _ En). lia.
Qed.

(* the seeded variant (header and sentence from display_line) never cites the first character of a token
   that spans several lines: its line is strictly below *)
Theorem cite_display_unfaithful : forall printable t,
  t_type t <> STRING -> mem_char c_nl (t_str t) = true ->
  fst (cite_display printable true false t) > fst (cite printable false t) /\
  cite_display printable true false t <> (t_line t, t_col t).
Proof.
  intros printable t Hty Hnl.
  assert (G : fst (cite_display printable true false t) > fst (cite printable false t)).
  { unfold cite_display, cite, display_line, full_string_has_nl, full_string_nl_count. simpl fst.
    destruct (ttype_eqb (t_type t) STRING) eqn:E; [destruct (t_type t); simpl in E; congruence|].
    rewrite Hnl. simpl andb. rewrite mem_char_nl in Hnl. pose proof (count_nl_pos _ Hnl). lia. }
  split; [exact G|].
  intros H. rewrite H in G. unfold cite in G. simpl in G. lia.
Qed.

(* ... and is the same as the tree's citation on every token whose full string holds no newline: diagnostics about
   single-line tokens cannot tell the two apart *)
Theorem cite_display_same_single_line : forall printable dcl cl t,
  full_string_has_nl t = false -> cite_display printable dcl cl t = cite printable cl t.
Proof.
  intros printable dcl cl t H.
  unfold cite_display, display_line, cite. rewrite H, andb_false_r.
  destruct cl; [destruct (cite_end printable t); reflexivity|reflexivity].
Qed.
