(* Proofs.CoreClosedLoop — the lowering of if / else-if / else chains and while / do-while / for
   loops (Model.IfElse, Model.Loop: ports of Lexer.parse_if_else, while_, for_ and of DataPack's
   private-function numbering) emits closed code: every call it generates is to a function it
   stores.  Property C07 (core-language closure).

   Part 1: each code generator, relative to its inputs (conditions' helper lines, lowered bodies).
   Part 2: whole statement trees, by the mutual induction of Proofs.LoopLink (whose freshness
           invariant wf / ext is reused). *)
From Coq Require Import ZArith String List Bool Lia.
From JMCV Require Import Base.Dec MC.Syntax MC.Sem Model.Names Model.PrivAlloc Model.IfElse Model.Loop
     Proofs.IfElseBase Proofs.IfElse Proofs.LoopAlloc Proofs.LoopLink Proofs.CoreCalls.
Import ListNotations.
Local Open Scope list_scope.

(* ------------------------------------------------------------------ part 1: the generators *)
Section Code.
  Variable nm : names.
  Variable OK : site -> Prop.

  (* a generated function body: all its call sites are fine, and it has at least one line *)
  Definition good (l : list cmd) : Prop := all_ok OK l /\ l <> [].
  Definition names_ok (fs : list fdef) : Prop := forall d, In d fs -> OK (Static (fst d)).

  Lemma names_ok_app a b : names_ok (a ++ b) <-> names_ok a /\ names_ok b.
  Proof.
    unfold names_ok. split.
    - intros H. split; intros d Hd; apply H; apply in_or_app; auto.
    - intros [A B] d Hd. apply in_app_or in Hd. destruct Hd; auto.
  Qed.

  Lemma merge1_sites ms c : sites1 (merge1 ms c) = sites1 c.
  Proof. destruct c; reflexivity. Qed.
  Lemma all_ok_merge1 ms c : all_ok OK [merge1 ms c] <-> all_ok OK [c].
  Proof. unfold all_ok, sites. cbn [flat_map]. rewrite merge1_sites. tauto. Qed.

  Lemma guarded_call_ok c x : all_ok OK (c_pre c) -> all_ok OK [x] -> all_ok OK (guarded_call c x).
  Proof. intros A B. unfold guarded_call. apply all_ok_app. split; [exact A|]. apply all_ok_execute. exact B. Qed.

  Lemma call_ok g k : OK (Static (priv_fn nm g k)) -> all_ok OK [call_func nm g k].
  Proof. apply all_ok_call. Qed.

  Lemma arrow_closed g body k x fs :
    arrow nm g body k = (x, fs) -> all_ok OK body -> body <> [] -> names_ok fs ->
    all_ok OK [x] /\ Forall (fun d => good (snd d)) fs.
  Proof.
    intros H A N Hn. destruct body as [|c [|c2 l]]; [congruence| |]; cbn [arrow] in H; inversion H; subst; clear H.
    - split; [exact A|constructor].
    - split.
      + apply call_ok. apply (Hn (priv_fn nm g k, c :: c2 :: l)). left. reflexivity.
      + constructor; [|constructor]. split; [exact A|exact N].
  Qed.

  Lemma single_if_closed c body aid caller fs :
    single_if_code nm c body aid = (caller, fs) ->
    all_ok OK (c_pre c) -> all_ok OK body -> body <> [] -> names_ok fs ->
    all_ok OK caller /\ Forall (fun d => good (snd d)) fs.
  Proof.
    unfold single_if_code. destruct (arrow nm IF_ELSE body aid) as [x afs] eqn:Ar.
    intros H Ap Ab N Hn. inversion H; subst; clear H.
    destruct (arrow_closed _ _ _ _ _ Ar Ab N Hn) as [X F]. split; [|exact F].
    apply all_ok_app. split; [exact Ap|]. apply all_ok_merge1. exact X.
  Qed.

  Definition last_inputs_ok (l : last_part) : Prop :=
    match l with
    | LElse body _ => all_ok OK body /\ body <> []
    | LElif c body _ _ => all_ok OK (c_pre c) /\ all_ok OK body /\ body <> []
    end.

  Lemma last_closed l lc lfs :
    last_code nm l = (lc, lfs) -> last_inputs_ok l -> names_ok lfs ->
    all_ok OK [lc] /\ Forall (fun d => good (snd d)) lfs.
  Proof.
    destruct l as [body aid|c body aid wid]; cbn [last_code last_inputs_ok].
    - intros H [A N] Hn. exact (arrow_closed _ _ _ _ _ H A N Hn).
    - destruct (arrow nm IF_ELSE body aid) as [x afs] eqn:Ar. intros H (Ap & Ab & N) Hn.
      destruct (c_pre c) as [|p ps] eqn:P.
      + inversion H; subst; clear H. destruct (arrow_closed _ _ _ _ _ Ar Ab N Hn) as [X F].
        split; [|exact F]. apply all_ok_merge1. exact X.
      + inversion H; subst; clear H. apply names_ok_app in Hn. destruct Hn as [Hn1 Hn2].
        destruct (arrow_closed _ _ _ _ _ Ar Ab N Hn1) as [X F]. split.
        * apply call_ok. apply (Hn2 (priv_fn nm IF_ELSE wid, (p :: ps) ++ [merge1 (mods_of (c_tests c)) x])). left. reflexivity.
        * apply Forall_app. split; [exact F|]. constructor; [|constructor]. cbn [snd]. split.
          -- apply (all_ok_app OK (p :: ps) [merge1 (mods_of (c_tests c)) x]).
             split; [exact Ap|]. apply all_ok_merge1. exact X.
          -- discriminate.
  Qed.

  Lemma stage_lines_ok w t :
    all_ok OK (c_pre (w_cond w)) -> OK (Static (priv_fn nm IF_ELSE (w_id w))) -> all_ok OK [t] ->
    all_ok OK (stage_lines nm w t).
  Proof.
    intros A B C. unfold stage_lines. apply all_ok_app. split; [|exact C].
    apply guarded_call_ok; [exact A|]. apply call_ok. exact B.
  Qed.

  Lemma tail_closed rest : forall final t fs,
    tail_code nm rest final = (t, fs) -> all_ok OK [final] ->
    Forall (fun wr => all_ok OK (c_pre (w_cond (fst wr))) /\ OK (Static (priv_fn nm IF_ELSE (w_id (fst wr))))) rest ->
    names_ok fs ->
    all_ok OK [t] /\ Forall (fun d => good (snd d)) fs.
  Proof.
    induction rest as [|[w sid] rest IH]; intros final t fs H Af Fr Hn; cbn [tail_code] in H.
    - inversion H; subst. split; [exact Af|constructor].
    - destruct (tail_code nm rest final) as [t' fs'] eqn:T. inversion H; subst; clear H.
      inversion Fr as [|? ? [Aw Bw] Fr']; subst. cbn [fst] in Aw, Bw.
      assert (Hn' : names_ok fs') by (intros d Hd; apply Hn; right; exact Hd).
      destruct (IH _ _ _ T Af Fr' Hn') as [At' F']. split.
      + apply all_ok_execute. apply call_ok. apply (Hn (priv_fn nm IF_ELSE sid, stage_lines nm w t')). left. reflexivity.
      + constructor; [|exact F']. cbn [snd]. split.
        * apply stage_lines_ok; assumption.
        * unfold stage_lines. intros E. apply app_eq_nil in E. destruct E as [_ E]. discriminate.
  Qed.

  Lemma chain_closed first rest last caller fs :
    chain_code nm first rest last = (caller, fs) ->
    Forall (fun w => all_ok OK (c_pre (w_cond w)) /\ all_ok OK (w_body w)) (first :: map fst rest) ->
    last_inputs_ok last -> names_ok fs ->
    all_ok OK caller /\ Forall (fun d => good (snd d)) fs.
  Proof.
    unfold chain_code. destruct (last_code nm last) as [lc lfs] eqn:L.
    destruct (tail_code nm rest _) as [t sfs] eqn:T. intros H Fw Li Hn. inversion H; subst; clear H.
    change (names_ok (map (wbr_fn nm) (first :: map fst rest) ++ lfs ++ sfs)) in Hn.
    apply names_ok_app in Hn. destruct Hn as [Hw Hn]. apply names_ok_app in Hn. destruct Hn as [Hl Hs].
    destruct (last_closed _ _ _ L Li Hl) as [Alc Fl].
    assert (Wid : forall w, In w (first :: map fst rest) -> OK (Static (priv_fn nm IF_ELSE (w_id w)))).
    { intros w Hw'. apply (Hw (wbr_fn nm w)). apply in_map. exact Hw'. }
    assert (Fr : Forall (fun wr => all_ok OK (c_pre (w_cond (fst wr))) /\
                                   OK (Static (priv_fn nm IF_ELSE (w_id (fst wr))))) rest).
    { apply Forall_forall. intros wr Hwr.
      assert (I : In (fst wr) (first :: map fst rest)) by (right; apply in_map; exact Hwr).
      rewrite Forall_forall in Fw. split; [apply (Fw _ I)|apply Wid; exact I]. }
    assert (Afin : all_ok OK [merge1 [MIf true (snd (flag0 nm))] lc]) by (apply all_ok_merge1; exact Alc).
    destruct (tail_closed _ _ _ _ T Afin Fr Hs) as [At Fs].
    inversion Fw as [|? ? [A1 B1] Fw']; subst. split.
    - apply all_ok_cons. split; [intros s []|].
      apply stage_lines_ok; [exact A1|apply Wid; left; reflexivity|exact At].
    - change (Forall (fun d => good (snd d)) (map (wbr_fn nm) (first :: map fst rest) ++ lfs ++ sfs)).
      apply Forall_app. split; [|apply Forall_app; split; assumption].
      apply Forall_forall. intros d Hd. apply in_map_iff in Hd. destruct Hd as (w & <- & Hw').
      rewrite Forall_forall in Fw. destruct (Fw _ Hw') as [_ Bw]. cbn [wbr_fn snd]. split.
      + apply all_ok_app. split; [exact Bw|intros s []].
      + intros E. apply app_eq_nil in E. destruct E as [_ E]. discriminate.
  Qed.

  Lemma retest_ok g c k : all_ok OK (c_pre c) -> OK (Static (priv_fn nm g k)) -> all_ok OK (retest nm g c k).
  Proof. intros A B. unfold retest. apply guarded_call_ok; [exact A|apply call_ok; exact B]. Qed.
  Lemma retest_nonempty g c k : retest nm g c k <> [].
  Proof. unfold retest, guarded_call. intros E. apply app_eq_nil in E. destruct E as [_ E]. discriminate. Qed.

  Lemma while_closed c body k caller fs :
    while_code nm c body k = (caller, fs) -> all_ok OK (c_pre c) -> all_ok OK body -> names_ok fs ->
    all_ok OK caller /\ Forall (fun d => good (snd d)) fs.
  Proof.
    unfold while_code. intros H A B Hn. inversion H; subst; clear H.
    assert (K : OK (Static (priv_fn nm WHILE_NAME k))) by (apply (Hn (priv_fn nm WHILE_NAME k, body ++ retest nm WHILE_NAME c k)); left; reflexivity).
    split; [apply retest_ok; assumption|]. constructor; [|constructor]. cbn [snd]. split.
    - apply all_ok_app. split; [exact B|apply retest_ok; assumption].
    - intros E. apply app_eq_nil in E. destruct E as [_ E]. exact (retest_nonempty _ _ _ E).
  Qed.

  Lemma dowhile_closed c body k caller fs :
    dowhile_code nm c body k = (caller, fs) -> all_ok OK (c_pre c) -> all_ok OK body -> names_ok fs ->
    all_ok OK caller /\ Forall (fun d => good (snd d)) fs.
  Proof.
    unfold dowhile_code. intros H A B Hn. inversion H; subst; clear H.
    assert (K : OK (Static (priv_fn nm WHILE_NAME k))) by (apply (Hn (priv_fn nm WHILE_NAME k, body ++ retest nm WHILE_NAME c k)); left; reflexivity).
    split; [apply call_ok; exact K|]. constructor; [|constructor]. cbn [snd]. split.
    - apply all_ok_app. split; [exact B|apply retest_ok; assumption].
    - intros E. apply app_eq_nil in E. destruct E as [_ E]. exact (retest_nonempty _ _ _ E).
  Qed.

  Lemma for_closed init c step body k caller fs :
    for_code nm init c step body k = (caller, fs) ->
    all_ok OK init -> all_ok OK (c_pre c) -> all_ok OK step -> all_ok OK body -> names_ok fs ->
    all_ok OK caller /\ Forall (fun d => good (snd d)) fs.
  Proof.
    unfold for_code. intros H Ai A As B Hn. inversion H; subst; clear H.
    assert (K : OK (Static (priv_fn nm FOR_NAME k))) by (apply (Hn (priv_fn nm FOR_NAME k, body ++ step ++ retest nm FOR_NAME c k)); left; reflexivity).
    split; [apply all_ok_app; split; [exact Ai|apply retest_ok; assumption]|]. constructor; [|constructor]. cbn [snd]. split.
    - apply all_ok_app. split; [exact B|]. apply all_ok_app. split; [exact As|apply retest_ok; assumption].
    - intros E. apply app_eq_nil in E. destruct E as [_ E]. apply app_eq_nil in E. destruct E as [_ E].
      exact (retest_nonempty _ _ _ E).
  Qed.
End Code.

(* ------------------------------------------------------------------ part 2: statement trees *)

(* the commands the source supplies: basic statements, conditions' helper lines, for-initialisers and steps *)
Fixpoint src_stmt (s : stmt) : list cmd :=
  match s with
  | SCmd c => [c]
  | SIf b e => src_branches b ++ src_oelse e
  | SWhile c body => c_pre c ++ src_stmts body
  | SDoWhile body c => src_stmts body ++ c_pre c
  | SFor init c step body => init ++ c_pre c ++ step ++ src_stmts body
  end
with src_stmts (l : stmts) : list cmd :=
  match l with SNil => [] | SCons s r => src_stmt s ++ src_stmts r end
with src_branches (b : branches) : list cmd :=
  match b with BNil => [] | BCons c body r => c_pre c ++ src_stmts body ++ src_branches r end
with src_oelse (e : oelse) : list cmd :=
  match e with ENone => [] | ESome body => src_stmts body end.

Definition ft0 : string -> option (list cmd) := fun _ => None.
Definition env0 : nat -> state -> state := fun _ s => s.

Definition fnames (a : alloc) : list string := map fst (fns a).
(* a call site is fine: a static call of a stored function, or a call site the source supplied *)
Definition OKS (F : list string) (S : list site) (s : site) : Prop :=
  (exists f, s = Static f /\ In f F) \/ In s S.

Lemma OKS_mono F F' S s : incl F F' -> OKS F S s -> OKS F' S s.
Proof. intros I [(f & E & H)|H]; [left; exists f; split; [exact E|apply I; exact H]|right; exact H]. Qed.
Lemma OKS_src F S l : incl (sites l) S -> all_ok (OKS F S) l.
Proof. intros I s Hs. right. apply I. exact Hs. Qed.
Lemma OKS_name F S f : In f F -> OKS F S (Static f).
Proof. intros H. left. exists f. split; [reflexivity|exact H]. Qed.

Lemma incl_sites_app a b S : incl (sites (a ++ b)) S -> incl (sites a) S /\ incl (sites b) S.
Proof.
  rewrite sites_app. intros H. split; intros s Hs; apply H; apply in_or_app; auto.
Qed.

Lemma good_impl (OK OK' : site -> Prop) l : good OK l -> (forall s, OK s -> OK' s) -> good OK' l.
Proof. intros [A N] I. split; [eapply all_ok_impl; eauto|exact N]. Qed.

Lemma app_new {A} (x n1 n2 new : list A) y z :
  y = x ++ n1 -> z = y ++ n2 -> z = x ++ new -> new = n1 ++ n2.
Proof. intros -> -> E. rewrite <- app_assoc in E. apply app_inv_head in E. symmetry. exact E. Qed.
Lemma app_new0 {A} (x new : list A) : x = x ++ new -> new = [].
Proof. intros E. rewrite <- (app_nil_r x) in E at 1. apply app_inv_head in E. symmetry. exact E. Qed.

Section Tree.
  Variable nm : names.

  Lemma ext_names a a' : ext nm a a' -> incl (fnames a) (fnames a').
  Proof. intros [_ (new & E & _)] f H. unfold fnames in *. rewrite E, map_app. apply in_or_app. left. exact H. Qed.
  Lemma ext_new a a' : ext nm a a' -> exists new, fns a' = fns a ++ new.
  Proof. intros [_ (new & E & _)]. exists new. exact E. Qed.

  Lemma stmts_ext l a lines a' :
    wf nm a -> compile_stmts nm l a = Some (lines, a') -> wf nm a' /\ ext nm a a'.
  Proof.
    intros W H. destruct (compile_all nm ft0 env0) as (_ & P & _ & _).
    destruct (P l _ _ _ W H) as (W' & X & _). split; assumption.
  Qed.
  Lemma stmt_ext s a lines a' :
    wf nm a -> compile_stmt nm s a = Some (lines, a') -> wf nm a' /\ ext nm a a'.
  Proof.
    intros W H. destruct (compile_all nm ft0 env0) as (P & _ & _ & _).
    destruct (P s _ _ _ W H) as (W' & X & _). split; assumption.
  Qed.
  Lemma branches_ext b he a ws le a' :
    wf nm a -> compile_branches nm he b a = Some (ws, le, a') ->
    wf nm a' /\ ext nm a a' /\ Forall (fun w => In (wbr_fn nm w) (fns a')) ws.
  Proof.
    intros W H. destruct (compile_all nm ft0 env0) as (_ & _ & P & _).
    destruct (P b) as [_ Pb]. destruct (Pb _ _ _ _ _ W H) as (W' & X & B & _). auto.
  Qed.

  Lemma alloc_last_shape lsrc a last a2 :
    alloc_last lsrc a = Some (last, a2) ->
    match lsrc with
    | inl lines => (exists aid, last = LElse lines aid) /\ lines <> []
    | inr (c, lines) => (exists aid wid, last = LElif c lines aid wid) /\ lines <> []
    end.
  Proof.
    unfold alloc_last. destruct lsrc as [lines|[c lines]].
    - destruct (alloc_arrow lines a) as [[aid a1]|] eqn:E; [|discriminate]. intros H. inversion H; subst.
      destruct (alloc_arrow_spec _ _ _ _ E) as [N _]. split; [eauto|exact N].
    - destruct (alloc_arrow lines a) as [[aid a1]|] eqn:E; [|discriminate].
      destruct (alloc_arrow_spec _ _ _ _ E) as [N _]. destruct (c_pre c).
      + intros H. inversion H; subst. split; [eauto|exact N].
      + destruct (get_count IF_ELSE a1) as [wid a3]. intros H. inversion H; subst. split; [eauto|exact N].
  Qed.

  (* what finish_chain emits and stores (the numbering argument is that of LoopLink.finish_chain_spec) *)
  Lemma finish_chain_fns ws lsrc a caller a' :
    wf nm a -> finish_chain nm ws lsrc a = Some (caller, a') ->
    exists first others last sids,
      ws = first :: others /\ length sids = length others /\
      caller = fst (chain_code nm first (combine others sids) last) /\
      fns a' = fns a ++ chain_other_fns nm (combine others sids) last /\
      match lsrc with
      | inl lines => (exists aid, last = LElse lines aid) /\ lines <> []
      | inr (c, lines) => (exists aid wid, last = LElif c lines aid wid) /\ lines <> []
      end.
  Proof.
    intros W H. unfold finish_chain in H. destruct ws as [|first others]; [discriminate|].
    destruct (alloc_last lsrc a) as [[last a2]|] eqn:AL; [|discriminate].
    destruct (alloc_stages (length others) a2) as [sids a3] eqn:AS. inversion H; subst; clear H.
    destruct (alloc_last_spec nm _ _ _ _ W AL) as (W2 & F2 & M2 & N2 & B2 & LB & LE).
    destruct (alloc_stages_spec _ _ _ _ AS) as (F3 & C3 & M3 & L3 & N3 & B3).
    set (rest := combine others sids).
    assert (Rs : map snd rest = sids) by (apply combine_snd; lia).
    assert (W3 : wf nm a3).
    { destruct W2 as [Na Fa]. split; rewrite F3; [exact Na|].
      eapply Forall_impl; [|exact Fa]. intros d X. apply (named_weaken _ _ _ _ _ _ X); [intros; lia|exact M3]. }
    set (ids := last_ids last ++ sids).
    assert (Nids : NoDup ids).
    { unfold ids. clear - N2 N3 B2 B3. induction (last_ids last) as [|x l IH]; cbn; [exact N3|].
      inversion N2; subst. inversion B2; subst. constructor; [|apply IH; assumption].
      intros X. apply in_app_or in X. destruct X as [X|X]; [contradiction|].
      rewrite Forall_forall in B3. specialize (B3 _ X). lia. }
    assert (Bids : Forall (fun k => count a IF_ELSE <= k < count a3 IF_ELSE) ids).
    { unfold ids. apply Forall_app. split.
      - eapply Forall_impl; [|exact B2]. cbn. intros k Hk. specialize (M3 IF_ELSE). lia.
      - eapply Forall_impl; [|exact B3]. cbn. intros k Hk. specialize (M2 IF_ELSE). lia. }
    pose proof (chain_other_names nm rest last) as ON. rewrite Rs in ON. fold ids in ON.
    assert (Fresh : forall k, In k ids -> ~ In (priv_fn nm IF_ELSE k) (map fst (fns a3))).
    { intros k Hk X. rewrite F3, F2 in X. apply in_map_iff in X. destruct X as (d & Ed & Hd).
      destruct W as [_ Fa]. rewrite Forall_forall in Fa. specialize (Fa d Hd). rewrite Ed in Fa.
      apply named_inv in Fa; [|exact IF_in]. rewrite Forall_forall in Bids. specialize (Bids _ Hk). lia. }
    destruct (add_fns_ext nm a3 (chain_other_fns nm rest last) W3) as (Ef & Ec & W').
    { rewrite ON. apply NoDup_map_inj; [|exact Nids].
      intros x y _ _ E. destruct (priv_fn_inj _ _ _ _ _ IF_in IF_in E) as [_ ?]. assumption. }
    { apply Forall_forall. intros d Hd.
      assert (X : In (fst d) (map fst (chain_other_fns nm rest last))) by (apply in_map; exact Hd).
      rewrite ON in X. apply in_map_iff in X. destruct X as (k & Ek & Hk).
      exists IF_ELSE, k. split; [exact IF_in|]. split; [symmetry; exact Ek|].
      rewrite Forall_forall in Bids. specialize (Bids _ Hk). split; [lia|]. apply Fresh. exact Hk. }
    exists first, others, last, sids.
    split; [reflexivity|]. split; [exact L3|]. split; [reflexivity|].
    split; [rewrite Ef, F3, F2; reflexivity|]. exact (alloc_last_shape _ _ _ _ AL).
  Qed.

  Notation OKa a S := (OKS (fnames a) S).

  Definition C_stmts (l : stmts) : Prop :=
    forall a lines a' S, wf nm a -> compile_stmts nm l a = Some (lines, a') -> incl (sites (src_stmts l)) S ->
      all_ok (OKa a' S) lines /\
      forall new, fns a' = fns a ++ new -> Forall (fun d => good (OKa a' S) (snd d)) new.
  Definition C_stmt (s : stmt) : Prop :=
    forall a lines a' S, wf nm a -> compile_stmt nm s a = Some (lines, a') -> incl (sites (src_stmt s)) S ->
      all_ok (OKa a' S) lines /\
      forall new, fns a' = fns a ++ new -> Forall (fun d => good (OKa a' S) (snd d)) new.
  Fixpoint bodies_C (b : branches) : Prop :=
    match b with BNil => True | BCons _ body r => C_stmts body /\ bodies_C r end.
  Definition C_branches (b : branches) : Prop :=
    bodies_C b /\
    forall he a ws le a' S, wf nm a -> compile_branches nm he b a = Some (ws, le, a') ->
      incl (sites (src_branches b)) S ->
      Forall (fun w => all_ok (OKa a' S) (c_pre (w_cond w)) /\ all_ok (OKa a' S) (w_body w)) ws /\
      (forall c lines, le = Some (c, lines) -> all_ok (OKa a' S) (c_pre c) /\ all_ok (OKa a' S) lines) /\
      forall new, fns a' = fns a ++ new -> Forall (fun d => good (OKa a' S) (snd d)) new.
  Definition C_oelse (e : oelse) : Prop :=
    match e with ENone => True | ESome body => C_stmts body end.

  Lemma Forall_good_mono a a' S new :
    incl (fnames a) (fnames a') ->
    Forall (fun d : fdef => good (OKa a S) (snd d)) new -> Forall (fun d : fdef => good (OKa a' S) (snd d)) new.
  Proof.
    intros I F. eapply Forall_impl; [|exact F]. intros d G. eapply good_impl; [exact G|].
    intros s. apply OKS_mono. exact I.
  Qed.
  Lemma all_ok_mono a a' S l :
    incl (fnames a) (fnames a') -> all_ok (OKa a S) l -> all_ok (OKa a' S) l.
  Proof. intros I A. eapply all_ok_impl; [exact A|]. intros s. apply OKS_mono. exact I. Qed.

  Lemma in_fnames a d : In d (fns a) -> In (fst d) (fnames a).
  Proof. intros H. unfold fnames. apply in_map. exact H. Qed.

  Lemma C_SCmd c : C_stmt (SCmd c).
  Proof.
    intros a lines a' S W H I. cbn in H. inversion H; subst; clear H. split.
    - apply OKS_src. exact I.
    - intros new E. apply app_new0 in E. subst. constructor.
  Qed.

  Lemma C_SNil : C_stmts SNil.
  Proof.
    intros a lines a' S W H I. cbn in H. inversion H; subst; clear H. split.
    - apply all_ok_nil.
    - intros new E. apply app_new0 in E. subst. constructor.
  Qed.

  Lemma C_SCons s r : C_stmt s -> C_stmts r -> C_stmts (SCons s r).
  Proof.
    intros Cs Cr a lines a' S W H I. cbn [compile_stmts] in H.
    destruct (compile_stmt nm s a) as [[l1 a1]|] eqn:E1; [|discriminate].
    destruct (compile_stmts nm r a1) as [[l2 a2]|] eqn:E2; [|discriminate].
    inversion H; subst; clear H. cbn [src_stmts] in I. apply incl_sites_app in I. destruct I as [I1 I2].
    destruct (stmt_ext _ _ _ _ W E1) as [W1 X1]. destruct (stmts_ext _ _ _ _ W1 E2) as [W2 X2].
    destruct (Cs _ _ _ S W E1 I1) as [A1 N1]. destruct (Cr _ _ _ S W1 E2 I2) as [A2 N2].
    pose proof (ext_names _ _ X2) as M. split.
    - apply all_ok_app. split; [eapply all_ok_mono; eauto|exact A2].
    - intros new E. destruct (ext_new _ _ X1) as [n1 En1]. destruct (ext_new _ _ X2) as [n2 En2].
      rewrite (app_new _ _ _ _ _ _ En1 En2 E). apply Forall_app. split.
      + eapply Forall_good_mono; [exact M|]. apply N1. exact En1.
      + apply N2. exact En2.
  Qed.

  (* a loop: number reserved, body lowered, one function stored under the reserved number *)
  Lemma loop_case g a k a1 body bl a2 S caller fbody (extra : list cmd) :
    wf nm a -> In g groups -> get_count g a = (k, a1) -> C_stmts body ->
    compile_stmts nm body a1 = Some (bl, a2) -> incl (sites (src_stmts body)) S ->
    let a' := add_fns [(priv_fn nm g k, fbody)] a2 in
    (forall OK, all_ok OK bl -> OK (Static (priv_fn nm g k)) -> (forall s, In s S -> OK s) ->
                all_ok OK caller /\ good OK fbody) ->
    all_ok (OKa a' S) caller /\
    forall new, fns a' = fns a ++ new -> Forall (fun d => good (OKa a' S) (snd d)) new.
  Proof.
    intros W Hg G Cb E I a' Hcode.
    pose proof (wf_get_count nm _ _ _ _ W G) as W1.
    destruct (stmts_ext _ _ _ _ W1 E) as [W2 X2].
    destruct (reserve_add nm _ _ _ _ _ fbody W Hg G W2 X2) as (W' & X' & Ef). fold a' in W', X', Ef.
    destruct (Cb _ _ _ S W1 E I) as [Ab Nb].
    assert (M : incl (fnames a2) (fnames a')).
    { intros f Hf. unfold fnames in *. rewrite Ef, map_app. apply in_or_app. left. exact Hf. }
    assert (K : OKa a' S (Static (priv_fn nm g k))).
    { apply OKS_name. unfold fnames. rewrite Ef, map_app. apply in_or_app. right. left. reflexivity. }
    destruct (Hcode (OKa a' S) (all_ok_mono _ _ _ _ M Ab) K) as [Ac Gf]; [intros s Hs; right; exact Hs|].
    split; [exact Ac|]. intros new En.
    destruct (get_count_spec _ _ _ _ G) as (_ & _ & _ & Ef1).
    destruct (ext_new _ _ X2) as [n2 En2]. rewrite Ef1 in En2.
    rewrite (app_new _ _ _ _ _ _ En2 Ef En). apply Forall_app. split.
    - eapply Forall_good_mono; [exact M|]. apply Nb. rewrite Ef1. exact En2.
    - constructor; [exact Gf|constructor].
  Qed.

  Lemma pre_ok (OK : site -> Prop) S l : incl (sites l) S -> (forall s, In s S -> OK s) -> all_ok OK l.
  Proof. intros I H s Hs. apply H, I, Hs. Qed.

  Lemma C_SWhile c body : C_stmts body -> C_stmt (SWhile c body).
  Proof.
    intros Cb a lines a' S W H I. cbn [compile_stmt] in H.
    destruct (get_count WHILE_NAME a) as [k a1] eqn:G.
    destruct (compile_stmts nm body a1) as [[bl a2]|] eqn:E; [|discriminate].
    unfold while_code in H. inversion H; subst; clear H.
    cbn [src_stmt] in I. apply incl_sites_app in I. destruct I as [Ic Ib].
    apply (loop_case WHILE_NAME a k a1 body bl a2 S _ _ [] W WHILE_in G Cb E Ib).
    intros OK Ab K HS.
    destruct (while_closed nm OK c bl k _ _ eq_refl (pre_ok OK S _ Ic HS) Ab) as [A F].
    { intros d [<-|[]]. exact K. }
    split; [exact A|]. inversion F; subst. assumption.
  Qed.

  Lemma C_SDoWhile body c : C_stmts body -> C_stmt (SDoWhile body c).
  Proof.
    intros Cb a lines a' S W H I. cbn [compile_stmt] in H.
    destruct (get_count WHILE_NAME a) as [k a1] eqn:G.
    destruct (compile_stmts nm body a1) as [[bl a2]|] eqn:E; [|discriminate].
    unfold dowhile_code in H. inversion H; subst; clear H.
    cbn [src_stmt] in I. apply incl_sites_app in I. destruct I as [Ib Ic].
    apply (loop_case WHILE_NAME a k a1 body bl a2 S _ _ [] W WHILE_in G Cb E Ib).
    intros OK Ab K HS.
    destruct (dowhile_closed nm OK c bl k _ _ eq_refl (pre_ok OK S _ Ic HS) Ab) as [A F].
    { intros d [<-|[]]. exact K. }
    split; [exact A|]. inversion F; subst. assumption.
  Qed.

  Lemma C_SFor init c step body : C_stmts body -> C_stmt (SFor init c step body).
  Proof.
    intros Cb a lines a' S W H I. cbn [compile_stmt] in H.
    assert (H' : (let (k, a1) := get_count FOR_NAME a in
                  match compile_stmts nm body a1 with
                  | None => None
                  | Some (bl, a2) => let (caller, fs) := for_code nm init c step bl k in Some (caller, add_fns fs a2)
                  end) = Some (lines, a')) by (destruct body; [discriminate|exact H]).
    clear H. destruct (get_count FOR_NAME a) as [k a1] eqn:G.
    destruct (compile_stmts nm body a1) as [[bl a2]|] eqn:E; [|discriminate].
    unfold for_code in H'. inversion H'; subst; clear H'.
    cbn [src_stmt] in I. apply incl_sites_app in I. destruct I as [Ii I].
    apply incl_sites_app in I. destruct I as [Ic I]. apply incl_sites_app in I. destruct I as [Is Ib].
    apply (loop_case FOR_NAME a k a1 body bl a2 S _ _ [] W FOR_in G Cb E Ib).
    intros OK Ab K HS.
    destruct (for_closed nm OK init c step bl k _ _ eq_refl (pre_ok OK S _ Ii HS) (pre_ok OK S _ Ic HS)
                         (pre_ok OK S _ Is HS) Ab) as [A F].
    { intros d [<-|[]]. exact K. }
    split; [exact A|]. inversion F; subst. assumption.
  Qed.

  Lemma C_BNil : C_branches BNil.
  Proof.
    split; [exact I|]. intros he a ws le a' S W H _. cbn in H. inversion H; subst; clear H.
    split; [constructor|]. split; [intros c lines E; discriminate|].
    intros new E. apply app_new0 in E. subst. constructor.
  Qed.

  (* a branch body that can `return` moves into a function of its own: the call that replaces it is to a
     stored function, and the stored function holds the (closed, non-empty) body *)
  Lemma isolate_closed bl a bl' a' S :
    wf nm a -> isolate nm bl a = (bl', a') -> all_ok (OKa a S) bl ->
    wf nm a' /\ ext nm a a' /\ all_ok (OKa a' S) bl' /\
    exists n, fns a' = fns a ++ n /\ Forall (fun d => good (OKa a' S) (snd d)) n.
  Proof.
    intros W H Ab. destruct (isolate_spec nm ft0 env0 _ _ _ _ W H) as (W' & X' & _).
    split; [exact W'|]. split; [exact X'|].
    pose proof (ext_names _ _ X') as M.
    unfold isolate in H. destruct (can_return bl) eqn:CR.
    - destruct (get_count IF_ELSE a) as [k0 a1] eqn:G. inversion H; subst; clear H.
      destruct (reserve_add nm _ _ _ _ _ bl W IF_in G (wf_get_count nm _ _ _ _ W G) (ext_refl nm a1))
        as (_ & _ & Ef).
      change (add_fns [(priv_fn nm IF_ELSE k0, bl)] a1) with (add_fn (priv_fn nm IF_ELSE k0, bl) a1) in *.
      destruct (get_count_spec _ _ _ _ G) as (_ & _ & _ & Ef1). rewrite Ef1 in Ef.
      split.
      + apply call_ok. apply OKS_name. unfold fnames. rewrite Ef, map_app. apply in_or_app. right. left. reflexivity.
      + exists [(priv_fn nm IF_ELSE k0, bl)]. split; [exact Ef|]. constructor; [|constructor]. cbn [snd]. split.
        * eapply all_ok_mono; [exact M|exact Ab].
        * intros ->. discriminate.
    - inversion H; subst; clear H. split; [exact Ab|]. exists []. rewrite app_nil_r. split; [reflexivity|constructor].
  Qed.

  Lemma C_BCons c body r : C_stmts body -> C_branches r -> C_branches (BCons c body r).
  Proof.
    intros Cb [Call Cr]. split; [split; assumption|].
    intros he a ws le a' S W H I. cbn [compile_branches] in H.
    destruct (compile_stmts nm body a) as [[bl a1]|] eqn:E; [|discriminate].
    cbn [src_branches] in I. apply incl_sites_app in I. destruct I as [Ic I].
    apply incl_sites_app in I. destruct I as [Ib Ir].
    destruct (stmts_ext _ _ _ _ W E) as [W1 X1].
    destruct (Cb _ _ _ S W E Ib) as [Ab Nb].
    destruct (is_bnil r && negb he) eqn:Last.
    - inversion H; subst; clear H. split; [constructor|]. split; [|exact Nb].
      intros c0 lines0 E0. inversion E0; subst. split; [apply OKS_src; exact Ic|exact Ab].
    - destruct (isolate nm bl a1) as [bl' a1'] eqn:Iso.
      destruct (isolate_closed _ _ _ _ S W1 Iso Ab) as (W1' & X1' & Ab' & ni & Eni & Gni).
      destruct (get_count IF_ELSE a1') as [k a2] eqn:G.
      set (w := mkW c bl' k) in *.
      destruct (compile_branches nm he r (add_fn (wbr_fn nm w) a2)) as [[[ws' le'] a3]|] eqn:E3; [|discriminate].
      inversion H; subst; clear H.
      destruct (reserve_add nm _ _ _ _ _ (w_body w ++ [set_flag nm 1]) W1' IF_in G
                            (wf_get_count nm _ _ _ _ W1' G) (ext_refl nm a2)) as (W2 & X2 & Ef).
      change (add_fns [(priv_fn nm IF_ELSE k, w_body w ++ [set_flag nm 1])] a2)
        with (add_fn (wbr_fn nm w) a2) in *.
      destruct (branches_ext _ _ _ _ _ _ W2 E3) as (W3 & X3 & _).
      destruct (Cr _ _ _ _ _ S W2 E3 Ir) as (Fw & Le & Nr).
      pose proof (ext_names _ _ X3) as M3. pose proof (ext_names _ _ X2) as M2.
      pose proof (ext_names _ _ X1') as M1'.
      assert (M1i : incl (fnames a1') (fnames a')) by (intros f Hf; apply M3, M2, Hf).
      assert (M1 : incl (fnames a1) (fnames a')) by (intros f Hf; apply M1i, M1', Hf).
      split.
      { constructor; [|exact Fw]. cbn [w_cond w_body w]. split; [apply OKS_src; exact Ic|].
        eapply all_ok_mono; [exact M1i|exact Ab']. }
      split; [exact Le|].
      intros new En. destruct (get_count_spec _ _ _ _ G) as (_ & _ & _ & Ef2). rewrite Ef2 in Ef.
      destruct (ext_new _ _ X1) as [n1 En1]. destruct (ext_new _ _ X3) as [n3 En3].
      assert (En13 : fns a' = fns a ++ ((n1 ++ ni) ++ [wbr_fn nm w]) ++ n3).
      { rewrite En3, Ef, Eni, En1. rewrite <- !app_assoc. reflexivity. }
      rewrite En in En13. apply app_inv_head in En13. subst new.
      apply Forall_app. split; [apply Forall_app; split; [apply Forall_app; split|]|].
      + eapply Forall_good_mono; [exact M1|]. apply Nb. exact En1.
      + eapply Forall_good_mono; [exact M1i|exact Gni].
      + constructor; [|constructor]. cbn [wbr_fn snd w_body w]. split.
        * apply all_ok_app. split; [eapply all_ok_mono; [exact M1i|exact Ab']|intros s []].
        * intros X. apply app_eq_nil in X. destruct X as [_ X]. discriminate.
      + apply Nr. exact En3.
  Qed.

  Lemma C_SIf b e : C_branches b -> C_oelse e -> C_stmt (SIf b e).
  Proof.
    intros [Call Cb] Ce a lines a' S W H I.
    cbn [src_stmt] in I. apply incl_sites_app in I. destruct I as [Ibr Ie].
    destruct (is_single b e) eqn:Single.
    - (* a lone if *)
      destruct b as [|c body [|? ? ?]]; try discriminate. destruct e; try discriminate.
      destruct Call as [Cbody _]. cbn [compile_stmt] in H.
      destruct (compile_stmts nm body a) as [[bl a1]|] eqn:E; [|discriminate].
      destruct (alloc_arrow bl a1) as [[aid a2]|] eqn:A; [|discriminate].
      cbn [src_branches] in Ibr. apply incl_sites_app in Ibr. destruct Ibr as [Ic Ibr].
      apply incl_sites_app in Ibr. destruct Ibr as [Ib _].
      destruct (stmts_ext _ _ _ _ W E) as [W1 X1]. destruct (Cbody _ _ _ S W E Ib) as [Ab Nb].
      destruct (single_if_code nm c bl aid) as [caller fs] eqn:SC. inversion H; subst lines a'; clear H.
      pose proof (arrow_fns nm IF_ELSE bl aid) as AF.
      assert (Efs : fs = snd (arrow nm IF_ELSE bl aid)).
      { unfold single_if_code in SC. destruct (arrow nm IF_ELSE bl aid). inversion SC; reflexivity. }
      rewrite <- Efs in AF. clear Efs.
      destruct (alloc_arrow_spec _ _ _ _ A) as (Nbl & Cases).
      assert (Ef : fns (add_fns fs a2) = fns a1 ++ fs).
      { destruct Cases as [[Inl ->]|[Inl G]]; rewrite Inl in AF; subst fs.
        - cbn. rewrite app_nil_r. reflexivity.
        - destruct (reserve_add nm _ _ _ _ _ bl W1 IF_in G (wf_get_count nm _ _ _ _ W1 G) (ext_refl nm a2))
            as (_ & _ & Ef).
          destruct (get_count_spec _ _ _ _ G) as (_ & _ & _ & Ef2). rewrite Ef, Ef2. reflexivity. }
      set (a' := add_fns fs a2) in *.
      assert (M : incl (fnames a1) (fnames a')).
      { intros f Hf. unfold fnames in *. rewrite Ef, map_app. apply in_or_app. left. exact Hf. }
      destruct (single_if_closed nm (OKa a' S) c bl aid _ _ SC) as [Ac Ff].
      { apply OKS_src. exact Ic. }
      { eapply all_ok_mono; eauto. }
      { exact Nbl. }
      { intros d Hd. apply OKS_name. unfold fnames. rewrite Ef, map_app. apply in_or_app. right. apply in_map. exact Hd. }
      split; [exact Ac|]. intros new En. destruct (ext_new _ _ X1) as [n1 En1].
      rewrite (app_new _ _ _ _ _ _ En1 Ef En). apply Forall_app. split; [|exact Ff].
      eapply Forall_good_mono; [exact M|]. apply Nb. exact En1.
    - (* a chain *)
      rewrite (compile_if_general nm b e a Single) in H. unfold general_if in H.
      set (he := match e with ENone => false | ESome _ => true end) in *.
      destruct (compile_branches nm he b a) as [[[ws le] a1]|] eqn:E1; [|discriminate].
      destruct (branches_ext _ _ _ _ _ _ W E1) as (W1 & X1 & B1).
      destruct (Cb _ _ _ _ _ S W E1 Ibr) as (Fw & Le & N1).
      (* the end of the chain, from a table a2 that extends a1 and in which the last part is fine *)
      assert (Fin : forall lsrc a2 n2,
                 wf nm a2 -> fns a2 = fns a1 ++ n2 ->
                 Forall (fun d : fdef => good (OKa a2 S) (snd d)) n2 ->
                 match lsrc with
                 | inl lines => all_ok (OKa a2 S) lines
                 | inr (c, lines) => all_ok (OKa a2 S) (c_pre c) /\ all_ok (OKa a2 S) lines
                 end ->
                 finish_chain nm ws lsrc a2 = Some (lines, a') ->
                 all_ok (OKa a' S) lines /\
                 forall new, fns a' = fns a ++ new -> Forall (fun d => good (OKa a' S) (snd d)) new).
      { intros lsrc a2 n2 W2 En2 G2 Lin F.
        destruct (finish_chain_fns _ _ _ _ _ W2 F) as (first & others & last & sids & -> & Len & -> & Ef & Shape).
        set (rest := combine others sids) in *.
        assert (Rf : map fst rest = others) by (apply combine_fst; lia).
        assert (M2 : incl (fnames a2) (fnames a')).
        { intros f Hf. unfold fnames in *. rewrite Ef, map_app. apply in_or_app. left. exact Hf. }
        assert (M1 : incl (fnames a1) (fnames a')).
        { intros f Hf. apply M2. unfold fnames in *. rewrite En2, map_app. apply in_or_app. left. exact Hf. }
        destruct (chain_code nm first rest last) as [caller cfs] eqn:CC. cbn [fst].
        pose proof (chain_code_fns nm first rest last) as CF. rewrite CC in CF. cbn [snd] in CF. rewrite Rf in CF.
        destruct (chain_closed nm (OKa a' S) first rest last caller cfs CC) as [Ac Fc].
        { rewrite Rf. eapply Forall_impl; [|exact Fw]. intros w [P Q].
          split; [exact (all_ok_mono _ _ _ _ M1 P)|exact (all_ok_mono _ _ _ _ M1 Q)]. }
        { destruct lsrc as [el|[c el]].
          - destruct Shape as [[aid ->] Ne]. cbn [last_inputs_ok]. split; [exact (all_ok_mono _ _ _ _ M2 Lin)|exact Ne].
          - destruct Shape as [(aid & wid & ->) Ne]. destruct Lin as [L1 L2]. cbn [last_inputs_ok].
            split; [exact (all_ok_mono _ _ _ _ M2 L1)|]. split; [exact (all_ok_mono _ _ _ _ M2 L2)|exact Ne]. }
        { intros d Hd. apply OKS_name. rewrite CF in Hd. apply in_app_or in Hd. destruct Hd as [Hd|Hd].
          - apply in_map_iff in Hd. destruct Hd as (w & <- & Hw). apply M1. apply in_fnames.
            rewrite Forall_forall in B1. apply B1. exact Hw.
          - unfold fnames. rewrite Ef, map_app. apply in_or_app. right. apply in_map. exact Hd. }
        split; [exact Ac|]. intros new En.
        destruct (ext_new _ _ X1) as [n1 En1].
        assert (En' : fns a' = fns a ++ (n1 ++ n2) ++ chain_other_fns nm rest last).
        { rewrite Ef, En2, En1. rewrite <- !app_assoc. reflexivity. }
        rewrite En in En'. apply app_inv_head in En'. subst new.
        apply Forall_app. split; [apply Forall_app; split|].
        - eapply Forall_good_mono; [exact M1|]. apply N1. exact En1.
        - eapply Forall_good_mono; [exact M2|exact G2].
        - rewrite CF in Fc. apply Forall_app in Fc. destruct Fc as [_ Fc]. exact Fc. }
      destruct e as [|ebody].
      + destruct le as [[c el]|]; [|discriminate].
        destruct (Le c el eq_refl) as [L1 L2].
        apply (Fin (inr (c, el)) a1 [] W1); [rewrite app_nil_r; reflexivity|constructor|split; assumption|exact H].
      + cbn [C_oelse] in Ce. cbn [src_oelse] in Ie.
        destruct (compile_stmts nm ebody a1) as [[el a2]|] eqn:E2; [|discriminate].
        destruct (stmts_ext _ _ _ _ W1 E2) as [W2 X2]. destruct (Ce _ _ _ S W1 E2 Ie) as [Ae Ne].
        destruct (ext_new _ _ X2) as [n2 En2].
        apply (Fin (inl el) a2 n2 W2 En2); [apply Ne; exact En2|exact Ae|exact H].
  Qed.

  Lemma closed_all :
    (forall s, C_stmt s) /\ (forall l, C_stmts l) /\ (forall b, C_branches b) /\ (forall e, C_oelse e).
  Proof.
    apply stmt_mutind.
    - apply C_SCmd.
    - intros b Hb e He. apply C_SIf; assumption.
    - intros c body Hb. apply C_SWhile; assumption.
    - intros body Hb c. apply C_SDoWhile; assumption.
    - intros init c step body Hb. apply C_SFor; assumption.
    - apply C_SNil.
    - intros s Hs r Hr. apply C_SCons; assumption.
    - apply C_BNil.
    - intros c body Hb r Hr. apply C_BCons; assumption.
    - exact I.
    - intros body Hb. exact Hb.
  Qed.
End Tree.

(* ------------------------------------------------------------------ whole function bodies *)

(* f lies in the pack's private-function namespace: "<ns>:<PRIVATE>/…" *)
Definition in_private (nm : names) (f : string) : bool :=
  String.prefix (ns nm ++ ":" ++ private_name nm ++ "/")%string f.

Lemma prefix_app' (p x : string) : String.prefix p (p ++ x)%string = true.
Proof. induction p as [|c p IH]; cbn; [destruct x; reflexivity|]. destruct (Ascii.ascii_dec c c); [exact IH|contradiction]. Qed.

Lemma priv_fn_in_private nm g k : in_private nm (priv_fn nm g k) = true.
Proof.
  unfold in_private, priv_fn.
  replace (ns nm ++ ":" ++ private_name nm ++ "/" ++ g ++ "/" ++ z_dec (Z.of_nat k))%string
    with ((ns nm ++ ":" ++ private_name nm ++ "/") ++ (g ++ "/" ++ z_dec (Z.of_nat k)))%string.
  - apply prefix_app'.
  - assert (A : forall a b c : string, ((a ++ b) ++ c = a ++ (b ++ c))%string).
    { intros a b c. induction a as [|x a IH]; cbn; [reflexivity|]. rewrite IH. reflexivity. }
    rewrite !A. reflexivity.
Qed.

Theorem core_closed_ifelse_loops nm prog lines fdefs :
  compile_body nm prog = Some (lines, fdefs) ->
  NoDup (map fst fdefs) /\
  (forall name, In name (map fst fdefs) -> exists g k, In g groups /\ name = priv_fn nm g k) /\
  (forall f, In f (calls lines ++ fcalls fdefs) -> In f (map fst fdefs) \/ In f (calls (src_stmts prog))) /\
  (forall pk, In pk (mcalls lines ++ fmcalls fdefs) -> In pk (mcalls (src_stmts prog))) /\
  (forall name body, In (name, body) fdefs -> body <> []).
Proof.
  unfold compile_body. destruct (compile_stmts nm prog alloc0) as [[l a]|] eqn:E; [|discriminate].
  intros H. inversion H; subst; clear H.
  destruct (stmts_ext nm _ _ _ _ (wf_alloc0 nm) E) as [[N Fn] _].
  destruct (closed_all nm) as (_ & C & _ & _).
  destruct (C prog _ _ _ (sites (src_stmts prog)) (wf_alloc0 nm) E (incl_refl _)) as [A G].
  specialize (G (fns a) eq_refl). rewrite Forall_forall in G.
  assert (OKcalls : forall s, OKS (fnames a) (sites (src_stmts prog)) s ->
            match s with
            | Static f => In f (map fst (fns a)) \/ In f (calls (src_stmts prog))
            | Dyn p k => In (p, k) (mcalls (src_stmts prog))
            end).
  { intros s [(f & -> & Hf)|Hs]; [left; exact Hf|].
    destruct s as [f|p k]; [right; apply calls_sites; exact Hs|apply mcalls_sites; exact Hs]. }
  split; [exact N|]. split.
  { intros name Hn. apply in_map_iff in Hn. destruct Hn as (d & <- & Hd).
    rewrite Forall_forall in Fn. destruct (Fn d Hd) as (g & k & Hg & Ek & _). exists g, k. split; assumption. }
  split.
  { intros f Hf. apply in_app_or in Hf. destruct Hf as [Hf|Hf].
    - apply calls_sites in Hf. exact (OKcalls _ (A _ Hf)).
    - apply in_fcalls in Hf. destruct Hf as (d & Hd & Hf). destruct (G d Hd) as [Ad _].
      apply calls_sites in Hf. exact (OKcalls _ (Ad _ Hf)). }
  split.
  { intros [p k] Hf. apply in_app_or in Hf. destruct Hf as [Hf|Hf].
    - apply mcalls_sites in Hf. exact (OKcalls _ (A _ Hf)).
    - apply in_fmcalls in Hf. destruct Hf as (d & Hd & Hf). destruct (G d Hd) as [Ad _].
      apply mcalls_sites in Hf. exact (OKcalls _ (Ad _ Hf)). }
  intros name body Hd. destruct (G _ Hd) as [_ Ne]. exact Ne.
Qed.

(* no dangling call into the private namespace, when the source itself makes none *)
Corollary core_private_calls_resolve nm prog lines fdefs :
  compile_body nm prog = Some (lines, fdefs) ->
  (forall f, In f (calls (src_stmts prog)) -> in_private nm f = false) ->
  forall f, In f (calls lines ++ fcalls fdefs) -> in_private nm f = true -> In f (map fst fdefs).
Proof.
  intros H Src f Hf P. destruct (core_closed_ifelse_loops _ _ _ _ H) as (_ & _ & C & _).
  destruct (C f Hf) as [X|X]; [exact X|]. rewrite (Src f X) in P. discriminate.
Qed.

(* the closure as a decidable check (evaluated in the non-vacuity examples) *)
Definition closed_fdefsb (lines : list cmd) (fdefs : list fdef) (src : list string) : bool :=
  forallb (fun f => existsb (String.eqb f) (map fst fdefs) || existsb (String.eqb f) src)
          (calls lines ++ fcalls fdefs).
