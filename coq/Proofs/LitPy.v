(* Proofs.LitPy — decoding of the quoted source text (tokenizer + Python escapes). *)
From Coq Require Import ZArith Bool String Ascii List Lia.
From JMCV Require Import Model.Lit Proofs.LitBase.
Import ListNotations.
Open Scope Z_scope.

(* text without backslash, line feed and the delimiting quote is its own value *)

Lemma plain_char_spec q c : plain_char q c = true -> c <> 92 /\ c <> 10 /\ c <> q.
Proof.
  unfold plain_char. intros H. apply andb_true_iff in H as [H H3]. apply andb_true_iff in H as [H1 H2].
  apply negb_true_iff in H1, H2, H3. apply Z.eqb_neq in H1, H2, H3. auto.
Qed.

Lemma scan_plain q raw : forallb (plain_char q) raw = true -> scan q false raw = Ok raw.
Proof.
  induction raw as [|c r IH]; cbn [forallb scan]; intros H; [reflexivity|].
  apply andb_true_iff in H as [Hc Hr]. apply plain_char_spec in Hc as (H1 & H2 & H3).
  apply Z.eqb_neq in H1, H2, H3. rewrite H1, H2, H3, IH by assumption. reflexivity.
Qed.

Lemma pyun_no_backslash nm bad s : memz 92 s = false -> pyun nm bad PNorm s = Ok s.
Proof.
  induction s as [|c r IH]; cbn [memz existsb pyun]; intros H; [reflexivity|].
  apply orb_false_iff in H as [H1 H2]. rewrite Z.eqb_sym in H1. rewrite H1.
  unfold memz in IH. rewrite IH by assumption. reflexivity.
Qed.

Theorem decode_plain nm bad q raw :
  forallb (plain_char q) raw = true -> decode_with nm bad q raw = Ok raw.
Proof.
  intros H. unfold decode_with. rewrite scan_plain by assumption. cbn [rbind].
  apply pyun_no_backslash. induction raw as [|c r IH]; [reflexivity|].
  cbn [forallb] in H. apply andb_true_iff in H as [Hc Hr]. apply plain_char_spec in Hc as (H1 & _).
  cbn [memz existsb]. apply orb_false_iff. split; [apply Z.eqb_neq; congruence|now apply IH].
Qed.

(* every value can be written, and decoding inverts the canonical spelling *)
Lemma scan_py_quote q s : q = 34 \/ q = 39 -> scan q false (py_quote q s) = Ok (py_quote q s).
Proof.
  intros Hq. induction s as [|c s IH]; [reflexivity|].
  unfold py_quote in *. cbn [flat_map]. unfold py_quote_char at 1 3.
  destruct (c =? 92) eqn:E92.
  { cbn [app scan]. cbn [Z.eqb Pos.eqb]. rewrite IH. reflexivity. }
  destruct (c =? q) eqn:Eq.
  { cbn [app scan]. cbn [Z.eqb Pos.eqb].
    assert (E : (q =? 10) = false) by (apply Z.eqb_neq; lia). rewrite E, IH. reflexivity. }
  destruct (c =? 10) eqn:E10.
  { cbn [app scan]. cbn [Z.eqb Pos.eqb]. rewrite IH. reflexivity. }
  cbn [app scan]. rewrite E92, E10, Eq, IH. reflexivity.
Qed.

Lemma pyun_py_quote nm bad q s : q = 34 \/ q = 39 -> pyun nm bad PNorm (py_quote q s) = Ok s.
Proof.
  intros Hq. induction s as [|c s IH]; [reflexivity|].
  unfold py_quote in *. cbn [flat_map]. unfold py_quote_char at 1.
  destruct (c =? 92) eqn:E92.
  { apply Z.eqb_eq in E92. subst c. cbn [app pyun]. cbn [Z.eqb Pos.eqb simple_escape]. rewrite IH. reflexivity. }
  destruct (c =? q) eqn:Eq.
  { apply Z.eqb_eq in Eq. subst c. cbn [app pyun]. cbn [Z.eqb Pos.eqb].
    destruct Hq as [-> | ->]; cbn [simple_escape Z.eqb Pos.eqb]; rewrite IH; reflexivity. }
  destruct (c =? 10) eqn:E10.
  { apply Z.eqb_eq in E10. subst c. cbn [app pyun]. cbn [Z.eqb Pos.eqb simple_escape]. rewrite IH. reflexivity. }
  cbn [app pyun]. rewrite E92, IH. reflexivity.
Qed.

Theorem decode_py_quote nm bad q s : q = 34 \/ q = 39 -> decode_with nm bad q (py_quote q s) = Ok s.
Proof.
  intros Hq. unfold decode_with. rewrite scan_py_quote by assumption. cbn [rbind].
  now apply pyun_py_quote.
Qed.

(* after fixes/C09-bad-escape.patch no literal makes a Python exception escape *)
Lemma rmap_not_crash {A B} (f : A -> B) r : r <> Crash -> rmap f r <> Crash.
Proof. destruct r; cbn; congruence. Qed.

Lemma scan_not_crash q esc raw : scan q esc raw <> Crash.
Proof.
  revert esc; induction raw as [|c r IH]; intros esc; cbn [scan].
  - destruct esc; discriminate.
  - destruct esc.
    + destruct (c =? 10); [apply IH|apply rmap_not_crash, IH].
    + destruct (c =? 92); [apply IH|]. destruct (c =? 10); [discriminate|].
      destruct (c =? q); [discriminate|]. apply rmap_not_crash, IH.
Qed.

Lemma pyun_not_crash nm st s : pyun nm Diag st s <> Crash.
Proof.
  revert st; induction s as [|c r IH]; intros st; cbn [pyun].
  - destruct st; discriminate.
  - destruct st as [| |k acc|k acc| |acc].
    + destruct (c =? 92); [apply IH|apply rmap_not_crash, IH].
    + destruct (simple_escape c); [apply rmap_not_crash, IH|].
      destruct (is_oct c); [apply IH|]. destruct (c =? 120); [apply IH|].
      destruct (c =? 117); [apply IH|]. destruct (c =? 85); [apply IH|].
      destruct (c =? 78); [apply IH|]. apply rmap_not_crash, IH.
    + destruct (hexval c); [|discriminate]. destruct k as [|[|k]]; [discriminate| |apply IH].
      destruct (_ <=? _); [apply rmap_not_crash, IH|discriminate].
    + destruct (is_oct c).
      * destruct k as [|[|k]]; [discriminate|apply rmap_not_crash, IH|apply IH].
      * destruct (c =? 92); apply rmap_not_crash, IH.
    + destruct (c =? 123); [apply IH|discriminate].
    + destruct (c =? 125); [|apply IH]. destruct (nm (rev acc)); [apply rmap_not_crash, IH|discriminate].
Qed.

Theorem decode_not_crash nm q raw : decode nm q raw <> Crash.
Proof.
  unfold decode, decode_with. pose proof (scan_not_crash q false raw) as H.
  destruct (scan q false raw); cbn [rbind]; try congruence. apply pyun_not_crash.
Qed.

Theorem decode_pinned_crashes : forall nm, exists raw, decode_pinned nm 34 raw = Crash /\ decode nm 34 raw = Diag.
Proof. intros nm. exists (lit "\x"). split; reflexivity. Qed.

(* ------------------------------------------------------------------ backtick strings *)
Definition bt_plain_char (c : Z) : bool := negb (c =? 92) && negb (c =? 96).

Lemma scan_bt_plain t : forallb bt_plain_char t = true -> scan_bt false t = Ok t.
Proof.
  induction t as [|c r IH]; cbn [forallb scan_bt]; intros H; [reflexivity|].
  apply andb_true_iff in H as [Hc Hr]. unfold bt_plain_char in Hc.
  apply andb_true_iff in Hc as [H1 H2]. apply negb_true_iff in H1, H2.
  rewrite H1, H2, IH by assumption. reflexivity.
Qed.

Lemma bt_plain_no_backslash t : forallb bt_plain_char t = true -> memz 92 t = false.
Proof.
  induction t as [|c r IH]; cbn [forallb memz existsb]; intros H; [reflexivity|].
  apply andb_true_iff in H as [Hc Hr]. unfold bt_plain_char in Hc.
  apply andb_true_iff in Hc as [H1 _]. apply negb_true_iff in H1.
  apply orb_false_iff. split; [now rewrite Z.eqb_sym|now apply IH].
Qed.

Lemma split_lf_nonempty s : split_lf s <> [].
Proof. destruct s as [|c r]; cbn; [discriminate|]. destruct (c =? 10); [discriminate|]. destruct (split_lf r); discriminate. Qed.

Lemma split_lf_app_lf a b : memz 10 a = false -> split_lf (a ++ 10 :: b) = a :: split_lf b.
Proof.
  induction a as [|c a IH]; cbn [app split_lf memz existsb]; intros H; [reflexivity|].
  apply orb_false_iff in H as [H1 H2]. rewrite Z.eqb_sym in H1. rewrite H1.
  unfold memz in IH. rewrite IH by assumption. reflexivity.
Qed.

Lemma split_lf_no_lf a : memz 10 a = false -> split_lf a = [a].
Proof.
  induction a as [|c a IH]; cbn [split_lf memz existsb]; intros H; [reflexivity|].
  apply orb_false_iff in H as [H1 H2]. rewrite Z.eqb_sym in H1. rewrite H1.
  unfold memz in IH. rewrite IH by assumption. reflexivity.
Qed.

(* lines of  m ++ LF ++ w  (w without LF) are the lines of m followed by w *)
Lemma split_lf_snoc m w : memz 10 w = false -> split_lf (m ++ 10 :: w) = split_lf m ++ [w].
Proof.
  intros Hw. induction m as [|c m IH]; cbn [app split_lf].
  - rewrite Z.eqb_refl. now rewrite split_lf_no_lf.
  - destruct (c =? 10); [now rewrite IH|].
    rewrite IH. pose proof (split_lf_nonempty m) as Hn.
    destruct (split_lf m) as [|h t]; [contradiction|]. reflexivity.
Qed.

Lemma split_last_snoc {A} (l : list A) (x : A) : split_last (l ++ [x]) = Some (l, x).
Proof.
  induction l as [|a l IH]; [reflexivity|]. cbn [app split_last]. rewrite IH.
  destruct (l ++ [x]) eqn:E; [destruct l; discriminate|reflexivity].
Qed.

Lemma join_split_lf m : join_lf (split_lf m) = m.
Proof.
  induction m as [|c m IH]; [reflexivity|]. cbn [split_lf].
  pose proof (split_lf_nonempty m) as Hn.
  destruct (c =? 10) eqn:E.
  - apply Z.eqb_eq in E. subst c. cbn [join_lf]. destruct (split_lf m) as [|h t] eqn:Es; [contradiction|].
    cbn [app]. now rewrite IH.
  - destruct (split_lf m) as [|h t] eqn:Es; [contradiction|].
    destruct t as [|h2 t]; cbn [join_lf] in *; [now rewrite IH|].
    rewrite <- IH. reflexivity.
Qed.

Lemma blank_no_lf_ok w : forallb py_space w = true -> blank_line w = true.
Proof. auto. Qed.

(* a backtick string: white space, line feed, the text (any number of lines), line feed, white
   space; text without backslash and backtick is taken as it is *)
Theorem decode_bt_plain nm w1 mid w2 :
  forallb py_space w1 = true -> memz 10 w1 = false ->
  forallb py_space w2 = true -> memz 10 w2 = false ->
  forallb bt_plain_char mid = true ->
  decode_bt nm (w1 ++ 10 :: mid ++ 10 :: w2) = Ok mid.
Proof.
  intros S1 L1 S2 L2 Hm. unfold decode_bt.
  assert (Hp : forallb bt_plain_char (w1 ++ 10 :: mid ++ 10 :: w2) = true).
  { assert (Hs : forall w, forallb py_space w = true -> forallb bt_plain_char w = true).
    { induction w as [|c w IH]; cbn [forallb]; [reflexivity|]. intros H.
      apply andb_true_iff in H as [Hc Hw]. rewrite IH by assumption. rewrite andb_true_r.
      unfold bt_plain_char. destruct (c =? 92) eqn:E1; [apply Z.eqb_eq in E1; subst; discriminate|].
      destruct (c =? 96) eqn:E2; [apply Z.eqb_eq in E2; subst; discriminate|]. reflexivity. }
    rewrite forallb_app. cbn [forallb]. rewrite forallb_app. cbn [forallb].
    rewrite (Hs w1 S1), (Hs w2 S2), Hm. reflexivity. }
  rewrite scan_bt_plain by assumption. cbn [rbind].
  rewrite pyun_no_backslash by now apply bt_plain_no_backslash. cbn [rbind].
  unfold bt_lines. rewrite split_lf_app_lf by assumption.
  rewrite split_lf_snoc by assumption. rewrite split_last_snoc.
  pose proof (split_lf_nonempty mid) as Hn.
  destruct (split_lf mid) as [|h t] eqn:Es; [contradiction|].
  unfold blank_line. rewrite S1, S2. cbn [andb]. rewrite <- Es, join_split_lf. reflexivity.
Qed.

Theorem decode_bt_pinned_drops_text :
  forall nm, exists raw, decode_bt_pinned nm raw = Ok (lit "world") /\ decode_bt nm raw = Diag.
Proof. intros nm. exists (32 :: lit "hello" ++ 10 :: lit "world" ++ 10 :: 32 :: lit "x"). split; reflexivity. Qed.

Lemma scan_bt_not_crash esc raw : scan_bt esc raw <> Crash.
Proof.
  revert esc; induction raw as [|c r IH]; intros esc; cbn [scan_bt].
  - destruct esc; discriminate.
  - destruct esc.
    + destruct (c =? 10); [discriminate|apply rmap_not_crash, IH].
    + destruct (c =? 92); [apply IH|]. destruct (c =? 96); [discriminate|]. apply rmap_not_crash, IH.
Qed.

Lemma bt_lines_not_crash v : bt_lines v <> Crash.
Proof.
  unfold bt_lines. destruct (split_lf v) as [|f rest]; [discriminate|].
  destruct (split_last rest) as [[mid last]|]; [|discriminate].
  destruct mid; [discriminate|]. destruct (_ && _); discriminate.
Qed.

Theorem decode_any_not_crash nm q raw : decode_any nm q raw <> Crash.
Proof.
  unfold decode_any. destruct (q =? 96); [|apply decode_not_crash].
  unfold decode_bt. pose proof (scan_bt_not_crash false raw) as H.
  destruct (scan_bt false raw) as [body| | |]; cbn [rbind]; try congruence.
  pose proof (pyun_not_crash nm PNorm body) as H2.
  destruct (pyun nm Diag PNorm body); cbn [rbind]; try congruence. apply bt_lines_not_crash.
Qed.
