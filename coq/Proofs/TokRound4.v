(* Proofs.TokRound4 — statements of Props/C14.v (strengthening round 4) that need a few steps on top of
   Proofs/TokArgs.v and Proofs/TokEnd.v. *)
From Coq Require Import ZArith NArith List Bool String Lia.
From JMCV Require Import Model.Tok Model.TokPos Model.TokDerived Model.TokArgs Model.TokEnd
  Proofs.Tok Proofs.TokPos Proofs.TokArgs Proofs.TokEnd.
Import ListNotations.
Open Scope Z_scope.

(* the token an argument-list parser cites sits at its own text: it is a token of the inner tokenizer run *)
Lemma p_args_diag_faithful : forall uni printable alms es asemi sub line col progs kws d t,
  parse uni printable alms es asemi sub line col = Ok progs -> In kws progs ->
  (func_args false kws = ADiag d t \/ (exists op, pairs false op kws = ADiag d t) \/
   list_items kws = ADiag d t \/ params kws = ADiag d t) ->
  exists d0 r, sub = d0 ++ r /\ (t_line t, t_col t) = pos_after (line, col) d0 /\ token_src t r.
Proof.
  intros uni printable alms es asemi sub line col progs kws d t Hp Hk H.
  assert (Hin : In t kws).
  { destruct H as [H|[[op H]|[H|H]]].
    - eapply func_args_cites_given; eauto.
    - eapply pairs_cites_given; eauto.
    - eapply list_items_cites_given; eauto.
    - eapply params_cites_given; eauto. }
  destruct (parse_tokens_faithful _ _ _ _ _ _ _ _ _ _ _ Hp Hk Hin) as [F _]. exact F.
Qed.

(* the FUNC token made of the body `{...}` of an arrow-function argument is cited one column right of the brace: at the
   position of the first character behind the brace *)
Lemma p_func_token_pos : forall p0 s t body,
  faithful_from p0 s t -> t_type t = PAREN_CURLY -> t_str t = c_lcurly :: body ->
  exists d r, s = d ++ c_lcurly :: r /\ (t_line t, t_col t) = pos_after p0 d /\
              (t_line t, t_col t + 1) = pos_after p0 (d ++ [c_lcurly]).
Proof.
  intros p0 s t body [d [r [Hs [Hp Hsrc]]]] Hty Hstr.
  unfold token_src in Hsrc. rewrite Hty in Hsrc. destruct Hsrc as [_ [r' Hr]]. rewrite Hstr in Hr. simpl in Hr.
  exists d, (body ++ r'). split; [rewrite Hs, Hr; reflexivity|]. split; [exact Hp|].
  rewrite pos_after_snoc, <- Hp. reflexivity.
Qed.

(* the tree before fixes/C14-string-literal-end.patch (Model.Tok.parse keeps its arithmetic col + len(repr(string))):
   the statement say + a literal a-backslash-quote-b, without a semicolon, cites column 10, inside the literal; the literal
   ends at column 11 *)
Definition w_escaped_quote : str := of_string "say ""a\""b"""%string.
Lemma p_repr_length_refuted : forall uni printable,
  exists s l c l' c', parse uni printable false true false s 1 1 = Diag DExpectedSemicolon l c /\
                      parse_r uni printable false true false s 1 1 = Diag DExpectedSemicolon l' c' /\
                      (l', c') = pos_after (1, 1) s /\ c < c'.
Proof.
  intros uni printable. exists w_escaped_quote, 1, 10, 1, 11.
  split; [vm_compute; reflexivity|]. split; [vm_compute; reflexivity|]. split; [vm_compute; reflexivity|lia].
Qed.
