(* Proofs.LayoutBasic — facts about positions, CustomOrder and is_connected (C15/C16). *)
From Coq Require Import ZArith String List Bool Ascii Lia.
From JMCV Require Import Model.Layout.
Import ListNotations.
Open Scope Z_scope.

(* ------------------------------------------------------------------ positions *)
Definition plt (a b : Z * Z) : Prop := fst a < fst b \/ (fst a = fst b /\ snd a < snd b).
Definition ple (a b : Z * Z) : Prop := a = b \/ plt a b.

Lemma plt_irrefl a : ~ plt a a.
Proof. unfold plt. lia. Qed.
Lemma plt_trans a b c : plt a b -> plt b c -> plt a c.
Proof. unfold plt. lia. Qed.
Lemma ple_plt_trans a b c : ple a b -> plt b c -> plt a c.
Proof. intros [->|H] H2; [assumption|eapply plt_trans; eauto]. Qed.
Lemma plt_neq a b : plt a b -> a <> b.
Proof. intros H ->. now apply plt_irrefl in H. Qed.
Lemma pos_eqb_eq a b : pos_eqb a b = true <-> a = b.
Proof.
  destruct a as [a1 a2], b as [b1 b2]. unfold pos_eqb. cbn.
  rewrite andb_true_iff, !Z.eqb_eq. split; [intros [-> ->]; reflexivity|intros H; inversion H; auto].
Qed.
Lemma pos_eqb_neq a b : pos_eqb a b = false <-> a <> b.
Proof.
  split.
  - intros H E. apply pos_eqb_eq in E. congruence.
  - intros H. destruct (pos_eqb a b) eqn:E; [apply pos_eqb_eq in E; contradiction|reflexivity].
Qed.

(* ------------------------------------------------------------------ CustomOrder *)
Definition opos (o : corder) : Z * Z := (o_line o, o_col o).

(* the pinned comparison of two operators of equal precedence depends only on the
   *order* of their positions *)
Lemma custom_lt_pinned_order_invariant :
  forall a b a' b',
    o_order a = o_order a' -> o_order b = o_order b' -> o_left a = o_left a' ->
    (plt (opos a) (opos b) <-> plt (opos a') (opos b')) ->
    (plt (opos b) (opos a) <-> plt (opos b') (opos a')) ->
    custom_lt_pinned a b = custom_lt_pinned a' b'.
Proof.
  intros [oa la ca fa] [ob lb cb fb] [oa' la' ca' fa'] [ob' lb' cb' fb']; cbn.
  intros -> -> -> H1 H2. unfold custom_lt_pinned, plt in *; cbn in *.
  destruct (oa' =? ob') eqn:E; cbn; [|reflexivity].
  destruct (la =? lb) eqn:E1, (la' =? lb') eqn:E2; cbn;
    rewrite ?Z.eqb_eq, ?Z.eqb_neq in *; destruct fa';
    repeat match goal with |- context [?x <? ?y] => destruct (Z.ltb_spec x y) end; try reflexivity; lia.
Qed.

(* when `a` is the later operator (always the case in expression_to_tree for position-faithful
   tokens) the pinned comparison is the repaired one *)
Lemma custom_lt_pinned_later :
  forall a b, plt (opos b) (opos a) -> (o_order a = o_order b -> o_left a = o_left b) ->
              custom_lt_pinned a b = custom_lt a b.
Proof.
  intros [oa la ca fa] [ob lb cb fb]; unfold plt, custom_lt_pinned, custom_lt; cbn. intros H _.
  destruct (oa =? ob); cbn; [|reflexivity].
  destruct (la =? lb) eqn:E1; cbn; rewrite ?Z.eqb_eq, ?Z.eqb_neq in *; destruct fa;
    repeat match goal with |- context [?x <? ?y] => destruct (Z.ltb_spec x y) end; try reflexivity; lia.
Qed.

(* ... and with synthetic positions (macro expansion) it is not: *)
Lemma custom_lt_pinned_synthetic_refuted :
  exists a b, o_order a = o_order b /\ o_left a = true /\ custom_lt_pinned a b = false /\ custom_lt a b = true.
Proof. exists (mkOrd 10 1 9 true), (mkOrd 10 1 10 true). repeat split. Qed.

(* ------------------------------------------------------------------ Token.end of a plain token *)
Fixpoint adv (p : Z * Z) (s : str) : Z * Z :=
  match s with
  | [] => p
  | c :: r => adv (if is_nl c then (fst p + 1, 1) else (fst p, snd p + 1)) r
  end.

Lemma adv_app p a b : adv p (a ++ b) = adv (adv p a) b.
Proof. revert p; induction a; cbn; intros; auto. Qed.

Lemma count_nl_cons c s : count_nl (c :: s) = (if is_nl c then 1 else 0) + count_nl s.
Proof. unfold count_nl, len. cbn. destruct (is_nl c); cbn [length]; lia. Qed.
Lemma count_nl_nonneg s : 0 <= count_nl s.
Proof. unfold count_nl, len. lia. Qed.

Lemma after_last_nl_acc s : forall acc,
  after_last_nl s acc = if 0 <? count_nl s then after_last_nl s 0 else acc + len s.
Proof.
  induction s as [|c r IH]; intros acc; cbn [after_last_nl].
  - cbn. unfold len; cbn. lia.
  - rewrite count_nl_cons. pose proof (count_nl_nonneg r). destruct (is_nl c) eqn:E.
    + destruct (0 <? 1 + count_nl r) eqn:E2; [reflexivity|apply Z.ltb_ge in E2; lia].
    + rewrite IH. rewrite (IH (0 + 1)). cbn [Z.add]. destruct (0 <? count_nl r); [reflexivity|].
      unfold len; cbn [length]. lia.
Qed.

(* the end position computed from the text = the position reached by scanning the text *)
Lemma adv_text l c s :
  adv (l, c) s = if 0 <? count_nl s then (l + count_nl s, after_last_nl s 0 + 1) else (l, c + len s).
Proof.
  revert l c. induction s as [|x r IH]; intros l c.
  - cbn. unfold len; cbn. f_equal; lia.
  - cbn [adv fst snd]. rewrite count_nl_cons. pose proof (count_nl_nonneg r) as Hn.
    destruct (is_nl x) eqn:E.
    + rewrite IH. cbn [after_last_nl]. rewrite E.
      assert (E2 : (0 <? 1 + count_nl r) = true) by (apply Z.ltb_lt; lia). rewrite E2.
      destruct (0 <? count_nl r) eqn:E3.
      * f_equal; lia.
      * pose proof (after_last_nl_acc r 0) as A. rewrite E3 in A.
        apply Z.ltb_ge in E3. rewrite A. f_equal; lia.
    + rewrite IH. cbn [after_last_nl]. rewrite E. cbn [Z.add].
      destruct (0 <? count_nl r) eqn:E3.
      * pose proof (after_last_nl_acc r 1) as A. rewrite E3 in A. rewrite A. f_equal; lia.
      * unfold len; cbn [length]. f_equal; lia.
Qed.

Lemma tok_end_plain ty l c s g :
  ty <> STRING -> tok_end (mkTok ty l c s 0 None g) = adv (l, c) s.
Proof.
  intros H. unfold tok_end. cbn. rewrite adv_text.
  destruct ty; try contradiction; unfold tok_length; cbn; reflexivity.
Qed.

(* ------------------------------------------------------------------ the pinned defect, concretely *)
Definition conn_flags_with (f : token -> token -> bool) (toks : list token) : list bool :=
  match toks with
  | [] => []
  | t :: r => false :: map (fun p => f (snd p) (fst p)) (combine toks r)
  end.

Lemma pinned_multiline_refuted :
  exists s s' toks toks',
    relayout MCode s s' /\
    parse [] false true false false 1 1 s = Ok [toks] /\ parse [] false true false false 1 1 s' = Ok [toks'] /\
    map t_glued toks = map t_glued toks' /\
    conn_flags_with is_connected_pinned toks <> conn_flags_with is_connected_pinned toks' /\
    conn_flags_with is_connected toks = conn_flags_with is_connected toks'.
Proof.
  exists (s2l "a[{ b}].c;"), (s2l "a[{
b}].c;"). eexists. eexists.
  split.
  { cbn. apply rl_code; [reflexivity|discriminate|]. apply rl_code; [reflexivity|discriminate|].
    apply rl_code; [reflexivity|discriminate|].
    apply (rl_lay [SP] [NL]); [apply lr_one, li_ws; reflexivity|apply lr_one, li_ws; reflexivity|].
    repeat (apply rl_code; [reflexivity|discriminate|]). apply rl_nil. }
  split; [vm_compute; reflexivity|]. split; [vm_compute; reflexivity|].
  split; [reflexivity|]. split; [vm_compute; discriminate|reflexivity].
Qed.
