(* Proofs.Alloc — invariants of the DataPack state machine and of build() (property C07). *)
From Coq Require Import String Ascii List Bool Arith ZArith Lia.
From JMCV Require Import Base.Dec Model.Names Model.ResLoc Model.Alloc Proofs.ResLoc.
Import ListNotations.
Open Scope string_scope.

(* ------------------------------------------------------------------ association lists *)
Section AssocFacts.
  Context {V : Type}.
  Implicit Types (l : list (string * V)) (h : list (nat * V)).

  Lemma aget_aset_same k v l : aget k (aset k v l) = Some v.
  Proof.
    induction l as [|[k' v'] r IH]; simpl; [now rewrite string_eqb_refl|].
    destruct (String.eqb k k') eqn:E; simpl; [now rewrite string_eqb_refl|]. now rewrite E.
  Qed.
  Lemma aget_aset_other k k' v l : k <> k' -> aget k' (aset k v l) = aget k' l.
  Proof.
    intros N. induction l as [|[k2 v2] r IH]; simpl.
    - destruct (String.eqb k' k) eqn:E; [apply String.eqb_eq in E; congruence|reflexivity].
    - destruct (String.eqb k k2) eqn:E; simpl.
      + apply String.eqb_eq in E. subst k2.
        destruct (String.eqb k' k) eqn:E2; [apply String.eqb_eq in E2; congruence|reflexivity].
      + destruct (String.eqb k' k2); [reflexivity|exact IH].
  Qed.
  Lemma amem_aset k k' v l : amem k' (aset k v l) = String.eqb k' k || amem k' l.
  Proof.
    unfold amem. destruct (String.eqb k' k) eqn:E.
    - apply String.eqb_eq in E. subst. now rewrite aget_aset_same.
    - apply String.eqb_neq in E. rewrite aget_aset_other by congruence. reflexivity.
  Qed.
  Lemma amem_aset_mono k k' v l : amem k' l = true -> amem k' (aset k v l) = true.
  Proof. intros H. rewrite amem_aset, H. apply orb_true_r. Qed.
  Lemma aget_In k v l : aget k l = Some v -> In (k, v) l.
  Proof.
    induction l as [|[k' v'] r IH]; simpl; [discriminate|].
    destruct (String.eqb k k') eqn:E; intros H.
    - apply String.eqb_eq in E. inversion H; subst. now left.
    - right. auto.
  Qed.
  Lemma In_amem k v l : In (k, v) l -> amem k l = true.
  Proof.
    unfold amem. induction l as [|[k' v'] r IH]; simpl; [tauto|].
    intros [H|H]; [inversion H; subst; now rewrite string_eqb_refl|].
    destruct (String.eqb k k'); [reflexivity|auto].
  Qed.
  Lemma amem_In k l : amem k l = true -> exists v, In (k, v) l.
  Proof. unfold amem. destruct (aget k l) eqn:E; [|discriminate]. intros _. eexists. eapply aget_In; eauto. Qed.
  Lemma amem_keys k l : amem k l = true -> In k (map fst l).
  Proof. intros H. destruct (amem_In _ _ H) as [v Hv]. change k with (fst (k, v)). now apply in_map. Qed.
  Lemma In_aset kv k v l : In kv (aset k v l) -> kv = (k, v) \/ In kv l.
  Proof.
    induction l as [|[k' v'] r IH]; simpl; [intros [H|[]]; auto|].
    destruct (String.eqb k k'); simpl; intros [H|H]; auto. destruct (IH H); auto.
  Qed.

  Lemma nget_nset_same k v h : nget k (nset k v h) = Some v.
  Proof.
    induction h as [|[k' v'] r IH]; simpl; [now rewrite Nat.eqb_refl|].
    destruct (Nat.eqb k k') eqn:E; simpl; [now rewrite Nat.eqb_refl|]. now rewrite E.
  Qed.
  Lemma nget_nset_other k k' v h : k <> k' -> nget k' (nset k v h) = nget k' h.
  Proof.
    intros N. induction h as [|[k2 v2] r IH]; simpl.
    - destruct (Nat.eqb k' k) eqn:E; [apply Nat.eqb_eq in E; congruence|reflexivity].
    - destruct (Nat.eqb k k2) eqn:E; simpl.
      + apply Nat.eqb_eq in E. subst k2.
        destruct (Nat.eqb k' k) eqn:E2; [apply Nat.eqb_eq in E2; congruence|reflexivity].
      + destruct (Nat.eqb k' k2); [reflexivity|exact IH].
  Qed.
  Lemma nget_nset k k' v h : nget k' (nset k v h) = if Nat.eqb k' k then Some v else nget k' h.
  Proof.
    destruct (Nat.eqb k' k) eqn:E.
    - apply Nat.eqb_eq in E. subst. apply nget_nset_same.
    - apply Nat.eqb_neq in E. apply nget_nset_other. congruence.
  Qed.
End AssocFacts.

(* ------------------------------------------------------------------ lines *)
Definition line_ok (l : string) : Prop := l <> "" /\ no_char nl l = true.
Definition heap_wf (h : list (nat * list string)) : Prop :=
  forall id ls, nget id h = Some ls -> Forall line_ok ls.

Lemma lines_of_no_nl s : Forall (fun l => no_char nl l = true) (lines_of s).
Proof.
  induction s as [|c r IH]; simpl; [repeat constructor|].
  destruct (Ascii.eqb c nl) eqn:E; [constructor; [reflexivity|exact IH]|].
  destruct (lines_of r) as [|h t]; [repeat constructor; unfold no_char; simpl; now rewrite E|].
  inversion IH; subst. constructor; [|assumption]. unfold no_char in *. simpl. now rewrite E.
Qed.
Lemma fsplit_ok cmds : Forall line_ok (fsplit cmds).
Proof.
  unfold fsplit. apply Forall_forall. intros l Hl. apply filter_In in Hl as [Hin Hne].
  split; [destruct l; [discriminate|congruence]|].
  apply in_flat_map in Hin as [s [_ Hs]].
  pose proof (lines_of_no_nl s) as F. rewrite Forall_forall in F. auto.
Qed.
Lemma fsplit_app a b : fsplit (a ++ b) = (fsplit a ++ fsplit b)%list.
Proof. unfold fsplit. now rewrite flat_map_app, filter_app. Qed.

Lemma heap_wf_nset id ls h : heap_wf h -> Forall line_ok ls -> heap_wf (nset id ls h).
Proof.
  intros W F id' ls' H. rewrite nget_nset in H. destruct (Nat.eqb id' id); [now inversion H; subst|eauto].
Qed.

Lemma step_wf c st o st' : step c st o = Some st' -> heap_wf (heap st) -> heap_wf (heap st').
Proof.
  destruct o; simpl; intros H W; try (inversion H; subst; simpl; assumption).
  - inversion H; subst; simpl. apply heap_wf_nset; [assumption|apply fsplit_ok].
  - destruct (nget id (heap st)) eqn:E; [|discriminate]. inversion H; subst; simpl.
    apply heap_wf_nset; [assumption|]. apply Forall_app. split; [eauto|apply fsplit_ok].
  - destruct (String.eqb ret (dec_nat (count_of g st))); [|discriminate]. inversion H; subst; assumption.
  - destruct (String.eqb ret _); [|discriminate]. inversion H; subst; assumption.
Qed.
Lemma run_from_wf c ops : forall st st', run_from c st ops = Some st' -> heap_wf (heap st) -> heap_wf (heap st').
Proof.
  induction ops as [|o r IH]; simpl; intros st st' H W; [inversion H; subst; assumption|].
  destruct (step c st o) eqn:E; [|discriminate]. eapply IH; eauto using step_wf.
Qed.
Lemma run_wf c ops st : run c ops = Some st -> heap_wf (heap st).
Proof. intros H. eapply run_from_wf; eauto. intros id ls Hn. discriminate. Qed.

(* ------------------------------------------------------------------ facts that the run establishes *)
Definition priv_has (g n : string) (ps : list (string * list (string * nat))) : Prop :=
  exists inner id, aget g ps = Some inner /\ aget n inner = Some id.

Lemma pset_has g n id ps : priv_has g n (pset g n id ps).
Proof. unfold priv_has, pset. eexists; eexists. rewrite aget_aset_same. split; [reflexivity|apply aget_aset_same]. Qed.
Lemma pset_keeps g n g' n' id ps : priv_has g n ps -> priv_has g n (pset g' n' id ps).
Proof.
  intros [inner [i [Hg Hn]]]. unfold priv_has, pset.
  destruct (string_dec g' g) as [->|N].
  - rewrite aget_aset_same, Hg. destruct (string_dec n' n) as [->|N'].
    + eexists; eexists; split; [reflexivity|apply aget_aset_same].
    + eexists; eexists; split; [reflexivity|]. rewrite aget_aset_other by assumption. eassumption.
  - rewrite aget_aset_other by assumption. eauto.
Qed.

Lemma step_privs c st o st' g n :
  step c st o = Some st' -> priv_has g n (privs st) -> priv_has g n (privs st').
Proof.
  destruct o; simpl; intros H P; try (inversion H; subst; simpl; assumption).
  - destruct (nget id (heap st)); [|discriminate]. inversion H; subst; assumption.
  - inversion H; subst; simpl. now apply pset_keeps.
  - destruct (String.eqb ret _); [|discriminate]. inversion H; subst; assumption.
  - destruct (String.eqb ret _); [|discriminate]. inversion H; subst; assumption.
Qed.
Lemma step_called c st o st' p :
  step c st o = Some st' -> amem p (called st) = true -> amem p (called st') = true.
Proof.
  destruct o; simpl; intros H P; try (inversion H; subst; simpl; assumption).
  - destruct (nget id (heap st)); [|discriminate]. inversion H; subst; assumption.
  - inversion H; subst; simpl. now apply amem_aset_mono.
  - destruct (String.eqb ret _); [|discriminate]. inversion H; subst; assumption.
  - destruct (String.eqb ret _); [|discriminate]. inversion H; subst; assumption.
Qed.

Lemma run_from_facts c ops : forall st st', run_from c st ops = Some st' ->
  (forall g n, priv_has g n (privs st) -> priv_has g n (privs st')) /\
  (forall p, amem p (called st) = true -> amem p (called st') = true) /\
  (forall g n id, In (OPSet g n id) ops -> priv_has g n (privs st')) /\
  (forall p pre, In (OCalled p pre) ops -> amem p (called st') = true) /\
  (forall g n ret, In (OCallF g n ret) ops -> ret = call_func_str (c_ns c) (c_private c) g n).
Proof.
  induction ops as [|o r IH]; simpl; intros st st' H.
  - inversion H; subst. repeat split; auto; intros; contradiction.
  - destruct (step c st o) as [st1|] eqn:E; [|discriminate].
    destruct (IH _ _ H) as (P1 & P2 & P3 & P4 & P5).
    repeat split.
    + intros. eapply P1, step_privs; eauto.
    + intros. eapply P2, step_called; eauto.
    + intros g n id [->|Hin]; [|eauto]. apply P1. simpl in E. inversion E; subst; simpl. apply pset_has.
    + intros p pre [->|Hin]; [|eauto]. apply P2. simpl in E. inversion E; subst; simpl.
      rewrite amem_aset, string_eqb_refl. reflexivity.
    + intros g n ret [->|Hin]; [|eauto]. simpl in E.
      destruct (String.eqb ret _) eqn:Eq; [|discriminate]. now apply String.eqb_eq in Eq.
Qed.

(* ------------------------------------------------------------------ what build() does to the function table *)

(* [TL]: lines build() may add.  The relation between the table before and after some steps of build(). *)
Section Rel.
Variable NewOK : string -> Prop.   (* paths of the entries build() may create *)
Record rel (TL : list string) (a b : HF) : Prop := mkRel {
  r_dom : forall id, nget id (fst a) <> None -> nget id (fst b) <> None;
  r_lines : forall id ls, nget id (fst b) = Some ls -> forall l, In l ls -> In l (lines_at (fst a) id) \/ In l TL;
  r_mono : forall p, amem p (snd a) = true -> amem p (snd b) = true;
  r_ent : forall p id, In (p, id) (snd b) -> In (p, id) (snd a) \/ (nget id (fst a) = None /\ NewOK p);
  r_wf : heap_wf (fst a) -> Forall line_ok TL -> heap_wf (fst b)
}.

Lemma rel_refl TL a : rel TL a a.
Proof.
  constructor; auto.
  intros id ls H l Hl. left. unfold lines_at. now rewrite H.
Qed.
Lemma rel_trans TL a b c : rel TL a b -> rel TL b c -> rel TL a c.
Proof.
  intros [d1 l1 m1 e1 w1] [d2 l2 m2 e2 w2]. constructor; auto.
  - intros id ls H l Hl. destruct (l2 _ _ H _ Hl) as [Hb|]; [|auto].
    unfold lines_at in Hb. destruct (nget id (fst b)) eqn:E; [|contradiction]. eauto.
  - intros p id H. destruct (e2 _ _ H) as [Hb|[Hn Hok]]; [auto|]. right. split; [|assumption].
    destruct (nget id (fst a)) eqn:E; [|reflexivity]. exfalso. apply (d1 id); congruence.
Qed.

Lemma incl_fsplit cmds TL : incl (fsplit cmds) TL -> forall l, In l (fsplit cmds) -> In l TL.
Proof. auto. Qed.

Lemma prepend_rel TL p cmds a b : incl (fsplit cmds) TL -> prepend_at p cmds a = inr b -> rel TL a b.
Proof.
  destruct a as [h f]. unfold prepend_at. intros I H.
  destruct (aget p f) as [id|] eqn:Ep; [|discriminate]. destruct (nget id h) as [ls|] eqn:En; [|discriminate].
  inversion H; subst. clear H. constructor; simpl; auto.
  - intros id' N. rewrite nget_nset. destruct (Nat.eqb id' id); congruence.
  - intros id' ls' H l Hl. rewrite nget_nset in H. destruct (Nat.eqb id' id) eqn:E.
    + apply Nat.eqb_eq in E. subst. inversion H; subst. apply in_app_or in Hl as [Hl|Hl]; [right; auto|].
      left. unfold lines_at. now rewrite En.
    + left. unfold lines_at. now rewrite H.
  - intros W F. apply heap_wf_nset; [assumption|]. apply Forall_app. split; [apply fsplit_ok|eauto].
Qed.
Lemma append_rel TL p cmds a b : incl (fsplit cmds) TL -> append_at p cmds a = inr b -> rel TL a b.
Proof.
  destruct a as [h f]. unfold append_at. intros I H.
  destruct (aget p f) as [id|] eqn:Ep; [|discriminate]. destruct (nget id h) as [ls|] eqn:En; [|discriminate].
  inversion H; subst. clear H. constructor; simpl; auto.
  - intros id' N. rewrite nget_nset. destruct (Nat.eqb id' id); congruence.
  - intros id' ls' H l Hl. rewrite nget_nset in H. destruct (Nat.eqb id' id) eqn:E.
    + apply Nat.eqb_eq in E. subst. inversion H; subst. apply in_app_or in Hl as [Hl|Hl]; [|right; auto].
      left. unfold lines_at. now rewrite En.
    + left. unfold lines_at. now rewrite H.
  - intros W F. apply heap_wf_nset; [assumption|]. apply Forall_app. split; [eauto|apply fsplit_ok].
Qed.

Lemma fresh_id_above h : forall id v, In (id, v) h -> (id < fresh_id h)%nat.
Proof.
  unfold fresh_id. induction h as [|[k v'] r IH]; simpl; [contradiction|].
  intros id v [H|H]; [inversion H; subst; lia|]. specialize (IH _ _ H). lia.
Qed.
Lemma nget_In {V} id (v : V) h : nget id h = Some v -> In (id, v) h.
Proof.
  induction h as [|[k v'] r IH]; simpl; [discriminate|].
  destruct (Nat.eqb id k) eqn:E; intros H; [apply Nat.eqb_eq in E; inversion H; subst; now left|right; auto].
Qed.
Lemma fresh_id_none h : nget (fresh_id h) h = None.
Proof.
  destruct (nget (fresh_id h) h) eqn:E; [|reflexivity].
  apply nget_In, fresh_id_above in E. lia.
Qed.

Lemma new_rel TL p cmds a : NewOK p -> incl (fsplit cmds) TL -> rel TL a (new_at p cmds a).
Proof.
  destruct a as [h f]. unfold new_at. intros OK I. constructor; simpl; auto.
  - intros id' N. rewrite nget_nset. destruct (Nat.eqb id' (fresh_id h)); congruence.
  - intros id' ls' H l Hl. rewrite nget_nset in H. destruct (Nat.eqb id' (fresh_id h)) eqn:E.
    + inversion H; subst. right; auto.
    + left. unfold lines_at. now rewrite H.
  - intros p' H. now apply amem_aset_mono.
  - intros p' id H. apply In_aset in H as [H|H]; [|auto]. inversion H; subst. right. split; [apply fresh_id_none|assumption].
  - intros W F. apply heap_wf_nset; [assumption|apply fsplit_ok].
Qed.
Lemma new_has p cmds a : amem p (snd (new_at p cmds a)) = true.
Proof. destruct a as [h f]. unfold new_at. simpl. rewrite amem_aset, string_eqb_refl. reflexivity. Qed.

Lemma after_funcs_rel TL l : forall a b,
  incl (fsplit (flat_map snd l)) TL -> after_funcs l a = inr b -> rel TL a b.
Proof.
  induction l as [|[p cmds] r IH]; simpl; intros a b I H.
  - inversion H; subst. apply rel_refl.
  - destruct (amem p (snd a)); [|discriminate]. unfold bind in H.
    destruct (append_at p cmds a) as [e|a1] eqn:E; [discriminate|].
    rewrite fsplit_app in I. eapply rel_trans.
    + eapply append_rel; [|eassumption]. intros x Hx. apply I, in_or_app. now left.
    + eapply IH; [|eassumption]. intros x Hx. apply I, in_or_app. now right.
Qed.

End Rel.

(* the private-function merge only adds entries that come from private_functions *)
Lemma merge_group_ent c g inner : forall f p id,
  In (p, id) (merge_group c g inner f) -> In (p, id) f \/ exists n, In (n, id) inner /\ p = ppath c g n.
Proof.
  unfold merge_group. induction inner as [|[n i] r IH]; simpl; intros f p id H; [auto|].
  apply IH in H as [H|[n' [H1 H2]]]; [|right; eauto].
  apply In_aset in H as [H|H]; [|auto]. inversion H; subst. right. exists n. auto.
Qed.
Lemma merge_group_mono c g inner : forall f p, amem p f = true -> amem p (merge_group c g inner f) = true.
Proof.
  unfold merge_group. induction inner as [|[n i] r IH]; simpl; intros f p H; [assumption|].
  apply IH. now apply amem_aset_mono.
Qed.
Lemma merge_group_has c g inner : forall f n id, In (n, id) inner -> amem (ppath c g n) (merge_group c g inner f) = true.
Proof.
  unfold merge_group. induction inner as [|[n' i] r IH]; simpl; intros f n id H; [contradiction|].
  destruct H as [H|H].
  - inversion H; subst. apply (merge_group_mono c g r). rewrite amem_aset, string_eqb_refl. reflexivity.
  - eapply IH; eauto.
Qed.
Lemma merge_privs_ent c ps : forall f p id,
  In (p, id) (merge_privs c ps f) ->
  In (p, id) f \/ exists g inner n, In (g, inner) ps /\ In (n, id) inner /\ p = ppath c g n.
Proof.
  unfold merge_privs. induction ps as [|[g inner] r IH]; simpl; intros f p id H; [auto|].
  apply IH in H as [H|(g' & inner' & n & H1 & H2 & H3)]; [|right; exists g', inner', n; auto].
  apply merge_group_ent in H as [H|[n [H1 H2]]]; [auto|]. right. exists g, inner, n. auto.
Qed.
Lemma merge_privs_mono c ps : forall f p, amem p f = true -> amem p (merge_privs c ps f) = true.
Proof.
  unfold merge_privs. induction ps as [|[g inner] r IH]; simpl; intros f p H; [assumption|].
  apply IH. now apply merge_group_mono.
Qed.
Lemma merge_privs_has c ps : forall f g inner n id,
  In (g, inner) ps -> In (n, id) inner -> amem (ppath c g n) (merge_privs c ps f) = true.
Proof.
  unfold merge_privs. induction ps as [|[g' inner'] r IH]; simpl; intros f g inner n id H1 H2; [contradiction|].
  destruct H1 as [H1|H1].
  - inversion H1; subst. apply (merge_privs_mono c r). eapply merge_group_has; eauto.
  - eapply IH; eauto.
Qed.

(* ------------------------------------------------------------------ assemble *)
Definition TLof (c : cfg) (b : bdata) : list string := fsplit (build_text c b).

Lemma build_text_parts c b sb :
  scoreboards_of c b = inr sb ->
  build_text c b = (load_lines c b sb ++ b_after_loads b ++ b_ticks b ++ b_after_ticks b ++ flat_map snd (b_after_func b))%list.
Proof. unfold build_text. now intros ->. Qed.

Definition tick_new (c : cfg) (b : bdata) (p : string) : Prop :=
  p = c_tick c /\ (b_ticks b <> [] \/ b_after_ticks b <> []).

Lemma assemble_spec c b st h' f' :
  assemble c b st = inr (h', f') ->
  exists f2,
    rel (tick_new c b) (TLof c b) (heap st, funcs st) (h', f2) /\ f' = merge_privs c (privs st) f2 /\
    ((b_ticks b <> [] \/ b_after_ticks b <> []) -> amem (c_tick c) f2 = true).
Proof.
  unfold assemble, bind. intros H.
  destruct (scoreboards_of c b) as [e|sb] eqn:Esb; [discriminate|].
  pose proof (build_text_parts _ _ _ Esb) as BT.
  assert (I1 : incl (fsplit (load_lines c b sb)) (TLof c b)).
  { unfold TLof. rewrite BT, fsplit_app. intros x Hx. apply in_or_app. now left. }
  assert (I2 : incl (fsplit (b_after_loads b)) (TLof c b)).
  { unfold TLof. rewrite BT, !fsplit_app. intros x Hx. apply in_or_app. right. apply in_or_app. now left. }
  assert (I3 : incl (fsplit (b_ticks b)) (TLof c b)).
  { unfold TLof. rewrite BT, !fsplit_app. intros x Hx. apply in_or_app. right. apply in_or_app. right.
    apply in_or_app. now left. }
  assert (I4 : incl (fsplit (b_after_ticks b)) (TLof c b)).
  { unfold TLof. rewrite BT, !fsplit_app. intros x Hx. do 3 (apply in_or_app; right). apply in_or_app. now left. }
  assert (I5 : incl (fsplit (flat_map snd (b_after_func b))) (TLof c b)).
  { unfold TLof. rewrite BT, !fsplit_app. intros x Hx. do 4 (apply in_or_app; right). assumption. }
  set (a0 := (heap st, funcs st)) in *.
  destruct (st_loads c (load_lines c b sb) a0) as [e|a1] eqn:E1; [discriminate|].
  assert (R1 : rel (tick_new c b) (TLof c b) a0 a1).
  { unfold st_loads in E1. destruct (load_lines c b sb) eqn:El; [inversion E1; subst; apply rel_refl|].
    rewrite <- El in *. eapply prepend_rel; [|eassumption]; assumption. }
  destruct (st_after_loads c (b_after_loads b) a1) as [e|a2] eqn:E2; [discriminate|].
  assert (R2 : rel (tick_new c b) (TLof c b) a1 a2).
  { unfold st_after_loads in E2. destruct (b_after_loads b) eqn:El; [inversion E2; subst; apply rel_refl|].
    rewrite <- El in *. eapply append_rel; [|eassumption]; assumption. }
  destruct (st_ticks c (b_ticks b) a2) as [e|a3] eqn:E3; [discriminate|].
  assert (R3 : rel (tick_new c b) (TLof c b) a2 a3 /\ (b_ticks b <> [] -> amem (c_tick c) (snd a3) = true)).
  { unfold st_ticks in E3. destruct (b_ticks b) eqn:Et; [inversion E3; subst; split; [apply rel_refl|congruence]|].
    rewrite <- Et in *. destruct (amem (c_tick c) (snd a2)) eqn:Em.
    - pose proof (prepend_rel (tick_new c b) _ _ _ _ _ I3 E3) as R. split; [assumption|]. intros _. now apply (r_mono _ _ _ _ R).
    - inversion E3; subst. split; [apply new_rel; [split; [reflexivity|left; congruence]|assumption]|]. intros _. apply new_has. }
  destruct R3 as [R3 T3].
  destruct (st_after_ticks c (b_after_ticks b) a3) as [e|a4] eqn:E4; [discriminate|].
  assert (R4 : rel (tick_new c b) (TLof c b) a3 a4 /\ (b_after_ticks b <> [] -> amem (c_tick c) (snd a4) = true)).
  { unfold st_after_ticks in E4. destruct (b_after_ticks b) eqn:Et; [inversion E4; subst; split; [apply rel_refl|congruence]|].
    rewrite <- Et in *. destruct (amem (c_tick c) (snd a3)) eqn:Em.
    - pose proof (append_rel (tick_new c b) _ _ _ _ _ I4 E4) as R. split; [assumption|]. intros _. now apply (r_mono _ _ _ _ R).
    - inversion E4; subst. split; [apply new_rel; [split; [reflexivity|right; congruence]|assumption]|]. intros _. apply new_has. }
  destruct R4 as [R4 T4].
  destruct (after_funcs (b_after_func b) a4) as [e|a5] eqn:E5; [discriminate|].
  pose proof (after_funcs_rel (tick_new c b) _ _ _ _ I5 E5) as R5.
  inversion H; subst. exists (snd a5). split; [|split; [reflexivity|]].
  - destruct a5. simpl. eauto using rel_trans.
  - intros [Ht|Ht].
    + apply (r_mono _ _ _ _ R5), (r_mono _ _ _ _ R4). auto.
    + apply (r_mono _ _ _ _ R5). auto.
Qed.

(* ------------------------------------------------------------------ emit *)
Lemma emit_funcs_spec c h f out :
  emit_funcs c h f = inr out ->
  map fst out = map (fkey_of c) (map fst f) /\
  (forall k x, In (k, x) out -> exists p id ls, In (p, id) f /\ nget id h = Some ls /\ k = fkey_of c p /\ x = FLines ls).
Proof.
  revert out. induction f as [|[p id] r IH]; simpl; intros out H.
  - inversion H; subst. split; [reflexivity|]. intros k x [].
  - destruct (nget id h) as [ls|] eqn:En; [|discriminate]. unfold bind in H.
    destruct (emit_funcs c h r) as [e|out'] eqn:Er; [discriminate|]. inversion H; subst. clear H.
    destruct (IH _ eq_refl) as [K S]. split; [simpl; now rewrite K|].
    intros k x [Hx|Hx].
    + inversion Hx; subst. exists p, id, ls. auto.
    + destruct (S _ _ Hx) as (p' & id' & ls' & H1 & H2 & H3 & H4). exists p', id', ls'. auto.
Qed.

Lemma emit_jsons_In c js k x :
  In (k, x) (emit_jsons c js) -> exists p t, In (p, (t, true)) js /\ k = jkey_of c p /\ x = FJson t.
Proof.
  unfold emit_jsons. intros H. apply in_flat_map in H as [[p [t tr]] [Hin Hx]]. simpl in Hx.
  destruct tr; [|contradiction]. destruct Hx as [Hx|[]]. inversion Hx; subst. eauto.
Qed.
Lemma future_jsons_key c st p :
  In p (future_jsons st) -> In (jkey_of c p) (map fst (emit_jsons c (jsons st))).
Proof.
  unfold future_jsons, emit_jsons. intros H. apply in_flat_map in H as [[p' [t tr]] [Hin Hx]]. simpl in Hx.
  destruct tr; [|contradiction]. destruct Hx as [->|[]].
  apply in_map_iff. exists (jkey_of c p, FJson t). split; [reflexivity|].
  apply in_flat_map. exists (p, (t, true)). split; [assumption|now left].
Qed.

Lemma kmem_In k ks : In k ks -> kmem k ks = true.
Proof. intros H. unfold kmem. apply existsb_exists. exists k. split; [assumption|now apply fkey_eqb_eq]. Qed.

(* every function that disc counts on exists after assemble *)
Lemma future_paths_present c b st h' f' p :
  assemble c b st = inr (h', f') -> In p (future_paths c b st) -> amem p f' = true.
Proof.
  intros A H. destruct (assemble_spec _ _ _ _ _ A) as (f2 & R & -> & T).
  unfold future_paths in H. apply in_app_or in H as [H|H]; [|apply in_app_or in H as [H|H]].
  - apply merge_privs_mono, (r_mono _ _ _ _ R). simpl.
    apply in_map_iff in H as [[p' id] [<- Hin]]. eapply In_amem; eauto.
  - apply in_flat_map in H as [[g inner] [Hg Hn]]. apply in_map_iff in Hn as [[n id] [<- Hn]].
    eapply merge_privs_has; eauto.
  - apply merge_privs_mono.
    destruct (b_ticks b) eqn:E1; [destruct (b_after_ticks b) eqn:E2; [contradiction|]|];
      destruct H as [<-|[]]; apply T; [right|left]; discriminate.
Qed.

Section Build.
  Variables (c : cfg) (b : bdata) (st : state) (files : list (fkey * fcontent)).
  Hypothesis HB : build c b st = inr files.

  Lemma build_inv : exists h' f' ff,
    assemble c b st = inr (h', f') /\ checks c b st f' = None /\ emit_funcs c h' f' = inr ff /\
    files = (emit_tags c h' f' ++ ff ++ emit_jsons c (jsons st))%list.
  Proof.
    unfold build, bind in HB. destruct (assemble c b st) as [e|[h' f']] eqn:A; [discriminate|]. simpl in HB.
    destruct (checks c b st f') eqn:C; [discriminate|]. unfold emit, bind in HB.
    destruct (emit_funcs c h' f') as [e|ff] eqn:E; [discriminate|]. inversion HB; subst. eauto 10.
  Qed.

  Lemma func_key_in p h' f' ff :
    emit_funcs c h' f' = inr ff -> amem p f' = true ->
    files = (emit_tags c h' f' ++ ff ++ emit_jsons c (jsons st))%list ->
    In (fkey_of c p) (keys files).
  Proof.
    intros E M ->. unfold keys. rewrite !map_app. apply in_or_app. right. apply in_or_app. left.
    destruct (emit_funcs_spec _ _ _ _ E) as [K _]. rewrite K. apply in_map. now apply amem_keys.
  Qed.

  (* a reference that disc accepts resolves in the output *)
  Lemma defined_resolves r :
    paths_disc c b st = true -> ref_defined c b st r = true -> ref_resolves c (keys files) r = true.
  Proof.
    intros PD RD. destruct build_inv as (h' & f' & ff & A & C & E & F).
    unfold ref_resolves. unfold ref_defined in RD. destruct (ref_own c r) eqn:O; [|reflexivity]. simpl in RD |- *.
    unfold paths_disc in PD. repeat (apply andb_true_iff in PD as [PD ?]).
    destruct r as [l|l]; simpl.
    - apply existsb_exists in RD as [p [Hp Hl]]. apply String.eqb_eq in Hl. subst l.
      rewrite forallb_forall in PD. unfold fmt.
      rewrite (resolve_fmt _ (c_legacy c)) by auto. apply kmem_In.
      eapply func_key_in; eauto using future_paths_present.
    - destruct (resolve_tag (c_legacy c) l) as [k|]; [|discriminate].
      apply existsb_exists in RD as [p [Hp Hk]]. apply fkey_eqb_eq in Hk. subst k. apply kmem_In.
      rewrite F. unfold keys. rewrite !map_app. apply in_or_app. right. apply in_or_app. right.
      now apply future_jsons_key.
  Qed.

  Lemma reachable_lines id l :
    In id (reachable_ids st) -> In l (lines_at (heap st) id) -> In l (all_lines c b st).
  Proof.
    intros H1 H2. unfold all_lines. apply in_or_app. left. apply in_flat_map. eauto.
  Qed.

  (* every line of every emitted function is a line handed to the DataPack or added by build() *)
  Lemma emitted_lines k ls l :
    In (k, FLines ls) files -> In l ls -> In l (all_lines c b st).
  Proof.
    intros Hin Hl. destruct build_inv as (h' & f' & ff & A & C & E & F).
    destruct (assemble_spec _ _ _ _ _ A) as (f2 & R & -> & T).
    assert (Hff : In (k, FLines ls) ff).
    { rewrite F in Hin. apply in_app_or in Hin as [Hin|Hin].
      - unfold emit_tags in Hin. destruct Hin as [Hin|Hin]; [discriminate|].
        destruct (tick_nonempty c h' _); [destruct Hin as [Hin|[]]; discriminate|contradiction].
      - apply in_app_or in Hin as [Hin|Hin]; [assumption|].
        apply emit_jsons_In in Hin as (p & t & _ & _ & Hx). discriminate. }
    destruct (emit_funcs_spec _ _ _ _ E) as [_ S].
    destruct (S _ _ Hff) as (p & id & ls' & Hent & Hn & -> & Hx). inversion Hx; subst ls'. clear Hx.
    destruct (r_lines _ _ _ _ R _ _ Hn _ Hl) as [Hold|Hnew].
    - simpl in Hold.
      assert (Hid : In id (reachable_ids st)).
      { apply merge_privs_ent in Hent as [Hent|(g & inner & n & H1 & H2 & H3)].
        - destruct (r_ent _ _ _ _ R _ _ Hent) as [H0|[H0 _]]; simpl in H0.
          + unfold reachable_ids. apply in_or_app. left. change id with (snd (p, id)). now apply in_map.
          + unfold lines_at in Hold. rewrite H0 in Hold. contradiction.
        - unfold reachable_ids. apply in_or_app. right. apply in_flat_map. exists (g, inner). split; [assumption|].
          simpl. change id with (snd (n, id)). now apply in_map. }
      now apply reachable_lines with id.
    - unfold all_lines. apply in_or_app. now right.
  Qed.

  Lemma tag_ref_resolves p h' f' ff :
    assemble c b st = inr (h', f') -> emit_funcs c h' f' = inr ff ->
    files = (emit_tags c h' f' ++ ff ++ emit_jsons c (jsons st))%list ->
    amem p f' = true -> mem_str (first_seg p) (c_overrides c) = false -> no_char ch_colon (c_ns c) = true ->
    ref_resolves c (keys files) (RFunc (c_ns c ++ ":" ++ p)) = true.
  Proof.
    intros A E F M O N. unfold ref_resolves.
    change (ref_key c (RFunc (c_ns c ++ ":" ++ p))) with (resolve_func (c_legacy c) (c_ns c ++ ":" ++ p)).
    rewrite resolve_plain by assumption.
    rewrite <- (func_key_plain (c_ns c) (c_legacy c) (c_overrides c) p O).
    rewrite kmem_In; [apply orb_true_r|]. eapply func_key_in; eauto.
  Qed.

  (* (C) text closure *)
  Theorem build_closed : disc c b st = true -> closedb c files = true.
  Proof.
    intros D. unfold disc in D. apply andb_true_iff in D as [D TF]. apply andb_true_iff in D as [TD PD].
    unfold text_disc in TD. apply andb_true_iff in TD as [TD1 TD2].
    rewrite forallb_forall in TD1, TD2.
    destruct build_inv as (h' & f' & ff & A & C & E & F).
    unfold tag_free in TF. repeat (apply andb_true_iff in TF as [TF ?]).
    assert (N : no_char ch_colon (c_ns c) = true).
    { unfold paths_disc in PD. repeat (apply andb_true_iff in PD as [PD ?]). assumption. }
    unfold closedb. apply forallb_forall. intros [k x] Hin. apply forallb_forall. intros r Hr.
    unfold refs_of_file in Hr. simpl in Hr. destruct x as [ls|t|v].
    - apply in_flat_map in Hr as [l [Hl Hr]].
      apply defined_resolves; [assumption|].
      pose proof (TD1 _ (emitted_lines _ _ _ Hin Hl)) as Q. rewrite forallb_forall in Q. auto.
    - (* json handed to the DataPack *)
      assert (Hj : In (k, FJson t) (emit_jsons c (jsons st))).
      { rewrite F in Hin. apply in_app_or in Hin as [Hin|Hin].
        - unfold emit_tags in Hin. destruct Hin as [Hin|Hin]; [discriminate|].
          destruct (tick_nonempty c h' f'); [destruct Hin as [Hin|[]]; discriminate|contradiction].
        - apply in_app_or in Hin as [Hin|Hin]; [|assumption].
          destruct (emit_funcs_spec _ _ _ _ E) as [_ S]. destruct (S _ _ Hin) as (? & ? & ? & _ & _ & _ & Hx). discriminate. }
      apply emit_jsons_In in Hj as (p & t' & Hp & -> & Ht). inversion Ht; subst t'.
      apply defined_resolves; [assumption|].
      pose proof (TD2 _ Hp) as Q. simpl in Q. rewrite forallb_forall in Q. auto.
    - (* tags written by build() *)
      destruct Hr as [<-|[]].
      assert (Ht : In (k, FTag v) (emit_tags c h' f')).
      { rewrite F in Hin. apply in_app_or in Hin as [Hin|Hin]; [assumption|].
        apply in_app_or in Hin as [Hin|Hin].
        - destruct (emit_funcs_spec _ _ _ _ E) as [_ S]. destruct (S _ _ Hin) as (? & ? & ? & _ & _ & _ & Hx). discriminate.
        - apply emit_jsons_In in Hin as (? & ? & _ & _ & Hx). discriminate. }
      unfold emit_tags in Ht. destruct Ht as [Ht|Ht].
      + inversion Ht; subst k v. unfold load_loc. eapply tag_ref_resolves; eauto.
        * destruct (assemble_spec _ _ _ _ _ A) as (f2 & R & -> & T).
          apply merge_privs_mono, (r_mono _ _ _ _ R). assumption.
        * now apply negb_true_iff.
      + destruct (tick_nonempty c h' f') eqn:TN; [|contradiction]. destruct Ht as [Ht|[]].
        inversion Ht; subst k v. unfold tick_loc. eapply tag_ref_resolves; eauto.
        * unfold tick_nonempty in TN. unfold amem. destruct (aget (c_tick c) f'); [reflexivity|discriminate].
        * now apply negb_true_iff.
  Qed.

  (* (E) every emitted function consists of non-empty, newline-free lines *)
  Theorem build_lines k ls : heap_wf (heap st) -> In (k, FLines ls) files -> Forall line_ok ls.
  Proof.
    intros W Hin. destruct build_inv as (h' & f' & ff & A & C & E & F).
    destruct (assemble_spec _ _ _ _ _ A) as (f2 & R & -> & T).
    assert (W' : heap_wf h'). { apply (r_wf _ _ _ _ R); [assumption|apply fsplit_ok]. }
    rewrite F in Hin. apply in_app_or in Hin as [Hin|Hin].
    - unfold emit_tags in Hin. destruct Hin as [Hin|Hin]; [discriminate|].
      destruct (tick_nonempty c h' _); [destruct Hin as [Hin|[]]; discriminate|contradiction].
    - apply in_app_or in Hin as [Hin|Hin].
      + destruct (emit_funcs_spec _ _ _ _ E) as [_ S]. destruct (S _ _ Hin) as (p & id & ls' & _ & Hn & _ & Hx).
        inversion Hx; subst. eauto.
      + apply emit_jsons_In in Hin as (? & ? & _ & _ & Hx). discriminate.
  Qed.
End Build.

(* ------------------------------------------------------------------ references handed out by the machine *)
Lemma check_called_none c st f l :
  check_called c st f l = None ->
  forall p pre, In (p, pre) l -> amem p f = true \/ mem_str (first_seg p) (c_links c) = true.
Proof.
  induction l as [|[p0 pre0] r IH]; simpl; intros H p pre Hin; [contradiction|].
  destruct (priv_violation st p0 pre0); [discriminate|].
  destruct (negb (amem p0 f) && negb (mem_str (first_seg p0) (c_links c))) eqn:E; [discriminate|].
  destruct Hin as [Hin|Hin]; [|eauto]. inversion Hin; subst.
  apply andb_false_iff in E as [E|E]; apply negb_false_iff in E; auto.
Qed.

Lemma ppath_first_seg c g n : first_seg (ppath c g n) = first_seg (c_private c).
Proof.
  unfold ppath, private_path.
  change (c_private c ++ "/" ++ g ++ "/" ++ n) with (c_private c ++ String ch_slash (g ++ "/" ++ n)).
  apply first_seg_app.
Qed.

Lemma alloc_disc_iff ops :
  alloc_disc ops = true <->
  (forall g n r, In (OCallF g n r) ops -> is_macro_name n = false -> exists id, In (OPSet g n id) ops).
Proof.
  unfold alloc_disc. rewrite forallb_forall. split.
  - intros H g n r Hin M. specialize (H _ Hin). simpl in H. rewrite M in H. simpl in H.
    apply existsb_exists in H as [o [Ho Hp]].
    destruct o; simpl in Hp; try discriminate. apply andb_true_iff in Hp as [Hg Hn].
    apply String.eqb_eq in Hg. apply String.eqb_eq in Hn. subst. eauto.
  - intros H o Hin. destruct o; try reflexivity. destruct (is_macro_name n) eqn:M; [reflexivity|].
    destruct (H _ _ _ Hin M) as [id Hid]. simpl.
    apply existsb_exists. exists (OPSet g n id). split; [assumption|]. simpl. now rewrite !string_eqb_refl.
Qed.

Section Handed.
  Variables (c : cfg) (ops : list op) (b : bdata) (st : state) (files : list (fkey * fcontent)).
  Hypothesis HR : run c ops = Some st.
  Hypothesis HB : build c b st = inr files.

  (* (A) every call_func(g, n) whose private function is stored before build() names an emitted file *)
  Theorem callf_resolves g n ret :
    In (OCallF g n ret) ops -> alloc_disc ops = true -> is_macro_name n = false ->
    no_char ch_colon (c_ns c) = true -> mem_str (first_seg (c_private c)) (c_overrides c) = false ->
    exists loc k, ret = "function " ++ loc /\ resolve_func (c_legacy c) loc = Some k /\ In k (keys files).
  Proof.
    intros Hin AD M N O.
    destruct (run_from_facts _ _ _ _ HR) as (_ & _ & P3 & _ & P5).
    pose proof (P5 _ _ _ Hin) as ->.
    destruct (proj1 (alloc_disc_iff ops) AD _ _ _ Hin M) as [id0 Ho].
    destruct (P3 _ _ _ Ho) as (inner & id' & Ag & An).
    destruct (build_inv _ _ _ _ HB) as (h' & f' & ff & A & C & E & F).
    destruct (assemble_spec _ _ _ _ _ A) as (f2 & R & Ef & T).
    exists (call_func_loc (c_ns c) (c_private c) g n), (fkey_of c (ppath c g n)).
    split; [reflexivity|]. split.
    - unfold call_func_loc, fkey_of. rewrite resolve_plain by assumption.
      rewrite func_key_plain; [reflexivity|]. fold (ppath c g n). now rewrite ppath_first_seg.
    - eapply func_key_in; eauto. rewrite Ef. eapply merge_privs_has; eauto using aget_In.
  Qed.

  (* (B) every user call that build() accepted names an emitted file, unless its namespace is #link-ed *)
  Theorem called_resolves p pre :
    In (OCalled p pre) ops -> mem_str (first_seg p) (c_links c) = false ->
    path_ok (c_overrides c) p = true -> no_char ch_colon (c_ns c) = true ->
    forallb (no_char ch_colon) (c_overrides c) = true ->
    exists k, resolve_func (c_legacy c) (fmt c p) = Some k /\ In k (keys files).
  Proof.
    intros Hin L PO N NO.
    destruct (run_from_facts _ _ _ _ HR) as (_ & _ & _ & P4 & _).
    destruct (amem_In _ _ (P4 _ _ Hin)) as [pre' Hc].
    destruct (build_inv _ _ _ _ HB) as (h' & f' & ff & A & C & E & F).
    unfold checks in C. destruct (check_called c st f' (called st)) eqn:CC; [discriminate|].
    destruct (check_called_none _ _ _ _ CC _ _ Hc) as [M|M]; [|congruence].
    exists (fkey_of c p). split; [apply resolve_fmt; assumption|]. eapply func_key_in; eauto.
  Qed.
End Handed.

(* ------------------------------------------------------------------ (F) load and tick tags *)
Lemma tag_keys_differ c : tag_key c "tick" <> tag_key c "load".
Proof. unfold tag_key, func_folder. destruct (c_legacy c); discriminate. Qed.
Lemma fkey_of_not_json c p : k_json (fkey_of c p) = false.
Proof.
  unfold fkey_of, func_key. destruct (split_first ch_slash p) as [f [r|]]; destruct (mem_str f (c_overrides c)); reflexivity.
Qed.

Section Tags.
  Variables (c : cfg) (b : bdata) (st : state) (files : list (fkey * fcontent)).
  Hypothesis HB : build c b st = inr files.
  Hypothesis TF : tag_free c st = true.

  Lemma tag_unique name x v :
    (name = "load" \/ name = "tick") ->
    In (tag_key c name, x) files -> In (tag_key c name, FTag v) files -> x = FTag v.
  Proof.
    intros Hname Hx Hv. destruct (build_inv _ _ _ _ HB) as (h' & f' & ff & A & C & E & F).
    unfold tag_free in TF. repeat (apply andb_true_iff in TF as [TF ?]). rewrite forallb_forall in TF.
    assert (Cls : forall y, In (tag_key c name, y) files -> In (tag_key c name, y) (emit_tags c h' f')).
    { intros y Hy. rewrite F in Hy. apply in_app_or in Hy as [Hy|Hy]; [assumption|].
      apply in_app_or in Hy as [Hy|Hy].
      - destruct (emit_funcs_spec _ _ _ _ E) as [_ S]. destruct (S _ _ Hy) as (p & ? & ? & _ & _ & Hk & _).
        pose proof (fkey_of_not_json c p) as J. rewrite <- Hk in J. discriminate.
      - apply emit_jsons_In in Hy as (p & t & Hp & Hk & _).
        assert (Hf : In p (future_jsons st)).
        { unfold future_jsons. apply in_flat_map. exists (p, (t, true)). split; [assumption|now left]. }
        specialize (TF _ Hf). apply andb_true_iff in TF as [T1 T2].
        apply negb_true_iff in T1, T2. rewrite <- Hk in T1, T2.
        destruct Hname as [->| ->]; [rewrite (proj2 (fkey_eqb_eq _ _) eq_refl) in T1
                                    |rewrite (proj2 (fkey_eqb_eq _ _) eq_refl) in T2]; discriminate. }
    apply Cls in Hx. apply Cls in Hv. unfold emit_tags in Hx, Hv.
    pose proof (tag_keys_differ c) as D.
    destruct Hname as [->| ->].
    - destruct Hx as [Hx|Hx].
      + inversion Hx; subst x. destruct Hv as [Hv|Hv]; [now inversion Hv|].
        destruct (tick_nonempty c h' f'); [destruct Hv as [Hv|[]]; inversion Hv; congruence|contradiction].
      + destruct (tick_nonempty c h' f'); [destruct Hx as [Hx|[]]; inversion Hx; congruence|contradiction].
    - destruct Hx as [Hx|Hx]; [inversion Hx; congruence|].
      destruct Hv as [Hv|Hv]; [inversion Hv; congruence|].
      destruct (tick_nonempty c h' f'); [|contradiction].
      destruct Hx as [Hx|[]], Hv as [Hv|[]]. inversion Hx; inversion Hv; subst. reflexivity.
  Qed.

  (* the load tag names the load function and nothing else is written to its file *)
  Theorem load_tag_registered :
    In (tag_key c "load", FTag (load_loc c)) files /\
    (forall x, In (tag_key c "load", x) files -> x = FTag (load_loc c)).
  Proof.
    destruct (build_inv _ _ _ _ HB) as (h' & f' & ff & A & C & E & F).
    assert (H : In (tag_key c "load", FTag (load_loc c)) files).
    { rewrite F. apply in_or_app. left. now left. }
    split; [assumption|]. intros x Hx. apply (tag_unique "load" x (load_loc c)); auto.
  Qed.

  (* the tick tag is written iff the assembled tick function is non-empty, and then names it *)
  Theorem tick_tag_registered h' f' :
    assemble c b st = inr (h', f') ->
    (tick_nonempty c h' f' = true -> In (tag_key c "tick", FTag (tick_loc c)) files /\
                                     forall x, In (tag_key c "tick", x) files -> x = FTag (tick_loc c)) /\
    (tick_nonempty c h' f' = false -> forall x, ~ In (tag_key c "tick", x) files).
  Proof.
    intros A. destruct (build_inv _ _ _ _ HB) as (h2 & f2 & ff & A2 & C & E & F).
    rewrite A in A2. inversion A2; subst h2 f2. clear A2. split.
    - intros TN. assert (H : In (tag_key c "tick", FTag (tick_loc c)) files).
      { rewrite F. apply in_or_app. left. unfold emit_tags. rewrite TN. right. now left. }
      split; [assumption|]. intros x Hx. apply (tag_unique "tick" x (tick_loc c)); auto.
    - intros TN x Hx. unfold tag_free in TF. repeat (apply andb_true_iff in TF as [TF ?]). rewrite forallb_forall in TF.
      rewrite F in Hx. apply in_app_or in Hx as [Hx|Hx].
      + unfold emit_tags in Hx. rewrite TN in Hx. destruct Hx as [Hx|[]]. inversion Hx.
        pose proof (tag_keys_differ c). congruence.
      + apply in_app_or in Hx as [Hx|Hx].
        * destruct (emit_funcs_spec _ _ _ _ E) as [_ S]. destruct (S _ _ Hx) as (p & ? & ? & _ & _ & Hk & _).
          pose proof (fkey_of_not_json c p) as J. rewrite <- Hk in J. discriminate.
        * apply emit_jsons_In in Hx as (p & t & Hp & Hk & _).
          assert (Hf : In p (future_jsons st)).
          { unfold future_jsons. apply in_flat_map. exists (p, (t, true)). split; [assumption|now left]. }
          specialize (TF _ Hf). apply andb_true_iff in TF as [_ T2]. apply negb_true_iff in T2.
          rewrite <- Hk, (proj2 (fkey_eqb_eq _ _) eq_refl) in T2. discriminate.
  Qed.
End Tags.

(* ------------------------------------------------------------------ (D) every emitted key is a legal resource location *)
Definition key_legal (k : fkey) : Prop :=
  legal_ns (k_ns k) = true /\ legal_path (k_path k) = true /\
  (k_folder k = None \/ k_folder k = Some "function" \/ k_folder k = Some "functions").

Lemma lp_split p : forall fr ad f rest,
  lp fr ad p = true -> split_first ch_slash p = (f, Some rest) -> lp true true rest = true.
Proof.
  induction p as [|ch r IH]; simpl; intros fr ad f rest L S; [discriminate|].
  destruct (Ascii.eqb ch ch_slash) eqn:E.
  - inversion S; subst. repeat (apply andb_true_iff in L as [L ?]). assumption.
  - destruct (split_first ch_slash r) as [a o] eqn:Sr. inversion S; subst.
    apply andb_true_iff in L as [_ L]. eapply IH; eauto.
Qed.

Lemma folder_cases legacy :
  Some (func_folder legacy) = Some "function" \/ Some (func_folder legacy) = Some "functions".
Proof. destruct legacy; auto. Qed.

Lemma func_key_legal ns legacy ov p :
  legal_ns ns = true -> forallb legal_ns ov = true -> legal_path p = true -> path_ok ov p = true ->
  key_legal (func_key ns legacy ov p).
Proof.
  intros Hns Hov Hp Hok. unfold func_key, path_ok in *. unfold key_legal.
  destruct (split_first ch_slash p) as [f [rest|]] eqn:S.
  - destruct (mem_str f ov) eqn:M; simpl.
    + split; [eapply forallb_mem; eauto|]. split; [eapply lp_split; eauto|right; apply folder_cases].
    + split; [assumption|]. split; [assumption|right; apply folder_cases].
  - destruct (mem_str f ov) eqn:M; [discriminate|]. simpl. split; [assumption|]. split; [assumption|right; apply folder_cases].
Qed.
Lemma json_key_legal ns ov p :
  legal_ns ns = true -> forallb legal_ns ov = true -> legal_path p = true -> path_ok ov p = true ->
  key_legal (json_key ns ov p).
Proof.
  intros Hns Hov Hp Hok. unfold json_key, path_ok in *. unfold key_legal.
  destruct (split_first ch_slash p) as [f [rest|]] eqn:S.
  - destruct (mem_str f ov) eqn:M; simpl.
    + split; [eapply forallb_mem; eauto|]. split; [eapply lp_split; eauto|now left].
    + split; [assumption|]. split; [assumption|now left].
  - destruct (mem_str f ov) eqn:M; [discriminate|]. simpl. split; [assumption|]. split; [assumption|now left].
Qed.

Lemma final_paths_future c b st h' f' p id :
  assemble c b st = inr (h', f') -> In (p, id) f' -> In p (future_paths c b st).
Proof.
  intros A H. destruct (assemble_spec _ _ _ _ _ A) as (f2 & R & -> & T). unfold future_paths.
  apply merge_privs_ent in H as [H|(g & inner & n & H1 & H2 & ->)].
  - destruct (r_ent _ _ _ _ R _ _ H) as [H0|[_ [-> H0]]]; simpl in H0.
    + apply in_or_app. left. change p with (fst (p, id)). now apply in_map.
    + apply in_or_app. right. apply in_or_app. right.
      destruct (b_ticks b); [destruct (b_after_ticks b); [destruct H0; congruence|]|]; now left.
  - apply in_or_app. right. apply in_or_app. left. apply in_flat_map. exists (g, inner). split; [assumption|].
    simpl. change (ppath c g n) with ((fun e : string * nat => ppath c g (fst e)) (n, id)). now apply in_map.
Qed.

Theorem build_keys_legal c b st files :
  build c b st = inr files -> cfg_legal c = true -> paths_legal c b st = true -> paths_disc c b st = true ->
  forall k, In k (keys files) -> key_legal k.
Proof.
  intros HB CL PL PD k Hk. destruct (build_inv _ _ _ _ HB) as (h' & f' & ff & A & C & E & F).
  unfold cfg_legal in CL. apply andb_true_iff in CL as [CL Cov]. apply andb_true_iff in CL as [CL Ctick].
  apply andb_true_iff in CL as [CL Cload]. apply andb_true_iff in CL as [Cns Cpriv].
  unfold paths_legal in PL. apply andb_true_iff in PL as [PL1 PL2]. rewrite forallb_forall in PL1, PL2.
  unfold paths_disc in PD. repeat (apply andb_true_iff in PD as [PD ?]).
  match goal with H : forallb (path_ok _) (future_jsons st) = true |- _ => rename H into PD2 end.
  rewrite forallb_forall in PD, PD2.
  unfold keys in Hk. apply in_map_iff in Hk as [[k' x] [<- Hin]]. simpl.
  rewrite F in Hin. apply in_app_or in Hin as [Hin|Hin]; [|apply in_app_or in Hin as [Hin|Hin]].
  - assert (T : forall name, name = "load" \/ name = "tick" -> key_legal (tag_key c name)).
    { intros name [->| ->]; unfold key_legal, tag_key, func_folder; destruct (c_legacy c); vm_compute; auto. }
    unfold emit_tags in Hin. destruct Hin as [Hin|Hin]; [inversion Hin; apply T; now left|].
    destruct (tick_nonempty c h' f'); [destruct Hin as [Hin|[]]; inversion Hin; apply T; now right|contradiction].
  - destruct (emit_funcs_spec _ _ _ _ E) as [_ S]. destruct (S _ _ Hin) as (p & id & ls & Hent & _ & -> & _).
    pose proof (final_paths_future _ _ _ _ _ _ _ A Hent) as Hf. unfold fkey_of. apply func_key_legal; auto.
  - apply emit_jsons_In in Hin as (p & t & Hp & -> & _).
    assert (Hf : In p (future_jsons st)).
    { unfold future_jsons. apply in_flat_map. exists (p, (t, true)). split; [assumption|now left]. }
    unfold jkey_of. apply json_key_legal; auto.
Qed.

(* ------------------------------------------------------------------ allocation discipline of the core call-site shapes *)
Lemma core_seq_disc c ops : core_seq c ops -> alloc_disc ops = true.
Proof.
  intros H. apply alloc_disc_iff. intros g0 n0 r0 Hin _. revert g0 n0 r0 Hin. induction H; intros g0 n0 r0 Hin.
  - contradiction.
  - apply in_app_or in Hin as [Hin|Hin]; [destruct (IHcore_seq1 _ _ _ Hin) as [i Hi]|destruct (IHcore_seq2 _ _ _ Hin) as [i Hi]];
      exists i; apply in_or_app; auto.
  - destruct Hin as [->|[]]. discriminate.
  - destruct Hin as [Hin|[Hin|[Hin|[]]]]; try discriminate. inversion Hin; subst. exists id. right. now left.
  - assert (Hp : In (OPSet g n id) (callf c g n :: body ++ [ONew id cmds; OPSet g n id; callf c g n])).
    { right. apply in_or_app. right. right. now left. }
    destruct Hin as [Hin|Hin]; [inversion Hin; subst; eauto|].
    apply in_app_or in Hin as [Hin|Hin].
    + destruct (IHcore_seq _ _ _ Hin) as [i Hi]. exists i. right. apply in_or_app. now left.
    + destruct Hin as [Hin|[Hin|[Hin|[]]]]; try discriminate. inversion Hin; subst. eauto.
  - assert (Hp : In (OPSet g n id) ([ONew id cmds; OPSet g n id] ++ mid ++ [callf c g n])).
    { right. now left. }
    simpl in Hin. destruct Hin as [Hin|[Hin|Hin]]; try discriminate.
    apply in_app_or in Hin as [Hin|Hin].
    + destruct (IHcore_seq _ _ _ Hin) as [i Hi]. exists i. simpl. right. right. apply in_or_app. now left.
    + destruct Hin as [Hin|[]]. inversion Hin; subst. exists id. simpl. right. now left.
Qed.
