(* Proofs.LoopSwitch — loops nested in / around `switch` statements and `execute … run { … }` blocks
   (Model.LoopSwitch).  Property C05, strengthening round 4.

   Part A  Model.LoopSwitch is a conservative extension of Model.Loop: on the trees of Model.Loop it is
           Model.Loop's lowering (so every C04 / C05 theorem about compile_stmts speaks about xcompile_stmts).
   Part B  the lowered switch, RELATIONALLY: for case bodies that are arbitrary command lists — in
           particular bodies holding loops, which need not terminate from every state — the dispatcher
           terminates in st' iff the lines of the case selected at source level do (Proofs.Switch proves
           the forward direction for total, functional bodies only).
   Part C  a loop inside a case / a block is followed by the rest of the case / block.
   Part D  whole statement trees with switch and blocks, by mutual induction. *)
From Coq Require Import ZArith String List Bool Lia.
From JMCV Require Import Base.Int32 Base.Dec MC.Syntax MC.Sem MC.Facts Model.Names Model.PrivAlloc Model.IfElse
     Model.Loop Model.LoopSwitch Proofs.IfElseBase Proofs.IfElse Proofs.IfElseTrace Proofs.Loop Proofs.LoopAlloc Proofs.LoopLink.
From JMCV Require Model.Switch Proofs.Switch.
Import ListNotations.
Local Open Scope list_scope.

Module MS := JMCV.Model.Switch.
Module PS := JMCV.Proofs.Switch.

(* ================================================================== Part A: conservative extension *)

Definition lift (o : option (list cmd * alloc)) (a : xalloc) : option (list cmd * xalloc) :=
  match o with Some (l, r) => Some (l, set_a a r) | None => None end.

Lemma set_a_set_a a r r' : set_a (set_a a r) r' = set_a a r'.
Proof. reflexivity. Qed.
Lemma xa_set_a a r : xa (set_a a r) = r.
Proof. reflexivity. Qed.
Lemma set_a_xa a : set_a a (xa a) = a.
Proof. destruct a; reflexivity. Qed.

Lemma is_xbnil_embed b : is_xbnil (embed_branches b) = is_bnil b.
Proof. destruct b; reflexivity. Qed.

Section Embed.
  Variable nm : names.
  Variable cf : MS.cfg.

  Definition E_stmt (s : stmt) : Prop :=
    forall a, xcompile_stmt nm cf (embed_stmt s) a = lift (compile_stmt nm s (xa a)) a.
  Definition E_stmts (l : stmts) : Prop :=
    forall a, xcompile_stmts nm cf (embed_stmts l) a = lift (compile_stmts nm l (xa a)) a.
  Definition E_branches (b : branches) : Prop :=
    forall he a, xcompile_branches nm cf he (embed_branches b) a =
                 match compile_branches nm he b (xa a) with
                 | Some (ws, le, r) => Some (ws, le, set_a a r)
                 | None => None
                 end.
  Definition E_oelse (e : oelse) : Prop :=
    match e with ENone => True | ESome body => E_stmts body end.

  Lemma embed_all :
    (forall s, E_stmt s) /\ (forall l, E_stmts l) /\ (forall b, E_branches b) /\ (forall e, E_oelse e).
  Proof.
    apply stmt_mutind; unfold E_stmt, E_stmts, E_branches, E_oelse.
    - (* SCmd *) intros c a. cbn. rewrite set_a_xa. reflexivity.
    - (* SIf *)
      intros b Hb e He a.
      destruct b as [|c body r]; [reflexivity|].
      destruct r as [|c2 body2 r2]; destruct e as [|ebody].
      + (* single if *)
        cbn [embed_stmt embed_branches embed_oelse xcompile_stmt compile_stmt].
        pose proof (Hb false a) as Hb1. cbn [embed_branches xcompile_branches compile_branches] in Hb1.
        (* body's equation from the branches hypothesis is awkward: use the one for the statement list *)
        clear Hb1.
        assert (Eb : xcompile_stmts nm cf (embed_stmts body) a = lift (compile_stmts nm body (xa a)) a).
        { specialize (Hb false a). cbn [embed_branches xcompile_branches compile_branches is_xbnil is_bnil andb negb] in Hb.
          destruct (xcompile_stmts nm cf (embed_stmts body) a) as [[l1 a1]|];
            destruct (compile_stmts nm body (xa a)) as [[l2 r2]|]; cbn [lift]; try discriminate; try reflexivity.
          inversion Hb; subst. reflexivity. }
        rewrite Eb. destruct (compile_stmts nm body (xa a)) as [[lines r1]|]; cbn [lift]; [|reflexivity].
        rewrite xa_set_a. destruct (alloc_arrow lines r1) as [[aid r2]|]; [|reflexivity].
        destruct (single_if_code nm c lines aid) as [caller fs]. cbn [lift]. reflexivity.
      + (* one branch + else *)
        cbn [embed_stmt embed_branches embed_oelse xcompile_stmt compile_stmt].
        change (XBCons c (embed_stmts body) XBNil) with (embed_branches (BCons c body BNil)).
        rewrite (Hb true a).
        destruct (compile_branches nm true (BCons c body BNil) (xa a)) as [[[ws le] r1]|]; [|reflexivity].
        cbn [E_oelse] in He. rewrite He, xa_set_a.
        destruct (compile_stmts nm ebody r1) as [[lines r2]|]; cbn [lift]; [|reflexivity].
        rewrite xa_set_a. destruct (finish_chain nm ws (inl lines) r2) as [[caller r3]|]; reflexivity.
      + (* several branches, no else *)
        cbn [embed_stmt embed_branches embed_oelse xcompile_stmt compile_stmt].
        change (XBCons c (embed_stmts body) (XBCons c2 (embed_stmts body2) (embed_branches r2)))
          with (embed_branches (BCons c body (BCons c2 body2 r2))).
        rewrite (Hb false a).
        destruct (compile_branches nm false (BCons c body (BCons c2 body2 r2)) (xa a)) as [[[ws le] r1]|]; [|reflexivity].
        destruct le as [cl|]; [|reflexivity]. rewrite xa_set_a.
        destruct (finish_chain nm ws (inr cl) r1) as [[caller r3]|]; reflexivity.
      + cbn [embed_stmt embed_branches embed_oelse xcompile_stmt compile_stmt].
        change (XBCons c (embed_stmts body) (XBCons c2 (embed_stmts body2) (embed_branches r2)))
          with (embed_branches (BCons c body (BCons c2 body2 r2))).
        rewrite (Hb true a).
        destruct (compile_branches nm true (BCons c body (BCons c2 body2 r2)) (xa a)) as [[[ws le] r1]|]; [|reflexivity].
        cbn [E_oelse] in He. rewrite He, xa_set_a.
        destruct (compile_stmts nm ebody r1) as [[lines r2']|]; cbn [lift]; [|reflexivity].
        rewrite xa_set_a. destruct (finish_chain nm ws (inl lines) r2') as [[caller r3]|]; reflexivity.
    - (* SWhile *)
      intros c body Hb a. cbn [embed_stmt xcompile_stmt compile_stmt].
      destruct (get_count WHILE_NAME (xa a)) as [k r1]. rewrite Hb, xa_set_a.
      destruct (compile_stmts nm body r1) as [[lines r2]|]; cbn [lift]; [|reflexivity].
      destruct (while_code nm c lines k) as [caller fs]. rewrite xa_set_a. reflexivity.
    - (* SDoWhile *)
      intros body Hb c a. cbn [embed_stmt xcompile_stmt compile_stmt].
      destruct (get_count WHILE_NAME (xa a)) as [k r1]. rewrite Hb, xa_set_a.
      destruct (compile_stmts nm body r1) as [[lines r2]|]; cbn [lift]; [|reflexivity].
      destruct (dowhile_code nm c lines k) as [caller fs]. rewrite xa_set_a. reflexivity.
    - (* SFor *)
      intros init c step body Hb a. cbn [embed_stmt xcompile_stmt compile_stmt].
      destruct body as [|s0 r0]; [reflexivity|].
      change (embed_stmts (SCons s0 r0)) with (XCons (embed_stmt s0) (embed_stmts r0)) at 1.
      cbv iota. change (XCons (embed_stmt s0) (embed_stmts r0)) with (embed_stmts (SCons s0 r0)).
      destruct (get_count FOR_NAME (xa a)) as [k r1]. rewrite Hb, xa_set_a.
      destruct (compile_stmts nm (SCons s0 r0) r1) as [[lines r2]|]; cbn [lift]; [|reflexivity].
      destruct (for_code nm init c step lines k) as [caller fs]. rewrite xa_set_a. reflexivity.
    - (* SNil *) intros a. cbn. rewrite set_a_xa. reflexivity.
    - (* SCons *)
      intros s Hs r Hr a. cbn [embed_stmts xcompile_stmts compile_stmts]. rewrite Hs.
      destruct (compile_stmt nm s (xa a)) as [[l1 r1]|]; cbn [lift]; [|reflexivity].
      rewrite Hr, xa_set_a. destruct (compile_stmts nm r r1) as [[l2 r2]|]; cbn [lift]; reflexivity.
    - (* BNil *) intros he a. cbn. rewrite set_a_xa. reflexivity.
    - (* BCons *)
      intros c body Hb r Hr he a. cbn [embed_branches xcompile_branches compile_branches]. rewrite Hb.
      destruct (compile_stmts nm body (xa a)) as [[lines r1]|]; cbn [lift]; [|reflexivity].
      rewrite is_xbnil_embed. destruct (is_bnil r && negb he); [reflexivity|].
      rewrite xa_set_a. destruct (isolate nm lines r1) as [blines r1'].
      destruct (get_count IF_ELSE r1') as [k r2]. rewrite set_a_set_a, Hr, xa_set_a.
      destruct (compile_branches nm he r (add_fn (wbr_fn nm (mkW c blines k)) r2)) as [[[ws le] r3]|]; reflexivity.
    - exact I.
    - intros body Hb. exact Hb.
  Qed.

  (* on Model.Loop's trees the extended lowering IS Model.Loop's lowering *)
  Theorem xcompile_embed l a :
    xcompile_stmts nm cf (embed_stmts l) a = lift (compile_stmts nm l (xa a)) a.
  Proof. apply embed_all. Qed.

  Theorem xcompile_body_embed l :
    xcompile_body nm cf (embed_stmts l) = compile_body nm l.
  Proof.
    unfold xcompile_body, compile_body. rewrite xcompile_embed. cbn [xa xalloc0].
    destruct (compile_stmts nm l alloc0) as [[lines r]|]; cbn [lift]; [|reflexivity].
    unfold all_fns. cbn. rewrite app_nil_r. reflexivity.
  Qed.
End Embed.

(* ================================================================== Part B: the lowered switch, relationally *)

Local Open Scope Z_scope.

Lemma andb_leb_true a v b : a <= v <= b -> ((a <=? v) && (v <=? b))%Z = true.
Proof. intros H. apply andb_true_iff; split; apply Z.leb_le; lia. Qed.
Lemma andb_leb_false a v b : ~ (a <= v <= b)%Z -> ((a <=? v) && (v <=? b))%Z = false.
Proof.
  intros H. apply andb_false_iff. destruct (Z.leb_spec a v); [right; apply Z.leb_gt; lia|left; reflexivity].
Qed.

Section SwitchRel.
  Variable nm : names.
  Variable ft : string -> option (list cmd).
  Variable env : nat -> state -> state.
  Notation runs := (runs ft env).
  Notation steps := (steps ft env).

  Lemma steps_op a o b st st' : steps (COp a o b) st st' <-> st' = fst (do_op st a o b).
  Proof.
    split.
    - intros (fuel & r & H). destruct fuel; [discriminate|]. cbn [exec] in H.
      destruct (do_op st a o b) as [s r0]. cbn [fst]. congruence.
    - intros ->. exists 1%nat, (snd (do_op st a o b)). cbn [exec]. now rewrite <- surjective_pairing.
  Qed.

  Lemma steps_store_get key x st st' :
    steps (CExecute [MStore SResult (DStorage key)] (CGet x)) st st' <->
    st' = mkState (sc st) (supd (stg st) key (Some (rd (sc st) x))) (tr st).
  Proof.
    split.
    - intros (fuel & r & H). destruct fuel as [|[|f]]; [discriminate|discriminate|].
      cbn [exec run_mods app] in H. unfold rd. destruct (sc st x) as [v|]; cbn in H; congruence.
    - intros ->. unfold rd. destruct (sc st x) as [v|] eqn:E.
      + exists 2%nat, (r_ok v). cbn [exec run_mods app]. rewrite E. reflexivity.
      + exists 2%nat, r_fail. cbn [exec run_mods app]. rewrite E. reflexivity.
  Qed.

  (* function sel with storage stor, sel = `$function <pre>$(<key>)` *)
  Lemma steps_callwith sel stor pre key st st' :
    ft sel = Some [CMacroCall pre key] ->
    (steps (CCallWith sel stor) st st' <->
     match stg st (stor ++ " " ++ key)%string with
     | None => st' = st
     | Some v => match ft (pre ++ z_dec v)%string with
                 | None => st' = st
                 | Some body => runs body st st'
                 end
     end).
  Proof.
    intros Hsel. split.
    - intros (fuel & r & H). destruct fuel as [|[|f]]; [discriminate| |].
      + cbn [exec] in H. rewrite Hsel in H. cbn in H. discriminate.
      + cbn [exec] in H. rewrite Hsel in H. cbn [seq_run exec] in H.
        destruct (stg st (stor ++ " " ++ key)%string) as [v|]; [|cbn in H; congruence].
        destruct (ft (pre ++ z_dec v)%string) as [body|]; [|cbn in H; congruence].
        unfold call_res in H.
        destruct (seq_run (exec ft env f no_menv) body st) as [y|] eqn:E; [|discriminate].
        cbn in H. exists f. unfold exec_list. congruence.
    - destruct (stg st (stor ++ " " ++ key)%string) as [v|] eqn:Ek.
      + destruct (ft (pre ++ z_dec v)%string) as [body|] eqn:Ef.
        * intros (fuel & H). exists (S (S fuel)), (r_ok 0). cbn [exec]. rewrite Hsel. cbn [seq_run exec].
          rewrite Ek, Ef. unfold exec_list in H. rewrite H. reflexivity.
        * intros ->. exists 2%nat, (r_ok 0). cbn [exec]. rewrite Hsel. cbn [seq_run exec]. rewrite Ek, Ef. reflexivity.
      + intros ->. exists 2%nat, (r_ok 0). cbn [exec]. rewrite Hsel. cbn [seq_run exec]. rewrite Ek. reflexivity.
  Qed.

  (* ------------------------------------------------------------ binary search tree *)
  Section Bst.
    Variable group : string.
    Variable tmp : score.
    Variable bodies : list (list cmd).
    Variable start : Z.

    (* the case bodies leave the private copy of the switched score alone *)
    Hypothesis frame : forall k st st', runs (nth k bodies []) st st' -> sc st' tmp = sc st tmp.

    Lemma steps_bst_guard a b f st st' v :
      a <= b -> sc st tmp = Some v ->
      (steps (MS.guarded_call tmp (MS.match_range a b) f) st st' <->
       if (a <=? v) && (v <=? b) then steps (CCall f) st st' else st' = st).
    Proof.
      intros Hab Hv. unfold MS.guarded_call.
      change [MIf true (Matches tmp (MS.match_range a b))] with (mods_of [(true, Matches tmp (MS.match_range a b))]).
      rewrite steps_guard. cbn [tests_hold forallb fst snd test_true]. rewrite Hv, PS.in_range_match by assumption.
      destruct ((a <=? v) && (v <=? b)); cbn; reflexivity.
    Qed.

    Lemma bst_node_iff : forall fuel lo hi my next fs next',
        MS.bst fuel nm group tmp bodies start lo hi my next = (fs, next') ->
        (Z.to_nat (hi - lo) < fuel)%nat -> lo <= hi ->
        (forall f b, In (f, b) fs -> ft f = Some b) ->
        forall st v, sc st tmp = Some v -> lo <= v <= hi ->
        forall st', steps (CCall (MS.priv_path nm group (z_dec my))) st st' <-> runs (nth (Z.to_nat (v - start)) bodies []) st st'.
    Proof.
      induction fuel as [|f IH]; intros lo hi my next fs next' H Hfuel Hlh Hft st v Hv Hin st'; [lia|].
      cbn [MS.bst] in H. destruct (Z.eqb_spec hi lo) as [E|NE].
      - injection H as <- <-. subst hi. assert (v = lo) by lia. subst v.
        apply steps_call. apply Hft. left. reflexivity.
      - destruct (MS.bst f nm group tmp bodies start lo (lo + (hi - lo + 1) / 2 - 1) next (next + 2))
          as [fl n1] eqn:EL.
        destruct (MS.bst f nm group tmp bodies start (lo + (hi - lo + 1) / 2) hi (next + 1) n1)
          as [fr n2] eqn:ER.
        injection H as <- <-.
        pose proof (PS.half_bounds lo hi ltac:(lia)) as HH. cbn zeta in HH.
        set (half2 := lo + (hi - lo + 1) / 2) in *.
        assert (FL : forall g b, In (g, b) fl -> ft g = Some b).
        { intros g b Hg. apply Hft. right. apply in_app_iff. now left. }
        assert (FR : forall g b, In (g, b) fr -> ft g = Some b).
        { intros g b Hg. apply Hft. right. apply in_app_iff. now right. }
        rewrite (steps_call ft env _ _ st st' (Hft _ _ (or_introl eq_refl))).
        rewrite runs_cons. setoid_rewrite runs_single.
        assert (G1 : forall s s', sc s tmp = Some v ->
                   (steps (MS.guarded_call tmp (MS.match_range lo (half2 - 1)) (MS.priv_path nm group (z_dec next))) s s' <->
                    if (lo <=? v) && (v <=? half2 - 1) then steps (CCall (MS.priv_path nm group (z_dec next))) s s' else s' = s))
          by (intros; apply steps_bst_guard; [lia|assumption]).
        assert (G2 : forall s s', sc s tmp = Some v ->
                   (steps (MS.guarded_call tmp (MS.match_range half2 hi) (MS.priv_path nm group (z_dec (next + 1)))) s s' <->
                    if (half2 <=? v) && (v <=? hi) then steps (CCall (MS.priv_path nm group (z_dec (next + 1)))) s s' else s' = s))
          by (intros; apply steps_bst_guard; [lia|assumption]).
        destruct (Z_le_gt_dec v (half2 - 1)) as [Hl|Hr].
        + (* left half *)
          assert (IHl : forall s', steps (CCall (MS.priv_path nm group (z_dec next))) st s' <->
                                   runs (nth (Z.to_nat (v - start)) bodies []) st s').
          { intros s'. eapply (IH _ _ _ _ _ _ EL); eauto; lia. }
          split.
          * intros (m & H1 & H2).
            rewrite (G1 _ _ Hv), andb_leb_true in H1 by lia.
            apply IHl in H1. pose proof (frame _ _ _ H1) as Fm. rewrite Hv in Fm.
            rewrite (G2 _ _ Fm), andb_leb_false in H2 by lia.
            subst st'. exact H1.
          * intros Hb. exists st'. split.
            -- rewrite (G1 _ _ Hv), andb_leb_true by lia. apply IHl. exact Hb.
            -- pose proof (frame _ _ _ Hb) as Fm. rewrite Hv in Fm.
               rewrite (G2 _ _ Fm), andb_leb_false by lia. reflexivity.
        + (* right half *)
          assert (IHr : forall s', steps (CCall (MS.priv_path nm group (z_dec (next + 1)))) st s' <->
                                   runs (nth (Z.to_nat (v - start)) bodies []) st s').
          { intros s'. eapply (IH _ _ _ _ _ _ ER); eauto; lia. }
          split.
          * intros (m & H1 & H2).
            rewrite (G1 _ _ Hv), andb_leb_false in H1 by lia. subst m.
            rewrite (G2 _ _ Hv), andb_leb_true in H2 by lia.
            apply IHr. exact H2.
          * intros Hb. exists st. split.
            -- rewrite (G1 _ _ Hv), andb_leb_false by lia. reflexivity.
            -- rewrite (G2 _ _ Hv), andb_leb_true by lia. apply IHr. exact Hb.
    Qed.

    (* a value outside [lo, hi] falls through both lines of an inner node *)
    Lemma bst_root_out_iff fuel lo hi my next fs next' :
        MS.bst (S fuel) nm group tmp bodies start lo hi my next = (fs, next') -> lo < hi ->
        (forall f b, In (f, b) fs -> ft f = Some b) ->
        forall st v, sc st tmp = Some v -> ~ (lo <= v <= hi) ->
        forall st', steps (CCall (MS.priv_path nm group (z_dec my))) st st' <-> st' = st.
    Proof.
      intros H Hlh Hft st v Hv Hout st'. cbn [MS.bst] in H.
      destruct (Z.eqb_spec hi lo) as [E|NE]; [lia|].
      destruct (MS.bst fuel nm group tmp bodies start lo (lo + (hi - lo + 1) / 2 - 1) next (next + 2))
        as [fl n1] eqn:EL.
      destruct (MS.bst fuel nm group tmp bodies start (lo + (hi - lo + 1) / 2) hi (next + 1) n1)
        as [fr n2] eqn:ER.
      injection H as <- <-.
      pose proof (PS.half_bounds lo hi Hlh) as HH. cbn zeta in HH.
      set (half2 := lo + (hi - lo + 1) / 2) in *.
      assert (G1 : forall s s', sc s tmp = Some v ->
                 (steps (MS.guarded_call tmp (MS.match_range lo (half2 - 1)) (MS.priv_path nm group (z_dec next))) s s' <-> s' = s)).
      { intros s s' Hs. rewrite (steps_bst_guard lo (half2 - 1) _ _ _ v ltac:(lia) Hs), andb_leb_false by lia. reflexivity. }
      assert (G2 : forall s s', sc s tmp = Some v ->
                 (steps (MS.guarded_call tmp (MS.match_range half2 hi) (MS.priv_path nm group (z_dec (next + 1)))) s s' <-> s' = s)).
      { intros s s' Hs. rewrite (steps_bst_guard half2 hi _ _ _ v ltac:(lia) Hs), andb_leb_false by lia. reflexivity. }
      rewrite (steps_call ft env _ _ st st' (Hft _ _ (or_introl eq_refl))).
      rewrite runs_cons. setoid_rewrite runs_single. split.
      - intros (m & H1 & H2). apply (G1 _ _ Hv) in H1. subst m. apply (G2 _ _ Hv) in H2. exact H2.
      - intros ->. exists st. split; [apply (G1 _ _ Hv)|apply (G2 _ _ Hv)]; reflexivity.
    Qed.
  End Bst.

  (* what the lowered binary-search switch does, for arbitrary (possibly diverging) case bodies: the copy
     of the switched score, then the lines of case v - start when start <= v < start + n, else nothing *)
  Definition bst_rel (tmp x : score) (bodies : list (list cmd)) (start : Z) : rel := fun st st' =>
    let st0 := fst (do_op st tmp OAssign x) in
    let v := rd (sc st) x in
    if (start <=? v) && (v <? start + Z.of_nat (length bodies))
    then runs (nth (Z.to_nat (v - start)) bodies []) st0 st'
    else st' = st0.

  Theorem parse_switch_bst_iff group x bodies start guard1 pc sid cmds fs pc' sid' :
    MS.parse_switch_bst nm group x bodies start guard1 pc sid = MS.Ok (cmds, fs, pc', sid') ->
    guard1 = true \/ (2 <= length bodies)%nat ->
    (forall f b, In (f, b) fs -> ft f = Some b) ->
    (forall k st st', runs (nth k bodies []) st st' -> sc st' (MS.tmp_score nm sid) = sc st (MS.tmp_score nm sid)) ->
    forall st st', runs cmds st st' <-> bst_rel (MS.tmp_score nm sid) x bodies start st st'.
  Proof.
    intros H Hg Hft Hfr st st'. unfold MS.parse_switch_bst in H.
    destruct (Z.eqb_spec (Z.of_nat (length bodies)) 0) as [E0|N0]; [discriminate|].
    set (n := Z.of_nat (length bodies)) in *. set (tmp := MS.tmp_score nm sid) in *.
    destruct (MS.bst (length bodies) nm group tmp bodies start start (start + n - 1) pc (pc + 1))
      as [fs0 pc0] eqn:EB.
    injection H as <- <- <- <-.
    assert (Hn : 1 <= n) by lia.
    unfold bst_rel. fold n.
    set (st0 := fst (do_op st tmp OAssign x)).
    assert (Hv : sc st0 tmp = Some (rd (sc st) x)) by apply PS.do_op_assign_target.
    set (v := rd (sc st) x) in *.
    rewrite runs_cons. setoid_rewrite steps_op. fold st0. setoid_rewrite runs_single.
    assert (Hin : start <= v <= start + n - 1 ->
                  forall s', steps (CCall (MS.priv_path nm group (z_dec pc))) st0 s' <->
                             runs (nth (Z.to_nat (v - start)) bodies []) st0 s').
    { intros Hr s'. eapply (bst_node_iff group tmp bodies start Hfr _ _ _ _ _ _ _ EB); eauto; lia. }
    assert (Cond : (start <=? v) && (v <? start + n) = (start <=? v) && (v <=? start + n - 1)).
    { f_equal. destruct (Z.ltb_spec v (start + n)), (Z.leb_spec v (start + n - 1)); try reflexivity; lia. }
    rewrite Cond.
    destruct (Z.eqb_spec n 1) as [E1|N1].
    - (* one case: guarded root *)
      destruct Hg as [->|Hg]; [|lia]. cbn [andb].
      change [MIf true (Matches tmp (Exact start))] with (mods_of [(true, Matches tmp (Exact start))]).
      split.
      + intros (m & -> & H2). rewrite steps_guard in H2.
        cbn [tests_hold forallb fst snd test_true in_range] in H2. rewrite Hv in H2.
        destruct (Z.eqb_spec v start) as [Ev|Nv]; cbn in H2.
        * rewrite andb_leb_true by lia. apply Hin; [lia|exact H2].
        * rewrite andb_leb_false by lia. exact H2.
      + intros H2. exists st0. split; [reflexivity|]. rewrite steps_guard.
        cbn [tests_hold forallb fst snd test_true in_range]. rewrite Hv.
        destruct (Z.eqb_spec v start) as [Ev|Nv]; cbn.
        * rewrite andb_leb_true in H2 by lia. apply Hin; [lia|exact H2].
        * rewrite andb_leb_false in H2 by lia. exact H2.
    - rewrite andb_false_r.
      destruct (Z_le_gt_dec start v) as [L1|G1]; [destruct (Z_le_gt_dec v (start + n - 1)) as [L2|G2]|].
      + rewrite andb_leb_true by lia. split.
        * intros (m & -> & H2). apply Hin; [lia|exact H2].
        * intros H2. exists st0. split; [reflexivity|]. apply Hin; [lia|exact H2].
      + rewrite andb_leb_false by lia.
        destruct (length bodies) as [|m] eqn:EL; [lia|].
        pose proof (bst_root_out_iff group tmp bodies start _ _ _ _ _ _ _ EB ltac:(lia) Hft st0 v Hv ltac:(lia)) as R.
        split.
        * intros (m0 & -> & H2). apply R. exact H2.
        * intros ->. exists st0. split; [reflexivity|]. apply R. reflexivity.
      + rewrite andb_leb_false by lia.
        destruct (length bodies) as [|m] eqn:EL; [lia|].
        pose proof (bst_root_out_iff group tmp bodies start _ _ _ _ _ _ _ EB ltac:(lia) Hft st0 v Hv ltac:(lia)) as R.
        split.
        * intros (m0 & -> & H2). apply R. exact H2.
        * intros ->. exists st0. split; [reflexivity|]. apply R. reflexivity.
  Qed.

  (* ------------------------------------------------------------ macro dispatch *)

  (* what the lowered macro switch does, for arbitrary case bodies: found flag (only with `default`),
     the key in storage, then the lines of the LAST case labelled v (+ the found flag), else those of the
     last `default`, else nothing *)
  Definition macro_rel (x : score) (cases : list (MS.label * list cmd)) : rel := fun st st' =>
    let hd := MS.has_default cases in
    let found := MS.found_score nm in
    let st0 := if hd then set_sc st found 0 else st in
    let v := rd (sc st0) x in
    let st1 := mkState (sc st0) (supd (stg st0) (MS.switch_key_path nm) (Some v)) (tr st0) in
    match PS.find_last (fun c => MS.label_eqb (fst c) (MS.LNum v)) cases with
    | Some (_, c) => exists s, runs (snd c) st1 s /\ st' = if hd then set_sc s found 1 else s
    | None => match PS.find_last (fun c => MS.label_eqb (fst c) MS.LDefault) cases with
              | Some (_, c) => runs (snd c) st1 st'
              | None => st' = st1
              end
    end.

  Theorem parse_switch_macro_iff group x cases pc cmds fs pc' :
    MS.parse_switch_macro nm group x cases pc = (cmds, fs, pc') ->
    PS.ft_agrees_macro nm group pc ft fs ->
    forall st st', runs cmds st st' <-> macro_rel x cases st st'.
  Proof.
    intros H [Hft1 Hft2] st st'. unfold MS.parse_switch_macro in H.
    set (hd := MS.has_default cases) in *. set (found := MS.found_score nm) in *.
    injection H as <- <- <-.
    set (case_fn := fun c : MS.label * list cmd =>
                      (MS.macro_case_name nm group pc (fst c), MS.macro_case_body nm hd c)) in *.
    set (sel := MS.macro_select_name nm group pc) in *.
    set (pre := MS.macro_prefix nm group pc) in *.
    unfold macro_rel. fold hd found.
    set (st0 := if hd then set_sc st found 0 else st).
    set (v := rd (sc st0) x).
    set (st1 := mkState (sc st0) (supd (stg st0) (MS.switch_key_path nm) (Some v)) (tr st0)).
    assert (Lsel : ft sel = Some [CMacroCall pre "switch_key"]).
    { apply Hft1. rewrite PS.fget_last_app_one. unfold sel. now rewrite String.eqb_refl. }
    assert (Lcase : forall l',
               MS.fget_last (map case_fn cases ++ [(sel, [CMacroCall pre "switch_key"])]) (pre ++ MS.label_str l')%string =
               match PS.find_last (fun c => MS.label_eqb (fst c) l') cases with
               | Some (_, c) => Some (MS.macro_case_body nm hd c) | None => None end).
    { intros l'. rewrite PS.fget_last_app_one. unfold sel, pre. rewrite PS.select_name_neq.
      apply PS.fget_last_cases. }
    assert (Hkey : stg st1 (MS.storage_id nm ++ " " ++ "switch_key")%string = Some v).
    { unfold st1. cbn [stg]. unfold MS.switch_key_path. unfold supd. now rewrite String.eqb_refl. }
    (* the prelude *)
    assert (Pre : forall s', runs (if hd then [CSet found 0] else []) st s' <-> s' = st0).
    { intros s'. unfold st0. destruct hd.
      - rewrite runs_single. apply steps_set.
      - apply runs_nil. }
    assert (Call : forall s', steps (CCallWith sel (MS.storage_id nm)) st1 s' <->
                              match ft (pre ++ z_dec v)%string with
                              | None => s' = st1
                              | Some body => runs body st1 s'
                              end).
    { intros s'. rewrite (steps_callwith sel (MS.storage_id nm) pre "switch_key" _ _ Lsel), Hkey. reflexivity. }
    rewrite runs_app. setoid_rewrite Pre.
    setoid_rewrite runs_cons. setoid_rewrite steps_store_get. setoid_rewrite runs_cons.
    (* the lookups at v and at default *)
    pose proof (Lcase (MS.LNum v)) as Lv. cbn [MS.label_str] in Lv.
    pose proof (Lcase MS.LDefault) as Ld. cbn [MS.label_str] in Ld.
    assert (Hd_name : MS.macro_case_name nm group pc MS.LDefault = (pre ++ "default")%string)
      by (unfold pre; apply PS.macro_case_name_eq).
    (* the last line *)
    assert (Post : forall s s',
               runs (if hd then [CExecute [MIf false (Matches found (Exact 1))]
                                          (CCall (MS.macro_case_name nm group pc MS.LDefault))] else []) s s' <->
               if hd then (if match sc s found with Some f => f =? 1 | None => false end
                           then s' = s else steps (CCall (MS.macro_case_name nm group pc MS.LDefault)) s s')
               else s' = s).
    { intros s s'. destruct hd; [|apply runs_nil].
      rewrite runs_single.
      change [MIf false (Matches found (Exact 1))] with (mods_of [(false, Matches found (Exact 1))]).
      rewrite steps_guard. cbn [tests_hold forallb fst snd test_true in_range].
      destruct (sc s found) as [f|]; [destruct (f =? 1)|]; cbn; reflexivity. }
    destruct (PS.find_last (fun c => MS.label_eqb (fst c) (MS.LNum v)) cases) as [[k c]|] eqn:Fv.
    - (* a case is labelled v *)
      destruct (PS.find_last_nth _ _ _ _ Fv) as [Hn Hp]. cbn beta in Hp.
      assert (Hc : fst c = MS.LNum v) by (destruct (PS.label_eqb_spec (fst c) (MS.LNum v)); congruence).
      assert (Lf : ft (pre ++ z_dec v)%string = Some (MS.macro_case_body nm hd c)) by (apply Hft1; exact Lv).
      assert (Body : forall a b, runs (MS.macro_case_body nm hd c) a b <->
                                 exists s, runs (snd c) a s /\ b = if hd then set_sc s found 1 else s).
      { intros a b. unfold MS.macro_case_body. rewrite Hc. cbn [MS.is_default negb]. rewrite andb_true_r.
        destruct hd.
        - rewrite runs_app. setoid_rewrite runs_single. setoid_rewrite steps_set. reflexivity.
        - split; [intros Hb; exists b; auto|intros (s & Hs & ->); exact Hs]. }
      split.
      + intros (s0 & -> & s1 & -> & s2 & Hcall & Hpost).
        fold v in Hcall. fold st1 in Hcall. apply Call in Hcall. rewrite Lf in Hcall.
        apply Body in Hcall. destruct Hcall as (s & Hs & ->). exists s. split; [exact Hs|].
        apply Post in Hpost. destruct hd; [|exact Hpost].
        cbn [set_sc sc] in Hpost. unfold upd in Hpost. rewrite score_eqb_refl in Hpost. cbn in Hpost. exact Hpost.
      + intros (s & Hs & ->). exists st0. split; [reflexivity|].
        exists st1. split; [reflexivity|].
        exists (if hd then set_sc s found 1 else s). split.
        * apply Call. rewrite Lf. apply Body. exists s. auto.
        * apply Post. destruct hd; [|reflexivity].
          cbn [set_sc sc]. unfold upd. rewrite score_eqb_refl. cbn. reflexivity.
    - (* no case is labelled v: the dispatcher finds no function *)
      assert (Lf : ft (pre ++ z_dec v)%string = None) by (apply Hft2; exact Lv).
      destruct hd eqn:Ehd.
      + (* there is a default: found is still 0 *)
        assert (Hex : exists k c, PS.find_last (fun c => MS.label_eqb (fst c) MS.LDefault) cases = Some (k, c)).
        { apply PS.find_last_existsb. unfold hd, MS.has_default in Ehd. rewrite <- Ehd.
          clear. induction cases as [|[l b] r IH]; cbn; [reflexivity|]. rewrite IH.
          destruct l; reflexivity. }
        destruct Hex as (k & c & Fd). rewrite Fd in Ld |- *.
        destruct (PS.find_last_nth _ _ _ _ Fd) as [Hn Hp]. cbn beta in Hp.
        assert (Hc : fst c = MS.LDefault) by (destruct (PS.label_eqb_spec (fst c) MS.LDefault); congruence).
        assert (Ldf : ft (MS.macro_case_name nm group pc MS.LDefault) = Some (snd c)).
        { rewrite Hd_name. rewrite (Hft1 _ _ Ld). unfold MS.macro_case_body. rewrite Hc.
          cbn [MS.is_default negb]. rewrite andb_false_r. reflexivity. }
        assert (F0 : sc st1 found = Some 0).
        { unfold st1, st0. cbn [sc set_sc]. unfold upd. now rewrite score_eqb_refl. }
        split.
        * intros (s0 & -> & s1 & -> & s2 & Hcall & Hpost).
          fold v in Hcall. fold st1 in Hcall. apply Call in Hcall. rewrite Lf in Hcall. subst s2.
          apply Post in Hpost. rewrite F0 in Hpost. cbn in Hpost. apply (steps_call ft env _ _ _ _ Ldf). exact Hpost.
        * intros Hb. exists st0. split; [reflexivity|]. exists st1. split; [reflexivity|]. exists st1. split.
          -- apply Call. rewrite Lf. reflexivity.
          -- apply Post. rewrite F0. cbn. apply (steps_call ft env _ _ _ _ Ldf). exact Hb.
      + destruct (PS.find_last (fun c => MS.label_eqb (fst c) MS.LDefault) cases) as [[k c]|] eqn:Fd.
        * exfalso. destruct (PS.find_last_nth _ _ _ _ Fd) as [Hn Hp]. cbn beta in Hp.
          unfold hd, MS.has_default in Ehd.
          assert (existsb (fun c0 => MS.is_default (fst c0)) cases = true); [|congruence].
          apply existsb_exists. exists c. split; [eapply nth_error_In; eauto|].
          destruct (fst c); [discriminate|reflexivity].
        * split.
          -- intros (s0 & -> & s1 & -> & s2 & Hcall & Hpost).
             fold v in Hcall. fold st1 in Hcall. apply Call in Hcall. rewrite Lf in Hcall. subst s2.
             apply Post in Hpost. exact Hpost.
          -- intros ->. exists st0. split; [reflexivity|]. exists st1. split; [reflexivity|].
             exists st1. split; [apply Call; rewrite Lf; reflexivity|apply Post; reflexivity].
  Qed.
End SwitchRel.

(* ------------------------------------------------------------------ the switch statement, either strategy *)

Lemma cases_of_entries_of bodies : PS.cases_of (entries_of bodies) = bodies.
Proof.
  unfold PS.cases_of, entries_of. rewrite map_map. induction bodies as [|[l b] r IH]; cbn [map]; [reflexivity|].
  rewrite IH. cbn. rewrite app_nil_r. reflexivity.
Qed.

(* the first label (the binary search tree counts from it) *)
Definition start_of (bodies : list (MS.label * list cmd)) : Z :=
  match bodies with (MS.LNum s, _) :: _ => s | _ => 0 end.

(* the hypothesis on the function table for the functions of ONE switch statement *)
Definition sw_ok (nm : names) (cf : MS.cfg) (ft : string -> option (list cmd)) (g : Z * list MS.func) : Prop :=
  if MS.is_macro cf then PS.ft_agrees_macro nm MS.SWITCH_CASE_NAME (fst g) ft (snd g)
  else forall f b, In (f, b) (snd g) -> ft f = Some b.

Section SwitchStmt.
  Variable nm : names.
  Variable cf : MS.cfg.
  Variable ft : string -> option (list cmd).
  Variable env : nat -> state -> state.
  Notation runs := (runs ft env).

  (* the lowered switch over already lowered case bodies *)
  Definition switch_lines_rel (x : score) (bodies : list (MS.label * list cmd)) (sid : Z) : rel :=
    if MS.is_macro cf then macro_rel nm ft env x bodies
    else bst_rel ft env (MS.tmp_score nm sid) x (map snd bodies) (start_of bodies).

  Theorem switch_code_iff x bodies a cmds a' :
    switch_code nm cf x bodies a = Some (cmds, a') ->
    exists fs,
      a' = mkX (xa a) (x_anon a) (x_afns a) (x_pc a') (x_sid a') (x_sw a ++ [(x_pc a, fs)]) /\
      x_sid a' = (if MS.is_macro cf then x_sid a else x_sid a + 1) /\
      (MS.is_macro cf = false ->
       map fst bodies = map MS.LNum (PS.consec (start_of bodies) (length bodies))) /\
      (sw_ok nm cf ft (x_pc a, fs) ->
       (MS.is_macro cf = false ->
        forall k st st', runs (nth k (map snd bodies) []) st st' ->
                         sc st' (MS.tmp_score nm (x_sid a)) = sc st (MS.tmp_score nm (x_sid a))) ->
       forall st st', runs cmds st st' <-> switch_lines_rel x bodies (x_sid a) st st').
  Proof.
    unfold switch_code. intros H.
    destruct (MS.compile_switch nm cf x (entries_of bodies) (x_pc a) (x_sid a)) as [[[[c0 fs] pc'] sid']|e] eqn:E;
      [|discriminate].
    injection H as <- <-. exists fs. cbn [xa x_anon x_afns x_pc x_sid x_sw].
    destruct (PS.compile_switch_inv _ _ _ _ _ _ _ E) as (start & b0 & rest & He & Hl & Hp).
    fold (PS.cases_of (entries_of bodies)) in Hp. rewrite cases_of_entries_of in Hp.
    assert (Hst : start_of bodies = start).
    { destruct bodies as [|[l b] r]; [discriminate|]. cbn in He. injection He as -> _ _. reflexivity. }
    unfold MS.parse_switch in Hp. unfold switch_lines_rel, sw_ok. cbn [fst snd].
    destruct (MS.is_macro cf) eqn:Hm.
    - destruct (MS.parse_switch_macro nm MS.SWITCH_CASE_NAME x bodies (x_pc a)) as [[cm fm] pm] eqn:EM.
      injection Hp as <- <- <- <-.
      split; [reflexivity|]. split; [reflexivity|]. split; [discriminate|].
      intros Hft _ st st'. eapply parse_switch_macro_iff; eauto.
    - assert (Hsid : sid' = x_sid a + 1).
      { unfold MS.parse_switch_bst in Hp. destruct (Z.of_nat (length (map snd bodies)) =? 0); [discriminate|].
        destruct (MS.bst _ _ _ _ _ _ _ _ _ _) as [f0 p0]. injection Hp as _ _ _ <-. reflexivity. }
      split; [reflexivity|]. split; [exact Hsid|]. split.
      + intros _. pose proof (PS.check_labels_bst cf Hm _ _ Hl) as Hc.
        unfold entries_of in Hc. rewrite !map_map in Hc. cbn [fst] in Hc. rewrite map_length in Hc.
        rewrite Hst. replace (map (fun x0 : MS.label * list cmd => fst x0) bodies) with (map fst bodies) in Hc by reflexivity.
        exact Hc.
      + intros Hft Hfr st st'. rewrite Hst.
        apply (parse_switch_bst_iff nm ft env _ _ _ _ _ _ _ _ _ _ _ Hp (or_introl eq_refl) Hft (Hfr eq_refl)).
  Qed.
End SwitchStmt.

(* ================================================================== Part C: a loop inside a case / a block *)

Section LoopInside.
  Variable nm : names.
  Variable ft : string -> option (list cmd).
  Variable env : nat -> state -> state.
  Notation runs := (runs ft env).
  Notation steps := (steps ft env).

  (* lines that contain the caller of a lowered `while`: whatever stands before the loop runs once, the
     loop iterates exactly as the JavaScript unfolding says, and what FOLLOWS the loop runs exactly once,
     from the state the loop ended in *)
  Theorem while_followed pre post c body k caller fs :
    while_code nm c body k = (caller, fs) -> installed ft fs ->
    forall st st', runs (pre ++ caller ++ post) st st' <->
      exists s1 s2 n, runs pre st s1 /\ loop_sem ft env c (runs body) s1 n s2 /\ runs post s2 st'.
  Proof.
    intros E I st st'. rewrite runs_app. setoid_rewrite runs_app.
    setoid_rewrite (while_correct ft env nm c body k caller fs E I). split.
    - intros (s1 & Hp & s2 & (n & Hl) & Hq). exists s1, s2, n. auto.
    - intros (s1 & s2 & n & Hp & Hl & Hq). exists s1. split; [exact Hp|]. exists s2. split; [exists n; exact Hl|exact Hq].
  Qed.

  Theorem dowhile_followed pre post c body k caller fs :
    dowhile_code nm c body k = (caller, fs) -> installed ft fs ->
    forall st st', runs (pre ++ caller ++ post) st st' <->
      exists s1 s2 n, runs pre st s1 /\ dowhile_sem ft env c body s1 n s2 /\ runs post s2 st'.
  Proof.
    intros E I st st'. rewrite runs_app. setoid_rewrite runs_app.
    setoid_rewrite (dowhile_correct ft env nm c body k caller fs E I). split.
    - intros (s1 & Hp & s2 & (n & Hl) & Hq). exists s1, s2, n. auto.
    - intros (s1 & s2 & n & Hp & Hl & Hq). exists s1. split; [exact Hp|]. exists s2. split; [exists n; exact Hl|exact Hq].
  Qed.

  Theorem for_followed pre post init c step body k caller fs :
    for_code nm init c step body k = (caller, fs) -> installed ft fs ->
    forall st st', runs (pre ++ caller ++ post) st st' <->
      exists s1 s2 n, runs pre st s1 /\ for_sem ft env init c step body s1 n s2 /\ runs post s2 st'.
  Proof.
    intros E I st st'. rewrite runs_app. setoid_rewrite runs_app.
    setoid_rewrite (for_correct ft env nm init c step body k caller fs E I). split.
    - intros (s1 & Hp & s2 & (n & Hl) & Hq). exists s1, s2, n. auto.
    - intros (s1 & s2 & n & Hp & Hl & Hq). exists s1. split; [exact Hp|]. exists s2. split; [exists n; exact Hl|exact Hq].
  Qed.

  (* execute if score e matches 1.. run { lines } *)
  Lemma run_guard_mods e : run_guard e = mods_of (run_guard_tests e).
  Proof. reflexivity. Qed.

  Theorem run_code_iff e lines a caller a' :
    run_code nm e lines a = Some (caller, a') ->
    (exists new, x_afns a' = x_afns a ++ new /\ xa a' = xa a /\ x_sw a' = x_sw a /\ x_sid a' = x_sid a /\ x_pc a' = x_pc a) /\
    (installed ft (x_afns a') ->
     forall st st', runs caller st st' <->
                    if tests_hold st (run_guard_tests e) then runs lines st st' else st' = st).
  Proof.
    unfold run_code. intros H. destruct lines as [|c [|c2 r]]; [discriminate| |].
    - injection H as <- <-. split; [exists []; rewrite app_nil_r; auto|].
      intros _ st st'. rewrite runs_single, run_guard_mods, steps_merge1_guard.
      destruct (tests_hold st (run_guard_tests e)); [rewrite runs_single|]; reflexivity.
    - injection H as <- <-. cbn [x_afns xa x_sw x_sid x_pc]. split; [eexists; eauto|].
      intros I st st'. unfold installed in I. apply Forall_app in I. destruct I as [_ I].
      inversion I as [|d ds Hf _]; subst. cbn [fst snd] in Hf.
      rewrite runs_single, run_guard_mods, steps_guard.
      destruct (tests_hold st (run_guard_tests e)); [|reflexivity].
      unfold call_func. apply steps_call. exact Hf.
  Qed.
End LoopInside.

(* ================================================================== Part D: whole statement trees *)

Scheme xstmt_mind := Induction for xstmt Sort Prop
  with xstmts_mind := Induction for xstmts Sort Prop
  with xbranches_mind := Induction for xbranches Sort Prop
  with xoelse_mind := Induction for xoelse Sort Prop
  with xcases_mind := Induction for xcases Sort Prop.
Combined Scheme xstmt_mutind from xstmt_mind, xstmts_mind, xbranches_mind, xoelse_mind, xcases_mind.

Fixpoint xblength (b : xbranches) : nat :=
  match b with XBNil => O | XBCons _ _ r => S (xblength r) end.
Definition xwrapped (b : xbranches) (e : xoelse) : nat :=
  match e with XESome _ => xblength b | XENone => pred (xblength b) end.
Definition is_xsingle (b : xbranches) (e : xoelse) : bool :=
  match b, e with XBCons _ _ XBNil, XENone => true | _, _ => false end.
Fixpoint xlabels (cs : xcases) : list MS.label :=
  match cs with XKNil => [] | XKCons l _ _ r => l :: xlabels r end.

Definition norel : rel := fun _ _ => False.

(* the private copies of the binary search trees: one per switch statement, numbered in the order
   parse_switch is reached (a switch takes its number after its case bodies) *)
Section Sid.
  Variable cf : MS.cfg.

  Fixpoint sid_stmt (s : xstmt) (sid : Z) {struct s} : Z :=
    match s with
    | XCmd _ => sid
    | XIf b e => sid_oelse e (sid_branches b sid)
    | XWhile _ body => sid_stmts body sid
    | XDoWhile body _ => sid_stmts body sid
    | XFor _ _ _ body => sid_stmts body sid
    | XSwitch _ cs => if MS.is_macro cf then sid_cases cs sid else sid_cases cs sid + 1
    | XRun _ body => sid_stmts body sid
    end
  with sid_stmts (l : xstmts) (sid : Z) {struct l} : Z :=
    match l with XNil => sid | XCons s r => sid_stmts r (sid_stmt s sid) end
  with sid_branches (b : xbranches) (sid : Z) {struct b} : Z :=
    match b with XBNil => sid | XBCons _ body r => sid_branches r (sid_stmts body sid) end
  with sid_oelse (e : xoelse) (sid : Z) {struct e} : Z :=
    match e with XENone => sid | XESome body => sid_stmts body sid end
  with sid_cases (cs : xcases) (sid : Z) {struct cs} : Z :=
    match cs with XKNil => sid | XKCons _ body _ r => sid_cases r (sid_stmts body sid) end.

  Lemma sid_mono :
    (forall s sid, sid <= sid_stmt s sid) /\ (forall l sid, sid <= sid_stmts l sid) /\
    (forall b sid, sid <= sid_branches b sid) /\ (forall e sid, sid <= sid_oelse e sid) /\
    (forall cs sid, sid <= sid_cases cs sid).
  Proof.
    apply xstmt_mutind; intros; cbn [sid_stmt sid_stmts sid_branches sid_oelse sid_cases]; try lia; auto.
    - specialize (H sid). specialize (H0 (sid_branches b sid)). lia.
    - specialize (H sid). destruct (MS.is_macro cf); lia.
    - specialize (H sid). specialize (H0 (sid_stmt s sid)). lia.
    - specialize (H sid). specialize (H0 (sid_stmts body sid)). lia.
    - specialize (H sid). specialize (H0 (sid_stmts body sid)). lia.
  Qed.
End Sid.

Lemma flag_not_tmp nm k : flag nm <> MS.tmp_score nm k.
Proof. unfold flag, MS.tmp_score. cbn. intros H. discriminate. Qed.
Lemma found_not_tmp nm k : MS.found_score nm <> MS.tmp_score nm k.
Proof. unfold MS.found_score, MS.tmp_score. cbn. intros H. discriminate. Qed.
Lemma tmp_score_inj nm a b : MS.tmp_score nm a = MS.tmp_score nm b -> a = b.
Proof.
  unfold MS.tmp_score. intros H. injection H as H. try apply PS.append_inj_l in H. now apply z_dec_inj in H.
Qed.

Lemma sc_set_other st k v k' : k <> k' -> sc (set_sc st k v) k' = sc st k'.
Proof. intros N. cbn [set_sc sc]. unfold upd. now rewrite score_eqb_neq. Qed.

Section XSem.
  Variable nm : names.
  Variable cf : MS.cfg.
  Variable ft : string -> option (list cmd).
  Variable env : nat -> state -> state.
  Notation runs := (runs ft env).
  Notation steps := (steps ft env).
  Notation tmp := (MS.tmp_score nm).
  Notation found := (MS.found_score nm).

  (* ---- the source meaning of a switch statement, given the meaning of its case bodies ---- *)
  Definition sw_value (x : score) (hd : bool) (st : state) : Z :=
    if MS.is_macro cf then rd (sc (if hd then set_sc st found 0 else st)) x else rd (sc st) x.
  (* the scratch writes of the dispatcher, before the selected case runs *)
  Definition sw_enter (x : score) (hd : bool) (sid : Z) (st : state) : state :=
    if MS.is_macro cf then
      let st0 := if hd then set_sc st found 0 else st in
      mkState (sc st0) (supd (stg st0) (MS.switch_key_path nm) (Some (rd (sc st0) x))) (tr st0)
    else fst (do_op st (tmp sid) OAssign x).
  Definition sw_leave (hd : bool) (lab : MS.label) (s : state) : state :=
    if MS.is_macro cf && hd && negb (MS.is_default lab) then set_sc s found 1 else s.
  (* the case labelled with the switched value (the last one so labelled), else `default`, else nothing *)
  Definition switch_sem (x : score) (labels : list MS.label) (R : list rel) (sid : Z) : rel := fun st st' =>
    let hd := existsb MS.is_default labels in
    match PS.select_entry labels (sw_value x hd st) with
    | Some k => exists s, nth k R norel (sw_enter x hd sid st) s /\ st' = sw_leave hd (nth k labels MS.LDefault) s
    | None => st' = sw_enter x hd sid st
    end.

  (* ---- the source meaning of a statement tree.  sid = the number the next binary search tree takes ---- *)
  Fixpoint xsem_stmt (s : xstmt) (sid : Z) {struct s} : rel :=
    match s with
    | XCmd c => steps c
    | XIf b e =>
      if is_xsingle b e
      then fun st st' => exists o, chain_semR ft env (xsem_branches b sid) None st o st'
      else fun st st' =>
             exists o st'', chain_semR ft env (xsem_branches b sid) (xsem_oelse e (sid_branches cf b sid))
                                       (set_sc st (flag nm) 0) o st'' /\
                            st' = finish nm (xwrapped b e) o st''
    | XWhile c body => fun st st' => exists n, loop_sem ft env c (xsem_stmts body sid) st n st'
    | XDoWhile body c =>
      fun st st' => exists n st2, xsem_stmts body sid st st2 /\ loop_sem ft env c (xsem_stmts body sid) st2 n st'
    | XFor init c step body =>
      fun st st' => exists n st0, runs init st st0 /\
                                  loop_sem ft env c (fun a b => exists m, xsem_stmts body sid a m /\ runs step m b) st0 n st'
    | XSwitch x cs => switch_sem x (xlabels cs) (xsem_cases cs sid) (sid_cases cf cs sid)
    | XRun e body =>
      fun st st' => if tests_hold st (run_guard_tests e) then xsem_stmts body sid st st' else st' = st
    end
  with xsem_stmts (l : xstmts) (sid : Z) {struct l} : rel :=
    match l with
    | XNil => fun st st' => st' = st
    | XCons s r => fun st st' => exists m, xsem_stmt s sid st m /\ xsem_stmts r (sid_stmt cf s sid) m st'
    end
  with xsem_branches (b : xbranches) (sid : Z) {struct b} : list (cond * rel) :=
    match b with
    | XBNil => []
    | XBCons c body r => (c, xsem_stmts body sid) :: xsem_branches r (sid_stmts cf body sid)
    end
  with xsem_oelse (e : xoelse) (sid : Z) {struct e} : option rel :=
    match e with XENone => None | XESome body => Some (xsem_stmts body sid) end
  with xsem_cases (cs : xcases) (sid : Z) {struct cs} : list rel :=
    match cs with
    | XKNil => []
    | XKCons _ body _ r => xsem_stmts body sid :: xsem_cases r (sid_stmts cf body sid)
    end.

  (* ---- hypotheses on the leaves ----
     chain conditions leave the flag alone when they are tested (as in C05_any_nesting_depth); and, for
     the binary search tree only: basic commands, condition helpers, initialisers and steps do not write
     any `__switch__N`, nor is such a score switched on *)
  Definition quiet (l : list cmd) : Prop :=
    MS.is_macro cf = false -> forall k st st', runs l st st' -> sc st' (tmp k) = sc st (tmp k).

  Fixpoint xkeeps_stmt (s : xstmt) : Prop :=
    match s with
    | XCmd c => quiet [c]
    | XIf b e => xkeeps_branches b /\ xkeeps_oelse e
    | XWhile c body => quiet (c_pre c) /\ xkeeps_stmts body
    | XDoWhile body c => quiet (c_pre c) /\ xkeeps_stmts body
    | XFor init c step body => quiet init /\ quiet (c_pre c) /\ quiet step /\ xkeeps_stmts body
    | XSwitch x cs => (MS.is_macro cf = false -> forall k, x <> tmp k) /\ xkeeps_cases cs
    | XRun _ body => xkeeps_stmts body
    end
  with xkeeps_stmts (l : xstmts) : Prop :=
    match l with XNil => True | XCons s r => xkeeps_stmt s /\ xkeeps_stmts r end
  with xkeeps_branches (b : xbranches) : Prop :=
    match b with
    | XBNil => True
    | XBCons c body r => keeps_flag nm ft env c /\ quiet (c_pre c) /\ xkeeps_stmts body /\ xkeeps_branches r
    end
  with xkeeps_oelse (e : xoelse) : Prop :=
    match e with XENone => True | XESome body => xkeeps_stmts body end
  with xkeeps_cases (cs : xcases) : Prop :=
    match cs with XKNil => True | XKCons _ body _ r => xkeeps_stmts body /\ xkeeps_cases r end.

  Lemma xsem_branches_length b sid : length (xsem_branches b sid) = xblength b.
  Proof. revert sid. induction b; intros; cbn; auto. Qed.
  Lemma xsem_cases_length cs sid : length (xsem_cases cs sid) = length (xlabels cs).
  Proof. revert sid. induction cs; intros; cbn; auto. Qed.

  (* ---- frame: a statement writes only the copies of its own switch statements ---- *)
  Definition keeps_tmp (k : Z) (R : rel) : Prop := forall st st', R st st' -> sc st' (tmp k) = sc st (tmp k).

  Lemma loop_sem_frame k c (iter : rel) :
    keeps_tmp k (runs (c_pre c)) -> keeps_tmp k iter ->
    forall st n st', loop_sem ft env c iter st n st' -> sc st' (tmp k) = sc st (tmp k).
  Proof.
    intros Hp Hi st n st' H. induction H as [st st1 Hpre T|st st1 st2 n st' Hpre T Hit _ IH].
    - apply Hp. exact Hpre.
    - rewrite IH, (Hi _ _ Hit). apply Hp. exact Hpre.
  Qed.

  Lemma chain_semR_frame k brs e :
    Forall (fun cr => keeps_tmp k (runs (c_pre (fst cr))) /\ keeps_tmp k (snd cr)) brs ->
    match e with Some r => keeps_tmp k r | None => True end ->
    forall st o st', chain_semR ft env brs e st o st' -> sc st' (tmp k) = sc st (tmp k).
  Proof.
    intros Hb He st o st' H. induction H as [st|b st st' Hr|c b rest e st st1 st2 Hp T Hr|c b rest e st st1 o st' Hp T Hc IH].
    - reflexivity.
    - apply He. exact Hr.
    - inversion Hb as [|x xs [Hpc Hbc] Hrest]; subst. cbn [fst snd] in *. rewrite (Hbc _ _ Hr). apply Hpc. exact Hp.
    - inversion Hb as [|x xs [Hpc Hbc] Hrest]; subst. cbn [fst snd] in *. rewrite (IH Hrest He). apply Hpc. exact Hp.
  Qed.

  Hypothesis Hbst : MS.is_macro cf = false.

  Lemma do_op_assign_frame st a b k :
    tmp k <> a -> tmp k <> b -> sc (fst (do_op st a OAssign b)) (tmp k) = sc st (tmp k).
  Proof.
    intros Na Nb. unfold do_op. cbn [fst].
    rewrite !sc_set_other by congruence. reflexivity.
  Qed.

  Definition F_stmt (s : xstmt) : Prop :=
    forall sid, xkeeps_stmt s -> forall k, ~ (sid <= k < sid_stmt cf s sid) -> keeps_tmp k (xsem_stmt s sid).
  Definition F_stmts (l : xstmts) : Prop :=
    forall sid, xkeeps_stmts l -> forall k, ~ (sid <= k < sid_stmts cf l sid) -> keeps_tmp k (xsem_stmts l sid).
  Definition F_branches (b : xbranches) : Prop :=
    forall sid, xkeeps_branches b -> forall k, ~ (sid <= k < sid_branches cf b sid) ->
      Forall (fun cr => keeps_tmp k (runs (c_pre (fst cr))) /\ keeps_tmp k (snd cr)) (xsem_branches b sid).
  Definition F_oelse (e : xoelse) : Prop :=
    forall sid, xkeeps_oelse e -> forall k, ~ (sid <= k < sid_oelse cf e sid) ->
      match xsem_oelse e sid with Some r => keeps_tmp k r | None => True end.
  Definition F_cases (cs : xcases) : Prop :=
    forall sid, xkeeps_cases cs -> forall k, ~ (sid <= k < sid_cases cf cs sid) ->
      Forall (keeps_tmp k) (xsem_cases cs sid).

  Lemma quiet_keeps l k : quiet l -> keeps_tmp k (runs l).
  Proof. intros Q st st' H. apply (Q Hbst k _ _ H). Qed.

  Lemma xsem_frame :
    (forall s, F_stmt s) /\ (forall l, F_stmts l) /\ (forall b, F_branches b) /\ (forall e, F_oelse e) /\
    (forall cs, F_cases cs).
  Proof.
    destruct (sid_mono cf) as (Ms & Ml & Mb & Me & Mc).
    apply xstmt_mutind; unfold F_stmt, F_stmts, F_branches, F_oelse, F_cases.
    - (* XCmd *) intros c sid K k _ st st' H. cbn in H. apply (K Hbst k). apply runs_single. exact H.
    - (* XIf *)
      intros b Hb e He sid [Kb Ke] k Hk. simpl in Hk.
      pose proof (Mb b sid) as M1. pose proof (Me e (sid_branches cf b sid)) as M2.
      assert (Fb := Hb sid Kb k ltac:(lia)). assert (Fe := He (sid_branches cf b sid) Ke k ltac:(lia)).
      intros st st' H. cbn [xsem_stmt xsem_stmts xsem_branches xsem_oelse xsem_cases] in H. destruct (is_xsingle b e).
      + destruct H as [o H]. exact (chain_semR_frame k _ None Fb I _ _ _ H).
      + destruct H as (o & st'' & H & ->).
        assert (E1 : sc st'' (tmp k) = sc (set_sc st (flag nm) 0) (tmp k)) by exact (chain_semR_frame k _ _ Fb Fe _ _ _ H).
        rewrite sc_set_other in E1 by apply flag_not_tmp. rewrite <- E1.
        unfold finish. destruct o; try reflexivity. destruct (i <? xwrapped b e)%nat; [|reflexivity].
        apply sc_set_other. apply flag_not_tmp.
    - (* XWhile *)
      intros c body Hb sid [Kc Kb] k Hk st st' [n H]. simpl in Hk.
      eapply loop_sem_frame; [apply quiet_keeps; exact Kc|apply (Hb sid Kb k Hk)|exact H].
    - (* XDoWhile *)
      intros body Hb c sid [Kc Kb] k Hk st st' (n & st2 & H1 & H2). simpl in Hk.
      rewrite (loop_sem_frame k c _ (quiet_keeps _ k Kc) (Hb sid Kb k Hk) _ _ _ H2). apply (Hb sid Kb k Hk _ _ H1).
    - (* XFor *)
      intros init c step body Hb sid (Ki & Kc & Ks & Kb) k Hk st st' (n & st0 & H1 & H2). simpl in Hk.
      assert (It : keeps_tmp k (fun a b => exists m, xsem_stmts body sid a m /\ runs step m b)).
      { intros a b (m & A & B). rewrite (quiet_keeps _ k Ks _ _ B). apply (Hb sid Kb k Hk _ _ A). }
      rewrite (loop_sem_frame k c _ (quiet_keeps _ k Kc) It _ _ _ H2). apply (quiet_keeps _ k Ki _ _ H1).
    - (* XSwitch *)
      intros x cs Hc sid [Kx Kc] k Hk st st' H. simpl in Hk. rewrite Hbst in Hk.
      pose proof (Mc cs sid) as M1.
      assert (Fc := Hc sid Kc k ltac:(lia)).
      cbn [xsem_stmt xsem_stmts xsem_branches xsem_oelse xsem_cases] in H. unfold switch_sem in H.
      assert (En : sc (sw_enter x (existsb MS.is_default (xlabels cs)) (sid_cases cf cs sid) st) (tmp k) = sc st (tmp k)).
      { unfold sw_enter. rewrite Hbst. apply do_op_assign_frame.
        - intros E. apply tmp_score_inj in E. lia.
        - intros E. apply (Kx Hbst k). symmetry. exact E. }
      destruct (PS.select_entry _ _) as [j|].
      + destruct H as (s & Hs & ->). unfold sw_leave. rewrite Hbst. cbn [andb]. rewrite <- En.
        destruct (Nat.lt_ge_cases j (length (xsem_cases cs sid))) as [Lt|Ge].
        * rewrite Forall_forall in Fc. apply (Fc (nth j (xsem_cases cs sid) norel)); [apply nth_In; exact Lt|exact Hs].
        * rewrite nth_overflow in Hs by exact Ge. contradiction.
      + subst st'. exact En.
    - (* XRun *)
      intros e body Hb sid Kb k Hk st st' H. simpl in Hk. cbn [xsem_stmt xsem_stmts xsem_branches xsem_oelse xsem_cases] in H.
      destruct (tests_hold st (run_guard_tests e)); [apply (Hb sid Kb k Hk _ _ H)|subst; reflexivity].
    - (* XNil *) intros sid _ k _ st st' H. cbn in H. subst. reflexivity.
    - (* XCons *)
      intros s Hs r Hr sid [Ks Kr] k Hk st st' (m & H1 & H2). simpl in Hk.
      pose proof (Ms s sid) as M1. pose proof (Ml r (sid_stmt cf s sid)) as M2.
      rewrite (Hr (sid_stmt cf s sid) Kr k ltac:(lia) _ _ H2). apply (Hs sid Ks k ltac:(lia) _ _ H1).
    - (* XBNil *) intros; constructor.
    - (* XBCons *)
      intros c body Hb r Hr sid (Kf & Kc & Kb & Kr) k Hk. simpl in Hk. cbn [xsem_stmt xsem_stmts xsem_branches xsem_oelse xsem_cases].
      pose proof (Ml body sid) as M1. pose proof (Mb r (sid_stmts cf body sid)) as M2.
      constructor.
      + cbn [fst snd]. split; [apply quiet_keeps; exact Kc|apply (Hb sid Kb k ltac:(lia))].
      + apply (Hr (sid_stmts cf body sid) Kr k ltac:(lia)).
    - (* XENone *) intros; exact I.
    - (* XESome *) intros body Hb sid Kb k Hk. simpl in Hk. cbn [xsem_stmt xsem_stmts xsem_branches xsem_oelse xsem_cases]. apply (Hb sid Kb k Hk).
    - (* XKNil *) intros; constructor.
    - (* XKCons *)
      intros l body Hb brk r Hr sid [Kb Kr] k Hk. simpl in Hk. cbn [xsem_stmt xsem_stmts xsem_branches xsem_oelse xsem_cases].
      pose proof (Ml body sid) as M1. pose proof (Mc r (sid_stmts cf body sid)) as M2.
      constructor; [apply (Hb sid Kb k ltac:(lia))|apply (Hr (sid_stmts cf body sid) Kr k ltac:(lia))].
  Qed.
End XSem.

(* ---- the lowered switch over lowered case bodies means switch_sem over the meanings of their lines ---- *)
Lemma nth_map_error {A B} (f : A -> B) (l : list A) k a d :
  nth_error l k = Some a -> nth k (map f l) d = f a.
Proof.
  revert k. induction l as [|x l IH]; intros [|k] H; cbn in *; try discriminate.
  - congruence.
  - apply IH. exact H.
Qed.

Lemma has_default_labels (cases : list (MS.label * list cmd)) :
  MS.has_default cases = existsb MS.is_default (map fst cases).
Proof. unfold MS.has_default. induction cases as [|c r IH]; cbn; [reflexivity|]. now rewrite IH. Qed.

Section SwitchSem.
  Variable nm : names.
  Variable cf : MS.cfg.
  Variable ft : string -> option (list cmd).
  Variable env : nat -> state -> state.
  Notation runs := (runs ft env).

  Lemma switch_lines_sem x bodies sid :
    (MS.is_macro cf = false -> map fst bodies = map MS.LNum (PS.consec (start_of bodies) (length bodies))) ->
    forall st st',
      switch_lines_rel nm cf ft env x bodies sid st st' <->
      switch_sem nm cf x (map fst bodies) (map (fun b => runs (snd b)) bodies) sid st st'.
  Proof.
    intros Hc st st'. unfold switch_lines_rel, switch_sem, sw_value, sw_enter, sw_leave.
    destruct (MS.is_macro cf) eqn:Hm.
    - (* macro dispatch *)
      unfold macro_rel. rewrite has_default_labels.
      set (hd := existsb MS.is_default (map fst bodies)).
      set (st0 := if hd then set_sc st (MS.found_score nm) 0 else st).
      set (v := rd (sc st0) x).
      set (st1 := mkState (sc st0) (supd (stg st0) (MS.switch_key_path nm) (Some v)) (tr st0)).
      unfold PS.select_entry, PS.find_last. rewrite !PS.find_last_from_map.
      destruct (PS.find_last_from (fun a => MS.label_eqb (fst a) (MS.LNum v)) bodies 0) as [[k c]|] eqn:Fv.
      + destruct (PS.find_last_nth _ _ _ _ Fv) as [Hn Hp]. cbn beta in Hp.
        assert (Hl : fst c = MS.LNum v) by (destruct (PS.label_eqb_spec (fst c) (MS.LNum v)); congruence).
        rewrite (nth_map_error _ _ _ _ _ Hn), (nth_map_error _ _ _ _ _ Hn), Hl. cbn [MS.is_default negb andb].
        rewrite andb_true_r. reflexivity.
      + destruct (PS.find_last_from (fun a => MS.label_eqb (fst a) MS.LDefault) bodies 0) as [[k c]|] eqn:Fd.
        * destruct (PS.find_last_nth _ _ _ _ Fd) as [Hn Hp]. cbn beta in Hp.
          assert (Hl : fst c = MS.LDefault) by (destruct (PS.label_eqb_spec (fst c) MS.LDefault); congruence).
          rewrite (nth_map_error _ _ _ _ _ Hn), (nth_map_error _ _ _ _ _ Hn), Hl. cbn [MS.is_default negb andb].
          rewrite andb_false_r. split; [intros H; exists st'; auto|intros (s & H & ->); exact H].
        * reflexivity.
    - (* binary search tree *)
      unfold bst_rel. rewrite (Hc eq_refl), PS.select_entry_consec, map_length.
      set (start := start_of bodies). set (v := rd (sc st) x).
      set (st0 := fst (do_op st (MS.tmp_score nm sid) OAssign x)).
      destruct ((start <=? v) && (v <? start + Z.of_nat (length bodies))) eqn:Er; [|reflexivity].
      apply andb_true_iff in Er. destruct Er as [E1 E2]. apply Z.leb_le in E1. apply Z.ltb_lt in E2.
      assert (Lt : (Z.to_nat (v - start) < length bodies)%nat) by lia.
      destruct (nth_error bodies (Z.to_nat (v - start))) as [c|] eqn:Hn; [|apply nth_error_None in Hn; lia].
      rewrite (nth_map_error _ _ _ _ _ Hn), (nth_map_error _ _ _ _ _ Hn). cbn [andb].
      split; [intros H; exists st'; auto|intros (s & H & ->); exact H].
  Qed.
End SwitchSem.

(* ---- the mutual induction ---- *)
Section XMain.
  Variable nm : names.
  Variable cf : MS.cfg.
  Variable ft : string -> option (list cmd).
  Variable env : nat -> state -> state.
  Notation runs := (runs ft env).
  Notation steps := (steps ft env).

  (* the tables of the other two groups only grow *)
  Definition grows (a a' : xalloc) : Prop :=
    (exists n1, x_afns a' = x_afns a ++ n1) /\ (exists n2, x_sw a' = x_sw a ++ n2).
  (* the function table holds every function stored so far *)
  Definition tables_ok (a : xalloc) : Prop :=
    installed ft (fns (xa a)) /\ installed ft (x_afns a) /\ Forall (sw_ok nm cf ft) (x_sw a).

  Lemma grows_refl a : grows a a.
  Proof. split; exists []; rewrite app_nil_r; reflexivity. Qed.
  Lemma grows_trans a b c : grows a b -> grows b c -> grows a c.
  Proof.
    intros [(n1 & E1) (m1 & F1)] [(n2 & E2) (m2 & F2)]. split.
    - exists (n1 ++ n2). rewrite E2, E1, app_assoc. reflexivity.
    - exists (m1 ++ m2). rewrite F2, F1, app_assoc. reflexivity.
  Qed.
  Lemma tables_ok_back a a' : ext nm (xa a) (xa a') -> grows a a' -> tables_ok a' -> tables_ok a.
  Proof.
    intros X [(n1 & E1) (n2 & E2)] (I1 & I2 & I3). split; [|split].
    - apply (ext_installed nm ft _ _ X I1).
    - unfold installed in *. rewrite E1 in I2. apply Forall_app in I2. tauto.
    - rewrite E2 in I3. apply Forall_app in I3. tauto.
  Qed.

  (* what every lowering step keeps *)
  Definition Q (a a' : xalloc) (sid' : Z) : Prop :=
    wf nm (xa a') /\ ext nm (xa a) (xa a') /\ grows a a' /\ x_sid a' = sid'.

  Definition PX_stmts (l : xstmts) : Prop :=
    forall a lines a', wf nm (xa a) -> xcompile_stmts nm cf l a = Some (lines, a') ->
      Q a a' (sid_stmts cf l (x_sid a)) /\
      (tables_ok a' -> xkeeps_stmts nm cf ft env l ->
       forall st st', runs lines st st' <-> xsem_stmts nm cf ft env l (x_sid a) st st').
  Definition PX_stmt (s : xstmt) : Prop :=
    forall a lines a', wf nm (xa a) -> xcompile_stmt nm cf s a = Some (lines, a') ->
      Q a a' (sid_stmt cf s (x_sid a)) /\
      (tables_ok a' -> xkeeps_stmt nm cf ft env s ->
       forall st st', runs lines st st' <-> xsem_stmt nm cf ft env s (x_sid a) st st').
  Fixpoint xbodies_P (b : xbranches) : Prop :=
    match b with XBNil => True | XBCons _ body r => PX_stmts body /\ xbodies_P r end.
  Definition PX_branches (b : xbranches) : Prop :=
    xbodies_P b /\
    forall he a ws le a', wf nm (xa a) -> xcompile_branches nm cf he b a = Some (ws, le, a') ->
      Q a a' (sid_branches cf b (x_sid a)) /\
      Forall (fun w => In (wbr_fn nm w) (fns (xa a'))) ws /\
      (he = true -> le = None) /\
      (tables_ok a' -> xkeeps_branches nm cf ft env b ->
       Forall2 (brel ft env) (map src_of ws ++ optl le) (xsem_branches nm cf ft env b (x_sid a)) /\
       Forall (fun w => keeps_flag nm ft env (w_cond w)) ws).
  Definition PX_oelse (e : xoelse) : Prop :=
    match e with XENone => True | XESome body => PX_stmts body end.
  Definition PX_cases (cs : xcases) : Prop :=
    forall a bodies a', wf nm (xa a) -> xcompile_cases nm cf cs a = Some (bodies, a') ->
      Q a a' (sid_cases cf cs (x_sid a)) /\ map fst bodies = xlabels cs /\
      (tables_ok a' -> xkeeps_cases nm cf ft env cs ->
       Forall2 (fun b (R : rel) => forall st st', runs (snd b) st st' <-> R st st')
               bodies (xsem_cases nm cf ft env cs (x_sid a))).

  Lemma Q_refl a : wf nm (xa a) -> Q a a (x_sid a).
  Proof. intros W. split; [exact W|]. split; [apply ext_refl|]. split; [apply grows_refl|reflexivity]. Qed.

  Lemma Q_trans a b c s1 s2 : Q a b s1 -> Q b c s2 -> Q a c s2.
  Proof.
    intros (W1 & X1 & G1 & E1) (W2 & X2 & G2 & E2). split; [exact W2|].
    split; [eapply ext_trans; eauto|]. split; [eapply grows_trans; eauto|exact E2].
  Qed.

  Lemma tables_ok_Q a a' s : Q a a' s -> tables_ok a' -> tables_ok a.
  Proof. intros (_ & X & G & _). apply tables_ok_back; assumption. Qed.

  Lemma PX_XCmd c : PX_stmt (XCmd c).
  Proof.
    intros a lines a' W H. cbn in H. inversion H; subst; clear H.
    split; [apply Q_refl; exact W|]. intros _ _ st st'. cbn. apply runs_single.
  Qed.

  Lemma PX_XNil : PX_stmts XNil.
  Proof.
    intros a lines a' W H. cbn in H. inversion H; subst; clear H.
    split; [apply Q_refl; exact W|]. intros _ _ st st'. cbn. apply runs_nil.
  Qed.

  Lemma PX_XCons s r : PX_stmt s -> PX_stmts r -> PX_stmts (XCons s r).
  Proof.
    intros Ps Pr a lines a' W H. simpl in H.
    destruct (xcompile_stmt nm cf s a) as [[l1 a1]|] eqn:E1; [|discriminate].
    destruct (xcompile_stmts nm cf r a1) as [[l2 a2]|] eqn:E2; [|discriminate].
    inversion H; subst; clear H.
    destruct (Ps _ _ _ W E1) as (Q1 & S1). pose proof Q1 as (W1 & _ & _ & Sid1).
    destruct (Pr _ _ _ W1 E2) as (Q2 & S2).
    split.
    - change (sid_stmts cf (XCons s r) (x_sid a)) with (sid_stmts cf r (sid_stmt cf s (x_sid a))).
      rewrite <- Sid1. eapply Q_trans; eauto.
    - intros T [Ks Kr] st st'.
      change (xsem_stmts nm cf ft env (XCons s r) (x_sid a) st st')
        with (exists m, xsem_stmt nm cf ft env s (x_sid a) st m /\
                        xsem_stmts nm cf ft env r (sid_stmt cf s (x_sid a)) m st').
      rewrite runs_app. pose proof (tables_ok_Q _ _ _ Q2 T) as T1. rewrite <- Sid1.
      split; intros (m & A & B); exists m; (split; [apply (S1 T1 Ks); exact A|apply (S2 T Kr); exact B]).
  Qed.

  (* reserve a number in xa, lower the body, store the loop function under the reserved number *)
  Lemma loop_frame_step g a k r1 a2 fn_body :
    wf nm (xa a) -> In g groups -> get_count g (xa a) = (k, r1) ->
    Q (set_a a r1) a2 (x_sid a2) ->
    let a' := set_a a2 (add_fns [(priv_fn nm g k, fn_body)] (xa a2)) in
    Q a a' (x_sid a2) /\ fns (xa a') = fns (xa a2) ++ [(priv_fn nm g k, fn_body)] /\
    (tables_ok a' -> tables_ok a2 /\ installed ft [(priv_fn nm g k, fn_body)]).
  Proof.
    intros W Hg G (W2 & X2 & G2 & _) a'. cbn [xa set_a] in X2.
    destruct (reserve_add nm g _ _ _ _ fn_body W Hg G W2 X2) as (W' & X' & Ef).
    split; [|split].
    - split; [exact W'|]. split; [exact X'|]. split; [exact G2|reflexivity].
    - exact Ef.
    - intros (I1 & I2 & I3). cbn [xa set_a a'] in I1.
      destruct (installed_split ft _ _ _ Ef I1) as [I1' If]. split.
      + split; [exact I1'|]. split; [exact I2|exact I3].
      + exact If.
  Qed.

  Lemma PX_XWhile c body : PX_stmts body -> PX_stmt (XWhile c body).
  Proof.
    intros Pb a lines a' W H. cbn [xcompile_stmt] in H.
    destruct (get_count WHILE_NAME (xa a)) as [k r1] eqn:G.
    destruct (xcompile_stmts nm cf body (set_a a r1)) as [[bl a2]|] eqn:E; [|discriminate].
    unfold while_code in H. inversion H; subst; clear H.
    pose proof (wf_get_count nm _ _ _ _ W G) as W1.
    destruct (Pb (set_a a r1) _ _ W1 E) as (Q2 & S2). cbn [x_sid set_a] in Q2, S2.
    pose proof Q2 as (_ & _ & _ & Sid2).
    destruct (loop_frame_step _ _ _ _ a2 (bl ++ retest nm WHILE_NAME c k) W WHILE_in G
                              ltac:(rewrite Sid2; exact Q2)) as (Q' & Ef & T').
    split; [simpl; rewrite <- Sid2; exact Q'|].
    intros T [Kc K] st st'. destruct (T' T) as [T2 Hf].
    rewrite (while_correct ft env nm c bl k _ _ eq_refl Hf st st').
    change (xsem_stmt nm cf ft env (XWhile c body) (x_sid a) st st')
      with (exists n, loop_sem ft env c (xsem_stmts nm cf ft env body (x_sid a)) st n st').
    split; intros [n Hn]; exists n; (eapply loop_sem_ext; [|exact Hn]); intros x y;
      [symmetry|]; apply (S2 T2 K).
  Qed.

  Lemma PX_XDoWhile body c : PX_stmts body -> PX_stmt (XDoWhile body c).
  Proof.
    intros Pb a lines a' W H. cbn [xcompile_stmt] in H.
    destruct (get_count WHILE_NAME (xa a)) as [k r1] eqn:G.
    destruct (xcompile_stmts nm cf body (set_a a r1)) as [[bl a2]|] eqn:E; [|discriminate].
    unfold dowhile_code in H. inversion H; subst; clear H.
    pose proof (wf_get_count nm _ _ _ _ W G) as W1.
    destruct (Pb (set_a a r1) _ _ W1 E) as (Q2 & S2). cbn [x_sid set_a] in Q2, S2.
    pose proof Q2 as (_ & _ & _ & Sid2).
    destruct (loop_frame_step _ _ _ _ a2 (bl ++ retest nm WHILE_NAME c k) W WHILE_in G
                              ltac:(rewrite Sid2; exact Q2)) as (Q' & Ef & T').
    split; [simpl; rewrite <- Sid2; exact Q'|].
    intros T [Kc K] st st'. destruct (T' T) as [T2 Hf].
    rewrite (dowhile_correct ft env nm c bl k _ _ eq_refl Hf st st').
    change (xsem_stmt nm cf ft env (XDoWhile body c) (x_sid a) st st')
      with (exists n st2, xsem_stmts nm cf ft env body (x_sid a) st st2 /\
                          loop_sem ft env c (xsem_stmts nm cf ft env body (x_sid a)) st2 n st').
    split.
    - intros [n Hn]. inversion Hn as [s0 st2 n0 s1 Hb Hl]; subst. exists n0, st2.
      split; [apply (S2 T2 K); exact Hb|]. eapply loop_sem_ext; [|exact Hl]. intros x y. symmetry. apply (S2 T2 K).
    - intros (n & st2 & Hb & Hl). exists (S n). econstructor; [apply (S2 T2 K); exact Hb|].
      eapply loop_sem_ext; [|exact Hl]. intros x y. apply (S2 T2 K).
  Qed.

  Lemma PX_XFor init c step body : PX_stmts body -> PX_stmt (XFor init c step body).
  Proof.
    intros Pb a lines a' W H. cbn [xcompile_stmt] in H.
    assert (H' : (let (k, r1) := get_count FOR_NAME (xa a) in
                  match xcompile_stmts nm cf body (set_a a r1) with
                  | None => None
                  | Some (bl, a2) => let (caller, fs) := for_code nm init c step bl k in
                                     Some (caller, set_a a2 (add_fns fs (xa a2)))
                  end) = Some (lines, a')) by (destruct body; [discriminate|exact H]).
    clear H. destruct (get_count FOR_NAME (xa a)) as [k r1] eqn:G.
    destruct (xcompile_stmts nm cf body (set_a a r1)) as [[bl a2]|] eqn:E; [|discriminate].
    unfold for_code in H'. inversion H'; subst; clear H'.
    pose proof (wf_get_count nm _ _ _ _ W G) as W1.
    destruct (Pb (set_a a r1) _ _ W1 E) as (Q2 & S2). cbn [x_sid set_a] in Q2, S2.
    pose proof Q2 as (_ & _ & _ & Sid2).
    destruct (loop_frame_step _ _ _ _ a2 (bl ++ step ++ retest nm FOR_NAME c k) W FOR_in G
                              ltac:(rewrite Sid2; exact Q2)) as (Q' & Ef & T').
    split; [simpl; rewrite <- Sid2; exact Q'|].
    intros T (Ki & Kc & Ks & K) st st'. destruct (T' T) as [T2 Hf].
    rewrite (for_correct ft env nm init c step bl k _ _ eq_refl Hf st st').
    change (xsem_stmt nm cf ft env (XFor init c step body) (x_sid a) st st')
      with (exists n st0, runs init st st0 /\
              loop_sem ft env c (fun x y => exists m, xsem_stmts nm cf ft env body (x_sid a) x m /\ runs step m y) st0 n st').
    assert (R : forall x y, body_then_step ft env bl step x y <->
                            (exists m, xsem_stmts nm cf ft env body (x_sid a) x m /\ runs step m y)).
    { intros x y. unfold body_then_step. split; intros (m & A & B); exists m; (split; [apply (S2 T2 K); exact A|exact B]). }
    split.
    - intros [n Hn]. inversion Hn as [s0 st0 n0 s1 Hi Hl]; subst. exists n, st0.
      split; [exact Hi|]. eapply loop_sem_ext; [|exact Hl]. intros x y. symmetry. apply R.
    - intros (n & st0 & Hi & Hl). exists n. econstructor; [exact Hi|].
      eapply loop_sem_ext; [|exact Hl]. intros x y. apply R.
  Qed.

  Lemma PX_XRun e body : PX_stmts body -> PX_stmt (XRun e body).
  Proof.
    intros Pb a lines a' W H. cbn [xcompile_stmt] in H.
    destruct (xcompile_stmts nm cf body a) as [[bl a1]|] eqn:E; [|discriminate].
    destruct (Pb _ _ _ W E) as (Q1 & S1). pose proof Q1 as (W1 & X1 & G1 & Sid1).
    destruct (run_code_iff nm ft env _ _ _ _ _ H) as ((new & Ea & Exa & Esw & Esid & Epc) & S).
    assert (Q' : Q a1 a' (x_sid a1)).
    { split; [rewrite Exa; exact W1|]. split; [rewrite Exa; apply ext_refl|]. split; [|exact Esid].
      split; [exists new; exact Ea|exists []; rewrite app_nil_r; exact Esw]. }
    split; [simpl; rewrite <- Sid1; eapply Q_trans; eauto|].
    intros T K st st'. pose proof T as (_ & I2 & _).
    rewrite (S I2 st st').
    change (xsem_stmt nm cf ft env (XRun e body) (x_sid a) st st')
      with (if tests_hold st (run_guard_tests e) then xsem_stmts nm cf ft env body (x_sid a) st st' else st' = st).
    destruct (tests_hold st (run_guard_tests e)); [|reflexivity].
    apply (S1 (tables_ok_Q _ _ _ Q' T) K).
  Qed.

  Lemma PX_XKNil : PX_cases XKNil.
  Proof.
    intros a bodies a' W H. cbn in H. inversion H; subst; clear H.
    split; [apply Q_refl; exact W|]. split; [reflexivity|]. intros _ _. constructor.
  Qed.

  Lemma PX_XKCons l body brk r : PX_stmts body -> PX_cases r -> PX_cases (XKCons l body brk r).
  Proof.
    intros Pb Pr a bodies a' W H. cbn [xcompile_cases] in H.
    destruct (xcompile_stmts nm cf body a) as [[bl a1]|] eqn:E1; [|discriminate].
    destruct (xcompile_cases nm cf r a1) as [[bs a2]|] eqn:E2; [|discriminate].
    inversion H; subst; clear H.
    destruct (Pb _ _ _ W E1) as (Q1 & S1). pose proof Q1 as (W1 & _ & _ & Sid1).
    destruct (Pr _ _ _ W1 E2) as (Q2 & L2 & S2).
    split; [|split].
    - change (sid_cases cf (XKCons l body brk r) (x_sid a)) with (sid_cases cf r (sid_stmts cf body (x_sid a))).
      rewrite <- Sid1. eapply Q_trans; eauto.
    - cbn [map fst xlabels]. rewrite L2. reflexivity.
    - intros T [Kb Kr].
      change (xsem_cases nm cf ft env (XKCons l body brk r) (x_sid a))
        with (xsem_stmts nm cf ft env body (x_sid a) :: xsem_cases nm cf ft env r (sid_stmts cf body (x_sid a))).
      constructor.
      + cbn [snd]. apply (S1 (tables_ok_Q _ _ _ Q2 T) Kb).
      + rewrite <- Sid1. apply (S2 T Kr).
  Qed.

  Lemma Forall2_nth_iff (l1 : list rel) (l2 : list rel) :
    Forall2 (fun R1 R2 : rel => forall st st', R1 st st' <-> R2 st st') l1 l2 ->
    forall k st st', nth k l1 norel st st' <-> nth k l2 norel st st'.
  Proof.
    induction 1 as [|R1 R2 l1 l2 H F IH]; intros k st st'.
    - destruct k; reflexivity.
    - destruct k; cbn [nth]; [apply H|apply IH].
  Qed.

  Lemma switch_sem_ext x labels (Rs1 Rs2 : list rel) sid :
    Forall2 (fun R1 R2 : rel => forall st st', R1 st st' <-> R2 st st') Rs1 Rs2 ->
    forall st st', switch_sem nm cf x labels Rs1 sid st st' <-> switch_sem nm cf x labels Rs2 sid st st'.
  Proof.
    intros F st st'. unfold switch_sem. destruct (PS.select_entry _ _) as [k|]; [|reflexivity].
    split; intros (s & H & E); exists s; (split; [|exact E]); apply (Forall2_nth_iff _ _ F); exact H.
  Qed.

  Lemma Forall2_map_l {A B C} (f : A -> C) (P : C -> B -> Prop) (l : list A) (l' : list B) :
    Forall2 (fun a b => P (f a) b) l l' -> Forall2 P (map f l) l'.
  Proof. induction 1; cbn; constructor; auto. Qed.

  Lemma PX_XSwitch x cs : PX_cases cs -> PX_stmt (XSwitch x cs).
  Proof.
    intros Pc a lines a' W H. cbn [xcompile_stmt] in H.
    destruct (xcompile_cases nm cf cs a) as [[bodies a1]|] eqn:E; [|discriminate].
    destruct (Pc _ _ _ W E) as (Q1 & L1 & S1). pose proof Q1 as (W1 & X1 & G1 & Sid1).
    destruct (switch_code_iff nm cf ft env _ _ _ _ _ H) as (fs & Ea & Esid & Hlab & S).
    assert (Exa : xa a' = xa a1) by (rewrite Ea; reflexivity).
    assert (Eaf : x_afns a' = x_afns a1) by (rewrite Ea; reflexivity).
    assert (Esw : x_sw a' = x_sw a1 ++ [(x_pc a1, fs)]) by (rewrite Ea; reflexivity).
    assert (Q' : Q a1 a' (x_sid a')).
    { split; [rewrite Exa; exact W1|]. split; [rewrite Exa; apply ext_refl|]. split; [|reflexivity].
      split; [exists []; rewrite app_nil_r; exact Eaf|eexists; exact Esw]. }
    split.
    - replace (sid_stmt cf (XSwitch x cs) (x_sid a)) with (x_sid a'); [eapply Q_trans; eauto|].
      rewrite Esid, Sid1. simpl. destruct (MS.is_macro cf); reflexivity.
    - intros T [Kx Kc] st st'.
      pose proof (tables_ok_Q _ _ _ Q' T) as T1.
      assert (Hok : sw_ok nm cf ft (x_pc a1, fs)).
      { destruct T as (_ & _ & I3). rewrite Esw in I3. apply Forall_app in I3. destruct I3 as [_ I3].
        inversion I3; subst. assumption. }
      pose proof (S1 T1 Kc) as F.
      assert (Frame : MS.is_macro cf = false ->
                      forall k s s', runs (nth k (map snd bodies) []) s s' ->
                                     sc s' (MS.tmp_score nm (x_sid a1)) = sc s (MS.tmp_score nm (x_sid a1))).
      { intros Hb k s s' Hr.
        destruct (xsem_frame nm cf ft env Hb) as (_ & _ & _ & _ & Fc).
        pose proof (Fc cs (x_sid a) Kc (x_sid a1) ltac:(rewrite Sid1; lia)) as Fk.
        clear - F Fk Hr. revert k Hr. induction F as [|b R bs Rs Hb F IH]; intros k Hr.
        - destruct k; cbn in Hr; apply runs_nil in Hr; subst; reflexivity.
        - inversion Fk as [|? ? K1 K2]; subst. destruct k as [|k]; cbn [map nth] in Hr.
          + apply K1. apply Hb. exact Hr.
          + apply (IH K2 k Hr). }
      rewrite (S Hok Frame st st'), (switch_lines_sem nm cf ft env x bodies (x_sid a1) Hlab st st').
      change (xsem_stmt nm cf ft env (XSwitch x cs) (x_sid a) st st')
        with (switch_sem nm cf x (xlabels cs) (xsem_cases nm cf ft env cs (x_sid a)) (sid_cases cf cs (x_sid a)) st st').
      rewrite L1, Sid1. apply switch_sem_ext. apply Forall2_map_l. exact F.
  Qed.

  Lemma PX_XBNil : PX_branches XBNil.
  Proof.
    split; [exact I|]. intros he a ws le a' W H. cbn in H. inversion H; subst; clear H.
    split; [apply Q_refl; exact W|]. split; [constructor|]. split; [reflexivity|].
    intros _ _. split; constructor.
  Qed.

  (* Q for a step that only changes xa *)
  Lemma Q_set_a a r : wf nm r -> ext nm (xa a) r -> Q a (set_a a r) (x_sid a).
  Proof. intros W X. split; [exact W|]. split; [exact X|]. split; [exact (grows_refl a)|reflexivity]. Qed.

  Lemma PX_XBCons c body r : PX_stmts body -> PX_branches r -> PX_branches (XBCons c body r).
  Proof.
    intros Pb [Pr_all Pr]. split; [split; assumption|].
    intros he a ws le a' W H. cbn [xcompile_branches] in H.
    destruct (xcompile_stmts nm cf body a) as [[bl a1]|] eqn:E; [|discriminate].
    destruct (Pb _ _ _ W E) as (Q1 & S1). pose proof Q1 as (W1 & X1 & G1 & Sid1).
    change (sid_branches cf (XBCons c body r) (x_sid a)) with (sid_branches cf r (sid_stmts cf body (x_sid a))).
    change (xsem_branches nm cf ft env (XBCons c body r) (x_sid a))
      with ((c, xsem_stmts nm cf ft env body (x_sid a)) :: xsem_branches nm cf ft env r (sid_stmts cf body (x_sid a))).
    destruct (is_xbnil r && negb he) eqn:Last.
    - (* the unwrapped last else-if of a chain without else *)
      inversion H; subst; clear H. apply andb_true_iff in Last. destruct Last as [Rn Hn].
      destruct r; [|discriminate]. apply negb_true_iff in Hn. subst he.
      split; [exact Q1|]. split; [constructor|]. split; [discriminate|].
      intros T (Kc & _ & Kb & _). split; [|constructor]. cbn. constructor; [|constructor].
      split; [reflexivity|]. cbn [snd]. intros x y. apply (S1 T Kb).
    - destruct (isolate nm bl (xa a1)) as [bl' r1'] eqn:Iso.
      destruct (isolate_spec nm ft env _ _ _ _ W1 Iso) as (W1' & X1' & S1').
      destruct (get_count IF_ELSE r1') as [k r2] eqn:G.
      set (w := mkW c bl' k) in *.
      destruct (xcompile_branches nm cf he r (set_a a1 (add_fn (wbr_fn nm w) r2))) as [[[ws' le'] a3]|] eqn:E3; [|discriminate].
      inversion H; subst; clear H.
      destruct (reserve_add nm _ _ _ _ _ (w_body w ++ [set_flag nm 1]) W1' IF_in G
                            (wf_get_count nm _ _ _ _ W1' G) (ext_refl nm r2)) as (W2 & X2 & Ef).
      change (add_fns [(priv_fn nm IF_ELSE k, w_body w ++ [set_flag nm 1])] r2)
        with (add_fn (wbr_fn nm w) r2) in *.
      destruct (Pr he (set_a a1 (add_fn (wbr_fn nm w) r2)) _ _ _ W2 E3) as (Q3 & B3 & L3 & S3).
      cbn [xa set_a x_sid] in Q3, S3, B3. pose proof Q3 as (W3 & X3 & G3 & Sid3).
      cbn [xa set_a] in X3.
      assert (Qm : Q a1 (set_a a1 (add_fn (wbr_fn nm w) r2)) (x_sid a1)).
      { apply Q_set_a; [exact W2|]. eapply ext_trans; [exact X1'|exact X2]. }
      split.
      { rewrite <- Sid1. eapply Q_trans; [exact Q1|]. eapply Q_trans; [exact Qm|exact Q3]. }
      split.
      { constructor; [|exact B3]. apply (ext_in nm _ _ _ X3). rewrite Ef. apply in_or_app. right. left. reflexivity. }
      split; [exact L3|].
      intros T (Kc & _ & Kb & Kr). rewrite <- Sid1. destruct (S3 T Kr) as [F2 Kw]. split.
      + cbn [map app]. constructor; [|exact F2]. split; [reflexivity|]. cbn [snd src_of w_body w fst].
        pose proof (tables_ok_Q _ _ _ Q3 T) as Tm. pose proof Tm as (Im & _ & _). cbn [xa set_a] in Im.
        pose proof (ext_installed nm ft _ _ X2 Im) as I1'.
        intros x y. rewrite (S1' I1' x y). apply S1; [|exact Kb].
        destruct Tm as (_ & I2 & I3). split; [apply (ext_installed nm ft _ _ X1' I1')|]. split; assumption.
      + constructor; [exact Kc|exact Kw].
  Qed.

  Definition xgeneral_if (b : xbranches) (e : xoelse) (a : xalloc) : option (list cmd * xalloc) :=
    match xcompile_branches nm cf (match e with XENone => false | XESome _ => true end) b a with
    | None => None
    | Some (ws, lastelif, a1) =>
      match e, lastelif with
      | XESome body, _ =>
        match xcompile_stmts nm cf body a1 with
        | None => None
        | Some (lines, a2) =>
          match finish_chain nm ws (inl lines) (xa a2) with
          | None => None
          | Some (caller, r3) => Some (caller, set_a a2 r3)
          end
        end
      | XENone, Some cl =>
        match finish_chain nm ws (inr cl) (xa a1) with
        | None => None
        | Some (caller, r2) => Some (caller, set_a a1 r2)
        end
      | XENone, None => None
      end
    end.

  Lemma xcompile_if_general b e a :
    is_xsingle b e = false -> xcompile_stmt nm cf (XIf b e) a = xgeneral_if b e a.
  Proof.
    destruct b as [|c body [|c2 b2 r2]], e; cbn [is_xsingle]; intros H; try discriminate; try reflexivity.
    unfold xgeneral_if. cbn. destruct (xcompile_stmts nm cf body a) as [[l x]|]; reflexivity.
  Qed.

  Lemma PX_XIf b e : PX_branches b -> PX_oelse e -> PX_stmt (XIf b e).
  Proof.
    intros [Pall Pb] Pe a lines a' W H.
    change (sid_stmt cf (XIf b e) (x_sid a)) with (sid_oelse cf e (sid_branches cf b (x_sid a))).
    destruct (is_xsingle b e) eqn:Single.
    - (* a lone if *)
      destruct b as [|c body [|? ? ?]]; try discriminate. destruct e; try discriminate.
      destruct Pall as [Pbody _]. cbn [xcompile_stmt] in H.
      destruct (xcompile_stmts nm cf body a) as [[bl a1]|] eqn:E; [|discriminate].
      destruct (alloc_arrow bl (xa a1)) as [[aid r2]|] eqn:A; [|discriminate].
      destruct (Pbody _ _ _ W E) as (Q1 & S1). pose proof Q1 as (W1 & X1 & G1 & Sid1).
      unfold single_if_code in H. pose proof (arrow_fns nm IF_ELSE bl aid) as AF.
      destruct (arrow nm IF_ELSE bl aid) as [x fs] eqn:Ar. cbn [snd] in AF. inversion H; subst lines a'; clear H.
      change (sid_oelse cf XENone (sid_branches cf (XBCons c body XBNil) (x_sid a))) with (sid_stmts cf body (x_sid a)).
      assert (Sem : installed ft fs -> tables_ok a1 ->
                    xkeeps_stmt nm cf ft env (XIf (XBCons c body XBNil) XENone) ->
                    forall st st', runs (c_pre c ++ [merge1 (mods_of (c_tests c)) x]) st st' <->
                                   xsem_stmt nm cf ft env (XIf (XBCons c body XBNil) XENone) (x_sid a) st st').
      { intros If T1 [(Kc & _ & Kb & _) _] st st'.
        assert (SC : single_if_code nm c bl aid = (c_pre c ++ [merge1 (mods_of (c_tests c)) x], fs))
          by (unfold single_if_code; rewrite Ar; reflexivity).
        rewrite (single_if_correct nm ft env c bl aid _ _ SC If st st').
        change (xsem_stmt nm cf ft env (XIf (XBCons c body XBNil) XENone) (x_sid a) st st')
          with (exists o, chain_semR ft env [(c, xsem_stmts nm cf ft env body (x_sid a))] None st o st').
        assert (F : Forall2 (brel ft env) [(c, bl)] [(c, xsem_stmts nm cf ft env body (x_sid a))]).
        { constructor; [|constructor]. split; [reflexivity|]. cbn [snd]. intros p q. apply (S1 T1 Kb). }
        split; intros [o Ho]; exists o; apply (chain_sem_R ft env _ _ None None F Logic.I); exact Ho. }
      destruct (alloc_arrow_spec _ _ _ _ A) as (_ & [[Inl ->]|[Inl G]]); rewrite Inl in AF; subst fs.
      + cbn [add_fns fold_left]. rewrite set_a_xa. split; [exact Q1|].
        intros T K. apply Sem; [constructor|exact T|exact K].
      + destruct (reserve_add nm _ _ _ _ _ bl W1 IF_in G (wf_get_count nm _ _ _ _ W1 G) (ext_refl nm r2))
          as (W2 & X2 & Ef).
        assert (Q2 : Q a1 (set_a a1 (add_fns [(priv_fn nm IF_ELSE aid, bl)] r2)) (x_sid a1)) by (apply Q_set_a; assumption).
        split; [rewrite <- Sid1; eapply Q_trans; eauto|].
        intros T K. pose proof T as (I & I2 & I3). cbn [xa set_a] in I.
        destruct (installed_split ft _ _ _ Ef I) as [Ir If].
        apply Sem; [exact If| |exact K].
        split; [|split; assumption].
        destruct (get_count_spec _ _ _ _ G) as (_ & _ & _ & Eq). unfold installed. rewrite <- Eq. exact Ir.
    - (* a chain *)
      rewrite (xcompile_if_general b e a Single) in H. unfold xgeneral_if in H.
      set (he := match e with XENone => false | XESome _ => true end) in *.
      destruct (xcompile_branches nm cf he b a) as [[[ws le] a1]|] eqn:E1; [|discriminate].
      destruct (Pb _ _ _ _ _ W E1) as (Q1 & B1 & L1 & S1). pose proof Q1 as (W1 & X1 & G1 & Sid1).
      assert (Fin : forall lsrc a2 caller r3,
                 Q a1 a2 (x_sid a2) -> finish_chain nm ws lsrc (xa a2) = Some (caller, r3) ->
                 Q a (set_a a2 r3) (x_sid a2) /\
                 (tables_ok (set_a a2 r3) ->
                  tables_ok a2 /\
                  (xkeeps_branches nm cf ft env b ->
                   forall st st', runs caller st st' <->
                     exists o st'', chain_sem ft env (map src_of ws ++ lsrc_branches lsrc) (lsrc_else lsrc)
                                              (set_sc st (flag nm) 0) o st'' /\
                                    st' = finish nm (length ws) o st''))).
      { intros lsrc a2 caller r3 Q2 F. pose proof Q2 as (W2 & X2 & G2 & _).
        assert (B2 : Forall (fun w => In (wbr_fn nm w) (fns (xa a2))) ws).
        { eapply Forall_impl; [|exact B1]. intros w. apply (ext_in nm _ _ _ X2). }
        destruct (finish_chain_spec nm ft env _ _ _ _ _ W2 F B2) as (W' & X' & S').
        assert (Q3 : Q a2 (set_a a2 r3) (x_sid a2)) by (apply Q_set_a; assumption).
        split; [eapply Q_trans; [exact Q1|]; eapply Q_trans; eauto|].
        intros T. pose proof (tables_ok_Q _ _ _ Q3 T) as T2. split; [exact T2|].
        intros Kb. apply S'; [destruct T as (I & _); exact I|].
        apply (S1 (tables_ok_Q _ _ _ Q2 T2) Kb). }
      destruct e as [|ebody].
      + (* no else: the last else-if is unwrapped *)
        destruct le as [cl|]; [|discriminate].
        destruct (finish_chain nm ws (inr cl) (xa a1)) as [[caller r2]|] eqn:F; [|discriminate].
        inversion H; subst; clear H.
        destruct (Fin (inr cl) a1 lines r2 (Q_refl a1 W1) F) as (Q' & S').
        change (sid_oelse cf XENone (sid_branches cf b (x_sid a))) with (sid_branches cf b (x_sid a)).
        split; [rewrite <- Sid1; exact Q'|].
        intros T [Kb _] st st'. destruct (S' T) as [T1 S''].
        rewrite (S'' Kb st st').
        change (xsem_stmt nm cf ft env (XIf b XENone) (x_sid a) st st')
          with ((if is_xsingle b XENone
                 then fun st st' => exists o, chain_semR ft env (xsem_branches nm cf ft env b (x_sid a)) None st o st'
                 else fun st st' =>
                        exists o st'', chain_semR ft env (xsem_branches nm cf ft env b (x_sid a)) None
                                                  (set_sc st (flag nm) 0) o st'' /\
                                       st' = finish nm (xwrapped b XENone) o st'') st st').
        rewrite Single.
        destruct (S1 T1 Kb) as [F2 _]. cbn [optl lsrc_branches lsrc_else] in *.
        assert (Len : length ws = xwrapped b XENone).
        { apply Forall2_length' in F2. rewrite app_length, map_length, xsem_branches_length in F2. cbn in F2.
          unfold xwrapped. lia. }
        rewrite Len.
        split; intros (o & st'' & Hc & ->); exists o, st''; (split; [|reflexivity]);
          apply (chain_sem_R ft env _ _ None None F2 Logic.I); exact Hc.
      + (* else *)
        cbn [PX_oelse] in Pe.
        destruct (xcompile_stmts nm cf ebody a1) as [[el a2]|] eqn:E2; [|discriminate].
        destruct (finish_chain nm ws (inl el) (xa a2)) as [[caller r3]|] eqn:F; [|discriminate].
        inversion H; subst; clear H.
        destruct (Pe _ _ _ W1 E2) as (Q2 & S2). pose proof Q2 as (W2 & X2 & G2 & Sid2).
        destruct (Fin (inl el) a2 lines r3 ltac:(rewrite Sid2; exact Q2) F) as (Q' & S').
        change (sid_oelse cf (XESome ebody) (sid_branches cf b (x_sid a))) with (sid_stmts cf ebody (sid_branches cf b (x_sid a))).
        split; [rewrite <- Sid1, <- Sid2; exact Q'|].
        intros T [Kb Ke] st st'. destruct (S' T) as [T2 S''].
        rewrite (S'' Kb st st').
        change (xsem_stmt nm cf ft env (XIf b (XESome ebody)) (x_sid a) st st')
          with ((if is_xsingle b (XESome ebody)
                 then fun st st' => exists o, chain_semR ft env (xsem_branches nm cf ft env b (x_sid a)) None st o st'
                 else fun st st' =>
                        exists o st'', chain_semR ft env (xsem_branches nm cf ft env b (x_sid a))
                                                  (Some (xsem_stmts nm cf ft env ebody (sid_branches cf b (x_sid a))))
                                                  (set_sc st (flag nm) 0) o st'' /\
                                       st' = finish nm (xwrapped b (XESome ebody)) o st'') st st').
        rewrite Single.
        pose proof (tables_ok_Q _ _ _ Q2 T2) as T1.
        destruct (S1 T1 Kb) as [F2 _]. rewrite (L1 eq_refl) in F2.
        cbn [optl lsrc_branches lsrc_else] in *. rewrite app_nil_r in *.
        assert (Len : length ws = xwrapped b (XESome ebody)).
        { apply Forall2_length' in F2. rewrite map_length, xsem_branches_length in F2. exact F2. }
        rewrite Len.
        assert (Er : erel ft env (Some el) (Some (xsem_stmts nm cf ft env ebody (sid_branches cf b (x_sid a))))).
        { cbn. intros x y. rewrite <- Sid1. apply (S2 T2 Ke). }
        split; intros (o & st'' & Hc & ->); exists o, st''; (split; [|reflexivity]);
          apply (chain_sem_R ft env _ _ _ _ F2 Er); exact Hc.
  Qed.
End XMain.

Section XFinal.
  Variable nm : names.
  Variable cf : MS.cfg.
  Variable ft : string -> option (list cmd).
  Variable env : nat -> state -> state.

  Lemma xcompile_all :
    (forall s, PX_stmt nm cf ft env s) /\ (forall l, PX_stmts nm cf ft env l) /\
    (forall b, PX_branches nm cf ft env b) /\ (forall e, PX_oelse nm cf ft env e) /\
    (forall cs, PX_cases nm cf ft env cs).
  Proof.
    apply xstmt_mutind.
    - apply PX_XCmd.
    - intros b Hb e He. apply PX_XIf; assumption.
    - intros c body Hb. apply PX_XWhile; assumption.
    - intros body Hb c. apply PX_XDoWhile; assumption.
    - intros init c step body Hb. apply PX_XFor; assumption.
    - intros x cs Hc. apply PX_XSwitch; assumption.
    - intros e body Hb. apply PX_XRun; assumption.
    - apply PX_XNil.
    - intros s Hs r Hr. apply PX_XCons; assumption.
    - apply PX_XBNil.
    - intros c body Hb r Hr. apply PX_XBCons; assumption.
    - exact I.
    - intros body Hb. exact Hb.
    - apply PX_XKNil.
    - intros l body Hb brk r Hr. apply PX_XKCons; assumption.
  Qed.

  (* The lowering of a whole function body — chains, loops, switch statements (either lowering) and blocks
     nested in each other to any depth — run with any function table that holds the functions it stored,
     computes exactly the source meaning of the statement tree: every loop iterates as the JavaScript
     unfolding says, a switch runs the case labelled with the switched value (else default, else nothing),
     and what follows a loop / a switch / a block in its statement list runs exactly once after it. *)
  Theorem xcompile_body_correct prog lines a' :
    xcompile_stmts nm cf prog xalloc0 = Some (lines, a') ->
    NoDup (map fst (fns (xa a'))) /\
    (tables_ok nm cf ft a' -> xkeeps_stmts nm cf ft env prog ->
     forall st st', runs ft env lines st st' <-> xsem_stmts nm cf ft env prog 0 st st').
  Proof.
    intros E. destruct xcompile_all as (_ & Pl & _).
    destruct (Pl prog xalloc0 _ _ (wf_alloc0 nm) E) as (([N _] & _) & S). split; [exact N|exact S].
  Qed.
End XFinal.

(* ---- a syntactic sufficient condition for xkeeps_stmts ---- *)
Definition not_tmp (s : score) : bool := negb (String.prefix "__switch__" (fst s)).
Lemma not_tmp_spec nm s : not_tmp s = true -> forall k, s <> MS.tmp_score nm k.
Proof. intros H k E. subst s. unfold not_tmp, MS.tmp_score in H. cbn in H. destruct (z_dec k); cbn in H; discriminate. Qed.

(* commands that do not write any `__switch__N` *)
Definition cmd_quiet (c : cmd) : bool :=
  match c with
  | CSay _ | COther _ => true
  | CSet s _ | CAdd s _ | CRemove s _ => not_tmp s
  | CExecute ms (CSet s _) => forallb is_if ms && not_tmp s
  | _ => false
  end.

Section Simple.
  Variable nm : names.
  Variable cf : MS.cfg.
  Variable ft : string -> option (list cmd).
  Variable env : nat -> state -> state.
  Notation runs := (runs ft env).
  Notation steps := (steps ft env).

  Lemma cmd_quiet_frame c : cmd_quiet c = true ->
    forall k st st', steps c st st' -> sc st' (MS.tmp_score nm k) = sc st (MS.tmp_score nm k).
  Proof.
    intros Q k st st' H. destruct c; cbn [cmd_quiet] in Q; try discriminate.
    - destruct H as (fuel & r & H). destruct fuel; cbn in H; [discriminate|]. inversion H; subst.
      apply sc_set_other. apply (not_tmp_spec nm _ Q).
    - destruct H as (fuel & r & H). destruct fuel; cbn in H; [discriminate|]. inversion H; subst.
      apply sc_set_other. apply (not_tmp_spec nm _ Q).
    - destruct H as (fuel & r & H). destruct fuel; cbn in H; [discriminate|]. inversion H; subst.
      apply sc_set_other. apply (not_tmp_spec nm _ Q).
    - destruct c; try discriminate. apply andb_true_iff in Q. destruct Q as [Qi Qs].
      destruct (ifs_mods_of _ Qi) as [ts ->]. rewrite steps_guard in H.
      destruct (tests_hold st ts); [|subst; reflexivity].
      apply steps_set in H. subst. apply sc_set_other. apply (not_tmp_spec nm _ Qs).
    - destruct H as (fuel & r & H). destruct fuel; cbn in H; [discriminate|]. inversion H; subst. reflexivity.
    - destruct H as (fuel & r & H). destruct fuel; cbn in H; [discriminate|]. inversion H; subst. reflexivity.
  Qed.

  Lemma cmds_quiet l : forallb cmd_quiet l = true -> quiet nm cf ft env l.
  Proof.
    intros Q _ k. induction l as [|c l IH]; intros st st' H.
    - apply runs_nil in H. subst. reflexivity.
    - cbn in Q. apply andb_true_iff in Q. destruct Q as [Qc Ql].
      apply runs_cons in H. destruct H as (m & Hc & Hl).
      rewrite (IH Ql _ _ Hl). apply (cmd_quiet_frame c Qc k _ _ Hc).
  Qed.

  Fixpoint xsimple_stmt (s : xstmt) : bool :=
    match s with
    | XCmd c => cmd_quiet c
    | XIf b e => xsimple_branches b && xsimple_oelse e
    | XWhile c body => forallb cmd_quiet (c_pre c) && xsimple_stmts body
    | XDoWhile body c => forallb cmd_quiet (c_pre c) && xsimple_stmts body
    | XFor init c step body =>
      forallb cmd_quiet init && forallb cmd_quiet (c_pre c) && forallb cmd_quiet step && xsimple_stmts body
    | XSwitch x cs => not_tmp x && xsimple_cases cs
    | XRun _ body => xsimple_stmts body
    end
  with xsimple_stmts (l : xstmts) : bool :=
    match l with XNil => true | XCons s r => xsimple_stmt s && xsimple_stmts r end
  with xsimple_branches (b : xbranches) : bool :=
    match b with
    | XBNil => true
    | XBCons c body r =>
      simple_cond (flag nm) c && forallb cmd_quiet (c_pre c) && xsimple_stmts body && xsimple_branches r
    end
  with xsimple_oelse (e : xoelse) : bool :=
    match e with XENone => true | XESome body => xsimple_stmts body end
  with xsimple_cases (cs : xcases) : bool :=
    match cs with XKNil => true | XKCons _ body _ r => xsimple_stmts body && xsimple_cases r end.

  Lemma xsimple_keeps :
    (forall s, xsimple_stmt s = true -> xkeeps_stmt nm cf ft env s) /\
    (forall l, xsimple_stmts l = true -> xkeeps_stmts nm cf ft env l) /\
    (forall b, xsimple_branches b = true -> xkeeps_branches nm cf ft env b) /\
    (forall e, xsimple_oelse e = true -> xkeeps_oelse nm cf ft env e) /\
    (forall cs, xsimple_cases cs = true -> xkeeps_cases nm cf ft env cs).
  Proof.
    apply xstmt_mutind.
    - intros c H. simpl in *. apply cmds_quiet. cbn. rewrite H. reflexivity.
    - intros b Hb e He H. simpl in H. apply andb_true_iff in H. destruct H as [H1 H2].
      split; [apply Hb; exact H1|apply He; exact H2].
    - intros c body Hb H. simpl in H. apply andb_true_iff in H. destruct H as [H1 H2].
      split; [apply cmds_quiet; exact H1|apply Hb; exact H2].
    - intros body Hb c H. simpl in H. apply andb_true_iff in H. destruct H as [H1 H2].
      split; [apply cmds_quiet; exact H1|apply Hb; exact H2].
    - intros init c step body Hb H. simpl in H.
      apply andb_true_iff in H. destruct H as [H H4]. apply andb_true_iff in H. destruct H as [H H3].
      apply andb_true_iff in H. destruct H as [H1 H2].
      split; [apply cmds_quiet; exact H1|]. split; [apply cmds_quiet; exact H2|].
      split; [apply cmds_quiet; exact H3|apply Hb; exact H4].
    - intros x cs Hc H. simpl in H. apply andb_true_iff in H. destruct H as [H1 H2].
      split; [intros _; apply not_tmp_spec; exact H1|apply Hc; exact H2].
    - intros e body Hb H. apply Hb. exact H.
    - intros; exact I.
    - intros s Hs r Hr H. simpl in H. apply andb_true_iff in H. destruct H as [H1 H2].
      split; [apply Hs; exact H1|apply Hr; exact H2].
    - intros; exact I.
    - intros c body Hb r Hr H. simpl in H.
      apply andb_true_iff in H. destruct H as [H H4]. apply andb_true_iff in H. destruct H as [H H3].
      apply andb_true_iff in H. destruct H as [H1 H2].
      split; [apply simple_keeps_flag; exact H1|]. split; [apply cmds_quiet; exact H2|].
      split; [apply Hb; exact H3|apply Hr; exact H4].
    - intros; exact I.
    - intros body Hb H. apply Hb. exact H.
    - intros; exact I.
    - intros l body Hb brk r Hr H. simpl in H. apply andb_true_iff in H. destruct H as [H1 H2].
      split; [apply Hb; exact H1|apply Hr; exact H2].
  Qed.
End Simple.

Theorem xcompile_body_correct_simple nm cf ft env prog lines a' :
  xcompile_stmts nm cf prog xalloc0 = Some (lines, a') ->
  tables_ok nm cf ft a' -> xsimple_stmts nm prog = true ->
  forall st st', runs ft env lines st st' <-> xsem_stmts nm cf ft env prog 0 st st'.
Proof.
  intros C T S. destruct (xcompile_body_correct nm cf ft env _ _ _ C) as [_ H].
  apply H; [exact T|]. apply (xsimple_keeps nm cf ft env). exact S.
Qed.
