(* Proofs.Cond — the flag-numbering invariant of ast_to_commands / ast_to_strings and the
   correctness of the lowered condition against MC.Sem (C03). *)
From Coq Require Import ZArith String List Bool Lia Arith.
From JMCV Require Import Base.Int32 Base.Dec MC.Syntax MC.Sem MC.Facts Model.Names Model.Cond
     Proofs.CondBase.
Import ListNotations.
Open Scope Z_scope.

Definition b2z (b : bool) : Z := if b then 1 else 0.

(* ------------------------------------------------------------------ what the emitted lines do *)
Section Exec.
  Variable ft : string -> option (list cmd).
  Variable env : nat -> state -> state.
  Variable nm : names.

  Lemma run_mods_ifs cs st (k : state -> option (state * res)) :
    run_mods (map mif cs) [] st k =
    if conds_true st cs then k st else Some (st, r_fail).
  Proof.
    induction cs as [|c cs IH]; cbn [map run_mods conds_true forallb].
    - destruct (k st) as [[s r]|]; reflexivity.
    - unfold mif at 1. unfold cond_true at 1. destruct (Bool.eqb (fst c) (test_true st (snd c))); cbn [andb].
      + exact IH.
      + reflexivity.
  Qed.

  (* `execute <cs> run scoreboard players set s v` *)
  Lemma exec_guarded_set cs s v st :
    exec ft env 2 no_menv (CExecute (map mif cs) (CSet s v)) st =
    Some (if conds_true st cs then (set_sc st s v, r_ok v) else (st, r_fail)).
  Proof. cbn [exec]. rewrite run_mods_ifs. now destruct (conds_true st cs). Qed.

  (* `execute <cs> run <abstract body n>` *)
  Lemma exec_guarded_ext cs n st :
    exec ft env 2 no_menv (guarded cs (CExt n)) st =
    Some (if conds_true st cs then (log (env n st) (EExt n), r_ok 1) else (st, r_fail)).
  Proof. unfold guarded. cbn [exec]. rewrite run_mods_ifs. now destruct (conds_true st cs). Qed.

  (* effect of one precommand entry *)
  Definition run_entry (started : bool) (p : pre) (st : state) : state :=
    let k := snd p in
    if started then
      if conds_true st (flag_is nm false k :: fst p) then set_sc st (flag nm k) 1 else st
    else
      let st0 := set_sc st (flag nm k) 0 in
      if conds_true st0 (fst p) then set_sc st0 (flag nm k) 1 else st0.

  Fixpoint run_pre (init : list nat) (ps : list pre) (st : state) : state :=
    match ps with
    | [] => st
    | p :: r =>
      if mem (snd p) init then run_pre init r (run_entry true p st)
      else run_pre (snd p :: init) r (run_entry false p st)
    end.

  Fixpoint init_after (init : list nat) (ps : list pre) : list nat :=
    match ps with
    | [] => init
    | p :: r => if mem (snd p) init then init_after init r else init_after (snd p :: init) r
    end.

  Lemma exec_pre ps : forall init st,
    exec_list ft env 2 (pre_to_cmds nm init ps) st = Some (run_pre init ps st).
  Proof.
    unfold exec_list. induction ps as [|[cs k] r IH]; intros init st; [reflexivity|].
    cbn [pre_to_cmds run_pre snd]. destruct (mem k init).
    - cbn [seq_run].
      pose proof (exec_guarded_set (flag_is nm false k :: cs) (flag nm k) 1 st) as X.
      cbn [map] in X. rewrite X. clear X. unfold run_entry; cbn [fst snd].
      destruct (conds_true st (flag_is nm false k :: cs)); apply IH.
    - cbn [seq_run].
      assert (X0 : exec ft env 2 no_menv (CSet (flag nm k) 0) st = Some (set_sc st (flag nm k) 0, r_ok 0))
        by reflexivity.
      rewrite X0, exec_guarded_set. unfold run_entry; cbn [fst snd].
      destruct (conds_true (set_sc st (flag nm k) 0) cs); apply IH.
  Qed.

  Lemma run_pre_app ps1 : forall init ps2 st,
    run_pre init (ps1 ++ ps2) st = run_pre (init_after init ps1) ps2 (run_pre init ps1 st).
  Proof.
    induction ps1 as [|p r IH]; intros init ps2 st; [reflexivity|].
    cbn [app run_pre init_after]. destruct (mem (snd p) init); apply IH.
  Qed.
  Lemma init_after_app ps1 : forall init ps2,
    init_after init (ps1 ++ ps2) = init_after (init_after init ps1) ps2.
  Proof.
    induction ps1 as [|p r IH]; intros init ps2; [reflexivity|].
    cbn [app init_after]. destruct (mem (snd p) init); apply IH.
  Qed.

  Lemma mem_In k l : mem k l = true <-> In k l.
  Proof.
    unfold mem. rewrite existsb_exists. split.
    - intros [x [Hx E]]. apply Nat.eqb_eq in E. now subst.
    - intros H. exists k. split; [exact H|apply Nat.eqb_refl].
  Qed.

  Lemma init_after_bound lo hi ps : forall init,
    Forall (pre_in nm lo hi) ps -> (forall j, In j init -> (j < hi)%nat) ->
    forall j, In j (init_after init ps) -> (j < hi)%nat.
  Proof.
    induction ps as [|p r IH]; intros init H Hi j Hj; [now apply Hi|].
    inversion H as [|? ? [_ Hp] Hr]; subst. cbn [init_after] in Hj.
    destruct (mem (snd p) init).
    - eapply IH; eauto.
    - eapply (IH (snd p :: init)); eauto. intros i [<-|Hin]; [lia|now apply Hi].
  Qed.
  (* a key below the range of ps is initialised after ps iff it was before *)
  Lemma init_after_mem_below lo hi ps k : forall init,
    Forall (pre_in nm lo hi) ps -> (k < lo)%nat -> mem k (init_after init ps) = mem k init.
  Proof.
    induction ps as [|p r IH]; intros init H Hk; [reflexivity|].
    inversion H as [|? ? [_ Hp] Hr]; subst. cbn [init_after].
    destruct (mem (snd p) init); [now apply IH|].
    rewrite IH by assumption. cbn [mem existsb].
    destruct (Nat.eqb_spec k (snd p)); [lia|reflexivity].
  Qed.

  Lemma wf_pre lo hi ps : forall init,
    Forall (pre_in nm lo hi) ps -> forallb wf_cmd (pre_to_cmds nm init ps) = true.
  Proof.
    assert (W : forall cs, Forall (cond_in nm lo hi) cs -> forallb wf_mod (map mif cs) = true).
    { induction 1 as [|c cs [_ Hc] _ IH]; [reflexivity|]. cbn [map forallb]. unfold mif at 1; cbn [wf_mod].
      now rewrite Hc, IH. }
    induction ps as [|[cs k] r IH]; intros init H; [reflexivity|].
    inversion H as [|? ? [Hc _] Hr]; subst. cbn [fst] in Hc. cbn [pre_to_cmds].
    destruct (mem k init); cbn [forallb wf_cmd]; rewrite (IH _ Hr), (W _ Hc); reflexivity.
  Qed.

  (* -------------------------------------------------------------- the invariant *)

  (* What ast_to_commands promises for operand a starting at flag number c: it uses flag numbers
     c..c'-1 only; its conditions and precommands read user scores and those flags only; and,
     whatever has been initialised before (all below c), running the precommands changes
     nothing but those flags and makes the conditions hold exactly when a holds of the
     state at entry. *)
  Definition Good (a : ast) (c : nat) (r : a2c_res) : Prop :=
    let '(cs, ps, c') := r in
    ast_ok nm a ->
    (c <= c')%nat /\ Forall (cond_in nm c c') cs /\ Forall (pre_in nm c c') ps /\
    forall init st, (forall j, In j init -> (j < c)%nat) ->
      same_out nm c c' st (run_pre init ps st) /\
      conds_true (run_pre init ps st) cs = aeval st a.

  Lemma flag_is_true_val st pos k v :
    sc st (flag nm k) = Some (b2z v) -> cond_true st (flag_is nm pos k) = Bool.eqb pos v.
  Proof. unfold cond_true, flag_is; cbn. intros ->. now destruct v. Qed.

  Lemma cond_in_flag lo hi pos k : (lo <= k < hi)%nat -> cond_in nm lo hi (flag_is nm pos k).
  Proof.
    intros H. split; [|reflexivity]. cbn. constructor; [|constructor]. right. now exists k.
  Qed.

  Section Walk.
    Variable rec : ast -> nat -> option a2c_res.
    Variable l0 : list ast.
    Hypothesis rec_good : forall a c r, In a l0 -> rec a c = Some r -> Good a c r.

    Lemma and_walk_good : forall l c cs ps c',
      incl l l0 -> and_walk rec l c = Some (cs, ps, c') -> Forall (ast_ok nm) l ->
      (c <= c')%nat /\ Forall (cond_in nm c c') cs /\ Forall (pre_in nm c c') ps /\
      forall init st, (forall j, In j init -> (j < c)%nat) ->
        same_out nm c c' st (run_pre init ps st) /\
        conds_true (run_pre init ps st) cs = forallb (aeval st) l.
    Proof.
      induction l as [|x r IH]; intros c cs ps c' Hin E Hok; cbn [and_walk] in E.
      - injection E as <- <- <-. repeat split; auto.
      - destruct (rec x c) as [[[cs1 ps1] c1]|] eqn:E1; [|discriminate].
        destruct (and_walk rec r c1) as [[[cs2 ps2] c2]|] eqn:E2; [|discriminate].
        injection E as <- <- <-.
        inversion Hok as [|? ? Hx Hr]; subst.
        pose proof (rec_good x c _ (Hin x (or_introl eq_refl)) E1) as G1. cbn in G1.
        destruct (G1 Hx) as [L1 [C1 [P1 S1]]].
        destruct (IH c1 cs2 ps2 c2 (fun y Hy => Hin y (or_intror Hy)) E2 Hr) as [L2 [C2 [P2 S2]]].
        split; [lia|]. split.
        { apply Forall_app; split;
            [apply (conds_in_weaken nm c c1 c c2 cs1)|apply (conds_in_weaken nm c1 c2 c c2 cs2)]; auto; lia. }
        split.
        { apply Forall_app; split;
            [apply (pres_in_weaken nm c c1 c c2 ps1)|apply (pres_in_weaken nm c1 c2 c c2 ps2)]; auto; lia. }
        intros init st Hi. rewrite run_pre_app.
        destruct (S1 init st Hi) as [O1 V1].
        set (st1 := run_pre init ps1 st) in *.
        assert (Hi1 : forall j, In j (init_after init ps1) -> (j < c1)%nat).
        { eapply init_after_bound; [exact P1|]. intros j Hj. specialize (Hi j Hj). lia. }
        destruct (S2 (init_after init ps1) st1 Hi1) as [O2 V2].
        set (st2 := run_pre (init_after init ps1) ps2 st1) in *.
        split.
        { apply (same_out_trans nm c c2 st st1 st2);
            [apply (same_out_weaken nm c c1 c c2)|apply (same_out_weaken nm c1 c2 c c2)]; auto; lia. }
        rewrite conds_true_app. cbn [forallb]. f_equal.
        + rewrite (conds_frame_out nm c c1 c1 c2 cs1 st1 st2 C1 O2) by lia. exact V1.
        + rewrite V2. clear -Hr O1. induction Hr as [|y r Hy _ IHr]; [reflexivity|].
          cbn [forallb]. rewrite IHr. f_equal. symmetry. apply (aeval_ext nm).
          * apply Hy. * eapply same_out_user; eassumption.
    Qed.

    Lemma or_walk_good k : forall l c ps c',
      incl l l0 -> or_walk rec k l c = Some (ps, c') -> Forall (ast_ok nm) l -> (k < c)%nat ->
      (c <= c')%nat /\ Forall (pre_in nm k c') ps /\
      forall init st acc, (forall j, In j init -> (j < c)%nat) ->
        (mem k init = true -> sc st (flag nm k) = Some (b2z acc)) ->
        (mem k init = false -> acc = false) ->
        same_out nm k c' st (run_pre init ps st) /\
        (l <> [] \/ mem k init = true ->
         sc (run_pre init ps st) (flag nm k) = Some (b2z (acc || existsb (aeval st) l))).
    Proof.
      induction l as [|x r IH]; intros c ps c' Hin E Hok Hk; cbn [or_walk] in E.
      - injection E as <- <-. split; [lia|]. split; [constructor|].
        intros init st acc Hi Hs Hn. split; [apply same_out_refl|].
        intros [N|M]; [congruence|]. cbn [run_pre existsb]. rewrite orb_false_r. now apply Hs.
      - destruct (rec x c) as [[[cs1 ps1] c1]|] eqn:E1; [|discriminate].
        destruct (or_walk rec k r c1) as [[ps2 c2]|] eqn:E2; [|discriminate].
        injection E as <- <-.
        inversion Hok as [|? ? Hx Hr]; subst.
        pose proof (rec_good x c _ (Hin x (or_introl eq_refl)) E1) as G1. cbn in G1.
        destruct (G1 Hx) as [L1 [C1 [P1 S1]]].
        destruct (IH c1 ps2 c2 (fun y Hy => Hin y (or_intror Hy)) E2 Hr ltac:(lia)) as [L2 [P2 S2]].
        split; [lia|]. split.
        { apply Forall_app; split; [apply (pres_in_weaken nm c c1 k c2 ps1); auto; lia|].
          constructor; [|exact P2]. split; cbn [fst snd]; [|lia].
          apply (conds_in_weaken nm c c1 k c2 cs1); auto; lia. }
        intros init st acc Hi Hs Hn.
        rewrite run_pre_app. destruct (S1 init st Hi) as [O1 V1].
        set (st1 := run_pre init ps1 st) in *.
        set (init1 := init_after init ps1).
        assert (Hi1 : forall j, In j init1 -> (j < c1)%nat).
        { eapply init_after_bound; [exact P1|]. intros j Hj. specialize (Hi j Hj). lia. }
        assert (M1 : mem k init1 = mem k init) by (eapply init_after_mem_below; eassumption).
        assert (F1 : sc st1 (flag nm k) = sc st (flag nm k)).
        { apply O1. intros j Hj Ej. apply flag_inj in Ej. lia. }
        set (ax := aeval st x) in *.
        (* the entry (cs1, k) *)
        cbn [run_pre snd]. fold init1. rewrite M1.
        set (st2 := run_entry (mem k init) (cs1, k) st1).
        set (init2 := if mem k init then init1 else k :: init1).
        assert (R : (if mem k init then run_pre init1 ps2 (run_entry true (cs1, k) st1)
                     else run_pre (k :: init1) ps2 (run_entry false (cs1, k) st1))
                    = run_pre init2 ps2 st2).
        { unfold st2, init2. now destruct (mem k init). }
        rewrite R. clear R.
        assert (Hst2 : same_out nm k c1 st1 st2 /\ sc st2 (flag nm k) = Some (b2z (acc || ax))).
        { unfold st2, run_entry; cbn [fst snd]. destruct (mem k init) eqn:Est.
          - specialize (Hs eq_refl). cbn [conds_true forallb].
            rewrite (flag_is_true_val st1 false k acc) by (rewrite F1; exact Hs).
            fold (conds_true st1 cs1). rewrite V1.
            destruct acc; cbn [Bool.eqb andb orb].
            + split; [apply same_out_refl|]. rewrite F1. exact Hs.
            + destruct ax; cbn.
              * split; [apply same_out_set; lia|]. unfold set_sc; cbn [sc]. now rewrite upd_same.
              * split; [apply same_out_refl|]. rewrite F1. exact Hs.
          - rewrite (Hn eq_refl). cbn [orb].
            set (st0 := set_sc st1 (flag nm k) 0).
            assert (V0 : conds_true st0 cs1 = ax).
            { rewrite <- V1. apply (conds_frame_out nm c c1 k (S k) cs1 st1 st0 C1).
              - apply same_out_set; lia.
              - lia. }
            rewrite V0. destruct ax; cbn.
            + split.
              * eapply same_out_trans; apply same_out_set; lia.
              * unfold set_sc; cbn [sc]. now rewrite upd_same.
            + split; [apply same_out_set; lia|]. unfold st0, set_sc; cbn [sc]. now rewrite upd_same. }
        destruct Hst2 as [O12 F2].
        assert (Hi2 : forall j, In j init2 -> (j < c1)%nat).
        { unfold init2. destruct (mem k init); [exact Hi1|]. intros j [<-|Hj]; [lia|now apply Hi1]. }
        assert (M2 : mem k init2 = true).
        { unfold init2. destruct (mem k init) eqn:Est; [exact M1|]. cbn [mem existsb]. now rewrite Nat.eqb_refl. }
        destruct (S2 init2 st2 (acc || ax)%bool Hi2 (fun _ => F2) ltac:(congruence)) as [O2 V2].
        split.
        { apply (same_out_trans nm k c2 st st2); [|exact O2].
          apply (same_out_trans nm k c2 st st1);
            [apply (same_out_weaken nm c c1 k c2); auto; lia|apply (same_out_weaken nm k c1 k c2); auto; lia]. }
        intros _. rewrite (V2 (or_intror M2)). cbn [existsb]. f_equal. f_equal.
        rewrite <- orb_assoc. f_equal. f_equal.
        assert (U : agree_user nm st st2).
        { intros s Hs'. rewrite (same_out_user nm _ _ _ _ O1 s Hs'). apply (same_out_user nm _ _ _ _ O12 s Hs'). }
        clear -Hr U. induction Hr as [|y r Hy _ IHr]; [reflexivity|].
        cbn [existsb]. rewrite IHr. f_equal. symmetry. apply (aeval_ext nm); [apply Hy|exact U].
    Qed.
  End Walk.

  Lemma in_size_lt (x : ast) l : In x l -> (ast_size x <= fold_right (fun x n => ast_size x + n)%nat O l)%nat.
  Proof. induction l as [|y l IH]; intros []; cbn [fold_right]; [subst; lia|]. specialize (IH H). lia. Qed.

  Theorem a2c_good : forall fuel a c r, ast_to_commands nm fuel a c = Some r -> Good a c r.
  Proof.
    induction fuel as [|fu IH]; intros a c r E; [discriminate|].
    destruct a as [k|l|l|b]; cbn [ast_to_commands] in E.
    - (* Leaf *)
      injection E as <-. cbn. intros [T _]. cbn [tests] in T. inversion T as [|? ? [Hu Hw] _]; subst.
      split; [lia|]. split.
      { constructor; [|constructor]. split; [|exact Hw]. eapply Forall_impl; [|exact Hu]. intros s; now left. }
      split; [constructor|]. intros init st _. cbn [run_pre]. split; [apply same_out_refl|].
      cbn. now rewrite andb_true_r.
    - (* And *)
      destruct r as [[cs ps] c']. cbn. intros Hok. apply ast_ok_and in Hok as [Hl _].
      destruct (and_walk_good (ast_to_commands nm fu) l (fun a c r _ => IH a c r) l c cs ps c'
                              (incl_refl l) E Hl) as [L [C [P Sm]]].
      repeat split; auto; apply Sm; auto.
    - (* Or *)
      destruct (or_walk (ast_to_commands nm fu) c l (S c)) as [[ps c']|] eqn:E1; [|discriminate].
      injection E as <-. cbn. intros Hok. apply ast_ok_or in Hok as [Hl Hne].
      destruct (or_walk_good (ast_to_commands nm fu) l (fun a c r _ => IH a c r) c l (S c) ps c'
                             (incl_refl l) E1 Hl ltac:(lia)) as [L [P Sm]].
      split; [lia|]. split; [constructor; [apply cond_in_flag; lia|constructor]|].
      split; [exact P|]. intros init st Hi.
      assert (M : mem c init = false).
      { destruct (mem c init) eqn:M; [|reflexivity]. apply mem_In in M. specialize (Hi c M). lia. }
      destruct (Sm init st false ltac:(intros j Hj; specialize (Hi j Hj); lia) ltac:(congruence) ltac:(auto))
        as [O V].
      split; [exact O|]. specialize (V (or_introl Hne)). cbn [orb] in V.
      cbn [conds_true forallb aeval]. rewrite V.
      now destruct (existsb (aeval st) l).
    - (* Not *)
      destruct (is_and_node b) eqn:Eb.
      + destruct (ast_to_commands nm fu b c) as [[[cs ps] c1]|] eqn:E1; [|discriminate].
        injection E as <-. cbn. intros Hok. apply ast_ok_not in Hok.
        pose proof (IH b c _ E1) as G. cbn in G. destruct (G Hok) as [L [C [P Sm]]].
        split; [lia|]. split; [constructor; [apply cond_in_flag; lia|constructor]|]. split.
        { apply Forall_app; split; [apply (pres_in_weaken nm c c1 c (S c1) ps); auto; lia|].
          constructor; [|constructor]. split; cbn [fst snd]; [|lia].
          apply (conds_in_weaken nm c c1 c (S c1) cs); auto; lia. }
        intros init st Hi. rewrite run_pre_app. destruct (Sm init st Hi) as [O1 V1].
        set (st1 := run_pre init ps st) in *.
        assert (Hi1 : forall j, In j (init_after init ps) -> (j < c1)%nat).
        { eapply init_after_bound; [exact P|]. intros j Hj. specialize (Hi j Hj). lia. }
        assert (M : mem c1 (init_after init ps) = false).
        { destruct (mem c1 (init_after init ps)) eqn:M; [|reflexivity].
          apply mem_In in M. specialize (Hi1 c1 M). lia. }
        cbn [run_pre snd]. rewrite M. unfold run_entry; cbn [fst snd].
        set (st0 := set_sc st1 (flag nm c1) 0).
        assert (V0 : conds_true st0 cs = aeval st b).
        { rewrite <- V1. apply (conds_frame_out nm c c1 c1 (S c1) cs st1 st0 C).
          - apply same_out_set; lia.
          - lia. }
        rewrite V0. cbn [aeval]. destruct (aeval st b); cbn.
        * split.
          { apply (same_out_trans nm c (S c1) st st1); [apply (same_out_weaken nm c c1 c (S c1)); auto; lia|].
            eapply same_out_trans; apply same_out_set; lia. }
          unfold cond_true, flag_is, set_sc; cbn. now rewrite upd_same.
        * split.
          { apply (same_out_trans nm c (S c1) st st1); [apply (same_out_weaken nm c c1 c (S c1)); auto; lia|].
            apply same_out_set; lia. }
          unfold cond_true, flag_is, st0, set_sc; cbn. now rewrite upd_same.
      + pose proof (IH _ _ _ E) as G. destruct r as [[cs ps] c']. cbn in *.
        intros Hok. apply ast_ok_not in Hok. destruct (G (negate_ok nm b Hok)) as [L [C [P Sm]]].
        repeat split; auto; try apply Sm; auto.
        rewrite (proj2 (Sm init st H)). apply negate_eval.
  Qed.

  (* -------------------------------------------------------------- fuel is always enough *)
  Section Total.
    Variable rec : ast -> nat -> option a2c_res.
    Lemma and_walk_total l : (forall x c, In x l -> rec x c <> None) -> forall c, and_walk rec l c <> None.
    Proof.
      induction l as [|x r IH]; intros H c; cbn [and_walk]; [discriminate|].
      destruct (rec x c) as [[[cs ps] c1]|] eqn:E; [|exfalso; eapply H; [left; reflexivity|exact E]].
      specialize (IH (fun y c Hy => H y c (or_intror Hy)) c1).
      destruct (and_walk rec r c1) as [[[? ?] ?]|]; [discriminate|congruence].
    Qed.
    Lemma or_walk_total k l : (forall x c, In x l -> rec x c <> None) -> forall c, or_walk rec k l c <> None.
    Proof.
      induction l as [|x r IH]; intros H c; cbn [or_walk]; [discriminate|].
      destruct (rec x c) as [[[cs ps] c1]|] eqn:E; [|exfalso; eapply H; [left; reflexivity|exact E]].
      specialize (IH (fun y c Hy => H y c (or_intror Hy)) c1).
      destruct (or_walk rec k r c1) as [[? ?]|]; [discriminate|congruence].
    Qed.
  End Total.

  Theorem a2c_total : forall fuel a c, (ast_size a <= fuel)%nat -> ast_to_commands nm fuel a c <> None.
  Proof.
    induction fuel as [|fu IH]; intros a c Hs; [destruct a; cbn in Hs; lia|].
    destruct a as [k|l|l|b]; cbn [ast_to_commands ast_size] in *.
    - discriminate.
    - apply and_walk_total. intros x c' Hx. apply IH. pose proof (in_size_lt x l Hx). lia.
    - pose proof (or_walk_total (ast_to_commands nm fu) c l) as T.
      destruct (or_walk (ast_to_commands nm fu) c l (S c)) as [[? ?]|] eqn:E; [discriminate|].
      exfalso. eapply T; [|exact E]. intros x c' Hx. apply IH. pose proof (in_size_lt x l Hx). lia.
    - destruct (is_and_node b).
      + specialize (IH b c ltac:(lia)). destruct (ast_to_commands nm fu b c) as [[[? ?] ?]|]; [discriminate|congruence].
      + apply IH. pose proof (negate_size b). lia.
  Qed.

  (* -------------------------------------------------------------- parse_ast *)
  Theorem parse_ast_total a : parse_ast nm a <> None.
  Proof.
    unfold parse_ast. pose proof (a2c_total (ast_size a) a 0%nat (le_n _)) as T.
    destruct (ast_to_commands nm (ast_size a) a 0) as [[[? ?] ?]|]; [discriminate|congruence].
  Qed.

  Theorem parse_ast_correct a pcs cs n st :
    parse_ast nm a = Some (pcs, cs) -> ast_ok nm a ->
    forallb wf_cmd (pcs ++ [guarded cs (CExt n)]) = true /\
    exists st1,
      exec_list ft env 2 pcs st = Some st1 /\
      agree_user nm st st1 /\ stg st1 = stg st /\ tr st1 = tr st /\
      exec ft env 2 no_menv (guarded cs (CExt n)) st1 =
      Some (if aeval st a then (log (env n st1) (EExt n), r_ok 1) else (st1, r_fail)).
  Proof.
    unfold parse_ast. intros E Hok.
    destruct (ast_to_commands nm (ast_size a) a 0) as [[[cs' ps] c']|] eqn:E1; [|discriminate].
    injection E as <- <-. pose proof (a2c_good _ _ _ _ E1) as G. cbn in G.
    destruct (G Hok) as [L [C [P Sm]]]. destruct (Sm [] st ltac:(intros j [])) as [O V].
    split.
    { rewrite forallb_app, (wf_pre 0 c' ps [] P). unfold guarded. cbn [forallb wf_cmd andb].
      rewrite !andb_true_r. clear -C. induction C as [|c cs [_ Hc] _ IH]; [reflexivity|].
      cbn [map forallb]. unfold mif at 1; cbn [wf_mod]. now rewrite Hc, IH. }
    exists (run_pre [] ps st). split; [apply exec_pre|]. destruct O as [O1 [O2 O3]].
    split; [eapply same_out_user; repeat split; eassumption|]. split; [exact O2|]. split; [exact O3|].
    rewrite exec_guarded_ext, V. reflexivity.
  Qed.
End Exec.
