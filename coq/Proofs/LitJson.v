(* Proofs.LitJson — json.dumps(s) (ensure_ascii) read back by an RFC 8259 reader gives s. *)
From Coq Require Import ZArith Bool String Ascii List Lia.
From JMCV Require Import Model.Lit Proofs.LitBase.
Import ListNotations.
Open Scope Z_scope.

(* UTF-16 units of a code point *)
Definition units1 (c : Z) : str :=
  if c <? 65536 then [c] else [55296 + (c - 65536) / 1024; 56320 + (c - 65536) mod 1024].
Definition units (s : str) : str := flat_map units1 s.

Lemma scalarb_range c : scalarb c = true -> (0 <= c < 55296) \/ (57344 <= c < 1114112).
Proof. unfold scalarb. intros H. apply orb_true_iff in H as [H|H]; apply andb_true_iff in H as [A B]; lia. Qed.

Lemma json_units_u4 d3 d2 d1 d0 rest u t :
  0 <= d3 < 16 -> 0 <= d2 < 16 -> 0 <= d1 < 16 -> 0 <= d0 < 16 ->
  json_units rest = Some (u, t) ->
  json_units (92 :: 117 :: hexdigit d3 :: hexdigit d2 :: hexdigit d1 :: hexdigit d0 :: rest)
  = Some ((((d3 * 16 + d2) * 16 + d1) * 16 + d0) :: u, t).
Proof.
  intros H3 H2 H1 H0 Hr.
  cbn -[hexdigit hexval Z.mul Z.add].
  rewrite !hexval_hexdigit by assumption. rewrite Hr. reflexivity.
Qed.

Lemma json_units_hex4 n rest u t :
  0 <= n < 65536 -> json_units rest = Some (u, t) ->
  json_units (92 :: 117 :: hex4 n ++ rest) = Some (n :: u, t).
Proof.
  intros Hn Hr. unfold hex4. cbn [app].
  rewrite (json_units_u4 _ _ _ _ _ u t); try apply mod16_range; try assumption.
  f_equal. f_equal. f_equal. zdm.
Qed.

Lemma json_units_plain c rest u t :
  32 <= c -> c <> 34 -> c <> 92 -> json_units rest = Some (u, t) ->
  json_units (c :: rest) = Some (c :: u, t).
Proof.
  intros H1 H2 H3 Hr. cbn [json_units].
  destruct (c =? 34) eqn:E1; [apply Z.eqb_eq in E1; lia|].
  destruct (c =? 92) eqn:E2; [apply Z.eqb_eq in E2; lia|].
  destruct (c <? 32) eqn:E3; [apply Z.ltb_lt in E3; lia|].
  now rewrite Hr.
Qed.

Lemma json_units_esc c rest u t :
  scalarb c = true -> json_units rest = Some (u, t) ->
  json_units (json_esc c ++ rest) = Some (units1 c ++ u, t).
Proof.
  intros Hc Hr. apply scalarb_range in Hc. unfold json_esc, units1.
  destruct (c =? 34) eqn:E34; [apply Z.eqb_eq in E34; subst; cbn; now rewrite Hr|].
  destruct (c =? 92) eqn:E92; [apply Z.eqb_eq in E92; subst; cbn; now rewrite Hr|].
  destruct (c =? 10) eqn:E10; [apply Z.eqb_eq in E10; subst; cbn; now rewrite Hr|].
  destruct (c =? 13) eqn:E13; [apply Z.eqb_eq in E13; subst; cbn; now rewrite Hr|].
  destruct (c =? 9) eqn:E9; [apply Z.eqb_eq in E9; subst; cbn; now rewrite Hr|].
  destruct (c =? 12) eqn:E12; [apply Z.eqb_eq in E12; subst; cbn; now rewrite Hr|].
  destruct (c =? 8) eqn:E8; [apply Z.eqb_eq in E8; subst; cbn; now rewrite Hr|].
  apply Z.eqb_neq in E34, E92.
  destruct ((32 <=? c) && (c <=? 126)) eqn:Ep.
  - apply andb_true_iff in Ep as [A B]. apply Z.leb_le in A, B.
    destruct (c <? 65536) eqn:E; [|apply Z.ltb_ge in E; lia].
    cbn [app]. apply json_units_plain; assumption || lia.
  - destruct (c <? 65536) eqn:E.
    + apply Z.ltb_lt in E. cbn [app]. apply json_units_hex4; [lia|assumption].
    + apply Z.ltb_ge in E. cbn zeta. rewrite <- app_assoc. cbn [app].
      apply json_units_hex4; [zdm|]. cbn [app].
      apply json_units_hex4; [zdm|exact Hr].
Qed.

Lemma json_units_emit s rest :
  forallb scalarb s = true ->
  json_units (flat_map json_esc s ++ 34 :: rest) = Some (units s, rest).
Proof.
  induction s as [|c s IH]; intros H; cbn [flat_map app forallb] in *.
  - reflexivity.
  - apply andb_true_iff in H as [Hc Hs]. rewrite <- app_assoc.
    unfold units. cbn [flat_map]. apply json_units_esc; [assumption|]. now apply IH.
Qed.

Lemma is_hi_scalar c : scalarb c = true -> is_hi c = false.
Proof. intros H. apply scalarb_range in H. unfold is_hi. apply andb_false_iff. destruct H; [left; apply Z.leb_gt|right; apply Z.ltb_ge]; lia. Qed.

Lemma utf16_join_cons_nohi c u : is_hi c = false -> utf16_join (c :: u) = c :: utf16_join u.
Proof. intros H. destruct u as [|l u]; cbn [utf16_join]; [reflexivity|]. now rewrite H. Qed.

Lemma utf16_join_units s : forallb scalarb s = true -> utf16_join (units s) = s.
Proof.
  induction s as [|c s IH]; intros H; [reflexivity|].
  cbn [forallb] in H. apply andb_true_iff in H as [Hc Hs].
  unfold units. cbn [flat_map]. fold (units s). unfold units1.
  destruct (c <? 65536) eqn:E.
  - cbn [app]. rewrite utf16_join_cons_nohi by now apply is_hi_scalar. now rewrite IH.
  - apply Z.ltb_ge in E. apply scalarb_range in Hc.
    cbn [app utf16_join].
    assert (Hh : is_hi (55296 + (c - 65536) / 1024) = true).
    { unfold is_hi. apply andb_true_iff. split; [apply Z.leb_le|apply Z.ltb_lt]; zdm. }
    assert (Hl : is_lo (56320 + (c - 65536) mod 1024) = true).
    { unfold is_lo. apply andb_true_iff. split; [apply Z.leb_le|apply Z.ltb_lt]; zdm. }
    rewrite Hh, Hl. cbn [andb]. rewrite IH by assumption. f_equal. zdm.
Qed.

(* json.dumps(s) followed by arbitrary text: the reader returns s and that text *)
Lemma json_unquote_rest_emit s rest :
  forallb scalarb s = true -> json_unquote_rest (json_emit s ++ rest) = Some (s, rest).
Proof.
  intros H. unfold json_emit, json_unquote_rest. cbn [app]. rewrite Z.eqb_refl.
  rewrite <- app_assoc. cbn [app]. rewrite json_units_emit by assumption.
  now rewrite utf16_join_units.
Qed.

Theorem json_roundtrip s : forallb scalarb s = true -> json_unquote (json_emit s) = Some s.
Proof.
  intros H. unfold json_unquote. rewrite <- (app_nil_r (json_emit s)).
  now rewrite json_unquote_rest_emit.
Qed.

(* the emitted JSON string is printable ASCII only (so: one line, no CR/LF, encoding-independent) *)
Lemma json_esc_ascii c : 0 <= c < 1114112 -> Forall (fun x => 32 <= x <= 126) (json_esc c).
Proof.
  intros Hc. unfold json_esc.
  assert (HD : forall d, 0 <= d < 16 -> 32 <= hexdigit d <= 126).
  { intros d Hd. destruct (hexdigit_range d Hd); lia. }
  assert (H4 : forall n, Forall (fun x => 32 <= x <= 126) (hex4 n)).
  { intros n. unfold hex4. repeat constructor; apply HD; apply mod16_range. }
  destruct (c =? 34); [repeat constructor; lia|].
  destruct (c =? 92); [repeat constructor; lia|].
  destruct (c =? 10); [repeat constructor; lia|].
  destruct (c =? 13); [repeat constructor; lia|].
  destruct (c =? 9); [repeat constructor; lia|].
  destruct (c =? 12); [repeat constructor; lia|].
  destruct (c =? 8); [repeat constructor; lia|].
  destruct ((32 <=? c) && (c <=? 126)) eqn:Ep.
  { apply andb_true_iff in Ep as [A B]. apply Z.leb_le in A, B. repeat constructor; lia. }
  destruct (c <? 65536).
  - constructor; [lia|]. constructor; [lia|]. apply H4.
  - cbn zeta. apply Forall_app. split; (constructor; [lia|]; constructor; [lia|]; apply H4).
Qed.

Theorem json_emit_ascii s :
  Forall (fun c => 0 <= c < 1114112) s -> Forall (fun x => 32 <= x <= 126) (json_emit s).
Proof.
  intros H. unfold json_emit. constructor; [lia|]. apply Forall_app. split; [|repeat constructor; lia].
  induction H as [|c s Hc Hs IH]; cbn [flat_map]; [constructor|].
  apply Forall_app. split; [now apply json_esc_ascii|assumption].
Qed.
