(* Proofs.LayoutArg — the argument text of a call (Model/LayoutArg.v: clean_paren = clean_up_paren_token,
   argument_text = PreFunction.__argument_text) is invariant under `relayout`.  Induction over the token
   tree: the fuel of clean_paren = the depth of the tree, the content of every bracket is re-tokenised and
   related again by `relayout` (tok_sim), so the simulation theorem of Proofs/LayoutSim2 applies at every
   node.  Property C15, strengthening round 4. *)
From Coq Require Import ZArith String List Bool Ascii Lia.
From JMCV Require Import Model.Layout Model.LayoutArg Proofs.LayoutBasic Proofs.LayoutAdj Proofs.LayoutAdj2
     Proofs.MacroFactsStub Proofs.LayoutSim Proofs.LayoutSim2 Proofs.LayoutDeep.
Import ListNotations.
Open Scope Z_scope.

(* ------------------------------------------------------------------ tok_sim is symmetric *)
Lemma tok_sim_sym t t' : tok_sim t t' -> tok_sim t' t.
Proof.
  intros (Hty & Hm & Hg & Hs). unfold tok_sim. rewrite <- Hty. repeat split; try congruence.
  destruct (is_paren_ty (t_ty t)); [|congruence].
  destruct Hs as (o & y & y' & cl & Ho & Hcl & E & E' & R).
  exists o, y', y, cl. repeat split; try assumption. apply relayout_sym. assumption.
Qed.

Lemma Forall2_tok_sim_sym l l' : Forall2 tok_sim l l' -> Forall2 tok_sim l' l.
Proof. induction 1; constructor; [apply tok_sim_sym|]; assumption. Qed.

(* ------------------------------------------------------------------ the text of a bracket token *)
Lemma len_paren_2 (o : ascii) (y : str) (cl : ascii) : (len (o :: y ++ [cl]) =? 2) = true <-> y = [].
Proof.
  unfold len. cbn [length]. rewrite app_length. cbn [length]. split.
  - intros H. apply Z.eqb_eq in H. destruct y; [reflexivity|]. cbn [length] in H. lia.
  - intros ->. reflexivity.
Qed.

Lemma hd_paren (o : ascii) (y : str) (cl : ascii) : hd zero (o :: y ++ [cl]) = o.
Proof. reflexivity. Qed.
Lemma last_paren (o : ascii) (y : str) (cl : ascii) : last (o :: y ++ [cl]) zero = cl.
Proof.
  change (o :: y ++ [cl]) with ((o :: y) ++ [cl]). apply last_last.
Qed.

Section ArgProofs.
Variable cf : bool.

(* the content of a bracket, re-tokenised: related token streams on both sides *)
Lemma first_stmt_sim t t' toks :
  tok_sim t t' -> is_paren_ty (t_ty t) = true ->
  first_stmt cf true t = Ok toks ->
  exists toks', first_stmt cf true t' = Ok toks' /\ Forall2 tok_sim toks toks' /\ chain toks /\ chain toks'.
Proof.
  intros (Hty & _ & _ & Hs) Hp. rewrite Hp in Hs.
  destruct Hs as (o & y & y' & cl & Ho & Hcl & E & E' & R).
  pose proof (relayout_snoc_inv _ _ _ R y y' cl eq_refl eq_refl (code_char_not_ws _ Hcl)) as Ry.
  unfold first_stmt. rewrite <- Hty, E, E', !inner_paren. cbn [andb].
  destruct (parse_st [] cf false (ttype_eqb (t_ty t) PAREN_SQUARE) (t_line t) (t_col t + 1) y) as [st|e] eqn:P; [|discriminate].
  destruct (s_ev st) eqn:Ev; [discriminate|].
  destruct (finish [] false false st) as [sts|e] eqn:F; [|discriminate].
  intros H.
  destruct (relayout_tokens cf false false (ttype_eqb (t_ty t) PAREN_SQUARE) _ _ (t_line t') (t_col t' + 1) y y' st sts Ry P Ev F)
    as (st' & sts' & P' & Ev' & F' & FF).
  rewrite P', Ev', F'.
  pose proof (parse_chain [] cf false false _ _ _ y st sts mt_ok_nil P Ev F) as C.
  pose proof (parse_chain [] cf false false _ _ _ y' st' sts' mt_ok_nil P' Ev' F') as C'.
  destruct FF as [|a a' r r' Ha Hr].
  - injection H as <-. exists []. repeat split; constructor.
  - injection H as <-. exists a'. inversion C; inversion C'; subst. repeat split; assumption.
Qed.

Lemma leaf_text_sim nbt u u' : tok_sim u u' -> is_paren_ty (t_ty u) = false -> leaf_text nbt u = leaf_text nbt u'.
Proof.
  intros (Hty & _ & _ & Hs) Hp. rewrite Hp in Hs. unfold leaf_text. rewrite <- Hty, Hs. reflexivity.
Qed.

Lemma starts_with_string_sim toks toks' : Forall2 tok_sim toks toks' -> starts_with_string toks = starts_with_string toks'.
Proof. intros F. destruct F as [|a a' r r' (Hty & _) _]; [reflexivity|]. cbn. rewrite Hty. reflexivity. Qed.

(* one direction: whatever text the left bracket gets, the right one gets it too *)
Lemma clean_sim_ok : forall fuel nbt t t' x,
  tok_sim t t' -> is_paren_ty (t_ty t) = true ->
  clean_paren cf true fuel nbt t = Ok x -> clean_paren cf true fuel nbt t' = Ok x.
Proof.
  induction fuel as [|f IH]; intros nbt t t' x Ht Hp H.
  - pose proof Ht as (Hty & _ & _ & Hs). rewrite Hp in Hs.
    destruct Hs as (o & y & y' & cl & Ho & Hcl & E & E' & R).
    pose proof (relayout_snoc_inv _ _ _ R y y' cl eq_refl eq_refl (code_char_not_ws _ Hcl)) as Ry.
    cbn in H |- *. rewrite E in H. rewrite E'.
    destruct (len (o :: y ++ [cl]) =? 2) eqn:L; [|discriminate].
    apply len_paren_2 in L. subst y. apply relayout_nil_l in Ry. subst y'. exact H.
  - pose proof Ht as (Hty & _ & _ & Hs). rewrite Hp in Hs.
    destruct Hs as (o & y & y' & cl & Ho & Hcl & E & E' & R).
    pose proof (relayout_snoc_inv _ _ _ R y y' cl eq_refl eq_refl (code_char_not_ws _ Hcl)) as Ry.
    cbn [clean_paren] in H |- *.
    destruct (len (t_str t) =? 2) eqn:L.
    + rewrite E in L, H. apply len_paren_2 in L. subst y. apply relayout_nil_l in Ry. subst y'. rewrite E'. exact H.
    + assert (L' : (len (t_str t') =? 2) = false).
      { rewrite E'. destruct (len (o :: y' ++ [cl]) =? 2) eqn:L2; [|reflexivity].
        apply len_paren_2 in L2. subst y'. apply relayout_nil_r in Ry. subst y. rewrite E in L. cbn in L. discriminate. }
      rewrite L'.
      destruct (first_stmt cf true t) as [toks|e] eqn:FS; [|discriminate].
      destruct (first_stmt_sim t t' toks Ht Hp FS) as (toks' & FS' & FF & _ & _).
      rewrite FS'. rewrite E in H. rewrite E'. rewrite hd_paren, last_paren in *.
      rewrite <- (starts_with_string_sim _ _ FF).
      set (nbt' := if Ascii.eqb o (ch "{") && starts_with_string toks then false else nbt) in *. clearbody nbt'.
      destruct (concat_res (map (fun u => if is_paren_ty (t_ty u) then clean_paren cf true f nbt' u else Ok (leaf_text nbt' u)) toks))
        as [body|e] eqn:CR; [|discriminate].
      assert (CR' : concat_res (map (fun u => if is_paren_ty (t_ty u) then clean_paren cf true f nbt' u else Ok (leaf_text nbt' u)) toks') = Ok body).
      { clear - IH FF CR. revert body CR. induction FF as [|a a' r r' Ha Hr IHf]; intros body CR; [exact CR|].
        cbn [map concat_res] in CR |- *.
        pose proof Ha as (Hty & _).
        destruct (is_paren_ty (t_ty a)) eqn:Pa.
        - rewrite <- Hty, Pa.
          destruct (clean_paren cf true f nbt' a) as [xa|e] eqn:Ca; [|discriminate].
          rewrite (IH nbt' a a' xa Ha Pa Ca).
          destruct (concat_res (map _ r)) as [yr|e] eqn:Cr; [|discriminate].
          rewrite (IHf yr eq_refl). exact CR.
        - rewrite <- Hty, Pa. rewrite <- (leaf_text_sim nbt' a a' Ha Pa).
          destruct (concat_res (map _ r)) as [yr|e] eqn:Cr; [|discriminate].
          rewrite (IHf yr eq_refl). exact CR. }
      rewrite CR'. exact H.
Qed.

(* the cleaned text of a bracket token is a function of its token tree: equal for related tokens *)
Theorem clean_sim fuel nbt t t' :
  tok_sim t t' -> is_paren_ty (t_ty t) = true ->
  ok_of (clean_paren cf true fuel nbt t) = ok_of (clean_paren cf true fuel nbt t').
Proof.
  intros Ht Hp.
  destruct (clean_paren cf true fuel nbt t) as [x|e] eqn:C.
  - rewrite (clean_sim_ok fuel nbt t t' x Ht Hp C). reflexivity.
  - destruct (clean_paren cf true fuel nbt t') as [x'|e'] eqn:C'; [|reflexivity].
    assert (Hp' : is_paren_ty (t_ty t') = true) by (destruct Ht as (Hty & _); rewrite <- Hty; assumption).
    rewrite (clean_sim_ok fuel nbt t' t x' (tok_sim_sym _ _ Ht) Hp' C') in C. discriminate.
Qed.

Lemma full_string_sim_ok fuel t t' x :
  tok_sim t t' -> full_string cf true fuel t = Ok x -> full_string cf true fuel t' = Ok x.
Proof.
  intros Ht. pose proof Ht as (Hty & _ & _ & Hs). unfold full_string. rewrite <- Hty.
  destruct (is_paren_ty (t_ty t)) eqn:Hp.
  - apply clean_sim_ok; assumption.
  - rewrite Hs. exact (fun H => H).
Qed.

Definition prev_ok (prev prev' : option token) (l l' : list token) : Prop :=
  match prev, prev' with
  | None, None => chain l /\ chain l'
  | Some p, Some p' => chain (p :: l) /\ chain (p' :: l')
  | _, _ => False
  end.

Lemma arg_go_sim_ok fuel : forall l l', Forall2 tok_sim l l' ->
  forall prev prev' x, prev_ok prev prev' l l' ->
    arg_go cf true fuel prev l = Ok x -> arg_go cf true fuel prev' l' = Ok x.
Proof.
  intros l l' F. induction F as [|t t' r r' Ht Hr IH]; intros prev prev' x Hc H; [exact H|].
  cbn [arg_go] in H |- *.
  destruct (full_string cf true fuel t) as [xt|e] eqn:FS; [|discriminate].
  rewrite (full_string_sim_ok fuel t t' xt Ht FS).
  destruct (arg_go cf true fuel (Some t) r) as [yr|e] eqn:G; [|discriminate].
  assert (Hc1 : prev_ok (Some t) (Some t') r r').
  { destruct prev as [p|], prev' as [p'|]; try contradiction; cbn in Hc |- *.
    - destruct Hc as [C C']. inversion C; inversion C'; subst. split; assumption.
    - exact Hc. }
  rewrite (IH (Some t) (Some t') yr Hc1 G).
  assert (Econn : match prev with Some p => if is_connected t p then [] else [SP] | None => [] end =
                  match prev' with Some p => if is_connected t' p then [] else [SP] | None => [] end).
  { destruct prev as [p|], prev' as [p'|]; try contradiction; [|reflexivity].
    destruct Hc as [C C']. inversion C as [| |? ? ? A _]; inversion C' as [| |? ? ? A' _]; subst.
    unfold adj_ok in *. rewrite A, A'. destruct Ht as (_ & _ & Hg & _). rewrite Hg. reflexivity. }
  rewrite <- Econn. exact H.
Qed.

Theorem argument_text_sim fuel toks toks' :
  Forall2 tok_sim toks toks' -> chain toks -> chain toks' ->
  ok_of (argument_text cf true fuel toks) = ok_of (argument_text cf true fuel toks').
Proof.
  intros F C C'. unfold argument_text.
  destruct (arg_go cf true fuel None toks) as [x|e] eqn:G.
  - rewrite (arg_go_sim_ok fuel toks toks' F None None x (conj C C') G). reflexivity.
  - destruct (arg_go cf true fuel None toks') as [x'|e'] eqn:G'; [|reflexivity].
    rewrite (arg_go_sim_ok fuel toks' toks (Forall2_tok_sim_sym _ _ F) None None x' (conj C' C) G') in G. discriminate.
Qed.

(* ------------------------------------------------------------------ contiguous runs of tokens (= arguments) *)
Lemma chain_tail a l : chain (a :: l) -> chain l.
Proof. intros H. inversion H; subst; [constructor|assumption]. Qed.
Lemma chain_skipn i : forall l, chain l -> chain (skipn i l).
Proof. induction i as [|i IH]; intros l H; [exact H|]. destruct l as [|a l]; [constructor|]. cbn. apply IH. eapply chain_tail; eauto. Qed.
Lemma chain_firstn n : forall l, chain l -> chain (firstn n l).
Proof.
  induction n as [|n IH]; intros l H; [constructor|].
  destruct l as [|a l]; [constructor|]. cbn [firstn].
  destruct l as [|b l]; [destruct n; constructor|].
  inversion H; subst. specialize (IH (b :: l) ltac:(assumption)).
  destruct n as [|n]; [constructor|]. cbn [firstn] in IH |- *. constructor; assumption.
Qed.
Lemma Forall2_skipn {A B} (R : A -> B -> Prop) i : forall l l', Forall2 R l l' -> Forall2 R (skipn i l) (skipn i l').
Proof. induction i as [|i IH]; intros l l' F; [exact F|]. destruct F; [constructor|]. cbn. apply IH. assumption. Qed.
Lemma Forall2_firstn {A B} (R : A -> B -> Prop) n : forall l l', Forall2 R l l' -> Forall2 R (firstn n l) (firstn n l').
Proof. induction n as [|n IH]; intros l l' F; [constructor|]. destruct F; [constructor|]. cbn. constructor; [assumption|apply IH; assumption]. Qed.

(* a run of tokens of a statement: tokens i .. i+n-1 *)
Definition run_of (i n : nat) (toks : list token) : list token := firstn n (skipn i toks).

(* THE theorem: a program and any of its re-layouts give, for every statement and every contiguous run of
   its tokens (every argument of every call is such a run), the same argument text - or none on both sides *)
Theorem relayout_argument_text fuel es al asc line col line' col' s s' f sts :
  relayout MCode s s' ->
  parse_st [] cf es asc line col s = Ok f -> s_ev f = false -> finish [] es al f = Ok sts ->
  exists f' sts',
    parse_st [] cf es asc line' col' s' = Ok f' /\ s_ev f' = false /\ finish [] es al f' = Ok sts' /\
    Forall2 (fun toks toks' => forall i n,
               ok_of (argument_text cf true fuel (run_of i n toks)) = ok_of (argument_text cf true fuel (run_of i n toks')))
            sts sts'.
Proof.
  intros R P Ev F.
  destruct (relayout_tokens cf es al asc line col line' col' s s' f sts R P Ev F) as (f' & sts' & P' & Ev' & F' & FF).
  exists f', sts'. repeat split; try assumption.
  pose proof (parse_chain [] cf es al asc _ _ s f sts mt_ok_nil P Ev F) as C.
  pose proof (parse_chain [] cf es al asc _ _ s' f' sts' mt_ok_nil P' Ev' F') as C'.
  clear - FF C C'. induction FF as [|a a' r r' Ha Hr IH]; [constructor|].
  inversion C; inversion C'; subst. constructor; [|apply IH; assumption].
  intros i n. unfold run_of. apply argument_text_sim.
  - apply Forall2_firstn, Forall2_skipn. assumption.
  - apply chain_firstn, chain_skipn. assumption.
  - apply chain_firstn, chain_skipn. assumption.
Qed.

(* the bracket tokens themselves (whatever is_nbt the caller passes): clean_up_paren_token of every bracket
   token of every statement is the same text - or fails on both sides *)
Theorem relayout_clean_paren fuel nbt es al asc line col line' col' s s' f sts :
  relayout MCode s s' ->
  parse_st [] cf es asc line col s = Ok f -> s_ev f = false -> finish [] es al f = Ok sts ->
  exists f' sts',
    parse_st [] cf es asc line' col' s' = Ok f' /\ s_ev f' = false /\ finish [] es al f' = Ok sts' /\
    Forall2 (Forall2 (fun t t' => t_ty t = t_ty t' /\
                                  (is_paren_ty (t_ty t) = true ->
                                   ok_of (clean_paren cf true fuel nbt t) = ok_of (clean_paren cf true fuel nbt t'))))
            sts sts'.
Proof.
  intros R P Ev F.
  destruct (relayout_tokens cf es al asc line col line' col' s s' f sts R P Ev F) as (f' & sts' & P' & Ev' & F' & FF).
  exists f', sts'. repeat split; try assumption.
  clear - FF. induction FF as [|a a' r r' Ha Hr IH]; constructor; [|assumption].
  clear - Ha. induction Ha as [|t t' l l' Ht Hl IHl]; constructor; [|assumption].
  split; [apply Ht|]. intros Hp. apply clean_sim; assumption.
Qed.

(* in scope, the strict functions and the faithful ones (strict = false: what the correspondence compares with
   the real compiler) give the same text *)
Lemma first_stmt_strict t toks : first_stmt cf true t = Ok toks -> first_stmt cf false t = Ok toks.
Proof.
  unfold first_stmt. destruct (parse_st _ _ _ _ _ _ _) as [st|e]; [|discriminate]. cbn [andb].
  destruct (s_ev st); [discriminate|]. exact (fun H => H).
Qed.

Lemma clean_strict_ok : forall fuel nbt t x, clean_paren cf true fuel nbt t = Ok x -> clean_paren cf false fuel nbt t = Ok x.
Proof.
  induction fuel as [|f IH]; intros nbt t x H; cbn [clean_paren] in H |- *.
  - exact H.
  - destruct (len (t_str t) =? 2); [exact H|].
    destruct (first_stmt cf true t) as [toks|e] eqn:FS; [|discriminate].
    rewrite (first_stmt_strict t toks FS).
    set (nbt' := if Ascii.eqb (hd zero (t_str t)) (ch "{") && starts_with_string toks then false else nbt) in *. clearbody nbt'.
    destruct (concat_res (map (fun u => if is_paren_ty (t_ty u) then clean_paren cf true f nbt' u else Ok (leaf_text nbt' u)) toks))
      as [body|e] eqn:CR; [|discriminate].
    assert (CR' : concat_res (map (fun u => if is_paren_ty (t_ty u) then clean_paren cf false f nbt' u else Ok (leaf_text nbt' u)) toks) = Ok body).
    { clear - IH CR. revert body CR. induction toks as [|a r IHr]; intros body CR; [exact CR|].
      cbn [map concat_res] in CR |- *.
      destruct (is_paren_ty (t_ty a)).
      - destruct (clean_paren cf true f nbt' a) as [xa|e] eqn:Ca; [|discriminate].
        rewrite (IH nbt' a xa Ca).
        destruct (concat_res (map _ r)) as [yr|e] eqn:Cr; [|discriminate].
        rewrite (IHr yr eq_refl). exact CR.
      - destruct (concat_res (map _ r)) as [yr|e] eqn:Cr; [|discriminate].
        rewrite (IHr yr eq_refl). exact CR. }
    rewrite CR'. exact H.
Qed.

Theorem argument_text_strict_ok fuel toks x :
  argument_text cf true fuel toks = Ok x -> argument_text cf false fuel toks = Ok x.
Proof.
  unfold argument_text. generalize (@None token). revert x.
  induction toks as [|t r IH]; intros x prev H; [exact H|].
  cbn [arg_go] in H |- *.
  assert (FS : forall y, full_string cf true fuel t = Ok y -> full_string cf false fuel t = Ok y).
  { intros y. unfold full_string. destruct (is_paren_ty (t_ty t)); [apply clean_strict_ok|exact (fun H => H)]. }
  destruct (full_string cf true fuel t) as [xt|e]; [|discriminate].
  rewrite (FS xt eq_refl).
  destruct (arg_go cf true fuel (Some t) r) as [yr|e] eqn:G; [|discriminate].
  rewrite (IH yr (Some t) G). exact H.
Qed.
End ArgProofs.

(* ------------------------------------------------------------------ repr(): text and length agree *)

Lemma repr_char_len esc c :
  len (repr_char esc c) =
  (if Ascii.eqb c BSLASH then 2
   else if Ascii.eqb c NL || Ascii.eqb c TAB || Ascii.eqb c CR then 2
   else if Ascii.eqb c SQ then (if esc then 2 else 1)
   else if Nat.ltb (nat_of_ascii c) 32 || Nat.eqb (nat_of_ascii c) 127 then 4
   else 1).
Proof.
  unfold repr_char.
  destruct (Ascii.eqb c BSLASH); [reflexivity|].
  destruct (Ascii.eqb c NL); [reflexivity|].
  destruct (Ascii.eqb c TAB); [reflexivity|].
  destruct (Ascii.eqb c CR); [reflexivity|]. cbn [orb].
  destruct (Ascii.eqb c SQ); [destruct esc; reflexivity|].
  destruct (Nat.ltb (nat_of_ascii c) 32 || Nat.eqb (nat_of_ascii c) 127); reflexivity.
Qed.

Lemma len_app (a b : str) : len (a ++ b) = len a + len b.
Proof. unfold len. rewrite app_length. lia. Qed.
Lemma len_cons (a : ascii) (b : str) : len (a :: b) = 1 + len b.
Proof. unfold len. cbn [length]. lia. Qed.

(* the model of repr() used for the adjacency of string tokens (Model.Layout.repr_len) is the length of the
   model of repr() used for the argument text *)
Lemma py_repr_len s : len (py_repr s) = repr_len s.
Proof.
  unfold py_repr, repr_len.
  set (esc := has_char SQ s && has_char DQ s). clearbody esc.
  rewrite len_cons, len_app. change (len [_]) with 1.
  assert (E : len (flat_map (repr_char esc) s) =
              fold_right (fun c acc =>
                (if Ascii.eqb c BSLASH then 2
                 else if Ascii.eqb c NL || Ascii.eqb c TAB || Ascii.eqb c CR then 2
                 else if Ascii.eqb c SQ then (if esc then 2 else 1)
                 else if Nat.ltb (nat_of_ascii c) 32 || Nat.eqb (nat_of_ascii c) 127 then 4
                 else 1) + acc) 0 s).
  { induction s as [|c r IH]; [reflexivity|]. cbn [flat_map fold_right]. rewrite len_app, repr_char_len, IH. reflexivity. }
  rewrite E. lia.
Qed.

(* ------------------------------------------------------------------ arrow-function arguments: refuted *)
(* The text a @lazy call substitutes for an arrow-function argument is the RAW source of its parameter
   bracket and of its body: two layouts of the same call give different texts. *)
Definition arrow_of (toks : list token) : option str :=
  match toks with
  | [p; a; b] =>
      if ttype_eqb (t_ty p) PAREN_ROUND && str_eqb (t_str a) (s2l "=>") && ttype_eqb (t_ty b) PAREN_CURLY
      then Some (arrow_text (Some (t_str p)) (t_str b)) else None
  | _ => None
  end.

Lemma arrow_text_layout_dependent :
  exists s s' toks toks',
    relayout MCode s s' /\
    parse [] false false false false 1 1 s = Ok [toks] /\ parse [] false false false false 1 1 s' = Ok [toks'] /\
    (exists x x', arrow_of toks = Some x /\ arrow_of toks' = Some x' /\ x <> x').
Proof.
  exists (s2l "()=>{ say hi; }"), (s2l "()=>{  say hi; }").
  eexists. eexists. split; [|split; [vm_compute; reflexivity|split; [vm_compute; reflexivity|]]].
  - cbn. repeat (apply rl_code; [reflexivity|discriminate|]).
    apply (rl_lay [SP] [SP; SP]).
    + apply lr_one, li_ws. reflexivity.
    + apply (lr_cons [SP] [SP]); [apply li_ws; reflexivity|apply lr_one, li_ws; reflexivity].
    + repeat (apply rl_code; [reflexivity|discriminate|]).
      apply (rl_lay [SP] [SP]); [apply lr_one, li_ws; reflexivity|apply lr_one, li_ws; reflexivity|].
      repeat (apply rl_code; [reflexivity|discriminate|]).
      apply (rl_lay [SP] [SP]); [apply lr_one, li_ws; reflexivity|apply lr_one, li_ws; reflexivity|].
      repeat (apply rl_code; [reflexivity|discriminate|]). apply rl_nil.
  - eexists. eexists. split; [vm_compute; reflexivity|split; [vm_compute; reflexivity|]]. intros E. discriminate E.
Qed.
