(* Proofs.CondFormula — atoms (custom_condition) against their source-level meaning, formulas
   against ASTs, and condition_to_ast against the canonical token list of a formula
   (parse after print is the identity).  Property C03. *)
From Coq Require Import ZArith String List Bool Lia Arith.
From JMCV Require Import Base.Int32 Base.Dec MC.Syntax MC.Sem MC.Facts Model.Names Model.Cond
     Proofs.CondBase Proofs.Cond.
Import ListNotations.
Open Scope Z_scope.

(* ------------------------------------------------------------------ atoms *)
Definition atom_scores (a : atom) : list score :=
  match a with
  | ATruthy s | AMatches s _ _ | ACmp s _ (RLit _) => [s]
  | ACmp s _ (RScore s2) => [s; s2]
  end.

(* the bound JMC writes into `matches` is a Java int *)
Definition atom_lit_ok (a : atom) : Prop :=
  match a with
  | ACmp _ o (RLit z) => in_int32 (match cop_of o with OpGt => z + 1 | OpLt => z - 1 | _ => z end)
  | AMatches _ a b => in_int32 a /\ in_int32 b
  | _ => True
  end.
(* extract_matches refuses a..b unless a < b *)
Definition atom_accepted (a : atom) : Prop :=
  match a with AMatches _ a b => a < b | _ => True end.

Definition atom_ok (nm : names) (a : atom) : Prop :=
  Forall (user_score nm) (atom_scores a) /\ atom_lit_ok a.

Lemma custom_condition_accepts a : atom_accepted a <-> custom_condition a <> None.
Proof.
  destruct a as [s|s o [z|s2]|s a b]; cbn; try (split; [discriminate|trivial]).
  destruct (Z.ltb_spec a b); split; intros; try discriminate; try lia; congruence.
Qed.

Lemma custom_condition_ok nm a c :
  custom_condition a = Some c -> atom_ok nm a -> test_ok nm (snd c).
Proof.
  intros E [Hs Hl]. unfold test_ok.
  destruct a as [s|s o [z|s2]|s a b]; cbn in *.
  - injection E as <-. cbn. split; [exact Hs|reflexivity].
  - injection E as <-. apply in_int32b_spec in Hl.
    destruct (cop_of o); cbn; (split; [exact Hs|exact Hl]).
  - injection E as <-. destruct (cop_of o); cbn; (split; [exact Hs|reflexivity]).
  - destruct (Z.ltb_spec a b) as [Hab|]; [|discriminate]. injection E as <-. cbn.
    split; [exact Hs|]. destruct Hl as [Ha Hb]. apply in_int32b_spec in Ha, Hb.
    rewrite Ha, Hb. cbn. apply Z.leb_le. lia.
Qed.

Lemma eqb_true_l b : Bool.eqb true b = b.
Proof. now destruct b. Qed.
Lemma eqb_false_l b : Bool.eqb false b = negb b.
Proof. now destruct b. Qed.

Lemma custom_condition_true st a c :
  custom_condition a = Some c -> cond_true st c = atom_true st a.
Proof.
  intros E. unfold cond_true.
  destruct a as [s|s o [z|s2]|s a b]; cbn [custom_condition atom_true operand_val] in *.
  - injection E as <-. cbn [fst snd test_true in_range]. rewrite eqb_true_l. reflexivity.
  - injection E as <-.
    destruct (cop_of o); cbn [fst snd test_true in_range rel]; rewrite ?eqb_true_l, ?eqb_false_l;
      destruct (sc st s) as [v|]; try reflexivity.
    + destruct (Z.leb_spec v (z - 1)), (Z.ltb_spec v z); try reflexivity; lia.
    + destruct (Z.leb_spec (z + 1) v), (Z.ltb_spec z v); try reflexivity; lia.
  - injection E as <-.
    destruct (cop_of o); cbn [fst snd test_true cmp_true cmpop_of rel]; rewrite ?eqb_true_l, ?eqb_false_l;
      destruct (sc st s) as [v|]; try reflexivity; destruct (sc st s2) as [w|]; try reflexivity.
    + apply Z.gtb_ltb.
    + apply Z.geb_leb.
  - destruct (Z.ltb_spec a b); [|discriminate]. injection E as <-.
    cbn [fst snd test_true in_range]. now rewrite eqb_true_l.
Qed.

(* ------------------------------------------------------------------ formulas and ASTs *)
Fixpoint atoms (f : formula) : list atom :=
  match f with
  | Leaf a => [a]
  | And l | Or l => flat_map atoms l
  | Not x => atoms x
  end.

Lemma all_some_map {A B} (g : A -> option B) l b :
  all_some (map g l) = Some b -> Forall2 (fun x y => g x = Some y) l b.
Proof.
  revert b. induction l as [|x l IH]; intros b E; cbn in E.
  - injection E as <-. constructor.
  - destruct (g x) as [y|] eqn:Ex; [|discriminate].
    destruct (all_some (map g l)) as [b'|]; [|discriminate]. injection E as <-.
    constructor; auto.
Qed.

Lemma Forall_ok_tests nm b : Forall (ast_ok nm) b -> Forall (test_ok nm) (flat_map tests b).
Proof.
  induction 1 as [|y l [Ty _] _ IHl]; [constructor|]. cbn [flat_map]. apply Forall_app; split; assumption.
Qed.
Lemma Forall_ok_nonempty nm (b : list ast) : Forall (ast_ok nm) b -> forallb nonempty b = true.
Proof. induction 1 as [|y l [_ Ny] _ IHl]; [reflexivity|]. cbn [forallb]. now rewrite Ny, IHl. Qed.

Lemma ast_of_correct nm f : forall a,
  ast_of f = Some a -> Forall (atom_ok nm) (atoms f) -> nonempty f = true ->
  ast_ok nm a /\ forall st, aeval st a = eval st f.
Proof.
  induction f as [x|l IH|l IH|x IH] using tree_ind'; intros a E Ha Hn; cbn [ast_of atoms nonempty] in *.
  - destruct (custom_condition x) as [c|] eqn:Ec; [|discriminate]. injection E as <-.
    inversion Ha as [|? ? Hx _]; subst. split.
    + split; [|reflexivity]. cbn. constructor; [|constructor]. eapply custom_condition_ok; eauto.
    + intros st. cbn. now apply custom_condition_true.
  - destruct (all_some (map ast_of l)) as [b|] eqn:Eb; [|discriminate]. injection E as <-.
    apply all_some_map in Eb.
    assert (K : Forall (ast_ok nm) b /\ forall st, forallb (aeval st) b = forallb (eval st) l).
    { assert (Hn' : forallb nonempty l = true) by (destruct l; [discriminate|exact Hn]).
      clear Hn. induction Eb as [|x0 y0 l0 b0 Exy _ IHb]; [split; [constructor|reflexivity]|].
      inversion IH as [|? ? Hx Hl]; subst. cbn [flat_map forallb] in *.
      apply Forall_app in Ha as [Ha1 Ha2]. apply andb_true_iff in Hn' as [Hn1 Hn2].
      destruct (Hx y0 Exy Ha1 Hn1) as [Oy Vy]. destruct (IHb Hl Ha2 Hn2) as [Ob Vb].
      split; [constructor; assumption|]. intros st. now rewrite Vy, Vb. }
    destruct K as [Kb Kv]. split; [|intros st; cbn; apply Kv].
    assert (b <> []). { destruct l; [discriminate|]. inversion Eb; discriminate. }
    split.
    + cbn [tests]. now apply Forall_ok_tests.
    + cbn [nonempty]. destruct b as [|y b']; [congruence|]. now apply (Forall_ok_nonempty nm).
  - destruct (all_some (map ast_of l)) as [b|] eqn:Eb; [|discriminate]. injection E as <-.
    apply all_some_map in Eb.
    assert (K : Forall (ast_ok nm) b /\ forall st, existsb (aeval st) b = existsb (eval st) l).
    { assert (Hn' : forallb nonempty l = true) by (destruct l; [discriminate|exact Hn]).
      clear Hn. induction Eb as [|x0 y0 l0 b0 Exy _ IHb]; [split; [constructor|reflexivity]|].
      inversion IH as [|? ? Hx Hl]; subst. cbn [flat_map forallb existsb] in *.
      apply Forall_app in Ha as [Ha1 Ha2]. apply andb_true_iff in Hn' as [Hn1 Hn2].
      destruct (Hx y0 Exy Ha1 Hn1) as [Oy Vy]. destruct (IHb Hl Ha2 Hn2) as [Ob Vb].
      split; [constructor; assumption|]. intros st. now rewrite Vy, Vb. }
    destruct K as [Kb Kv]. split; [|intros st; cbn; apply Kv].
    assert (b <> []). { destruct l; [discriminate|]. inversion Eb; discriminate. }
    split.
    + cbn [tests]. now apply Forall_ok_tests.
    + cbn [nonempty]. destruct b as [|y b']; [congruence|]. now apply (Forall_ok_nonempty nm).
  - destruct (ast_of x) as [b|] eqn:Eb; [|discriminate]. injection E as <-.
    destruct (IH b eq_refl Ha Hn) as [Ob Vb]. split; [exact Ob|]. intros st. cbn. now rewrite Vb.
Qed.

(* ast_of refuses exactly when an atom is refused *)
Lemma ast_of_total f : Forall atom_accepted (atoms f) -> ast_of f <> None.
Proof.
  induction f as [x|l IH|l IH|x IH] using tree_ind'; intros Ha; cbn [ast_of atoms] in *.
  - inversion Ha as [|? ? Hx _]; subst. apply custom_condition_accepts in Hx.
    destruct (custom_condition x); [discriminate|congruence].
  - assert (K : all_some (map ast_of l) <> None).
    { induction IH as [|y l Hy _ IHl]; [discriminate|]. cbn [flat_map map all_some] in *.
      apply Forall_app in Ha as [H1 H2]. specialize (Hy H1). specialize (IHl H2).
      destruct (ast_of y); [|congruence]. destruct (all_some (map ast_of l)); [discriminate|congruence]. }
    destruct (all_some (map ast_of l)); [discriminate|congruence].
  - assert (K : all_some (map ast_of l) <> None).
    { induction IH as [|y l Hy _ IHl]; [discriminate|]. cbn [flat_map map all_some] in *.
      apply Forall_app in Ha as [H1 H2]. specialize (Hy H1). specialize (IHl H2).
      destruct (ast_of y); [|congruence]. destruct (all_some (map ast_of l)); [discriminate|congruence]. }
    destruct (all_some (map ast_of l)); [discriminate|congruence].
  - specialize (IH Ha). destruct (ast_of x); [discriminate|congruence].
Qed.

(* ------------------------------------------------------------------ printing then parsing *)

(* what the parser can build: every && / || has two or more operands *)
Fixpoint wff {A} (f : tree A) : bool :=
  match f with
  | Leaf _ => true
  | And l | Or l => (2 <=? length l)%nat && forallb wff l
  | Not x => wff x
  end.

Lemma wff_forall_nonempty {A} (l : list (tree A)) :
  Forall (fun f => wff f = true -> nonempty f = true) l -> forallb wff l = true -> forallb nonempty l = true.
Proof.
  induction 1 as [|z r Hz _ IHr]; [reflexivity|]. cbn [forallb]. intros H.
  apply andb_true_iff in H as [H1 H2]. now rewrite Hz, IHr.
Qed.
Lemma wff_nonempty {A} (f : tree A) : wff f = true -> nonempty f = true.
Proof.
  induction f as [x|l IH|l IH|x IH] using tree_ind'; cbn [wff nonempty]; auto; intros H;
    apply andb_true_iff in H as [H1 H2]; (destruct l as [|y r]; [discriminate|]);
    now apply wff_forall_nonempty.
Qed.

Definition no_op (isop : tok -> bool) (l : list tok) : bool := forallb (fun t => negb (isop t)) l.
Definition single_paren (l : list tok) : bool := match l with [TParen _] => true | _ => false end.

Lemma unwrap_id l : single_paren l = false -> unwrap l = l.
Proof. destruct l as [|[] [|? ?]]; cbn; congruence. Qed.

Lemma cta_paren fuel t : single_paren t = false ->
  condition_to_ast fuel [TParen t] = condition_to_ast fuel t.
Proof.
  intros H. destruct fuel as [|fu]; [reflexivity|]. cbn [condition_to_ast].
  rewrite (unwrap_id t H). reflexivity.
Qed.

Lemma split_at_noop isop p : forall r cur,
  no_op isop p = true -> split_at isop (p ++ r) cur = split_at isop r (rev p ++ cur).
Proof.
  induction p as [|t p IH]; intros r cur H; [reflexivity|]. cbn [no_op forallb] in H.
  apply andb_true_iff in H as [H1 H2]. cbn [app split_at]. apply negb_true_iff in H1. rewrite H1.
  rewrite IH by exact H2. cbn [rev]. now rewrite <- app_assoc.
Qed.

Lemma split_at_sep isop s : isop s = true -> forall parts,
  parts <> [] -> Forall (fun p => no_op isop p = true) parts ->
  split_at isop (sep_by s parts) [] = parts.
Proof.
  intros Hs. induction parts as [|p [|q r] IH]; intros Hne H; [congruence| |].
  - cbn [sep_by]. inversion H; subst. rewrite <- (app_nil_r p) at 1.
    rewrite split_at_noop by assumption. cbn. now rewrite app_nil_r, rev_involutive.
  - inversion H as [|? ? Hp Hr]; subst. change (sep_by s (p :: q :: r)) with (p ++ s :: sep_by s (q :: r)).
    rewrite split_at_noop by assumption. cbn [split_at]. rewrite Hs, app_nil_r, rev_involutive.
    f_equal. apply IH; [discriminate|exact Hr].
Qed.

Lemma last_app_ne {A} (a b : list A) d : b <> [] -> last (a ++ b) d = last b d.
Proof.
  intros Hb. induction a as [|x a IH]; [reflexivity|]. cbn [app].
  destruct (a ++ b) as [|t l0] eqn:E; [destruct a; cbn in E; [congruence|discriminate]|].
  transitivity (last (t :: l0) d); [reflexivity|exact IH].
Qed.

Lemma no_op_last isop l d : no_op isop l = true -> l <> [] -> isop (last l d) = false.
Proof.
  induction l as [|t l IH]; intros H Hne; [congruence|]. cbn [no_op forallb] in H.
  apply andb_true_iff in H as [H1 H2]. destruct l as [|u l]; [cbn; now apply negb_true_iff|].
  change (last (t :: u :: l) d) with (last (u :: l) d). apply IH; [exact H2|discriminate].
Qed.

Lemma sep_by_last s (parts : list (list tok)) d :
  parts <> [] -> Forall (fun p => p <> []) parts ->
  exists p, In p parts /\ last (sep_by s parts) d = last p d.
Proof.
  induction parts as [|p [|q r] IH]; intros Hne H; [congruence| |].
  - exists p. split; [now left|reflexivity].
  - inversion H as [|? ? Hp Hr]; subst. change (sep_by s (p :: q :: r)) with (p ++ s :: sep_by s (q :: r)).
    destruct (IH ltac:(discriminate) Hr) as [p' [Hin E]]. exists p'. split; [now right|].
    rewrite last_app_ne by discriminate.
    change (last (s :: sep_by s (q :: r)) d) with
        (match sep_by s (q :: r) with [] => s | _ => last (sep_by s (q :: r)) d end).
    destruct (sep_by s (q :: r)) eqn:E2; [|exact E].
    exfalso. inversion Hr as [|? ? Hq _]; subst. destruct r; cbn in E2; [congruence|].
    destruct q; [congruence|discriminate].
Qed.

Lemma sep_by_hd s (parts : list (list tok)) :
  parts <> [] -> Forall (fun p => p <> []) parts ->
  exists t p rest, In p parts /\ p = t :: rest /\ exists rest', sep_by s parts = t :: rest'.
Proof.
  intros Hne H. destruct parts as [|p r]; [congruence|]. inversion H as [|? ? Hp Hr]; subst.
  destruct p as [|t p']; [congruence|]. exists t, (t :: p'), p'. split; [now left|]. split; [reflexivity|].
  destruct r; cbn; eauto.
Qed.

(* find_operator on a separated list gives the parts back *)
Lemma find_operator_sep isop s parts :
  isop s = true -> parts <> [] ->
  Forall (fun p => no_op isop p = true /\ p <> []) parts ->
  find_operator isop (sep_by s parts) = Some parts.
Proof.
  intros Hs Hne H.
  assert (H1 : Forall (fun p => no_op isop p = true) parts) by (eapply Forall_impl; [|exact H]; now intros ? []).
  assert (H2 : Forall (fun p => p <> []) parts) by (eapply Forall_impl; [|exact H]; now intros ? []).
  pose proof (split_at_sep isop s Hs parts Hne H1) as Es.
  destruct (sep_by_hd s parts Hne H2) as [t [p [rest [Hin [Ep [rest' E]]]]]].
  unfold find_operator. rewrite E. rewrite <- E.
  assert (Ht : isop t = false).
  { rewrite Forall_forall in H1. specialize (H1 p Hin). subst p. cbn in H1.
    apply andb_true_iff in H1 as [X _]. now apply negb_true_iff. }
  rewrite Ht. cbn [orb].
  destruct (sep_by_last s parts t Hne H2) as [p' [Hin' El]]. rewrite El.
  rewrite Forall_forall in H1, H2.
  rewrite (no_op_last isop p' t (H1 p' Hin') (H2 p' Hin')).
  now rewrite Es.
Qed.
(* ... and on a list without the operator, the list itself *)
Lemma find_operator_none isop l :
  no_op isop l = true -> l <> [] -> find_operator isop l = Some [l].
Proof.
  intros H Hne.
  destruct l as [|t r]; [congruence|]. unfold find_operator.
  cbn [no_op forallb] in H. apply andb_true_iff in H as [H1 H2]. apply negb_true_iff in H1. rewrite H1.
  assert (N : no_op isop (t :: r) = true) by (cbn [no_op forallb]; now rewrite H1, H2).
  rewrite (no_op_last isop (t :: r) t N) by discriminate.
  cbn [orb]. rewrite <- (app_nil_r (t :: r)) at 1. rewrite split_at_noop.
  - cbn [split_at]. now rewrite app_nil_r, rev_involutive.
  - exact N.
Qed.

(* shapes of the printed operands *)
Definition wrap_and (x : formula) := if needs_paren_in_and x then [TParen (tokens_of x)] else tokens_of x.
Definition wrap_or (x : formula) := if needs_paren_in_or x then [TParen (tokens_of x)] else tokens_of x.
Definition wrap_not (x : formula) := if needs_paren_in_not x then [TParen (tokens_of x)] else tokens_of x.

Lemma wrap_not_simple x : no_op is_or (wrap_not x) = true /\ no_op is_and (wrap_not x) = true /\ wrap_not x <> [].
Proof. destruct x; cbn; repeat split; discriminate. Qed.
Lemma wrap_and_simple x : no_op is_or (wrap_and x) = true /\ no_op is_and (wrap_and x) = true /\ wrap_and x <> [].
Proof.
  destruct x as [a|l|l|y]; cbn; repeat split; try discriminate;
    destruct (wrap_not_simple y) as [A [B C]]; unfold wrap_not in *; assumption.
Qed.

Lemma no_op_sep isop s parts :
  isop s = false -> Forall (fun p => no_op isop p = true) parts -> no_op isop (sep_by s parts) = true.
Proof.
  intros Hs. induction parts as [|p [|q r] IH]; intros H; [reflexivity| |].
  - now inversion H.
  - inversion H as [|? ? Hp Hr]; subst. change (sep_by s (p :: q :: r)) with (p ++ s :: sep_by s (q :: r)).
    unfold no_op in *. rewrite forallb_app. cbn [forallb]. rewrite Hp, Hs. cbn. now apply IH.
Qed.
Lemma sep_ne s (parts : list (list tok)) : parts <> [] -> Forall (fun p => p <> []) parts -> sep_by s parts <> [].
Proof.
  intros Hne H. destruct (sep_by_hd s parts Hne H) as [t [p [rest [_ [_ [rest' E]]]]]]. now rewrite E.
Qed.

Lemma tokens_and_shape l : l <> [] ->
  no_op is_or (tokens_of (And l)) = true /\ tokens_of (And l) <> [].
Proof.
  intros Hne. cbn [tokens_of]. fold wrap_and. split.
  - apply no_op_sep; [reflexivity|]. apply Forall_map, Forall_forall. intros x _. apply wrap_and_simple.
  - apply sep_ne; [destruct l; [congruence|discriminate]|].
    apply Forall_map, Forall_forall. intros x _. apply wrap_and_simple.
Qed.

Lemma wrap_or_shape x : wff x = true -> no_op is_or (wrap_or x) = true /\ wrap_or x <> [].
Proof.
  intros W. destruct x as [a|l|l|y].
  - cbn. split; [reflexivity|discriminate].
  - unfold wrap_or; cbn [needs_paren_in_or]. apply tokens_and_shape.
    cbn in W. destruct l; [discriminate|discriminate].
  - cbn. split; [reflexivity|discriminate].
  - unfold wrap_or; cbn [needs_paren_in_or tokens_of]. fold (wrap_not y).
    destruct (wrap_not_simple y) as [A [B C]]. split; [cbn; exact A|discriminate].
Qed.

Lemma tokens_not_single f : wff f = true -> single_paren (tokens_of f) = false.
Proof.
  destruct f as [a|l|l|y]; cbn [tokens_of wff]; intros W; try reflexivity.
  - apply andb_true_iff in W as [W _]. destruct l as [|x [|z r]]; try discriminate. cbn [map].
    change (sep_by TAnd (?p :: ?q :: ?r)) with (p ++ TAnd :: sep_by TAnd (q :: r)).
    fold (wrap_and x). destruct (wrap_and x) as [|t [|t' p']]; cbn [app single_paren]; try reflexivity; now destruct t.
  - apply andb_true_iff in W as [W _]. destruct l as [|x [|z r]]; try discriminate. cbn [map].
    change (sep_by TOr (?p :: ?q :: ?r)) with (p ++ TOr :: sep_by TOr (q :: r)).
    fold (wrap_or x). destruct (wrap_or x) as [|t [|t' p']]; cbn [app single_paren]; try reflexivity; now destruct t.
Qed.

Lemma toks_size_app a b : toks_size (a ++ b) = (toks_size a + toks_size b)%nat.
Proof. unfold toks_size. induction a as [|t a IH]; cbn [app fold_right]; lia. Qed.

Lemma toks_size_sep_part s parts p :
  tok_size s = 1%nat -> In p parts -> (2 <= length parts)%nat ->
  (toks_size p < toks_size (sep_by s parts))%nat.
Proof.
  intros Hs. revert p. induction parts as [|q [|q2 r] IH]; intros p Hin Hlen; cbn [length] in Hlen; try lia.
  change (sep_by s (q :: q2 :: r)) with (q ++ s :: sep_by s (q2 :: r)).
  rewrite toks_size_app. change (toks_size (s :: ?x)) with (tok_size s + toks_size x)%nat. rewrite Hs.
  destruct Hin as [<-|Hin]; [lia|].
  destruct r as [|q3 r].
  - destruct Hin as [<-|[]]. cbn [sep_by]. lia.
  - specialize (IH p Hin ltac:(cbn [length]; lia)). lia.
Qed.

Lemma toks_size_wrap (x : formula) w :
  w = [TParen (tokens_of x)] \/ w = tokens_of x -> (toks_size (tokens_of x) <= toks_size w)%nat.
Proof. intros [->| ->]; [|lia]. unfold toks_size at 2. cbn [fold_right tok_size]. fold (toks_size (tokens_of x)). lia. Qed.

(* parse after print *)
Theorem parse_print f : forall fuel,
  wff f = true -> (toks_size (tokens_of f) < fuel)%nat ->
  condition_to_ast fuel (tokens_of f) = ast_of f.
Proof.
  induction f as [a|l IH|l IH|y IH] using tree_ind'; intros fuel W Hf;
    (destruct fuel as [|fu]; [lia|]).
  - (* atom *) reflexivity.
  - (* && *)
    pose proof (tokens_not_single (And l) W) as NS.
    cbn [wff] in W. apply andb_true_iff in W as [Wl Wc]. apply Nat.leb_le in Wl.
    assert (Hne : l <> []) by (destruct l; [cbn in Wl; lia|discriminate]).
    destruct (tokens_and_shape l Hne) as [NO NE].
    cbn [condition_to_ast]. rewrite (unwrap_id _ NS).
    rewrite (find_operator_none is_or _ NO NE).
    cbn [tokens_of] in *. fold wrap_and in *.
    rewrite (find_operator_sep is_and TAnd (map wrap_and l)); [|reflexivity| |].
    2:{ destruct l; [congruence|discriminate]. }
    2:{ apply Forall_map, Forall_forall. intros x _. destruct (wrap_and_simple x) as [_ [B C]]. now split. }
    assert (E : map (condition_to_ast fu) (map wrap_and l) = map ast_of l).
    { rewrite map_map. apply map_ext_in. rewrite Forall_forall in IH. rewrite forallb_forall in Wc. intros x Hx.
      assert (Sz : (toks_size (wrap_and x) < toks_size (sep_by TAnd (map wrap_and l)))%nat).
      { apply toks_size_sep_part; [reflexivity|now apply in_map|now rewrite map_length]. }
      assert (Sx : (toks_size (tokens_of x) <= toks_size (wrap_and x))%nat).
      { apply toks_size_wrap. unfold wrap_and. destruct (needs_paren_in_and x); auto. }
      unfold wrap_and. destruct (needs_paren_in_and x).
      - rewrite cta_paren by (apply tokens_not_single, Wc, Hx). apply IH; auto. lia.
      - apply IH; auto. lia. }
    rewrite E. cbn [ast_of].
    destruct (map wrap_and l) as [|p1 [|p2 r]] eqn:Em.
    + destruct l; [congruence|discriminate].
    + destruct l as [|? [|? ?]]; cbn in Wl, Em; try lia; discriminate.
    + reflexivity.
  - (* || *)
    pose proof (tokens_not_single (Or l) W) as NS.
    cbn [wff] in W. apply andb_true_iff in W as [Wl Wc]. apply Nat.leb_le in Wl.
    assert (Hne : l <> []) by (destruct l; [cbn in Wl; lia|discriminate]).
    cbn [condition_to_ast]. rewrite (unwrap_id _ NS).
    cbn [tokens_of] in *. fold wrap_or in *.
    rewrite (find_operator_sep is_or TOr (map wrap_or l)); [|reflexivity| |].
    2:{ destruct l; [congruence|discriminate]. }
    2:{ apply Forall_map. rewrite forallb_forall in Wc. apply Forall_forall. intros x Hx. now apply wrap_or_shape, Wc. }
    assert (E : map (condition_to_ast fu) (map wrap_or l) = map ast_of l).
    { rewrite map_map. apply map_ext_in. rewrite Forall_forall in IH. rewrite forallb_forall in Wc. intros x Hx.
      assert (Sz : (toks_size (wrap_or x) < toks_size (sep_by TOr (map wrap_or l)))%nat).
      { apply toks_size_sep_part; [reflexivity|now apply in_map|now rewrite map_length]. }
      assert (Sx : (toks_size (tokens_of x) <= toks_size (wrap_or x))%nat).
      { apply toks_size_wrap. unfold wrap_or. destruct (needs_paren_in_or x); auto. }
      unfold wrap_or. destruct (needs_paren_in_or x).
      - rewrite cta_paren by (apply tokens_not_single, Wc, Hx). apply IH; auto. lia.
      - apply IH; auto. lia. }
    rewrite E. cbn [ast_of].
    destruct (map wrap_or l) as [|p1 [|p2 r]] eqn:Em.
    + destruct l; [congruence|discriminate].
    + destruct l as [|? [|? ?]]; cbn in Wl, Em; try lia; discriminate.
    + reflexivity.
  - (* ! *)
    pose proof (tokens_not_single (Not y) W) as NS. cbn [wff] in W.
    cbn [condition_to_ast]. rewrite (unwrap_id _ NS).
    cbn [tokens_of] in *. fold (wrap_not y) in *.
    destruct (wrap_not_simple y) as [A [B C]].
    rewrite (find_operator_none is_or (TNot :: wrap_not y) A) by discriminate.
    rewrite (find_operator_none is_and (TNot :: wrap_not y) B) by discriminate.
    assert (E : condition_to_ast fu (wrap_not y) = ast_of y).
    { change (toks_size (TNot :: wrap_not y)) with (1 + toks_size (wrap_not y))%nat in Hf.
      assert (Sx : (toks_size (tokens_of y) <= toks_size (wrap_not y))%nat).
      { apply toks_size_wrap. unfold wrap_not. destruct (needs_paren_in_not y); auto. }
      unfold wrap_not. destruct (needs_paren_in_not y).
      - rewrite cta_paren by (apply tokens_not_single, W). apply IH; auto. lia.
      - apply IH; auto. lia. }
    rewrite E. reflexivity.
Qed.

(* the two ways a condition reaches parse_condition: as the bracket token of if/while
   (`wrapped`), or as the bare token list of the middle statement of a for loop *)
Definition source_tokens (wrapped : bool) (f : formula) : list tok :=
  if wrapped then [TParen (tokens_of f)] else tokens_of f.

Lemma parse_condition_print nm wrapped f :
  wff f = true -> parse_condition nm (source_tokens wrapped f) =
                  match ast_of f with Some a => parse_ast nm a | None => None end.
Proof.
  intros W. unfold parse_condition, source_tokens. destruct wrapped.
  - rewrite cta_paren by now apply tokens_not_single.
    rewrite parse_print; [reflexivity|exact W|].
    unfold toks_size at 2. cbn [fold_right tok_size]. fold (toks_size (tokens_of f)). lia.
  - rewrite parse_print; [reflexivity|exact W|lia].
Qed.

(* ------------------------------------------------------------------ the property *)
Section Property.
  Variable ft : string -> option (list cmd).
  Variable env : nat -> state -> state.

  Definition formula_ok (nm : names) (f : formula) : Prop :=
    wff f = true /\ Forall (atom_ok nm) (atoms f).

  Theorem guard_iff nm wrapped f pcs cs n st :
    parse_condition nm (source_tokens wrapped f) = Some (pcs, cs) ->
    formula_ok nm f ->
    forallb wf_cmd (pcs ++ [guarded cs (CExt n)]) = true /\
    exists st1,
      exec_list ft env 2 pcs st = Some st1 /\
      (forall s, user_score nm s -> sc st1 s = sc st s) /\ stg st1 = stg st /\ tr st1 = tr st /\
      exec ft env 2 no_menv (guarded cs (CExt n)) st1 =
      Some (if eval st f then (log (env n st1) (EExt n), r_ok 1) else (st1, r_fail)).
  Proof.
    intros E [W Ha]. rewrite parse_condition_print in E by exact W.
    destruct (ast_of f) as [a|] eqn:Ea; [|discriminate].
    destruct (ast_of_correct nm f a Ea Ha (wff_nonempty f W)) as [Ok Ev].
    destruct (parse_ast_correct ft env nm a pcs cs n st E Ok) as [Wf [st1 [X1 [X2 [X3 [X4 X5]]]]]].
    split; [exact Wf|]. exists st1. repeat split; auto.
    - intros s Hs. symmetry. now apply X2.
    - now rewrite <- Ev.
  Qed.

  (* the compiler refuses exactly the formulas containing a refused `matches a..b` *)
  Theorem accepted_iff nm wrapped f :
    wff f = true ->
    (Forall atom_accepted (atoms f) <-> parse_condition nm (source_tokens wrapped f) <> None).
  Proof.
    intros W. rewrite parse_condition_print by exact W. split.
    - intros H. pose proof (ast_of_total f H). destruct (ast_of f) as [a|]; [|congruence]. apply parse_ast_total.
    - intros H. destruct (ast_of f) as [a|] eqn:Ea; [|congruence]. clear H W.
      revert a Ea. induction f as [x|l IH|l IH|x IH] using tree_ind'; intros a Ea; cbn [ast_of atoms] in *.
      + constructor; [|constructor]. apply custom_condition_accepts. destruct (custom_condition x); [discriminate|discriminate].
      + destruct (all_some (map ast_of l)) as [b|] eqn:Eb; [|discriminate]. apply all_some_map in Eb. clear Ea.
        induction Eb as [|x0 y0 l0 b0 Exy _ IHb]; [constructor|]. inversion IH; subst. cbn [flat_map].
        apply Forall_app; split; eauto.
      + destruct (all_some (map ast_of l)) as [b|] eqn:Eb; [|discriminate]. apply all_some_map in Eb. clear Ea.
        induction Eb as [|x0 y0 l0 b0 Exy _ IHb]; [constructor|]. inversion IH; subst. cbn [flat_map].
        apply Forall_app; split; eauto.
      + destruct (ast_of x) as [b|] eqn:Eb; [|discriminate]. eauto.
  Qed.

  (* whatever token list the parser accepts, the lowering is right for the AST it built *)
  Theorem guard_iff_tokens nm toks a pcs cs n st :
    condition_to_ast (S (toks_size toks)) toks = Some a ->
    parse_condition nm toks = Some (pcs, cs) -> ast_ok nm a ->
    forallb wf_cmd (pcs ++ [guarded cs (CExt n)]) = true /\
    exists st1,
      exec_list ft env 2 pcs st = Some st1 /\
      (forall s, user_score nm s -> sc st1 s = sc st s) /\ stg st1 = stg st /\ tr st1 = tr st /\
      exec ft env 2 no_menv (guarded cs (CExt n)) st1 =
      Some (if aeval st a then (log (env n st1) (EExt n), r_ok 1) else (st1, r_fail)).
  Proof.
    intros Ea E Ok. unfold parse_condition in E. rewrite Ea in E.
    destruct (parse_ast_correct ft env nm a pcs cs n st E Ok) as [Wf [st1 [X1 [X2 [X3 [X4 X5]]]]]].
    split; [exact Wf|]. exists st1. repeat split; auto. intros s Hs. symmetry. now apply X2.
  Qed.
End Property.
