(* Proofs.Switch — exactness of both lowerings of `switch` (Model.Switch) against MC.Sem.  Property C06. *)
From Coq Require Import ZArith String List Bool Lia DecimalString Decimal.
From JMCV Require Import Base.Int32 Base.Dec MC.Syntax MC.Sem MC.Facts Model.Names Model.Switch.
Import ListNotations.
Open Scope Z_scope.

Local Notation "a +++ b" := (String.append a b) (at level 60, right associativity).

(* ================================================================== strings and names *)

Lemma append_assoc (a b c : string) : ((a +++ b) +++ c = a +++ (b +++ c))%string.
Proof. induction a as [|ch a IH]; cbn; [reflexivity|now rewrite IH]. Qed.

Lemma append_inj_l (s a b : string) : s +++ a = s +++ b -> a = b.
Proof. induction s as [|ch s IH]; cbn; intros H; [exact H|]. injection H as H. auto. Qed.

Lemma priv_path_inj nm g a b : priv_path nm g a = priv_path nm g b -> a = b.
Proof. unfold priv_path. intros H. repeat (apply append_inj_l in H). exact H. Qed.

Lemma fname_inj nm g a b : priv_path nm g (z_dec a) = priv_path nm g (z_dec b) -> a = b.
Proof. intros H. apply z_dec_inj. eapply priv_path_inj; eauto. Qed.

Lemma z_dec_parses z : NilZero.int_of_string (z_dec z) = Some (Z.to_int z).
Proof.
  unfold z_dec. destruct (to_int_not_nil z) as [H1 H2]. now apply NilZero.isi.
Qed.
Lemma z_dec_not_default z : z_dec z <> "default"%string.
Proof. intros H. pose proof (z_dec_parses z) as P. rewrite H in P. discriminate P. Qed.
Lemma z_dec_not_select z : z_dec z <> "select"%string.
Proof. intros H. pose proof (z_dec_parses z) as P. rewrite H in P. discriminate P. Qed.

Lemma macro_case_name_eq nm g pc l :
  macro_case_name nm g pc l = macro_prefix nm g pc +++ label_str l.
Proof. unfold macro_case_name, macro_prefix, priv_path. now rewrite !append_assoc. Qed.
Lemma macro_select_name_eq nm g pc :
  macro_select_name nm g pc = macro_prefix nm g pc +++ "select".
Proof. unfold macro_select_name, macro_prefix, priv_path. now rewrite !append_assoc. Qed.

Lemma label_str_inj a b : label_str a = label_str b -> a = b.
Proof.
  destruct a as [x|], b as [y|]; cbn; intros H.
  - f_equal. now apply z_dec_inj.
  - now apply z_dec_not_default in H.
  - symmetry in H. now apply z_dec_not_default in H.
  - reflexivity.
Qed.

Lemma label_eqb_spec a b : reflect (a = b) (label_eqb a b).
Proof.
  destruct a as [x|], b as [y|]; cbn; try (constructor; congruence).
  destruct (Z.eqb_spec x y); constructor; congruence.
Qed.

(* ================================================================== running commands *)

Section Runs.
  Variable ft : string -> option (list cmd).
  Variable env : nat -> state -> state.

  Definition steps (me : string -> option Z) (c : cmd) (st st' : state) : Prop :=
    exists F r, exec ft env F me c st = Some (st', r).
  Definition runs (me : string -> option Z) (l : list cmd) (st st' : state) : Prop :=
    exists F, seq_run (exec ft env F me) l st = Some st'.

  Lemma seq_run_mono me l n st st' :
    seq_run (exec ft env n me) l st = Some st' ->
    forall m, (n <= m)%nat -> seq_run (exec ft env m me) l st = Some st'.
  Proof.
    intros H m Hm. eapply seq_run_ext; [|exact H]. intros; eapply exec_mono; eauto.
  Qed.

  Lemma runs_nil me st : runs me [] st st.
  Proof. exists 1%nat. reflexivity. Qed.

  Lemma runs_cons me c l st st1 st2 :
    steps me c st st1 -> runs me l st1 st2 -> runs me (c :: l) st st2.
  Proof.
    intros (F1 & r & H1) (F2 & H2). exists (Nat.max F1 F2). cbn [seq_run].
    rewrite (exec_mono ft env _ _ _ _ _ H1 (Nat.max F1 F2)) by lia.
    eapply seq_run_mono; [exact H2|lia].
  Qed.

  Lemma runs_app me l1 l2 st st1 st2 :
    runs me l1 st st1 -> runs me l2 st1 st2 -> runs me (l1 ++ l2) st st2.
  Proof.
    intros (F1 & H1) (F2 & H2). exists (Nat.max F1 F2). rewrite seq_run_app.
    rewrite (seq_run_mono _ _ _ _ _ H1 (Nat.max F1 F2)) by lia.
    eapply seq_run_mono; [exact H2|lia].
  Qed.

  Lemma runs_exec_list l st st' :
    runs no_menv l st st' <-> exists F, exec_list ft env F l st = Some st'.
  Proof. reflexivity. Qed.

  Lemma steps_call me f body st st' :
    ft f = Some body -> runs no_menv body st st' -> steps me (CCall f) st st'.
  Proof.
    intros Hf (F & H). exists (S F), (r_ok 0). cbn [exec]. rewrite Hf, H. reflexivity.
  Qed.

  Lemma steps_call_none me f st : ft f = None -> steps me (CCall f) st st.
  Proof. intros Hf. exists 1%nat, r_fail. cbn [exec]. now rewrite Hf. Qed.

  Lemma steps_if_run me pos t body st st' :
    test_true st t = pos -> steps me body st st' -> steps me (CExecute [MIf pos t] body) st st'.
  Proof.
    intros Ht (F & r & H). exists (S F), r. cbn [exec run_mods]. rewrite Ht, Bool.eqb_reflx, H.
    reflexivity.
  Qed.

  Lemma steps_if_skip me pos t body st :
    test_true st t = negb pos -> steps me (CExecute [MIf pos t] body) st st.
  Proof.
    intros Ht. exists 1%nat, r_fail. cbn [exec run_mods]. rewrite Ht.
    destruct pos; reflexivity.
  Qed.

  Lemma steps_set me s z st : steps me (CSet s z) st (set_sc st s z).
  Proof. exists 1%nat, (r_ok z). reflexivity. Qed.

  Lemma steps_ext me n st : steps me (CExt n) st (log (env n st) (EExt n)).
  Proof. exists 1%nat, (r_ok 1). reflexivity. Qed.
End Runs.

(* ================================================================== small arithmetic *)

Lemma in_range_match a b v : a <= b ->
  in_range v (match_range a b) = (a <=? v) && (v <=? b).
Proof.
  intros Hab. unfold match_range. destruct (Z.eqb_spec a b) as [->|N]; cbn [in_range]; [|reflexivity].
  destruct (Z.eqb_spec v b), (Z.leb_spec b v), (Z.leb_spec v b); cbn; try reflexivity; lia.
Qed.

Lemma wf_match_range a b : in_int32 a -> in_int32 b -> a <= b -> wf_range (match_range a b) = true.
Proof.
  intros Ha Hb Hab. unfold match_range. destruct (a =? b); cbn [wf_range].
  - now apply in_int32b_spec.
  - rewrite !(proj2 (in_int32b_spec _)) by assumption. cbn. now apply Z.leb_le.
Qed.

Lemma half_bounds lo hi : lo < hi ->
  let half2 := lo + (hi - lo + 1) / 2 in lo < half2 <= hi.
Proof.
  intros H. cbn zeta.
  pose proof (Z.div_mod (hi - lo + 1) 2 ltac:(lia)) as E.
  pose proof (Z.mod_pos_bound (hi - lo + 1) 2 ltac:(lia)) as B. lia.
Qed.

(* ================================================================== the binary search tree *)

Section Bst.
  Variable nm : names.
  Variable group : string.
  Variable tmp : score.
  Variable bodies : list (list cmd).
  Variable start : Z.

  Let fn (c : Z) : string := priv_path nm group (z_dec c).

  Lemma NoDup_app_intro {A} (l1 l2 : list A) :
    NoDup l1 -> NoDup l2 -> (forall x, In x l1 -> ~ In x l2) -> NoDup (l1 ++ l2).
  Proof.
    induction l1 as [|a l1 IH]; intros H1 H2 D; cbn; [exact H2|].
    inversion H1; subst. constructor.
    - rewrite in_app_iff. intros [?|?]; [contradiction|]. eapply D; [left; reflexivity|eassumption].
    - apply IH; auto. intros x Hx. apply D. now right.
  Qed.

  (* the counts used as names: `my` and a block [next, next') allocated pre-order, each exactly once *)
  Lemma bst_counts : forall fuel lo hi my next fs next',
      bst fuel nm group tmp bodies start lo hi my next = (fs, next') -> my < next ->
      next <= next' /\
      exists cs, map fst fs = map fn cs /\ NoDup cs /\
                 (forall c, In c cs -> c = my \/ next <= c < next').
  Proof.
    induction fuel as [|f IH]; intros lo hi my next fs next' H Hmy; cbn [bst] in H.
    - injection H as <- <-. split; [lia|]. exists []. repeat split; auto using NoDup_nil; contradiction.
    - destruct (hi =? lo).
      + injection H as <- <-. split; [lia|]. exists [my]. cbn. repeat split; auto.
        * constructor; [intros []|constructor].
        * intros c [<-|[]]. now left.
      + destruct (bst f nm group tmp bodies start lo (lo + (hi - lo + 1) / 2 - 1) next (next + 2))
          as [fl n1] eqn:EL.
        destruct (bst f nm group tmp bodies start (lo + (hi - lo + 1) / 2) hi (next + 1) n1)
          as [fr n2] eqn:ER.
        injection H as <- <-.
        destruct (IH _ _ _ _ _ _ EL ltac:(lia)) as (L1 & csl & ML & NL & RL).
        destruct (IH _ _ _ _ _ _ ER ltac:(lia)) as (R1 & csr & MR & NR & RR).
        split; [lia|]. exists (my :: csl ++ csr). unfold func in *. rewrite !map_cons, !map_app, ML, MR.
        split; [reflexivity|]. split.
        * constructor.
          -- rewrite in_app_iff. intros [Hc|Hc]; [apply RL in Hc|apply RR in Hc]; lia.
          -- apply NoDup_app_intro; auto. intros x Hl Hr. apply RL in Hl. apply RR in Hr. lia.
        * intros c [<-|Hc]; [now left|]. right. apply in_app_iff in Hc.
          destruct Hc as [Hc|Hc]; [apply RL in Hc|apply RR in Hc]; lia.
  Qed.

  Lemma bst_names_nodup fuel lo hi my next fs next' :
    bst fuel nm group tmp bodies start lo hi my next = (fs, next') -> my < next ->
    NoDup (map fst fs).
  Proof.
    intros H Hmy. destruct (bst_counts _ _ _ _ _ _ _ H Hmy) as (_ & cs & M & N & _).
    rewrite M. clear M. induction N as [|c cs Hc N IH]; cbn; constructor; auto.
    rewrite in_map_iff. intros (c' & E & Hin). apply fname_inj in E. congruence.
  Qed.
End Bst.

(* ------------------------------------------------------------------ semantics of the tree *)

Section BstSem.
  Variable nm : names.
  Variable group : string.
  Variable tmp : score.
  Variable bodies : list (list cmd).
  Variable start : Z.
  Variable ft : string -> option (list cmd).
  Variable env : nat -> state -> state.
  Variable B : nat -> state -> state.          (* meaning of the k-th body *)

  Let fn (c : Z) : string := priv_path nm group (z_dec c).

  (* every body runs to completion, as B says, and leaves the temp score alone *)
  Definition bodies_ok_bst : Prop :=
    forall k body, nth_error bodies k = Some body ->
      forall st, runs ft env no_menv body st (B k st) /\ sc (B k st) tmp = sc st tmp.

  Hypothesis HB : bodies_ok_bst.

  Lemma guarded_call_run me a b f st st' v :
    a <= b -> sc st tmp = Some v -> a <= v <= b ->
    steps ft env me (CCall f) st st' ->
    steps ft env me (guarded_call tmp (match_range a b) f) st st'.
  Proof.
    intros Hab Hv Hin Hs. apply steps_if_run; [|exact Hs].
    cbn [test_true]. rewrite Hv, in_range_match by assumption.
    apply andb_true_iff; split; apply Z.leb_le; lia.
  Qed.

  Lemma guarded_call_skip me a b f st v :
    a <= b -> sc st tmp = Some v -> ~ (a <= v <= b) ->
    steps ft env me (guarded_call tmp (match_range a b) f) st st.
  Proof.
    intros Hab Hv Hout. apply steps_if_skip.
    cbn [test_true negb]. rewrite Hv, in_range_match by assumption.
    apply andb_false_iff. destruct (Z.leb_spec a v); [right|left; reflexivity].
    apply Z.leb_gt. lia.
  Qed.

  Lemma bst_run : forall fuel lo hi my next fs next',
      bst fuel nm group tmp bodies start lo hi my next = (fs, next') ->
      (Z.to_nat (hi - lo) < fuel)%nat -> start <= lo -> lo <= hi ->
      (Z.to_nat (hi - start) < length bodies)%nat ->
      (forall f b, In (f, b) fs -> ft f = Some b) ->
      forall me st v, sc st tmp = Some v -> lo <= v <= hi ->
        steps ft env me (CCall (fn my)) st (B (Z.to_nat (v - start)) st).
  Proof.
    induction fuel as [|f IH]; intros lo hi my next fs next' H Hfuel Hs Hlh Hlen Hft me st v Hv Hin;
      [lia|]. cbn [bst] in H.
    destruct (Z.eqb_spec hi lo) as [E|NE].
    - injection H as <- <-. subst hi. assert (v = lo) by lia. subst v.
      eapply steps_call; [apply Hft; left; reflexivity|].
      apply HB. apply nth_error_nth'. lia.
    - destruct (bst f nm group tmp bodies start lo (lo + (hi - lo + 1) / 2 - 1) next (next + 2))
        as [fl n1] eqn:EL.
      destruct (bst f nm group tmp bodies start (lo + (hi - lo + 1) / 2) hi (next + 1) n1)
        as [fr n2] eqn:ER.
      injection H as <- <-.
      pose proof (half_bounds lo hi ltac:(lia)) as HH. cbn zeta in HH.
      set (half2 := lo + (hi - lo + 1) / 2) in *.
      assert (FL : forall g b, In (g, b) fl -> ft g = Some b).
      { intros g b Hg. apply Hft. right. apply in_app_iff. now left. }
      assert (FR : forall g b, In (g, b) fr -> ft g = Some b).
      { intros g b Hg. apply Hft. right. apply in_app_iff. now right. }
      eapply steps_call; [apply Hft; left; reflexivity|].
      destruct (Z_le_gt_dec v (half2 - 1)) as [Hl|Hr].
      + (* left half *)
        eapply runs_cons.
        * eapply guarded_call_run; [| exact Hv | |]; [lia|lia|].
          eapply (IH _ _ _ _ _ _ EL); try lia; eauto. lia.
        * assert (Hn : nth_error bodies (Z.to_nat (v - start)) =
                       Some (nth (Z.to_nat (v - start)) bodies [])) by (apply nth_error_nth'; lia).
          destruct (HB _ _ Hn st) as [_ Hp].
          eapply runs_cons; [|apply runs_nil].
          eapply guarded_call_skip with (v := v); [lia| |lia].
          rewrite Hp. exact Hv.
      + (* right half *)
        eapply runs_cons.
        * eapply guarded_call_skip with (v := v); [lia|exact Hv|lia].
        * eapply runs_cons; [|apply runs_nil].
          eapply guarded_call_run; [| exact Hv | |]; [lia|lia|].
          eapply (IH _ _ _ _ _ _ ER); try lia; eauto.
  Qed.

  (* a value outside [lo, hi] falls through both lines of the root *)
  Lemma bst_root_out fuel lo hi my next fs next' :
      bst (S fuel) nm group tmp bodies start lo hi my next = (fs, next') -> lo < hi ->
      (forall f b, In (f, b) fs -> ft f = Some b) ->
      forall me st v, sc st tmp = Some v -> ~ (lo <= v <= hi) ->
        steps ft env me (CCall (fn my)) st st.
  Proof.
    intros H Hlh Hft me st v Hv Hout. cbn [bst] in H.
    destruct (Z.eqb_spec hi lo) as [E|NE]; [lia|].
    destruct (bst fuel nm group tmp bodies start lo (lo + (hi - lo + 1) / 2 - 1) next (next + 2))
      as [fl n1] eqn:EL.
    destruct (bst fuel nm group tmp bodies start (lo + (hi - lo + 1) / 2) hi (next + 1) n1)
      as [fr n2] eqn:ER.
    injection H as <- <-.
    pose proof (half_bounds lo hi Hlh) as HH. cbn zeta in HH.
    eapply steps_call; [apply Hft; left; reflexivity|].
    eapply runs_cons; [eapply guarded_call_skip with (v := v); [lia|exact Hv|lia]|].
    eapply runs_cons; [eapply guarded_call_skip with (v := v); [lia|exact Hv|lia]|].
    apply runs_nil.
  Qed.
End BstSem.

Lemma bst_fuel_irrelevant nm group tmp bodies start : forall f1 f2 lo hi my next,
    (Z.to_nat (hi - lo) < f1)%nat -> (Z.to_nat (hi - lo) < f2)%nat -> lo <= hi ->
    bst f1 nm group tmp bodies start lo hi my next = bst f2 nm group tmp bodies start lo hi my next.
Proof.
  induction f1 as [|f1 IH]; intros f2 lo hi my next H1 H2 Hlh; [lia|].
  destruct f2 as [|f2]; [lia|]. cbn [bst].
  destruct (Z.eqb_spec hi lo) as [E|NE]; [reflexivity|].
  pose proof (half_bounds lo hi ltac:(lia)) as HH. cbn zeta in HH.
  rewrite (IH f2 lo (lo + (hi - lo + 1) / 2 - 1)) by lia.
  destruct (bst f2 nm group tmp bodies start lo (lo + (hi - lo + 1) / 2 - 1) next (next + 2)) as [fl n1].
  rewrite (IH f2 (lo + (hi - lo + 1) / 2) hi) by lia. reflexivity.
Qed.

(* every range the tree tests is a valid int32 range *)
Lemma bst_wf nm group tmp bodies start : forall fuel lo hi my next fs next',
    bst fuel nm group tmp bodies start lo hi my next = (fs, next') ->
    in_int32 lo -> in_int32 hi -> lo <= hi -> start <= lo ->
    (forall body, In body bodies -> forallb wf_cmd body = true) ->
    forall f b, In (f, b) fs -> forallb wf_cmd b = true.
Proof.
  induction fuel as [|fu IH]; intros lo hi my next fs next' H Hlo Hhi Hlh Hs Hb f b Hin; cbn [bst] in H.
  - injection H as <- <-. contradiction.
  - destruct (Z.eqb_spec hi lo) as [E|NE].
    + injection H as <- <-. destruct Hin as [Hin|[]]. injection Hin as <- <-.
      destruct (nth_in_or_default (Z.to_nat (lo - start)) bodies []) as [Hi | ->]; [auto|reflexivity].
    + destruct (bst fu nm group tmp bodies start lo (lo + (hi - lo + 1) / 2 - 1) next (next + 2))
        as [fl n1] eqn:EL.
      destruct (bst fu nm group tmp bodies start (lo + (hi - lo + 1) / 2) hi (next + 1) n1)
        as [fr n2] eqn:ER.
      injection H as <- <-.
      pose proof (half_bounds lo hi ltac:(lia)) as HH. cbn zeta in HH.
      assert (I1 : in_int32 (lo + (hi - lo + 1) / 2 - 1)) by (unfold in_int32 in *; lia).
      assert (I2 : in_int32 (lo + (hi - lo + 1) / 2)) by (unfold in_int32 in *; lia).
      destruct Hin as [Hin|Hin].
      * injection Hin as <- <-. cbn [forallb wf_cmd guarded_call wf_mod wf_test].
        rewrite !wf_match_range by (auto; lia). reflexivity.
      * apply in_app_iff in Hin. destruct Hin as [Hin|Hin].
        -- eapply (IH _ _ _ _ _ _ EL); eauto; lia.
        -- eapply (IH _ _ _ _ _ _ ER); eauto; lia.
Qed.

(* ------------------------------------------------------------------ parse_switch, binary-search branch *)

Lemma do_op_assign_target st a b :
  sc (fst (do_op st a OAssign b)) a = Some (rd (sc st) b).
Proof. unfold do_op, set_sc. cbn [fst sc]. now rewrite upd_same. Qed.

(* what the lowered switch must do: copy, then exactly the body of label v (= start + k) *)
Definition bst_final (B : nat -> state -> state) (tmp x : score) (start n : Z) (st : state) : state :=
  let st0 := fst (do_op st tmp OAssign x) in
  let v := rd (sc st) x in
  if (start <=? v) && (v <? start + n) then B (Z.to_nat (v - start)) st0 else st0.

Lemma parse_switch_bst_exact nm group x bodies start guard1 pc sid cmds fs pc' sid' ft env B :
  parse_switch_bst nm group x bodies start guard1 pc sid = Ok (cmds, fs, pc', sid') ->
  guard1 = true \/ (2 <= length bodies)%nat ->
  (forall f b, In (f, b) fs -> ft f = Some b) ->
  bodies_ok_bst (tmp_score nm sid) bodies ft env B ->
  forall st, runs ft env no_menv cmds st
                  (bst_final B (tmp_score nm sid) x start (Z.of_nat (length bodies)) st).
Proof.
  intros H Hg Hft HB st. unfold parse_switch_bst in H.
  destruct (Z.eqb_spec (Z.of_nat (length bodies)) 0) as [E0|N0]; [discriminate|].
  set (n := Z.of_nat (length bodies)) in *. set (tmp := tmp_score nm sid) in *.
  destruct (bst (length bodies) nm group tmp bodies start start (start + n - 1) pc (pc + 1))
    as [fs0 pc0] eqn:EB.
  injection H as <- <- <- <-.
  assert (Hn : 1 <= n) by lia.
  set (st0 := fst (do_op st tmp OAssign x)).
  assert (Hv : sc st0 tmp = Some (rd (sc st) x)) by apply do_op_assign_target.
  set (v := rd (sc st) x) in *.
  assert (Hin : forall me, start <= v <= start + n - 1 ->
                           steps ft env me (CCall (priv_path nm group (z_dec pc))) st0
                                 (B (Z.to_nat (v - start)) st0)).
  { intros me Hr. eapply (bst_run nm group tmp bodies start ft env B HB _ _ _ _ _ _ _ EB);
      eauto; lia. }
  eapply runs_cons.
  { exists 1%nat, (snd (do_op st tmp OAssign x)). cbn [exec]. fold st0.
    unfold st0. now rewrite <- surjective_pairing. }
  eapply runs_cons; [|apply runs_nil].
  unfold bst_final. fold st0. fold v. fold tmp.
  destruct (Z.eqb_spec n 1) as [E1|N1].
  - (* one case *)
    destruct Hg as [->|Hg]; [|lia]. cbn [andb].
    destruct (Z.eqb_spec v start) as [Ev|Nv].
    + replace ((start <=? v) && (v <? start + n)) with true
        by (symmetry; apply andb_true_iff; split; [apply Z.leb_le|apply Z.ltb_lt]; lia).
      apply steps_if_run; [|apply Hin; lia].
      cbn [test_true in_range]. rewrite Hv. fold v. now apply Z.eqb_eq.
    + replace ((start <=? v) && (v <? start + n)) with false
        by (symmetry; apply andb_false_iff;
            destruct (Z.leb_spec start v); [right; apply Z.ltb_ge; lia|left; reflexivity]).
      apply steps_if_skip. cbn [test_true in_range negb]. rewrite Hv. fold v. now apply Z.eqb_neq.
  - rewrite andb_false_r.
    destruct ((start <=? v) && (v <? start + n)) eqn:Er.
    + apply andb_true_iff in Er. destruct Er as [E1 E2]. apply Z.leb_le in E1. apply Z.ltb_lt in E2.
      apply Hin. lia.
    + assert (Hout : ~ (start <= v <= start + n - 1)).
      { intros [A1 A2]. apply andb_false_iff in Er. destruct Er as [Er|Er];
          [apply Z.leb_gt in Er|apply Z.ltb_ge in Er]; lia. }
      destruct (length bodies) as [|m] eqn:EL; [lia|].
      eapply (bst_root_out nm group tmp bodies start ft env _ _ _ _ _ _ _ EB); eauto. lia.
Qed.

(* ================================================================== macro dispatch *)

(* index and element of the LAST element satisfying p (a later case of the same label replaces
   the earlier one: dict assignment in add_raw_private_function) *)
Fixpoint find_last_from {A} (p : A -> bool) (l : list A) (i : nat) : option (nat * A) :=
  match l with
  | [] => None
  | a :: r => match find_last_from p r (S i) with
              | Some x => Some x
              | None => if p a then Some (i, a) else None
              end
  end.
Definition find_last {A} (p : A -> bool) (l : list A) : option (nat * A) := find_last_from p l 0.

Lemma find_last_from_spec {A} (p : A -> bool) : forall l i k a,
    find_last_from p l i = Some (k, a) ->
    (i <= k)%nat /\ nth_error l (k - i) = Some a /\ p a = true /\
    (forall j b, (k - i < j)%nat -> nth_error l j = Some b -> p b = false).
Proof.
  induction l as [|x l IH]; intros i k a H; cbn [find_last_from] in H; [discriminate|].
  destruct (find_last_from p l (S i)) as [[k' a']|] eqn:E.
  - injection H as -> ->. destruct (IH _ _ _ E) as (Hk & Hn & Hp & Hl).
    repeat split; [lia| |exact Hp|].
    + replace (k - i)%nat with (S (k - S i)) by lia. exact Hn.
    + intros j b Hj Hb. destruct j as [|j]; [lia|]. cbn in Hb. eapply Hl; [|exact Hb]. lia.
  - destruct (p x) eqn:Px; [|discriminate]. injection H as <- <-.
    repeat split; [lia| |exact Px|].
    + now rewrite Nat.sub_diag.
    + intros j b Hj Hb. rewrite Nat.sub_diag in Hj. destruct j as [|j]; [lia|]. cbn in Hb.
      clear -E Hb. revert i j E Hb. induction l as [|y l IH]; intros i j E Hb; [destruct j; discriminate|].
      cbn [find_last_from] in E. destruct (find_last_from p l (S (S i))) eqn:E2; [discriminate|].
      destruct (p y) eqn:Py; [discriminate|]. destruct j as [|j]; cbn in Hb; [congruence|].
      eapply (IH (S i)); eauto.
Qed.

Lemma find_last_from_none {A} (p : A -> bool) : forall l i,
    find_last_from p l i = None -> forall a, In a l -> p a = false.
Proof.
  induction l as [|x l IH]; intros i H a Hin; [contradiction|]. cbn [find_last_from] in H.
  destruct (find_last_from p l (S i)) eqn:E; [discriminate|].
  destruct (p x) eqn:Px; [discriminate|]. destruct Hin as [<-|Hin]; eauto.
Qed.

Lemma find_last_existsb {A} (p : A -> bool) l :
  existsb p l = true -> exists k a, find_last p l = Some (k, a).
Proof.
  unfold find_last. intros H. destruct (find_last_from p l 0) as [[k a]|] eqn:E; [eauto|].
  apply existsb_exists in H. destruct H as (a & Hin & Pa).
  rewrite (find_last_from_none p l 0 E a Hin) in Pa. discriminate.
Qed.

Lemma fget_last_app_one l f b k :
  fget_last (l ++ [(f, b)]) k = if String.eqb f k then Some b else fget_last l k.
Proof.
  induction l as [|[f' b'] l IH]; simpl.
  - destruct (String.eqb f k); reflexivity.
  - rewrite IH. destruct (String.eqb f k); reflexivity.
Qed.

Section MacroLookup.
  Variable nm : names.
  Variable group : string.
  Variable pc : Z.
  Variable hd : bool.

  Let pre := macro_prefix nm group pc.
  Let case_fn := fun c : label * list cmd => (macro_case_name nm group pc (fst c), macro_case_body nm hd c).

  Lemma case_name_eqb (l l' : label) :
    String.eqb (macro_case_name nm group pc l) (pre +++ label_str l') = label_eqb l l'.
  Proof.
    rewrite macro_case_name_eq. fold pre.
    destruct (label_eqb_spec l l') as [->|N].
    - apply String.eqb_refl.
    - apply String.eqb_neq. intros H. apply append_inj_l in H. apply label_str_inj in H. contradiction.
  Qed.

  Lemma fget_last_cases (l' : label) : forall cases i,
      fget_last (map case_fn cases) (pre +++ label_str l') =
      match find_last_from (fun c => label_eqb (fst c) l') cases i with
      | Some (_, c) => Some (macro_case_body nm hd c)
      | None => None
      end.
  Proof.
    induction cases as [|c cases IH]; intros i; cbn [map fget_last find_last_from]; [reflexivity|].
    unfold case_fn at 1. cbn [fst snd]. rewrite (IH (S i)).
    destruct (find_last_from (fun c0 => label_eqb (fst c0) l') cases (S i)) as [[k c']|]; [reflexivity|].
    rewrite case_name_eqb. destruct (label_eqb (fst c) l'); reflexivity.
  Qed.

  Lemma select_name_neq (l' : label) :
    String.eqb (macro_select_name nm group pc) (pre +++ label_str l') = false.
  Proof.
    rewrite macro_select_name_eq. fold pre. apply String.eqb_neq. intros H. apply append_inj_l in H.
    destruct l' as [z|]; cbn in H; [|discriminate]. symmetry in H. now apply z_dec_not_select in H.
  Qed.
End MacroLookup.

Lemma find_last_from_ext {A} (p q : A -> bool) : (forall a, p a = q a) ->
  forall l i, find_last_from p l i = find_last_from q l i.
Proof.
  intros E. induction l as [|a l IH]; intros i; cbn [find_last_from]; [reflexivity|].
  now rewrite IH, E.
Qed.

Section MacroCall.
  Variable ft : string -> option (list cmd).
  Variable env : nat -> state -> state.

  Lemma steps_callwith_hit me sel stor pre key v body st st' :
    ft sel = Some [CMacroCall pre key] ->
    stg st (stor +++ " " +++ key)%string = Some v ->
    ft (pre +++ z_dec v) = Some body ->
    runs ft env no_menv body st st' ->
    steps ft env me (CCallWith sel stor) st st'.
  Proof.
    intros Hsel Hstg Hf (F & H). exists (S (S F)), (r_ok 0).
    cbn [exec]. rewrite Hsel. cbn [seq_run exec]. rewrite Hstg, Hf, H. reflexivity.
  Qed.

  Lemma steps_callwith_miss me sel stor pre key v st :
    ft sel = Some [CMacroCall pre key] ->
    stg st (stor +++ " " +++ key)%string = Some v ->
    ft (pre +++ z_dec v) = None ->
    steps ft env me (CCallWith sel stor) st st.
  Proof.
    intros Hsel Hstg Hf. exists 2%nat, (r_ok 0).
    cbn [exec]. rewrite Hsel. cbn [seq_run exec]. rewrite Hstg, Hf. reflexivity.
  Qed.

  Lemma steps_store_get me key x st :
    steps ft env me (CExecute [MStore SResult (DStorage key)] (CGet x)) st
          (mkState (sc st) (supd (stg st) key (Some (rd (sc st) x))) (tr st)).
  Proof.
    unfold rd. destruct (sc st x) as [v|] eqn:E.
    - exists 2%nat, (r_ok v). cbn [exec run_mods app]. rewrite E. reflexivity.
    - exists 2%nat, r_fail. cbn [exec run_mods app]. rewrite E. reflexivity.
  Qed.
End MacroCall.

Section MacroSem.
  Variable nm : names.
  Variable group : string.
  Variable x : score.
  Variable cases : list (label * list cmd).
  Variable pc : Z.
  Variable ft : string -> option (list cmd).
  Variable env : nat -> state -> state.
  Variable B : nat -> state -> state.          (* meaning of the body of the k-th entry *)

  Let hd := has_default cases.
  Let found := found_score nm.
  Let pre := macro_prefix nm group pc.

  Definition bodies_ok_macro : Prop :=
    forall k c, nth_error cases k = Some c -> forall st, runs ft env no_menv (snd c) st (B k st).

  (* the function table holds the emitted functions, and nothing else under the dispatcher's prefix *)
  Definition ft_agrees_macro (fs : list func) : Prop :=
    (forall f b, fget_last fs f = Some b -> ft f = Some b) /\
    (forall w, fget_last fs (pre +++ z_dec w) = None -> ft (pre +++ z_dec w) = None).

  Definition macro_final (st : state) : state :=
    let st0 := if hd then set_sc st found 0 else st in
    let v := rd (sc st0) x in
    let st1 := mkState (sc st0) (supd (stg st0) (switch_key_path nm) (Some v)) (tr st0) in
    match find_last (fun c => label_eqb (fst c) (LNum v)) cases with
    | Some (k, _) => let s := B k st1 in if hd then set_sc s found 1 else s
    | None => match find_last (fun c => label_eqb (fst c) LDefault) cases with
              | Some (k, _) => B k st1
              | None => st1
              end
    end.

  Hypothesis HB : bodies_ok_macro.

  Lemma find_last_nth {A} (p : A -> bool) l k a :
    find_last p l = Some (k, a) -> nth_error l k = Some a /\ p a = true.
  Proof.
    unfold find_last. intros H. destruct (find_last_from_spec p l 0 k a H) as (_ & Hn & Hp & _).
    rewrite Nat.sub_0_r in Hn. auto.
  Qed.

  Lemma parse_switch_macro_exact cmds fs pc' :
    parse_switch_macro nm group x cases pc = (cmds, fs, pc') ->
    ft_agrees_macro fs ->
    forall st, runs ft env no_menv cmds st (macro_final st).
  Proof.
    intros H [Hft1 Hft2] st. unfold parse_switch_macro in H. fold hd found in H.
    injection H as <- <- <-.
    set (case_fn := fun c : label * list cmd =>
                      (macro_case_name nm group pc (fst c), macro_case_body nm hd c)) in *.
    set (sel := macro_select_name nm group pc) in *.
    unfold macro_final.
    set (st0 := if hd then set_sc st found 0 else st).
    set (v := rd (sc st0) x).
    set (st1 := mkState (sc st0) (supd (stg st0) (switch_key_path nm) (Some v)) (tr st0)).
    (* lookups *)
    assert (Lsel : ft sel = Some [CMacroCall pre "switch_key"]).
    { apply Hft1. rewrite fget_last_app_one. unfold sel. now rewrite String.eqb_refl. }
    assert (Lcase : forall l',
               fget_last (map case_fn cases ++ [(sel, [CMacroCall pre "switch_key"])]) (pre +++ label_str l') =
               match find_last (fun c => label_eqb (fst c) l') cases with
               | Some (_, c) => Some (macro_case_body nm hd c) | None => None end).
    { intros l'. rewrite fget_last_app_one. unfold sel, pre. rewrite select_name_neq.
      apply fget_last_cases. }
    assert (Hkey : stg st1 (storage_id nm +++ " " +++ "switch_key")%string = Some v).
    { unfold st1. cbn [stg]. unfold switch_key_path. apply supd_same. }
    (* prelude *)
    eapply runs_app with (st1 := st0).
    { unfold st0. destruct hd; [|apply runs_nil].
      eapply runs_cons; [apply steps_set|apply runs_nil]. }
    eapply runs_cons; [apply steps_store_get|]. fold v. fold st1.
    pose proof (Lcase (LNum v)) as Lv. cbn [label_str] in Lv.
    destruct (find_last (fun c => label_eqb (fst c) (LNum v)) cases) as [[k c]|] eqn:Fv.
    - (* a case is labelled v: its body runs (then the found flag), default does not *)
      destruct (find_last_nth _ _ _ _ Fv) as [Hn Hp]. cbn beta in Hp.
      assert (Hc : fst c = LNum v) by (destruct (label_eqb_spec (fst c) (LNum v)); congruence).
      assert (Hbody : runs ft env no_menv (macro_case_body nm hd c) st1
                           (if hd then set_sc (B k st1) found 1 else B k st1)).
      { unfold macro_case_body. rewrite Hc. cbn [is_default negb]. rewrite andb_true_r.
        destruct hd.
        - eapply runs_app; [apply (HB _ _ Hn)|]. eapply runs_cons; [apply steps_set|apply runs_nil].
        - apply (HB _ _ Hn). }
      eapply runs_cons.
      { eapply steps_callwith_hit; [exact Lsel|exact Hkey|apply Hft1; exact Lv|exact Hbody]. }
      destruct hd; [|apply runs_nil].
      eapply runs_cons; [|apply runs_nil]. apply steps_if_skip.
      cbn [test_true negb set_sc sc]. fold found. rewrite upd_same. reflexivity.
    - (* no case is labelled v *)
      eapply runs_cons.
      { eapply steps_callwith_miss; [exact Lsel|exact Hkey|apply Hft2; exact Lv]. }
      pose proof (Lcase LDefault) as Ld. cbn [label_str] in Ld.
      destruct hd eqn:Ehd.
      + assert (Hex : exists k c, find_last (fun c => label_eqb (fst c) LDefault) cases = Some (k, c)).
        { apply find_last_existsb. unfold hd, has_default in Ehd. rewrite <- Ehd.
          clear. induction cases as [|[l b] r IH]; cbn; [reflexivity|]. rewrite IH.
          destruct l; reflexivity. }
        destruct Hex as (k & c & Fd). rewrite Fd in Ld |- *.
        destruct (find_last_nth _ _ _ _ Fd) as [Hn Hp]. cbn beta in Hp.
        assert (Hc : fst c = LDefault) by (destruct (label_eqb_spec (fst c) LDefault); congruence).
        eapply runs_cons; [|apply runs_nil]. apply steps_if_run.
        * cbn [test_true]. unfold st1, st0. cbn [sc set_sc]. fold found. rewrite upd_same. reflexivity.
        * eapply steps_call; [apply Hft1; rewrite macro_case_name_eq; exact Ld|].
          unfold macro_case_body. rewrite Hc. cbn [is_default negb]. rewrite andb_false_r.
          apply (HB _ _ Hn).
      + destruct (find_last (fun c => label_eqb (fst c) LDefault) cases) as [[k c]|] eqn:Fd.
        * exfalso. destruct (find_last_nth _ _ _ _ Fd) as [Hn Hp]. cbn beta in Hp.
          unfold hd, has_default in Ehd.
          assert (existsb (fun c0 => is_default (fst c0)) cases = true); [|congruence].
          apply existsb_exists. exists c. split; [eapply nth_error_In; eauto|].
          destruct (fst c); [discriminate|reflexivity].
        * apply runs_nil.
  Qed.
End MacroSem.

(* ================================================================== source-level reading *)

(* which entry the source program selects for the value v: the (last) case labelled v, else the
   (last) default, else none *)
Definition select_entry (ls : list label) (v : Z) : option nat :=
  match find_last (fun l => label_eqb l (LNum v)) ls with
  | Some (k, _) => Some k
  | None => match find_last (fun l => label_eqb l LDefault) ls with
            | Some (k, _) => Some k
            | None => None
            end
  end.
Definition run_selected (B : nat -> state -> state) (ls : list label) (v : Z) (st : state) : state :=
  match select_entry ls v with Some k => B k st | None => st end.

Fixpoint consec (e : Z) (n : nat) : list Z :=
  match n with O => [] | S m => e :: consec (e + 1) m end.

Lemma consec_length e n : length (consec e n) = n.
Proof. revert e. induction n; intros; cbn; auto. Qed.

Lemma find_last_from_map {A C} (g : A -> C) (p : C -> bool) : forall l i,
    find_last_from p (map g l) i =
    match find_last_from (fun a => p (g a)) l i with Some (k, a) => Some (k, g a) | None => None end.
Proof.
  induction l as [|a l IH]; intros i; cbn [map find_last_from]; [reflexivity|].
  rewrite IH. destruct (find_last_from (fun a0 => p (g a0)) l (S i)) as [[k a']|]; [reflexivity|].
  destruct (p (g a)); reflexivity.
Qed.

Lemma find_last_consec v : forall n e i,
    find_last_from (fun l => label_eqb l (LNum v)) (map LNum (consec e n)) i =
    if (e <=? v) && (v <? e + Z.of_nat n) then Some ((i + Z.to_nat (v - e))%nat, LNum v) else None.
Proof.
  induction n as [|n IH]; intros e i; cbn [consec map find_last_from].
  - replace ((e <=? v) && (v <? e + Z.of_nat 0)) with false; [reflexivity|].
    symmetry. apply andb_false_iff. destruct (Z.leb_spec e v); [right; apply Z.ltb_ge; lia|now left].
  - rewrite IH. cbn [label_eqb].
    destruct (Z.leb_spec (e + 1) v) as [L1|L1]; cbn [andb].
    + destruct (Z.ltb_spec v (e + 1 + Z.of_nat n)) as [L2|L2].
      * replace ((e <=? v) && (v <? e + Z.of_nat (S n))) with true
          by (symmetry; apply andb_true_iff; split; [apply Z.leb_le|apply Z.ltb_lt]; lia).
        do 2 f_equal. lia.
      * replace (e =? v) with false by (symmetry; apply Z.eqb_neq; lia).
        replace ((e <=? v) && (v <? e + Z.of_nat (S n))) with false; [reflexivity|].
        symmetry. apply andb_false_iff. right. apply Z.ltb_ge. lia.
    + destruct (Z.eqb_spec e v) as [->|N].
      * replace ((v <=? v) && (v <? v + Z.of_nat (S n))) with true
          by (symmetry; apply andb_true_iff; split; [apply Z.leb_le|apply Z.ltb_lt]; lia).
        do 2 f_equal. lia.
      * replace ((e <=? v) && (v <? e + Z.of_nat (S n))) with false; [reflexivity|].
        symmetry. apply andb_false_iff. left. apply Z.leb_gt. lia.
Qed.

Lemma find_last_consec_default : forall n e i,
    find_last_from (fun l => label_eqb l LDefault) (map LNum (consec e n)) i = None.
Proof. induction n as [|n IH]; intros e i; cbn [consec map find_last_from]; [reflexivity|]. now rewrite IH. Qed.

Lemma select_entry_consec e n v :
  select_entry (map LNum (consec e n)) v =
  if (e <=? v) && (v <? e + Z.of_nat n) then Some (Z.to_nat (v - e)) else None.
Proof.
  unfold select_entry, find_last. rewrite find_last_consec, find_last_consec_default.
  destruct ((e <=? v) && (v <? e + Z.of_nat n)); reflexivity.
Qed.

(* the binary-search result, read at source level *)
Lemma bst_final_select B tmp x start n st :
  bst_final B tmp x start (Z.of_nat n) st =
  run_selected B (map LNum (consec start n)) (rd (sc st) x) (fst (do_op st tmp OAssign x)).
Proof.
  unfold bst_final, run_selected. rewrite select_entry_consec.
  destruct ((start <=? rd (sc st) x) && (rd (sc st) x <? start + Z.of_nat n)); reflexivity.
Qed.

(* the macro result, read at source level: the selected body, then the found flag if a default is
   declared and a numbered case was taken *)
Lemma macro_final_select nm x cases B st :
  macro_final nm x cases B st =
  let hd := has_default cases in
  let st0 := if hd then set_sc st (found_score nm) 0 else st in
  let v := rd (sc st0) x in
  let st1 := mkState (sc st0) (supd (stg st0) (switch_key_path nm) (Some v)) (tr st0) in
  let s := run_selected B (map fst cases) v st1 in
  match find_last (fun l => label_eqb l (LNum v)) (map fst cases) with
  | Some _ => if hd then set_sc s (found_score nm) 1 else s
  | None => s
  end.
Proof.
  unfold macro_final, run_selected, select_entry, find_last. cbn zeta.
  rewrite !find_last_from_map.
  destruct (find_last_from _ cases 0) as [[k c]|]; [reflexivity|].
  destruct (find_last_from _ cases 0) as [[k c]|]; reflexivity.
Qed.

(* ------------------------------------------------------------------ switch(): the label rule *)

Lemma check_labels_bst c : is_macro c = false -> forall ls e,
    check_labels c e ls = Ok tt -> ls = map LNum (consec e (length ls)).
Proof.
  intros Hm. induction ls as [|l ls IH]; intros e H; [reflexivity|]. cbn [check_labels] in H.
  rewrite Hm in H. cbn [negb] in H. destruct l as [z|].
  - destruct (Z.eqb_spec z e) as [->|N].
    + cbn [length consec map]. f_equal. auto.
    + destruct (require_fails _ _); discriminate.
  - destruct (require_fails _ _); discriminate.
Qed.

Lemma compile_switch_inv nm c x entries pc sid r :
  compile_switch nm c x entries pc sid = Ok r ->
  exists start b rest, entries = (LNum start, b) :: rest /\
    check_labels c start (map fst entries) = Ok tt /\
    parse_switch nm c SWITCH_CASE_NAME x (map (fun e => (fst e, body_of (snd e))) entries)
                 start true pc sid = Ok r.
Proof.
  unfold compile_switch. destruct entries as [|[[start|] b] rest]; try discriminate.
  destruct (check_labels c start _) as [[]|e] eqn:E; [|discriminate].
  intros H. exists start, b, rest. auto.
Qed.

(* ------------------------------------------------------------------ function tables *)

Lemma fget_last_in_nodup : forall (fs : list func) f b,
    NoDup (map fst fs) -> In (f, b) fs -> fget_last fs f = Some b.
Proof.
  induction fs as [|[f' b'] fs IH]; intros f b N Hin; [contradiction|]. cbn [map fst] in N.
  inversion N as [|? ? Hn N']; subst. cbn [fget_last]. destruct Hin as [E|Hin].
  - injection E as -> ->. rewrite String.eqb_refl.
    destruct (fget_last fs f) eqn:G; [|reflexivity]. exfalso. apply Hn.
    clear -G. induction fs as [|[g c] fs IH]; [discriminate|]. cbn [fget_last] in G. cbn [map fst].
    destruct (fget_last fs f) eqn:G2; [right; auto|].
    destruct (String.eqb_spec g f); [left; auto|discriminate].
  - now rewrite (IH _ _ N' Hin).
Qed.

Lemma hardcode_labels_consec b cnt :
  hardcode_labels b cnt = consec b (Z.to_nat (cnt - b + 1)).
Proof.
  unfold hardcode_labels. generalize (Z.to_nat (cnt - b + 1)) as n. intros n.
  assert (G : forall n e k, map (fun i => e + Z.of_nat i) (seq k n) = consec (e + Z.of_nat k) n).
  { induction n0 as [|m IH]; intros e k; cbn [seq map consec]; [reflexivity|].
    f_equal. rewrite IH. f_equal. lia. }
  rewrite G. f_equal. lia.
Qed.

(* ================================================================== switch(): both strategies *)

Definition cases_of (entries : list entry) : list (label * list cmd) :=
  map (fun e => (fst e, body_of (snd e))) entries.

Lemma cases_of_labels entries : map fst (cases_of entries) = map fst entries.
Proof. unfold cases_of. rewrite map_map. reflexivity. Qed.

Theorem compile_switch_exact nm c x entries pc sid cmds fs pc' sid' :
  compile_switch nm c x entries pc sid = Ok (cmds, fs, pc', sid') ->
  if is_macro c then
    forall ft env B,
      ft_agrees_macro nm SWITCH_CASE_NAME pc ft fs ->
      bodies_ok_macro (cases_of entries) ft env B ->
      forall st, runs ft env no_menv cmds st (macro_final nm x (cases_of entries) B st)
  else
    (exists start, map fst entries = map LNum (consec start (length entries))) /\
    forall ft env B,
      (forall f b, In (f, b) fs -> ft f = Some b) ->
      bodies_ok_bst (tmp_score nm sid) (map snd (cases_of entries)) ft env B ->
      forall st, runs ft env no_menv cmds st
                      (run_selected B (map fst entries) (rd (sc st) x)
                                    (fst (do_op st (tmp_score nm sid) OAssign x))).
Proof.
  intros H. destruct (compile_switch_inv _ _ _ _ _ _ _ H) as (start & b0 & rest & He & Hl & Hp).
  fold (cases_of entries) in Hp. unfold parse_switch in Hp.
  destruct (is_macro c) eqn:Hm.
  - destruct (parse_switch_macro nm SWITCH_CASE_NAME x (cases_of entries) pc) as [[cm fm] pm] eqn:E.
    injection Hp as <- <- <- <-. intros ft env B Hft HB st.
    eapply parse_switch_macro_exact; eauto.
  - pose proof (check_labels_bst c Hm _ _ Hl) as Hc. rewrite map_length in Hc.
    split; [eauto|]. intros ft env B Hft HB st.
    pose proof (parse_switch_bst_exact _ _ _ _ _ _ _ _ _ _ _ _ ft env B Hp (or_introl eq_refl) Hft HB st) as R.
    rewrite bst_final_select in R. unfold cases_of in R at 1. rewrite !map_length in R.
    rewrite <- Hc in R. exact R.
Qed.

(* ------------------------------------------------------------------ Hardcode.switch *)

Definition hard_cases (body : Z -> list cmd) (begin_at count : Z) : list (label * list cmd) :=
  map (fun i => (LNum i, body i)) (hardcode_labels begin_at count).

Lemma hard_cases_labels body b cnt :
  map fst (hard_cases body b cnt) = map LNum (consec b (Z.to_nat (cnt - b + 1))).
Proof. unfold hard_cases. rewrite map_map. cbn [fst]. now rewrite hardcode_labels_consec. Qed.

Theorem compile_hardcode_exact nm c x body b cnt pc sid cmds fs pc' sid' :
  compile_hardcode nm c x body b cnt pc sid = Ok (cmds, fs, pc', sid') ->
  if is_macro c then
    forall ft env B,
      ft_agrees_macro nm HARDCODE_SWITCH_NAME pc ft fs ->
      bodies_ok_macro (hard_cases body b cnt) ft env B ->
      forall st, runs ft env no_menv cmds st (macro_final nm x (hard_cases body b cnt) B st)
  else
    forall ft env B,
      (forall f bd, In (f, bd) fs -> ft f = Some bd) ->
      bodies_ok_bst (tmp_score nm sid) (map snd (hard_cases body b cnt)) ft env B ->
      forall st, runs ft env no_menv cmds st
                      (run_selected B (map LNum (consec b (Z.to_nat (cnt - b + 1)))) (rd (sc st) x)
                                    (fst (do_op st (tmp_score nm sid) OAssign x))).
Proof.
  unfold compile_hardcode, parse_switch. fold (hard_cases body b cnt). intros H.
  destruct (is_macro c) eqn:Hm.
  - destruct (parse_switch_macro nm HARDCODE_SWITCH_NAME x (hard_cases body b cnt) pc) as [[cm fm] pm] eqn:E.
    injection H as <- <- <- <-. intros ft env B Hft HB st.
    eapply parse_switch_macro_exact; eauto.
  - intros ft env B Hft HB st.
    pose proof (parse_switch_bst_exact _ _ _ _ _ _ _ _ _ _ _ _ ft env B H (or_introl eq_refl) Hft HB st) as R.
    rewrite bst_final_select in R. rewrite map_length in R.
    assert (L : length (hard_cases body b cnt) = Z.to_nat (cnt - b + 1)).
    { unfold hard_cases, hardcode_labels. now rewrite !map_length, seq_length. }
    rewrite L in R. exact R.
Qed.

(* the labels of Hardcode.switch are begin_at .. count, so exactly body v runs for begin_at <= v <= count *)
Lemma select_hardcode b cnt v :
  select_entry (map LNum (consec b (Z.to_nat (cnt - b + 1)))) v =
  if (b <=? v) && (v <=? cnt) then Some (Z.to_nat (v - b)) else None.
Proof.
  rewrite select_entry_consec.
  destruct (Z.leb_spec b v) as [L|L]; cbn [andb]; [|reflexivity].
  destruct (Z.leb_spec v cnt) as [L2|L2].
  - replace (v <? b + Z.of_nat (Z.to_nat (cnt - b + 1))) with true; [reflexivity|].
    symmetry. apply Z.ltb_lt. lia.
  - replace (v <? b + Z.of_nat (Z.to_nat (cnt - b + 1))) with false; [reflexivity|].
    symmetry. apply Z.ltb_ge. lia.
Qed.

Lemma hardcode_labels_select body b cnt v :
  map fst (hard_cases body b cnt) = map LNum (consec b (Z.to_nat (cnt - b + 1))) /\
  select_entry (map LNum (consec b (Z.to_nat (cnt - b + 1)))) v =
  if (b <=? v) && (v <=? cnt) then Some (Z.to_nat (v - b)) else None.
Proof. split; [apply hard_cases_labels|apply select_hardcode]. Qed.

(* ------------------------------------------------------------------ bodies given as abstract sub-programs *)

(* case k is the abstract sub-program  ext k  (any state transformer: `env (ext k)`) *)
Definition ext_bodies (ext : nat -> nat) (n : nat) : list (list cmd) :=
  map (fun k => [CExt (ext k)]) (seq 0 n).
Definition ext_meaning (env : nat -> state -> state) (ext : nat -> nat) (k : nat) (st : state) : state :=
  log (env (ext k) st) (EExt (ext k)).

Lemma ext_bodies_nth ext n k body :
  nth_error (ext_bodies ext n) k = Some body -> body = [CExt (ext k)].
Proof.
  unfold ext_bodies. intros H. rewrite nth_error_map in H.
  destruct (nth_error (seq 0 n) k) as [j|] eqn:E; [|discriminate]. cbn in H. injection H as <-.
  assert (k < n)%nat.
  { assert (Hs : nth_error (seq 0 n) k <> None) by congruence.
    apply nth_error_Some in Hs. now rewrite seq_length in Hs. }
  assert (j = k).
  { pose proof (nth_error_nth _ _ 0%nat E) as N. rewrite seq_nth in N by assumption. lia. }
  now subst.
Qed.

Lemma ext_bodies_ok_bst tmp ft env ext n :
  (forall j st, sc (env j st) tmp = sc st tmp) ->
  bodies_ok_bst tmp (ext_bodies ext n) ft env (ext_meaning env ext).
Proof.
  intros Hp k body Hn st. apply ext_bodies_nth in Hn. subst body. split.
  - eapply runs_cons; [apply steps_ext|apply runs_nil].
  - unfold ext_meaning, log. cbn [sc]. apply Hp.
Qed.

(* ================================================================== well-formedness, names, strategy *)

Lemma strategy_table c :
  strategy_of c = if (16 <=? pack_format c) && negb (force_bst c) then Macro else Bst.
Proof. reflexivity. Qed.

Lemma parse_switch_bst_inv nm group x bodies start guard1 pc sid cmds fs pc' sid' :
  parse_switch_bst nm group x bodies start guard1 pc sid = Ok (cmds, fs, pc', sid') ->
  let n := Z.of_nat (length bodies) in
  let tmp := tmp_score nm sid in
  1 <= n /\ sid' = sid + 1 /\
  bst (length bodies) nm group tmp bodies start start (start + n - 1) pc (pc + 1) = (fs, pc') /\
  cmds = [COp tmp OAssign x;
          if guard1 && (n =? 1)
          then CExecute [MIf true (Matches tmp (Exact start))] (CCall (priv_path nm group (z_dec pc)))
          else CCall (priv_path nm group (z_dec pc))].
Proof.
  unfold parse_switch_bst. cbn zeta.
  destruct (Z.eqb_spec (Z.of_nat (length bodies)) 0) as [E|N]; [discriminate|].
  destruct (bst _ _ _ _ _ _ _ _ _ _) as [fs0 pc0] eqn:EB. intros H. injection H as <- <- <- <-.
  repeat split; auto. lia.
Qed.

Lemma parse_switch_bst_names nm group x bodies start guard1 pc sid cmds fs pc' sid' :
  parse_switch_bst nm group x bodies start guard1 pc sid = Ok (cmds, fs, pc', sid') ->
  NoDup (map fst fs) /\ pc < pc' /\
  (forall f b, In (f, b) fs -> exists k, f = priv_path nm group (z_dec k) /\ pc <= k < pc').
Proof.
  intros H. destruct (parse_switch_bst_inv _ _ _ _ _ _ _ _ _ _ _ _ H) as (Hn & _ & EB & _).
  destruct (bst_counts _ _ _ _ _ _ _ _ _ _ _ _ EB ltac:(lia)) as (Hle & cs & M & N & R).
  split; [eapply bst_names_nodup; eauto; lia|]. split; [lia|].
  intros f b Hin. assert (Hf : In f (map fst fs)) by (apply in_map_iff; exists (f, b); auto).
  unfold func in *. rewrite M in Hf. apply in_map_iff in Hf. destruct Hf as (k & <- & Hk).
  exists k. split; [reflexivity|]. apply R in Hk. lia.
Qed.

Lemma parse_switch_bst_wf nm group x bodies start guard1 pc sid cmds fs pc' sid' :
  parse_switch_bst nm group x bodies start guard1 pc sid = Ok (cmds, fs, pc', sid') ->
  in_int32 start -> in_int32 (start + Z.of_nat (length bodies) - 1) ->
  (forall body, In body bodies -> forallb wf_cmd body = true) ->
  forallb wf_cmd cmds = true /\ forall f b, In (f, b) fs -> forallb wf_cmd b = true.
Proof.
  intros H I1 I2 Hb. destruct (parse_switch_bst_inv _ _ _ _ _ _ _ _ _ _ _ _ H) as (Hn & _ & EB & ->).
  split.
  - destruct (guard1 && _); cbn; [|reflexivity]. rewrite (proj2 (in_int32b_spec _) I1). reflexivity.
  - eapply bst_wf; eauto; lia.
Qed.

(* a function table exists: the emitted list itself, read with "last definition wins" *)
Lemma bst_table_exists nm group x bodies start guard1 pc sid cmds fs pc' sid' :
  parse_switch_bst nm group x bodies start guard1 pc sid = Ok (cmds, fs, pc', sid') ->
  forall f b, In (f, b) fs -> fget_last fs f = Some b.
Proof.
  intros H f b Hin. apply fget_last_in_nodup; [|exact Hin].
  now destruct (parse_switch_bst_names _ _ _ _ _ _ _ _ _ _ _ _ H).
Qed.

Lemma macro_table_exists nm group pc fs : ft_agrees_macro nm group pc (fget_last fs) fs.
Proof. split; auto. Qed.

(* ------------------------------------------------------------------ the statements of DESIGN §6, on abstract bodies *)

Theorem bst_exact_ext nm group x start n ext guard1 pc sid cmds fs pc' sid' ft env :
  parse_switch_bst nm group x (ext_bodies ext n) start guard1 pc sid = Ok (cmds, fs, pc', sid') ->
  guard1 = true \/ (2 <= n)%nat ->
  (forall f b, In (f, b) fs -> ft f = Some b) ->
  (forall j st, sc (env j st) (tmp_score nm sid) = sc st (tmp_score nm sid)) ->
  forall st,
    let v := rd (sc st) x in
    let st0 := fst (do_op st (tmp_score nm sid) OAssign x) in
    exists F, exec_list ft env F cmds st =
              Some (if (start <=? v) && (v <? start + Z.of_nat n)
                    then log (env (ext (Z.to_nat (v - start))) st0) (EExt (ext (Z.to_nat (v - start))))
                    else st0).
Proof.
  intros H Hg Hft Hp st. cbn zeta.
  assert (L : length (ext_bodies ext n) = n) by (unfold ext_bodies; now rewrite map_length, seq_length).
  pose proof (parse_switch_bst_exact _ _ _ _ _ _ _ _ _ _ _ _ ft env (ext_meaning env ext) H
                                     ltac:(rewrite L; exact Hg) Hft
                                     (ext_bodies_ok_bst _ ft env ext n Hp) st) as R.
  rewrite L in R. exact R.
Qed.

Definition ext_cases (labels : list label) (ext : nat -> nat) : list (label * list cmd) :=
  map (fun p => (snd p, [CExt (ext (fst p))])) (combine (seq 0 (length labels)) labels).

Lemma ext_cases_labels labels ext : map fst (ext_cases labels ext) = labels.
Proof.
  unfold ext_cases. rewrite map_map. cbn [fst].
  generalize 0%nat. induction labels as [|l ls IH]; intros s; cbn; [reflexivity|]. now rewrite IH.
Qed.

Lemma ext_cases_nth labels ext k c :
  nth_error (ext_cases labels ext) k = Some c -> snd c = [CExt (ext k)].
Proof.
  unfold ext_cases. assert (G : forall ls s k c,
    nth_error (map (fun p : nat * label => (snd p, [CExt (ext (fst p))])) (combine (seq s (length ls)) ls)) k = Some c ->
    snd c = [CExt (ext (s + k)%nat)]).
  { induction ls as [|l ls IH]; intros s k0 c0 H; cbn in H; [destruct k0; discriminate|].
    destruct k0 as [|k0]; cbn in H.
    - injection H as <-. cbn. now rewrite Nat.add_0_r.
    - apply IH in H. rewrite H. do 3 f_equal. lia. }
  intros H. apply G in H. exact H.
Qed.

Theorem macro_exact_ext nm group x labels ext pc cmds fs pc' ft env :
  parse_switch_macro nm group x (ext_cases labels ext) pc = (cmds, fs, pc') ->
  ft_agrees_macro nm group pc ft fs ->
  forall st,
    exists F, exec_list ft env F cmds st =
              Some (macro_final nm x (ext_cases labels ext) (ext_meaning env ext) st).
Proof.
  intros H Hft st. eapply parse_switch_macro_exact; eauto.
  intros k c Hn st'. rewrite (ext_cases_nth _ _ _ _ Hn).
  eapply runs_cons; [apply steps_ext|apply runs_nil].
Qed.

(* ------------------------------------------------------------------ what goes wrong without the guard / the frame *)

(* the root call of a one-case tree with guard_single_case = False (Trigger.setup / RightClick.setup
   still call parse_switch this way; `switch` and Hardcode.switch did before the fix) *)
Lemma unguarded_single_case_runs_always :
  let nm := default_names in
  let x := ("$x", "__variable__")%string in
  exists cmds fs pc' sid',
    parse_switch_bst nm SWITCH_CASE_NAME x [[CExt 0]] 3 false 0 0 = Ok (cmds, fs, pc', sid') /\
    forall v, exists st',
      exec_list (fget_last fs) (fun _ s => s) 5 cmds
                (mkState (fun k => if score_eqb k x then Some v else None) (fun _ => None) []) = Some st' /\
      tr st' = [EExt 0].
Proof.
  cbn zeta. eexists _, _, _, _. split; [reflexivity|]. intros v. eexists. split; reflexivity.
Qed.

(* a body that overwrites __switch__N (e.g. by re-entering the same switch through recursion) makes the
   tree run a second case: the frame hypothesis of bst_exact_ext cannot be dropped *)
Lemma bst_reentrant_runs_two :
  let nm := default_names in
  let x := ("$x", "__variable__")%string in
  let env := fun (j : nat) (s : state) => if Nat.eqb j 0 then set_sc s (tmp_score nm 0) 2 else s in
  exists cmds fs pc' sid',
    parse_switch_bst nm SWITCH_CASE_NAME x (ext_bodies (fun k => k) 2) 1 true 0 0 = Ok (cmds, fs, pc', sid') /\
    exists st',
      exec_list (fget_last fs) env 6 cmds
                (mkState (fun k => if score_eqb k x then Some 1 else None) (fun _ => None) []) = Some st' /\
      tr st' = [EExt 1%nat; EExt 0%nat].
Proof.
  cbn zeta. eexists _, _, _, _. split; [reflexivity|]. eexists. split; reflexivity.
Qed.
