(* Proofs.ExprClean — C02_partial: on the clean fragment the whole pipeline (render, tokens_to_tokens,
   expression_to_tree, tree_to_operations, optimize_const, lowering) followed by MC.Sem execution
   stores the value of the expression in the target, changes no other user variable, fires no tag. *)
From Coq Require Import ZArith String List Bool Lia Ascii.
From JMCV Require Import Base.Int32 Base.Dec MC.Syntax MC.Sem MC.Facts Model.Names Model.VarOp Proofs.VarOp
     Model.Expr Model.ExprSpec Model.ExprFront Model.ExprBack
     Proofs.ExprLower Proofs.ExprParse Proofs.ExprOps.
Import ListNotations.
Open Scope Z_scope.

(* ------------------------------------------------------------------ the fragment *)
Definition is_par (e : expr) : bool := match e with EPar _ => true | _ => false end.

(* a variable other than the target, or a parenthesised operation (+ - * / %) of such operands —
   except `( … ) - ( … )`, which the compiler rewrites with a constant *)
Fixpoint clean_atom (nm : names) (out : score) (e : expr) : bool :=
  match e with
  | EVar v => negb (score_eqb (score_of nm v) out)
  | EPar (EBin o a b) =>
      arith_op o && clean_atom nm out a && clean_atom nm out b
      && negb (match o with BSub => is_par a && is_par b | _ => false end)
  | _ => false
  end.
Definition clean_bin (nm : names) (out : score) (e : expr) : bool :=
  match e with
  | EBin o a b =>
      arith_op o && clean_atom nm out a && clean_atom nm out b
      && negb (match o with BSub => is_par a && is_par b | _ => false end)
  | _ => false
  end.
Definition clean (nm : names) (out : score) (e : expr) : bool := clean_atom nm out e || clean_bin nm out e.

Fixpoint evars (nm : names) (e : expr) : list score :=
  match e with
  | EVar v => [score_of nm v]
  | EConst _ => []
  | ENeg e | EPar e => evars nm e
  | EBin _ a b => evars nm a ++ evars nm b
  end.

(* ------------------------------------------------------------------ optimize_const on constant-free lists *)
Definition const_free (l : list oper2) : bool := forallb (fun o => negb (is_cconst (o_num o))) l.

Lemma split_const_free l : const_free l = true -> split_const l = (l, None).
Proof.
  induction l as [|[[v o] n] r IH]; cbn [const_free forallb split_const]; [reflexivity|].
  intros H. apply andb_true_iff in H. destruct H as [Hn Hr]. destruct n as [z|s]; [discriminate|].
  rewrite (IH Hr). reflexivity.
Qed.
Lemma flush_mid_free l : const_free l = true -> flush_mid l = (Ok l, []).
Proof. intros H. unfold flush_mid. now rewrite split_const_free. Qed.
Lemma flush_final_free l : const_free l = true -> flush_final l = (Ok l, []).
Proof. intros H. unfold flush_final. now rewrite split_const_free. Qed.

Lemma const_free_app a b : const_free (a ++ b) = const_free a && const_free b.
Proof. apply forallb_app. Qed.

Lemma opt_loop_free l : forall temp acc,
  const_free temp = true -> const_free l = true ->
  opt_loop l temp acc = (Ok (acc ++ temp ++ l), []).
Proof.
  induction l as [|[[var op] n] r IH]; intros temp acc Ht Hl.
  - cbn [opt_loop]. destruct temp as [|t0 rest].
    + now rewrite app_nil_r.
    + rewrite flush_final_free by exact Ht. rewrite bind_ok_nil. now rewrite app_nil_r.
  - cbn [opt_loop]. cbn [const_free forallb] in Hl. apply andb_true_iff in Hl. destruct Hl as [Hn Hr].
    destruct temp as [|t0 rest].
    + rewrite IH; [reflexivity| |exact Hr]. cbn [const_free forallb]. now rewrite Hn.
    + assert (Ht0 : negb (is_cconst (o_num t0)) = true).
      { cbn [const_free forallb] in Ht. now apply andb_true_iff in Ht. }
      destruct (score_eqb var (o_var t0) && (is_same_group op (o_op (last (t0 :: rest) t0))
                  || Nat.eqb (length (t0 :: rest)) 1 && opc_eqb (o_op t0) PEmpty)).
      * rewrite Ht0. rewrite !orb_true_r. cbn [orb].
        rewrite IH; [now rewrite <- !app_assoc| |exact Hr].
        rewrite const_free_app, Ht. cbn [const_free forallb]. now rewrite Hn.
      * rewrite flush_mid_free by exact Ht. rewrite bind_ok_nil.
        rewrite IH; [now rewrite <- !app_assoc| |exact Hr]. cbn [const_free forallb]. now rewrite Hn.
Qed.

Lemma optimize_const_free l : const_free l = true -> optimize_const l = (Ok l, []).
Proof. intros H. unfold optimize_const. now rewrite opt_loop_free. Qed.

(* ------------------------------------------------------------------ strings: temp names are injective *)
Lemma append_length (a b : string) : String.length (a ++ b) = (String.length a + String.length b)%nat.
Proof. induction a as [|c a IH]; cbn; [reflexivity|now rewrite IH]. Qed.

Lemma append_inv_tail (s : string) : forall a b : string, (a ++ s)%string = (b ++ s)%string -> a = b.
Proof.
  induction a as [|c a IH]; intros b H; destruct b as [|d b]; cbn in H.
  - reflexivity.
  - apply (f_equal String.length) in H. cbn in H. rewrite append_length in H. lia.
  - apply (f_equal String.length) in H. cbn in H. rewrite append_length in H. lia.
  - injection H as -> H. f_equal. now apply IH.
Qed.

Lemma temp_score_inj nm a b : temp_score nm a = temp_score nm b -> a = b.
Proof.
  unfold temp_score. intros H. injection H as H. cbn in H.
  repeat match type of H with String _ _ = String _ _ => injection H as H end.
  apply append_inv_tail in H. apply z_dec_inj in H. lia.
Qed.

(* ------------------------------------------------------------------ trees of clean expressions *)
Lemma ctree_shape out t : ctree out t = true -> is_const t = false.
Proof. destruct t; cbn; congruence. Qed.

Lemma mk_expr_clean out o l r :
  arith_opc o = true -> ctree out l = true -> ctree out r = true ->
  (opc_eqb o PSub && is_expr l && is_expr r = false) ->
  mk_expr o l r = NExpr o o l r \/ (mk_expr o l r = NExpr o o r l /\ (o = PAdd \/ o = PMul)).
Proof.
  intros Ho Hl Hr Hs. unfold mk_expr. rewrite (ctree_shape out l Hl). rewrite andb_false_r.
  rewrite Hs.
  destruct (is_reflective o && negb (is_expr l) && is_expr r) eqn:E; [|now left].
  right. split; [reflexivity|]. destruct o; cbn in E, Ho; try discriminate; auto.
Qed.

Lemma op_sem_comm o a b : o = PAdd \/ o = PMul -> op_sem o a b = op_sem o b a.
Proof. intros [->| ->]; cbn; f_equal; lia. Qed.

Lemma binop_op_sem o a b v : arith_op o = true -> binop_sem o a b = Some v -> op_sem (opc_of o) a b = v.
Proof.
  intros Ho H. destruct o; cbn in *; try discriminate Ho.
  - now injection H.
  - now injection H.
  - now injection H.
  - destruct (b =? 0); [discriminate|now injection H].
  - destruct (b =? 0); [discriminate|now injection H].
Qed.

Lemma arith_op_opc o : arith_op o = true -> arith_opc (opc_of o) = true.
Proof. destruct o; cbn; congruence. Qed.

Definition tree_facts (nm : names) (out : score) (e : expr) : Prop :=
  ctree out (tree_of nm e) = true /\
  (forall s, In s (tvars (tree_of nm e)) -> In s (evars nm e)) /\
  (forall f v, eval nm f e = Some v -> teval f (tree_of nm e) = v).

Lemma bin_facts nm out o a b :
  arith_op o = true ->
  tree_facts nm out a -> tree_facts nm out b ->
  is_expr (tree_of nm a) = is_par a -> is_expr (tree_of nm b) = is_par b ->
  negb (match o with BSub => is_par a && is_par b | _ => false end) = true ->
  tree_facts nm out (EBin o a b) /\ is_expr (tree_of nm (EBin o a b)) = true.
Proof.
  intros Ho (Ca & Va & Ea) (Cb & Vb & Eb) Ia Ib Hs.
  assert (Hs' : opc_eqb (opc_of o) PSub && is_expr (tree_of nm a) && is_expr (tree_of nm b) = false).
  { rewrite Ia, Ib. destruct o; cbn in *; try reflexivity. destruct (is_par a), (is_par b); cbn in *; congruence. }
  unfold tree_facts. cbn [tree_of].
  destruct (mk_expr_clean out (opc_of o) _ _ (arith_op_opc o Ho) Ca Cb Hs') as [E|[E Hc]]; rewrite E.
  - split; [|reflexivity]. repeat split.
    + cbn [ctree]. rewrite Ca, Cb, (arith_op_opc o Ho). destruct o; reflexivity.
    + intros s Hin. cbn [tvars] in Hin. cbn [evars]. apply in_app_or in Hin. apply in_or_app.
      destruct Hin; [left; now apply Va|right; now apply Vb].
    + intros f v H. cbn [eval] in H. destruct (eval nm f a) as [x|] eqn:Ex; [|discriminate].
      destruct (eval nm f b) as [y|] eqn:Ey; [|discriminate].
      cbn [teval]. rewrite (Ea f x Ex), (Eb f y Ey). now apply binop_op_sem.
  - split; [|reflexivity]. repeat split.
    + cbn [ctree]. rewrite Ca, Cb, (arith_op_opc o Ho). destruct o; reflexivity.
    + intros s Hin. cbn [tvars] in Hin. cbn [evars]. apply in_app_or in Hin. apply in_or_app.
      destruct Hin; [right; now apply Vb|left; now apply Va].
    + intros f v H. cbn [eval] in H. destruct (eval nm f a) as [x|] eqn:Ex; [|discriminate].
      destruct (eval nm f b) as [y|] eqn:Ey; [|discriminate].
      cbn [teval]. rewrite (Ea f x Ex), (Eb f y Ey). rewrite op_sem_comm by exact Hc.
      now apply binop_op_sem.
Qed.

Lemma clean_both nm out e :
  (clean_atom nm out e = true ->
     pn_atom e = true /\ tree_facts nm out e /\ is_expr (tree_of nm e) = is_par e) /\
  (clean_bin nm out e = true ->
     pn_bin e = true /\ tree_facts nm out e /\ is_expr (tree_of nm e) = true).
Proof.
  induction e as [v|z|e IH|e IH|o a IHa b IHb]; split; try (cbn; discriminate).
  - cbn [clean_atom]. intros H. split; [reflexivity|]. split; [|reflexivity].
    repeat split.
    + exact H.
    + intros s Hs. exact Hs.
    + intros f x Hx. cbn in Hx. injection Hx as <-. reflexivity.
  - intros H. destruct e as [| | | |o a b]; try (cbn in H; discriminate).
    destruct IH as [_ IH]. destruct (IH H) as (P & T & I).
    split; [exact P|]. split; [|exact I].
    destruct T as (C & V & E). repeat split; [exact C|exact V|exact E].
  - cbn [clean_bin]. intros H.
    apply andb_true_iff in H. destruct H as [H Hs]. apply andb_true_iff in H. destruct H as [H Hb].
    apply andb_true_iff in H. destruct H as [Ho Ha].
    destruct IHa as [IHa _], IHb as [IHb _].
    destruct (IHa Ha) as (Pa & Ta & Ia). destruct (IHb Hb) as (Pb & Tb & Ib).
    split; [cbn [pn_bin]; now rewrite Ho, Pa, Pb|].
    now apply bin_facts.
Qed.

Lemma clean_pn nm out e : clean nm out e = true -> pn e = true.
Proof.
  unfold clean, pn. intros H. apply orb_true_iff in H. apply orb_true_iff. destruct H as [H|H].
  - left. now apply (proj1 (clean_both nm out e)).
  - right. now apply (proj2 (clean_both nm out e)).
Qed.
Lemma clean_facts nm out e : clean nm out e = true -> tree_facts nm out e.
Proof.
  unfold clean. intros H. apply orb_true_iff in H. destruct H as [H|H].
  - now apply (proj1 (clean_both nm out e)).
  - now apply (proj2 (clean_both nm out e)).
Qed.

(* ------------------------------------------------------------------ tree_to_operations at the top *)
Lemma ctree_count out t : ctree out t = true -> count_out out t = O.
Proof.
  induction t as [z|s|i|c o l IHl r IHr]; cbn [ctree count_out]; try discriminate.
  - intros H. apply negb_true_iff in H. now rewrite H.
  - intros H. apply andb_true_iff in H. destruct H as [H Hr]. apply andb_true_iff in H. destruct H as [_ Hl].
    now rewrite IHl, IHr.
Qed.

Lemma rename_ops_shape nm out inj ov l :
  forallb op_shape l = true ->
  rename_ops nm out inj ov l = (Ok (map (ren_op (rename_temp nm out inj ov)) l), []).
Proof.
  induction l as [|[[v o] n] r IH]; cbn [forallb rename_ops map]; [reflexivity|].
  intros H. apply andb_true_iff in H. destruct H as [H Hr]. unfold op_shape in H. cbn [fst snd] in H.
  apply andb_true_iff in H. destruct H as [H _]. apply andb_true_iff in H. destruct H as [Hv Hn].
  destruct v; try discriminate. cbn [rename_var]. rewrite bind_ret_l.
  destruct n; try discriminate; cbn [rename_num]; rewrite bind_ret_l, (IH Hr), bind_ok_nil; reflexivity.
Qed.

Definition st0 : tstate := mkT [] O [] None.
Lemma Inv_st0 : Inv st0.
Proof. split; [constructor|intros k []]. Qed.

Lemma tto_top nm out c o l r :
  ctree out (NExpr c o l r) = true ->
  exists new ov,
    tree_to_operations nm (NExpr c o l r) out PEmpty =
      (Ok (map (ren_op (rename_temp nm out true ov)) new), []) /\
    (1 <= ov)%nat /\
    sem_post (NExpr c o l r) (NTemp ov) st0 new /\ forallb op_shape new = true.
Proof.
  intros Hc.
  destruct (tto_clean out _ Hc true st0 Inv_st0) as (res & st' & new & E & O & I & M & F & R & S & Sh).
  cbn [res_post] in R. destruct R as (ov & -> & Aov & _ & _ & Out).
  exists new, ov. split; [|split; [exact (avail_ge1 _ _ Inv_st0 Aov)|split; assumption]].
  unfold tree_to_operations. cbn [opc_eqb]. unfold search_for_output. rewrite (ctree_count _ _ Hc).
  fold st0. rewrite E, bind_ok_nil. rewrite Out. rewrite O. cbn [st0 t_ops]. rewrite app_nil_r, rev_involutive.
  rewrite bind_ret_l. cbn [tell_if]. rewrite bind_ret_l. cbn [orb].
  rewrite (rename_ops_shape nm out true ov new Sh), bind_ok_nil. now rewrite app_nil_r.
Qed.

(* the renaming used when the result is injected into the target *)
Lemma rename_temp_ok nm out ov (vars : list score) :
  (1 <= ov)%nat ->
  (forall n, out <> temp_score nm n) ->
  (forall s, In s vars -> s <> out /\ forall n, s <> temp_score nm n) ->
  rho_ok (rename_temp nm out true ov) vars.
Proof.
  intros Hov Hout Hvars. split.
  - intros k k' Hk Hk'. unfold rename_temp. cbn [andb].
    destruct (Nat.eqb_spec k ov) as [->|Nk], (Nat.eqb_spec k' ov) as [->|Nk']; intros H.
    + reflexivity.
    + exfalso. now apply (Hout _ H).
    + exfalso. symmetry in H. now apply (Hout _ H).
    + apply temp_score_inj in H.
      destruct (Nat.ltb_spec ov k), (Nat.ltb_spec ov k'); lia.
  - intros s k Hs Hk. destruct (Hvars s Hs) as [H1 H2]. unfold rename_temp. cbn [andb].
    destruct (Nat.eqb k ov); [exact H1|apply H2].
Qed.

(* ------------------------------------------------------------------ lowering of constant-free lists *)
Definition cmd_of (o : oper2) : cmd :=
  match o_num o with CVar s => COp (o_var o) (sop_of_opc (o_op o)) s | CConst _ => CSay EmptyString end.
Definition var_op (o : oper2) : bool := negb (is_cconst (o_num o)) && negb (opc_eqb (o_op o) PPow).

Lemma lower_vars nm l : forallb var_op l = true -> lower nm l = (Ok (map cmd_of l, []), []).
Proof.
  induction l as [|[[v o] n] r IH]; cbn [forallb lower map]; [reflexivity|].
  intros H. apply andb_true_iff in H. destruct H as [H Hr]. unfold var_op in H. cbn [o_num o_op fst snd] in H.
  apply andb_true_iff in H. destruct H as [Hn Ho]. destruct n as [z|s]; [discriminate|].
  unfold lower_one. apply negb_true_iff in Ho. rewrite Ho. unfold ret at 1. rewrite bind_ok_nil.
  rewrite (IH Hr), bind_ok_nil. reflexivity.
Qed.

Lemma ren_var_op rho l : forallb op_shape l = true -> forallb var_op (map (ren_op rho) l) = true.
Proof.
  induction l as [|[[v o] n] r IH]; cbn [forallb map]; [reflexivity|].
  intros H. apply andb_true_iff in H. destruct H as [H Hr]. rewrite (IH Hr), andb_true_r.
  unfold op_shape in H. cbn [fst snd] in H.
  apply andb_true_iff in H. destruct H as [H Ho]. apply andb_true_iff in H. destruct H as [_ Hn].
  unfold var_op, ren_op. cbn [o_num o_op fst snd]. rewrite Ho, andb_true_r.
  destruct n; try discriminate; reflexivity.
Qed.
Lemma var_op_const_free l : forallb var_op l = true -> const_free l = true.
Proof.
  unfold const_free. induction l as [|x r IH]; cbn [forallb]; [reflexivity|].
  intros H. apply andb_true_iff in H. destruct H as [H Hr]. rewrite (IH Hr), andb_true_r.
  unfold var_op in H. now apply andb_true_iff in H.
Qed.
Lemma wf_cmd_of l : forallb wf_cmd (map cmd_of l) = true.
Proof. induction l as [|x r IH]; cbn [map forallb]; [reflexivity|]. rewrite IH, andb_true_r. unfold cmd_of. destruct (o_num x); reflexivity. Qed.

(* ------------------------------------------------------------------ the theorem *)
Lemma ctree_vars out t : ctree out t = true -> forall s, In s (tvars t) -> s <> out.
Proof.
  induction t as [z|s0|i|c o l IHl r IHr]; cbn [ctree tvars]; try discriminate.
  - intros H s [<-|[]] E. subst. now rewrite score_eqb_refl in H.
  - intros H s Hs. apply andb_true_iff in H. destruct H as [H Hr]. apply andb_true_iff in H. destruct H as [_ Hl].
    apply in_app_or in Hs. destruct Hs; [now apply IHl|now apply IHr].
Qed.

Lemma render_nonempty e : pn e = true -> render e <> [].
Proof.
  unfold pn. intros H. apply orb_true_iff in H. destruct H as [H|H].
  - rewrite (render_atom e H). destruct e; try discriminate; cbn in H; discriminate.
  - destruct e as [| | | |o a b]; try discriminate. cbn [pn_bin] in H.
    apply andb_true_iff in H. destruct H as [H Hb]. apply andb_true_iff in H. destruct H as [_ Ha].
    rewrite render_bin by assumption. destruct (render a); discriminate.
Qed.

Lemma rename_temp_obj nm out inj ov k :
  snd out <> int_name nm -> var_name nm <> int_name nm -> snd (rename_temp nm out inj ov k) <> int_name nm.
Proof. intros H1 H2. unfold rename_temp. destruct (inj && Nat.eqb k ov); [exact H1|exact H2]. Qed.

Lemma ren_ops_obj nm out inj ov l :
  snd out <> int_name nm -> var_name nm <> int_name nm -> forallb op_shape l = true ->
  forall o, In o (map (ren_op (rename_temp nm out inj ov)) l) -> snd (o_var o) <> int_name nm.
Proof.
  intros H1 H2. induction l as [|[[v op] n] r IH]; cbn [forallb map]; intros Hs o Ho; [destruct Ho|].
  apply andb_true_iff in Hs. destruct Hs as [Hx Hr]. destruct Ho as [<-|Ho]; [|now apply IH].
  unfold op_shape in Hx. cbn [fst snd] in Hx. destruct v; try discriminate.
  unfold ren_op, o_var. cbn [fst snd ren_var]. now apply rename_temp_obj.
Qed.

Section Final.
  Variable ft : string -> option (list cmd).
  Variable env : nat -> state -> state.

  Theorem partial_clean nm target e st :
    let out := score_of nm target in
    clean nm out e = true ->
    (forall n, out <> temp_score nm n) ->
    (forall s n, In s (evars nm e) -> s <> temp_score nm n) ->
    snd out <> int_name nm -> var_name nm <> int_name nm ->
    exists cmds,
      compile_expr nm out PEmpty e = (Ok (cmds, []), []) /\
      forallb wf_cmd cmds = true /\
      exists st', exec_list ft env 1 cmds st = Some st' /\
        (forall v, eval nm (rd (sc st)) e = Some v -> rd (sc st') out = v) /\
        (forall s, s <> out -> (forall n, s <> temp_score nm n) -> rd (sc st') s = rd (sc st) s) /\
        stg st' = stg st /\ tr st' = tr st.
  Proof.
    intros out Hc Hout Hev Hobj Hnames.
    pose proof (clean_pn nm out e Hc) as Hpn.
    destruct (clean_facts nm out e Hc) as (Ct & Vt & Et).
    assert (Hpipe : forall ops,
               tree_to_operations nm (tree_of nm e) out PEmpty = (Ok ops, []) ->
               forallb var_op ops = true ->
               compile_expr nm out PEmpty e = (Ok (map cmd_of ops, []), [])).
    { intros ops Hops Hvo. unfold compile_expr, compile_assign.
      destruct (render e) as [|t0 tr0] eqn:Er; [exfalso; now apply (render_nonempty e Hpn)|]. rewrite <- Er.
      unfold iop_premerge. cbn [opc_eqb]. rewrite bind_ret_l.
      rewrite (ttt_pn nm e Hpn), bind_ok_nil. rewrite (ett_pn nm e Hpn), bind_ok_nil.
      rewrite Hops, bind_ok_nil. rewrite (optimize_const_free ops (var_op_const_free ops Hvo)), bind_ok_nil.
      now apply lower_vars. }
    assert (Hrun : forall ops, forallb var_op ops = true ->
               (forall o, In o ops -> snd (o_var o) <> int_name nm) ->
               exists st', exec_list ft env 1 (map cmd_of ops) st = Some st' /\
                 (forall k, rdf st' k = interp_ops ops (rdf st) k) /\ stg st' = stg st /\ tr st' = tr st).
    { intros ops Hvo Hob.
      destruct (lower_correct_gen ft env nm ops (map cmd_of ops) [] [] st [] (lower_vars nm ops Hvo) Hob)
        as (st' & E & P & _ & S & T).
      - intros z [].
      - intros z [].
      - exists st'. auto. }
    destruct (tree_of nm e) as [z|s|i|c o l r] eqn:Etree; try (cbn [ctree] in Ct; discriminate).
    - (* the expression is a single variable *)
      set (ops := [(out, PEmpty, CVar s)]).
      assert (Hvo : forallb var_op ops = true) by reflexivity.
      exists (map cmd_of ops). split; [apply Hpipe; [reflexivity|exact Hvo]|]. split; [reflexivity|].
      destruct (Hrun ops Hvo) as (st' & E & P & S & T).
      { intros o [<-|[]]. exact Hobj. }
      exists st'. split; [exact E|]. split; [|split; [|split; assumption]].
      + intros v Hv. apply Et in Hv. cbn [teval] in Hv. fold (rdf st') (rdf st). rewrite P.
        unfold ops, interp_ops. cbn [fold_left]. rewrite interp_one_same. cbn. exact Hv.
      + intros s' Hs' _. fold (rdf st') (rdf st). rewrite P. unfold ops, interp_ops. cbn [fold_left].
        apply interp_one_other. cbn. congruence.
    - (* an operation *)
      destruct (tto_top nm out c o l r Ct) as (new & ov & Hops & Hov & Sem & Sh).
      set (rho := rename_temp nm out true ov) in *.
      set (ops := map (ren_op rho) new) in *.
      assert (Hvo : forallb var_op ops = true) by (apply ren_var_op; exact Sh).
      exists (map cmd_of ops). split; [apply Hpipe; [exact Hops|exact Hvo]|]. split; [apply wf_cmd_of|].
      destruct (Hrun ops Hvo) as (st' & E & P & S & T).
      { apply ren_ops_obj; assumption. }
      assert (Hrho : rho_ok rho (tvars (NExpr c o l r))).
      { apply rename_temp_ok; [exact Hov|exact Hout|].
        intros s Hs. split; [now apply (ctree_vars out _ Ct)|]. intros n. apply Hev. now apply Vt. }
      destruct (Sem rho (rdf st) Hrho) as [Fr Vl].
      assert (Hrho_out : rho ov = out).
      { unfold rho, rename_temp. cbn [andb]. now rewrite Nat.eqb_refl. }
      exists st'. split; [exact E|]. split; [|split; [|split; assumption]].
      + intros v Hv. apply Et in Hv. fold (rdf st') (rdf st). rewrite P.
        cbn [ren_num numval] in Vl. rewrite Hrho_out in Vl. fold ops in Vl. rewrite Vl. exact Hv.
      + intros s Hs Hn. fold (rdf st') (rdf st). rewrite P. apply Fr.
        intros k _. unfold rho, rename_temp. cbn [andb]. destruct (Nat.eqb k ov); [exact Hs|apply Hn].
  Qed.
End Final.
